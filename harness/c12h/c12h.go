// Package c12h: the watchdog runner shared by the C12 harness files (injected with `go test -overlay` as
// zzverif/c12h; not part of the repository).
//
// A C12 harness describes one "part": how to produce VALID seed files with the repository's own writers, how to
// derive structure-aware mutations from them (deterministically from the seed of the run) and how to run one
// input through the real entry points. The runner then
//
//   - builds the seeds in the parent process and stores them under vh.OutDir(),
//   - re-executes the test binary as a CHILD under `ulimit -v` (so that an allocation bomb kills the child,
//     never the harness) which replays the inputs one by one under recover(), measures the bytes allocated by
//     each call (runtime.MemStats.TotalAlloc) and appends one line per input to a log file,
//   - restarts the child after the input that killed it (out of memory, fatal error, per-input timeout),
//   - applies the property oracle: panic / allocation above the part's budget / death / timeout = failure with a
//     stable signature `panic:<part>:<function>` or `<alloc-bomb|timeout|crash>:<part>:<entry>`,
//   - optionally writes the inputs and observations as Coq cases for YF.C12_Check.
package c12h

import (
	"bufio"
	"encoding/base64"
	"encoding/json"
	"fmt"
	"os"
	"os/exec"
	"path/filepath"
	"regexp"
	"runtime"
	"runtime/debug"
	"sort"
	"strconv"
	"strings"
	"testing"
	"time"

	"github.com/rpcpool/yellowstone-faithful/zzverif/vh"
)

// Seed is a valid file (or node) produced by the real writer, with whatever the mutators need to know about it.
type Seed struct {
	Name string   `json:"name"`
	Data []byte   `json:"data"`
	Keys [][]byte `json:"keys,omitempty"` // e.g. the keys stored in an index
	Nums []uint64 `json:"nums,omitempty"` // e.g. offsets of structure boundaries
}

// Input is one case: the entry point it exercises, the bytes, auxiliary arguments.
type Input struct {
	Entry string   // which entry point / scenario Exec must run (stable, part of failure signatures)
	Label string   // which mutation produced it (distribution only)
	Data  []byte   // the external bytes
	Aux   []uint64 // extra arguments (key number, offset, size, ...)
	Keys  [][]byte // keys to query (copied from the seed)
	Pre   []uint64 // set by Exec BEFORE the risky call: observations the model needs even when the call panics
	Pin   bool     // a systematic case: always written to the Coq case file, never sampled out
}

// Obs is what Exec reports about a run that did not panic.
type Obs struct {
	Class string   // "ok" | "error"
	Fine  string   // finer projected observation for the model ("found", "notfound", ...), optional
	Nums  []uint64 // observed numbers for the model (e.g. header fields), optional
}

// Result of one input.
type Result struct {
	I     int      `json:"i"`
	Class string   `json:"c"`           // ok | error | panic | alloc-bomb | timeout | crash
	Fine  string   `json:"f,omitempty"` // Obs.Fine
	Nums  []uint64 `json:"n,omitempty"` // Obs.Nums
	Site  string   `json:"s,omitempty"` // panic: first repository function on the stack
	Msg   string   `json:"m,omitempty"` // panic value / death reason (detail only, never compared)
	Alloc uint64   `json:"a"`           // bytes allocated while the call ran
}

// Part describes one harness part.
type Part struct {
	Name  string // report part, file names
	Rule  string // what the oracle demands (evidence)
	Seeds func(dir string, rng *vh.Rng) ([]Seed, error)
	// Gen must be deterministic in (seeds, rng): parent and children call it with equal arguments.
	Gen func(seeds []Seed, rng *vh.Rng, thorough bool) []Input
	// Exec runs the real code. It may panic; the runner recovers.
	Exec func(in *Input) Obs
	// Budget is the number of bytes one call may allocate for this input (linear in len(in.Data)).
	Budget func(in *Input) uint64
	// Coq correspondence (optional).
	CoqImports []string
	CoqType    string
	CoqChecker func(flags map[string]bool) string                // checker expression, given the measured flags
	CoqCase    func(in *Input, r *Result) (term string, ok bool) // ok=false: input outside the modelled fragment
	MaxCoq     int                                               // at most this many cases in the case file (quick tier; thorough: 4x)
	// Witness inputs of the refutation lemmas: flag name -> index into the generated inputs is not stable, so a
	// witness is an Input of its own; flag = true when the implementation neither panics nor exceeds the budget.
	Witnesses func(seeds []Seed) map[string]Input
	// FlagOf (optional) overrides how a witness result becomes a flag (default: no panic, no death, within budget).
	FlagOf func(name string, r *Result, def bool) bool
	VmemKB uint64 // ulimit -v for the child (default 4 GiB)
	// Fuzz (optional, thorough tier): builds an Input from fuzzer-chosen bytes and a selector; the package's harness
	// file must then define `func FuzzVerifC12(f *testing.F) { c12h.FuzzBody(f, part) }`.
	Fuzz     func(data []byte, sel uint64, seeds []Seed) *Input
	FuzzTime time.Duration // default 40 s
	PerInput time.Duration
}

const (
	envChild = "C12H_CHILD"
	envFrom  = "C12H_FROM"
	envLog   = "C12H_LOG"
)

// skippedSeeds: what SkipSeed recorded while Part.Seeds ran (parent process only).
var skippedSeeds []string

// SkipSeed is called by Part.Seeds for a seed that the tree under test does not write, load or answer as a valid
// file: the seed is left out of the run (Run records a note and the count "seed-skipped") instead of ending it.
func SkipSeed(name string, why interface{}) {
	w := fmt.Sprint(why)
	if len(w) > 300 {
		w = w[:300]
	}
	skippedSeeds = append(skippedSeeds, name+": "+w)
}

// KeepSeeds returns the seeds that pass check (called with the position in the given list); the others are
// recorded with SkipSeed. A panic of check counts as not passing.
func KeepSeeds(seeds []Seed, check func(i int, s *Seed) error) []Seed {
	var out []Seed
	for i := range seeds {
		err := func() (err error) {
			defer func() {
				if r := recover(); r != nil {
					err = fmt.Errorf("panic: %v", r)
				}
			}()
			return check(i, &seeds[i])
		}()
		if err != nil {
			SkipSeed(seeds[i].Name, err)
			continue
		}
		out = append(out, seeds[i])
	}
	return out
}

func seedsPath(p *Part) string { return filepath.Join(vh.OutDir(), "c12_"+p.Name+"_seeds.json") }

func loadSeeds(p *Part) ([]Seed, error) {
	b, err := os.ReadFile(seedsPath(p))
	if err != nil {
		return nil, err
	}
	var s []Seed
	return s, json.Unmarshal(b, &s)
}

// all inputs of the run: witnesses first (sorted by flag name), then the generated stream.
func allInputs(p *Part, seeds []Seed) (ins []Input, wnames []string) {
	if p.Witnesses != nil {
		w := p.Witnesses(seeds)
		for k := range w {
			wnames = append(wnames, k)
		}
		sort.Strings(wnames)
		for _, k := range wnames {
			ins = append(ins, w[k])
		}
	}
	rng := vh.NewRng(vh.Seed() ^ 0xC12)
	ins = append(ins, p.Gen(seeds, rng, vh.Thorough())...)
	return
}

var repoFrame = regexp.MustCompile(`^github\.com/rpcpool/yellowstone-faithful(/[^\s(]*)?\.([^\s]+)\(`)

// siteOf returns the first repository function (not harness code) on a stack trace, without line numbers.
func siteOf(stack string) string {
	lines := strings.Split(stack, "\n")
	for i, l := range lines {
		if !strings.HasPrefix(l, "github.com/rpcpool/yellowstone-faithful") {
			continue
		}
		if strings.Contains(l, "/zzverif/") {
			continue
		}
		// skip frames that live in injected test files
		if i+1 < len(lines) && strings.Contains(lines[i+1], "zz_verif_") {
			continue
		}
		fn := l
		if j := strings.LastIndex(fn, "("); j > 0 {
			fn = fn[:j]
		}
		fn = strings.TrimPrefix(fn, "github.com/rpcpool/yellowstone-faithful")
		fn = strings.TrimPrefix(fn, "/")
		fn = strings.TrimPrefix(fn, ".")
		// closures: keep the enclosing function only
		fn = regexp.MustCompile(`\.func\d+(\.\d+)*$`).ReplaceAllString(fn, "")
		return fn
	}
	return "unknown"
}

func runOne(p *Part, i int, in *Input) (res Result) {
	res.I = i
	var before, after runtime.MemStats
	runtime.ReadMemStats(&before)
	func() {
		defer func() {
			if r := recover(); r != nil {
				res.Class = "panic"
				res.Msg = fmt.Sprint(r)
				if len(res.Msg) > 300 {
					res.Msg = res.Msg[:300]
				}
				res.Site = siteOf(string(debug.Stack()))
			}
		}()
		o := p.Exec(in)
		res.Class, res.Fine, res.Nums = o.Class, o.Fine, o.Nums
	}()
	runtime.ReadMemStats(&after)
	res.Alloc = after.TotalAlloc - before.TotalAlloc
	if res.Nums == nil {
		res.Nums = in.Pre
	}
	return
}

// child: replay inputs [from, ...) appending to the log; never returns normally to the test framework's
// reporting (exit code 0 when all inputs ran).
func childMain(p *Part) {
	seeds, err := loadSeeds(p)
	if err != nil {
		fmt.Fprintln(os.Stderr, "VERIF-HARNESS-BUG c12h child: seeds:", err)
		os.Exit(4)
	}
	ins, _ := allInputs(p, seeds)
	from, _ := strconv.Atoi(os.Getenv(envFrom))
	f, err := os.OpenFile(os.Getenv(envLog), os.O_APPEND|os.O_WRONLY|os.O_CREATE, 0o644)
	if err != nil {
		fmt.Fprintln(os.Stderr, "VERIF-HARNESS-BUG c12h child: log:", err)
		os.Exit(4)
	}
	per := p.PerInput
	if per == 0 {
		per = 20 * time.Second
	}
	cur := make(chan int, 1)
	go func() { // per-input watchdog
		i := -1
		t := time.NewTimer(per)
		for {
			select {
			case i = <-cur:
				if !t.Stop() {
					select {
					case <-t.C:
					default:
					}
				}
				t.Reset(per)
			case <-t.C:
				if i >= 0 {
					fmt.Fprintf(f, "T %d\n", i)
					os.Exit(3)
				}
				t.Reset(per)
			}
		}
	}()
	debug.SetGCPercent(50)
	for i := from; i < len(ins); i++ {
		cur <- i
		fmt.Fprintf(f, "B %d\n", i)
		r := runOne(p, i, &ins[i])
		b, _ := json.Marshal(r)
		fmt.Fprintf(f, "R %s\n", b)
		if r.Alloc > 64<<20 {
			debug.FreeOSMemory()
		}
	}
	fmt.Fprintf(f, "E %d\n", len(ins))
	f.Close()
	os.Exit(0)
}

// Run is the body of a TestVerif_C12* test.
func Run(t *testing.T, p *Part) {
	if os.Getenv(envChild) == p.Name {
		childMain(p)
		return
	}
	rep := vh.NewReport("C12", p.Name, p.Rule)
	defer rep.Write()
	rng := vh.NewRng(vh.Seed())
	dir := filepath.Join(vh.OutDir(), "c12_"+p.Name)
	_ = os.MkdirAll(dir, 0o755)
	skippedSeeds = nil
	seeds, err := p.Seeds(dir, rng)
	// A seed that the tree under test does not write / load / answer is left out with a note: the remaining seeds and
	// everything derived from them still run. Only a part without any seed cannot run.
	for _, s := range skippedSeeds {
		rep.Note("seed skipped on this tree: %s", s)
		rep.Count("seed-skipped")
	}
	if err != nil && len(seeds) > 0 {
		rep.Note("seed construction of %s stopped after %d seeds: %v", p.Name, len(seeds), err)
		rep.Count("seed-skipped")
		err = nil
	}
	if err != nil {
		t.Fatalf("VERIF-HARNESS-BUG setup failed: seeds of %s: %v", p.Name, err)
	}
	if len(seeds) == 0 {
		t.Fatalf("VERIF-HARNESS-BUG setup failed: seeds of %s: no seed loads on this tree: %s", p.Name, strings.Join(skippedSeeds, "; "))
	}
	sb, _ := json.Marshal(seeds)
	if err := os.WriteFile(seedsPath(p), sb, 0o644); err != nil {
		t.Fatalf("VERIF-HARNESS-BUG setup failed: %v", err)
	}
	seeds, _ = loadSeeds(p) // exactly what the children see
	ins, wnames := allInputs(p, seeds)
	rep.Note("%d seeds, %d inputs (%d witness probes)", len(seeds), len(ins), len(wnames))

	logPath := filepath.Join(vh.OutDir(), "c12_"+p.Name+"_child.log")
	_ = os.Remove(logPath)
	vmem := p.VmemKB
	if vmem == 0 {
		vmem = 4 << 20
	}
	results := make([]*Result, len(ins))
	from := 0
	restarts := 0
	for from < len(ins) {
		cmd := exec.Command("sh", "-c", fmt.Sprintf(`ulimit -v %d; exec "$0" "$@"`, vmem), os.Args[0],
			"-test.run", "^"+regexp.QuoteMeta(t.Name())+"$", "-test.timeout", "0")
		cmd.Env = append(os.Environ(), envChild+"="+p.Name, envFrom+"="+strconv.Itoa(from), envLog+"="+logPath)
		var tail tailBuf
		cmd.Stdout, cmd.Stderr = &tail, &tail
		done := make(chan error, 1)
		if err := cmd.Start(); err != nil {
			t.Fatalf("VERIF-HARNESS-BUG setup failed: cannot start child: %v", err)
		}
		go func() { done <- cmd.Wait() }()
		var werr error
		select {
		case werr = <-done:
		case <-time.After(25 * time.Minute):
			_ = cmd.Process.Kill()
			werr = fmt.Errorf("child exceeded 25 minutes")
			<-done
		}
		// read what the child logged
		last, ended := parseLog(logPath, results)
		if ended {
			break
		}
		// the child died while running input `last` (or before its first input)
		if last < from {
			t.Fatalf("VERIF-HARNESS-BUG setup failed: child of %s died before running input %d: %v\n%s", p.Name, from, werr, tail.String())
		}
		out := tail.String()
		r := &Result{I: last}
		switch {
		case results[last] != nil && results[last].Class == "timeout":
			r = results[last]
		case strings.Contains(out, "out of memory") || strings.Contains(out, "cannot allocate memory") || strings.Contains(out, "errno=12"):
			r.Class, r.Msg = "alloc-bomb", "process died: "+firstFatal(out)
		default:
			r.Class, r.Msg = "crash", "process died: "+firstFatal(out)
		}
		results[last] = r
		from = last + 1
		restarts++
		if restarts > 400 {
			rep.Note("more than 400 child deaths: remaining %d inputs not run", len(ins)-from)
			break
		}
	}
	rep.Flag("child_restarts", restarts)

	// ---- oracle
	flags := map[string]bool{}
	for wi, name := range wnames {
		r := results[wi]
		good := r != nil && (r.Class == "ok" || r.Class == "error") && r.Alloc <= p.Budget(&ins[wi])
		if p.FlagOf != nil && r != nil {
			good = p.FlagOf(name, r, good)
		}
		flags[name] = good
		rep.Flag(name, good)
	}
	nRun := 0
	for i := range ins {
		r := results[i]
		in := &ins[i]
		if r == nil {
			continue
		}
		nRun++
		class := r.Class
		if (class == "ok" || class == "error") && r.Alloc > p.Budget(in) {
			class = "alloc-bomb"
			r.Msg = fmt.Sprintf("allocated %d bytes for an input of %d bytes (budget %d)", r.Alloc, len(in.Data), p.Budget(in))
		}
		key := in.Entry + "|" + in.Label + "|" + shortHash(in.Data, in.Aux)
		rep.Case(key, len(in.Data) > 0)
		rep.Count(in.Entry + "/" + class)
		rep.Count("mut/" + in.Label)
		if class == "ok" || class == "error" {
			continue
		}
		sig := class + ":" + p.Name + ":" + in.Entry
		if class == "panic" {
			sig = "panic:" + p.Name + ":" + r.Site // one signature per crash site, whatever entry point reached it
		}
		rep.Fail(sig, fmt.Sprintf("%s on mutation %q: %s", class, in.Label, r.Msg),
			map[string]interface{}{"part": p.Name, "entry": in.Entry, "mutation": in.Label, "input_len": len(in.Data),
				"input_hex": hexCap(in.Data, 2048), "aux": in.Aux, "alloc": r.Alloc})
		r.Class = class
	}
	rep.Sample(map[string]interface{}{"inputs": len(ins), "ran": nRun, "flags": flags})

	// ---- native Go fuzzing (coverage guided), thorough tier only
	if p.Fuzz != nil && vh.Thorough() {
		nativeFuzz(t, p, rep, vmem)
	}

	// ---- Coq cases
	if p.CoqCase != nil {
		cases := vh.NewCases("cases_c12_"+strings.ReplaceAll(p.Name, "-", "_"), p.CoqImports, p.CoqType, p.CoqChecker(flags))
		max := p.MaxCoq
		if max == 0 {
			max = 500
		}
		if vh.Thorough() {
			max *= 4
		}
		seen := map[string]bool{}
		skipped := 0
		var terms, pinned []string
		for i := range ins {
			r := results[i]
			if r == nil || r.Class == "timeout" || r.Class == "crash" {
				continue
			}
			term, ok := p.CoqCase(&ins[i], r)
			if !ok {
				skipped++
				continue
			}
			if seen[term] {
				continue
			}
			seen[term] = true
			if ins[i].Pin && i >= len(wnames) {
				pinned = append(pinned, term) // on top of the sampled ones
				continue
			}
			terms = append(terms, term)
		}
		// an even sample over the whole input stream (witness probes come first and are always kept)
		if len(terms) <= max {
			for _, t := range terms {
				cases.Add(t)
			}
		} else {
			keep := len(wnames)
			if keep > len(terms) {
				keep = len(terms)
			}
			for _, t := range terms[:keep] {
				cases.Add(t)
			}
			rest := terms[keep:]
			n := max - keep
			for k := 0; k < n; k++ {
				cases.Add(rest[k*len(rest)/n])
			}
		}
		for _, t := range pinned {
			cases.Add(t)
		}
		rep.Note("coq cases: %d written (%d systematic ones always kept), %d outside the modelled fragment", cases.Len(), len(pinned), skipped)
		if err := cases.Write(); err != nil {
			t.Fatalf("VERIF-HARNESS-BUG setup failed: %v", err)
		}
		rep.CasesWritten(cases)
	}
}

func parseLog(path string, results []*Result) (last int, ended bool) {
	last = -1
	f, err := os.Open(path)
	if err != nil {
		return
	}
	defer f.Close()
	sc := bufio.NewScanner(f)
	sc.Buffer(make([]byte, 1<<20), 1<<26)
	for sc.Scan() {
		l := sc.Text()
		switch {
		case strings.HasPrefix(l, "B "):
			last, _ = strconv.Atoi(l[2:])
		case strings.HasPrefix(l, "R "):
			var r Result
			if json.Unmarshal([]byte(l[2:]), &r) == nil && r.I < len(results) {
				rr := r
				results[r.I] = &rr
			}
		case strings.HasPrefix(l, "T "):
			i, _ := strconv.Atoi(l[2:])
			if i < len(results) {
				results[i] = &Result{I: i, Class: "timeout", Msg: "input did not return within the per-input limit"}
			}
			last = i
		case strings.HasPrefix(l, "E "):
			ended = true
		}
	}
	return
}

type tailBuf struct{ b []byte }

func (t *tailBuf) Write(p []byte) (int, error) {
	t.b = append(t.b, p...)
	if len(t.b) > 1<<16 {
		t.b = t.b[len(t.b)-(1<<16):]
	}
	return len(p), nil
}
func (t *tailBuf) String() string { return string(t.b) }

func firstFatal(out string) string {
	for _, l := range strings.Split(out, "\n") {
		if strings.HasPrefix(l, "fatal error:") || strings.HasPrefix(l, "runtime:") || strings.HasPrefix(l, "panic:") {
			if len(l) > 200 {
				l = l[:200]
			}
			return l
		}
	}
	if len(out) > 200 {
		return out[len(out)-200:]
	}
	return out
}

func shortHash(b []byte, aux []uint64) string {
	h := uint64(1469598103934665603)
	for _, x := range b {
		h = (h ^ uint64(x)) * 1099511628211
	}
	for _, x := range aux {
		h = (h ^ x) * 1099511628211
	}
	return strconv.FormatUint(h, 36)
}

func hexCap(b []byte, n int) string {
	if len(b) <= n {
		return vh.Hex(b)
	}
	return vh.Hex(b[:n]) + fmt.Sprintf("..(%d bytes; base64 of all: %s)", len(b), b64Cap(b))
}

func b64Cap(b []byte) string {
	if len(b) > 6000 {
		return "(omitted)"
	}
	return base64.StdEncoding.EncodeToString(b)
}

// ---------------------------------------------------------------- mutation helpers

// Field is a little-endian integer field of a file.
type Field struct {
	Name string
	Off  int
	Len  int // 1, 2, 3, 4, 6, 8
}

func putLE(b []byte, off, n int, v uint64) {
	for i := 0; i < n; i++ {
		if off+i < len(b) {
			b[off+i] = byte(v >> (8 * uint(i)))
		}
	}
}

func GetLE(b []byte, off, n int) uint64 {
	var v uint64
	for i := 0; i < n && off+i < len(b); i++ {
		v |= uint64(b[off+i]) << (8 * uint(i))
	}
	return v
}

// FieldValues returns the values a length/count/size/offset field is set to: 0, 1, max, and values
// inconsistent with the file size (around the original, around the file length, large powers of two).
func FieldValues(orig uint64, width int, fileLen int) []uint64 {
	max := uint64(1)<<(8*uint(width)) - 1
	if width >= 8 {
		max = ^uint64(0)
	}
	vs := []uint64{0, 1, 2, max, max - 1, max / 2, max/2 + 1, orig + 1, orig - 1, orig * 2, orig + 9, orig - 9,
		uint64(fileLen), uint64(fileLen) + 1, uint64(fileLen) - 1, uint64(fileLen) * 2, uint64(fileLen) / 2,
		12, 13, 24, 25, 252, 253, 255, 256, 1 << 16, 1 << 20, 1 << 24, 1<<24 + 1, 1 << 28, 1 << 30, 1 << 31, 1<<32 - 12, 1<<32 - 11,
		1 << 40, 1 << 61, 1 << 62, 1 << 63}
	out := []uint64{}
	seen := map[uint64]bool{}
	for _, v := range vs {
		v &= max
		if v != orig && !seen[v] {
			seen[v] = true
			out = append(out, v)
		}
	}
	return out
}

// MutateFields: every field set to every FieldValues value (one field at a time).
func MutateFields(entry string, seed *Seed, fields []Field, keys [][]byte, aux []uint64) []Input {
	var out []Input
	for _, f := range fields {
		if f.Off+f.Len > len(seed.Data) {
			continue
		}
		orig := GetLE(seed.Data, f.Off, f.Len)
		for _, v := range FieldValues(orig, f.Len, len(seed.Data)) {
			d := append([]byte(nil), seed.Data...)
			putLE(d, f.Off, f.Len, v)
			out = append(out, Input{Entry: entry, Label: "field:" + f.Name, Data: d, Keys: keys, Aux: aux})
		}
	}
	return out
}

// Truncations at structure boundaries +-2 (and the empty input).
func Truncations(entry string, seed *Seed, boundaries []int, keys [][]byte, aux []uint64) []Input {
	var out []Input
	seen := map[int]bool{}
	for _, b := range append([]int{0, len(seed.Data)}, boundaries...) {
		for d := -2; d <= 2; d++ {
			n := b + d
			if n < 0 || n >= len(seed.Data) || seen[n] {
				continue
			}
			seen[n] = true
			out = append(out, Input{Entry: entry, Label: "truncate", Data: append([]byte(nil), seed.Data[:n]...), Keys: keys, Aux: aux})
		}
	}
	return out
}

// RandomMutations: n inputs with 1..4 random byte edits (set / flip / insert / delete / splice a run of 0xff).
func RandomMutations(entry string, seed *Seed, rng *vh.Rng, n int, hot int, keys [][]byte, aux []uint64) []Input {
	out := make([]Input, 0, n)
	for i := 0; i < n; i++ {
		d := append([]byte(nil), seed.Data...)
		k := 1 + rng.Intn(4)
		for j := 0; j < k && len(d) > 0; j++ {
			// most edits land in the structured head of the file (first `hot` bytes)
			lim := len(d)
			if hot > 0 && hot < lim && rng.Intn(4) != 0 {
				lim = hot
			}
			pos := rng.Intn(lim)
			switch rng.Intn(6) {
			case 0:
				d[pos] = byte(rng.U64())
			case 1:
				d[pos] ^= 1 << uint(rng.Intn(8))
			case 2:
				d[pos] = []byte{0, 1, 0x7f, 0x80, 0xff, 0xfe}[rng.Intn(6)]
			case 3:
				d = append(d[:pos], append([]byte{byte(rng.U64())}, d[pos:]...)...)
			case 4:
				d = append(d[:pos], d[pos+1:]...)
			case 5:
				for q := pos; q < pos+1+rng.Intn(8) && q < len(d); q++ {
					d[q] = 0xff
				}
			}
		}
		out = append(out, Input{Entry: entry, Label: "random", Data: d, Keys: keys, Aux: aux})
	}
	return out
}

// Junk: inputs that are not derived from a valid file at all.
func Junk(entry string, rng *vh.Rng, n int, prefix []byte) []Input {
	out := []Input{{Entry: entry, Label: "junk", Data: []byte{}}, {Entry: entry, Label: "junk", Data: []byte{0}},
		{Entry: entry, Label: "junk", Data: []byte{0xff}}}
	for i := 0; i < n; i++ {
		l := rng.Intn(200)
		d := rng.Bytes(l)
		if len(prefix) > 0 && rng.Bool() {
			d = append(append([]byte(nil), prefix...), d...)
		}
		out = append(out, Input{Entry: entry, Label: "junk", Data: d})
	}
	return out
}

// ClassN is the class number used in Coq cases: 0 ok, 1 error, 2 panic.
func ClassN(class string) (uint64, bool) {
	switch class {
	case "ok":
		return 0, true
	case "error":
		return 1, true
	case "panic":
		return 2, true
	}
	return 0, false
}

// ---------------------------------------------------------------- native fuzzing

// FuzzBody is the body of the package's FuzzVerifC12 target: seeds = the valid files of the part, oracle = no panic
// (a panic crashes the fuzz worker and is minimised by the fuzzer) and allocation within the part's budget.
func FuzzBody(f *testing.F, p *Part) {
	seeds, err := loadSeeds(p)
	if err != nil {
		f.Skip("no seeds (run through TestVerif_C12 in the thorough tier)")
	}
	for i := range seeds {
		if len(seeds[i].Data) < 1<<16 {
			f.Add(seeds[i].Data, uint64(i))
			f.Add(seeds[i].Data, uint64(i)+7919)
		}
	}
	f.Fuzz(func(t *testing.T, data []byte, sel uint64) {
		in := p.Fuzz(data, sel, seeds)
		if in == nil {
			return
		}
		var before, after runtime.MemStats
		runtime.ReadMemStats(&before)
		p.Exec(in)
		runtime.ReadMemStats(&after)
		if a := after.TotalAlloc - before.TotalAlloc; a > p.Budget(in) {
			t.Fatalf("alloc-bomb: %d bytes allocated for an input of %d bytes (budget %d), entry %s", a, len(in.Data), p.Budget(in), in.Entry)
		}
	})
}

func repoRootFromCwd() (root, rel string, err error) {
	cwd, err := os.Getwd()
	if err != nil {
		return "", "", err
	}
	d := cwd
	for {
		if _, e := os.Stat(filepath.Join(d, "go.mod")); e == nil {
			r, _ := filepath.Rel(d, cwd)
			return d, r, nil
		}
		nd := filepath.Dir(d)
		if nd == d {
			return "", "", fmt.Errorf("no go.mod above %s", cwd)
		}
		d = nd
	}
}

// nativeFuzz builds an instrumented test binary of the current package (same overlay as the running check) and runs
// FuzzVerifC12 from a scratch directory: corpus, cache and crashers stay under vh.OutDir(), nothing is written to the repository.
func nativeFuzz(t *testing.T, p *Part, rep *vh.Report, vmem uint64) {
	root, rel, err := repoRootFromCwd()
	if err != nil {
		rep.Note("native fuzzing skipped: %v", err)
		return
	}
	// the overlay file of this harness entry: the one that maps a test file into this package directory
	var overlay string
	cands, _ := filepath.Glob(filepath.Join(vh.OutDir(), "overlay_*.json"))
	for _, c := range cands {
		b, _ := os.ReadFile(c)
		if strings.Contains(string(b), filepath.Join(root, rel, "zz_verif_c12")) {
			overlay = c
		}
	}
	if overlay == "" {
		rep.Note("native fuzzing skipped: overlay file not found under %s", vh.OutDir())
		return
	}
	bin := filepath.Join(vh.OutDir(), "c12fuzz_"+p.Name+".test")
	build := exec.Command("go", "test", "-c", "-overlay", overlay, "-vet=off", "-fuzz", "^FuzzVerifC12$", "-o", bin, "./"+rel)
	build.Dir = root
	if out, err := build.CombinedOutput(); err != nil {
		rep.Note("native fuzzing skipped: instrumented build failed: %v: %s", err, tailStr(string(out), 600))
		return
	}
	dir := filepath.Join(vh.OutDir(), "c12fuzz_"+p.Name+"_run")
	_ = os.RemoveAll(dir)
	_ = os.MkdirAll(dir, 0o755)
	ft := p.FuzzTime
	if ft == 0 {
		ft = 40 * time.Second
	}
	cmd := exec.Command("sh", "-c", fmt.Sprintf(`ulimit -v %d; exec "$0" "$@"`, vmem), bin, "-test.run", "^$", "-test.fuzz", "^FuzzVerifC12$",
		"-test.fuzztime", ft.String(), "-test.fuzzcachedir", filepath.Join(dir, "cache"), "-test.parallel", "4", "-test.timeout", "0")
	cmd.Dir = dir
	out, err := cmd.CombinedOutput()
	m := regexp.MustCompile(`execs: (\d+)`).FindAllStringSubmatch(string(out), -1)
	execs := "?"
	if len(m) > 0 {
		execs = m[len(m)-1][1]
	}
	rep.Note("native fuzzing of %s: %s, %s executions", p.Name, ft, execs)
	rep.Count("fuzz/runs")
	if err == nil {
		return
	}
	crashers, _ := filepath.Glob(filepath.Join(dir, "testdata", "fuzz", "FuzzVerifC12", "*"))
	var body string
	if len(crashers) > 0 {
		b, _ := os.ReadFile(crashers[0])
		body = string(b)
		if len(body) > 4000 {
			body = body[:4000]
		}
	}
	kind := "fuzz-crash"
	if strings.Contains(string(out), "alloc-bomb:") {
		kind = "fuzz-alloc-bomb"
	}
	rep.Fail(kind+":"+p.Name, "native fuzzing found a failing input: "+tailStr(string(out), 1500),
		map[string]interface{}{"part": p.Name, "crasher_file": body, "how": "go test fuzz corpus file format (go test fuzz v1)"})
}

func tailStr(s string, n int) string {
	if len(s) > n {
		return s[len(s)-n:]
	}
	return s
}
