// Package vh: helpers shared by the verification harness test files that are injected
// into yellowstone-faithful packages with `go test -overlay`. Nothing here is part of /repo.
package vh

import (
	"encoding/hex"
	"encoding/json"
	"fmt"
	"os"
	"path/filepath"
	"sort"
	"strconv"
	"strings"
	"sync"
)

// ---------- environment ----------

func OutDir() string {
	d := os.Getenv("VERIF_OUT")
	if d == "" {
		d = "/verif/.work/manual"
	}
	_ = os.MkdirAll(d, 0o755)
	return d
}

func Tier() string {
	t := os.Getenv("VERIF_TIER")
	if t == "" {
		return "quick"
	}
	return t
}

func Thorough() bool { return Tier() == "thorough" }

func Seed() uint64 {
	s := os.Getenv("VERIF_SEED")
	if s == "" {
		return 1
	}
	v, err := strconv.ParseInt(s, 10, 64)
	if err != nil {
		return 1
	}
	return uint64(v)
}

// Replay returns the path of a replay file (or "").
func Replay() string { return os.Getenv("VERIF_REPLAY") }

// ---------- PRNG (splitmix64): every random choice derives from one state ----------

type Rng struct{ s uint64 }

func NewRng(seed uint64) *Rng { return &Rng{s: seed*0x9E3779B97F4A7C15 + 0x1234567} }

func (r *Rng) U64() uint64 {
	r.s += 0x9E3779B97F4A7C15
	z := r.s
	z = (z ^ (z >> 30)) * 0xBF58476D1CE4E5B9
	z = (z ^ (z >> 27)) * 0x94D049BB133111EB
	return z ^ (z >> 31)
}

// Intn returns a value in [0,n).
func (r *Rng) Intn(n int) int {
	if n <= 0 {
		return 0
	}
	return int(r.U64() % uint64(n))
}

func (r *Rng) Range(lo, hi int) int { return lo + r.Intn(hi-lo+1) }
func (r *Rng) Bool() bool          { return r.U64()&1 == 1 }
func (r *Rng) Bytes(n int) []byte {
	b := make([]byte, n)
	for i := range b {
		b[i] = byte(r.U64())
	}
	return b
}
func (r *Rng) Perm(n int) []int {
	p := make([]int, n)
	for i := range p {
		p[i] = i
	}
	for i := n - 1; i > 0; i-- {
		j := r.Intn(i + 1)
		p[i], p[j] = p[j], p[i]
	}
	return p
}
func (r *Rng) Pick(xs ...int) int { return xs[r.Intn(len(xs))] }

// ---------- Coq term printing ----------

func CoqN(v uint64) string   { return strconv.FormatUint(v, 10) + "%N" }
func CoqNat(v int) string    { return strconv.Itoa(v) + "%nat" }
func CoqZ(v int64) string {
	if v < 0 {
		return "(" + strconv.FormatInt(v, 10) + ")%Z"
	}
	return strconv.FormatInt(v, 10) + "%Z"
}
func CoqBool(b bool) string {
	if b {
		return "true"
	}
	return "false"
}
func CoqList(items []string) string {
	if len(items) == 0 {
		return "[]"
	}
	return "[" + strings.Join(items, "; ") + "]"
}
func CoqBytes(b []byte) string {
	items := make([]string, len(b))
	for i, x := range b {
		items[i] = strconv.Itoa(int(x))
	}
	if len(items) == 0 {
		return "([] : list N)"
	}
	return "([" + strings.Join(items, "; ") + "]%N : list N)"
}
func CoqNs(v []uint64) string {
	items := make([]string, len(v))
	for i, x := range v {
		items[i] = strconv.FormatUint(x, 10)
	}
	if len(items) == 0 {
		return "([] : list N)"
	}
	return "([" + strings.Join(items, "; ") + "]%N : list N)"
}
func CoqNats(v []int) string {
	items := make([]string, len(v))
	for i, x := range v {
		items[i] = strconv.Itoa(x)
	}
	if len(items) == 0 {
		return "([] : list nat)"
	}
	return "([" + strings.Join(items, "; ") + "]%nat : list nat)"
}
func CoqOpt(s string, present bool) string {
	if present {
		return "(Some " + s + ")"
	}
	return "None"
}
func Hex(b []byte) string { return hex.EncodeToString(b) }

// CasesFile accumulates a Coq file of cases. The file is `Require Import`s + a list definition
// + `Definition M := Eval vm_compute in (<checker> cases). Print M.`; the driver greps "M = []".
type CasesFile struct {
	mu       sync.Mutex
	name     string
	imports  []string
	ctype    string
	checker  string
	cases    []string
	preamble []string
}

// NewCases: name = file base name (without .v); ctype = Coq type of one case; checker = Coq function
// of type `list ctype -> list nat` (indexes of mismatching cases).
func NewCases(name string, imports []string, ctype, checker string) *CasesFile {
	return &CasesFile{name: name, imports: imports, ctype: ctype, checker: checker}
}
func (c *CasesFile) Preamble(s string) { c.mu.Lock(); c.preamble = append(c.preamble, s); c.mu.Unlock() }
func (c *CasesFile) Add(term string) int {
	c.mu.Lock()
	defer c.mu.Unlock()
	c.cases = append(c.cases, term)
	return len(c.cases) - 1
}
func (c *CasesFile) Len() int { c.mu.Lock(); defer c.mu.Unlock(); return len(c.cases) }

// Write writes <out>/<name>.v, sharded: at most perShard cases per definition to keep coqc fast.
func (c *CasesFile) Write() error {
	c.mu.Lock()
	defer c.mu.Unlock()
	var sb strings.Builder
	sb.WriteString("From Coq Require Import List NArith ZArith Bool String Ascii.\nImport ListNotations.\n")
	for _, im := range c.imports {
		sb.WriteString("Require Import " + im + ".\n")
	}
	for _, p := range c.preamble {
		sb.WriteString(p + "\n")
	}
	const perShard = 400
	shards := 0
	for i := 0; i < len(c.cases) || i == 0; i += perShard {
		j := i + perShard
		if j > len(c.cases) {
			j = len(c.cases)
		}
		fmt.Fprintf(&sb, "Definition cases%d : list (%s) := [\n", shards, c.ctype)
		for k := i; k < j; k++ {
			sb.WriteString("  " + c.cases[k])
			if k+1 < j {
				sb.WriteString(";")
			}
			sb.WriteString("\n")
		}
		sb.WriteString("].\n")
		fmt.Fprintf(&sb, "Definition M%d := Eval vm_compute in (List.map (fun i => (%d + i)%%nat) (%s cases%d)).\n", shards, i, c.checker, shards)
		shards++
		if len(c.cases) == 0 {
			break
		}
	}
	sb.WriteString("Definition M := Eval vm_compute in (")
	for s := 0; s < shards; s++ {
		if s > 0 {
			sb.WriteString(" ++ ")
		}
		fmt.Fprintf(&sb, "M%d", s)
	}
	sb.WriteString(").\nPrint M.\n")
	return os.WriteFile(filepath.Join(OutDir(), c.name+".v"), []byte(sb.String()), 0o644)
}

// ---------- report ----------

// Failure is a property-oracle failure observed on the implementation.
type Failure struct {
	Signature string      `json:"signature"` // stable id used to match known-findings entries
	Detail    string      `json:"detail"`
	Replay    interface{} `json:"replay,omitempty"`
}

type Report struct {
	mu           sync.Mutex
	Property     string                 `json:"property"`
	Part         string                 `json:"part"`
	Evaluations  int                    `json:"evaluations"`
	Distinct     int                    `json:"distinct_nontrivial"`
	Rule         string                 `json:"rule"`
	Samples      []interface{}          `json:"samples"`
	Distribution map[string]int         `json:"distribution"`
	Failures     []Failure              `json:"failures"`
	Flags        map[string]interface{} `json:"flags"`
	Notes        []string               `json:"notes"`
	Exhaustive   bool                   `json:"exhaustive"`
	CaseFiles    []string               `json:"case_files"`
	distinct     map[string]bool
}

func NewReport(property, part, rule string) *Report {
	return &Report{Property: property, Part: part, Rule: rule, Distribution: map[string]int{},
		Flags: map[string]interface{}{}, distinct: map[string]bool{}}
}

// Case records one evaluated case. key identifies it for distinctness; nontrivial by the caller's rule.
func (r *Report) Case(key string, nontrivial bool) {
	r.mu.Lock()
	defer r.mu.Unlock()
	r.Evaluations++
	if nontrivial && !r.distinct[key] {
		r.distinct[key] = true
		r.Distinct++
	}
}
func (r *Report) Count(bucket string) { r.mu.Lock(); r.Distribution[bucket]++; r.mu.Unlock() }
func (r *Report) CountN(bucket string, n int) {
	r.mu.Lock()
	r.Distribution[bucket] += n
	r.mu.Unlock()
}
func (r *Report) Sample(s interface{}) {
	r.mu.Lock()
	if len(r.Samples) < 6 {
		r.Samples = append(r.Samples, s)
	}
	r.mu.Unlock()
}
func (r *Report) Fail(sig, detail string, replay interface{}) {
	r.mu.Lock()
	defer r.mu.Unlock()
	// keep at most 5 failures per signature
	n := 0
	for _, f := range r.Failures {
		if f.Signature == sig {
			n++
		}
	}
	if n < 5 {
		r.Failures = append(r.Failures, Failure{sig, detail, replay})
	}
	r.Distribution["failure:"+sig]++
}
func (r *Report) Flag(name string, v interface{}) { r.mu.Lock(); r.Flags[name] = v; r.mu.Unlock() }
func (r *Report) Note(format string, a ...interface{}) {
	r.mu.Lock()
	r.Notes = append(r.Notes, fmt.Sprintf(format, a...))
	r.mu.Unlock()
}
func (r *Report) CasesWritten(c *CasesFile) {
	r.mu.Lock()
	r.CaseFiles = append(r.CaseFiles, c.name+".v")
	r.mu.Unlock()
}

// Write writes <out>/report_<part>.json.
func (r *Report) Write() error {
	r.mu.Lock()
	defer r.mu.Unlock()
	if r.Failures == nil {
		r.Failures = []Failure{}
	}
	if r.Samples == nil {
		r.Samples = []interface{}{}
	}
	b, err := json.MarshalIndent(r, "", " ")
	if err != nil {
		return err
	}
	return os.WriteFile(filepath.Join(OutDir(), "report_"+r.Part+".json"), b, 0o644)
}

// SortedKeys returns the keys of a string-keyed map in order.
func SortedKeys(m map[string]int) []string {
	ks := make([]string, 0, len(m))
	for k := range m {
		ks = append(ks, k)
	}
	sort.Strings(ks)
	return ks
}
