package tooling

// Verification harness for C14 (injected with `go test -overlay`; not part of the repository).
// Payloads are split into frames laid out as the schema comment of ledger.ipldsch describes, served by
// an in-memory getter, reassembled by LoadDataFromDataFrames; every single-frame fault is injected.
// Property oracle: without a fault the original bytes come back; with a fault (payloads carrying
// checksum and frame count) the call returns an error or the original bytes - never other bytes, and it
// always returns.  Observations are written as a Coq case file checked by YF.C14_Check.check.

import (
	"bytes"
	"errors"
	"fmt"
	"os"
	"os/exec"
	"runtime/debug"
	"strings"
	"testing"
	"time"

	"github.com/ipfs/go-cid"
	"github.com/rpcpool/yellowstone-faithful/ipld/ipldbindcode"
	"github.com/rpcpool/yellowstone-faithful/zzverif/c14gen"
	"github.com/rpcpool/yellowstone-faithful/zzverif/vh"
)

func vc14Load(s *c14gen.Scenario) (data []byte, err error, panicked string, fetches int) {
	defer func() {
		if r := recover(); r != nil {
			panicked = fmt.Sprint(r)
		}
	}()
	data, err = LoadDataFromDataFrames(s.First, s.Getter(&fetches))
	return
}

func vc14ErrClass(err error) string {
	switch {
	case err == nil:
		return "ok"
	case errors.Is(err, c14gen.ErrMissing):
		return "err-missing"
	case strings.HasPrefix(err.Error(), "expected "):
		return "err-count"
	case strings.Contains(err.Error(), "hash mismatch"):
		return "err-hash"
	default:
		return "err-other"
	}
}

// ---- cyclic links: run in a child process, because the pinned code never returns on them ----

func vc14CycleScenario(shape string) *c14gen.Scenario {
	rng := vh.NewRng(7)
	switch shape {
	case "self": // frame 1 links to itself
		p := &c14gen.Payload{ID: 900, Data: []byte{1, 2}, Chunks: [][]byte{{1}, {2}}, Fanout: 1}
		p.Build(rng)
		s := c14gen.NewScenario(p)
		g := c14gen.Clone(p.Frames[1])
		c14gen.SetLinks(g, []cid.Cid{p.Cids[1]})
		s.Store[p.Cids[1]] = g
		return s
	case "two": // frame 1 -> frame 2 -> frame 1
		p := &c14gen.Payload{ID: 901, Data: []byte{1, 2, 3}, Chunks: [][]byte{{1}, {2}, {3}}, Fanout: 1}
		p.Build(rng)
		s := c14gen.NewScenario(p)
		g := c14gen.Clone(p.Frames[2])
		c14gen.SetLinks(g, []cid.Cid{p.Cids[1]})
		s.Store[p.Cids[2]] = g
		return s
	case "root-dup": // the schema example (10 frames, fan-out 5); a copy of frame 0 stored in place of frame 5
		d := rng.Bytes(40)
		p := &c14gen.Payload{ID: 902, Data: d, Chunks: c14gen.SplitEven(d, 10), Fanout: 5}
		p.Build(rng)
		s := c14gen.NewScenario(p)
		s.Store[p.Cids[5]] = p.Frames[0]
		return s
	}
	return nil
}

func vc14Child(shape string) {
	debug.SetMaxStack(64 << 20) // fail fast instead of growing the stack to the 1 GB default limit
	s := vc14CycleScenario(shape)
	if s == nil {
		fmt.Println("C14CHILD-RESULT badshape")
		return
	}
	data, err, pan, _ := vc14Load(s)
	switch {
	case pan != "":
		fmt.Println("C14CHILD-RESULT panic " + pan)
	case err != nil:
		fmt.Println("C14CHILD-RESULT error")
	default:
		fmt.Println("C14CHILD-RESULT ok " + vh.Hex(data))
	}
}

// returns true when the implementation returned an error for the cyclic shape
func vc14ProbeCycle(t *testing.T, rep *vh.Report, shape string) bool {
	cmd := exec.Command(os.Args[0], "-test.run", "^TestVerif_C14$", "-test.count=1")
	cmd.Env = append(os.Environ(), "VERIF_C14_CHILD="+shape)
	var out bytes.Buffer
	cmd.Stdout, cmd.Stderr = &out, &out
	if err := cmd.Start(); err != nil {
		t.Fatalf("VERIF-HARNESS-BUG: cannot start child: %v", err)
	}
	done := make(chan error, 1)
	go func() { done <- cmd.Wait() }()
	timedOut := false
	select {
	case <-done:
	case <-time.After(90 * time.Second):
		timedOut = true
		_ = cmd.Process.Kill()
		<-done
	}
	o := out.String()
	replay := map[string]interface{}{"shape": shape, "how": "frames whose `next` links form a cycle (see vc14CycleScenario in harness/tooling/c14_test.go); getter = in-memory map"}
	head := o
	if len(head) > 1200 {
		head = head[:1200]
	}
	rep.Case("cycle:"+shape, true)
	rep.Count("fault=cyclic-link")
	switch {
	case strings.Contains(o, "C14CHILD-RESULT error"):
		rep.Count("result=err-other")
		return true
	case timedOut:
		rep.Fail("cyclic-link-no-return", "LoadDataFromDataFrames did not return within 90 s on cyclic `next` links ("+shape+")", replay)
	case strings.Contains(o, "stack overflow") || strings.Contains(o, "goroutine stack exceeds"):
		rep.Fail("cyclic-link-stack-overflow", "LoadDataFromDataFrames recursed without bound on cyclic `next` links ("+shape+"); the Go runtime ended the process:\n"+head, replay)
	case strings.Contains(o, "C14CHILD-RESULT ok"):
		rep.Fail("cyclic-link-accepted", "bytes returned for cyclic links ("+shape+"): "+head, replay)
	case strings.Contains(o, "C14CHILD-RESULT panic"):
		rep.Fail("cyclic-link-panic", head, replay)
	default:
		t.Fatalf("VERIF-HARNESS-BUG: child for shape %s gave no result:\n%s", shape, head)
	}
	return false
}

func TestVerif_C14(t *testing.T) {
	if shape := os.Getenv("VERIF_C14_CHILD"); shape != "" {
		vc14Child(shape)
		return
	}
	rng := vh.NewRng(vh.Seed())
	thorough := vh.Thorough()
	rep := vh.NewReport("C14", "tooling",
		"payload sizes x frame counts {1,2,3,10,60} x fan-outs {1,2,5,10} x {CRC64,FNV} x {even,random} chunking, links and store order permuted, "+
			"every single-frame fault kind on every frame; a case is non-trivial when the payload has >= 2 frames; distinct by (config, fault, frame)")
	cases := vh.NewCases("cases_c14", []string{"YF.C14_Hash", "YF.C14_Frames", "YF.C14_Term", "YF.C14_Layout", "YF.C14_Check"}, "case", "check")

	// ---- 0. the checksums: Go library vs the Gallina implementations
	for _, n := range []int{0, 1, 2, 3, 7, 8, 9, 15, 16, 17, 31, 63, 64, 65, 127, 128, 129, 200, 300, 777} {
		cases.Add(c14gen.CoqHashCase(rng.Bytes(n)))
		rep.Count("hash-cases")
	}
	cases.Add(c14gen.CoqHashCase([]byte("123456789")))
	cases.Add(c14gen.CoqHashCase(bytes.Repeat([]byte{0}, 100)))
	cases.Add(c14gen.CoqHashCase(bytes.Repeat([]byte{0xff}, 100)))
	// VerifyHash itself: accepts exactly the CRC64-ISO and the FNV-1a sums
	for i := 0; i < 50; i++ {
		d := rng.Bytes(rng.Intn(200))
		if VerifyErr := ipldbindcode.VerifyHash(d, c14gen.Crc(d)); VerifyErr != nil {
			rep.Fail("verifyhash-rejects-crc64", "VerifyHash rejects the CRC64-ISO sum", vh.Hex(d))
		}
		if VerifyErr := ipldbindcode.VerifyHash(d, c14gen.Fnv(d)); VerifyErr != nil {
			rep.Fail("verifyhash-rejects-fnv1a", "VerifyHash rejects the legacy FNV-1a sum", vh.Hex(d))
		}
		if VerifyErr := ipldbindcode.VerifyHash(d, c14gen.Crc(d)^(1<<uint(rng.Intn(64)))); VerifyErr == nil {
			rep.Fail("verifyhash-accepts-wrong-sum", "VerifyHash accepts a wrong sum", vh.Hex(d))
		}
		rep.Count("verifyhash-probes")
	}

	// ---- 1. cyclic links (child processes)
	cycleSafe := true
	for _, shape := range []string{"self", "two", "root-dup"} {
		if !vc14ProbeCycle(t, rep, shape) {
			cycleSafe = false
		}
	}
	rep.Flag("cyclic_links_return_error", cycleSafe)
	if !cycleSafe {
		rep.Note("cyclic links do not return an error on this tree: fault cases that create a cycle are not run in-process")
	}

	// ---- 2. the matrix
	sizesCoq := []int{0, 1, 2, 7, 24, 65, 300}
	sizesGo := []int{4096, 20000}
	coqFaultsPerCfg := 5
	if thorough {
		sizesGo = []int{1000, 4096, 20000, 65536, 131072, 204800}
		coqFaultsPerCfg = 12
	}
	frameCounts := []int{1, 2, 3, 10, 60}
	fanouts := []int{1, 2, 5, 10}
	pid := 0

	run := func(s *c14gen.Scenario, p, other *c14gen.Payload, inScope bool, cfgKey string, toCoq bool, mixed bool) {
		data, err, pan, _ := vc14Load(s)
		key := fmt.Sprintf("%s/%s/%d/%d", cfgKey, s.Kind, s.J, s.I)
		rep.Case(key, p.N() >= 2)
		rep.Count("fault=" + s.Kind)
		replay := map[string]interface{}{"seed": vh.Seed(), "config": cfgKey, "fault": s.Kind, "frame": s.J, "other_frame": s.I,
			"payload_hex": vh.Hex(p.Data[:vc14min(len(p.Data), 64)]), "payload_len": len(p.Data)}
		if pan != "" {
			rep.Fail("panic", "LoadDataFromDataFrames panicked: "+pan, replay)
			return
		}
		rep.Count("result=" + vc14ErrClass(err))
		if s.Kind == "none" {
			if err != nil {
				rep.Fail("roundtrip-error", "intact frames rejected: "+err.Error(), replay)
			} else if !bytes.Equal(data, p.Data) {
				rep.Fail("roundtrip-wrong-bytes", fmt.Sprintf("intact frames reassembled to %d bytes that differ from the %d written", len(data), len(p.Data)), replay)
			}
		} else if err == nil && !bytes.Equal(data, p.Data) {
			if inScope {
				rep.Fail("fault-accepted-different-bytes:"+s.Kind, fmt.Sprintf("fault %s on frame %d: %d bytes returned that differ from the %d written, no error", s.Kind, s.J, len(data), len(p.Data)), replay)
			} else {
				rep.Count("out-of-scope-accepted:" + s.Kind) // payload without checksum or frame count
			}
		} else if err == nil {
			rep.Count("fault-harmless:" + s.Kind) // e.g. identical chunks duplicated, unused field altered
		}
		if toCoq {
			var others []*c14gen.Payload
			if mixed {
				others = append(others, other)
			}
			nm := c14gen.NewNumbering(p, others...)
			cases.Add(c14gen.CoqLoadCase(s, nm, rng, data, err))
			rep.Count("coq-load-cases")
		}
	}

	type variant struct {
		noHash, noTotal bool
	}
	doCfg := func(size, nf, fo int, useFnv bool, v variant, toCoq bool) {
		pid += 2
		// the Coq case file is kept small in the quick tier (about 10 000 frames): the Go oracle sees every
		// configuration and fault, the model a sample of them weighted towards small frame counts
		coqFaults := coqFaultsPerCfg
		if toCoq && !thorough {
			switch {
			case size > 24: // the checksums over a few hundred bytes need only a handful of model cases
				toCoq = (nf == 1 && fo == 1) || (nf == 2 && fo == 1) || (nf == 3 && fo == 2) || (nf == 10 && (fo == 5 || fo == 2)) || (nf == 60 && fo == 10 && !useFnv)
				coqFaults = 2
			case nf >= 60:
				toCoq = (size >= 7 && !useFnv) || (fo == 5 && size == 2)
				coqFaults = 1
			case nf > 24:
				toCoq = false
			case nf >= 10:
				toCoq = size >= 7 || !useFnv
				coqFaults = 3
			}
		}
		var d []byte
		switch rng.Intn(5) {
		case 0:
			d = bytes.Repeat([]byte{byte(rng.Intn(256))}, size) // identical chunks: duplicates are harmless
		default:
			d = rng.Bytes(size)
		}
		d2 := rng.Bytes(size)
		if size > 0 && bytes.Equal(d, d2) {
			d2[0] ^= 1
		}
		random := rng.Bool()
		split := func(x []byte) [][]byte {
			if random {
				return c14gen.SplitRandom(rng, x, nf)
			}
			return c14gen.SplitEven(x, nf)
		}
		p := &c14gen.Payload{ID: pid, Data: d, Chunks: split(d), Fanout: fo, UseFnv: useFnv, NoHash: v.noHash, NoTotal: v.noTotal}
		p.Build(rng)
		other := &c14gen.Payload{ID: pid + 1, Data: d2, Chunks: split(d2), Fanout: fo, UseFnv: useFnv, NoHash: v.noHash, NoTotal: v.noTotal}
		other.Build(rng)
		inScope := !v.noHash && !v.noTotal
		cfgKey := fmt.Sprintf("size=%d,frames=%d,fanout=%d,fnv=%v,nohash=%v,nototal=%v,randomsplit=%v", size, nf, fo, useFnv, v.noHash, v.noTotal, random)
		rep.Count("frames=" + vc14Bucket(nf, []int{1, 2, 3, 10, 59, 60}))
		rep.Count(fmt.Sprintf("fanout=%d", fo))
		rep.Count("size=" + vc14Bucket(size, []int{0, 1, 2, 100, 1000, 65536, 204800}))
		if useFnv {
			rep.Count("checksum=fnv1a")
		} else {
			rep.Count("checksum=crc64")
		}
		if toCoq && !v.noTotal && (size <= 24 || thorough) { // the layout does not depend on the payload bytes
			cases.Add(c14gen.CoqLayoutCase(p))
			rep.Count("coq-layout-cases")
		}
		base := c14gen.NewScenario(p)
		mixed := c14gen.NewScenario(p, other)
		run(base, p, other, inScope, cfgKey, toCoq, false)
		if nf >= 3 {
			run(c14gen.PermuteLinks(rng, base), p, other, inScope, cfgKey+",permuted-links", toCoq, false)
		}
		run(mixed, p, other, inScope, cfgKey+",mixed-store", toCoq && rng.Intn(4) == 0, true)
		if len(rep.Samples) < 3 && nf == 10 && fo == 5 {
			rep.Sample(map[string]interface{}{"config": cfgKey, "first_frame_links": len(c14gen.Links(p.Frames[0])), "frame5_links": len(c14gen.Links(p.Frames[5]))})
		}
		// every fault kind on every frame
		type fj struct {
			kind string
			j    int
		}
		var all []fj
		for j := 0; j < nf; j++ {
			for _, k := range c14gen.FaultKinds {
				all = append(all, fj{k, j})
			}
		}
		coqPick := map[int]bool{}
		if toCoq {
			for i := 0; i < coqFaults*3 && len(all) > 0; i++ {
				coqPick[rng.Intn(len(all))] = true
			}
		}
		picked := 0
		for idx, f := range all {
			needsOther := f.kind == "swap" || f.kind == "mix-links"
			b := base
			if needsOther {
				b = mixed
			}
			s := c14gen.ApplyFault(rng, b, other, f.kind, f.j)
			if s == nil {
				continue
			}
			if s.Cyclic && !cycleSafe {
				rep.Count("skipped-cyclic-on-this-tree")
				continue
			}
			if s.Cyclic {
				rep.Count("fault=cyclic-link")
			}
			c := toCoq && coqPick[idx] && picked < coqFaults
			if c && v.noTotal && (f.kind == "dup-link" || f.kind == "dup-store" || f.kind == "dup-extra") {
				c = false // without a frame count the repair changes what a repeated CID yields: outside the property's scope
			}
			if c {
				picked++
			}
			run(s, p, other, inScope, cfgKey, c, needsOther)
		}
	}

	for _, size := range sizesCoq {
		for _, nf := range frameCounts {
			for _, fo := range fanouts {
				for _, fnv := range []bool{false, true} {
					doCfg(size, nf, fo, fnv, variant{}, true)
				}
			}
		}
	}
	for _, size := range sizesGo {
		for _, nf := range frameCounts {
			for _, fo := range fanouts {
				doCfg(size, nf, fo, rng.Bool(), variant{}, false)
			}
		}
	}
	// payloads without checksum and/or frame count: the round trip must still hold; faults are out of scope
	for _, v := range []variant{{true, false}, {false, true}, {true, true}} {
		for _, nf := range frameCounts {
			for _, fo := range []int{1, 5} {
				doCfg(40, nf, fo, false, v, true)
			}
		}
	}
	// random configurations inside the quantifier
	nrand := 60
	if thorough {
		nrand = 600
	}
	for i := 0; i < nrand; i++ {
		size := rng.Intn(2000)
		if thorough && i%10 == 0 {
			size = rng.Intn(204801)
		}
		doCfg(size, 1+rng.Intn(60), 1+rng.Intn(10), rng.Bool(), variant{}, size <= 300 && i%4 == 0)
	}

	if err := cases.Write(); err != nil {
		t.Fatal(err)
	}
	rep.CasesWritten(cases)
	if err := rep.Write(); err != nil {
		t.Fatal(err)
	}
}

// vc14Bucket names the bucket of v given ascending upper bounds.
func vc14Bucket(v int, ups []int) string {
	lo := 0
	for _, u := range ups {
		if v <= u {
			if lo == u || lo > u {
				return fmt.Sprint(u)
			}
			if lo+1 == u || v == u && lo == u {
				return fmt.Sprint(u)
			}
			return fmt.Sprintf("%d..%d", lo+1, u)
		}
		lo = u
	}
	return fmt.Sprintf(">%d", lo)
}

func vc14min(a, b int) int {
	if a < b {
		return a
	}
	return b
}
