package indexes

// Verification harness for C12 (injected with `go test -overlay`; not part of the repository).
// The four index kinds (slot-to-cid, sig-to-cid, cid-to-offset-and-size, pubkey-to-offset-and-size), written by the
// real writers, with their metadata edited structurally (every value of kind / epoch / rootCid / network cut to every
// length 0..9, removed, duplicated, replaced by junk), header fields mutated, truncated, randomly mutated; run through
// OpenWithReader_* and Get under the c12h watchdog. A legacy (compactindex36) file goes through the same entry points.
// Oracle: no panic, allocation <= 8*len + 512 KiB, no hang. Correspondence: the class of OpenWithReader_* against
// YF.C12_Parsers.meta_u64 on the epoch value found in the header (later checks are abstract in the model).

import (
	"bytes"
	"context"
	"encoding/binary"
	"fmt"
	"os"
	"path/filepath"
	"strings"
	"testing"

	"github.com/gagliardetto/solana-go"
	"github.com/ipfs/go-cid"
	"github.com/rpcpool/yellowstone-faithful/compactindexsized"
	"github.com/rpcpool/yellowstone-faithful/deprecated/compactindex36"
	"github.com/rpcpool/yellowstone-faithful/indexmeta"
	"github.com/rpcpool/yellowstone-faithful/zzverif/c12h"
	"github.com/rpcpool/yellowstone-faithful/zzverif/vh"
)

type vc12RC struct{ *bytes.Reader }

func (vc12RC) Close() error { return nil }

var vc12Root = cid.MustParse("bafyreics5uul5lbtxslcigtoa5fkba7qgwu7cyb7ih7z6fzsh4lgfgraau")

func vc12Cid(rng *vh.Rng) cid.Cid {
	b := append([]byte{1, 0x71, 0x12, 0x20}, rng.Bytes(32)...)
	_, c, err := cid.CidFromBytes(b)
	if err != nil {
		panic("VERIF-HARNESS-BUG " + err.Error())
	}
	return c
}

// kinds: 0 slot-to-cid, 1 sig-to-cid, 2 cid-to-offset-and-size, 3 pubkey-to-offset-and-size
var vc12Entries = []string{"open-slot", "open-sig", "open-cid", "open-pubkey"}

func vc12Seeds(dir string, rng *vh.Rng) ([]c12h.Seed, error) {
	ctx := context.Background()
	var seeds []c12h.Seed
	read := func(path string, kind int, keys [][]byte) error {
		data, err := os.ReadFile(path)
		if err != nil {
			return err
		}
		seeds = append(seeds, c12h.Seed{Name: vc12Entries[kind], Data: data, Keys: keys, Nums: []uint64{uint64(kind)}})
		return nil
	}
	tmp := func(n string) string { d := filepath.Join(dir, n); _ = os.MkdirAll(d, 0o755); return d }
	{
		w, err := NewWriter_SlotToCid(7, vc12Root, NetworkMainnet, tmp("t0"), 5)
		if err != nil {
			return seeds, err
		}
		var keys [][]byte
		for i := 0; i < 5; i++ {
			slot := uint64(7*432000 + i*3)
			if err := w.Put(slot, vc12Cid(rng)); err != nil {
				return seeds, err
			}
			keys = append(keys, Uint64tob(slot))
		}
		if err := w.Seal(ctx, tmp("o0")); err != nil {
			return seeds, err
		}
		if err := read(w.GetFilepath(), 0, keys); err != nil {
			return seeds, err
		}
		w.Close()
	}
	{
		w, err := NewWriter_SigToCid(7, vc12Root, NetworkTestnet, tmp("t1"), 4)
		if err != nil {
			return seeds, err
		}
		var keys [][]byte
		for i := 0; i < 4; i++ {
			var sig solana.Signature
			copy(sig[:], rng.Bytes(64))
			if err := w.Put(sig, vc12Cid(rng)); err != nil {
				return seeds, err
			}
			keys = append(keys, append([]byte(nil), sig[:]...))
		}
		if err := w.Seal(ctx, tmp("o1")); err != nil {
			return seeds, err
		}
		if err := read(w.GetFilepath(), 1, keys); err != nil {
			return seeds, err
		}
		w.Close()
	}
	{
		w, err := NewWriter_CidToOffsetAndSize(7, vc12Root, NetworkDevnet, tmp("t2"), 6)
		if err != nil {
			return seeds, err
		}
		var keys [][]byte
		for i := 0; i < 6; i++ {
			c := vc12Cid(rng)
			if err := w.Put(c, uint64(100+i*77), uint64(40+i)); err != nil {
				return seeds, err
			}
			keys = append(keys, c.Bytes())
		}
		if err := w.Seal(ctx, tmp("o2")); err != nil {
			return seeds, err
		}
		if err := read(w.GetFilepath(), 2, keys); err != nil {
			return seeds, err
		}
		w.Close()
	}
	{
		w, err := NewWriter_PubkeyToOffsetAndSize(7, vc12Root, NetworkMainnet, tmp("t3"))
		if err != nil {
			return seeds, err
		}
		var keys [][]byte
		for i := 0; i < 4; i++ {
			var pk solana.PublicKey
			copy(pk[:], rng.Bytes(32))
			if err := w.Put(pk, uint64(1000+i), uint64(90+i)); err != nil {
				return seeds, err
			}
			keys = append(keys, append([]byte(nil), pk[:]...))
		}
		if err := w.Seal(ctx, tmp("o3")); err != nil {
			return seeds, err
		}
		if err := read(w.GetFilepath(), 3, keys); err != nil {
			return seeds, err
		}
		w.Close()
	}
	{ // a legacy slot-to-cid index (compactindex36): OpenWithReader_SlotToCid dispatches on the magic
		b, err := compactindex36.NewBuilder(tmp("t4"), 3, 1<<20)
		if err != nil {
			return seeds, err
		}
		var keys [][]byte
		for i := 0; i < 3; i++ {
			var v [36]byte
			copy(v[:], vc12Cid(rng).Bytes())
			k := Uint64tob(uint64(i * 5))
			if err := b.Insert(k, v); err != nil {
				return seeds, err
			}
			keys = append(keys, k)
		}
		p := filepath.Join(dir, "legacy36.index")
		f, err := os.Create(p)
		if err != nil {
			return seeds, err
		}
		if err := b.Seal(ctx, f); err != nil {
			return seeds, err
		}
		f.Close()
		b.Close()
		if err := read(p, 0, keys); err != nil {
			return seeds, err
		}
		seeds[len(seeds)-1].Name = "legacy36"
	}
	// every sized seed must open with its own reader
	seeds = c12h.KeepSeeds(seeds, func(i int, s *c12h.Seed) error {
		if s.Name == "legacy36" {
			return nil
		}
		kind := s.Nums[0]
		in := c12h.Input{Entry: vc12Entries[kind], Data: s.Data, Keys: s.Keys, Aux: []uint64{kind, 0}}
		if o := vc12Exec(&in); o.Class != "ok" {
			return fmt.Errorf("does not open and answer")
		}
		return nil
	})
	return seeds, nil
}

// vc12WithMeta: the file with its header rebuilt around the given metadata pairs.
func vc12WithMeta(data []byte, kvs []indexmeta.KV) []byte {
	size := binary.LittleEndian.Uint32(data[8:12])
	rest := data[12+int(size):]
	var mb bytes.Buffer
	mb.WriteByte(byte(len(kvs)))
	for _, kv := range kvs {
		mb.WriteByte(byte(len(kv.Key)))
		mb.Write(kv.Key)
		mb.WriteByte(byte(len(kv.Value)))
		mb.Write(kv.Value)
	}
	out := append([]byte(nil), data[:8]...)
	out = binary.LittleEndian.AppendUint32(out, uint32(13+mb.Len()))
	out = append(out, data[12:25]...)
	out = append(out, mb.Bytes()...)
	return append(out, rest...)
}

func vc12MetaEdits(s *c12h.Seed, entry string, aux []uint64) []c12h.Input {
	db, err := compactindexsized.Open(bytes.NewReader(s.Data))
	if err != nil {
		return nil
	}
	base := db.Header.Metadata.KeyVals
	clone := func() []indexmeta.KV {
		out := make([]indexmeta.KV, len(base))
		for i, kv := range base {
			out[i] = indexmeta.KV{Key: append([]byte(nil), kv.Key...), Value: append([]byte(nil), kv.Value...)}
		}
		return out
	}
	var ins []c12h.Input
	add := func(label string, kvs []indexmeta.KV) {
		ins = append(ins, c12h.Input{Entry: entry, Label: "meta:" + label, Data: vc12WithMeta(s.Data, kvs), Keys: s.Keys, Aux: aux})
	}
	for i, kv := range base {
		name := string(kv.Key)
		for n := 0; n <= len(kv.Value) && n <= 9; n++ { // value cut to n bytes
			m := clone()
			m[i].Value = m[i].Value[:n]
			add(name+"-cut", m)
		}
		m := clone()
		m[i].Value = append(m[i].Value, 0x55) // one byte too long
		add(name+"-long", m)
		m = clone()
		m[i].Value = bytes.Repeat([]byte{0xff}, 255)
		add(name+"-junk", m)
		m = clone()
		m = append(m[:i], m[i+1:]...) // key absent
		add(name+"-absent", m)
		m = clone()
		m = append([]indexmeta.KV{{Key: kv.Key, Value: []byte{1, 2, 3}}}, m...) // a short duplicate comes first
		add(name+"-dup", m)
		m = clone()
		m[i].Key = append(m[i].Key, 'x')
		add(name+"-renamed", m)
	}
	add("none", nil)
	return ins
}

func vc12Gen(seeds []c12h.Seed, rng *vh.Rng, thorough bool) []c12h.Input {
	var ins []c12h.Input
	nrand := 700
	if thorough {
		nrand = 10000
	}
	for si := range seeds {
		s := &seeds[si]
		if s.Name == "legacy36" {
			for k := 0; k < 2; k++ { // through both dispatching openers
				e := vc12Entries[k]
				aux := []uint64{uint64(k), 0}
				ins = append(ins, c12h.Input{Entry: e, Label: "valid-legacy", Data: s.Data, Keys: s.Keys, Aux: aux})
				ins = append(ins, c12h.Truncations(e, s, []int{8, 20, 32, 48}, s.Keys, aux)...)
				ins = append(ins, c12h.RandomMutations(e, s, rng, nrand/4, 48, s.Keys, aux)...)
			}
			continue
		}
		kind := s.Nums[0]
		hs := 12 + int(binary.LittleEndian.Uint32(s.Data[8:12]))
		for k := 0; k < 4; k++ { // each file through its own opener and through the three others (kind mismatch)
			e := vc12Entries[k]
			aux := []uint64{uint64(k), 0}
			ins = append(ins, c12h.Input{Entry: e, Label: "valid", Data: s.Data, Keys: s.Keys, Aux: aux})
			if uint64(k) != kind {
				continue
			}
			ins = append(ins, vc12MetaEdits(s, e, aux)...)
			ins = append(ins, c12h.Truncations(e, s, []int{8, 12, 25, 26, hs, hs + 16}, s.Keys, aux)...)
			meta := &c12h.Seed{Data: s.Data}
			// random edits confined to the metadata region and the bucket table (the fixed header is the ci-sized part's business)
			for _, in := range c12h.RandomMutations(e, meta, rng, nrand*3, hs+32, s.Keys, aux) {
				if len(in.Data) >= 25 && bytes.Equal(in.Data[:25], s.Data[:25]) {
					ins = append(ins, in)
				}
			}
			for ki := range s.Keys {
				ins = append(ins, c12h.Input{Entry: e, Label: "valid", Data: s.Data, Keys: s.Keys, Aux: []uint64{uint64(k), uint64(ki)}})
			}
		}
	}
	return ins
}

func vc12Exec(in *c12h.Input) c12h.Obs {
	// what the model needs: the epoch value the header carries (when the header can be read at all)
	if db, err := compactindexsized.Open(bytes.NewReader(in.Data)); err == nil {
		pre := []uint64{0}
		if v, ok := db.Header.Metadata.Get(indexmeta.MetadataKey_Epoch); ok {
			pre = []uint64{1}
			for _, b := range v {
				pre = append(pre, uint64(b))
			}
		}
		in.Pre = pre
	}
	rd := vc12RC{bytes.NewReader(in.Data)}
	key := in.Keys[in.Aux[1]]
	var err error
	switch in.Aux[0] {
	case 0:
		var r *SlotToCid_Reader
		if r, err = OpenWithReader_SlotToCid(rd); err == nil {
			_ = r.Meta()
			r.Prefetch(false)
			_, err = r.Get(binary.LittleEndian.Uint64(append(append([]byte(nil), key...), make([]byte, 8)...)[:8]))
		}
	case 1:
		var r *SigToCid_Reader
		if r, err = OpenWithReader_SigToCid(rd); err == nil {
			var sig solana.Signature
			copy(sig[:], key)
			_ = r.Meta()
			_, err = r.Get(sig)
		}
	case 2:
		var r *CidToOffsetAndSize_Reader
		if r, err = OpenWithReader_CidToOffsetAndSize(rd); err == nil {
			_ = r.Meta()
			c, cerr := cid.Cast(key)
			if cerr != nil {
				c = vc12Root
			}
			_, err = r.Get(c)
		}
	case 3:
		var r *PubkeyToOffsetAndSize_Reader
		if r, err = OpenWithReader_PubkeyToOffsetAndSize(rd); err == nil {
			var pk solana.PublicKey
			copy(pk[:], key)
			_ = r.Meta()
			_, err = r.Get(pk)
		}
	}
	if err != nil {
		return c12h.Obs{Class: "error", Nums: in.Pre}
	}
	return c12h.Obs{Class: "ok", Nums: in.Pre}
}

func vc12Budget(in *c12h.Input) uint64 { return uint64(8*len(in.Data)) + 512<<10 }

func vc12Witnesses(seeds []c12h.Seed) map[string]c12h.Input {
	s := &seeds[0]
	db, err := compactindexsized.Open(bytes.NewReader(s.Data))
	if err != nil {
		panic("VERIF-HARNESS-BUG " + err.Error())
	}
	kvs := append([]indexmeta.KV(nil), db.Header.Metadata.KeyVals...)
	for i := range kvs {
		if bytes.Equal(kvs[i].Key, indexmeta.MetadataKey_Epoch) {
			kvs[i] = indexmeta.KV{Key: kvs[i].Key, Value: []byte{1, 2, 3}}
		}
	}
	return map[string]c12h.Input{
		"g_meta_u64": {Entry: "open-slot", Label: "witness", Data: vc12WithMeta(s.Data, kvs), Keys: s.Keys, Aux: []uint64{0, 0}},
	}
}

func vc12CoqCase(in *c12h.Input, r *c12h.Result) (string, bool) {
	cls, ok := c12h.ClassN(r.Class)
	if !ok || len(r.Nums) == 0 {
		return "", false
	}
	if r.Class == "panic" && !strings.Contains(r.Site, "BtoUint64") {
		return "", false // a panic of the compact-index reader during Get: the ci-sized part's model, not this one
	}
	v := "None"
	if r.Nums[0] == 1 {
		b := make([]byte, len(r.Nums)-1)
		for i, x := range r.Nums[1:] {
			b[i] = byte(x)
		}
		v = "(Some " + vh.CoqBytes(b) + ")"
	}
	return fmt.Sprintf("CMetaOpen %s %s", v, vh.CoqN(cls)), true
}

func TestVerif_C12(t *testing.T) {
	c12h.Run(t, &c12h.Part{
		Name:  "indexes",
		Rule:  "indexes.OpenWithReader_{SlotToCid,SigToCid,CidToOffsetAndSize,PubkeyToOffsetAndSize} + Get on index files with edited metadata / mutated bytes: no panic, allocation <= 8*len+512KiB, no hang; class allowed by the Coq model of the 8-byte epoch value",
		Seeds: vc12Seeds, Gen: vc12Gen, Exec: vc12Exec, Budget: vc12Budget, Witnesses: vc12Witnesses,
		CoqImports: []string{"YF.C12_Check"}, CoqType: "meta_case",
		CoqChecker: func(f map[string]bool) string { return "(check_meta " + vh.CoqBool(f["g_meta_u64"]) + ")" },
		CoqCase:    vc12CoqCase, MaxCoq: 500,
	})
}
