package rangecache

// Verification harness for C17 (injected with `go test -overlay`; not part of the repository).
//
// Runs the REAL RangeCache over a small in-memory "remote" with failure injection:
//   - exhaustive short histories of GetRange / SetRange / DeleteOldEntries (incl. out-of-file ranges, int64
//     overflow, failing remote at any call, pre-cancelled contexts, expiry of chosen entries by controlled age),
//   - random long histories,
//   - concurrent readers (+ expiry and truthful SetRange) checked by the oracle only.
// A failing remote call fails the way real fetchers do (vc17FailModes): a generic error with a scribbled buffer, io.EOF or
// io.ErrUnexpectedEOF with no bytes, or with a short count (the first bytes right, the rest of the buffer untouched) - what
// os.File / bytes.Reader ReadAt give on a remote that holds fewer bytes than announced, and io.ReadFull on a body that is
// empty or breaks off. Every mode for every range (in particular those ending at the file size) in the histories of length
// <= 2, rotating through the longer enumerations, drawn in the random and concurrent runs. The oracle does not look at
// the error value; the Coq action alphabet keeps the single "fetch fails".
// The property oracle is evaluated directly on every observation (rep.Fail with stable signatures); a sample
// of the sequential histories, with the cache contents after every step, is written as Coq terms and checked
// by YF.C17_Check.check (acceptance predicate proved to imply the property).
//
// The only unexported identifiers used are rc.mu, rc.cache and RangeCacheEntry.{Value,LastRead}
// (vc17Snap / vc17Age / vc17AgedKeys); everything else goes through the public API.

import (
	"context"
	"errors"
	"fmt"
	"io"
	"math"
	"os"
	"path/filepath"
	"sort"
	"strings"
	"sync"
	"sync/atomic"
	"testing"
	"time"

	"github.com/rpcpool/yellowstone-faithful/zzverif/vh"
)

var errVC17Remote = errors.New("vc17: injected remote failure")

// vc17Remote is the remote file. A failing call scribbles into the buffer (so that caching it would show);
// a call reaching outside the file is answered with zero padding and NO error (so that a cache that forgets
// its own size check visibly pads).
type vc17Remote struct {
	data     []byte
	failNext bool
	failMode int
	calls    int
	failed   int
}

// the ways a remote call fails (vc17Op.Mode)
var vc17FailModes = []string{"generic error, buffer scribbled", "io.EOF, no bytes", "io.EOF, short count", "io.ErrUnexpectedEOF, no bytes", "io.ErrUnexpectedEOF, short count"}

// vc17FailFetch is a failed remote call in the given mode: (n, err) with n < len(p) whenever len(p) > 0.
func vc17FailFetch(data, p []byte, off int64, mode int) (int, error) {
	var err error
	switch mode {
	case 1, 2:
		err = io.EOF
	case 3, 4:
		err = io.ErrUnexpectedEOF
	default:
		for i := range p {
			p[i] = 0xEE
		}
		return 0, errVC17Remote
	}
	n := 0
	if mode == 2 || mode == 4 { // the first half of the bytes arrived (never all; none of a 1-byte read), the rest of p is untouched
		n = len(p) / 2
		if n == 0 && len(p) > 1 {
			n = 1
		}
		for i := 0; i < n; i++ {
			if j := off + int64(i); j >= 0 && j < int64(len(data)) {
				p[i] = data[j]
			}
		}
	}
	return n, err
}

func (r *vc17Remote) fetch(p []byte, off int64) (int, error) {
	r.calls++
	if r.failNext {
		r.failNext = false
		r.failed++
		return vc17FailFetch(r.data, p, off, r.failMode)
	}
	for i := range p {
		j := off + int64(i)
		if j >= 0 && j < int64(len(r.data)) {
			p[i] = r.data[j]
		} else {
			p[i] = 0
		}
	}
	return len(p), nil
}

type vc17Op struct {
	Kind   string `json:"kind"` // get | set | del
	Start  int64  `json:"start"`
	Ln     int64  `json:"ln"`
	Cancel bool   `json:"cancel,omitempty"` // context already cancelled
	Fail   bool   `json:"fail,omitempty"`   // get: the remote fails at its next call
	Mode   int    `json:"failmode,omitempty"` // get with Fail: how it fails (index into vc17FailModes)
	Extra  int    `json:"extra,omitempty"`  // set: value length = ln + Extra (0 = well-formed)
	Del    string `json:"del,omitempty"`    // del: all | none | first | last
}

func (o vc17Op) String() string {
	c := ""
	if o.Cancel {
		c = "!ctx"
	}
	switch o.Kind {
	case "get":
		f := ""
		if o.Fail {
			f = "!fail"
			if o.Mode > 0 && o.Mode < len(vc17FailModes) {
				f = "!fail<" + vc17FailModes[o.Mode] + ">"
			}
		}
		return fmt.Sprintf("G(%d,%d)%s%s", o.Start, o.Ln, f, c)
	case "set":
		return fmt.Sprintf("S(%d,%d,%+d)%s", o.Start, o.Ln, o.Extra, c)
	}
	return "D(" + o.Del + ")" + c
}

type vc17Ent struct {
	S, E int64
	V    []byte
}

type vc17Obs struct {
	Op      vc17Op
	Fetched bool
	IsErr   bool
	Res     []byte
	Value   []byte
	Aged    [][2]int64
	Snap    []vc17Ent
}

// ---- the two places that look inside the cache ----

func vc17Snap(rc *RangeCache) []vc17Ent {
	rc.mu.RLock()
	defer rc.mu.RUnlock()
	out := make([]vc17Ent, 0, len(rc.cache))
	for r, e := range rc.cache {
		out = append(out, vc17Ent{r[0], r[1], append([]byte(nil), e.Value...)})
	}
	sort.Slice(out, func(i, j int) bool {
		if out[i].S != out[j].S {
			return out[i].S < out[j].S
		}
		return out[i].E < out[j].E
	})
	return out
}

// vc17Age makes the given entries two hours old (controlled time for DeleteOldEntries).
func vc17Age(rc *RangeCache, keys [][2]int64) {
	rc.mu.Lock()
	defer rc.mu.Unlock()
	for _, k := range keys {
		if e, ok := rc.cache[Range{k[0], k[1]}]; ok {
			e.LastRead = time.Now().Add(-2 * time.Hour)
			rc.cache[Range{k[0], k[1]}] = e
		}
	}
}

// vc17AgedKeys lists the entries that are older than one hour.
func vc17AgedKeys(rc *RangeCache) [][2]int64 {
	rc.mu.RLock()
	defer rc.mu.RUnlock()
	var out [][2]int64
	for r, e := range rc.cache {
		if time.Since(e.LastRead) > time.Hour {
			out = append(out, [2]int64{r[0], r[1]})
		}
	}
	sort.Slice(out, func(i, j int) bool {
		if out[i][0] != out[j][0] {
			return out[i][0] < out[j][0]
		}
		return out[i][1] < out[j][1]
	})
	return out
}

// ---- specification side ----

// vc17Inside: does the read (start, ln) lie inside a file of the given size (true arithmetic, no wrap)?
func vc17Inside(size, start, ln int64) bool {
	if start < 0 || ln < 0 || start > size {
		return false
	}
	return ln <= size-start
}

func vc17Cancelled() context.Context {
	ctx, cancel := context.WithCancel(context.Background())
	cancel()
	return ctx
}

func vc17Keys(s []vc17Ent) string {
	var sb strings.Builder
	for _, e := range s {
		fmt.Fprintf(&sb, "[%d,%d)", e.S, e.E)
	}
	return sb.String()
}

func vc17Bytes(a, b []byte) bool {
	if len(a) != len(b) {
		return false
	}
	for i := range a {
		if a[i] != b[i] {
			return false
		}
	}
	return true
}

type vc17Replay struct {
	Remote  []byte   `json:"remote"`
	History []vc17Op `json:"history"`
	Step    int      `json:"failing_step"`
	Shown   string   `json:"history_text"`
}

// vc17Run runs one sequential history on a fresh cache, evaluates the property oracle on every step and
// returns the observations.
func vc17Run(rep *vh.Report, data []byte, ops []vc17Op, sweep bool) []vc17Obs {
	size := int64(len(data))
	rem := &vc17Remote{data: data}
	rc := NewRangeCache(size, "vc17", rem.fetch)
	obs := make([]vc17Obs, 0, len(ops)+1)
	text := func() string {
		parts := make([]string, len(ops))
		for i, o := range ops {
			parts[i] = o.String()
		}
		return strings.Join(parts, " ; ")
	}
	fail := func(sig string, step int, format string, a ...interface{}) {
		rep.Fail(sig, fmt.Sprintf("remote=%v history=%s step=%d: ", data, text(), step)+fmt.Sprintf(format, a...),
			vc17Replay{Remote: data, History: ops, Step: step, Shown: text()})
	}
	pre := vc17Snap(rc)
	doGet := func(i int, op vc17Op) vc17Obs {
		ctx := context.Background()
		if op.Cancel {
			ctx = vc17Cancelled()
		}
		rem.failNext, rem.failMode = op.Fail, op.Mode
		c0, f0 := rem.calls, rem.failed
		var got []byte
		var err error
		func() {
			defer func() {
				if r := recover(); r != nil {
					fail("panic", i, "GetRange(%d,%d) panicked: %v", op.Start, op.Ln, r)
					err = fmt.Errorf("panic")
				}
			}()
			got, err = rc.GetRange(ctx, op.Start, op.Ln)
		}()
		rem.failNext = false
		o := vc17Obs{Op: op, Fetched: rem.calls > c0, IsErr: err != nil, Res: append([]byte(nil), got...)}
		for k := range got {
			got[k] = 0x55 // the caller owns its result: scribbling over it must not reach the cache
		}
		got = o.Res
		remoteFailed := rem.failed > f0
		o.Snap = vc17Snap(rc)
		if !vc17Inside(size, op.Start, op.Ln) {
			if err == nil {
				fail("past-eof-not-refused", i, "GetRange(%d,%d) on a %d-byte file returned %v without error", op.Start, op.Ln, size, got)
			}
		} else if err == nil {
			want := data[op.Start : op.Start+op.Ln]
			if !vc17Bytes(got, want) {
				fail("wrong-bytes", i, "GetRange(%d,%d) returned %v, the remote holds %v (cache before: %s)", op.Start, op.Ln, got, want, vc17Keys(pre))
			}
		} else if !remoteFailed && !op.Cancel {
			fail("spurious-error", i, "GetRange(%d,%d) failed (%v) although the range is inside the file and the remote did not fail", op.Start, op.Ln, err)
		}
		if err != nil && vc17Keys(o.Snap) != vc17Keys(pre) {
			fail("failed-read-changed-cache", i, "GetRange(%d,%d) returned an error but the cached ranges changed from %s to %s", op.Start, op.Ln, vc17Keys(pre), vc17Keys(o.Snap))
		}
		return o
	}
	for i, op := range ops {
		var o vc17Obs
		switch op.Kind {
		case "get":
			o = doGet(i, op)
		case "set":
			ctx := context.Background()
			if op.Cancel {
				ctx = vc17Cancelled()
			}
			n := op.Ln + int64(op.Extra)
			if n < 0 {
				n = 0
			}
			if n > 64 { // absurd lengths (int64 overflow cases): the value cannot be that long anyway
				n = 64
			}
			val := make([]byte, n)
			for k := range val {
				j := op.Start + int64(k)
				if j >= 0 && j < size {
					val[k] = data[j] // truthful wherever the file has a byte
				}
			}
			var err error
			func() {
				defer func() {
					if r := recover(); r != nil {
						fail("panic", i, "SetRange(%d,%d) panicked: %v", op.Start, op.Ln, r)
						err = fmt.Errorf("panic")
					}
				}()
				err = rc.SetRange(ctx, op.Start, op.Ln, append([]byte(nil), val...))
			}()
			o = vc17Obs{Op: op, IsErr: err != nil, Value: val, Snap: vc17Snap(rc)}
			if err == nil && (!vc17Inside(size, op.Start, op.Ln) || int64(len(val)) != op.Ln) {
				fail("bad-setrange-accepted", i, "SetRange(%d,%d, %d bytes) on a %d-byte file was accepted", op.Start, op.Ln, len(val), size)
			}
		case "del":
			ctx := context.Background()
			if op.Cancel {
				ctx = vc17Cancelled()
			}
			var aged [][2]int64
			switch op.Del {
			case "all":
				for _, e := range pre {
					aged = append(aged, [2]int64{e.S, e.E})
				}
			case "first":
				if len(pre) > 0 {
					aged = append(aged, [2]int64{pre[0].S, pre[0].E})
				}
			case "last":
				if len(pre) > 0 {
					aged = append(aged, [2]int64{pre[len(pre)-1].S, pre[len(pre)-1].E})
				}
			}
			vc17Age(rc, aged)
			aged = vc17AgedKeys(rc) // includes entries aged by an earlier, cancelled, expiry run
			func() {
				defer func() {
					if r := recover(); r != nil {
						fail("panic", i, "DeleteOldEntries panicked: %v", r)
					}
				}()
				rc.DeleteOldEntries(ctx, time.Hour)
			}()
			o = vc17Obs{Op: op, Aged: aged, Snap: vc17Snap(rc)}
		}
		// the invariant, on the real state: every cached entry is the remote slice of its range
		for _, e := range o.Snap {
			if e.S < 0 || e.E > size || e.S > e.E || !vc17Bytes(e.V, data[e.S:e.E]) {
				fail("cache-entry-not-remote", i, "after %s the cache holds [%d,%d) = %v, the remote holds %v there", op.String(), e.S, e.E, e.V, vc17SafeSlice(data, e.S, e.E))
				break
			}
		}
		obs = append(obs, o)
		pre = o.Snap
	}
	if sweep {
		// a failed fetch is not cached: once the remote has recovered, the next read of that range tells the truth
		for _, op := range ops {
			if op.Kind == "get" && op.Fail && vc17Inside(size, op.Start, op.Ln) {
				o := doGet(len(ops), vc17Op{Kind: "get", Start: op.Start, Ln: op.Ln})
				obs = append(obs, o)
				pre = o.Snap
			}
		}
		// whatever happened before, a later read of the whole file (and of each byte) tells the truth
		o := doGet(len(ops), vc17Op{Kind: "get", Start: 0, Ln: size})
		obs = append(obs, o)
		for s := int64(0); s < size; s++ {
			var got []byte
			var err error
			func() {
				defer func() {
					if r := recover(); r != nil {
						fail("panic", len(ops)+1, "final GetRange(%d,1) panicked: %v", s, r)
						got, err = []byte{data[s]}, nil // already reported
					}
				}()
				got, err = rc.GetRange(context.Background(), s, 1)
			}()
			if err != nil || len(got) != 1 || got[0] != data[s] {
				fail("wrong-bytes", len(ops)+1, "final GetRange(%d,1) returned %v, %v; the remote holds %d", s, got, err, data[s])
				break
			}
		}
	}
	return obs
}

func vc17SafeSlice(d []byte, s, e int64) []byte {
	if s < 0 || e > int64(len(d)) || s > e {
		return nil
	}
	return d[s:e]
}

// ---- Coq terms ----

func vc17CoqEnts(s []vc17Ent) string {
	items := make([]string, len(s))
	for i, e := range s {
		items[i] = fmt.Sprintf("((%d, %d), %s)", e.S, e.E, vh.CoqBytes(e.V))
	}
	return vh.CoqList(items)
}

func vc17CoqCase(data []byte, obs []vc17Obs) string {
	steps := make([]string, len(obs))
	for i, o := range obs {
		var op string
		switch o.Op.Kind {
		case "get":
			res := "RErr"
			if !o.IsErr {
				res = "(RBytes " + vh.CoqBytes(o.Res) + ")"
			}
			op = fmt.Sprintf("OGet %s %s %s %s %s %s", vh.CoqZ(o.Op.Start), vh.CoqZ(o.Op.Ln), vh.CoqBool(o.Op.Cancel),
				vh.CoqBool(o.Op.Fail), vh.CoqBool(o.Fetched), res)
		case "set":
			op = fmt.Sprintf("OSet %s %s %s %s %s", vh.CoqZ(o.Op.Start), vh.CoqZ(o.Op.Ln), vh.CoqBytes(o.Value),
				vh.CoqBool(o.Op.Cancel), vh.CoqBool(!o.IsErr))
		default:
			rs := make([]string, len(o.Aged))
			for k, a := range o.Aged {
				rs[k] = fmt.Sprintf("(%d, %d)", a[0], a[1])
			}
			op = fmt.Sprintf("ODel %s %s", vh.CoqList(rs), vh.CoqBool(o.Op.Cancel))
		}
		steps[i] = "(" + op + ", " + vc17CoqEnts(o.Snap) + ")"
	}
	return "(" + vh.CoqBytes(data) + ", " + vh.CoqList(steps) + ")"
}

// ---- alphabets ----

func vc17Data(n int) []byte {
	d := make([]byte, n)
	for i := range d {
		d[i] = byte(160 + 7*i) // all different, none 0 (padding) or 0xEE (scribble)
	}
	return d
}

// full alphabet over a file of the given size
func vc17FullAlphabet(size int64) []vc17Op {
	var ops []vc17Op
	for s := int64(0); s <= size; s++ {
		for e := s; e <= size; e++ {
			ops = append(ops, vc17Op{Kind: "get", Start: s, Ln: e - s})
			for m := range vc17FailModes {
				ops = append(ops, vc17Op{Kind: "get", Start: s, Ln: e - s, Fail: true, Mode: m})
			}
			ops = append(ops, vc17Op{Kind: "set", Start: s, Ln: e - s})
		}
	}
	// not inside the file: past the end by one / by many, negative start, negative length, int64 overflow
	for _, p := range [][2]int64{{0, size + 1}, {size, 1}, {size - 1, 2}, {1, size}, {size + 1, 0}, {size + 1, 1}, {-1, 1}, {-1, 0}, {2, -1},
		{0, -1}, {1, math.MaxInt64}, {size, math.MaxInt64}, {math.MaxInt64, 1}, {math.MaxInt64, math.MaxInt64}, {2, math.MinInt64}, {0, 1 << 40}} {
		ops = append(ops, vc17Op{Kind: "get", Start: p[0], Ln: p[1]})
	}
	ops = append(ops, vc17Op{Kind: "get", Start: size - 1, Ln: 2, Fail: true})
	for _, p := range [][2]int64{{size, 1}, {-1, 2}, {1, size}, {1, math.MaxInt64}} {
		ops = append(ops, vc17Op{Kind: "set", Start: p[0], Ln: p[1]})
	}
	ops = append(ops, vc17Op{Kind: "set", Start: 1, Ln: 2, Extra: 1}, vc17Op{Kind: "set", Start: 1, Ln: 2, Extra: -1})
	// pre-cancelled contexts
	ops = append(ops, vc17Op{Kind: "get", Start: 1, Ln: 2, Cancel: true}, vc17Op{Kind: "get", Start: 0, Ln: size, Cancel: true},
		vc17Op{Kind: "get", Start: 2, Ln: 1, Cancel: true, Fail: true}, vc17Op{Kind: "set", Start: 0, Ln: 3, Cancel: true},
		vc17Op{Kind: "set", Start: 2, Ln: 1, Cancel: true})
	for _, d := range []string{"all", "none", "first", "last"} {
		ops = append(ops, vc17Op{Kind: "del", Del: d})
	}
	ops = append(ops, vc17Op{Kind: "del", Del: "all", Cancel: true})
	return ops
}

// reduced alphabet: every non-empty in-file read, failing reads and sets of a spread of ranges, the refusals, expiry
func vc17ReducedAlphabet(size int64) []vc17Op {
	var ops []vc17Op
	k := 0
	for s := int64(0); s < size; s++ {
		for e := s + 1; e <= size; e++ {
			ops = append(ops, vc17Op{Kind: "get", Start: s, Ln: e - s})
			if k%3 == 0 {
				ops = append(ops, vc17Op{Kind: "get", Start: s, Ln: e - s, Fail: true})
			}
			if k%3 == 1 {
				ops = append(ops, vc17Op{Kind: "set", Start: s, Ln: e - s})
			}
			k++
		}
	}
	ops = append(ops, vc17Op{Kind: "get", Start: 2, Ln: 0}, vc17Op{Kind: "get", Start: size, Ln: 0},
		vc17Op{Kind: "get", Start: size - 1, Ln: 2}, vc17Op{Kind: "get", Start: 0, Ln: size + 1}, vc17Op{Kind: "get", Start: -1, Ln: 2},
		vc17Op{Kind: "get", Start: 1, Ln: 2, Cancel: true},
		vc17Op{Kind: "del", Del: "all"}, vc17Op{Kind: "del", Del: "first"}, vc17Op{Kind: "del", Del: "last"})
	return ops
}

// vc17Enumerate runs every history of exactly n operations over the alphabet.
func vc17Enumerate(rep *vh.Report, cases *vh.CasesFile, rng *vh.Rng, tag string, data []byte, alpha []vc17Op, n int, coqOneIn int) {
	idx := make([]int, n)
	rotate := true // an alphabet that does not spell the failure modes out: rotate through them
	for _, a := range alpha {
		rotate = rotate && a.Mode == 0
	}
	for h := 0; ; h++ {
		ops := make([]vc17Op, n)
		for i := range idx {
			ops[i] = alpha[idx[i]]
			if rotate && ops[i].Fail {
				ops[i].Mode = (h + 2*i) % len(vc17FailModes)
				rep.Count("enumerated failing fetch: " + vc17FailModes[ops[i].Mode])
			}
		}
		obs := vc17Run(rep, data, ops, true)
		nontrivial := false
		for _, o := range obs[:n] {
			if o.Op.Kind == "get" && !o.IsErr {
				nontrivial = true
			}
		}
		rep.Case(fmt.Sprint(tag, idx), nontrivial && n >= 2)
		rep.Count(fmt.Sprintf("%s/len=%d", tag, n))
		vc17CountObs(rep, obs)
		if coqOneIn <= 1 || rng.Intn(coqOneIn) == 0 {
			cases.Add(vc17CoqCase(data, obs))
		}
		// next index vector
		k := n - 1
		for k >= 0 {
			idx[k]++
			if idx[k] < len(alpha) {
				break
			}
			idx[k] = 0
			k--
		}
		if k < 0 {
			return
		}
	}
}

func vc17CountObs(rep *vh.Report, obs []vc17Obs) {
	for _, o := range obs {
		switch {
		case o.Op.Kind == "get" && o.IsErr:
			rep.Count("get=error")
		case o.Op.Kind == "get" && o.Fetched:
			rep.Count("get=miss-fetched")
		case o.Op.Kind == "get":
			rep.Count("get=cache-hit")
		case o.Op.Kind == "set":
			rep.Count("set")
		default:
			rep.Count("del")
		}
	}
}

func vc17RandomOp(rng *vh.Rng, size int64) vc17Op {
	s := int64(rng.Intn(int(size) + 1))
	l := int64(rng.Intn(int(size-s) + 1))
	if rng.Intn(3) == 0 { // short reads cluster, so that hits, supersets and subsets happen
		l = int64(rng.Intn(4))
		if s+l > size {
			l = size - s
		}
	}
	switch x := rng.Intn(100); {
	case x < 55:
		return vc17Op{Kind: "get", Start: s, Ln: l}
	case x < 65:
		return vc17Op{Kind: "get", Start: s, Ln: l, Fail: true, Mode: rng.Intn(len(vc17FailModes))}
	case x < 72: // not inside the file
		switch rng.Intn(5) {
		case 0:
			return vc17Op{Kind: "get", Start: s, Ln: size - s + 1 + int64(rng.Intn(3))}
		case 1:
			return vc17Op{Kind: "get", Start: -1 - int64(rng.Intn(3)), Ln: l}
		case 2:
			return vc17Op{Kind: "get", Start: s, Ln: -1 - int64(rng.Intn(3))}
		case 3:
			return vc17Op{Kind: "get", Start: s + 1, Ln: math.MaxInt64 - int64(rng.Intn(3)), Fail: rng.Bool()}
		}
		return vc17Op{Kind: "get", Start: size + 1 + int64(rng.Intn(3)), Ln: int64(rng.Intn(2))}
	case x < 76:
		return vc17Op{Kind: "get", Start: s, Ln: l, Cancel: true, Fail: rng.Intn(4) == 0, Mode: rng.Intn(len(vc17FailModes))}
	case x < 88:
		return vc17Op{Kind: "set", Start: s, Ln: l}
	case x < 90:
		return vc17Op{Kind: "set", Start: s, Ln: l, Extra: rng.Pick(-1, 1)}
	case x < 92:
		return vc17Op{Kind: "set", Start: s, Ln: l, Cancel: true}
	}
	return vc17Op{Kind: "del", Del: []string{"all", "none", "first", "last", "first", "last"}[rng.Intn(6)], Cancel: rng.Intn(8) == 0}
}

// ---- concurrent readers: oracle only ----

type vc17ConcRemote struct {
	data   []byte
	seed   uint64
	calls  atomic.Uint64
	failed sync.Map // [2]int64{off,len} -> *atomic.Int64
}

func (r *vc17ConcRemote) fetch(p []byte, off int64) (int, error) {
	n := r.calls.Add(1)
	z := (n + r.seed) * 0x9E3779B97F4A7C15
	z ^= z >> 29
	if z%6 == 0 {
		c, _ := r.failed.LoadOrStore([2]int64{off, int64(len(p))}, new(atomic.Int64))
		c.(*atomic.Int64).Add(1)
		return vc17FailFetch(r.data, p, off, int((z>>8)%uint64(len(vc17FailModes))))
	}
	for i := range p {
		j := off + int64(i)
		if j >= 0 && j < int64(len(r.data)) {
			p[i] = r.data[j]
		} else {
			p[i] = 0
		}
	}
	return len(p), nil
}

func vc17Concurrent(rep *vh.Report, seed uint64, round, readers, opsPer int) {
	rng := vh.NewRng(seed + uint64(round)*7919)
	size := int64(rng.Range(8, 48))
	data := rng.Bytes(int(size))
	for i := range data { // keep 0 and 0xEE out of the file so that padding/scribble are recognisable
		if data[i] == 0 || data[i] == 0xEE {
			data[i] = 1
		}
	}
	rem := &vc17ConcRemote{data: data, seed: rng.U64()}
	rc := NewRangeCache(size, "vc17-conc", rem.fetch)
	var errCount sync.Map // [2]int64 -> *atomic.Int64
	var wg sync.WaitGroup
	stop := make(chan struct{})
	type bad struct{ sig, detail string }
	var badMu sync.Mutex
	var bads []bad
	addBad := func(sig, format string, a ...interface{}) {
		badMu.Lock()
		if len(bads) < 20 {
			bads = append(bads, bad{sig, fmt.Sprintf(format, a...)})
		}
		badMu.Unlock()
	}
	var reads atomic.Int64
	for g := 0; g < readers; g++ {
		wg.Add(1)
		grng := vh.NewRng(rng.U64())
		go func() {
			defer wg.Done()
			defer func() {
				if r := recover(); r != nil {
					addBad("panic", "concurrent GetRange panicked: %v", r)
				}
			}()
			for i := 0; i < opsPer; i++ {
				op := vc17RandomOp(grng, size)
				if op.Kind != "get" || op.Cancel {
					op = vc17Op{Kind: "get", Start: int64(grng.Intn(int(size))), Ln: int64(grng.Intn(3))}
					if op.Start+op.Ln > size {
						op.Ln = size - op.Start
					}
				}
				got, err := rc.GetRange(context.Background(), op.Start, op.Ln)
				reads.Add(1)
				inside := vc17Inside(size, op.Start, op.Ln)
				switch {
				case !inside && err == nil:
					addBad("past-eof-not-refused", "concurrent GetRange(%d,%d) on a %d-byte file returned %v", op.Start, op.Ln, size, got)
				case inside && err == nil:
					if !vc17Bytes(got, data[op.Start:op.Start+op.Ln]) {
						addBad("wrong-bytes", "concurrent GetRange(%d,%d) returned %v, the remote holds %v", op.Start, op.Ln, got, data[op.Start:op.Start+op.Ln])
					}
				case inside && err != nil:
					c, _ := errCount.LoadOrStore([2]int64{op.Start, op.Ln}, new(atomic.Int64))
					c.(*atomic.Int64).Add(1)
				}
			}
		}()
	}
	// expiry + truthful SetRange running against the readers
	var bg sync.WaitGroup
	bg.Add(1)
	brng := vh.NewRng(rng.U64())
	go func() {
		defer bg.Done()
		for {
			select {
			case <-stop:
				return
			default:
			}
			switch brng.Intn(3) {
			case 0:
				rc.DeleteOldEntries(context.Background(), -1) // everything is older than -1ns
			case 1:
				s := int64(brng.Intn(int(size)))
				l := int64(brng.Intn(int(size-s) + 1))
				_ = rc.SetRange(context.Background(), s, l, append([]byte(nil), data[s:s+l]...))
			default:
				snap := vc17Snap(rc)
				if len(snap) > 0 {
					e := snap[brng.Intn(len(snap))]
					vc17Age(rc, [][2]int64{{e.S, e.E}})
					rc.DeleteOldEntries(context.Background(), time.Hour)
				}
			}
			if brng.Intn(4) == 0 {
				time.Sleep(time.Duration(brng.Intn(20)) * time.Microsecond)
			}
		}
	}()
	wg.Wait()
	close(stop)
	bg.Wait()
	// an error on an in-file read must have a failed remote fetch of that very read behind it
	errCount.Range(func(k, v interface{}) bool {
		key := k.([2]int64)
		var f int64
		if c, ok := rem.failed.Load(key); ok {
			f = c.(*atomic.Int64).Load()
		}
		if e := v.(*atomic.Int64).Load(); e > f {
			addBad("spurious-error", "concurrent GetRange(%d,%d) failed %d times but the remote failed only %d times for that read", key[0], key[1], e, f)
		}
		return true
	})
	for _, e := range vc17Snap(rc) {
		if e.S < 0 || e.E > size || e.S > e.E || !vc17Bytes(e.V, data[e.S:e.E]) {
			addBad("cache-entry-not-remote", "after the concurrent run the cache holds [%d,%d) = %v, the remote holds %v", e.S, e.E, e.V, vc17SafeSlice(data, e.S, e.E))
		}
	}
	for s := int64(0); s < size; s++ {
		// a later read still tells the truth (retry through injected failures)
		var got []byte
		var err error
		for try := 0; try < 50; try++ {
			func() {
				defer func() {
					if r := recover(); r != nil {
						addBad("panic", "after the concurrent run GetRange(%d,%d) panicked: %v", s, size-s, r)
						err = fmt.Errorf("panic")
					}
				}()
				got, err = rc.GetRange(context.Background(), s, size-s)
			}()
			if err == nil {
				break
			}
		}
		if err != nil || !vc17Bytes(got, data[s:]) {
			addBad("wrong-bytes", "after the concurrent run GetRange(%d,%d) returned %v, %v", s, size-s, got, err)
			break
		}
	}
	for _, b := range bads {
		rep.Fail(b.sig, b.detail, map[string]interface{}{"part": "concurrent", "seed": seed, "round": round, "readers": readers, "remote": data})
	}
	rep.CountN("concurrent/reads", int(reads.Load()))
	rep.CountN("concurrent/remote-calls", int(rem.calls.Load()))
	rep.Case(fmt.Sprint("conc", seed, round), true)
}

// vc17WritePolicyCopy writes the same cases once more with the strict checker check_policy (diagnostic file,
// not registered with the driver).
func vc17WritePolicyCopy() error {
	b, err := os.ReadFile(filepath.Join(vh.OutDir(), "cases_c17.v"))
	if err != nil {
		return err
	}
	return os.WriteFile(filepath.Join(vh.OutDir(), "diag_c17_policy.v"),
		[]byte(strings.ReplaceAll(string(b), "(check cases", "(check_policy cases")), 0o644)
}

func TestVerif_C17(t *testing.T) {
	rng := vh.NewRng(vh.Seed())
	rep := vh.NewReport("C17", "rangecache",
		"exhaustive: every history of GetRange/SetRange/DeleteOldEntries (all in-file ranges incl. empty ones, out-of-file and int64-overflowing reads, failing remote at any call, cancelled contexts, expiry of chosen entries) of length<=2 over the full alphabet of a 6-byte file, length 3 over a reduced alphabet, length 4 over a 4-byte file (thorough: also length 3 over the full alphabet and length 5 over a 3-byte file), each followed by a truth sweep; + random long histories; + concurrent readers against expiry/SetRange (oracle only). A history is non-trivial when it has >=2 operations and a successful read; distinct by operation sequence")
	cases := vh.NewCases("cases_c17", []string{"YF.C17_RC", "YF.C17_Check"}, "case", "check")

	// 1. exhaustive short histories
	d6 := vc17Data(6)
	full := vc17FullAlphabet(6)
	red := vc17ReducedAlphabet(6)
	d4 := vc17Data(4)
	small := vc17ReducedAlphabet(4)
	rep.Flag("alphabet_full_6", len(full))
	rep.Flag("alphabet_reduced_6", len(red))
	rep.Flag("alphabet_reduced_4", len(small))
	vc17Enumerate(rep, cases, rng, "full6", d6, full, 1, 1)
	coqScale := 1 // thorough sends more of the enumerated histories through the Coq checker
	if vh.Thorough() {
		coqScale = 3
	}
	vc17Enumerate(rep, cases, rng, "full6", d6, full, 2, 30/coqScale) // 1 in 30 of ~52 000 histories goes through the Coq checker
	vc17Enumerate(rep, cases, rng, "red6", d6, red, 3, 100/coqScale)
	vc17Enumerate(rep, cases, rng, "red4", d4, small, 4, 600/coqScale)
	if vh.Thorough() {
		vc17Enumerate(rep, cases, rng, "full6", d6, full, 3, 2000)
		vc17Enumerate(rep, cases, rng, "red3", vc17Data(3), vc17ReducedAlphabet(3), 5, 3000)
	}
	rep.Exhaustive = true

	// 2. random long histories
	nLong, coqLong := 400, 50
	if vh.Thorough() {
		nLong, coqLong = 6000, 200
	}
	for h := 0; h < nLong; h++ {
		size := int64(rng.Range(1, 24))
		data := rng.Bytes(int(size))
		for i := range data {
			if data[i] == 0 || data[i] == 0xEE {
				data[i] = 2
			}
		}
		n := rng.Range(10, 60)
		ops := make([]vc17Op, n)
		for i := range ops {
			ops[i] = vc17RandomOp(rng, size)
		}
		obs := vc17Run(rep, data, ops, true)
		rep.Case(fmt.Sprint("long", h, vh.Seed()), true)
		rep.Count("random-long")
		vc17CountObs(rep, obs)
		if h < coqLong {
			cases.Add(vc17CoqCase(data, obs))
		}
		if h < 2 {
			rep.Sample(map[string]interface{}{"remote": data, "history": fmt.Sprint(ops[:8]), "first_reply": obs[0].Res, "cache_after_8": vc17Keys(obs[7].Snap)})
		}
	}

	// 3. concurrent readers
	rounds, readers, per := 6, 8, 3000
	if vh.Thorough() {
		rounds, readers, per = 40, 16, 6000
	}
	for r := 0; r < rounds; r++ {
		vc17Concurrent(rep, vh.Seed(), r, readers, per)
	}

	// the strict policy replay is a diagnostic only (same cases, checker check_policy): coqc .work/C17/diag_c17_policy.v
	if err := cases.Write(); err != nil {
		t.Fatal(err)
	}
	rep.CasesWritten(cases)
	if err := vc17WritePolicyCopy(); err != nil {
		rep.Note("policy diagnostic file not written: %v", err)
	}
	if err := rep.Write(); err != nil {
		t.Fatal(err)
	}
}
