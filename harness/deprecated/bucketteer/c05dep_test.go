package bucketteer

// Verification harness for C05, legacy file format (package deprecated/bucketteer; injected with
// `go test -overlay`; not part of the repository). The shared part (generators, oracle, Coq printing)
// is harness/bucketteer/c05_common_test.go, injected into this package as well.
// The legacy writer keeps a map, not a pre-allocated table: no child processes are needed.

import (
	"encoding/json"
	"fmt"
	"os"
	"path/filepath"
	"testing"
	"time"

	"github.com/rpcpool/yellowstone-faithful/zzverif/vh"
)

func vc05Version() int { return 1 }

type vc05Writer1 struct{ *Writer }

func (w vc05Writer1) SealMeta(meta [][2][]byte) (int64, error) {
	m := make(map[string]string, len(meta))
	for _, kv := range meta {
		m[string(kv[0])] = string(kv[1])
	}
	return w.Writer.Seal(m)
}

func vc05MakeWriter(path string) (vc05W, error) {
	w, err := NewWriter(path)
	if err != nil {
		return nil, err
	}
	return vc05Writer1{w}, nil
}

func TestVerif_C05(t *testing.T) {
	seed, thorough := vh.Seed(), vh.Thorough()
	if rp := vh.Replay(); rp != "" {
		if b, err := os.ReadFile(rp); err == nil {
			var r struct {
				Seed uint64 `json:"seed"`
				Tier string `json:"tier"`
			}
			if json.Unmarshal(b, &r) == nil && r.Seed != 0 {
				seed, thorough = r.Seed, r.Tier == "thorough"
			}
		}
	}
	rng := vh.NewRng(seed + 0x5eed)
	dir := filepath.Join(vh.OutDir(), "c05v1")
	if err := os.MkdirAll(dir, 0o755); err != nil {
		t.Fatalf("setup failed: %v", err)
	}
	rep := vh.NewReport("C05", "legacy", "legacy format (Version 1): every added signature must be reported present by Writer.Has and by the sealed file read through mmap, *os.File and bytes.Reader; a probe is reported present only if an added signature has its two-byte prefix and xxhash64; Writer.Has = Reader.Has on every probe; bucket populations 0,1,2,3,2^k-1,2^k,2^k+1 and crowded prefixes (16 000, 16 001, ~16 040, more than 32 000 signatures: the current writer starts every bucket with room for 16 000) whose neighbour prefixes (numerically and in byte order) are filled before, while and after the crowded one; small runs are re-evaluated by the Coq model (writer, model reader on the Go-written bytes, model reader on the model-written file)")
	cases := vh.NewCases("c05_legacy_cases", []string{"YF.C05_Model", "YF.C05_Check"}, "case", "check")
	nCoq := 9
	if thorough {
		nCoq = 1000
	}
	specs := vc05Specs(rng, 1, thorough, nCoq)
	for _, spec := range specs {
		idx := filepath.Join(dir, spec.Name+".idx")
		limit := 2 * time.Minute
		if thorough {
			limit = 12 * time.Minute
		}
		done := make(chan *vc05Result, 1)
		go func() { done <- vc05Exercise(spec, idx) }()
		var res *vc05Result
		select {
		case res = <-done:
		case <-time.After(limit):
			rep.Fail("hang", fmt.Sprintf("one Writer/Reader run did not finish within %v", limit), map[string]interface{}{"spec": spec.Name, "seed": seed, "signatures": len(spec.Sigs)})
			continue
		}
		if err := vc05Absorb(rep, cases, spec, res, idx); err != nil {
			t.Fatalf("%v", err)
		}
		_ = os.Remove(idx)
	}
	vc05HashCases(rng, cases, 8)
	rep.Note("format v1: %d writer runs; %d of them also evaluated by the Coq model", len(specs), cases.Len()-8)
	if err := cases.Write(); err != nil {
		t.Fatalf("setup failed: %v", err)
	}
	rep.CasesWritten(cases)
	if err := rep.Write(); err != nil {
		t.Fatalf("setup failed: %v", err)
	}
	fmt.Printf("C05 legacy: runs=%d evaluations=%d failures=%d\n", len(specs), rep.Evaluations, len(rep.Failures))
}
