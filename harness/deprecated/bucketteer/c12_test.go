package bucketteer

// Verification harness for C12, legacy bucketteer format (injected with `go test -overlay`; not part of the
// repository). Structure-aware mutation of valid bucketteer files (written by the real Writer: NewWriter / Put /
// Seal) run through NewReader and Reader.Has under the c12h watchdog (child process under ulimit -v, recover(),
// allocation accounting). Oracle only: no panic, no allocation out of proportion to the input, no hang.
//
// The Writer holds a 10 MiB bufio buffer: seeds are created only in Seeds (parent process), three of them.

import (
	"bytes"
	"encoding/binary"
	"fmt"
	"os"
	"sort"
	"testing"

	"github.com/rpcpool/yellowstone-faithful/zzverif/c12h"
	"github.com/rpcpool/yellowstone-faithful/zzverif/vh"
)

// the order of the meta pairs in the header follows Go's map iteration: seal again until the keys come out sorted,
// so that the seed bytes are a function of the run seed only
func vc12Write(dir string, n int, meta map[string]string, sigs [][64]byte) ([]byte, error) {
	keys := make([]string, 0, len(meta))
	for k := range meta {
		keys = append(keys, k)
	}
	sort.Strings(keys)
	for attempt := 0; attempt < 200; attempt++ {
		path := fmt.Sprintf("%s/bucketteer%d", dir, n)
		_ = os.Remove(path)
		w, err := NewWriter(path)
		if err != nil {
			return nil, err
		}
		for _, s := range sigs {
			w.Put(s)
		}
		if _, err := w.Seal(meta); err != nil {
			w.Close()
			return nil, err
		}
		if err := w.Close(); err != nil {
			return nil, err
		}
		data, err := os.ReadFile(path)
		if err != nil {
			return nil, err
		}
		l, err := vc12Parse(data)
		if err != nil {
			return nil, fmt.Errorf("the harness cannot parse a file of the real writer: %v", err)
		}
		sorted := true
		for i, k := range keys {
			if i >= len(l.metaKeys) || l.metaKeys[i] != k {
				sorted = false
			}
		}
		if sorted {
			return data, nil
		}
	}
	return nil, fmt.Errorf("meta pairs never came out in sorted order")
}

// layout of a valid file (offsets into the file)
type vc12Layout struct {
	strLens    []int // offsets of the u32 string-length fields
	strEnds    []int
	metaKeys   []string
	numMeta    int   // offset of the numMeta field
	numPref    int   // offset of the numPrefixes field
	prefOffs   []int // offsets of the u64 bucket offsets
	headerEnd  int   // = 4 + header size
	firstCount int   // offset of the first bucket's numHashes
}

func vc12Parse(d []byte) (l vc12Layout, err error) {
	need := func(p, n int) error {
		if p+n > len(d) {
			return fmt.Errorf("short file at %d+%d", p, n)
		}
		return nil
	}
	if err = need(0, 28); err != nil {
		return
	}
	l.headerEnd = 4 + int(binary.LittleEndian.Uint32(d[0:]))
	if !bytes.Equal(d[4:12], _Magic[:]) {
		return l, fmt.Errorf("magic")
	}
	l.numMeta = 20
	nm := int(binary.LittleEndian.Uint64(d[20:]))
	p := 28
	for i := 0; i < 2*nm; i++ {
		if err = need(p, 4); err != nil {
			return
		}
		n := int(binary.LittleEndian.Uint32(d[p:]))
		l.strLens = append(l.strLens, p)
		if err = need(p+4, n); err != nil {
			return
		}
		if i%2 == 0 {
			l.metaKeys = append(l.metaKeys, string(d[p+4:p+4+n]))
		}
		p += 4 + n
		l.strEnds = append(l.strEnds, p)
	}
	if err = need(p, 8); err != nil {
		return
	}
	l.numPref = p
	np := int(binary.LittleEndian.Uint64(d[p:]))
	p += 8
	for i := 0; i < np; i++ {
		if err = need(p, 10); err != nil {
			return
		}
		l.prefOffs = append(l.prefOffs, p+2)
		p += 10
	}
	if p != l.headerEnd {
		return l, fmt.Errorf("header ends at %d, header size field says %d", p, l.headerEnd)
	}
	l.firstCount = p
	return l, need(p, 4)
}

func vc12Seeds(dir string, rng *vh.Rng) ([]c12h.Seed, error) {
	var seeds []c12h.Seed
	type shape struct {
		nsigs, nprefixes int
		meta             map[string]string
	}
	shapes := []shape{
		{5, 3, map[string]string{"epoch": "test"}},
		{1, 1, map[string]string{}},
		{9, 4, map[string]string{"a": "", "epoch": "123", "k": string(rng.Bytes(9))}},
	}
	for i, sh := range shapes {
		var sigs [][64]byte
		var prefixes [][2]byte
		for p := 0; p < sh.nprefixes; p++ {
			prefixes = append(prefixes, [2]byte{byte(rng.U64()), byte(rng.U64())})
		}
		for k := 0; k < sh.nsigs; k++ {
			var s [64]byte
			copy(s[:], rng.Bytes(64))
			copy(s[:2], prefixes[k%len(prefixes)][:])
			sigs = append(sigs, s)
		}
		data, err := vc12Write(dir, i, sh.meta, sigs)
		if err != nil {
			return seeds, err
		}
		r, err := NewReader(bytes.NewReader(data))
		if err != nil {
			c12h.SkipSeed(fmt.Sprintf("seed %d", i), fmt.Sprintf("does not open: %v", err))
			continue
		}
		var keys [][]byte
		answers := true
		for _, s := range sigs {
			if ok, err := r.Has(s); err != nil || !ok {
				c12h.SkipSeed(fmt.Sprintf("seed %d", i), fmt.Sprintf("stored signature not found: %v", err))
				answers = false
				break
			}
			keys = append(keys, append([]byte(nil), s[:]...))
		}
		if !answers {
			continue
		}
		// absent: a stored prefix with other bytes, and a prefix that is not stored
		a1 := rng.Bytes(64)
		copy(a1[:2], prefixes[0][:])
		a2 := rng.Bytes(64)
		a2[0], a2[1] = prefixes[0][0]+1, prefixes[0][1]
		keys = append(keys, a1, a2)
		seeds = append(seeds, c12h.Seed{Name: fmt.Sprintf("bucketteer-legacy-n%d-p%d-m%d", sh.nsigs, sh.nprefixes, len(sh.meta)), Data: data, Keys: keys})
	}
	return seeds, nil
}

func vc12Fields(s *c12h.Seed) (fields []c12h.Field, boundaries []int, hot int) {
	l, err := vc12Parse(s.Data)
	if err != nil {
		panic("VERIF-HARNESS-BUG seed does not parse: " + err.Error())
	}
	fields = append(fields, c12h.Field{Name: "hdr.size", Off: 0, Len: 4}, c12h.Field{Name: "hdr.version", Off: 12, Len: 8},
		c12h.Field{Name: "hdr.nummeta", Off: l.numMeta, Len: 8})
	boundaries = append(boundaries, 4, 12, 20, 28)
	for i, o := range l.strLens {
		fields = append(fields, c12h.Field{Name: "meta.strlen", Off: o, Len: 4})
		boundaries = append(boundaries, o, l.strEnds[i])
	}
	fields = append(fields, c12h.Field{Name: "hdr.numprefixes", Off: l.numPref, Len: 8})
	boundaries = append(boundaries, l.numPref, l.numPref+8)
	for i, o := range l.prefOffs {
		if i < 3 {
			fields = append(fields, c12h.Field{Name: "prefix.offset", Off: o, Len: 8})
		}
		boundaries = append(boundaries, o-2, o+8)
	}
	fields = append(fields, c12h.Field{Name: "bucket.numhashes", Off: l.firstCount, Len: 4})
	boundaries = append(boundaries, l.headerEnd, l.firstCount+4)
	return fields, boundaries, l.firstCount + 4
}

func vc12Gen(seeds []c12h.Seed, rng *vh.Rng, thorough bool) []c12h.Input {
	var ins []c12h.Input
	nrand := 400
	if thorough {
		nrand = 8000
	}
	for si := range seeds {
		s := &seeds[si]
		fields, bounds, hot := vc12Fields(s)
		var qfields []c12h.Field
		for _, f := range fields {
			if f.Name == "prefix.offset" || f.Name == "bucket.numhashes" {
				qfields = append(qfields, f)
			}
		}
		ins = append(ins, c12h.Input{Entry: "open", Label: "valid", Data: s.Data})
		ins = append(ins, c12h.MutateFields("open", s, fields, nil, nil)...)
		ins = append(ins, c12h.Truncations("open", s, bounds, nil, nil)...)
		for ki := range s.Keys {
			if ki > 1 && ki < len(s.Keys)-2 {
				continue
			}
			aux := []uint64{uint64(ki)}
			ins = append(ins, c12h.Input{Entry: "has", Label: "valid", Data: s.Data, Keys: s.Keys, Aux: aux})
			if ki == 0 {
				ins = append(ins, c12h.MutateFields("has", s, fields, s.Keys, aux)...)
				ins = append(ins, c12h.Truncations("has", s, bounds, s.Keys, aux)...)
			} else { // the header fields are covered by "open" and by key 0: the fields Has itself reads
				ins = append(ins, c12h.MutateFields("has", s, qfields, s.Keys, aux)...)
			}
		}
		ins = append(ins, c12h.RandomMutations("has", s, rng, nrand, hot, s.Keys, []uint64{0})...)
		ins = append(ins, c12h.RandomMutations("has", s, rng, nrand/2, hot, s.Keys, []uint64{uint64(len(s.Keys) - 2)})...)
		ins = append(ins, c12h.RandomMutations("open", s, rng, nrand, hot, nil, nil)...)
	}
	// junk behind a plausible header-size field and magic
	for _, hs := range []uint32{0, 24, 40, 200, 1 << 20, 1<<32 - 1} {
		prefix := binary.LittleEndian.AppendUint32(nil, hs)
		prefix = append(prefix, _Magic[:]...)
		prefix = binary.LittleEndian.AppendUint64(prefix, Version)
		ins = append(ins, c12h.Junk("open", rng, 40, prefix)...)
	}
	return ins
}

func vc12Exec(in *c12h.Input) c12h.Obs {
	r, err := NewReader(bytes.NewReader(in.Data))
	if in.Entry == "open" {
		if err != nil {
			return c12h.Obs{Class: "error"}
		}
		_ = r.Meta()
		_ = r.GetMeta("epoch")
		return c12h.Obs{Class: "ok", Nums: []uint64{uint64(len(r.prefixToOffset))}}
	}
	if err != nil {
		return c12h.Obs{Class: "error", Fine: "open-error"}
	}
	switch in.Entry {
	case "has":
		var sig [64]byte
		copy(sig[:], in.Keys[in.Aux[0]])
		ok, err := r.Has(sig)
		switch {
		case err != nil:
			return c12h.Obs{Class: "error", Fine: "error"}
		case ok:
			return c12h.Obs{Class: "ok", Fine: "found"}
		default:
			return c12h.Obs{Class: "ok", Fine: "notfound"}
		}
	}
	panic("VERIF-HARNESS-BUG unknown entry " + in.Entry)
}

// A valid open allocates the header buffer (<= len) and a map with one entry per prefix (10 header bytes each, about
// 40 bytes of map per entry); a reader may cap a size hint at the 65536 possible prefixes (about 1.5 MiB of map).
func vc12Budget(in *c12h.Input) uint64 { return uint64(64*len(in.Data)) + 4<<20 }

func TestVerif_C12(t *testing.T) {
	c12h.Run(t, &c12h.Part{
		Name:  "bucketteer-legacy",
		Rule:  "legacy bucketteer NewReader / Reader.Has on mutated valid files (header size, version, numMeta, string lengths, numPrefixes, prefix offsets, first bucket count; truncations, random edits, junk): no panic, allocation <= 64*len+4MiB (a valid open allocates the header and a map of one entry per 10-byte prefix record; 4 MiB covers a map pre-sized for all 65536 prefixes), no hang",
		Seeds: vc12Seeds, Gen: vc12Gen, Exec: vc12Exec, Budget: vc12Budget,
	})
}
