package compactindex36

// C04 harness helpers (injected with `go test -overlay` next to the C04 test files; not part of the repository).
//
// FORMAT-INDEPENDENT: the same text (apart from the package clause) in harness/compactindexsized/c04r_test.go,
// harness/deprecated/compactindex/c04r_test.go and harness/deprecated/compactindex36/c04r_test.go - keep them in step
// (edit the compactindexsized copy, then `sed 1s/.*/package <pkg>/`). The format-specific adapters (vc04rAdapter values)
// are in c04ra_test.go next to each copy.
//
// Three general checks that follow from the property text and are independent of the format:
//
//  (a) vc04rCheckReaders: "a sealed index returns for every inserted key exactly the value inserted with it" holds for the
//      index, not for one particular io.ReaderAt. The file is therefore opened and queried through conforming readers that
//      differ in what the io.ReaderAt contract leaves open: a reader that returns (len(p), io.EOF) for a read that ends
//      exactly at the end of the data; an io.SectionReader at a non-zero offset inside a bigger blob; each of them also with
//      Prefetch(true); and a reader whose k-th ReadAt fails once (for every k of the read trace of Open + Lookup, with no
//      bytes or with some bytes and the rest of the buffer used as scratch space). For the failed call an error is an
//      acceptable answer, "not found" / another value / a panic is not; retried once, the call and every later call must be
//      right. Signatures: eof-with-full-read-not-served, section-reader-not-served, prefetch-not-served, read-error-masked,
//      transient-read-error-poisons-reader, reader-panic.
//  (b) vc04rSealDeterminism: "sealing the same inserts twice yields byte-identical files", for declared counts that give
//      1, 2, 3, 8, ~12 buckets, bucket loads from empty to heavy, sealed repeatedly under GOMAXPROCS 1, 2, 3, 16, and for
//      another insertion order. Signatures: seal-not-deterministic, order-dependent.
//  (c) vc04rConcurrentBuilders: several builders with different key sets (full buckets: ~10 000 entries each, where 24-bit
//      collisions inside an attempt are the rule) sealing at the same time in one process must each give the file the same
//      build gives when it runs alone. Signature: concurrent-builders-interfere.
//
//  (d) vc04rBigSpill: "for any set of distinct keys (each at most 65 535 bytes) ... independently of insertion order, of the
//      declared item count": key sets whose keys all land in ONE bucket (declared count <= the per-bucket target) and whose
//      per-bucket temporary key/value stream is several MiB - a few thousand keys of one fixed length (1000 bytes), of mixed
//      lengths 500..4000, a hundred keys of 30 000..65 535 bytes, 12 000 keys of 150..260 bytes with a declared count of 1
//      (an over-full bucket that can still be mined) and 100 000 short keys with a declared count of 1 (an over-full bucket
//      that cannot; quick tier: in two orders, and only where the caller asks for it). Each set is built in three insertion
//      orders (as drawn, reversed, shuffled): either every build fails
//      with an error, or every build gives the same bytes and every key is found with its value in each of them.
//      Signatures: wrong-value, lost-entry, lookup-error, reader-panic, header-mismatch, order-dependent,
//      unexpected-build-error, builder-panic.
//
// Nothing here depends on timing: on an implementation that has the property every schedule gives the same bytes.

import (
	"bytes"
	"encoding/json"
	"errors"
	"fmt"
	"hash/crc32"
	"io"
	"os"
	"runtime"
	"sync"
	"time"

	"github.com/rpcpool/yellowstone-faithful/zzverif/vh"
)

type vc04rKV struct{ K, V []byte }

// vc04rLook: st 0 found, 1 not found, 2 other error, 3 panic
type vc04rLook func(k []byte) (v []byte, st int, msg string)

// vc04rOpen opens an index on rd; nil and a message when Open fails or panics
type vc04rOpen func(rd io.ReaderAt, prefetch bool) (vc04rLook, string)

// vc04rBuild is one complete build: new builder, inserts in the given order, beforeSeal() (when not nil), Seal.
// msg != "" when the build failed (error or panic). Safe for concurrent use.
type vc04rBuild func(items uint, kvs []vc04rKV, beforeSeal func()) (file []byte, msg string)

type vc04rAdapter struct {
	Name     string
	Target   uint // entries per bucket the builder aims for (package constant)
	Build    vc04rBuild
	Open     vc04rOpen
	BucketOf func(numBuckets uint, k []byte) uint
	GenValue func(*vh.Rng) []byte
}

var vc04rStatus = []string{"found", "not found", "error", "panic"}

// the seed of a replay file (bin/check C04 --replay <file>) wins over VERIF_SEED
func vc04rSeed() uint64 {
	if p := vh.Replay(); p != "" {
		if b, err := os.ReadFile(p); err == nil {
			var r struct {
				Seed uint64 `json:"seed"`
			}
			if json.Unmarshal(b, &r) == nil && r.Seed != 0 {
				return r.Seed
			}
		}
	}
	return vh.Seed()
}

func vc04rShort(b []byte) string {
	if len(b) <= 24 {
		return vh.Hex(b)
	}
	return fmt.Sprintf("%s..(%d bytes)", vh.Hex(b[:16]), len(b))
}

func vc04rFirstDiff(a, b []byte) int {
	n := len(a)
	if len(b) < n {
		n = len(b)
	}
	for i := 0; i < n; i++ {
		if a[i] != b[i] {
			return i
		}
	}
	return n
}

func vc04rPermute(kvs []vc04rKV, p []int) []vc04rKV {
	out := make([]vc04rKV, len(kvs))
	for i, j := range p {
		out[i] = kvs[j]
	}
	return out
}

// ---------------------------------------------------------------- readers

func vc04rPlainRead(data, p []byte, off int64) (int, error) {
	if off < 0 {
		return 0, errors.New("negative offset")
	}
	if off >= int64(len(data)) {
		return 0, io.EOF
	}
	n := copy(p, data[off:])
	if n < len(p) {
		return n, io.EOF
	}
	return n, nil
}

// vc04rEagerEOF reports io.EOF together with the data when a read ends exactly at the end of the source
// (io.ReaderAt: "If the n = len(p) bytes returned by ReadAt are at the end of the input source, ReadAt may return
// either err == EOF or err == nil").
type vc04rEagerEOF struct{ data []byte }

func (r vc04rEagerEOF) ReadAt(p []byte, off int64) (int, error) {
	n, err := vc04rPlainRead(r.data, p, off)
	if err == nil && off+int64(n) == int64(len(r.data)) {
		err = io.EOF
	}
	return n, err
}

var vc04rErrInjected = errors.New("verif: injected transient read error")

// vc04rFaulty fails its failAt-th ReadAt call (1-based; 0 = never), once. mode 0: no bytes; mode 1: half of the bytes,
// the rest of p scribbled ("ReadAt may use all of p as scratch space during the call"). Not for concurrent use.
type vc04rFaulty struct {
	data   []byte
	failAt int
	mode   int
	calls  int
	fired  bool
}

func (r *vc04rFaulty) ReadAt(p []byte, off int64) (int, error) {
	r.calls++
	if r.calls == r.failAt {
		r.fired = true
		n := 0
		if r.mode == 1 && off >= 0 && off < int64(len(r.data)) {
			n = copy(p[:len(p)/2], r.data[off:])
		}
		for i := n; i < len(p); i++ {
			p[i] = 0xA5
		}
		return n, vc04rErrInjected
	}
	return vc04rPlainRead(r.data, p, off)
}

// vc04rCheckReaders: check (a). Only keys the plain bytes.Reader serves correctly are demanded from the other readers
// (what the plain reader gets wrong is reported by the caller's own oracle).
func vc04rCheckReaders(rep *vh.Report, seed uint64, file []byte, kvs []vc04rKV, open vc04rOpen, input interface{}) {
	if len(kvs) == 0 || len(file) == 0 {
		return
	}
	plain, _ := open(bytes.NewReader(file), false)
	if plain == nil {
		return
	}
	var good []int
	for i, x := range kvs {
		if v, st, _ := plain(x.K); st == 0 && bytes.Equal(v, x.V) {
			good = append(good, i)
		}
	}
	if len(good) == 0 {
		return
	}
	rng := vh.NewRng(seed ^ uint64(crc32.ChecksumIEEE(file))<<8 ^ uint64(len(kvs)))
	rep.Count("reader-check: files")

	// ---- readers that never fail
	pre, post := rng.Range(1, 70), rng.Intn(20)
	blob := append(append(rng.Bytes(pre), file...), rng.Bytes(post)...)
	for _, w := range []struct {
		name     string
		rd       io.ReaderAt
		prefetch bool
		sig      string
	}{
		{"EOF together with a full read at the end of the data", vc04rEagerEOF{file}, false, "eof-with-full-read-not-served"},
		{"EOF together with a full read at the end of the data, Prefetch(true)", vc04rEagerEOF{file}, true, "eof-with-full-read-not-served"},
		{fmt.Sprintf("io.SectionReader at offset %d of a bigger blob", pre), io.NewSectionReader(bytes.NewReader(blob), int64(pre), int64(len(file))), false, "section-reader-not-served"},
		{"bytes.Reader, Prefetch(true)", bytes.NewReader(file), true, "prefetch-not-served"},
		{fmt.Sprintf("io.SectionReader at offset %d over an EOF-with-full-read source", pre), io.NewSectionReader(vc04rEagerEOF{blob[:pre+len(file)]}, int64(pre), int64(len(file))), true, "eof-with-full-read-not-served"},
	} {
		rep.Count("reader-check: reader runs [" + w.sig + "]")
		look, msg := open(w.rd, w.prefetch)
		if look == nil {
			rep.Fail(w.sig, fmt.Sprintf("reader [%s]: Open fails (%s) on an index that opens on a bytes.Reader", w.name, msg),
				map[string]interface{}{"reader": w.name, "input": input})
			continue
		}
		bad := 0
		ask := good
		if w.prefetch && len(good) > 400 { // Prefetch(true) reads up to 3000 entries per lookup: a sample of the keys
			ask = make([]int, 0, 400)
			for _, j := range rng.Perm(len(good))[:400] {
				ask = append(ask, good[j])
			}
		}
		for _, i := range ask {
			x := kvs[i]
			v, st, m := look(x.K)
			if st == 0 && bytes.Equal(v, x.V) {
				continue
			}
			bad++
			if bad <= 2 {
				what := vc04rStatus[st] + " " + m
				if st == 0 {
					what = "another value: " + vc04rShort(v)
				}
				rep.Fail(w.sig, fmt.Sprintf("reader [%s]: inserted key %s (served with its value %s by a bytes.Reader) -> %s", w.name, vc04rShort(x.K), vc04rShort(x.V), what),
					map[string]interface{}{"reader": w.name, "key": vh.Hex(x.K), "file_bytes": len(file), "input": input})
			}
		}
		rep.CountN("reader-check: lookups through never-failing readers", len(ask))
	}

	// ---- one transient read error at every position of the read trace of Open + Lookup
	sample := func(n int) []int {
		if len(good) <= n {
			return good
		}
		out := make([]int, 0, n)
		for _, j := range rng.Perm(len(good))[:n] {
			out = append(out, good[j])
		}
		return out
	}
	probes := sample(5)
	later := sample(40)
	ok := func(v []byte, st int, x vc04rKV) bool { return st == 0 && bytes.Equal(v, x.V) }
	for _, pi := range probes {
		p := kvs[pi]
		cnt := &vc04rFaulty{data: file}
		lk, _ := open(cnt, false)
		if lk == nil {
			continue
		}
		lk(p.K)
		trace := cnt.calls
		rep.Count(fmt.Sprintf("reader-check: read trace of Open+Lookup = %d ReadAt calls", trace))
		for k := 1; k <= trace; k++ {
			for mode := 0; mode < 2; mode++ {
				rep.Count("reader-check: transient-error runs")
				rp := map[string]interface{}{"reader": "ReadAt call #k fails once", "k": k, "mode": []string{"no bytes", "half of the bytes, rest of the buffer scribbled"}[mode],
					"trace_length": trace, "key": vh.Hex(p.K), "file_bytes": len(file), "input": input}
				w := &vc04rFaulty{data: file, failAt: k, mode: mode}
				look, msg := open(w, false)
				if look == nil {
					if !w.fired {
						rep.Fail("transient-read-error-poisons-reader", "Open fails before any read error was injected: "+msg, rp)
						continue
					}
					rep.Count("reader-check: failed read during Open -> error (acceptable)")
					if look, msg = open(w, false); look == nil {
						rep.Fail("transient-read-error-poisons-reader", "Open retried after ONE failed read still fails: "+msg, rp)
						continue
					}
				}
				before := w.fired
				v, st, m := look(p.K)
				if w.fired && !before { // the injected error hit this very call
					switch {
					case st == 2:
						rep.Count("reader-check: failed read during Lookup -> error (acceptable)")
						v, st, m = look(p.K) // retried once
					case ok(v, st, p):
						rep.Count("reader-check: failed read during Lookup -> still the right value")
					case st == 3:
						rep.Fail("reader-panic", fmt.Sprintf("Lookup of key %s panics when ReadAt call #%d fails: %s", vc04rShort(p.K), k, m), rp)
						continue
					default:
						what := "'not found'"
						if st == 0 {
							what = "another value (" + vc04rShort(v) + ")"
						}
						rep.Fail("read-error-masked", fmt.Sprintf("ReadAt call #%d of Open+Lookup fails: Lookup of inserted key %s answers %s instead of an error", k, vc04rShort(p.K), what), rp)
						continue
					}
				}
				if !ok(v, st, p) {
					rep.Fail("transient-read-error-poisons-reader", fmt.Sprintf("after ONE failed read (call #%d, retried) inserted key %s -> %s %s", k, vc04rShort(p.K), vc04rStatus[st], m), rp)
					continue
				}
				for _, j := range later {
					if v, st, m := look(kvs[j].K); !ok(v, st, kvs[j]) {
						rep.Fail("transient-read-error-poisons-reader", fmt.Sprintf("after ONE failed read (call #%d of Open+Lookup(%s), retried) a later Lookup of inserted key %s -> %s %s",
							k, vc04rShort(p.K), vc04rShort(kvs[j].K), vc04rStatus[st], m), rp)
						break
					}
				}
			}
		}
	}
}

// vc04rVerifyAll: every key through the plain reader (lost-entry / wrong-value / lookup-error / reader-panic /
// header-mismatch), then check (a). Returns the number of keys not served.
func vc04rVerifyAll(rep *vh.Report, seed uint64, file []byte, kvs []vc04rKV, open vc04rOpen, input interface{}) int {
	look, msg := open(bytes.NewReader(file), false)
	if look == nil {
		rep.Fail("header-mismatch", "Open of a freshly sealed index failed: "+msg, input)
		return len(kvs)
	}
	bad := 0
	for _, x := range kvs {
		v, st, m := look(x.K)
		if st == 0 && bytes.Equal(v, x.V) {
			continue
		}
		bad++
		if bad > 3 {
			continue
		}
		switch st {
		case 0:
			rep.Fail("wrong-value", fmt.Sprintf("key %s: got %s want %s", vc04rShort(x.K), vc04rShort(v), vc04rShort(x.V)), input)
		case 1:
			rep.Fail("lost-entry", fmt.Sprintf("inserted key %s (len %d) is not found", vc04rShort(x.K), len(x.K)), input)
		case 2:
			rep.Fail("lookup-error", fmt.Sprintf("key %s: %s", vc04rShort(x.K), m), input)
		default:
			rep.Fail("reader-panic", fmt.Sprintf("key %s: %s", vc04rShort(x.K), m), input)
		}
	}
	vc04rCheckReaders(rep, seed, file, kvs, open, input)
	return bad
}

// ---------------------------------------------------------------- (b) seal determinism

// vc04rSkewedKeys: about `total` distinct keys whose bucket loads range from empty to heavy.
func vc04rSkewedKeys(rng *vh.Rng, ad vc04rAdapter, nb uint, total int) []vc04rKV {
	weight := make([]int, nb)
	sum := 0
	for i := range weight {
		weight[i] = rng.Pick(0, 1, 1, 2, 8, 40)
		sum += weight[i]
	}
	if sum == 0 {
		weight[rng.Intn(int(nb))], sum = 40, 40
	}
	quota := make([]int, nb)
	want := 0
	for i, w := range weight {
		if w > 0 {
			quota[i] = total*w/sum + 1
			want += quota[i]
		}
	}
	seen := map[string]bool{}
	var out []vc04rKV
	for tries := 0; len(out) < want && tries < 400*total+200000; tries++ {
		k := rng.Bytes(rng.Range(1, 24))
		b := ad.BucketOf(nb, k) % nb
		if quota[b] == 0 || seen[string(k)] {
			continue
		}
		quota[b]--
		seen[string(k)] = true
		out = append(out, vc04rKV{k, ad.GenValue(rng)})
	}
	return out
}

func vc04rSealDeterminism(rep *vh.Report, seed uint64, ad vc04rAdapter, thorough bool) {
	rng := vh.NewRng(seed + 0xb0b)
	prev := runtime.GOMAXPROCS(0)
	defer runtime.GOMAXPROCS(prev)
	nbs := []uint{1, 2, 3, 8, 12}
	if thorough {
		nbs = append(nbs, 9, 16, 40, 100)
	}
	for _, nb := range nbs {
		items := nb*ad.Target - uint(rng.Intn(int(ad.Target)))
		if nb == 12 {
			items = nb*ad.Target - uint(rng.Intn(int(ad.Target))) + uint(rng.Pick(0, 1, 2))*ad.Target // ~12 buckets: 12..14
		}
		nbReal := (items + ad.Target - 1) / ad.Target
		total := rng.Range(300, 1500)
		if nb == 1 {
			total = rng.Range(2, 300)
		}
		kvs := vc04rSkewedKeys(rng, ad, nbReal, total)
		input := map[string]interface{}{"format": ad.Name, "declared_items": items, "buckets": nbReal, "keys": len(kvs),
			"note": "seal determinism; keys are drawn from the seed (vc04rSkewedKeys)"}
		rep.Case(fmt.Sprintf("seal-determinism/%s/%d/%d", ad.Name, items, len(kvs)), len(kvs) >= 2)
		ref, msg := ad.Build(items, kvs, nil)
		if msg != "" {
			rep.Fail("unexpected-build-error", "supported distinct key set: "+msg, input)
			continue
		}
		vc04rVerifyAll(rep, seed, ref, kvs, ad.Open, input)
		reps := 4
		if nbReal >= 8 {
			reps = 6
		}
		if thorough {
			reps *= 3
		}
		reported := false
		for _, procs := range []int{1, 2, 3, 16} {
			runtime.GOMAXPROCS(procs)
			for r := 0; r <= reps; r++ {
				in, sig, what := kvs, "seal-not-deterministic", "sealing the same inserts again"
				if r == reps { // and once in another insertion order
					in, sig, what = vc04rPermute(kvs, rng.Perm(len(kvs))), "order-dependent", "sealing the same inserts in another order"
				}
				rep.Count(fmt.Sprintf("seal-determinism: builds with %d buckets", nbReal))
				rep.Count(fmt.Sprintf("seal-determinism: builds under GOMAXPROCS=%d", procs))
				f, msg := ad.Build(items, in, nil)
				if msg == "" && bytes.Equal(f, ref) {
					continue
				}
				if reported && sig == "order-dependent" {
					continue // a build that is not deterministic in the first place
				}
				detail := fmt.Sprintf("%s (declared %d = %d buckets, %d keys, GOMAXPROCS=%d, rebuild #%d) ", what, items, nbReal, len(kvs), procs, r+1)
				if msg != "" {
					detail += "failed: " + msg
				} else {
					detail += fmt.Sprintf("gave different bytes: first difference at offset %d of %d (the other file has %d bytes)", vc04rFirstDiff(f, ref), len(ref), len(f))
				}
				rep.Fail(sig, detail, map[string]interface{}{"gomaxprocs": procs, "rebuild": r + 1, "input": input})
				reported = true
			}
		}
	}
}

// ---------------------------------------------------------------- (c) concurrent builders

func vc04rDistinctKeys(rng *vh.Rng, ad vc04rAdapter, n int, tag byte) []vc04rKV {
	seen := make(map[string]bool, n)
	out := make([]vc04rKV, 0, n)
	for len(out) < n {
		k := append(rng.Bytes(rng.Range(7, 23)), tag) // the tag keeps the key sets of the builders disjoint
		if seen[string(k)] {
			continue
		}
		seen[string(k)] = true
		out = append(out, vc04rKV{k, ad.GenValue(rng)})
	}
	return out
}

// vc04rConcurrentBuilders: builder i = (ads[i], sizes[i] keys, declared sizes[i]); first each build alone, then `rounds`
// times all of them at once (every goroutine inserts, waits until all have inserted, then seals) under each GOMAXPROCS.
func vc04rConcurrentBuilders(rep *vh.Report, seed uint64, ads []vc04rAdapter, sizes []int, rounds int, procsList []int) {
	rng := vh.NewRng(seed + 0xc0c)
	prev := runtime.GOMAXPROCS(0)
	defer runtime.GOMAXPROCS(prev)
	n := len(ads)
	sets := make([][]vc04rKV, n)
	refs := make([][]byte, n)
	inputs := make([]map[string]interface{}, n)
	for i := range ads {
		sets[i] = vc04rDistinctKeys(rng, ads[i], sizes[i], byte(i))
		inputs[i] = map[string]interface{}{"format": ads[i].Name, "builder": i, "declared_items": sizes[i], "keys": sizes[i],
			"buckets": (uint(sizes[i]) + ads[i].Target - 1) / ads[i].Target, "note": "concurrent builders; keys are drawn from the seed (vc04rDistinctKeys)"}
		rep.Case(fmt.Sprintf("concurrent-builders/%s/%d/%d", ads[i].Name, i, sizes[i]), true)
		var msg string
		refs[i], msg = ads[i].Build(uint(sizes[i]), sets[i], nil)
		rep.Count("concurrent-builders: builds alone (reference)")
		if msg != "" {
			rep.Fail("unexpected-build-error", "supported distinct key set, built alone: "+msg, inputs[i])
			refs[i] = nil
			continue
		}
		vc04rVerifyAll(rep, seed, refs[i], sets[i], ads[i].Open, inputs[i])
	}
	for _, procs := range procsList {
		runtime.GOMAXPROCS(procs)
		for round := 0; round < rounds; round++ {
			files := make([][]byte, n)
			msgs := make([]string, n)
			var ready, done sync.WaitGroup
			start := make(chan struct{})
			ready.Add(n)
			done.Add(n)
			for i := 0; i < n; i++ {
				go func(i int) {
					defer done.Done()
					var once sync.Once
					defer once.Do(ready.Done) // a build that fails before sealing must not block the others
					files[i], msgs[i] = ads[i].Build(uint(sizes[i]), sets[i], func() {
						once.Do(ready.Done)
						<-start
					})
				}(i)
			}
			ready.Wait()
			close(start)
			done.Wait()
			for i := 0; i < n; i++ {
				if refs[i] == nil {
					continue
				}
				rep.Count(fmt.Sprintf("concurrent-builders: builds next to %d others under GOMAXPROCS=%d", n-1, procs))
				if msgs[i] == "" && bytes.Equal(files[i], refs[i]) {
					rep.Count("concurrent-builders: byte-identical to the build done alone")
					continue
				}
				rp := map[string]interface{}{"gomaxprocs": procs, "round": round, "builders": n, "input": inputs[i]}
				if msgs[i] != "" {
					rep.Fail("concurrent-builders-interfere", fmt.Sprintf("builder %d of %d sealing at the same time fails (%s); alone the same build succeeds", i, n, msgs[i]), rp)
					continue
				}
				// which keys does the differing file serve wrongly?
				wrong, example := 0, ""
				if look, _ := ads[i].Open(bytes.NewReader(files[i]), false); look != nil {
					for _, x := range sets[i] {
						if v, st, _ := look(x.K); !(st == 0 && bytes.Equal(v, x.V)) {
							wrong++
							if example == "" {
								example = fmt.Sprintf("; e.g. key %s -> %s %s, inserted with %s", vc04rShort(x.K), vc04rStatus[st], vc04rShort(v), vc04rShort(x.V))
							}
						}
					}
				} else {
					wrong = len(sets[i])
				}
				rep.Fail("concurrent-builders-interfere", fmt.Sprintf("builder %d of %d sealing at the same time (GOMAXPROCS=%d, round %d): the file differs from the one the same build gives alone (first difference at offset %d of %d); %d of %d inserted keys are not served with their value%s",
					i, n, procs, round, vc04rFirstDiff(files[i], refs[i]), len(refs[i]), wrong, len(sets[i]), example), rp)
				if wrong > 0 {
					rep.Count("concurrent-builders: files that lose or mix up entries")
				}
			}
		}
	}
}

// ---------------------------------------------------------------- (d) buckets whose temporary key/value stream is several MiB

type vc04rSpillShape struct {
	Name     string
	N        int
	Lo, Hi   int  // key lengths Lo..Hi
	Declared uint // declared item count (<= Target: one bucket)
	MayFail  bool // an over-full bucket: an error from the builder is an acceptable outcome
}

// vc04rSpillKeys: n distinct keys with lengths lo..hi; a counter in the first bytes keeps them distinct, the rest is
// drawn from the seed in one slab (cheap for long keys).
func vc04rSpillKeys(rng *vh.Rng, ad vc04rAdapter, n, lo, hi int) []vc04rKV {
	out := make([]vc04rKV, n)
	for i := range out {
		l := lo
		if hi > lo {
			l = rng.Range(lo, hi)
		}
		k := rng.Bytes(l)
		for j := 0; j < 4 && j < l; j++ { // lengths >= 4 here: 2^32 distinct prefixes
			k[j] = byte(i >> (8 * uint(j)))
		}
		out[i] = vc04rKV{k, ad.GenValue(rng)}
	}
	return out
}

// overfull: also the shape that cannot be mined (1000 attempts: ~1.4 s per build); it is built in two orders only.
func vc04rBigSpill(rep *vh.Report, seed uint64, ad vc04rAdapter, thorough bool, overfull bool) {
	rng := vh.NewRng(seed + 0xd1d)
	t0 := time.Now()
	defer func() { rep.Flag("big_spill_seconds["+ad.Name+"]", int(time.Since(t0).Seconds()+0.5)) }() // information only
	shapes := []vc04rSpillShape{
		{"3000..3400 keys of 1000 bytes", rng.Range(3000, 3400), 1000, 1000, 0, false},
		{"2200..2600 keys of 500..4000 bytes", rng.Range(2200, 2600), 500, 4000, 0, false},
		{"100..130 keys of 30000..65535 bytes", rng.Range(100, 130), 30000, 65535, 0, false},
		{"12000 keys of 150..260 bytes, declared count 1", 12000, 150, 260, 1, true},
	}
	if overfull || thorough {
		shapes = append(shapes, vc04rSpillShape{"100000 keys of 8..40 bytes, declared count 1", 100000, 8, 40, 1, true})
	}
	if thorough {
		shapes = append(shapes,
			vc04rSpillShape{"9000..10000 keys of 2000..2100 bytes", rng.Range(9000, 10000), 2000, 2100, 0, false},
			vc04rSpillShape{"1000 keys of 60000..65535 bytes", 1000, 60000, 65535, 0, false},
			vc04rSpillShape{"5000 keys of 999..1001 bytes, declared count 1", 5000, 999, 1001, 1, false},
			vc04rSpillShape{"250000 keys of 4..24 bytes, declared count 1", 250000, 4, 24, 1, true})
	}
	for _, sh := range shapes {
		t1 := time.Now()
		items := sh.Declared
		if items == 0 {
			items = uint(sh.N)
			if rng.Bool() {
				items = uint(rng.Range(sh.N, int(ad.Target))) // still one bucket
			}
		}
		if items > ad.Target {
			panic("VERIF-HARNESS-BUG: big-spill shape with more than one bucket")
		}
		kvs := vc04rSpillKeys(rng, ad, sh.N, sh.Lo, sh.Hi)
		spill := 0
		for _, x := range kvs {
			spill += 2 + len(x.V) + len(x.K)
		}
		input := map[string]interface{}{"format": ad.Name, "declared_items": items, "buckets": 1, "keys": len(kvs), "key_lengths": []int{sh.Lo, sh.Hi},
			"spill_bytes_about": spill, "shape": sh.Name, "note": "one bucket with a multi-MiB temporary key/value stream; keys are drawn from the seed (vc04rSpillKeys, rng seed+0xd1d)"}
		rep.Case(fmt.Sprintf("big-spill/%s/%s/%d/%d", ad.Name, sh.Name, items, len(kvs)), true)
		rep.Count(fmt.Sprintf("big-spill: sets with a spill stream of %d MiB", spill>>20))
		rev := make([]int, len(kvs))
		for i := range rev {
			rev[i] = len(kvs) - 1 - i
		}
		orders := []struct {
			name string
			kvs  []vc04rKV
		}{{"as drawn", kvs}, {"reversed", vc04rPermute(kvs, rev)}, {"shuffled", vc04rPermute(kvs, rng.Perm(len(kvs)))}}
		if sh.N >= 100000 && !thorough {
			orders = orders[1:] // reversed and shuffled
		}
		var ref []byte
		refFailed := false
		for oi, o := range orders {
			rp := map[string]interface{}{"insertion_order": o.name, "input": input}
			f, msg := ad.Build(items, o.kvs, nil)
			rep.Count("big-spill: builds")
			if len(msg) >= 6 && msg[:6] == "panic:" {
				rep.Fail("builder-panic", fmt.Sprintf("%s, insertion order %s: %s", sh.Name, o.name, msg), rp)
				continue
			}
			if msg != "" {
				rep.Count("big-spill: builds that fail with an error")
				if !sh.MayFail {
					rep.Fail("unexpected-build-error", fmt.Sprintf("supported distinct key set in one bucket (%s, insertion order %s): %s", sh.Name, o.name, msg), rp)
				} else if oi > 0 && ref != nil {
					rep.Fail("order-dependent", fmt.Sprintf("%s: the build succeeds in the order %s and fails in the order %s: %s", sh.Name, orders[0].name, o.name, msg), rp)
				}
				if oi == 0 {
					refFailed = true
				}
				continue
			}
			// a file without an error must honour every insert, whatever the order and the declared count
			if oi == 0 {
				vc04rVerifyAll(rep, seed, f, kvs, ad.Open, rp)
				ref = f
				continue
			}
			if look, m := ad.Open(bytes.NewReader(f), false); look == nil {
				rep.Fail("header-mismatch", "Open of a freshly sealed index failed: "+m, rp)
			} else {
				bad := 0
				for _, x := range kvs {
					v, st, m := look(x.K)
					if st == 0 && bytes.Equal(v, x.V) {
						continue
					}
					if bad++; bad > 3 {
						continue
					}
					what := vc04rStatus[st] + " " + m
					if st == 0 {
						what = "another value: " + vc04rShort(v)
					}
					rep.Fail([]string{"wrong-value", "lost-entry", "lookup-error", "reader-panic"}[st],
						fmt.Sprintf("%s, insertion order %s: inserted key %s (len %d, value %s) -> %s", sh.Name, o.name, vc04rShort(x.K), len(x.K), vc04rShort(x.V), what), rp)
				}
				rep.CountN("big-spill: lookups", len(kvs))
			}
			switch {
			case refFailed:
				rep.Fail("order-dependent", fmt.Sprintf("%s: the build fails in the order %s and succeeds in the order %s", sh.Name, orders[0].name, o.name), rp)
			case ref != nil && !bytes.Equal(ref, f):
				rep.Fail("order-dependent", fmt.Sprintf("%s: insertion order %s gave different bytes (first difference at offset %d of %d)", sh.Name, o.name, vc04rFirstDiff(f, ref), len(ref)), rp)
			case ref != nil:
				rep.Count("big-spill: another insertion order byte-identical")
			}
		}
		rep.Flag("big_spill_ms["+ad.Name+"]["+sh.Name+"]", time.Since(t1).Milliseconds()) // information only
	}
}
