package compactindex36

// Verification harness for C12, legacy compactindex format with 36-byte values (injected with `go test -overlay`;
// not part of the repository). Structure-aware mutation of valid index files (sealed by the real Builder) run
// through Open / Lookup / GetBucket+Load / Prefetch+Lookup under the c12h watchdog (child process under
// ulimit -v, recover(), allocation accounting). Oracle only: no panic, no allocation out of proportion to the
// input, no hang. This file is harness/deprecated/compactindex/c12_test.go with the value type replaced.

import (
	"bytes"
	"context"
	"errors"
	"fmt"
	"os"
	"testing"

	"github.com/rpcpool/yellowstone-faithful/zzverif/c12h"
	"github.com/rpcpool/yellowstone-faithful/zzverif/vh"
)

// ---- the only format-specific part
const vc12Part = "ci-legacy36"

// values are 36 bytes (a CID), independent of the target file size
func vc12Insert(b *Builder, key []byte, rng *vh.Rng, fs uint64) error {
	var v [36]byte
	copy(v[:], rng.Bytes(36))
	return b.Insert(key, v)
}

// ---- common part
func vc12Seal(dir string, n int, items uint, fs uint64, keys [][]byte, rng *vh.Rng) ([]byte, error) {
	tmp := fmt.Sprintf("%s/tmp%d", dir, n)
	if err := os.MkdirAll(tmp, 0o755); err != nil {
		return nil, err
	}
	b, err := NewBuilder(tmp, items, fs)
	if err != nil {
		return nil, err
	}
	defer b.Close()
	for _, k := range keys {
		if err := vc12Insert(b, k, rng, fs); err != nil {
			return nil, err
		}
	}
	path := fmt.Sprintf("%s/index%d", dir, n)
	f, err := os.Create(path)
	if err != nil {
		return nil, err
	}
	defer f.Close()
	if err := b.Seal(context.Background(), f); err != nil {
		return nil, err
	}
	return os.ReadFile(path)
}

func vc12Seeds(dir string, rng *vh.Rng) ([]c12h.Seed, error) {
	var seeds []c12h.Seed
	type shape struct {
		nkeys int
		items uint
		fs    uint64
	}
	shapes := []shape{{3, 3, 1000}, {5, 5, 1 << 24}, {1, 1, 0}, {30, 30, 1<<40 - 1}, {2, 2, 255}, {12, 25000, 70000}}
	for i, sh := range shapes {
		var keys [][]byte
		for k := 0; k < sh.nkeys; k++ {
			keys = append(keys, rng.Bytes(1+rng.Intn(40)))
		}
		data, err := vc12Seal(dir, i, sh.items, sh.fs, keys, rng)
		if err != nil {
			return seeds, err
		}
		db, err := Open(bytes.NewReader(data))
		if err != nil {
			c12h.SkipSeed(fmt.Sprintf("seed %d", i), fmt.Sprintf("does not open: %v", err))
			continue
		}
		answers := true
		for _, k := range keys {
			if _, err := db.Lookup(k); err != nil {
				c12h.SkipSeed(fmt.Sprintf("seed %d", i), fmt.Sprintf("stored key not found: %v", err))
				answers = false
				break
			}
		}
		if !answers {
			continue
		}
		keys = append(keys, []byte("absent-key-1"), rng.Bytes(7))
		seeds = append(seeds, c12h.Seed{Name: fmt.Sprintf("%s-fs%d-n%d", vc12Part, sh.fs, sh.nkeys), Data: data, Keys: keys,
			Nums: []uint64{headerSize, uint64(db.Header.NumBuckets)}})
	}
	return seeds, nil
}

// the length/count/size/offset fields of a legacy index file: header fields first (vc12NHdr of them)
const vc12NHdr = 4

func vc12Fields(s *c12h.Seed) (fields []c12h.Field, boundaries []int) {
	hs, nb := int(s.Nums[0]), int(s.Nums[1])
	fields = append(fields, c12h.Field{Name: "hdr.filesize", Off: 8, Len: 8}, c12h.Field{Name: "hdr.numbuckets", Off: 16, Len: 4},
		c12h.Field{Name: "hdr.version", Off: 20, Len: 1}, c12h.Field{Name: "hdr.pad", Off: 21, Len: 1})
	boundaries = append(boundaries, 8, 16, 20, 21, hs)
	for b := 0; b < nb && b < 3; b++ {
		o := hs + 16*b
		fields = append(fields, c12h.Field{Name: "bucket.domain", Off: o, Len: 4}, c12h.Field{Name: "bucket.numentries", Off: o + 4, Len: 4},
			c12h.Field{Name: "bucket.hashlen", Off: o + 8, Len: 1}, c12h.Field{Name: "bucket.pad", Off: o + 9, Len: 1},
			c12h.Field{Name: "bucket.fileoffset", Off: o + 10, Len: 6})
		boundaries = append(boundaries, o, o+16)
	}
	boundaries = append(boundaries, hs+16*nb)
	return
}

func vc12Gen(seeds []c12h.Seed, rng *vh.Rng, thorough bool) []c12h.Input {
	var ins []c12h.Input
	nrand := 400
	if thorough {
		nrand = 8000
	}
	for si := range seeds {
		s := &seeds[si]
		fields, bounds := vc12Fields(s)
		qfields := append([]c12h.Field{fields[0], fields[1]}, fields[vc12NHdr:]...) // file size, bucket count, bucket headers
		small := len(s.Data) < 4096
		ins = append(ins, c12h.Input{Entry: "open", Label: "valid", Data: s.Data})
		ins = append(ins, c12h.MutateFields("open", s, fields[:vc12NHdr], nil, nil)...)
		ins = append(ins, c12h.Truncations("open", s, bounds, nil, nil)...)
		for ki := range s.Keys {
			if ki > 1 && ki < len(s.Keys)-1 {
				continue
			}
			aux := []uint64{uint64(ki)}
			ins = append(ins, c12h.Input{Entry: "lookup", Label: "valid", Data: s.Data, Keys: s.Keys, Aux: aux})
			ins = append(ins, c12h.MutateFields("lookup", s, qfields, s.Keys, aux)...)
			if ki == 0 {
				ins = append(ins, c12h.Truncations("lookup", s, bounds, s.Keys, aux)...)
				ins = append(ins, c12h.Input{Entry: "load", Label: "valid", Data: s.Data, Keys: s.Keys, Aux: aux})
				ins = append(ins, c12h.MutateFields("load", s, qfields, s.Keys, aux)...)
				ins = append(ins, c12h.Truncations("load", s, bounds, s.Keys, aux)...)
				ins = append(ins, c12h.Input{Entry: "prefetch", Label: "valid", Data: s.Data, Keys: s.Keys, Aux: aux})
				ins = append(ins, c12h.MutateFields("prefetch", s, qfields, s.Keys, aux)...)
			}
		}
		if small {
			hot := int(s.Nums[0]) + 16*int(s.Nums[1])
			ins = append(ins, c12h.RandomMutations("lookup", s, rng, nrand, hot, s.Keys, []uint64{0})...)
			ins = append(ins, c12h.RandomMutations("open", s, rng, nrand/4, int(s.Nums[0]), nil, nil)...)
			ins = append(ins, c12h.RandomMutations("load", s, rng, nrand/4, hot, s.Keys, []uint64{0})...)
			ins = append(ins, c12h.RandomMutations("prefetch", s, rng, nrand/4, hot, s.Keys, []uint64{0})...)
		}
	}
	ins = append(ins, c12h.Junk("open", rng, 200, Magic[:])...)
	return ins
}

func vc12Exec(in *c12h.Input) c12h.Obs {
	db, err := Open(bytes.NewReader(in.Data))
	if in.Entry == "open" {
		if err != nil {
			return c12h.Obs{Class: "error"}
		}
		return c12h.Obs{Class: "ok", Nums: []uint64{db.Header.FileSize, uint64(db.Header.NumBuckets)}}
	}
	if err != nil {
		return c12h.Obs{Class: "error", Fine: "open-error"}
	}
	key := in.Keys[in.Aux[0]]
	switch in.Entry {
	case "lookup", "prefetch":
		if in.Entry == "prefetch" {
			db.Prefetch(true)
		}
		_, err := db.Lookup(key)
		switch {
		case err == nil:
			return c12h.Obs{Class: "ok", Fine: "found"}
		case errors.Is(err, ErrNotFound):
			return c12h.Obs{Class: "ok", Fine: "notfound"}
		default:
			return c12h.Obs{Class: "error", Fine: "error"}
		}
	case "load":
		b, err := db.GetBucket(0)
		if err != nil {
			return c12h.Obs{Class: "error"}
		}
		if _, err := b.Load(0); err != nil {
			return c12h.Obs{Class: "error"}
		}
		return c12h.Obs{Class: "ok"}
	}
	panic("VERIF-HARNESS-BUG unknown entry " + in.Entry)
}

func vc12Budget(in *c12h.Input) uint64 {
	b := uint64(8*len(in.Data)) + 256<<10
	if in.Entry == "load" {
		b += 512 * 256 * 3 // one batch buffer and its decoded entries
	}
	if in.Entry == "prefetch" {
		b += 3000 * 256
	}
	return b
}

func TestVerif_C12(t *testing.T) {
	c12h.Run(t, &c12h.Part{
		Name:  vc12Part,
		Rule:  "legacy compactindex36 Open / DB.Lookup / Bucket.Load / Prefetch+Lookup on mutated valid index files (header and bucket-header fields, truncations, random edits, junk): no panic, allocation <= 8*len+256KiB (+ one batch for Load, + the prefetch window), no hang",
		Seeds: vc12Seeds, Gen: vc12Gen, Exec: vc12Exec, Budget: vc12Budget,
	})
}
