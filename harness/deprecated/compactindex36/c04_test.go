package compactindex36

// Verification harness for C04, legacy format with 36-byte values
// (injected with `go test -overlay`; not part of the repository). The server only READS this format; the
// builder of this package is exercised because the property covers the format ("the same holds for the two
// legacy formats the server still reads"). Same structure as harness/compactindexsized/c04_test.go, smaller.
// This file is harness/deprecated/compactindex/c04_test.go with the value type replaced (keep them in step).

import (
	"bytes"
	"context"
	"encoding/json"
	"errors"
	"fmt"
	"os"
	"strings"
	"testing"

	"github.com/rpcpool/yellowstone-faithful/zzverif/vh"
)

// ---- the only format-specific part
type vc04lValue = [36]byte

const (
	vc04lValBytes = 36
	vc04lFmt      = "FLegacy36"
	vc04lPart     = "legacy36"
)

func vc04lToValue(b []byte) vc04lValue {
	var v vc04lValue
	copy(v[:], b)
	return v
}
func vc04lFromValue(v vc04lValue) []byte { return append([]byte(nil), v[:]...) }

func vc04lGenValue(rng *vh.Rng, fs uint64) []byte { return rng.Bytes(vc04lValBytes) }

// values are fixed-size arrays in this format: nothing to probe
func vc04lWideProbe(rep *vh.Report) {}

// ---- common part
type vc04lKV struct {
	K, V []byte
	CoqK string
}

type vc04lOut struct {
	Class int
	Stage string
	Msg   string
	File  []byte
}

func vc04lFormulaKey(n int, a, b byte) ([]byte, string) {
	k := make([]byte, n)
	for x := range k {
		k[x] = byte(x)*a + b
	}
	return k, fmt.Sprintf("(mk_key %d%%N %d%%N %d%%N)", n, a, b)
}

func vc04lBuild(items uint, fs uint64, kvs []vc04lKV) (out vc04lOut) {
	dir, err := os.MkdirTemp(vh.OutDir(), "c04l-")
	if err != nil {
		panic("VERIF-HARNESS-BUG: " + err.Error())
	}
	defer os.RemoveAll(dir)
	if err := os.MkdirAll(dir+"/tmp", 0o755); err != nil {
		panic("VERIF-HARNESS-BUG: " + err.Error())
	}
	out.Stage = "new"
	defer func() {
		if r := recover(); r != nil {
			out.Class, out.Msg, out.File = 2, fmt.Sprint(r), nil
		}
	}()
	b, err := NewBuilder(dir+"/tmp", items, fs)
	if err != nil {
		return vc04lOut{Class: 1, Stage: "new", Msg: err.Error()}
	}
	defer b.Close()
	out.Stage = "insert"
	for _, x := range kvs {
		if err := b.Insert(x.K, vc04lToValue(x.V)); err != nil {
			return vc04lOut{Class: 1, Stage: "insert", Msg: err.Error()}
		}
	}
	out.Stage = "seal"
	f, err := os.Create(dir + "/index")
	if err != nil {
		panic("VERIF-HARNESS-BUG: " + err.Error())
	}
	defer f.Close()
	if err := b.Seal(context.Background(), f); err != nil {
		return vc04lOut{Class: 1, Stage: "seal", Msg: err.Error()}
	}
	data, err := os.ReadFile(dir + "/index")
	if err != nil {
		panic("VERIF-HARNESS-BUG: " + err.Error())
	}
	return vc04lOut{Class: 0, Stage: "seal", File: data}
}

// 0 found, 1 not found, 2 other error, 3 panic
func vc04lLookup(db *DB, k []byte) (v []byte, st int, msg string) {
	defer func() {
		if r := recover(); r != nil {
			v, st, msg = nil, 3, fmt.Sprint(r)
		}
	}()
	got, err := db.Lookup(k)
	if err == nil {
		return vc04lFromValue(got), 0, ""
	}
	if errors.Is(err, ErrNotFound) {
		return nil, 1, ""
	}
	return nil, 2, err.Error()
}

func vc04lOpen(file []byte) (db *DB, msg string) {
	defer func() {
		if r := recover(); r != nil {
			db, msg = nil, "panic: "+fmt.Sprint(r)
		}
	}()
	d, err := Open(bytes.NewReader(file))
	if err != nil {
		return nil, err.Error()
	}
	return d, ""
}

func vc04lShort(b []byte) string {
	if len(b) <= 24 {
		return vh.Hex(b)
	}
	return fmt.Sprintf("%s..(%d bytes)", vh.Hex(b[:16]), len(b))
}

func vc04lDescribe(items uint, fs uint64, kvs []vc04lKV, note string) map[string]interface{} {
	lens, keys := []int{}, []string{}
	for i, x := range kvs {
		if i < 12 {
			lens = append(lens, len(x.K))
			keys = append(keys, vc04lShort(x.K))
		}
	}
	return map[string]interface{}{"format": vc04lPart, "declared_items": items, "file_size": fs, "keys": len(kvs), "key_lengths": lens, "keys_hex": keys, "note": note}
}

func vc04lEffFS(fs uint64) uint64 {
	if fs == 0 {
		return ^uint64(0)
	}
	return fs
}

func vc04lNumBuckets(items uint) uint {
	return (items + targetEntriesPerBucket - 1) / targetEntriesPerBucket
}

func vc04lVerify(rep *vh.Report, file []byte, items uint, fs uint64, kvs []vc04lKV, note string) *DB {
	db, msg := vc04lOpen(file)
	if db == nil {
		rep.Fail("header-mismatch", "Open of a freshly sealed index failed: "+msg, vc04lDescribe(items, fs, kvs, note))
		return nil
	}
	if db.Header.FileSize != vc04lEffFS(fs) {
		rep.Fail("header-mismatch", fmt.Sprintf("header says fileSize=%d, built with fileSize=%d", db.Header.FileSize, fs), vc04lDescribe(items, fs, kvs, note))
	}
	if uint(db.Header.NumBuckets) != vc04lNumBuckets(items) { // information: the property does not fix the bucket count
		rep.Count("bucket-count-differs-from-ceil(declared/targetEntriesPerBucket)")
	}
	for _, x := range kvs {
		v, st, m := vc04lLookup(db, x.K)
		switch {
		case st == 0 && bytes.Equal(v, x.V):
		case st == 0:
			rep.Fail("wrong-value", fmt.Sprintf("key %s: got %s want %s", vc04lShort(x.K), vc04lShort(v), vc04lShort(x.V)), vc04lDescribe(items, fs, kvs, note))
		case st == 1:
			rep.Fail("lost-entry", fmt.Sprintf("inserted key %s (len %d) is not found", vc04lShort(x.K), len(x.K)), vc04lDescribe(items, fs, kvs, note))
		case st == 2:
			rep.Fail("lookup-error", fmt.Sprintf("key %s: %s", vc04lShort(x.K), m), vc04lDescribe(items, fs, kvs, note))
		default:
			rep.Fail("reader-panic", fmt.Sprintf("key %s: %s", vc04lShort(x.K), m), vc04lDescribe(items, fs, kvs, note))
		}
	}
	// the same keys through the other conforming readers (c04r_test.go): EOF together with a full read at the end of
	// the data, a section reader at an offset, Prefetch(true), one transient read error at every position of the trace
	rkvs := make([]vc04rKV, len(kvs))
	for i, x := range kvs {
		rkvs[i] = vc04rKV{x.K, x.V}
	}
	vc04rCheckReaders(rep, vc04lSeed(), file, rkvs, vc04raOpen, vc04lDescribe(items, fs, kvs, note))
	return db
}

func vc04lCoqKVs(kvs []vc04lKV) string {
	items := make([]string, len(kvs))
	for i, x := range kvs {
		k := x.CoqK
		if k == "" {
			k = vh.CoqBytes(x.K)
		}
		items[i] = "(" + k + ", " + vh.CoqBytes(x.V) + ")"
	}
	if len(items) == 0 {
		return "([] : list (list N * list N))"
	}
	return "[" + strings.Join(items, "; ") + "]"
}

type vc04lAbsent struct {
	K, V  []byte
	Found bool
}

func vc04lCoqRead(file []byte, fs uint64, nb uint, kvs []vc04lKV, absent []vc04lAbsent) string {
	abs := make([]string, len(absent))
	for i, a := range absent {
		abs[i] = "(" + vh.CoqBytes(a.K) + ", " + vh.CoqOpt(vh.CoqBytes(a.V), a.Found) + ")"
	}
	al := "([] : list (list N * option (list N)))"
	if len(abs) > 0 {
		al = "[" + strings.Join(abs, "; ") + "]"
	}
	return fmt.Sprintf("CRead %s %s %s %s ([] : list (list N * list N)) %s %s", vc04lFmt, vh.CoqBytes(file), vh.CoqN(vc04lEffFS(fs)), vh.CoqN(uint64(nb)), vc04lCoqKVs(kvs), al)
}

func vc04lCoqBuild(items uint, fs uint64, kvs []vc04lKV, class int) string {
	return fmt.Sprintf("CBuild %s %s %s ([] : list (list N * list N)) %s %s", vc04lFmt, vh.CoqN(uint64(items)), vh.CoqN(fs), vc04lCoqKVs(kvs), vh.CoqN(uint64(class)))
}

func vc04lKeyLen(rng *vh.Rng) int {
	switch rng.Intn(10) {
	case 0:
		return rng.Intn(4)
	case 1:
		return rng.Pick(31, 32, 33, 64, 200)
	default:
		return rng.Range(1, 40)
	}
}

func vc04lKeys(rng *vh.Rng, n int, fs uint64) []vc04lKV {
	seen := map[string]bool{}
	out := make([]vc04lKV, 0, n)
	for len(out) < n {
		k := rng.Bytes(vc04lKeyLen(rng))
		if seen[string(k)] {
			k = append(k, rng.Bytes(3)...)
			if seen[string(k)] {
				continue
			}
		}
		seen[string(k)] = true
		out = append(out, vc04lKV{K: k, V: vc04lGenValue(rng, fs)})
	}
	return out
}

func vc04lPermute(kvs []vc04lKV, p []int) []vc04lKV {
	out := make([]vc04lKV, len(kvs))
	for i, j := range p {
		out[i] = kvs[j]
	}
	return out
}

func vc04lPerms(n int) [][]int {
	var res [][]int
	var rec func(cur []int, used uint)
	rec = func(cur []int, used uint) {
		if len(cur) == n {
			res = append(res, append([]int(nil), cur...))
			return
		}
		for i := 0; i < n; i++ {
			if used&(1<<uint(i)) == 0 {
				rec(append(cur, i), used|1<<uint(i))
			}
		}
	}
	rec(nil, 0)
	return res
}

func TestVerif_C04(t *testing.T) {
	rng := vh.NewRng(vc04lSeed() + 1000)
	thorough := vh.Thorough()
	rep := vh.NewReport("C04", vc04lPart,
		"legacy format: random + directed key sets through the real NewBuilder/Insert/Seal/Open/Lookup; oracle: every inserted key returns its value, header read back, seal twice and all insertion orders byte-identical, duplicate / over-long keys give an error; every verified file is also read through EOF-with-full-read, offset-section, prefetching and transiently failing readers; the same inserts sealed repeatedly under GOMAXPROCS 1/2/3/16 are byte-identical; builders sealing at the same time give the files they give alone; non-trivial: >= 2 keys; distinct by (declared, file size, key bytes)")
	cases := vh.NewCases("cases_c04_"+vc04lPart, []string{"YF.C04_Check"}, "case", "check")
	fsChoices := []uint64{0, 255, 256, 65535, 65536, 1 << 24, 1<<40 - 1, 1 << 56, ^uint64(0)}
	key := func(items uint, fs uint64, kvs []vc04lKV) string {
		s := fmt.Sprintf("%d/%d/%d/", items, fs, len(kvs))
		for i, x := range kvs {
			if i < 4 {
				s += vh.Hex(x.K) + "/"
			}
		}
		return s
	}
	cls := []string{"file", "error", "panic"}

	// A. model-evaluated sets
	nSets := 8
	if thorough {
		nSets = 40
	}
	for s := 0; s < nSets; s++ {
		n := rng.Range(3, 20)
		if s < 2 {
			n = s + 1
		}
		fs := fsChoices[rng.Intn(len(fsChoices))]
		items := uint(rng.Pick(1, n, 9999, 10000, 10001, 20001, n*10))
		kvs := vc04lKeys(rng, n, fs)
		note := fmt.Sprintf("random set #%d", s)
		out := vc04lBuild(items, fs, kvs)
		rep.Case(key(items, fs, kvs), n >= 2)
		rep.Count(fmt.Sprintf("model-set buckets=%d", vc04lNumBuckets(items)))
		if out.Class != 0 {
			rep.Fail(map[int]string{1: "unexpected-build-error", 2: "builder-panic"}[out.Class], out.Stage+": "+out.Msg, vc04lDescribe(items, fs, kvs, note))
			cases.Add(vc04lCoqBuild(items, fs, kvs, out.Class))
			continue
		}
		db := vc04lVerify(rep, out.File, items, fs, kvs, note)
		if o2 := vc04lBuild(items, fs, kvs); o2.Class != 0 || !bytes.Equal(o2.File, out.File) {
			rep.Fail("nondeterministic-seal", "sealing the same inserts twice gave different bytes", vc04lDescribe(items, fs, kvs, note))
		}
		if o3 := vc04lBuild(items, fs, vc04lPermute(kvs, rng.Perm(n))); o3.Class != 0 || !bytes.Equal(o3.File, out.File) {
			rep.Fail("order-dependent", "a permutation of the inserts gave different bytes", vc04lDescribe(items, fs, kvs, note))
		}
		if db != nil {
			present := map[string]bool{}
			for _, x := range kvs {
				present[string(x.K)] = true
			}
			var absent []vc04lAbsent
			for len(absent) < 5 {
				k := rng.Bytes(vc04lKeyLen(rng))
				if present[string(k)] {
					continue
				}
				v, st, msg := vc04lLookup(db, k)
				if st >= 2 {
					rep.Fail(map[int]string{2: "lookup-error", 3: "reader-panic"}[st], msg, nil)
					continue
				}
				absent = append(absent, vc04lAbsent{k, v, st == 0})
			}
			cases.Add(vc04lCoqRead(out.File, fs, uint(db.Header.NumBuckets), kvs, absent))
			if s%4 == 0 {
				cases.Add(vc04lCoqBuild(items, fs, kvs[:vc04lMin(len(kvs), 6)], vc04lBuild(items, fs, kvs[:vc04lMin(len(kvs), 6)]).Class))
			}
			if s < 3 {
				rep.Sample(map[string]interface{}{"format": vc04lPart, "declared": items, "file_size": fs, "keys": n, "file_bytes": len(out.File)})
			}
		}
	}

	// B. larger sets, Go oracle only
	sizes := []int{1, 2, 50, 1000, 12000}
	if thorough {
		sizes = append(sizes, 40000)
	}
	for i, n := range sizes {
		fs := fsChoices[rng.Intn(len(fsChoices))]
		items := uint(n)
		if i%2 == 1 {
			items = uint(n) * uint(rng.Range(2, 10))
		}
		kvs := vc04lKeys(rng, n, fs)
		note := fmt.Sprintf("large set of %d keys", n)
		out := vc04lBuild(items, fs, kvs)
		rep.Case(key(items, fs, kvs), n >= 2)
		rep.Count(fmt.Sprintf("large-set keys=%d", n))
		if out.Class != 0 {
			rep.Fail(map[int]string{1: "unexpected-build-error", 2: "builder-panic"}[out.Class], out.Stage+": "+out.Msg, vc04lDescribe(items, fs, kvs, note))
			continue
		}
		vc04lVerify(rep, out.File, items, fs, kvs, note)
		if o2 := vc04lBuild(items, fs, kvs); o2.Class != 0 || !bytes.Equal(o2.File, out.File) {
			rep.Fail("nondeterministic-seal", "sealing the same inserts twice gave different bytes", vc04lDescribe(items, fs, kvs, note))
		}
		if o3 := vc04lBuild(items, fs, vc04lPermute(kvs, rng.Perm(n))); o3.Class != 0 || !bytes.Equal(o3.File, out.File) {
			rep.Fail("order-dependent", "a random permutation of the inserts gave different bytes", vc04lDescribe(items, fs, kvs, note))
		}
	}

	// C. every insertion order of small sets
	for _, cfg := range []struct {
		n     int
		items uint
	}{{3, 1}, {4, 20001}, {5, 10001}} {
		fs := fsChoices[rng.Intn(len(fsChoices))]
		kvs := vc04lKeys(rng, cfg.n, fs)
		ref := vc04lBuild(cfg.items, fs, kvs)
		rep.Case(key(cfg.items, fs, kvs), true)
		if ref.Class != 0 {
			rep.Fail("unexpected-build-error", ref.Msg, vc04lDescribe(cfg.items, fs, kvs, "all orders"))
			continue
		}
		reported := false
		for _, p := range vc04lPerms(cfg.n) {
			o := vc04lBuild(cfg.items, fs, vc04lPermute(kvs, p))
			rep.Count("insertion-orders-tried")
			if (o.Class != 0 || !bytes.Equal(o.File, ref.File)) && !reported {
				reported = true
				rep.Fail("order-dependent", fmt.Sprintf("insertion order %v gave different bytes (or failed)", p), vc04lDescribe(cfg.items, fs, kvs, "all orders"))
			}
		}
	}

	// D. key lengths 0..65535 together; then over-long keys
	{
		var kvs []vc04lKV
		for _, l := range []int{0, 1, 2, 7, 8, 31, 32, 33, 255, 256, 65534, 65535} {
			kvs = append(kvs, vc04lKV{K: rng.Bytes(l), V: vc04lGenValue(rng, 0)})
		}
		out := vc04lBuild(uint(len(kvs)), 0, kvs)
		rep.Case("keylens-0..65535", true)
		if out.Class != 0 {
			rep.Fail(map[int]string{1: "unexpected-build-error", 2: "builder-panic"}[out.Class], out.Msg, vc04lDescribe(uint(len(kvs)), 0, kvs, "key lengths 0..65535"))
		} else {
			vc04lVerify(rep, out.File, uint(len(kvs)), 0, kvs, "key lengths 0..65535")
		}
	}
	for i, lens := range [][]int{{65536}, {65536, 10}, {9, 70000, 11}} {
		var kvs []vc04lKV
		for j, l := range lens {
			k, ck := vc04lFormulaKey(l, 7, byte(j+i))
			v := make([]byte, vc04lValBytes)
			v[0] = byte(40 + j)
			kvs = append(kvs, vc04lKV{k, v, ck})
		}
		out := vc04lBuild(uint(len(kvs)), 0, kvs)
		rep.Case(fmt.Sprint("longkey", lens), true)
		rep.Count("over-long-key-input")
		in := map[string]interface{}{"format": vc04lPart, "declared_items": len(kvs), "key_lengths": lens, "note": fmt.Sprintf("byte x of key j is x*7+j+%d; value j is [40+j,0,...]", i)}
		switch out.Class {
		case 1:
			rep.Count("over-long-key rejected with an error")
		case 2:
			rep.Fail("builder-panic", out.Msg, in)
		default:
			db, msg := vc04lOpen(out.File)
			if db == nil {
				rep.Fail("long-key-lost", "index built from an over-long key cannot be opened: "+msg, in)
				break
			}
			var lost []string
			for j, x := range kvs {
				v, st, _ := vc04lLookup(db, x.K)
				if st != 0 || !bytes.Equal(v, x.V) {
					lost = append(lost, fmt.Sprintf("key#%d(len %d): %s", j, len(x.K), []string{"wrong value", "not found", "error", "panic"}[st]))
				}
			}
			if len(lost) > 0 {
				rep.Fail("long-key-lost", fmt.Sprintf("[%s] Insert and Seal returned no error for key lengths %v, but: %s", vc04lPart, lens, strings.Join(lost, "; ")), in)
			}
		}
		if i == 0 {
			cases.Add(vc04lCoqBuild(uint(len(kvs)), 0, kvs, out.Class))
		}
	}

	// E. duplicate keys must fail
	for i := 0; i < 4; i++ {
		n := rng.Range(2, 12)
		fs := fsChoices[rng.Intn(len(fsChoices))]
		items := uint(rng.Pick(1, n, 20001))
		kvs := vc04lKeys(rng, n, fs)
		a := rng.Intn(n)
		b := (a + 1 + rng.Intn(n-1)) % n
		kvs[b].K = append([]byte(nil), kvs[a].K...)
		if i%2 == 0 {
			kvs[b].V = append([]byte(nil), kvs[a].V...)
		}
		out := vc04lBuild(items, fs, kvs)
		rep.Case(key(items, fs, kvs)+"dup", true)
		rep.Count("duplicate-key -> " + cls[out.Class])
		if out.Class == 0 {
			rep.Fail("duplicate-key-accepted", "a key inserted twice did not make the build fail", vc04lDescribe(items, fs, kvs, fmt.Sprintf("keys #%d and #%d are equal", a, b)))
		} else if out.Class == 2 {
			rep.Fail("builder-panic", out.Msg, vc04lDescribe(items, fs, kvs, "duplicate"))
		}
		if i < 2 {
			cases.Add(vc04lCoqBuild(items, fs, kvs, out.Class))
		}
	}

	// F. seal determinism: the same inserts sealed 5..7 times under each of GOMAXPROCS 1/2/3/16 (1, 2, 3, 8, 12..14 buckets)
	vc04rSealDeterminism(rep, vc04lSeed(), vc04raAdapter(), thorough)

	// G. builders sealing at the same time (full buckets) must each give the file the same build gives alone
	{
		sizes, rounds := []int{20000, 12000, 10000}, 2
		if thorough {
			sizes, rounds = []int{30000, 20000, 25000, 10000}, 8
		}
		ads := make([]vc04rAdapter, len(sizes))
		for i := range ads {
			ads[i] = vc04raAdapter()
		}
		vc04rConcurrentBuilders(rep, vc04lSeed(), ads, sizes, rounds, []int{16, 2})
	}

	// H. one bucket whose temporary key/value stream is several MiB (long keys / under-declared counts), three insertion orders
	vc04rBigSpill(rep, vc04lSeed(), vc04raAdapter(), thorough, false) // the shape that cannot be mined: thorough tier

	vc04lWideProbe(rep)
	if err := cases.Write(); err != nil {
		t.Fatal(err)
	}
	rep.CasesWritten(cases)
	if err := rep.Write(); err != nil {
		t.Fatal(err)
	}
}

// the seed of a replay file (bin/check C04 --replay <file>) wins over VERIF_SEED
func vc04lSeed() uint64 {
	if p := vh.Replay(); p != "" {
		if b, err := os.ReadFile(p); err == nil {
			var r struct {
				Seed uint64 `json:"seed"`
			}
			if json.Unmarshal(b, &r) == nil && r.Seed != 0 {
				return r.Seed
			}
		}
	}
	return vh.Seed()
}

func vc04lMin(a, b int) int {
	if a < b {
		return a
	}
	return b
}
