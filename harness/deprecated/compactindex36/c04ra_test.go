package compactindex36

// C04 harness: the adapters of this legacy format for the format-independent checks of c04r_test.go
// (injected with `go test -overlay`; not part of the repository). Uses the format-specific part of c04_test.go
// (vc04lToValue / vc04lFromValue / vc04lGenValue / vc04lPart); apart from the package clause this file is the same in
// harness/deprecated/compactindex and harness/deprecated/compactindex36 (keep them in step).

import (
	"context"
	"errors"
	"fmt"
	"io"
	"os"

	"github.com/rpcpool/yellowstone-faithful/zzverif/vh"
)

// vc04raOpen: Open + Lookup of the real reader on any io.ReaderAt; panics are observations.
func vc04raOpen(rd io.ReaderAt, prefetch bool) (look vc04rLook, msg string) {
	defer func() {
		if r := recover(); r != nil {
			look, msg = nil, "panic: "+fmt.Sprint(r)
		}
	}()
	db, err := Open(rd)
	if err != nil {
		return nil, "error: " + err.Error()
	}
	db.Prefetch(prefetch)
	return func(k []byte) (v []byte, st int, m string) {
		defer func() {
			if r := recover(); r != nil {
				v, st, m = nil, 3, fmt.Sprint(r)
			}
		}()
		got, err := db.Lookup(k)
		if err == nil {
			return vc04lFromValue(got), 0, ""
		}
		if errors.Is(err, ErrNotFound) {
			return nil, 1, ""
		}
		return nil, 2, err.Error()
	}, ""
}

// vc04raBuild: one complete build with the real builder (target file size 0 = unknown: every value fits).
func vc04raBuild(items uint, kvs []vc04rKV, beforeSeal func()) (file []byte, msg string) {
	dir, err := os.MkdirTemp(vh.OutDir(), "c04r-")
	if err != nil {
		panic("VERIF-HARNESS-BUG: " + err.Error())
	}
	defer os.RemoveAll(dir)
	if err := os.MkdirAll(dir+"/tmp", 0o755); err != nil {
		panic("VERIF-HARNESS-BUG: " + err.Error())
	}
	defer func() {
		if r := recover(); r != nil {
			file, msg = nil, "panic: "+fmt.Sprint(r)
		}
	}()
	b, err := NewBuilder(dir+"/tmp", items, 0)
	if err != nil {
		return nil, "NewBuilder: " + err.Error()
	}
	defer b.Close()
	for _, x := range kvs {
		if err := b.Insert(x.K, vc04lToValue(x.V)); err != nil {
			return nil, "Insert: " + err.Error()
		}
	}
	f, err := os.Create(dir + "/index")
	if err != nil {
		panic("VERIF-HARNESS-BUG: " + err.Error())
	}
	defer f.Close()
	if beforeSeal != nil {
		beforeSeal()
	}
	if err := b.Seal(context.Background(), f); err != nil {
		return nil, "Seal: " + err.Error()
	}
	data, err := os.ReadFile(dir + "/index")
	if err != nil {
		panic("VERIF-HARNESS-BUG: " + err.Error())
	}
	return data, ""
}

func vc04raAdapter() vc04rAdapter {
	return vc04rAdapter{
		Name:   vc04lPart,
		Target: targetEntriesPerBucket,
		Build:  vc04raBuild,
		Open:   vc04raOpen,
		BucketOf: func(nb uint, k []byte) uint {
			h := Header{NumBuckets: uint32(nb)}
			return h.BucketHash(k)
		},
		GenValue: func(rng *vh.Rng) []byte { return vc04lGenValue(rng, 0) },
	}
}
