package main

// Verification harness for C14, RPC path (injected with `go test -overlay`; not part of the repository).
// storage.go: getTransactionAndMetaFromNode / parseTransactionAndMetaFromNode reassemble BOTH the
// transaction bytes and the metadata through tooling.LoadDataFromDataFrames with a node-fetching
// callback; here the callback is an in-memory store holding the frames of both payloads.

import (
	"bytes"
	"context"
	"encoding/hex"
	"fmt"
	"testing"

	"github.com/gagliardetto/solana-go"
	"github.com/ipfs/go-cid"
	"github.com/rpcpool/yellowstone-faithful/ipld/ipldbindcode"
	"github.com/rpcpool/yellowstone-faithful/third_party/solana_proto/confirmed_block"
	"github.com/rpcpool/yellowstone-faithful/tooling"
	"github.com/rpcpool/yellowstone-faithful/zzverif/c14gen"
	"github.com/rpcpool/yellowstone-faithful/zzverif/vh"
	"google.golang.org/protobuf/proto"
)

func vc14TxBytes(n uint64, ninstr int) (solana.Signature, []byte) {
	var sig solana.Signature
	for i := range sig {
		sig[i] = byte(n + uint64(i)*7)
	}
	var k1, k2 solana.PublicKey
	k1[0], k2[0] = 1, 2
	k1[9] = byte(n)
	var ins []solana.CompiledInstruction
	for i := 0; i < ninstr; i++ {
		ins = append(ins, solana.CompiledInstruction{ProgramIDIndex: 2, Accounts: []uint16{0, 1}, Data: []byte{1, 2, byte(i)}})
	}
	tx := solana.Transaction{
		Signatures: []solana.Signature{sig},
		Message: solana.Message{
			AccountKeys:     []solana.PublicKey{k1, k2, solana.SystemProgramID},
			Header:          solana.MessageHeader{NumRequiredSignatures: 1, NumReadonlyUnsignedAccounts: 1},
			RecentBlockhash: solana.Hash(k2),
			Instructions:    ins,
		},
	}
	b, err := tx.MarshalBinary()
	if err != nil {
		panic("VERIF-HARNESS-BUG: " + err.Error())
	}
	return sig, b
}

func TestVerif_C14(t *testing.T) {
	rng := vh.NewRng(vh.Seed() + 2000)
	thorough := vh.Thorough()
	rep := vh.NewReport("C14", "storage",
		"transaction nodes whose `data` AND `metadata` are both split into {1,2,3,10,60} frames x fan-outs {1,2,5,10}, read through getTransactionAndMetaFromNode and parseTransactionAndMetaFromNode "+
			"with an in-memory getter; every single-frame fault kind on every frame of either payload; non-trivial = >= 2 frames; distinct by (config, which payload, fault, frame)")

	cases := vh.NewCases("cases_c14_storage", []string{"YF.C14_Hash", "YF.C14_Frames", "YF.C14_Term", "YF.C14_Layout", "YF.C14_Check"}, "case", "check")
	coqBudget := 60
	if thorough {
		coqBudget = 400
	}
	logSizes := []int{30, 600}
	if thorough {
		logSizes = []int{30, 600, 20000, 150000}
	}
	pid := 500
	for _, ls := range logSizes {
		for _, nf := range []int{1, 2, 3, 10, 60} {
			for _, fo := range []int{1, 2, 5, 10} {
				pid += 4
				sig, txb := vc14TxBytes(uint64(pid), 1+rng.Intn(12))
				line := hex.EncodeToString(rng.Bytes(ls))
				mb, _ := proto.Marshal(&confirmed_block.TransactionStatusMeta{Fee: 5000, LogMessages: []string{line}})
				mz, err := tooling.CompressZstd(mb)
				if err != nil {
					t.Fatalf("VERIF-HARNESS-BUG: %v", err)
				}
				_, txb2 := vc14TxBytes(uint64(pid+1), 1+rng.Intn(12))
				mb2, _ := proto.Marshal(&confirmed_block.TransactionStatusMeta{Fee: 7, LogMessages: []string{hex.EncodeToString(rng.Bytes(ls))}})
				mz2, _ := tooling.CompressZstd(mb2)
				useFnv := rng.Bool()
				mk := func(id int, d []byte) *c14gen.Payload {
					p := &c14gen.Payload{ID: id, Data: d, Chunks: c14gen.SplitEven(d, nf), Fanout: fo, UseFnv: useFnv}
					p.Build(rng)
					return p
				}
				pTx, pMeta, oTx, oMeta := mk(pid, txb), mk(pid+1, mz), mk(pid+2, txb2), mk(pid+3, mz2)
				cfgKey := fmt.Sprintf("log=%d,tx=%d,meta=%d,frames=%d,fanout=%d,fnv=%v", ls, len(txb), len(mz), nf, fo, useFnv)
				rep.Count(fmt.Sprintf("frames=%d", nf))
				rep.Count(fmt.Sprintf("fanout=%d", fo))

				// sTx / sMeta: scenario per payload; the getter serves the union of both stores
				one := func(sTx, sMeta *c14gen.Scenario, which string) {
					store := map[cid.Cid]*ipldbindcode.DataFrame{}
					for k, v := range sMeta.Store {
						store[k] = v
					}
					for k, v := range sTx.Store {
						store[k] = v
					}
					getter := func(ctx context.Context, c cid.Cid) (*ipldbindcode.DataFrame, error) {
						if f, ok := store[c]; ok {
							return f, nil
						}
						return nil, c14gen.ErrMissing
					}
					node := &ipldbindcode.Transaction{Kind: 0, Data: *sTx.First, Metadata: *sMeta.First, Slot: 9, Index: c14gen.PInt(0)}
					faulty := sTx
					if which == "meta" {
						faulty = sMeta
					}
					key := fmt.Sprintf("%s/%s/%s/%d/%d", cfgKey, which, faulty.Kind, faulty.J, faulty.I)
					rep.Case(key, nf >= 2)
					rep.Count("fault=" + faulty.Kind)
					replay := map[string]interface{}{"seed": vh.Seed(), "config": cfgKey, "payload": which, "fault": faulty.Kind, "frame": faulty.J, "other_frame": faulty.I}
					// (1) raw bytes
					var gotTx, gotMeta []byte
					var gerr error
					pan := ""
					func() {
						defer func() {
							if r := recover(); r != nil {
								pan = fmt.Sprint(r)
							}
						}()
						gotTx, gotMeta, gerr = getTransactionAndMetaFromNode(node, getter)
					}()
					if pan != "" {
						rep.Fail("panic", "getTransactionAndMetaFromNode panicked: "+pan, replay)
						return
					}
					same := gerr == nil && bytes.Equal(gotTx, txb) && bytes.Equal(gotMeta, mb)
					if gerr != nil {
						rep.Count("result=error")
					} else if same {
						rep.Count("result=ok")
					}
					if faulty.Kind == "none" {
						if gerr != nil {
							rep.Fail("storage-roundtrip-error", "intact frames rejected: "+gerr.Error(), replay)
						} else if !same {
							rep.Fail("storage-roundtrip-wrong-bytes", "intact frames: transaction or metadata bytes differ from what was written", replay)
						}
					} else if gerr == nil && !same {
						rep.Fail("fault-accepted-different-bytes:"+faulty.Kind, fmt.Sprintf("getTransactionAndMetaFromNode: fault %s on frame %d of the %s payload: no error, other bytes returned", faulty.Kind, faulty.J, which), replay)
					}
					if coqBudget > 0 && nf <= 10 && ls <= 30 && (gerr == nil) == same && (faulty.Kind == "none" || rng.Intn(20) == 0) {
						coqBudget--
						fp, fo2 := pTx, oTx
						if which == "meta" {
							fp, fo2 = pMeta, oMeta
						}
						var data []byte
						if same {
							data = fp.Data
						}
						cases.Add(c14gen.CoqLoadCase(faulty, c14gen.NewNumbering(fp, fo2), rng, data, gerr))
						rep.Count("coq-load-cases")
					}
					// (2) parsed
					var ptx solana.Transaction
					var pmeta any
					var perr error
					func() {
						defer func() {
							if r := recover(); r != nil {
								pan = fmt.Sprint(r)
							}
						}()
						ptx, pmeta, perr = parseTransactionAndMetaFromNode(node, getter)
					}()
					if pan != "" {
						rep.Fail("panic", "parseTransactionAndMetaFromNode panicked: "+pan, replay)
						return
					}
					psame := perr == nil && len(ptx.Signatures) == 1 && ptx.Signatures[0] == sig
					if psame {
						m, ok := pmeta.(*confirmed_block.TransactionStatusMeta)
						psame = ok && len(m.LogMessages) == 1 && m.LogMessages[0] == line
					}
					if faulty.Kind == "none" && !psame {
						rep.Fail("storage-parse-roundtrip", fmt.Sprintf("intact frames: parseTransactionAndMetaFromNode err=%v or content differs", perr), replay)
					} else if faulty.Kind != "none" && (perr == nil) != (gerr == nil) {
						rep.Fail("storage-parse-disagrees", fmt.Sprintf("parse err=%v but raw err=%v", perr, gerr), replay)
					} else if faulty.Kind != "none" && perr == nil && !psame {
						rep.Fail("fault-accepted-different-bytes:"+faulty.Kind, fmt.Sprintf("parseTransactionAndMetaFromNode: fault %s on frame %d of the %s payload: no error, other content returned", faulty.Kind, faulty.J, which), replay)
					}
				}
				bTx, bMeta := c14gen.NewScenario(pTx, oTx), c14gen.NewScenario(pMeta, oMeta)
				one(bTx, bMeta, "tx")
				one(c14gen.PermuteLinks(rng, bTx), c14gen.PermuteLinks(rng, bMeta), "meta")
				for j := 0; j < nf; j++ {
					for _, k := range c14gen.FaultKinds {
						if s := c14gen.ApplyFault(rng, bTx, oTx, k, j); s != nil {
							if s.Cyclic {
								rep.Count("cyclic-not-run-here") // covered by the tooling and accum harnesses (child processes)
							} else {
								one(s, bMeta, "tx")
							}
						}
						if s := c14gen.ApplyFault(rng, bMeta, oMeta, k, j); s != nil {
							if s.Cyclic {
								rep.Count("cyclic-not-run-here")
							} else {
								one(bTx, s, "meta")
							}
						}
					}
				}
			}
		}
	}
	rep.Sample(map[string]interface{}{"entry": "getTransactionAndMetaFromNode, parseTransactionAndMetaFromNode", "observable": "transaction bytes, uncompressed metadata bytes; first signature and LogMessages[0]"})
	if err := cases.Write(); err != nil {
		t.Fatal(err)
	}
	rep.CasesWritten(cases)
	if err := rep.Write(); err != nil {
		t.Fatal(err)
	}
}
