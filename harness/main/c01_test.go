package main

// Verification harness for C01 (injected with `go test -overlay`; uses fixture_test.go).
// Generates epochs with different layouts, runs the repository's own createAllIndexes (child process),
// then reads every object / slot / signature back (a) through the index readers and (b) through a
// loaded Epoch, from a local file and through a ReaderAt (HTTP on loopback), and compares with the
// generator's ground truth. The recorded offsets, the value codec and the block-time file format are
// written as Coq cases for the model.
// The slices a fetch returns are kept (not copied) and compared again after later fetches - sequentially for every
// object and from four goroutines fetching at the same time (vc01Held, vc01HeldConcurrent): "the bytes returned are
// exactly that object's bytes" is about the returned value, which must not change under the caller
// (signature returned-bytes-changed-after-later-fetch:<file|readerat-eof|readerat>).

import (
	"bytes"
	"context"
	"fmt"
	"io"
	"net"
	"net/http"
	"os"
	"path/filepath"
	"runtime"
	"strings"
	"sync"
	"testing"

	"github.com/gagliardetto/solana-go"
	"github.com/rpcpool/yellowstone-faithful/blocktimeindex"
	"github.com/rpcpool/yellowstone-faithful/bucketteer"
	"github.com/rpcpool/yellowstone-faithful/indexes"
	"github.com/rpcpool/yellowstone-faithful/zzverif/vh"
)

func vc01Specs() []vfxSpec {
	seed := vh.Seed()
	a := vfxDefaultSpec("c01a", 0+7, seed)
	a.NumSlots, a.MaxTx, a.BigObjects, a.Boundary, a.ZeroTimes, a.MultiSig = 60, 3, true, true, true, true
	b := vfxDefaultSpec("c01b", 123, seed+1)
	b.NumSlots, b.FrameSize, b.FanOut, b.LongHeader, b.Rewards, b.FirstRel = 50, 70, 3, true, true, 1000
	b.EdgeTimes, b.ShuffleNext, b.ShortSigs = true, true, true
	c := vfxDefaultSpec("c01c", 1, seed+2)
	c.NumSlots, c.SkipPercent, c.MaxEntries, c.MaxTx, c.FirstRel = 30, 50, 1, 1, vfxEpochLen-30
	specs := []vfxSpec{a, b, c}
	// one large epoch: tens of thousands of transactions in few blocks, so that the cid-to-offset-and-size and the
	// sig-to-cid index both have several buckets near the 10 000-entries target (real 24-bit hash collisions occur
	// while their buckets are mined) and are sealed at the same time by createAllIndexes
	if n := vc01BigSlots(); n > 0 {
		big := vfxDefaultSpec(vc01BigName, 11, seed+5)
		big.NumSlots, big.SkipPercent, big.MaxEntries, big.MaxTx = n, 0, 8, 50
		specs = append(specs, big)
	}
	if vh.Thorough() {
		d := vfxDefaultSpec("c01d", 5, seed+3) // > 10 000 transactions and objects: more than one bucket per index
		d.NumSlots, d.SkipPercent, d.MaxEntries, d.MaxTx = 4200, 5, 2, 4
		e := vfxDefaultSpec("c01e", 9, seed+4) // > 20 000 objects
		e.NumSlots, e.SkipPercent, e.MaxEntries, e.MaxTx, e.FrameSize, e.FanOut = 6000, 10, 2, 5, 80, 5
		specs = append(specs, d, e)
	}
	return specs
}

const vc01BigName = "c01big"
const vc01BigStride = 41

// vc01BigSlots: number of blocks of the large epoch (about 112 transactions per block); VERIF_C01_BIG_SLOTS overrides
// it (0 = no large epoch).
func vc01BigSlots() int {
	n := 400
	if vh.Thorough() {
		n = 800
	}
	if v := os.Getenv("VERIF_C01_BIG_SLOTS"); v != "" {
		fmt.Sscan(v, &n)
	}
	return n
}

func TestVerif_C01(t *testing.T) {
	rep := vh.NewReport("C01", "indexall",
		"generated epochs (layout knobs: skipped slots, entries/txs per block, 1/2/3-byte section varints, multi-frame payloads, header length, rewards, epoch number; one large epoch of several hundred blocks with up to 400 transactions each, i.e. tens of thousands of objects and signatures and several index buckets near the 10 000-entries target); every object/slot/signature read back through index readers and a loaded Epoch (local file and HTTP ReaderAt); a case = one lookup; non-trivial = lookups of distinct keys")
	cases := vh.NewCases("cases_c01", []string{"YF.C01_IndexAll", "YF.C01_Check"}, "case", "check")
	specs := vc01Specs()
	truths, err := vfxBuild(specs)
	if err != nil {
		t.Fatalf("setup failed: %v", err)
	}
	// loopback HTTP server for the ReaderAt path
	ln, lerr := net.Listen("tcp", "127.0.0.1:0")
	var srv *http.Server
	if lerr == nil {
		srv = &http.Server{Handler: http.FileServer(http.Dir(vh.OutDir()))}
		go srv.Serve(ln)
		defer srv.Close()
	} else {
		rep.Note("loopback listen failed (%v): ReaderAt path not exercised", lerr)
	}
	for _, tr := range truths {
		vc01OneEpoch(t, rep, cases, tr, ln)
	}
	vc01CodecCases(rep, cases)
	vc01BlocktimeCases(rep, cases)
	if err := cases.Write(); err != nil {
		t.Fatal(err)
	}
	rep.CasesWritten(cases)
	if err := rep.Write(); err != nil {
		t.Fatal(err)
	}
	for _, tr := range truths {
		os.RemoveAll(tr.Spec.Dir)
	}
}

func vc01OneEpoch(t *testing.T, rep *vh.Report, cases *vh.CasesFile, tr *vfxTruth, ln net.Listener) {
	name := tr.Spec.Name
	replay := map[string]interface{}{"spec": tr.Spec}
	if tr.BuildErr != "" {
		rep.Fail("index-all-failed-on-wellformed-car", tr.BuildErr, replay)
		return
	}
	car, err := os.ReadFile(tr.CarPath)
	if err != nil {
		t.Fatal(err)
	}
	rep.Count(fmt.Sprintf("epoch:%s objects=%d blocks=%d hdr=%d", name, len(tr.Objects), len(tr.Blocks), tr.HeaderLen))
	varint := map[int]int{}
	// ---- (a) index readers
	c2o, err := indexes.Open_CidToOffsetAndSize(tr.Paths.CidToOffsetAndSize)
	if err != nil {
		rep.Fail("open-index-failed", "cid_to_offset_and_size: "+err.Error(), replay)
		return
	}
	defer c2o.Close()
	s2c, err := indexes.Open_SlotToCid(tr.Paths.SlotToCid)
	if err != nil {
		rep.Fail("open-index-failed", "slot_to_cid: "+err.Error(), replay)
		return
	}
	defer s2c.Close()
	g2c, err := indexes.Open_SigToCid(tr.Paths.SignatureToCid)
	if err != nil {
		rep.Fail("open-index-failed", "sig_to_cid: "+err.Error(), replay)
		return
	}
	defer g2c.Close()
	sx, err := bucketteer.Open(tr.Paths.SignatureExists)
	if err != nil {
		rep.Fail("open-index-failed", "sig_exists: "+err.Error(), replay)
		return
	}
	defer sx.Close()
	bti, err := blocktimeindex.FromFile(tr.Paths.SlotToBlocktime)
	if err != nil {
		rep.Fail("open-index-failed", "slot_to_blocktime: "+err.Error(), replay)
		return
	}
	var sizes, observed []string
	for i, o := range tr.Objects {
		c := vfxCidFromHex(o.Cid)
		oas, err := c2o.Get(c)
		rep.Case(name+"/cid/"+o.Cid, true)
		dataLen := vc01DataLen(car, o)
		vl := int(o.SecLen - uint64(o.CidLen) - dataLen)
		varint[vl]++
		sizes = append(sizes, fmt.Sprintf("(%d, %d)%%N", o.CidLen, dataLen))
		if err != nil {
			rep.Fail("object-not-in-index", fmt.Sprintf("%s object #%d cid=%s: %v", name, i, c, err), replay)
			observed = append(observed, "(0, 0)%N")
			continue
		}
		observed = append(observed, fmt.Sprintf("(%d, %d)%%N", oas.Offset, oas.Size))
		if oas.Offset != o.Offset || oas.Size != o.SecLen {
			rep.Fail("wrong-offset-or-size", fmt.Sprintf("%s object #%d: index says (%d,%d), generator put it at (%d,%d)", name, i, oas.Offset, oas.Size, o.Offset, o.SecLen), replay)
		}
	}
	for k, v := range varint {
		rep.CountN(fmt.Sprintf("section-varint-width=%d", k), v)
	}
	// Coq case: the recorded offsets must be the model's running offsets (only for epochs small enough for vm_compute)
	if len(sizes) <= 1500 {
		cases.Add(fmt.Sprintf("COffsets %d%%N %s %s", tr.HeaderLen, vh.CoqList(sizes), vh.CoqList(observed)))
	}
	for _, b := range tr.Blocks {
		rep.Case(fmt.Sprintf("%s/slot/%d", name, b.Slot), true)
		c, err := s2c.Get(b.Slot)
		if err != nil || !c.Equals(vfxCidFromHex(b.Cid)) {
			rep.Fail("slot-does-not-resolve", fmt.Sprintf("%s slot %d: got %v err=%v", name, b.Slot, c, err), replay)
		}
		bt, err := bti.Get(b.Slot)
		if err != nil || bt != b.Blocktime {
			rep.Fail("blocktime-wrong", fmt.Sprintf("%s slot %d: got %d err=%v want %d", name, b.Slot, bt, err, b.Blocktime), replay)
		}
		for _, tx := range b.Txs {
			rep.Case(name+"/sig/"+tx.Sig, true)
			sig := solana.MustSignatureFromBase58(tx.Sig)
			c, err := g2c.Get(sig)
			if err != nil || !c.Equals(vfxCidFromHex(tx.Cid)) {
				rep.Fail("signature-does-not-resolve", fmt.Sprintf("%s sig %s: got %v err=%v", name, tx.Sig, c, err), replay)
			}
			has, err := sx.Has(sig)
			if err != nil || !has {
				rep.Fail("signature-not-reported-existing", fmt.Sprintf("%s sig %s: has=%v err=%v", name, tx.Sig, has, err), replay)
			}
		}
	}
	// ---- (b) loaded Epoch: local file, then HTTP ReaderAt
	// "readerat-eof": the CAR served from memory through an io.ReaderAt that reports io.EOF together with the
	// complete read when a read ends exactly at the end of the data (legal for io.ReaderAt): the last object too
	// must be fetched
	modes := []string{"file", "readerat-eof"}
	if ln != nil {
		modes = append(modes, "readerat")
	}
	for _, mode := range modes {
		cfgPath := tr.ConfigYml
		if mode == "readerat" {
			rel, _ := filepath.Rel(vh.OutDir(), tr.CarPath)
			uri := fmt.Sprintf("http://%s/%s", ln.Addr().String(), filepath.ToSlash(rel))
			cfgPath = filepath.Join(tr.Spec.Dir, "epoch-http.yml")
			_ = os.WriteFile(cfgPath, []byte(vfxConfigYaml(tr, uri)), 0o644)
		}
		ep, err := vfxLoadConfigFile(cfgPath, vfxNewCache())
		if err != nil {
			if mode == "readerat" && strings.Contains(err.Error(), "connect") {
				rep.Note("ReaderAt path not exercised: %v", err)
				continue
			}
			rep.Fail("epoch-load-failed:"+mode, fmt.Sprintf("%s: %v", name, err), replay)
			continue
		}
		if mode == "readerat-eof" {
			ep.localCarReader = nil // stays registered in onClose
			ep.remoteCarReader = &vc01EOFReader{b: car}
		}
		rep.Count("epoch-loaded:" + mode)
		if ep.carHeaderSize != tr.HeaderLen {
			rep.Fail("wrong-header-size:"+mode, fmt.Sprintf("%s: server believes data starts at %d, header is %d bytes", name, ep.carHeaderSize, tr.HeaderLen), replay)
		}
		ctx := context.Background()
		// the large epoch: every key through the index readers above and through the Epoch over the local file; over
		// HTTP (one range request per object) and for the second fetch every stride-th key only
		stride := 1
		if name == vc01BigName && (mode == "readerat") {
			stride = vc01BigStride
		}
		// The slices returned by the fetches are KEPT (not copied): "the bytes returned are exactly that object's bytes"
		// is a statement about the returned value, so it must still hold after later fetches. Each result is compared at
		// once, the previous result again after the next fetch, everything held so far eight times on the way and once
		// more after the last fetch (and after the second round of fetches below).
		held := &vc01Held{car: car, tr: tr}
		every := len(tr.Objects)/stride/8 + 1
		for i, o := range tr.Objects {
			if i%stride != 0 {
				continue
			}
			rep.Case(name+"/"+mode+"/cid/"+o.Cid, false)
			want := car[o.Offset+o.SecLen-vc01DataLen(car, o) : o.Offset+o.SecLen]
			got, err := ep.GetNodeByCid(ctx, vfxCidFromHex(o.Cid))
			if err != nil {
				rep.Fail("object-not-fetched:"+mode, fmt.Sprintf("%s object #%d: %v", name, i, err), replay)
			} else if !bytes.Equal(got, want) {
				rep.Fail("object-bytes-differ:"+mode, fmt.Sprintf("%s object #%d: got %d bytes, want %d", name, i, len(got), len(want)), replay)
			} else {
				held.recheckLast("after the next fetch")
				held.add(i, got)
				if len(held.items)%every == 0 {
					held.recheckAll(fmt.Sprintf("after %d fetches", len(held.items)))
				}
			}
		}
		held.recheckAll("after the last fetch of the first round")
		for bi, b := range tr.Blocks {
			if bi%stride != 0 {
				continue
			}
			c, err := ep.FindCidFromSlot(ctx, b.Slot)
			if err != nil || !c.Equals(vfxCidFromHex(b.Cid)) {
				rep.Fail("slot-does-not-resolve:"+mode, fmt.Sprintf("%s slot %d: %v", name, b.Slot, err), replay)
			}
			bt, err := ep.GetBlocktime(b.Slot)
			if err != nil || bt != b.Blocktime {
				rep.Fail("blocktime-wrong:"+mode, fmt.Sprintf("%s slot %d: got %d want %d err=%v", name, b.Slot, bt, b.Blocktime, err), replay)
			}
			for _, tx := range b.Txs {
				sig := solana.MustSignatureFromBase58(tx.Sig)
				c, err := ep.FindCidFromSignature(ctx, sig)
				if err != nil || !c.Equals(vfxCidFromHex(tx.Cid)) {
					rep.Fail("signature-does-not-resolve:"+mode, fmt.Sprintf("%s sig %s: %v", name, tx.Sig, err), replay)
				}
				has, err := ep.sigExists.Has(sig)
				if err != nil || !has {
					rep.Fail("signature-not-reported-existing:"+mode, fmt.Sprintf("%s sig %s", name, tx.Sig), replay)
				}
			}
		}
		// every object a second time through the same Epoch: the caches in front of the index and the CAR (offset
		// and size, raw object) must not change what a fetch returns
		if name == vc01BigName {
			stride = vc01BigStride
		}
		for i, o := range tr.Objects {
			if i%stride != 0 {
				continue
			}
			want := car[o.Offset+o.SecLen-vc01DataLen(car, o) : o.Offset+o.SecLen]
			got, err := ep.GetNodeByCid(ctx, vfxCidFromHex(o.Cid))
			if err != nil {
				rep.Fail("object-not-fetched-again:"+mode, fmt.Sprintf("%s object #%d (second fetch): %v", name, i, err), replay)
			} else if !bytes.Equal(got, want) {
				rep.Fail("object-bytes-differ-on-second-fetch:"+mode, fmt.Sprintf("%s object #%d: got %d bytes, want %d", name, i, len(got), len(want)), replay)
			} else {
				held.recheckLast("after the next fetch (second round)")
				held.add(i, got)
			}
			rep.Count("second-fetch:" + mode)
		}
		held.recheckAll("after the last fetch of the second round")
		rep.CountN("returned-slices-held-and-rechecked:"+mode, len(held.items))
		// several goroutines fetch different objects (by CID and by the recorded offset and size) and keep what they got
		concStride := 1
		if name == vc01BigName && mode == "readerat" {
			concStride = vc01BigStride // one HTTP range request per object
		}
		conc := vc01HeldConcurrent(ep, tr, car, concStride)
		rep.CountN("returned-slices-held-and-rechecked:concurrent:"+mode, conc.fetched)
		for _, e := range conc.errs {
			rep.Fail("object-not-fetched:concurrent:"+mode, name+" "+e, replay)
		}
		if held.nChanged > 0 || conc.nChanged > 0 {
			rep.CountN("held-slices-found-changed:sequential:"+mode, held.nChanged)
			rep.CountN("held-slices-found-changed:concurrent:"+mode, conc.nChanged)
		}
		held.changed = append(held.changed, conc.changed...)
		held.nChanged += conc.nChanged
		if held.nChanged > 0 {
			n := len(held.changed)
			if n > 4 {
				n = 4
			}
			rep.Fail("returned-bytes-changed-after-later-fetch:"+mode,
				fmt.Sprintf("%s: %d re-checks of slices returned by Epoch.GetNodeByCid / GetNodeByOffsetAndSize found them no longer equal to the archived bytes of the object they were returned for (they were equal when returned); first: %s",
					name, held.nChanged, strings.Join(held.changed[:n], " | ")), replay)
		}
		ep.Close()
	}
	if len(rep.Samples) < 3 && len(tr.Objects) > 3 {
		rep.Sample(map[string]interface{}{"epoch": tr.Spec.Epoch, "header_len": tr.HeaderLen, "objects": len(tr.Objects), "blocks": len(tr.Blocks),
			"first_objects": tr.Objects[:3], "spec": tr.Spec})
	}
}

// ---------------------------------------------------------------- returned slices are kept and looked at again

type vc01HeldItem struct {
	idx int // index into tr.Objects
	got []byte
}

// vc01Held keeps the slices a fetch returned (the slices themselves, no copies) and compares them again later with the
// archived bytes of the object they were returned for.
type vc01Held struct {
	car      []byte
	tr       *vfxTruth
	items    []vc01HeldItem
	bad      map[int]bool // positions in items already reported
	changed  []string     // the first few findings
	nChanged int
}

func (h *vc01Held) add(idx int, got []byte) { h.items = append(h.items, vc01HeldItem{idx, got}) }

func (h *vc01Held) check(pos int, when string) {
	it := h.items[pos]
	o := h.tr.Objects[it.idx]
	want := h.car[o.Offset+o.SecLen-vc01DataLen(h.car, o) : o.Offset+o.SecLen]
	if bytes.Equal(it.got, want) || h.bad[pos] {
		return
	}
	if h.bad == nil {
		h.bad = map[int]bool{}
	}
	h.bad[pos] = true
	h.nChanged++
	if len(h.changed) < 8 {
		h.changed = append(h.changed, fmt.Sprintf("object #%d (cid %s, %d bytes at offset %d) %s: %s", it.idx, vfxCidFromHex(o.Cid), len(want), o.Offset, when, vc01DescribeBytes(h.car, h.tr, it.got)))
	}
}

func (h *vc01Held) recheckLast(when string) {
	if n := len(h.items); n > 0 {
		h.check(n-1, when)
	}
}

func (h *vc01Held) recheckAll(when string) {
	for pos := range h.items {
		h.check(pos, when)
	}
}

// vc01DescribeBytes says what a changed slice holds now, as far as that is easy to tell (a piece of another section).
func vc01DescribeBytes(car []byte, tr *vfxTruth, got []byte) string {
	n := len(got)
	if n > 24 {
		n = 24
	}
	if n >= 8 {
		if at := bytes.Index(car, got[:n]); at >= 0 {
			for j, o := range tr.Objects {
				if uint64(at) >= o.Offset && uint64(at) < o.Offset+o.SecLen {
					return fmt.Sprintf("the slice now starts with bytes of the section of object #%d (CAR offset %d)", j, at)
				}
			}
		}
	}
	return fmt.Sprintf("the slice now starts with %x", got[:n])
}

type vc01ConcResult struct {
	fetched  int
	nChanged int
	changed  []string
	errs     []string
}

// vc01HeldConcurrent: four goroutines fetch different objects of the epoch through the same Epoch (alternately by CID and
// by the recorded offset and size, as the address-index fetcher does), compare each result at once, keep the returned
// slices and look at the ones they hold again after further fetches (their own and the other goroutines') and after
// yielding the processor; everything is compared once more when all goroutines are done. Bytes that were right when they
// were returned must stay right: nothing here depends on the schedule for its verdict.
func vc01HeldConcurrent(ep *Epoch, tr *vfxTruth, car []byte, stride int) vc01ConcResult {
	const workers = 4
	ctx := context.Background()
	var sel []int
	for i := range tr.Objects {
		if i%stride == 0 {
			sel = append(sel, i)
		}
	}
	if len(sel) > 6000 { // the large epoch: an evenly spread sample
		step := len(sel)/6000 + 1
		var s2 []int
		for k := 0; k < len(sel); k += step {
			s2 = append(s2, sel[k])
		}
		sel = s2
	}
	helds := make([]*vc01Held, workers)
	errs := make([][]string, workers)
	start := make(chan struct{})
	var wg sync.WaitGroup
	for w := 0; w < workers; w++ {
		w := w
		helds[w] = &vc01Held{car: car, tr: tr}
		wg.Add(1)
		go func() {
			defer wg.Done()
			defer func() {
				if r := recover(); r != nil {
					errs[w] = append(errs[w], fmt.Sprintf("PANIC in a concurrent fetch: %v", r))
				}
			}()
			h := helds[w]
			<-start
			for k := w; k < len(sel); k += workers {
				i := sel[k]
				o := tr.Objects[i]
				c := vfxCidFromHex(o.Cid)
				want := car[o.Offset+o.SecLen-vc01DataLen(car, o) : o.Offset+o.SecLen]
				var got []byte
				var err error
				switch (k / workers) % 3 {
				case 0:
					got, err = ep.GetNodeByCid(ctx, c)
				case 1:
					got, err = ep.GetNodeByOffsetAndSize(ctx, &c, &indexes.OffsetAndSize{Offset: o.Offset, Size: o.SecLen})
				default:
					got, err = ep.GetNodeByOffsetAndSize(ctx, nil, &indexes.OffsetAndSize{Offset: o.Offset, Size: o.SecLen})
				}
				if err != nil {
					if len(errs[w]) < 3 {
						errs[w] = append(errs[w], fmt.Sprintf("object #%d: %v", i, err))
					}
					continue
				}
				if !bytes.Equal(got, want) {
					if len(errs[w]) < 3 {
						errs[w] = append(errs[w], fmt.Sprintf("object #%d: got %d bytes that differ from the %d archived ones", i, len(got), len(want)))
					}
					continue
				}
				h.add(i, got)
				runtime.Gosched()
				if n := len(h.items); n%3 == 0 {
					for pos := n - 9; pos < n; pos++ {
						if pos >= 0 {
							h.check(pos, "while other goroutines were fetching")
						}
					}
				}
			}
		}()
	}
	close(start)
	wg.Wait()
	var res vc01ConcResult
	for w, h := range helds {
		h.recheckAll("after all goroutines had finished")
		res.fetched += len(h.items)
		res.nChanged += h.nChanged
		res.changed = append(res.changed, h.changed...)
		res.errs = append(res.errs, errs[w]...)
	}
	return res
}

// vc01EOFReader: a conforming io.ReaderAt over a byte slice that returns io.EOF TOGETHER with a complete read whenever
// the read ends exactly at the end of the data.
type vc01EOFReader struct{ b []byte }

func (r *vc01EOFReader) ReadAt(p []byte, off int64) (int, error) {
	if off < 0 || off > int64(len(r.b)) {
		return 0, io.EOF
	}
	n := copy(p, r.b[off:])
	if n < len(p) || int(off)+n == len(r.b) {
		return n, io.EOF
	}
	return n, nil
}
func (r *vc01EOFReader) Close() error { return nil }

// vc01DataLen: payload length of an object = section - varint prefix - cid, computed from the CAR bytes themselves.
func vc01DataLen(car []byte, o vfxObj) uint64 {
	// varint prefix width
	w := uint64(0)
	for i := o.Offset; ; i++ {
		w++
		if car[i] < 0x80 {
			break
		}
	}
	return o.SecLen - w - uint64(o.CidLen)
}

func vc01CodecCases(rep *vh.Report, cases *vh.CasesFile) {
	rng := vh.NewRng(vh.Seed() + 99)
	vals := [][2]uint64{{0, 0}, {1, 1}, {255, 256}, {1<<48 - 1, 1<<24 - 1}, {1 << 48, 5}, {5, 1 << 24}, {1<<48 - 1, 1 << 24}, {1 << 63, 1}}
	for i := 0; i < 60; i++ {
		vals = append(vals, [2]uint64{rng.U64() >> uint(16+rng.Intn(48)), rng.U64() >> uint(40+rng.Intn(24))})
	}
	for _, v := range vals {
		rep.Case(fmt.Sprintf("codec/%d/%d", v[0], v[1]), true)
		valid := (&indexes.OffsetAndSize{Offset: v[0], Size: v[1]}).IsValid()
		obs := "None"
		if valid {
			b := indexes.OffsetAndSize{Offset: v[0], Size: v[1]}.Bytes()
			obs = "(Some " + vh.CoqBytes(b) + ")"
			var back indexes.OffsetAndSize
			if err := back.FromBytes(b); err != nil || back.Offset != v[0] || back.Size != v[1] {
				rep.Fail("offset-size-codec-roundtrip", fmt.Sprintf("(%d,%d) -> %x -> (%d,%d) err=%v", v[0], v[1], b, back.Offset, back.Size, err), v)
			}
			rep.Count("codec:valid")
		} else {
			rep.Count("codec:rejected")
		}
		cases.Add(fmt.Sprintf("CCodec %d%%N %d%%N %s", v[0], v[1], obs))
	}
}

func vc01BlocktimeCases(rep *vh.Report, cases *vh.CasesFile) {
	rng := vh.NewRng(vh.Seed() + 7)
	for i := 0; i < 12; i++ {
		epoch := uint64(rng.Intn(900))
		start := epoch*vfxEpochLen + uint64(rng.Intn(1000))
		cap := 1 + rng.Intn(12)
		end := start + uint64(cap) - 1
		idx := func() (ix *blocktimeindex.Index) {
			defer func() { recover() }()
			return blocktimeindex.NewIndexer(start, end, uint64(cap))
		}()
		if idx == nil {
			continue
		}
		var sets []string
		ok := true
		for k := 0; k < 1+rng.Intn(6); k++ {
			slot := start + uint64(rng.Intn(cap))
			if rng.Intn(8) == 0 {
				slot = start + uint64(cap) + uint64(rng.Intn(3)) // out of range: Set must return an error
			}
			tm := int64(rng.U64() >> uint(33+rng.Intn(20)))
			var err error
			func() {
				defer func() {
					if r := recover(); r != nil {
						err = fmt.Errorf("panic: %v", r)
						rep.Fail("blocktime-set-panic", fmt.Sprintf("Set(%d) on [%d,%d] cap %d: %v", slot, start, end, cap, r), nil)
					}
				}()
				err = idx.Set(slot, tm)
			}()
			if err != nil {
				ok = false
				// the model stops at the first failing Set as well
				sets = append(sets, fmt.Sprintf("(%d, %d)%%N", slot, tm))
				break
			}
			sets = append(sets, fmt.Sprintf("(%d, %d)%%N", slot, tm))
		}
		obs := "None"
		if ok {
			b, err := idx.MarshalBinary()
			if err == nil {
				obs = "(Some " + vh.CoqBytes(b) + ")"
				// read back through the real reader and compare Get for one slot, also as a model case
				back, err := blocktimeindex.FromBytes(b)
				if err != nil {
					rep.Fail("blocktime-file-unreadable", err.Error(), nil)
				} else {
					q := start + uint64(rng.Intn(cap))
					v, gerr := back.Get(q)
					o := "None"
					if gerr == nil {
						o = fmt.Sprintf("(Some %d%%N)", v)
					}
					cases.Add(fmt.Sprintf("CBlocktimeGet %s %d%%N %s", vh.CoqBytes(b), q, o))
				}
			}
		}
		rep.Case(fmt.Sprintf("blocktime/%d/%d/%d", start, end, cap), true)
		cases.Add(fmt.Sprintf("CBlocktime %d%%N %d%%N %d%%N %d%%nat %s %s", start, end, epoch, cap, vh.CoqList(sets), obs))
		rep.Count("blocktime:format-case")
	}
}
