package main

// Verification harness for C03, "what a fetch by CID returned stays the bytes stored under that CID" (called from
// TestVerif_C03; uses fixture_test.go and the ReaderAt of c03conc_test.go).
//
// The epoch used here (vc03LargeSpec) holds objects of very different sizes: block nodes with up to 800 entries (tens of
// KiB), transactions with instruction data of 17..20 KiB, Rewards nodes of about 15..300 KiB, next to thousands of small
// entries and transactions. "Fetching an object by CID never returns bytes stored under a different CID" is a statement
// about the value handed to the caller, so the slices returned by Epoch.GetNodeByCid / GetNodeByOffsetAndSize are KEPT
// (no copies) and re-hashed later: right after the return, after the next fetch, the last 96 after every 48 fetches and all after the
// last one, in three fetch orders (random, largest first, CAR order); and by several goroutines that fetch large objects
// at the same time and re-hash what they hold after their own next fetch, after yielding the processor and at the end.
// The oracle is the CID itself: every archived object's CID is dag-cbor / sha2-256 of its bytes, so the bytes a caller
// holds for CID X must hash to X at any later time. Nothing depends on the schedule for the verdict (bytes that were
// returned never change on a tree where the property holds).
//
// Failure signatures: bytes-of-another-cid:held-across-later-fetch:<local|readerat>,
// bytes-of-another-cid:concurrent-large-fetches:<local|readerat>, stored-cid-not-fetched:<local|readerat>.

import (
	"context"
	"fmt"
	"runtime"
	"sort"
	"strings"
	"sync"

	"github.com/ipfs/go-cid"
	"github.com/rpcpool/yellowstone-faithful/indexes"
	"github.com/rpcpool/yellowstone-faithful/zzverif/vh"
)

// vc03LargeSpec: few blocks, many entries per block (block nodes of up to ~33 KiB), large transactions and large,
// differently sized Rewards nodes. More than 10 000 objects, i.e. a cid-to-offset-and-size index with two buckets.
func vc03LargeSpec(seed uint64) vfxSpec {
	lg := vfxDefaultSpec("c03lg", 5, seed+11)
	lg.NumSlots, lg.SkipPercent, lg.MaxEntries, lg.MaxTx, lg.BigObjects, lg.OddRewards, lg.BigRewards = 22, 10, 800, 1, true, true, 6000
	return lg
}

type vc03HeldObj struct {
	c      cid.Cid
	offset uint64
	secLen uint64
}

type vc03HeldItem struct {
	obj int // index into the object list
	got []byte
}

// vc03Holder keeps returned slices and re-hashes them.
type vc03Holder struct {
	objs    []vc03HeldObj
	byCid   map[string]int
	items   []vc03HeldItem
	bad     map[int]bool
	found   []string
	nBad    int
	rehashN int
}

func (h *vc03Holder) add(obj int, got []byte) { h.items = append(h.items, vc03HeldItem{obj, got}) }

func (h *vc03Holder) check(pos int, when string) {
	if h.bad[pos] {
		return
	}
	it := h.items[pos]
	want := h.objs[it.obj].c
	h.rehashN++
	now := vfxMkCid(it.got, false)
	if now.Equals(want) {
		return
	}
	if h.bad == nil {
		h.bad = map[int]bool{}
	}
	h.bad[pos] = true
	h.nBad++
	if len(h.found) < 6 {
		what := "bytes that are stored under no CID of the epoch (a mixture)"
		if j, ok := h.byCid[now.KeyString()]; ok {
			what = fmt.Sprintf("exactly the bytes stored under %s (section of %d bytes at offset %d)", now, h.objs[j].secLen, h.objs[j].offset)
		}
		h.found = append(h.found, fmt.Sprintf("the %d bytes returned for %s (section of %d bytes at offset %d), which hashed to the requested CID when they were returned, were looked at again %s and are now %s",
			len(it.got), want, h.objs[it.obj].secLen, h.objs[it.obj].offset, when, what))
	}
}

func (h *vc03Holder) checkAll(when string) {
	for pos := range h.items {
		h.check(pos, when)
	}
}

func vc03SizeClass(n uint64) string {
	switch {
	case n < 1<<10:
		return "<1KiB"
	case n < 16<<10:
		return "1..16KiB"
	case n < 64<<10:
		return "16..64KiB"
	case n < 256<<10:
		return "64..256KiB"
	default:
		return ">=256KiB"
	}
}

func vc03HeldLarge(rep *vh.Report, tr *vfxTruth, seed uint64) {
	if tr == nil {
		rep.Note("held-bytes part skipped: the large-object epoch was not built")
		return
	}
	if tr.BuildErr != "" {
		// a seed of the harness that does not build on the tree under test: the other parts go on
		rep.Note("held-bytes part skipped: the large-object epoch does not build on this tree: %s", tr.BuildErr)
		return
	}
	ctx := context.Background()
	objs := make([]vc03HeldObj, len(tr.Objects))
	byCid := map[string]int{}
	var large, small []int
	for i, o := range tr.Objects {
		c := vfxCidFromHex(o.Cid)
		objs[i] = vc03HeldObj{c, o.Offset, o.SecLen}
		byCid[c.KeyString()] = i
		rep.Count("large-object epoch: section size " + vc03SizeClass(o.SecLen))
		if o.SecLen >= 8<<10 {
			large = append(large, i)
		} else {
			small = append(small, i)
		}
	}
	rep.CountN("large-object epoch: objects", len(objs))
	if len(large) < 8 {
		rep.Note("held-bytes part: the generated epoch has only %d objects of 8 KiB or more", len(large))
	}
	rng := vh.NewRng(seed + 0x4e1d)
	// the objects fetched: every large one and a sample of the small ones in between
	sel := append([]int(nil), large...)
	for k := 0; k < 400 && len(small) > 0; k++ {
		sel = append(sel, small[rng.Intn(len(small))])
	}
	replay := map[string]interface{}{"spec": tr.Spec}

	for _, mode := range []string{"local", "readerat"} {
		var ep *Epoch
		var err error
		if mode == "local" {
			ep, err = vfxLoad(tr, vfxNewCache())
		} else {
			ep, _, err = vc03LoadGated(tr, vfxNewCache()) // the gate is never armed here: a plain ReaderAt over the CAR bytes
		}
		if err != nil {
			rep.Note("held-bytes part (%s CAR) skipped: the epoch does not load: %v", mode, err)
			continue
		}
		fetch := func(k int, o vc03HeldObj) ([]byte, error) {
			if k%2 == 0 {
				return ep.GetNodeByCid(ctx, o.c)
			}
			c := o.c
			return ep.GetNodeByOffsetAndSize(ctx, &c, &indexes.OffsetAndSize{Offset: o.offset, Size: o.secLen})
		}
		// ---- one caller that keeps what it got
		seq := &vc03Holder{objs: objs, byCid: byCid}
		notFetched := 0
		for round, order := range vc03Orders(rng, sel, objs) {
			for k, i := range order {
				rep.Case(fmt.Sprintf("held/%s/%d/%s", mode, round, objs[i].c), true)
				got, err := func() (b []byte, err error) {
					defer func() {
						if r := recover(); r != nil {
							err = fmt.Errorf("PANIC: %v", r)
						}
					}()
					return fetch(k, objs[i])
				}()
				if err != nil {
					if notFetched < 3 {
						rep.Fail("stored-cid-not-fetched:"+mode, fmt.Sprintf("large-object epoch, %s CAR: fetch of the archived %s (section of %d bytes at offset %d) failed: %v", mode, objs[i].c, objs[i].secLen, objs[i].offset, err), replay)
					}
					notFetched++
					continue
				}
				seq.add(i, got)
				n := len(seq.items)
				seq.check(n-1, "right after the return")
				if n >= 2 {
					seq.check(n-2, "after the next fetch")
				}
				if n%48 == 0 { // the last 96 it holds (everything again at the end of the round)
					for pos := n - 96; pos < n; pos++ {
						if pos >= 0 {
							seq.check(pos, "some fetches later")
						}
					}
				}
			}
			seq.checkAll("after the last fetch of the round")
		}
		rep.CountN("held/"+mode+": returned slices kept", len(seq.items))
		rep.CountN("held/"+mode+": re-hashes", seq.rehashN)
		if seq.nBad > 0 {
			rep.Fail("bytes-of-another-cid:held-across-later-fetch:"+mode,
				fmt.Sprintf("large-object epoch, %s CAR, one caller keeping the slices returned by Epoch.GetNodeByCid / GetNodeByOffsetAndSize: %d of %d kept results no longer hash to the CID they were requested with; %s",
					mode, seq.nBad, len(seq.items), strings.Join(seq.found, " | ")), replay)
		}

		// ---- several callers at the same time, large objects only
		if len(large) >= 2 {
			const workers = 6
			rounds := 120
			if vh.Thorough() {
				rounds = 1500
			}
			holders := make([]*vc03Holder, workers)
			errs := make([]string, workers)
			seeds := make([]uint64, workers)
			for w := range seeds {
				seeds[w] = rng.U64()
			}
			start := make(chan struct{})
			var wg sync.WaitGroup
			for w := 0; w < workers; w++ {
				w := w
				holders[w] = &vc03Holder{objs: objs, byCid: byCid}
				wg.Add(1)
				go func() {
					defer wg.Done()
					defer func() {
						if r := recover(); r != nil {
							errs[w] = fmt.Sprintf("PANIC: %v", r)
						}
					}()
					h := holders[w]
					r := vh.NewRng(seeds[w])
					<-start
					for k := 0; k < rounds; k++ {
						i := large[r.Intn(len(large))]
						got, err := fetch(k+w, objs[i])
						if err != nil {
							errs[w] = fmt.Sprintf("fetch of the archived %s failed: %v", objs[i].c, err)
							continue
						}
						h.add(i, got)
						n := len(h.items)
						h.check(n-1, "right after the return (other goroutines fetching large objects)")
						runtime.Gosched()
						h.check(n-1, "after yielding the processor (other goroutines fetching large objects)")
						if n >= 2 {
							h.check(n-2, "after the caller's next fetch (other goroutines fetching large objects)")
						}
						if n%8 == 0 { // the last few it holds
							for pos := n - 8; pos < n; pos++ {
								h.check(pos, "a few fetches later (other goroutines fetching large objects)")
							}
						}
						if n > 24 { // let go of the oldest: a caller does not keep everything for ever (and memory stays bounded)
							h.items[n-25].got = h.items[n-25].got[:0:0]
							if h.bad == nil {
								h.bad = map[int]bool{}
							}
							h.bad[n-25] = true
						}
					}
				}()
			}
			close(start)
			wg.Wait()
			nBad, nItems, nHash := 0, 0, 0
			var found []string
			for w, h := range holders {
				for pos := range h.items {
					if !h.bad[pos] {
						h.check(pos, "after all goroutines had finished")
					}
				}
				nBad += h.nBad
				nItems += len(h.items)
				nHash += h.rehashN
				found = append(found, h.found...)
				if errs[w] != "" {
					rep.Fail("stored-cid-not-fetched:"+mode, fmt.Sprintf("large-object epoch, %s CAR, concurrent fetches: %s", mode, errs[w]), replay)
				}
			}
			rep.CountN("held/"+mode+": concurrent fetches of large objects", nItems)
			rep.CountN("held/"+mode+": concurrent re-hashes", nHash)
			if nBad > 0 {
				if len(found) > 5 {
					found = found[:5]
				}
				rep.Fail("bytes-of-another-cid:concurrent-large-fetches:"+mode,
					fmt.Sprintf("large-object epoch, %s CAR, %d goroutines fetching objects of 8 KiB and more by CID at the same time: %d of %d results did not (or no longer) hash to the requested CID; %s",
						mode, workers, nBad, nItems, strings.Join(found, " | ")), replay)
			}
		}
		ep.Close()
	}
}

// vc03Orders: the selection in a random order, largest section first, and in CAR order.
func vc03Orders(rng *vh.Rng, sel []int, objs []vc03HeldObj) [][]int {
	random := make([]int, len(sel))
	for k, p := range rng.Perm(len(sel)) {
		random[k] = sel[p]
	}
	bySize := append([]int(nil), sel...)
	sort.SliceStable(bySize, func(a, b int) bool { return objs[bySize[a]].secLen > objs[bySize[b]].secLen })
	inOrder := append([]int(nil), sel...)
	sort.Ints(inOrder)
	return [][]int{random, bySize, inOrder}
}
