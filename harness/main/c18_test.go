package main

// Verification harness for C18 (injected with `go test -overlay`; not part of the repository).
// Enumerates outcome vectors x completion orders x concurrency limits on FirstSuccess /
// JobGroup.RunWithConcurrency, gating each job on a channel, and writes the observations as a Coq
// case file that the model (YF.FSCheck) checks.

import (
	"context"
	"errors"
	"fmt"
	"strings"
	"sync/atomic"
	"testing"
	"time"

	"github.com/rpcpool/yellowstone-faithful/zzverif/vh"
)

type vc18Err struct{ code uint64 }

func (e vc18Err) Error() string { return fmt.Sprintf("e%d", e.code) }

type vc18Case struct {
	Outs  []int64 `json:"outs"` // >0: success value, <0: error code -v
	Limit int     `json:"limit"`
	Order []int   `json:"order"`
}

func vc18Perms(n int) [][]int {
	var res [][]int
	var rec func(cur []int, used uint)
	rec = func(cur []int, used uint) {
		if len(cur) == n {
			res = append(res, append([]int(nil), cur...))
			return
		}
		for i := 0; i < n; i++ {
			if used&(1<<uint(i)) == 0 {
				rec(append(cur, i), used|1<<uint(i))
			}
		}
	}
	rec(nil, 0)
	return res
}

// vc18Run runs one gated FirstSuccess call. Returns value, error list (codes), timedOut.
func vc18Run(c vc18Case, useJobGroup bool) (val uint64, errs []uint64, isErr bool, timedOut bool, other string) {
	n := len(c.Outs)
	gates := make([]chan struct{}, n)
	started := make([]atomic.Bool, n)
	returned := make([]atomic.Bool, n)
	for i := range gates {
		gates[i] = make(chan struct{})
	}
	fns := make([]JobFunc[uint64], n)
	for i := 0; i < n; i++ {
		i := i
		fns[i] = func(ctx context.Context) (uint64, error) {
			started[i].Store(true)
			<-gates[i]
			defer returned[i].Store(true)
			if c.Outs[i] > 0 {
				return uint64(c.Outs[i]), nil
			}
			return 0, vc18Err{uint64(-c.Outs[i])}
		}
	}
	type res struct {
		v   uint64
		err error
	}
	done := make(chan res, 1)
	go func() {
		var v uint64
		var err error
		if useJobGroup {
			jg := NewJobGroup[uint64]()
			for _, f := range fns {
				jg.Add(f)
			}
			v, err = jg.RunWithConcurrency(context.Background(), c.Limit)
		} else {
			v, err = FirstSuccess(context.Background(), c.Limit, fns...)
		}
		done <- res{v, err}
	}()
	// controller: release in the requested order; wait (bounded) for the released job to have returned
	go func() {
		for _, i := range c.Order {
			close(gates[i])
			for k := 0; k < 2000 && !returned[i].Load(); k++ {
				if !started[i].Load() && k > 20 {
					break // not launched yet (blocked by the limit): it will run through when launched
				}
				time.Sleep(5 * time.Microsecond)
			}
			time.Sleep(20 * time.Microsecond) // let the worker push its result
		}
	}()
	select {
	case r := <-done:
		if r.err == nil {
			return r.v, nil, false, false, ""
		}
		var es ErrorSlice
		if errors.As(r.err, &es) {
			for _, e := range es {
				var ve vc18Err
				if errors.As(e, &ve) {
					errs = append(errs, ve.code)
				} else {
					return 0, nil, true, false, "foreign error in slice: " + fmt.Sprint(e)
				}
			}
			return 0, errs, true, false, ""
		}
		return 0, nil, true, false, "error is not an ErrorSlice: " + r.err.Error()
	case <-time.After(10 * time.Second):
		// release everything so goroutines can end
		for _, i := range c.Order {
			select {
			case <-gates[i]:
			default:
			}
		}
		return 0, nil, false, true, ""
	}
}

func vc18CoqCase(c vc18Case, exact bool, val uint64, errs []uint64, isErr bool) string {
	outs := make([]string, len(c.Outs))
	for i, o := range c.Outs {
		if o > 0 {
			outs[i] = fmt.Sprintf("Succ %d", o)
		} else {
			outs[i] = fmt.Sprintf("Fail %d", -o)
		}
	}
	lim := c.Limit
	if lim < 0 {
		lim = 0
	}
	var r string
	if isErr {
		r = "RErr " + vh.CoqNs(errs)
	} else {
		r = fmt.Sprintf("ROk %d", val)
	}
	return fmt.Sprintf("(([%s]%%N : list outcome), %d%%nat, %s, %s, %s)", strings.Join(outs, "; "), lim, vh.CoqNats(c.Order), vh.CoqBool(exact), r)
}

func TestVerif_C18(t *testing.T) {
	maxN := 4
	if vh.Thorough() {
		maxN = 5
	}
	rep := vh.NewReport("C18", "firstsuccess",
		"exhaustive: every outcome vector (each job success or error, distinct values) for 0..maxN jobs x every completion order x limits -1,1..n; a case is non-trivial when it has >= 2 jobs; distinct by (outs,limit,order)")
	cases := vh.NewCases("cases_c18", []string{"YF.FS", "YF.FSCheck"}, "case", "check")
	rep.Exhaustive = true
	rng := vh.NewRng(vh.Seed())
	greedyAgree := 0
	nTimeouts := 0
	for n := 0; n <= maxN; n++ { // n = 0: the empty job set (no epoch loaded) must give the empty error list, not a value
		perms := vc18Perms(n)
		for mask := 0; mask < 1<<uint(n); mask++ {
			outs := make([]int64, n)
			for i := 0; i < n; i++ {
				if mask&(1<<uint(i)) != 0 {
					outs[i] = int64(100 + i)
				} else {
					outs[i] = -int64(10 + i)
				}
			}
			for _, order := range perms {
				limits := []int{-1}
				for l := 1; l <= n; l++ {
					limits = append(limits, l)
				}
				if n == 0 {
					limits = append(limits, 1, 3, 1, 3) // twice: both entry points (FirstSuccess, JobGroup) get picked
				}
				for li, lim := range limits {
					c := vc18Case{Outs: outs, Limit: lim, Order: order}
					useJG := rng.Bool()
					if n == 0 {
						useJG = li%2 == 1
					}
					val, errs, isErr, timedOut, other := vc18Run(c, useJG)
					key := fmt.Sprint(outs, lim, order)
					rep.Case(key, n >= 2)
					rep.Count(fmt.Sprintf("jobs=%d", n))
					if timedOut {
						rep.Fail("no-termination", "FirstSuccess did not return within 10 s", c)
						nTimeouts++
						if nTimeouts >= 3 {
							rep.Note("stopped after %d calls that never returned", nTimeouts)
							goto finish
						}
						continue
					}
					if other != "" {
						rep.Fail("bad-error-shape", other, c)
						continue
					}
					if isErr {
						rep.Count("result=errors")
					} else {
						rep.Count("result=value")
					}
					// property oracle, directly on the observation
					anySucc := mask != 0
					if anySucc && isErr {
						rep.Fail("error-despite-success", fmt.Sprintf("a job succeeded but the search returned errors %v", errs), c)
					}
					if !isErr {
						ok := false
						for _, o := range outs {
							if o > 0 && uint64(o) == val {
								ok = true
							}
						}
						if !ok {
							rep.Fail("value-no-job-produced", fmt.Sprintf("returned %d", val), c)
						}
					}
					if !anySucc && isErr && len(errs) != n {
						rep.Fail("incomplete-error-list", fmt.Sprintf("%d jobs failed, %d errors returned", n, len(errs)), c)
					}
					exact := lim == 1 // order forced: jobs run one after another in index order
					cases.Add(vc18CoqCase(c, exact, val, errs, isErr))
					if len(rep.Samples) < 4 && n >= 3 && rng.Intn(40) == 0 {
						rep.Sample(map[string]interface{}{"outs": outs, "limit": lim, "order": order, "value": val, "errors": errs, "is_error": isErr})
					}
					// informational: does the gated order decide the winner as the greedy model schedule says?
					if !isErr && anySucc {
						first := -1
						if lim < 0 || lim >= n {
							for _, i := range order {
								if outs[i] > 0 {
									first = i
									break
								}
							}
							if first >= 0 && uint64(outs[first]) == val {
								greedyAgree++
							}
							rep.Count("unlimited-with-success")
						}
					}
				}
			}
		}
	}
finish:
	rep.Flag("winner_equals_first_released_success", greedyAgree)
	if len(rep.Samples) == 0 {
		rep.Sample(map[string]interface{}{"outs": []int64{-10, 101}, "limit": 1, "order": []int{1, 0}})
	}
	if err := cases.Write(); err != nil {
		t.Fatal(err)
	}
	rep.CasesWritten(cases)
	if err := rep.Write(); err != nil {
		t.Fatal(err)
	}
}
