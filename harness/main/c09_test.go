package main

// Verification harness for C09 (injected with `go test -overlay`; not part of the repository).
//
//   (a) lock-trace correspondence: an overlay COPY of multiepoch.go has `sync.RWMutex` replaced by the counting
//       wrapper vc09RWMutexOf[sync.RWMutex] defined here; every accessor / writer of MultiEpoch is run once on sets
//       of 0, 1 and 3 epochs and the sequence of lock operations it performed is written as a Coq case: it must be
//       one of the programs the translator (gen/c09.go) generated for that function (CTrace).
//   (b) schedule replay: for every accessor the schedule "writer announces right after the call's first
//       acquisition" is forced deterministically through the wrapper's hook (the writer is known to be pending when
//       TryRLock starts failing); a call that does not return within 2 s stalled. The model decides with
//       find_deadlock whether the observed program can deadlock; both verdicts must agree (CReplay).
//   (c) sequential histories of writers and readers, every answer observed, checked against the map model (CSeq).
//   (d) stress with a progress watchdog: readers x writers under GOMAXPROCS 2..16; every goroutine must finish its
//       current operation; listings strictly descending; the pinned epoch is always seen as the same object.
// If the overlay rewrite could not be applied (the literal is gone) only (c) and (d) run.

import (
	"context"
	"fmt"
	"reflect"
	"runtime"
	"sort"
	"strings"
	"sync"
	"sync/atomic"
	"testing"
	"time"
	"unsafe"

	"github.com/rpcpool/yellowstone-faithful/zzverif/vh"
)

// ---------------------------------------------------------------- counting wrapper

type vc09Rec struct {
	mu    sync.Mutex
	ops   []byte
	armed bool
	hook  func(op byte) // runs once, right after the first operation recorded while armed, on that goroutine
}

type vc09Hooked interface {
	vc09Attach(r *vc09Rec)
	vc09Inner() *sync.RWMutex
}

// T is a phantom parameter: it keeps the `sync` import of the rewritten file in use.
type vc09RWMutexOf[T any] struct {
	inner sync.RWMutex
	rec   atomic.Pointer[vc09Rec]
}

func (w *vc09RWMutexOf[T]) vc09Attach(r *vc09Rec)    { w.rec.Store(r) }
func (w *vc09RWMutexOf[T]) vc09Inner() *sync.RWMutex { return &w.inner }
func (w *vc09RWMutexOf[T]) note(op byte) {
	r := w.rec.Load()
	if r == nil {
		return
	}
	r.mu.Lock()
	r.ops = append(r.ops, op)
	var h func(byte)
	if r.armed {
		r.armed = false
		h = r.hook
	}
	r.mu.Unlock()
	if h != nil {
		h(op)
	}
}
func (w *vc09RWMutexOf[T]) RLock()   { w.inner.RLock(); w.note('R') }
func (w *vc09RWMutexOf[T]) RUnlock() { w.note('r'); w.inner.RUnlock() }
func (w *vc09RWMutexOf[T]) Lock()    { w.inner.Lock(); w.note('L') }
func (w *vc09RWMutexOf[T]) Unlock()  { w.note('l'); w.inner.Unlock() }
func (w *vc09RWMutexOf[T]) TryLock() bool {
	ok := w.inner.TryLock()
	if ok {
		w.note('L')
	}
	return ok
}
func (w *vc09RWMutexOf[T]) TryRLock() bool {
	ok := w.inner.TryRLock()
	if ok {
		w.note('R')
	}
	return ok
}
func (w *vc09RWMutexOf[T]) RLocker() sync.Locker { return vc09rlocker[T]{w} }

type vc09rlocker[T any] struct{ w *vc09RWMutexOf[T] }

func (l vc09rlocker[T]) Lock()   { l.w.RLock() }
func (l vc09rlocker[T]) Unlock() { l.w.RUnlock() }

// vc09Wrapper finds the wrapped mutex of a MultiEpoch (nil when the overlay rewrite was not applied).
func vc09Wrapper(m *MultiEpoch) vc09Hooked {
	v := reflect.ValueOf(m).Elem()
	for i := 0; i < v.NumField(); i++ {
		f := v.Field(i)
		if f.Kind() != reflect.Struct || !f.CanAddr() {
			continue
		}
		p := reflect.NewAt(f.Type(), unsafe.Pointer(f.UnsafeAddr())).Interface()
		if h, ok := p.(vc09Hooked); ok {
			return h
		}
	}
	return nil
}

// ---------------------------------------------------------------- fixtures

type vc09Ids struct {
	mu   sync.Mutex
	ids  map[*Epoch]uint64
	next uint64
}

func (x *vc09Ids) newEpoch(k uint64, path uint64) *Epoch {
	ep := &Epoch{epoch: k, config: &Config{originalFilepath: vc09Path(path), hashOfConfigFile: fmt.Sprintf("h%d", path)}}
	x.mu.Lock()
	x.next++
	x.ids[ep] = x.next
	x.mu.Unlock()
	return ep
}
func (x *vc09Ids) id(ep *Epoch) uint64 { x.mu.Lock(); defer x.mu.Unlock(); return x.ids[ep] }

// config file paths as --watch meets them: one directory per epoch with the same file name in each (even keys), and
// flat names that are prefixes of one another, e.g. e1 / e11 (odd keys). Only the full path identifies an epoch.
func vc09Path(p uint64) string {
	if p%2 == 0 {
		return fmt.Sprintf("/nonexistent/verif-c09/%d/config.yml", p)
	}
	return fmt.Sprintf("/nonexistent/verif-c09/e%d", p)
}

func vc09NewMulti(ids *vc09Ids, keys []uint64) *MultiEpoch {
	m := NewMultiEpoch(&Options{})
	for _, k := range keys {
		_ = m.AddEpoch(k, ids.newEpoch(k, k))
	}
	return m
}

// the calls whose lock behaviour is traced; names are the translator's names
type vc09Call struct {
	name   string
	writer bool
	fn     func(m *MultiEpoch, ids *vc09Ids)
}

func vc09Calls() []vc09Call {
	ctx := context.Background()
	return []vc09Call{
		{"MultiEpoch.GetEpoch", false, func(m *MultiEpoch, _ *vc09Ids) { _, _ = m.GetEpoch(20) }},
		{"MultiEpoch.HasEpoch", false, func(m *MultiEpoch, _ *vc09Ids) { _ = m.HasEpoch(20) }},
		{"MultiEpoch.CountEpochs", false, func(m *MultiEpoch, _ *vc09Ids) { _ = m.CountEpochs() }},
		{"MultiEpoch.GetEpochNumbers", false, func(m *MultiEpoch, _ *vc09Ids) { _ = m.GetEpochNumbers() }},
		{"MultiEpoch.GetMostRecentAvailableEpoch", false, func(m *MultiEpoch, _ *vc09Ids) { _, _ = m.GetMostRecentAvailableEpoch() }},
		{"MultiEpoch.GetOldestAvailableEpoch", false, func(m *MultiEpoch, _ *vc09Ids) { _, _ = m.GetOldestAvailableEpoch() }},
		{"MultiEpoch.GetMostRecentAvailableEpochNumber", false, func(m *MultiEpoch, _ *vc09Ids) { _, _ = m.GetMostRecentAvailableEpochNumber() }},
		{"MultiEpoch.GetFirstAvailableBlock", false, func(m *MultiEpoch, _ *vc09Ids) { _, _ = m.GetFirstAvailableBlock(ctx) }},
		{"MultiEpoch.GetMostRecentAvailableBlock", false, func(m *MultiEpoch, _ *vc09Ids) { _, _ = m.GetMostRecentAvailableBlock(ctx) }},
		{"MultiEpoch.GetFaithfulVersionInfo", false, func(m *MultiEpoch, _ *vc09Ids) { _ = m.GetFaithfulVersionInfo() }},
		{"MultiEpoch.HasEpochWithSameHashAsFile", false, func(m *MultiEpoch, _ *vc09Ids) { _ = m.HasEpochWithSameHashAsFile(vc09Path(20)) }},
		{"MultiEpoch.getAllBucketteers", false, func(m *MultiEpoch, _ *vc09Ids) { _ = m.getAllBucketteers() }},
		{"MultiEpoch.getGsfaReadersInEpochDescendingOrder", false, func(m *MultiEpoch, _ *vc09Ids) { _, _ = m.getGsfaReadersInEpochDescendingOrder() }},
		{"MultiEpoch.getGsfaReadersInEpochDescendingOrderForSlotRange", false, func(m *MultiEpoch, _ *vc09Ids) {
			_, _ = m.getGsfaReadersInEpochDescendingOrderForSlotRange(ctx, 0, 432000*30)
		}},
		{"MultiEpoch.findEpochNumberFromSignature", false, func(m *MultiEpoch, _ *vc09Ids) {
			var sig [64]byte
			_, _ = m.findEpochNumberFromSignature(ctx, sig)
		}},
		{"MultiEpoch.AddEpoch", true, func(m *MultiEpoch, ids *vc09Ids) { _ = m.AddEpoch(40, ids.newEpoch(40, 40)) }},
		{"MultiEpoch.AddEpoch", true, func(m *MultiEpoch, ids *vc09Ids) { _ = m.AddEpoch(20, ids.newEpoch(20, 20)) }},
		{"MultiEpoch.ReplaceEpoch", true, func(m *MultiEpoch, ids *vc09Ids) { _ = m.ReplaceEpoch(20, ids.newEpoch(20, 21)) }},
		{"MultiEpoch.ReplaceOrAddEpoch", true, func(m *MultiEpoch, ids *vc09Ids) { _ = m.ReplaceOrAddEpoch(20, ids.newEpoch(20, 22)) }},
		{"MultiEpoch.RemoveEpoch", true, func(m *MultiEpoch, _ *vc09Ids) { _ = m.RemoveEpoch(20) }},
		{"MultiEpoch.RemoveEpochByConfigFilepath", true, func(m *MultiEpoch, _ *vc09Ids) { _, _ = m.RemoveEpochByConfigFilepath(vc09Path(20)) }},
	}
}

func vc09CoqOps(ops []byte) string {
	items := make([]string, 0, len(ops))
	for _, o := range ops {
		switch o {
		case 'R':
			items = append(items, "RLock")
		case 'r':
			items = append(items, "RUnlock")
		case 'L':
			items = append(items, "WLock")
		case 'l':
			items = append(items, "WUnlock")
		}
	}
	return "[" + strings.Join(items, "; ") + "]"
}

// vc09NestedRLock: the first violation of flatness in ops is an RLock taken while read-holding.
func vc09NestedRLock(ops []byte) bool {
	mode := byte('o')
	for _, o := range ops {
		switch {
		case mode == 'o' && o == 'R':
			mode = 'R'
		case mode == 'o' && o == 'L':
			mode = 'L'
		case mode == 'R' && o == 'r', mode == 'L' && o == 'l':
			mode = 'o'
		case mode == 'R' && o == 'R':
			return true
		default:
			return false
		}
	}
	return false
}

// vc09Start runs fn in a goroutine; wait(d) reports whether it returned within d (it can be called again).
type vc09Pending struct {
	ch       chan bool
	done     bool
	panicked bool
}

func vc09Start(fn func()) *vc09Pending {
	p := &vc09Pending{ch: make(chan bool, 1)}
	go func() {
		pan := false
		defer func() {
			if r := recover(); r != nil {
				pan = true
			}
			p.ch <- pan
		}()
		fn()
	}()
	return p
}

func (p *vc09Pending) wait(d time.Duration) (done bool, panicked bool) {
	if p.done {
		return true, p.panicked
	}
	select {
	case pan := <-p.ch:
		p.done, p.panicked = true, pan
		return true, pan
	case <-time.After(d):
		return false, false
	}
}

// vc09RunCall runs fn in a goroutine and waits at most d. done=false: the call did not return.
func vc09RunCall(fn func(), d time.Duration) (done bool, panicked bool) {
	return vc09Start(fn).wait(d)
}

// a stall is declared after stallLimit; the FIRST stall of a run is re-examined after a further vc09ConfirmExtra
// (a deadlock lasts forever; a slow machine does not)
const vc09ConfirmExtra = 3 * time.Second

// ---------------------------------------------------------------- the test

func TestVerif_C09(t *testing.T) {
	rng := vh.NewRng(vh.Seed())
	rep := vh.NewReport("C09", "lockset",
		"traces: every accessor/writer x epoch sets of size 0,1,3 (lock operations recorded by a counting wrapper, compared with the generated programs); "+
			"replays: the same calls with a writer forced between the acquisitions (hook + TryRLock probe); "+
			"histories: random sequential op sequences over keys 1..6 (non-trivial: >= 1 successful writer and >= 1 reader); "+
			"stress: 8 readers x 3 writers per GOMAXPROCS setting, progress watchdog; distinct by content")
	cases := vh.NewCases("cases_c09", []string{"YF.RW", "YF.C09_EpochSet", "YF.C09_Check"}, "case", "check")
	ids := &vc09Ids{ids: map[*Epoch]uint64{}}
	stallLimit := 2 * time.Second

	probe := NewMultiEpoch(&Options{})
	wrapped := vc09Wrapper(probe) != nil
	rep.Flag("lock_wrapper_applied", wrapped)
	if !wrapped {
		rep.Note("overlay rewrite of sync.RWMutex in multiepoch.go was not applied: lock traces and forced replays are skipped; stress and histories still run")
	}

	nestedNames := map[string]bool{}
	stallConfirmed := false
	if wrapped {
		sets := [][]uint64{{}, {20}, {10, 20, 30}}
		for _, c := range vc09Calls() {
			for _, set := range sets {
				// ---- (a) trace
				m := vc09NewMulti(ids, set)
				rec := &vc09Rec{}
				vc09Wrapper(m).vc09Attach(rec)
				done, panicked := vc09RunCall(func() { c.fn(m, ids) }, 5*time.Second)
				rec.mu.Lock()
				ops := append([]byte(nil), rec.ops...)
				rec.mu.Unlock()
				key := fmt.Sprintf("trace/%s/%d", c.name, len(set))
				rep.Case(key, len(ops) > 0)
				rep.Count("trace:" + map[bool]string{true: "writer", false: "reader"}[c.writer])
				if !done {
					rep.Fail("stall", fmt.Sprintf("%s on a set of %d epochs did not return within 5 s although no other goroutine uses the lock (ops so far %s)", c.name, len(set), vc09CoqOps(ops)),
						map[string]interface{}{"call": c.name, "epochs": set, "ops": string(ops)})
					continue
				}
				if panicked {
					// a bare Epoch object has no CAR/index behind it; the trace may be cut short: not compared
					rep.Count("trace:panicked-not-compared")
					continue
				}
				if in := vc09Wrapper(m).vc09Inner(); in.TryLock() {
					in.Unlock()
				} else {
					rep.Fail("lock-not-released", fmt.Sprintf("%s on a set of %d epochs returned while MultiEpoch.mu is still held (lock operations %s): every later writer, and every reader after it, waits forever", c.name, len(set), vc09CoqOps(ops)),
						map[string]interface{}{"call": c.name, "epochs": set, "lock_ops": string(ops)})
				}
				cases.Add(fmt.Sprintf("CTrace \"%s\" %s", c.name, vc09CoqOps(ops)))
				if len(rep.Samples) < 3 && len(set) == 3 && (c.name == "MultiEpoch.GetMostRecentAvailableEpoch" || c.name == "MultiEpoch.ReplaceOrAddEpoch" || c.name == "MultiEpoch.findEpochNumberFromSignature") {
					rep.Sample(map[string]interface{}{"call": c.name, "epochs": set, "lock_ops": string(ops)})
				}
				nested := vc09NestedRLock(ops)
				if nested {
					nestedNames[c.name] = true
				}
				// ---- (b) forced replay of "another writer arrives right after the first acquisition"
				m2 := vc09NewMulti(ids, set)
				rec2 := &vc09Rec{armed: true}
				w2 := vc09Wrapper(m2)
				var notForced atomic.Bool
				var others sync.WaitGroup
				rec2.hook = func(op byte) {
					others.Add(1)
					go func() { defer others.Done(); _ = m2.AddEpoch(777, ids.newEpoch(777, 777)) }()
					if op == 'R' {
						// the writer is pending exactly when a fresh read acquisition is refused
						deadline := time.Now().Add(stallLimit)
						for {
							if !w2.vc09Inner().TryRLock() {
								break
							}
							w2.vc09Inner().RUnlock()
							if time.Now().After(deadline) {
								notForced.Store(true)
								break
							}
							time.Sleep(20 * time.Microsecond)
						}
					} else {
						others.Add(1)
						go func() { defer others.Done(); _, _ = m2.GetEpoch(20) }()
						time.Sleep(2 * time.Millisecond)
					}
				}
				w2.vc09Attach(rec2)
				pend := vc09Start(func() { c.fn(m2, ids); others.Wait() })
				done2, _ := pend.wait(stallLimit)
				if !done2 && !stallConfirmed {
					stallConfirmed = true
					if done2, _ = pend.wait(vc09ConfirmExtra); done2 {
						rep.Note("replay of %s needed more than %v but completed (slow machine); not a stall", c.name, stallLimit)
					}
				}
				stalled := !done2
				forced := !notForced.Load()
				rep.Case(fmt.Sprintf("replay/%s/%d", c.name, len(set)), true)
				rep.Count(fmt.Sprintf("replay:stalled=%v", stalled))
				cases.Add(fmt.Sprintf("CReplay \"%s\" %s %s %s", c.name, vc09CoqOps(ops), vh.CoqBool(forced), vh.CoqBool(stalled)))
				if stalled {
					sig := "stall"
					what := "the call (or the writer that arrived meanwhile) never completed"
					if nested {
						sig = "nested-rlock-deadlock"
						what = "the call read-locks MultiEpoch.mu again while holding it; a writer that requests the lock in between blocks the second RLock forever, and the writer waits for the first RLock to be released"
					}
					rep.Fail(sig, fmt.Sprintf("%s (lock operations %s) on %d epochs: schedule [call: first acquisition; writer AddEpoch: Lock requested; call continues] -> no return within %v. %s", c.name, vc09CoqOps(ops), len(set), stallLimit, what),
						map[string]interface{}{"call": c.name, "epochs": set, "lock_ops": string(ops), "model_schedule": "thread 0 = the call, thread 1 = [WLock; WUnlock]; schedule [0; 1], then thread 0 is blocked",
							"go_replay": "hold the first RLock of the call, start `go multi.AddEpoch(...)`, wait until TryRLock fails (writer pending), let the call continue"})
				}
			}
		}
	}
	rep.Flag("nested_accessors", vc09SortedKeys(nestedNames))

	// ---------------- (c) sequential histories against the map model
	nHist, nOps := 150, 24
	if vh.Thorough() {
		nHist, nOps = 1200, 40
	}
	histStalls := 0
	for h := 0; h < nHist; h++ {
		m := NewMultiEpoch(&Options{})
		var steps []string
		okWriters, readers := 0, 0
		aborted := false
		keyspace := uint64(rng.Range(2, 6))
		for i := 0; i < nOps; i++ {
			k := uint64(rng.Intn(int(keyspace))) + 1
			p := uint64(rng.Intn(4)) + 1
			var op, obs string
			choice := rng.Intn(12)
			opDone, opPanicked := vc09RunCall(func() {
				switch choice {
				case 0, 1:
					ep := ids.newEpoch(k, p)
					op = fmt.Sprintf("OAdd %d {| eid := %d; epath := %d |}", k, ids.id(ep), p)
					if err := m.AddEpoch(k, ep); err == nil {
						obs = "BOk"
						okWriters++
					} else {
						obs = "BErr"
					}
				case 2:
					ep := ids.newEpoch(k, p)
					op = fmt.Sprintf("OReplaceOrAdd %d {| eid := %d; epath := %d |}", k, ids.id(ep), p)
					if err := m.ReplaceOrAddEpoch(k, ep); err == nil {
						obs = "BOk"
						okWriters++
					} else {
						obs = "BErr"
					}
				case 3:
					ep := ids.newEpoch(k, p)
					op = fmt.Sprintf("OReplace %d {| eid := %d; epath := %d |}", k, ids.id(ep), p)
					if err := m.ReplaceEpoch(k, ep); err == nil {
						obs = "BOk"
						okWriters++
					} else {
						obs = "BErr"
					}
				case 4:
					op = fmt.Sprintf("ORemove %d", k)
					if err := m.RemoveEpoch(k); err == nil {
						obs = "BOk"
						okWriters++
					} else {
						obs = "BErr"
					}
				case 5:
					op = fmt.Sprintf("ORemoveByPath %d", p)
					if n, err := m.RemoveEpochByConfigFilepath(vc09Path(p)); err == nil {
						obs = fmt.Sprintf("BRemoved %d", n)
						okWriters++
					} else {
						obs = "BErr"
					}
				case 6:
					op = fmt.Sprintf("OGet %d", k)
					readers++
					if ep, err := m.GetEpoch(k); err == nil {
						obs = fmt.Sprintf("BEpoch %d", ids.id(ep))
					} else {
						obs = "BErr"
					}
				case 7:
					op = fmt.Sprintf("OHas %d", k)
					readers++
					obs = "BBool " + vh.CoqBool(m.HasEpoch(k))
				case 8:
					op = "OCount"
					readers++
					obs = fmt.Sprintf("BCount %d", m.CountEpochs())
				case 9:
					op = "ONumbers"
					readers++
					nums := m.GetEpochNumbers()
					obs = "BList " + vh.CoqNs(nums)
					if !vc09StrictlyDescending(nums) {
						rep.Fail("listing-unsorted", fmt.Sprintf("GetEpochNumbers returned %v on an idle server", nums), map[string]interface{}{"history": steps})
					}
				case 10:
					op = "OMostRecent"
					readers++
					if ep, err := m.GetMostRecentAvailableEpoch(); err == nil && ep != nil {
						obs = fmt.Sprintf("BEpoch %d", ids.id(ep))
					} else if err == nil {
						obs = "BEpoch 0"
						rep.Fail("inconsistent-epoch", "GetMostRecentAvailableEpoch returned (nil, nil)", map[string]interface{}{"history": steps})
					} else {
						obs = "BErr"
					}
				default:
					op = "OOldest"
					readers++
					if ep, err := m.GetOldestAvailableEpoch(); err == nil && ep != nil {
						obs = fmt.Sprintf("BEpoch %d", ids.id(ep))
					} else if err == nil {
						obs = "BEpoch 0"
						rep.Fail("inconsistent-epoch", "GetOldestAvailableEpoch returned (nil, nil)", map[string]interface{}{"history": steps})
					} else {
						obs = "BErr"
					}
				}
			}, stallLimit)
			if !opDone || opPanicked {
				histStalls++
				sig, what := "stall", "did not return within 2 s on an otherwise idle server (an earlier operation of this history left MultiEpoch.mu held?)"
				if opPanicked {
					sig, what = "operation-panic", "panicked"
				}
				rep.Fail(sig, fmt.Sprintf("sequential history: operation %d (%s) %s; history so far %v", i, vc09OpName(choice), what, steps),
					map[string]interface{}{"history": steps, "operation": vc09OpName(choice), "key": k, "path": p})
				aborted = true
				break
			}
			steps = append(steps, "("+op+", "+obs+")")
		}
		if aborted {
			if histStalls >= 3 {
				rep.Note("histories: stopped after three histories with an operation that never returned")
				break
			}
			continue
		}
		body := "[" + strings.Join(steps, "; ") + "]%N"
		cases.Add("CSeq " + body)
		rep.Case("hist/"+body, okWriters > 0 && readers > 0)
		rep.Count("history")
		rep.CountN("history-ops", len(steps))
		if h == 0 {
			rep.Sample(map[string]interface{}{"history": steps})
		}
	}

	// ---------------- (d) stress with watchdog
	procsList := []int{2, 4, 8, 16}
	dur := 750 * time.Millisecond
	if vh.Thorough() {
		procsList = []int{2, 3, 4, 6, 8, 12, 16}
		dur = 20 * time.Second
	}
	old := runtime.GOMAXPROCS(0)
	stalls := 0
	for _, procs := range procsList {
		if stalls >= 2 {
			rep.Note("stress: remaining GOMAXPROCS settings skipped after two stalled runs")
			break
		}
		runtime.GOMAXPROCS(procs)
		res := vc09Stress(ids, rng.U64(), dur, stallLimit, stalls == 0)
		rep.Case(fmt.Sprintf("stress/procs=%d/seed", procs), true)
		rep.CountN(fmt.Sprintf("stress-ops:procs=%d", procs), int(res.total))
		rep.CountN("stress-reads", int(res.reads))
		rep.CountN("stress-writes", int(res.writes))
		for _, f := range res.oracle {
			rep.Fail(f[0], fmt.Sprintf("GOMAXPROCS=%d: %s", procs, f[1]), map[string]interface{}{"procs": procs, "part": "stress"})
		}
		if res.stalled {
			stalls++
			sig := "stall"
			why := ""
			// the accessors used by the stress readers include the nested ones found by the traces above
			for _, n := range res.stuckIn {
				if nestedNames["MultiEpoch."+n] {
					sig = "nested-rlock-deadlock"
					why = " (a stuck reader is inside " + n + ", whose lock trace is a nested RLock)"
				}
			}
			rep.Fail(sig, fmt.Sprintf("GOMAXPROCS=%d: after %d reads and %d writes no goroutine made progress for %v; goroutines stuck in: %v%s", procs, res.reads, res.writes, stallLimit, res.stuckIn, why),
				map[string]interface{}{"procs": procs, "part": "stress", "readers": 8, "writers": 3, "stuck_in": res.stuckIn})
		}
	}
	runtime.GOMAXPROCS(old)

	if err := cases.Write(); err != nil {
		t.Fatal(err)
	}
	rep.CasesWritten(cases)
	if err := rep.Write(); err != nil {
		t.Fatal(err)
	}
}

func vc09OpName(choice int) string {
	names := []string{"AddEpoch", "AddEpoch", "ReplaceOrAddEpoch", "ReplaceEpoch", "RemoveEpoch", "RemoveEpochByConfigFilepath", "GetEpoch",
		"HasEpoch", "CountEpochs", "GetEpochNumbers", "GetMostRecentAvailableEpoch", "GetOldestAvailableEpoch"}
	if choice >= 0 && choice < len(names) {
		return names[choice]
	}
	return "?"
}

func vc09SortedKeys(m map[string]bool) []string {
	ks := make([]string, 0, len(m))
	for k := range m {
		ks = append(ks, k)
	}
	sort.Strings(ks)
	return ks
}

func vc09StrictlyDescending(v []uint64) bool {
	for i := 1; i < len(v); i++ {
		if !(v[i-1] > v[i]) {
			return false
		}
	}
	return true
}

type vc09StressResult struct {
	total, reads, writes int64
	stalled              bool
	stuckIn              []string
	oracle               [][2]string
}

// vc09Stress: 8 readers and 3 writers on one MultiEpoch. Epoch 100 (object P) is loaded for the whole run and no
// writer ever targets it or its config path; writers add / replace / remove epochs 90..110 \ {100}.
func vc09Stress(ids *vc09Ids, seed uint64, dur, stallLimit time.Duration, confirm bool) vc09StressResult {
	const pinned = 100
	m := NewMultiEpoch(&Options{})
	P := ids.newEpoch(pinned, pinned)
	_ = m.AddEpoch(pinned, P)
	for _, k := range []uint64{93, 97, 104, 108} {
		_ = m.AddEpoch(k, ids.newEpoch(k, k))
	}
	const nReaders, nWriters = 8, 3
	var stop atomic.Bool
	var progress [nReaders + nWriters]atomic.Int64
	var current [nReaders + nWriters]atomic.Value
	var exited [nReaders + nWriters]atomic.Bool
	var omu sync.Mutex
	var oracle [][2]string
	seen := map[string]bool{}
	fail := func(sig, detail string) {
		omu.Lock()
		if !seen[sig] {
			seen[sig] = true
			oracle = append(oracle, [2]string{sig, detail})
		}
		omu.Unlock()
	}
	otherKey := func(r *vh.Rng) uint64 {
		for {
			k := uint64(90 + r.Intn(21))
			if k != pinned {
				return k
			}
		}
	}
	checkListing := func(what string, nums []uint64) {
		if !vc09StrictlyDescending(nums) {
			fail("listing-unsorted", fmt.Sprintf("%s returned %v (not strictly descending)", what, nums))
		}
		found := false
		for _, n := range nums {
			if n == pinned {
				found = true
			}
		}
		if !found {
			fail("isolated-query-changed", fmt.Sprintf("%s returned %v without epoch %d, which is loaded for the whole run and never written", what, nums, pinned))
		}
	}
	for g := 0; g < nReaders; g++ {
		g := g
		r := vh.NewRng(seed + uint64(g)*7919)
		go func() {
			defer exited[g].Store(true)
			defer func() {
				if x := recover(); x != nil {
					fail("reader-panic", fmt.Sprint(x))
				}
			}()
			for !stop.Load() {
				switch r.Intn(11) {
				case 0:
					current[g].Store("GetMostRecentAvailableEpoch")
					ep, err := m.GetMostRecentAvailableEpoch()
					if err != nil || ep == nil {
						fail("inconsistent-epoch", fmt.Sprintf("GetMostRecentAvailableEpoch returned (%v, %v) although epoch %d is loaded", ep, err, pinned))
					} else if ep.epoch < pinned {
						fail("inconsistent-epoch", fmt.Sprintf("GetMostRecentAvailableEpoch returned epoch %d although epoch %d is loaded", ep.epoch, pinned))
					}
				case 1:
					current[g].Store("GetOldestAvailableEpoch")
					ep, err := m.GetOldestAvailableEpoch()
					if err != nil || ep == nil {
						fail("inconsistent-epoch", fmt.Sprintf("GetOldestAvailableEpoch returned (%v, %v) although epoch %d is loaded", ep, err, pinned))
					} else if ep.epoch > pinned {
						fail("inconsistent-epoch", fmt.Sprintf("GetOldestAvailableEpoch returned epoch %d although epoch %d is loaded", ep.epoch, pinned))
					}
				case 2:
					current[g].Store("GetEpochNumbers")
					checkListing("GetEpochNumbers", m.GetEpochNumbers())
				case 3:
					current[g].Store("GetEpoch")
					ep, err := m.GetEpoch(pinned)
					if err != nil || ep != P {
						fail("isolated-query-changed", fmt.Sprintf("GetEpoch(%d) returned a different object or an error (%v) although no writer touches that epoch", pinned, err))
					}
				case 4:
					current[g].Store("HasEpoch")
					if !m.HasEpoch(pinned) || m.CountEpochs() < 1 {
						fail("isolated-query-changed", fmt.Sprintf("HasEpoch(%d) = false or CountEpochs() = 0 although that epoch is loaded", pinned))
					}
				case 5:
					current[g].Store("GetMostRecentAvailableEpochNumber")
					n, err := m.GetMostRecentAvailableEpochNumber()
					if err != nil || n < pinned {
						fail("inconsistent-epoch", fmt.Sprintf("GetMostRecentAvailableEpochNumber returned (%d, %v) although epoch %d is loaded", n, err, pinned))
					}
				case 6:
					current[g].Store("GetFaithfulVersionInfo")
					if nums, ok := m.GetFaithfulVersionInfo()["epochs"].([]uint64); ok {
						checkListing("GetFaithfulVersionInfo[epochs]", nums)
					}
				case 7:
					current[g].Store("getAllBucketteers")
					_ = m.getAllBucketteers()
					_, _ = m.getGsfaReadersInEpochDescendingOrder()
				case 8:
					current[g].Store("GetEpoch")
					k := otherKey(r)
					if ep, err := m.GetEpoch(k); err == nil && (ep == nil || ep.epoch != k) {
						fail("inconsistent-epoch", fmt.Sprintf("GetEpoch(%d) returned an object that is not the epoch stored under %d", k, k))
					}
				case 9:
					current[g].Store("GetFirstAvailableBlock")
					func() {
						defer func() { _ = recover() }() // bare Epoch objects have no CAR behind them
						_, _ = m.GetFirstAvailableBlock(context.Background())
					}()
				default:
					current[g].Store("GetMostRecentAvailableBlock")
					func() {
						defer func() { _ = recover() }()
						_, _ = m.GetMostRecentAvailableBlock(context.Background())
					}()
				}
				current[g].Store("")
				progress[g].Add(1)
			}
		}()
	}
	for w := 0; w < nWriters; w++ {
		g := nReaders + w
		r := vh.NewRng(seed + 104729*uint64(w+1))
		go func() {
			defer exited[g].Store(true)
			defer func() {
				if x := recover(); x != nil {
					fail("writer-panic", fmt.Sprint(x))
				}
			}()
			for !stop.Load() {
				k := otherKey(r)
				switch r.Intn(5) {
				case 0:
					current[g].Store("AddEpoch")
					_ = m.AddEpoch(k, ids.newEpoch(k, k))
				case 1:
					current[g].Store("ReplaceOrAddEpoch")
					_ = m.ReplaceOrAddEpoch(k, ids.newEpoch(k, k))
				case 2:
					current[g].Store("RemoveEpoch")
					_ = m.RemoveEpoch(k)
				case 3:
					current[g].Store("RemoveEpochByConfigFilepath")
					_, _ = m.RemoveEpochByConfigFilepath(vc09Path(k))
				default:
					current[g].Store("ReplaceEpoch")
					_ = m.ReplaceEpoch(k, ids.newEpoch(k, k))
				}
				current[g].Store("")
				progress[g].Add(1)
				if r.Intn(4) == 0 {
					runtime.Gosched()
				}
			}
		}()
	}
	sum := func() (tot, rd, wr int64) {
		for i := range progress {
			v := progress[i].Load()
			tot += v
			if i < nReaders {
				rd += v
			} else {
				wr += v
			}
		}
		return
	}
	// watchdog: stop early when nothing at all progresses for stallLimit
	start := time.Now()
	last, _, _ := sum()
	lastChange := time.Now()
	res := vc09StressResult{}
	for time.Since(start) < dur {
		time.Sleep(20 * time.Millisecond)
		cur, _, _ := sum()
		if cur != last {
			last, lastChange = cur, time.Now()
		} else if time.Since(lastChange) > stallLimit {
			break
		}
		if cur == last && time.Since(start) >= dur-20*time.Millisecond && time.Since(lastChange) > 100*time.Millisecond {
			// no progress near the end of the run: keep watching until the limit
			dur = time.Since(start) + stallLimit
		}
	}
	stop.Store(true)
	// every goroutine must finish its current operation
	deadline := time.Now().Add(stallLimit)
	if confirm {
		deadline = deadline.Add(vc09ConfirmExtra)
	}
	for time.Now().Before(deadline) {
		all := true
		for i := range exited {
			if !exited[i].Load() {
				all = false
			}
		}
		if all {
			break
		}
		time.Sleep(5 * time.Millisecond)
	}
	for i := range exited {
		if !exited[i].Load() {
			res.stalled = true
			if s, _ := current[i].Load().(string); s != "" {
				res.stuckIn = append(res.stuckIn, s)
			}
		}
	}
	sort.Strings(res.stuckIn)
	res.total, res.reads, res.writes = sum()
	if !res.stalled {
		// quiescent: every goroutine has returned. From here on every epoch stays loaded for the whole of every query,
		// so each accessor must answer as on an idle server (a fresh MultiEpoch) holding the same epoch objects.
		func() {
			defer func() {
				if x := recover(); x != nil {
					fail("reader-panic", fmt.Sprintf("after the stress run (nothing else running): %v", x))
				}
			}()
			snap := map[uint64]*Epoch{}
			m.mu.RLock()
			for k, ep := range m.epochs {
				snap[k] = ep
			}
			m.mu.RUnlock()
			idle := NewMultiEpoch(&Options{})
			for k, ep := range snap {
				_ = idle.AddEpoch(k, ep)
			}
			same := func(what string, a, b interface{}) {
				if !reflect.DeepEqual(a, b) {
					fail("stale-after-quiescence", fmt.Sprintf("every reader and writer has returned; %s = %v, an idle server holding the same %d epochs answers %v", what, a, len(snap), b))
				}
			}
			for round := 0; round < 3; round++ {
				same("GetEpochNumbers()", m.GetEpochNumbers(), idle.GetEpochNumbers())
				same("CountEpochs()", m.CountEpochs(), idle.CountEpochs())
				a, aerr := m.GetMostRecentAvailableEpoch()
				b, berr := idle.GetMostRecentAvailableEpoch()
				same("GetMostRecentAvailableEpoch() [object identity, error]", []interface{}{ids.id(a), aerr != nil}, []interface{}{ids.id(b), berr != nil})
				a, aerr = m.GetOldestAvailableEpoch()
				b, berr = idle.GetOldestAvailableEpoch()
				same("GetOldestAvailableEpoch() [object identity, error]", []interface{}{ids.id(a), aerr != nil}, []interface{}{ids.id(b), berr != nil})
				n1, e1 := m.GetMostRecentAvailableEpochNumber()
				n2, e2 := idle.GetMostRecentAvailableEpochNumber()
				same("GetMostRecentAvailableEpochNumber()", []interface{}{n1, e1 != nil}, []interface{}{n2, e2 != nil})
				same("GetFaithfulVersionInfo()[epochs]", m.GetFaithfulVersionInfo()["epochs"], idle.GetFaithfulVersionInfo()["epochs"])
				for k := uint64(88); k <= 112; k++ {
					x, xerr := m.GetEpoch(k)
					y, yerr := idle.GetEpoch(k)
					same(fmt.Sprintf("GetEpoch(%d) [object identity, error]", k), []interface{}{ids.id(x), xerr != nil}, []interface{}{ids.id(y), yerr != nil})
					same(fmt.Sprintf("HasEpoch(%d)", k), m.HasEpoch(k), idle.HasEpoch(k))
				}
				same("HasEpochWithSameHashAsFile(absent file)", m.HasEpochWithSameHashAsFile(vc09Path(20)), idle.HasEpochWithSameHashAsFile(vc09Path(20)))
			}
		}()
	}
	omu.Lock()
	res.oracle = oracle
	omu.Unlock()
	return res
}
