package main

// Verification harness for C08 (uses fixture_test.go): grammar-generated JSON-RPC requests (valid,
// truncated, wrong types, missing members, huge numbers), raw HTTP shapes and gRPC messages (absent
// optional filter fields, malformed account strings) against the handlers with zero, one and three epochs
// loaded. A panic anywhere is a failure; the outcome class of every request is compared with the model
// (YF.C08_Requests).

import (
	"context"
	"fmt"
	"io"
	"strings"
	"testing"
	"time"

	"github.com/gagliardetto/solana-go"
	old_faithful_grpc "github.com/rpcpool/yellowstone-faithful/old-faithful-proto/old-faithful-grpc"
	"github.com/rpcpool/yellowstone-faithful/zzverif/vh"
	"github.com/valyala/fasthttp"
	"google.golang.org/grpc"
	"google.golang.org/grpc/codes"
	"google.golang.org/grpc/status"
)

// ---- a tiny JSON grammar with a parallel Coq rendering
type vc08J struct {
	json string
	coq  string
}

func vc08Str(kind string, truth *vfxTruth, rng *vh.Rng) vc08J {
	switch kind {
	case "sig":
		b := truth.Blocks[rng.Intn(len(truth.Blocks))]
		if len(b.Txs) > 0 && rng.Bool() {
			return vc08J{`"` + b.Txs[0].Sig + `"`, "JStr SSig"}
		}
		var s solana.Signature
		copy(s[:], rng.Bytes(64))
		s[0] |= 1
		return vc08J{`"` + s.String() + `"`, "JStr SSig"}
	case "zerosig":
		return vc08J{`"` + solana.Signature{}.String() + `"`, "JStr SZeroSig"}
	case "pubkey":
		return vc08J{`"` + vfxAccount(0, rng.Intn(3)).String() + `"`, "JStr SPubkey"}
	case "enc":
		e := []string{"base58", "base64", "base64+zstd", "json"}[rng.Intn(4)]
		return vc08J{`"` + e + `"`, "JStr (SEncoding true)"}
	case "badenc":
		return vc08J{`"binary"`, "JStr (SEncoding false)"}
	default:
		return vc08J{`"` + []string{"", "x", "0OIl", "finalized", "not base58 !!"}[rng.Intn(5)] + `"`, "JStr SOther"}
	}
}

func vc08Value(rng *vh.Rng, truth *vfxTruth, depth int) vc08J {
	switch rng.Intn(9) {
	case 0:
		return vc08J{"null", "JNull"}
	case 1:
		b := rng.Bool()
		return vc08J{fmt.Sprint(b), "JBool " + vh.CoqBool(b)}
	case 2:
		n := []string{"0", "1", "5", "432005", "-3", "18446744073709551615", "1e30", "3.5", "99999999999999999999999"}[rng.Intn(9)]
		return vc08J{n, "JNum 0%Z"}
	case 3:
		return vc08Str([]string{"sig", "zerosig", "pubkey", "enc", "badenc", "other"}[rng.Intn(6)], truth, rng)
	case 4:
		if depth > 1 {
			return vc08J{"[]", "JArr []"}
		}
		n := rng.Intn(3)
		var js, cs []string
		for i := 0; i < n; i++ {
			v := vc08Value(rng, truth, depth+1)
			js, cs = append(js, v.json), append(cs, v.coq)
		}
		return vc08J{"[" + strings.Join(js, ",") + "]", "JArr " + vh.CoqList(cs)}
	default:
		return vc08Obj(rng, truth, depth)
	}
}

var vc08Keys = []struct {
	name string
	coq  string
}{{"commitment", "k_commitment"}, {"encoding", "k_encoding"}, {"maxSupportedTransactionVersion", "k_maxver"},
	{"transactionDetails", "k_txdetails"}, {"rewards", "k_rewards"}, {"limit", "k_limit"}, {"before", "k_before"}, {"until", "k_until"}}

func vc08Obj(rng *vh.Rng, truth *vfxTruth, depth int) vc08J {
	var js, cs []string
	used := map[int]bool{}
	for i := 0; i < rng.Intn(4); i++ {
		k := rng.Intn(len(vc08Keys))
		if used[k] {
			continue
		}
		used[k] = true
		var v vc08J
		if rng.Intn(3) != 0 { // mostly well-typed
			switch vc08Keys[k].name {
			case "commitment", "transactionDetails":
				v = vc08J{`"finalized"`, "JStr SOther"}
			case "encoding":
				v = vc08Str([]string{"enc", "enc", "badenc"}[rng.Intn(3)], truth, rng)
			case "maxSupportedTransactionVersion", "limit":
				v = vc08J{"0", "JNum 0%Z"}
			case "rewards":
				v = vc08J{"false", "JBool false"}
			default:
				v = vc08Str([]string{"sig", "other"}[rng.Intn(2)], truth, rng)
			}
		} else if depth < 2 {
			v = vc08Value(rng, truth, depth+1)
		} else {
			v = vc08J{"null", "JNull"}
		}
		js = append(js, fmt.Sprintf("%q:%s", vc08Keys[k].name, v.json))
		cs = append(cs, fmt.Sprintf("(%s, %s)", vc08Keys[k].coq, v.coq))
	}
	return vc08J{"{" + strings.Join(js, ",") + "}", "JObj " + vh.CoqList(cs)}
}

type vc08Stream struct {
	grpc.ServerStream
	ctx context.Context
	n   int
}

func (f *vc08Stream) Context() context.Context                               { return f.ctx }
func (f *vc08Stream) Send(r *old_faithful_grpc.TransactionResponse) error { f.n++; return nil }

type vc08BlockStream struct {
	grpc.ServerStream
	ctx context.Context
}

func (f *vc08BlockStream) Context() context.Context                         { return f.ctx }
func (f *vc08BlockStream) Send(r *old_faithful_grpc.BlockResponse) error { return nil }

type vc08GetStream struct {
	grpc.ServerStream
	ctx  context.Context
	reqs []*old_faithful_grpc.GetRequest
	i    int
}

func (f *vc08GetStream) Context() context.Context { return f.ctx }
func (f *vc08GetStream) Send(r *old_faithful_grpc.GetResponse) error { return nil }
func (f *vc08GetStream) Recv() (*old_faithful_grpc.GetRequest, error) {
	if f.i >= len(f.reqs) {
		return nil, io.EOF
	}
	f.i++
	return f.reqs[f.i-1], nil
}

func TestVerif_C08(t *testing.T) {
	rep := vh.NewReport("C08", "requests",
		"JSON-RPC requests from a grammar (methods x params missing/null/non-array/array of generated values; option objects with well- and ill-typed members; huge numbers), raw HTTP shapes (methods, paths, truncated and mutated bodies) and gRPC messages (absent optional fields, malformed accounts, extreme slots) x {0,1,3} epochs loaded; a case = one request; non-trivial = syntactically valid JSON-RPC envelope or a gRPC message; distinct by request text")
	cases := vh.NewCases("cases_c08", []string{"YF.C08_Requests"}, "case", "check")
	seed := vh.Seed()
	var specs []vfxSpec
	for i, e := range []uint64{1, 2, 3} {
		s := vfxDefaultSpec(fmt.Sprintf("c08e%d", e), e, seed+uint64(i))
		s.NumSlots, s.Gsfa = 12, true
		s.NoTxIndex = i == 0 // the epoch every configuration loads: transactions without the optional position index
		s.OddRewards = i == 0 // ... and rewards whose commission strings are empty, numbers, and not a number
		s.EdgeTxs = i == 0    // ... and legal transactions of unusual shapes (no instructions, no instruction accounts, many signers, version 0, ...)
		if i == 0 {
			s.MaxTx = 4 // 1..4 transactions per entry: every shape occurs
		}
		specs = append(specs, s)
	}
	truths, err := vfxBuild(specs)
	// An epoch whose index build does not go through on the tree under test (this property is about the request
	// handlers, not about the indexers) is rebuilt in a weaker form instead of ending the run: first without the
	// address index (its transactions are then reached on the scanning path), then without the unusual shapes.
	for i := range specs {
		if i < len(truths) && truths[i] != nil && truths[i].BuildErr == "" {
			continue
		}
		why := fmt.Sprint(err)
		if i < len(truths) && truths[i] != nil {
			why = truths[i].BuildErr
		}
		if !specs[i].EdgeTxs {
			t.Fatalf("setup failed: fixture %s: %.2000s", specs[i].Name, why)
		}
		weaker := []struct {
			what string
			set  func(*vfxSpec)
		}{
			{"without the address index", func(s *vfxSpec) { s.Gsfa = false }},
			{"without transactions of unusual shapes", func(s *vfxSpec) { s.Gsfa, s.EdgeTxs = true, false }},
		}
		built := false
		for _, w := range weaker {
			if k := strings.Index(why, "panic:"); k >= 0 {
				why = why[k:] // the crash of the index builder, not the progress output before it
			}
			rep.Note("fixture %s does not build on this tree (%.300s): rebuilt %s", specs[i].Name, why, w.what)
			rep.Count("fixture-rebuilt:" + w.what)
			w.set(&specs[i])
			one, err1 := vfxBuild([]vfxSpec{specs[i]})
			if err1 == nil && one[0] != nil && one[0].BuildErr == "" {
				truths[i], built = one[0], true
				break
			}
			if err1 != nil {
				why = fmt.Sprint(err1)
			} else if one[0] != nil {
				why = one[0].BuildErr
			}
		}
		if !built {
			t.Fatalf("setup failed: fixture %s: %.2000s", specs[i].Name, why)
		}
	}
	nReq := 1200
	if vh.Thorough() {
		nReq = 40000
	}
	methods := []struct{ name, coq string }{
		{"getBlock", "MGetBlock"}, {"getTransaction", "MGetTransaction"}, {"getBlockTime", "MGetBlockTime"},
		{"getSignaturesForAddress", "MGsfa"}, {"getSlot", "MNoParams"}, {"getFirstAvailableBlock", "MNoParams"},
		{"getGenesisHash", "MNoParams"}, {"getBalance", "MUnknown"}, {"", "MUnknown"},
	}
	for _, nEpochs := range []int{0, 1, 3} {
		multi, eps, err := vfxMulti(truths[:nEpochs], 2)
		if err != nil {
			t.Fatalf("setup failed: %v", err)
		}
		h := newMultiEpochHandler(multi, nil)
		tag := fmt.Sprintf("epochs=%d", nEpochs)
		rng := vh.NewRng(seed*31 + uint64(nEpochs))
		truth := truths[0]
		for i := 0; i < nReq; i++ {
			m := methods[rng.Intn(len(methods))]
			// ---- params
			var pj, pc string // JSON text of the member ("" = absent) and Coq term
			switch rng.Intn(10) {
			case 0:
				pj, pc = "", "PMissing"
			case 1:
				pj, pc = "null", "PRaw (Some [])"
			case 2:
				v := vc08Value(rng, truth, 0)
				if strings.HasPrefix(v.json, "[") || v.json == "null" {
					v = vc08J{`{"a":1}`, ""}
				}
				pj, pc = v.json, "PRaw None"
			default:
				// an array: first element usually of the type the method wants
				var elems []vc08J
				switch {
				case rng.Intn(8) == 0:
				case m.name == "getBlock" || m.name == "getBlockTime":
					if rng.Intn(5) == 0 {
						elems = append(elems, vc08Value(rng, truth, 1))
					} else {
						slot := truth.Blocks[rng.Intn(len(truth.Blocks))].Slot
						if rng.Intn(3) == 0 {
							slot += uint64(rng.Intn(5))
						}
						n := []string{fmt.Sprint(slot), "0", "18446744073709551615", "1e30", "-1", "2.5"}[rng.Pick(0, 0, 0, 1, 2, 3, 4, 5)]
						elems = append(elems, vc08J{n, "JNum 0%Z"})
					}
				case m.name == "getTransaction":
					elems = append(elems, vc08Str([]string{"sig", "sig", "sig", "zerosig", "pubkey", "other"}[rng.Intn(6)], truth, rng))
				case m.name == "getSignaturesForAddress":
					elems = append(elems, vc08Str([]string{"pubkey", "pubkey", "pubkey", "sig", "other"}[rng.Intn(5)], truth, rng))
				default:
					elems = append(elems, vc08Value(rng, truth, 1))
				}
				if rng.Intn(3) != 0 && len(elems) > 0 {
					if rng.Intn(5) == 0 {
						elems = append(elems, vc08Value(rng, truth, 1))
					} else {
						elems = append(elems, vc08Obj(rng, truth, 0))
					}
					if rng.Intn(10) == 0 {
						elems = append(elems, vc08Value(rng, truth, 1))
					}
				}
				var js, cs []string
				for _, e := range elems {
					js, cs = append(js, e.json), append(cs, e.coq)
				}
				pj, pc = "["+strings.Join(js, ",")+"]", "PRaw (Some "+vh.CoqList(cs)+")"
			}
			body := fmt.Sprintf(`{"jsonrpc":"2.0","id":%d,"method":%q`, i, m.name)
			if pj != "" {
				body += `,"params":` + pj
			}
			body += "}"
			resp, _, panicked, pmsg := vfxRPC(h, body)
			rep.Case(tag+"/"+body, true)
			rep.Count("jsonrpc:" + m.coq)
			obs := "RProceeds"
			if panicked {
				obs = "RPanic 0"
				rep.Fail("handler-panic:"+m.name, fmt.Sprintf("%s: %s -> panic: %.300s", tag, body, pmsg), map[string]interface{}{"epochs_loaded": nEpochs, "body": body})
			} else if r, err := vfxParseReply(resp); err == nil && r.Error != nil {
				switch r.Error.Code {
				case -32602:
					obs = "RInvalidParams"
				case -32601:
					obs = "RMethodNotFound"
				}
			}
			rep.Count("outcome:" + strings.Fields(obs)[0])
			cases.Add(fmt.Sprintf("CHttp %s %s (%s) (%s)", vh.CoqBool(nEpochs > 0), m.coq, pc, obs))
			if len(rep.Samples) < 5 && i%97 == 0 {
				rep.Sample(map[string]interface{}{"epochs_loaded": nEpochs, "body": body, "outcome": obs})
			}
			// ---- raw / mutated bodies (no model class: only "must not panic")
			if i%4 == 0 {
				mut := []byte(body)
				switch rng.Intn(5) {
				case 0:
					mut = mut[:rng.Intn(len(mut)+1)]
				case 1:
					mut[rng.Intn(len(mut))] = byte(rng.U64())
				case 2:
					mut = append(mut, mut...)
				case 3:
					mut = rng.Bytes(rng.Intn(64))
				case 4:
					mut = []byte(strings.Replace(body, `"jsonrpc"`, `"x"`, 1))
				}
				_, _, panicked, pmsg := vfxRPC(h, string(mut))
				rep.Case(tag+"/raw/"+string(mut), false)
				rep.Count("raw-body")
				if panicked {
					rep.Fail("handler-panic:raw-body", fmt.Sprintf("%s: %q -> panic: %.300s", tag, mut, pmsg), map[string]interface{}{"epochs_loaded": nEpochs, "body": string(mut)})
				}
			}
		}
		// ---- systematic sweep: every option member x every JSON value kind, with a first argument that is
		// archived (a slot whose block has transactions, an archived signature, an indexed address), so that a
		// request that passes parsing really runs the whole handler
		{
			var slotWithTx uint64
			var sigArch, addr string
			for _, b := range truth.Blocks {
				if len(b.Txs) > 0 {
					slotWithTx, sigArch, addr = b.Slot, b.Txs[0].Sig, b.Txs[0].Accounts[1]
					break
				}
			}
			values := []vc08J{{"null", "JNull"}, {"true", "JBool true"}, {"false", "JBool false"}, {"0", "JNum 0%Z"}, {"7", "JNum 0%Z"},
				{`"base64"`, "JStr (SEncoding true)"}, {`"json"`, "JStr (SEncoding true)"}, {`"binary"`, "JStr (SEncoding false)"},
				{`"` + sigArch + `"`, "JStr SSig"}, {`"` + solana.Signature{}.String() + `"`, "JStr SZeroSig"}, {`"` + addr + `"`, "JStr SPubkey"},
				{`"finalized"`, "JStr SOther"}, {`""`, "JStr SOther"}, {"[]", "JArr []"}, {"{}", "JObj []"}}
			firsts := []struct {
				m     string
				coq   string
				first vc08J
			}{
				{"getBlock", "MGetBlock", vc08J{fmt.Sprint(slotWithTx), "JNum 0%Z"}},
				{"getTransaction", "MGetTransaction", vc08J{`"` + sigArch + `"`, "JStr SSig"}},
				{"getBlockTime", "MGetBlockTime", vc08J{fmt.Sprint(slotWithTx), "JNum 0%Z"}},
				{"getSignaturesForAddress", "MGsfa", vc08J{`"` + addr + `"`, "JStr SPubkey"}},
			}
			for _, f := range firsts {
				for _, k := range vc08Keys {
					for _, v := range values {
						body := fmt.Sprintf(`{"jsonrpc":"2.0","id":1,"method":%q,"params":[%s,{%q:%s}]}`, f.m, f.first.json, k.name, v.json)
						resp, _, panicked, pmsg := vfxRPC(h, body)
						rep.Case(tag+"/"+body, true)
						rep.Count("jsonrpc-sweep:" + f.coq)
						obs := "RProceeds"
						if panicked {
							obs = "RPanic 0"
							rep.Fail("handler-panic:"+f.m, fmt.Sprintf("%s: %s -> panic: %.300s", tag, body, pmsg), map[string]interface{}{"epochs_loaded": nEpochs, "body": body})
						} else if r, err := vfxParseReply(resp); err == nil && r.Error != nil {
							switch r.Error.Code {
							case -32602:
								obs = "RInvalidParams"
							case -32601:
								obs = "RMethodNotFound"
							}
						}
						cases.Add(fmt.Sprintf("CHttp %s %s (PRaw (Some [%s; JObj [(%s, %s)]])) (%s)", vh.CoqBool(nEpochs > 0), f.coq, f.first.coq, k.coq, v.coq, obs))
					}
				}
			}
		}
		// ---- HTTP shapes: methods and paths
		for _, hm := range []string{"GET", "POST", "PUT", "DELETE", "OPTIONS", "HEAD"} {
			for _, path := range []string{"/", "/health", "/metrics", "/api/v1/", "/api/v1/gsfa", "/api/v1/x/y", "/%ff", "/api/v1/%00"} {
				func() {
					defer func() {
						if r := recover(); r != nil {
							rep.Fail("handler-panic:http", fmt.Sprintf("%s %s %s: %v", tag, hm, path, r), map[string]interface{}{"method": hm, "path": path})
						}
					}()
					var req fasthttp.Request
					req.Header.SetMethod(hm)
					req.SetRequestURI(path)
					req.SetBody([]byte(`{"jsonrpc":"2.0","id":1,"method":"getSlot"}`))
					var ctx fasthttp.RequestCtx
					ctx.Init(&req, nil, nil)
					h(&ctx)
					rep.Case(tag+"/http/"+hm+path, false)
					rep.Count("http-shape")
				}()
			}
		}
		// ---- gRPC
		ctx := context.Background()
		T, F := true, false
		good := vfxAccount(0, 0).String()
		var base uint64
		hasTxs := false
		if nEpochs > 0 {
			base = truths[0].base()
			hasTxs = true
		}
		end := base + 11
		type gf struct {
			vote, failed          *bool
			inc, exc, req         []string
			wellformed, isNil bool
		}
		var gfs []gf
		gfs = append(gfs, gf{isNil: true, wellformed: true})
		for _, v := range []*bool{nil, &T, &F} {
			for _, fl := range []*bool{nil, &T, &F} {
				gfs = append(gfs, gf{vote: v, failed: fl, wellformed: true})
				gfs = append(gfs, gf{vote: v, failed: fl, inc: []string{good}, wellformed: true})
				gfs = append(gfs, gf{vote: v, failed: fl, exc: []string{"not-base58-!"}, wellformed: false})
				gfs = append(gfs, gf{vote: v, failed: fl, req: []string{"abc"}, wellformed: false})
				gfs = append(gfs, gf{vote: v, failed: fl, inc: []string{""}, wellformed: false})
			}
		}
		for _, g := range gfs {
			req := &old_faithful_grpc.StreamTransactionsRequest{StartSlot: base, EndSlot: &end}
			coqF := "None"
			if !g.isNil {
				req.Filter = &old_faithful_grpc.StreamTransactionsFilter{Vote: g.vote, Failed: g.failed, AccountInclude: g.inc, AccountExclude: g.exc, AccountRequired: g.req}
				ob := func(p *bool) string {
					if p == nil {
						return "None"
					}
					return "(Some " + vh.CoqBool(*p) + ")"
				}
				coqF = fmt.Sprintf("(Some {| g_vote := %s; g_failed := %s; g_accounts_wellformed := %s |})", ob(g.vote), ob(g.failed), vh.CoqBool(g.wellformed))
			}
			obs := "GStreams"
			func() {
				defer func() {
					if r := recover(); r != nil {
						obs = "GPanic 0"
						rep.Fail("grpc-panic:StreamTransactions", fmt.Sprintf("%s filter vote=%v failed=%v inc=%q exc=%q req=%q: %v", tag, g.vote != nil, g.failed != nil, g.inc, g.exc, g.req, r),
							map[string]interface{}{"epochs_loaded": nEpochs, "filter": fmt.Sprintf("%+v", g)})
					}
				}()
				err := multi.StreamTransactions(req, &vc08Stream{ctx: ctx})
				if status.Code(err) == codes.InvalidArgument {
					obs = "GInvalidArgument"
				}
			}()
			rep.Case(fmt.Sprintf("%s/grpc/stream/%+v", tag, g), true)
			rep.Count("grpc:StreamTransactions")
			cases.Add(fmt.Sprintf("CGrpc %s %s (%s)", vh.CoqBool(hasTxs), coqF, obs))
		}
		// ---- gRPC StreamTransactions: slot ranges (any start, any / absent end)
		{
			loadedSet := map[uint64]bool{}
			for _, tr := range truths[:nEpochs] {
				loadedSet[tr.Spec.Epoch] = true
			}
			maxU := ^uint64(0)
			hangs := 0
			starts := []uint64{0, base, base + 3, vfxEpochLen * 5, base + vfxEpochLen, 1 << 63, maxU - 50, maxU}
			u := func(x uint64) *uint64 { return &x }
			ends := []*uint64{nil, u(0), u(base), u(base + 11), u(vfxEpochLen * 1000), u(1 << 55), u(1 << 63), u(maxU)}
			for _, st := range starts {
				for _, en := range ends {
					for _, withAcc := range []bool{false, true} {
						req := &old_faithful_grpc.StreamTransactionsRequest{StartSlot: st, EndSlot: en}
						if withAcc {
							req.Filter = &old_faithful_grpc.StreamTransactionsFilter{AccountInclude: []string{good}}
						}
						coqE := "None"
						if en != nil {
							coqE = "(Some " + vh.CoqN(*en) + ")"
						}
						obs := "GStreams"
						if hangs >= 2 {
							continue
						}
						// the window the handler computes (uint64 arithmetic), and whether an address index covers it
						enSlot := st + 100
						if en != nil {
							enSlot = *en
						}
						indexed := false
						held := 0
						if withAcc {
							for _, tr := range truths[:nEpochs] {
								if tr.GsfaDir != "" && tr.Spec.Epoch >= st/vfxEpochLen && tr.Spec.Epoch <= enSlot/vfxEpochLen {
									indexed = true
									held += len(tr.Blocks)
								}
							}
						}
						done := make(chan struct{})
						go func() {
							defer close(done)
							defer func() {
								if r := recover(); r != nil {
									obs = "GPanic 0"
									rep.Fail("grpc-panic:StreamTransactions:slot-range", fmt.Sprintf("%s start_slot=%d end_slot=%s: %v", tag, st, coqE, r),
										map[string]interface{}{"epochs_loaded": nEpochs, "start_slot": st, "end_slot": coqE, "account_include": withAcc})
								}
							}()
							cctx, cancel := context.WithTimeout(ctx, 40*time.Millisecond)
							defer cancel()
							_ = multi.StreamTransactions(req, &vc08Stream{ctx: cctx})
						}()
						select {
						case <-done:
						case <-time.After(8 * time.Second):
							// the stream's context ended 40 ms after the call: the handler is spinning
							hangs++
							obs = "GSpins"
							rep.Fail("grpc-hang:StreamTransactions:slot-range", fmt.Sprintf("%s start_slot=%d end_slot=%s account_include=%v: no return 8 s after the stream context ended", tag, st, coqE, withAcc),
								map[string]interface{}{"epochs_loaded": nEpochs, "start_slot": st, "end_slot": coqE, "account_include": withAcc})
						}
						if !withAcc { // the same window through StreamBlocks
							bdone := make(chan struct{})
							go func() {
								defer close(bdone)
								defer func() {
									if r := recover(); r != nil {
										rep.Fail("grpc-panic:StreamBlocks:slot-range", fmt.Sprintf("%s start_slot=%d end_slot=%s: %v", tag, st, coqE, r),
											map[string]interface{}{"epochs_loaded": nEpochs, "start_slot": st, "end_slot": coqE})
									}
								}()
								cctx, cancel := context.WithTimeout(ctx, 40*time.Millisecond)
								defer cancel()
								_ = multi.StreamBlocks(&old_faithful_grpc.StreamBlocksRequest{StartSlot: st, EndSlot: en}, &vc08BlockStream{ctx: cctx})
							}()
							select {
							case <-bdone:
							case <-time.After(8 * time.Second):
								hangs++
								rep.Fail("grpc-hang:StreamBlocks:slot-range", fmt.Sprintf("%s start_slot=%d end_slot=%s: no return 8 s after the stream context ended", tag, st, coqE),
									map[string]interface{}{"epochs_loaded": nEpochs, "start_slot": st, "end_slot": coqE})
							}
							rep.Count("grpc:StreamBlocks:slot-range")
						}
						rep.Case(fmt.Sprintf("%s/grpc/range/%d/%s/%v", tag, st, coqE, withAcc), true)
						rep.Count("grpc:StreamTransactions:slot-range")
						cases.Add(fmt.Sprintf("CRange %s %s %s %s %s (%s)", vh.CoqN(uint64(nEpochs)), vh.CoqN(uint64(held)), vh.CoqBool(indexed), vh.CoqN(st), coqE, obs))
					}
				}
			}
			// ---- REST front /api/v1/
			type apiCase struct {
				method, path, coq string
			}
			var apis []apiCase
			slotCase := func(txt string, parses bool, slot uint64) {
				found := false
				loaded := false
				if parses {
					loaded = loadedSet[slot/vfxEpochLen]
					for _, tr := range truths[:nEpochs] {
						if tr.blockBySlot(slot) != nil {
							found = true
						}
					}
				}
				apis = append(apis, apiCase{"GET", "/api/v1/slot-to-cid/" + txt, fmt.Sprintf("(ApiSlot %s %s %s)", vh.CoqBool(parses), vh.CoqBool(loaded), vh.CoqBool(found))})
			}
			slotCase("", false, 0)
			slotCase("abc", false, 0)
			slotCase("-1", false, 0)
			slotCase("18446744073709551616", false, 0)
			slotCase("1.5", false, 0)
			slotCase("18446744073709551615", true, maxU)
			slotCase("0", true, 0)
			slotCase(fmt.Sprint(vfxEpochLen*900), true, vfxEpochLen*900)
			for _, tr := range truths {
				for i := 0; i < 4 && i < len(tr.Blocks); i++ {
					sl := tr.Blocks[rng.Intn(len(tr.Blocks))].Slot
					slotCase(fmt.Sprint(sl), true, sl)
					slotCase(fmt.Sprint(sl)+"/", true, sl)
				}
				for i := 0; i < 3; i++ { // slots without a block
					sl := tr.base() + uint64(rng.Intn(3000))
					slotCase(fmt.Sprint(sl), true, sl)
				}
			}
			sigCase := func(txt string, parses, found bool) {
				apis = append(apis, apiCase{"GET", "/api/v1/sig-to-cid/" + txt, fmt.Sprintf("(ApiSig %s %d %s)", vh.CoqBool(parses), nEpochs, vh.CoqBool(found))})
			}
			sigCase("", false, false)
			sigCase("xyz", false, false)
			sigCase("0OIl", false, false)
			sigCase(good, false, false) // 32 bytes, not 64
			for i := 0; i < 4; i++ {
				var sg solana.Signature
				copy(sg[:], rng.Bytes(64))
				sigCase(sg.String(), true, false)
			}
			for ti, tr := range truths {
				n := 0
				for _, b := range tr.Blocks {
					if len(b.Txs) > 0 && n < 3 {
						n++
						sigCase(b.Txs[len(b.Txs)-1].Sig, true, ti < nEpochs)
					}
				}
			}
			for _, hm := range []string{"POST", "PUT", "DELETE", "HEAD"} {
				apis = append(apis, apiCase{hm, "/api/v1/slot-to-cid/5", "ApiNotGet"})
				apis = append(apis, apiCase{hm, "/api/v1/sig-to-cid/" + good, "ApiNotGet"})
			}
			for _, pth := range []string{"/api/v1/", "/api/v1/slot-to-cid", "/api/v1/sig-to-cid", "/api/v1/other/1", "/api/v1/slot-to-cidX/1"} {
				apis = append(apis, apiCase{"GET", pth, "ApiOther"})
			}
			for _, a := range apis {
				func() {
					obs := ""
					defer func() {
						if r := recover(); r != nil {
							obs = "(ApiPanic 0)"
							rep.Fail("handler-panic:rest-api", fmt.Sprintf("%s %s %s: %v", tag, a.method, a.path, r), map[string]interface{}{"epochs_loaded": nEpochs, "method": a.method, "path": a.path})
						}
						cases.Add(fmt.Sprintf("CApi %s %s", a.coq, obs))
					}()
					var req fasthttp.Request
					req.Header.SetMethod(a.method)
					req.SetRequestURI(a.path)
					var rctx fasthttp.RequestCtx
					rctx.Init(&req, nil, nil)
					h(&rctx)
					obs = fmt.Sprintf("(Status %d)", rctx.Response.StatusCode())
					rep.Case(tag+"/api/"+a.method+a.path, true)
					rep.Count("rest-api")
				}()
			}
		}
		// other gRPC methods with extreme / empty messages
		grpcCalls := []struct {
			name string
			f    func() error
		}{
			{"GetBlock(max)", func() error { _, e := multi.GetBlock(ctx, &old_faithful_grpc.BlockRequest{Slot: ^uint64(0)}); return e }},
			{"GetBlock(zero)", func() error { _, e := multi.GetBlock(ctx, &old_faithful_grpc.BlockRequest{}); return e }},
			{"GetBlockTime(max)", func() error { _, e := multi.GetBlockTime(ctx, &old_faithful_grpc.BlockTimeRequest{Slot: ^uint64(0)}); return e }},
			{"GetTransaction(empty sig)", func() error { _, e := multi.GetTransaction(ctx, &old_faithful_grpc.TransactionRequest{}); return e }},
			{"GetTransaction(short sig)", func() error {
				_, e := multi.GetTransaction(ctx, &old_faithful_grpc.TransactionRequest{Signature: []byte{1, 2, 3}})
				return e
			}},
			{"GetTransaction(long sig)", func() error {
				_, e := multi.GetTransaction(ctx, &old_faithful_grpc.TransactionRequest{Signature: make([]byte, 200)})
				return e
			}},
			{"GetVersion", func() error { _, e := multi.GetVersion(ctx, &old_faithful_grpc.VersionRequest{}); return e }},
			{"StreamBlocks(nil filter)", func() error {
				return multi.StreamBlocks(&old_faithful_grpc.StreamBlocksRequest{StartSlot: base, EndSlot: &end}, &vc08BlockStream{ctx: ctx})
			}},
			{"StreamBlocks(bad account)", func() error {
				return multi.StreamBlocks(&old_faithful_grpc.StreamBlocksRequest{StartSlot: base, EndSlot: &end, Filter: &old_faithful_grpc.StreamBlocksFilter{AccountInclude: []string{"!!", ""}}}, &vc08BlockStream{ctx: ctx})
			}},
			{"StreamBlocks(end<start)", func() error {
				e := base
				return multi.StreamBlocks(&old_faithful_grpc.StreamBlocksRequest{StartSlot: base + 5, EndSlot: &e}, &vc08BlockStream{ctx: ctx})
			}},
			{"Get(stream of mixed requests)", func() error {
				return multi.Get(&vc08GetStream{ctx: ctx, reqs: []*old_faithful_grpc.GetRequest{
					{Id: 1}, // no request set
					{Id: 2, Request: &old_faithful_grpc.GetRequest_Block{Block: &old_faithful_grpc.BlockRequest{Slot: base + 1}}},
					{Id: 3, Request: &old_faithful_grpc.GetRequest_Transaction{Transaction: &old_faithful_grpc.TransactionRequest{}}},
					{Id: 4, Request: &old_faithful_grpc.GetRequest_BlockTime{BlockTime: &old_faithful_grpc.BlockTimeRequest{Slot: base}}},
					{Id: 5, Request: &old_faithful_grpc.GetRequest_Version{}},
					{Id: 6, Request: &old_faithful_grpc.GetRequest_Block{}},
					{Id: 7, Request: &old_faithful_grpc.GetRequest_Transaction{}},
				}})
			}},
		}
		for _, c := range grpcCalls {
			func() {
				defer func() {
					if r := recover(); r != nil {
						rep.Fail("grpc-panic:"+c.name, fmt.Sprintf("%s %s: %v", tag, c.name, r), map[string]interface{}{"epochs_loaded": nEpochs, "call": c.name})
					}
				}()
				_ = c.f()
				rep.Case(tag+"/grpc/"+c.name, true)
				rep.Count("grpc:other")
			}()
		}
		if nEpochs > 0 {
			vc08EdgeSweep(rep, cases, tag, nEpochs, multi, h, truths[0])
		}
		for _, e := range eps {
			e.Close()
		}
	}
	if err := cases.Write(); err != nil {
		t.Fatal(err)
	}
	rep.CasesWritten(cases)
	if err := rep.Write(); err != nil {
		t.Fatal(err)
	}
}

// vc08EdgeSweep sends every request shape of this harness that reaches archived transactions at the blocks,
// signatures and accounts of the epoch built with spec.EdgeTxs (legal transactions of unusual shapes: no
// instructions, an instruction without accounts, several instructions, every account a signer, twelve
// signatures, version-0 messages): JSON-RPC getBlock / getTransaction / getBlockTime / getSignaturesForAddress
// with every encoding and level of detail, gRPC GetBlock / GetTransaction / GetBlockTime / the Get stream /
// StreamBlocks / StreamTransactions with every combination of the optional vote and failed flags, without and
// with account filters naming accounts of those transactions. Any panic is the failure; the outcome class of
// the requests that have a model class is added to the case file.
func vc08EdgeSweep(rep *vh.Report, cases *vh.CasesFile, tag string, nEpochs int, multi *MultiEpoch, h func(*fasthttp.RequestCtx), tr *vfxTruth) {
	if !tr.Spec.EdgeTxs || len(tr.Blocks) == 0 {
		rep.Note("edge sweep skipped: fixture %s has no edge-shaped transactions", tr.Spec.Name)
		return
	}
	ctx := context.Background()
	shapeSeen := map[string]bool{}
	var accounts []string // per shape: the first two accounts of its first transaction (a one-off key and one of the shared, indexed ones)
	accSeen := map[string]bool{}
	for _, b := range tr.Blocks {
		for _, tx := range b.Txs {
			if tx.Edge == "" {
				continue
			}
			rep.Count("edge-tx:" + tx.Edge)
			if !shapeSeen[tx.Edge] {
				shapeSeen[tx.Edge] = true
				for _, a := range tx.Accounts[:2] {
					if !accSeen[a] {
						accSeen[a] = true
						accounts = append(accounts, a)
					}
				}
			}
		}
	}
	for _, sh := range vfxEdgeShapes {
		if !shapeSeen[sh] {
			rep.Note("%s: fixture %s holds no transaction of shape %s", tag, tr.Spec.Name, sh)
		}
	}
	rpc := func(method, coqM, first, coqFirst, optJSON, optCoq string) {
		body := fmt.Sprintf(`{"jsonrpc":"2.0","id":1,"method":%q,"params":[%s`, method, first)
		if optJSON != "" {
			body += "," + optJSON
		}
		body += "]}"
		resp, _, panicked, pmsg := vfxRPC(h, body)
		rep.Case(tag+"/edge/"+body, true)
		rep.Count("edge-jsonrpc:" + coqM)
		obs := "RProceeds"
		if panicked {
			obs = "RPanic 0"
			rep.Fail("handler-panic:"+method, fmt.Sprintf("%s: %s -> panic: %.300s", tag, body, pmsg), map[string]interface{}{"epochs_loaded": nEpochs, "body": body, "fixture": "edge_txs"})
		} else if r, err := vfxParseReply(resp); err == nil && r.Error != nil {
			switch r.Error.Code {
			case -32602:
				obs = "RInvalidParams"
			case -32601:
				obs = "RMethodNotFound"
			}
		}
		if optCoq != "-" { // "-" = an option object the model has no term for: only "must not panic"
			ps := coqFirst
			if optCoq != "" {
				ps += "; " + optCoq
			}
			cases.Add(fmt.Sprintf("CHttp true %s (PRaw (Some [%s])) (%s)", coqM, ps, obs))
		}
	}
	type opt struct{ json, coq string }
	encs := []opt{{"", ""}}
	for _, e := range []string{"base58", "base64", "base64+zstd", "json"} {
		encs = append(encs, opt{fmt.Sprintf(`{"encoding":%q}`, e), "JObj [(k_encoding, JStr (SEncoding true))]"})
		encs = append(encs, opt{fmt.Sprintf(`{"encoding":%q,"maxSupportedTransactionVersion":0}`, e), "JObj [(k_encoding, JStr (SEncoding true)); (k_maxver, JNum 0%Z)]"})
	}
	encs = append(encs, opt{`{"encoding":"jsonParsed","maxSupportedTransactionVersion":0}`, "-"})
	blockOpts := append([]opt(nil), encs...)
	for _, d := range []string{"full", "signatures", "accounts", "none"} {
		for _, e := range []string{"json", "base64"} {
			blockOpts = append(blockOpts, opt{fmt.Sprintf(`{"encoding":%q,"transactionDetails":%q,"rewards":false,"maxSupportedTransactionVersion":0}`, e, d), "-"})
		}
	}
	call := func(name string, replay map[string]interface{}, f func() error) {
		defer func() {
			if r := recover(); r != nil {
				replay["epochs_loaded"], replay["fixture"] = nEpochs, "edge_txs"
				rep.Fail("grpc-panic:"+name, fmt.Sprintf("%s %s %v: %v", tag, name, replay, r), replay)
			}
		}()
		_ = f()
		rep.Count("edge-grpc:" + name)
	}
	var getReqs []*old_faithful_grpc.GetRequest
	for _, b := range tr.Blocks {
		slot := b.Slot
		for _, o := range blockOpts {
			rpc("getBlock", "MGetBlock", fmt.Sprint(slot), "JNum 0%Z", o.json, o.coq)
		}
		rpc("getBlockTime", "MGetBlockTime", fmt.Sprint(slot), "JNum 0%Z", "", "")
		call("GetBlock", map[string]interface{}{"slot": slot}, func() error {
			_, e := multi.GetBlock(ctx, &old_faithful_grpc.BlockRequest{Slot: slot})
			return e
		})
		call("GetBlockTime", map[string]interface{}{"slot": slot}, func() error {
			_, e := multi.GetBlockTime(ctx, &old_faithful_grpc.BlockTimeRequest{Slot: slot})
			return e
		})
		getReqs = append(getReqs, &old_faithful_grpc.GetRequest{Id: slot, Request: &old_faithful_grpc.GetRequest_Block{Block: &old_faithful_grpc.BlockRequest{Slot: slot}}})
		for _, tx := range b.Txs {
			if tx.Edge == "" {
				continue
			}
			for _, o := range encs {
				rpc("getTransaction", "MGetTransaction", `"`+tx.Sig+`"`, "JStr SSig", o.json, o.coq)
			}
			sig, err := solana.SignatureFromBase58(tx.Sig)
			if err != nil {
				continue
			}
			sigBytes := append([]byte(nil), sig[:]...)
			call("GetTransaction", map[string]interface{}{"signature": tx.Sig, "shape": tx.Edge}, func() error {
				_, e := multi.GetTransaction(ctx, &old_faithful_grpc.TransactionRequest{Signature: sigBytes})
				return e
			})
			getReqs = append(getReqs, &old_faithful_grpc.GetRequest{Id: slot, Request: &old_faithful_grpc.GetRequest_Transaction{Transaction: &old_faithful_grpc.TransactionRequest{Signature: sigBytes}}})
		}
	}
	call("Get(stream)", map[string]interface{}{"requests": len(getReqs)}, func() error {
		return multi.Get(&vc08GetStream{ctx: ctx, reqs: getReqs})
	})
	for _, a := range accounts {
		for _, o := range []opt{{"", ""}, {`{"limit":1000}`, "JObj [(k_limit, JNum 0%Z)]"}} {
			rpc("getSignaturesForAddress", "MGsfa", `"`+a+`"`, "JStr SPubkey", o.json, o.coq)
		}
	}
	first, last := tr.Blocks[0].Slot, tr.Blocks[len(tr.Blocks)-1].Slot
	T, F := true, false
	flags := []*bool{nil, &T, &F}
	ob := func(p *bool) string {
		if p == nil {
			return "None"
		}
		return "(Some " + vh.CoqBool(*p) + ")"
	}
	type accF struct{ inc, exc, req []string }
	accFs := []accF{{}}
	for _, a := range accounts {
		accFs = append(accFs, accF{inc: []string{a}}, accF{exc: []string{a}}, accF{req: []string{a}})
	}
	for _, af := range accFs {
		af := af
		if af.exc == nil && af.req == nil { // the block filter has account_include only
			call("StreamBlocks", map[string]interface{}{"start_slot": first, "end_slot": last, "account_include": af.inc}, func() error {
				req := &old_faithful_grpc.StreamBlocksRequest{StartSlot: first, EndSlot: &last}
				if af.inc != nil {
					req.Filter = &old_faithful_grpc.StreamBlocksFilter{AccountInclude: af.inc}
				}
				return multi.StreamBlocks(req, &vc08BlockStream{ctx: ctx})
			})
		}
		for _, v := range flags {
			for _, fl := range flags {
				req := &old_faithful_grpc.StreamTransactionsRequest{StartSlot: first, EndSlot: &last,
					Filter: &old_faithful_grpc.StreamTransactionsFilter{Vote: v, Failed: fl, AccountInclude: af.inc, AccountExclude: af.exc, AccountRequired: af.req}}
				obs := "GStreams"
				func() {
					defer func() {
						if r := recover(); r != nil {
							obs = "GPanic 0"
							rep.Fail("grpc-panic:StreamTransactions", fmt.Sprintf("%s slots %d..%d (transactions of unusual shapes) filter vote=%s failed=%s inc=%q exc=%q req=%q: %v", tag, first, last, ob(v), ob(fl), af.inc, af.exc, af.req, r),
								map[string]interface{}{"epochs_loaded": nEpochs, "fixture": "edge_txs", "start_slot": first, "end_slot": last, "vote": ob(v), "failed": ob(fl), "account_include": af.inc, "account_exclude": af.exc, "account_required": af.req})
						}
					}()
					err := multi.StreamTransactions(req, &vc08Stream{ctx: ctx})
					if status.Code(err) == codes.InvalidArgument {
						obs = "GInvalidArgument"
					}
				}()
				rep.Case(fmt.Sprintf("%s/edge/grpc/stream/%s/%s/%v", tag, ob(v), ob(fl), af), true)
				rep.Count("edge-grpc:StreamTransactions")
				cases.Add(fmt.Sprintf("CGrpc true (Some {| g_vote := %s; g_failed := %s; g_accounts_wellformed := true |}) (%s)", ob(v), ob(fl), obs))
			}
		}
	}
}
