package main

// Verification harness for C10 (uses fixture_test.go): every index file of an epoch config x every identity
// it carries replaced by that of another epoch / another CAR of the same epoch, singly and in pairs, and files
// swapped between roles; NewEpochFromConfig's accept/reject decision is compared with the model's `load`
// on the identities the harness reads from the files themselves. Index-metadata codec cases are included.
// Root CIDs are substituted both by roots of OTHER content (files of another build) and by "sibling" CIDs over the
// SAME multihash (another codec / CID version) written into copies of the epoch's own files; the configured root
// of Filecoin mode is one more identity. With a CAR the indexes were not built from every CID is fetched
// repeatedly (local file, ReaderAt, local file with a location cache filled from the right CAR).

import (
	"bufio"
	"bytes"
	"context"
	"encoding/binary"
	"fmt"
	"net"
	"net/http"
	"os"
	"path/filepath"
	"strings"
	"testing"

	"github.com/ipfs/go-cid"
	"github.com/multiformats/go-multihash"
	"github.com/rpcpool/yellowstone-faithful/blocktimeindex"
	"github.com/rpcpool/yellowstone-faithful/bucketteer"
	"github.com/rpcpool/yellowstone-faithful/compactindexsized"
	"github.com/rpcpool/yellowstone-faithful/gsfa/manifest"
	hugecache "github.com/rpcpool/yellowstone-faithful/huge-cache"
	"github.com/rpcpool/yellowstone-faithful/indexes"
	"github.com/rpcpool/yellowstone-faithful/indexmeta"
	"github.com/rpcpool/yellowstone-faithful/zzverif/vh"
)

type vc10Files struct {
	Car, C2o, S2c, G2c, Sx, Bt, Gsfa string
}

func vc10FilesOf(tr *vfxTruth) vc10Files {
	return vc10Files{tr.CarPath, tr.Paths.CidToOffsetAndSize, tr.Paths.SlotToCid, tr.Paths.SignatureToCid, tr.Paths.SignatureExists, tr.Paths.SlotToBlocktime, tr.GsfaDir}
}

type vc10Ident struct {
	kind  string // Coq constructor
	epoch *uint64
	root  string // "" = none
}

var vc10Roots = map[string]int{}

func vc10RootID(r string) int {
	if _, ok := vc10Roots[r]; !ok {
		vc10Roots[r] = len(vc10Roots) + 1
	}
	return vc10Roots[r]
}

func (i vc10Ident) coq() string {
	e, r := "None", "None"
	if i.epoch != nil {
		e = fmt.Sprintf("(Some %d%%N)", *i.epoch)
	}
	if i.root != "" {
		r = fmt.Sprintf("(Some %d%%N)", vc10RootID(i.root))
	}
	return fmt.Sprintf("{| i_kind := %s; i_epoch := %s; i_root := %s |}", i.kind, e, r)
}

// vc10Identify reads the identity a file carries, independently of the role it is offered in.
func vc10Identify(path string) vc10Ident {
	unknown := vc10Ident{kind: "KUnknown"}
	st, err := os.Stat(path)
	if err != nil {
		return unknown
	}
	if st.IsDir() {
		return unknown
	}
	// compact index of some kind?
	if f, err := os.Open(path); err == nil {
		db, err := func() (db *compactindexsized.DB, err error) {
			defer func() {
				if r := recover(); r != nil {
					err = fmt.Errorf("panic %v", r)
				}
			}()
			return compactindexsized.Open(f)
		}()
		if err == nil {
			meta := db.Header.Metadata
			var id vc10Ident
			k, _ := meta.Get(indexmeta.MetadataKey_Kind)
			switch string(k) {
			case string(indexes.Kind_CidToOffsetAndSize):
				id.kind = "KCidToOffsetAndSize"
			case string(indexes.Kind_SlotToCid):
				id.kind = "KSlotToCid"
			case string(indexes.Kind_SigToCid):
				id.kind = "KSigToCid"
			case string(indexes.Kind_PubkeyToOffsetAndSize):
				id.kind = "KPubkeyToOffsetAndSize"
			default:
				id.kind = "KUnknown"
			}
			if e, ok := meta.GetUint64(indexmeta.MetadataKey_Epoch); ok {
				id.epoch = &e
			}
			if c, ok := meta.GetCid(indexmeta.MetadataKey_RootCid); ok {
				id.root = c.String()
			}
			f.Close()
			return id
		}
		f.Close()
	}
	if r, err := bucketteer.Open(path); err == nil {
		id := vc10Ident{kind: "KSigExists"}
		if e, ok := r.Meta().GetUint64(indexmeta.MetadataKey_Epoch); ok {
			id.epoch = &e
		}
		if c, ok := r.Meta().GetCid(indexmeta.MetadataKey_RootCid); ok {
			id.root = c.String()
		}
		r.Close()
		return id
	}
	if st.Size() < 4_000_000 {
		if bt, err := blocktimeindex.FromFile(path); err == nil {
			e := bt.Epoch()
			return vc10Ident{kind: "KBlocktime", epoch: &e}
		}
	}
	return unknown
}

func vc10IdentifyGsfa(dir string) (man, offs vc10Ident) {
	man, offs = vc10Ident{kind: "KUnknown"}, vc10Ident{kind: "KUnknown"}
	if m, err := manifest.NewManifest(filepath.Join(dir, "manifest"), indexmeta.Meta{}); err == nil {
		man.kind = "KGsfaManifest"
		meta := m.Meta()
		if e, ok := meta.GetUint64(indexmeta.MetadataKey_Epoch); ok {
			man.epoch = &e
		}
		if c, ok := meta.GetCid(indexmeta.MetadataKey_RootCid); ok {
			man.root = c.String()
		}
		m.Close()
	}
	offs = vc10Identify(filepath.Join(dir, string(indexes.Kind_PubkeyToOffsetAndSize)+".index"))
	return
}

func vc10Try(dir string, epoch uint64, f vc10Files) error {
	tr := &vfxTruth{Spec: vfxSpec{Epoch: epoch}, GsfaDir: f.Gsfa,
		Paths: IndexPaths{CidToOffsetAndSize: f.C2o, SlotToCid: f.S2c, SignatureToCid: f.G2c, SignatureExists: f.Sx, SlotToBlocktime: f.Bt}}
	cfgPath := filepath.Join(dir, "try.yml")
	_ = os.WriteFile(cfgPath, []byte(vfxConfigYaml(tr, f.Car)), 0o644)
	ep, err := vfxLoadConfigFile(cfgPath, vfxSharedCache())
	if err == nil {
		ep.Close()
	}
	return err
}

var vc10Roles = []string{"c2o", "s2c", "g2c", "sx", "bt"}

func vc10Role(f *vc10Files, r string) *string {
	switch r {
	case "c2o":
		return &f.C2o
	case "s2c":
		return &f.S2c
	case "g2c":
		return &f.G2c
	case "sx":
		return &f.Sx
	default:
		return &f.Bt
	}
}

// vc10JudgeLoad judges the outcome err of one NewEpochFromConfig call (configured epoch cfgEpoch, files v.f): a CLoad
// case for the model (identities read from the files themselves) and the property oracle: an accepted configuration has
// only files of the right kind, of the configured epoch and (where a root is recorded) of one and the same root CID.
// keyPrefix/sigSuffix/when distinguish the situations the same configuration is tried in (nothing but the files and the
// configured epoch enters the model's decision: a reject is a reject whatever this process has loaded before).
func vc10JudgeLoad(rep *vh.Report, cases *vh.CasesFile, keyPrefix string, cfgEpoch uint64, v vc10Variant, err error, sigSuffix, when string) (accepted bool) {
	roles, get := vc10Roles, vc10Role
	accepted = err == nil
	rep.Case(keyPrefix+v.name, true)
	if accepted {
		rep.Count("accepted")
	} else {
		rep.Count("rejected")
	}
	// model input: identities read from the files themselves
	gs := "None"
	var man, offs vc10Ident
	if v.f.Gsfa != "" {
		man, offs = vc10IdentifyGsfa(v.f.Gsfa)
		gs = fmt.Sprintf("(Some (%s, %s))", man.coq(), offs.coq())
	}
	ids := map[string]vc10Ident{}
	for _, r := range roles {
		ids[r] = vc10Identify(*get(&v.f, r))
	}
	cases.Add(fmt.Sprintf("CLoad {| c_epoch := %d%%N; c_c2o := %s; c_s2c := %s; c_g2c := %s; c_gsfa := %s; c_sx := %s; c_bt := %s |} %s",
		cfgEpoch, ids["c2o"].coq(), ids["s2c"].coq(), ids["g2c"].coq(), gs, ids["sx"].coq(), ids["bt"].coq(), vh.CoqBool(accepted)))
	if !accepted {
		return false
	}
	replay := map[string]interface{}{"variant": v.name, "files": v.f, "config_epoch": cfgEpoch}
	if when != "" {
		replay["when"] = when
		when = " (" + when + ")"
	}
	var bad []string
	root := ids["c2o"].root
	wantKind := map[string]string{"c2o": "KCidToOffsetAndSize", "s2c": "KSlotToCid", "g2c": "KSigToCid", "sx": "KSigExists", "bt": "KBlocktime"}
	for _, r := range roles {
		id := ids[r]
		if id.kind != wantKind[r] {
			bad = append(bad, r+": kind "+id.kind)
		}
		if id.epoch == nil || *id.epoch != cfgEpoch {
			bad = append(bad, r+": epoch "+vc10E(id.epoch))
		}
		if r != "bt" && id.root != root {
			bad = append(bad, r+": root CID")
		}
	}
	if v.f.Gsfa != "" {
		if man.epoch == nil || *man.epoch != cfgEpoch || man.root != root {
			bad = append(bad, "gsfa manifest: epoch/root")
		}
		if offs.kind != "KPubkeyToOffsetAndSize" {
			bad = append(bad, "gsfa pubkey index: kind "+offs.kind)
		}
		if offs.epoch == nil || *offs.epoch != cfgEpoch || offs.root != root {
			rep.Fail("gsfa-pubkey-index-of-other-epoch-or-car-accepted"+sigSuffix,
				fmt.Sprintf("variant %s%s: NewEpochFromConfig accepted an address index whose pubkey-to-offset-and-size index records epoch %v root %s (config epoch %d, root %s)", v.name, when, vc10E(offs.epoch), offs.root, cfgEpoch, root),
				replay)
		}
	}
	if len(bad) > 0 {
		rep.Fail("foreign-index-accepted"+sigSuffix, fmt.Sprintf("variant %s%s (config epoch %d) accepted although: %s", v.name, when, cfgEpoch, strings.Join(bad, "; ")), replay)
	}
	return true
}

func TestVerif_C10(t *testing.T) {
	rep := vh.NewReport("C10", "load",
		"epoch A (config epoch 2) with every index file x {file of another epoch, file of another CAR of the same epoch} singly and in pairs, the address-index directory with only its pubkey index / only its manifest replaced, files offered in the wrong role, the CAR replaced; the epoch's own files with only the recorded root CID replaced by a sibling CID (same multihash; raw / dag-pb / dag-json codec, CIDv0) in each root-recording file singly, in every pair (same sibling, two siblings) and in all files; Filecoin mode with the configured root replaced (other CAR's root, siblings) and with all indexes of another root; a case = one NewEpochFromConfig call, or one GetNodeByCid through indexes of epoch A and a CAR they were not built from (other CAR / two equal-length sections exchanged / equal-length sections rotated; local file, ReaderAt, warm location cache; every CID fetched 6 times); all combinations enumerated (finite space)")
	cases := vh.NewCases("cases_c10", []string{"YF.C10_Load"}, "case", "check")
	rep.Exhaustive = true
	seed := vh.Seed()
	a := vfxDefaultSpec("c10a", 2, seed)
	b := vfxDefaultSpec("c10b", 3, seed+1)
	c := vfxDefaultSpec("c10c", 2, seed+2)
	c.Variant = 1
	z := vfxDefaultSpec("c10z", 0, seed+3) // epoch 0: a recorded 0 must not read as "nothing recorded"
	for _, s := range []*vfxSpec{&a, &b, &c, &z} {
		s.NumSlots, s.Gsfa = 12, true
	}
	truths, err := vfxBuild([]vfxSpec{a, b, c, z})
	if err != nil {
		t.Fatalf("setup failed: %v", err)
	}
	for _, tr := range truths {
		if tr.BuildErr != "" {
			t.Fatalf("setup failed: fixture %s: %s", tr.Spec.Name, tr.BuildErr)
		}
	}
	A, B, C, Z := vc10FilesOf(truths[0]), vc10FilesOf(truths[1]), vc10FilesOf(truths[2]), vc10FilesOf(truths[3])
	work := filepath.Join(vh.OutDir(), "c10work")
	_ = os.MkdirAll(work, 0o755)
	// mixed address-index directories
	mix := func(name string, manFrom, offsFrom string) string {
		d := filepath.Join(work, name)
		_ = os.MkdirAll(d, 0o755)
		for _, fn := range []string{"manifest", "linked-log", string(indexes.Kind_PubkeyToOffsetAndSize) + ".index"} {
			src := filepath.Join(manFrom, fn)
			if strings.HasSuffix(fn, ".index") {
				src = filepath.Join(offsFrom, fn)
			}
			data, err := os.ReadFile(src)
			if err != nil {
				t.Fatalf("setup failed: %v", err)
			}
			_ = os.WriteFile(filepath.Join(d, fn), data, 0o644)
		}
		return d
	}
	gsfaVariants := map[string]string{
		"own": A.Gsfa, "other-epoch": B.Gsfa, "other-car": C.Gsfa, "epoch-zero": Z.Gsfa, "pubkey-index-of-epoch-zero": mix("g8", A.Gsfa, Z.Gsfa),
		"pubkey-index-of-other-epoch": mix("g1", A.Gsfa, B.Gsfa), "pubkey-index-of-other-car": mix("g2", A.Gsfa, C.Gsfa),
		"manifest-of-other-epoch": mix("g3", B.Gsfa, A.Gsfa), "manifest-of-other-car": mix("g4", C.Gsfa, A.Gsfa), "none": "",
	}
	// a manifest of the format before metadata existed (version 1: magic, version, records): it cannot say which
	// epoch / CAR it belongs to, so the directory must not be accepted
	legacy := func(name, from string) string {
		d := mix(name, from, from)
		mp := filepath.Join(d, "manifest")
		data, err := os.ReadFile(mp)
		if err != nil || len(data) < 16 {
			t.Fatalf("setup failed: manifest: %v", err)
		}
		var meta indexmeta.Meta
		if err := meta.UnmarshalWithDecoder(bufio.NewReader(bytes.NewReader(data[16:]))); err != nil {
			t.Fatalf("setup failed: manifest metadata: %v", err)
		}
		body := data[16+len(meta.Bytes()):]
		out := append([]byte(nil), data[:8]...)
		out = binary.LittleEndian.AppendUint64(out, 1)
		out = append(out, body...)
		_ = os.WriteFile(mp, out, 0o644)
		return d
	}
	gsfaVariants["legacy-manifest-v1"] = legacy("g5", A.Gsfa)
	gsfaVariants["legacy-manifest-v1-of-other-epoch"] = legacy("g6", B.Gsfa)
	gsfaVariants["legacy-manifest-v1,pubkey-index-of-other-epoch"] = legacy("g7", mix("g7src", A.Gsfa, B.Gsfa))
	type variant = vc10Variant
	var variants []variant
	variants = append(variants, variant{"baseline", A})
	roles, get := vc10Roles, vc10Role
	others := []struct {
		name string
		f    vc10Files
	}{{"other-epoch", B}, {"other-car", C}, {"epoch-zero", Z}}
	// single swaps and pairs
	for _, o1 := range others {
		for i, r1 := range roles {
			x := A
			*get(&x, r1) = *get(&o1.f, r1)
			variants = append(variants, variant{fmt.Sprintf("%s:=%s", r1, o1.name), x})
			for _, o2 := range others {
				for _, r2 := range roles[i+1:] {
					y := x
					*get(&y, r2) = *get(&o2.f, r2)
					variants = append(variants, variant{fmt.Sprintf("%s:=%s,%s:=%s", r1, o1.name, r2, o2.name), y})
				}
			}
		}
	}
	// address index variants, alone and together with one other swap
	for gname, g := range gsfaVariants {
		x := A
		x.Gsfa = g
		variants = append(variants, variant{"gsfa:=" + gname, x})
		for _, r := range roles {
			y := x
			*get(&y, r) = *get(&B, r)
			variants = append(variants, variant{fmt.Sprintf("gsfa:=%s,%s:=other-epoch", gname, r), y})
		}
	}
	// role swaps: every file offered in every other role
	for _, r1 := range roles {
		for _, r2 := range roles {
			if r1 == r2 {
				continue
			}
			x := A
			*get(&x, r1) = *get(&A, r2)
			variants = append(variants, variant{fmt.Sprintf("%s:=own-%s", r1, r2), x})
		}
	}
	{
		x := A
		x.C2o = filepath.Join(A.Gsfa, string(indexes.Kind_PubkeyToOffsetAndSize)+".index")
		variants = append(variants, variant{"c2o:=own-pubkey-index", x})
	}
	// everything from the other epoch except the config epoch number
	variants = append(variants, variant{"all:=other-epoch", vc10Files{A.Car, B.C2o, B.S2c, B.G2c, B.Sx, B.Bt, B.Gsfa}})
	variants = append(variants, variant{"all:=other-car", vc10Files{A.Car, C.C2o, C.S2c, C.G2c, C.Sx, C.Bt, C.Gsfa}})
	// sibling root CIDs: the epoch's OWN files in which only the recorded root CID is replaced by a CID over the same
	// multihash with another codec / CID version (a different root CID): singly, in pairs, and in all files at once
	// (the only consistent set: one common root CID again)
	sibVariants, sibNotes := vc10SiblingVariants(work, A, truths[0].RootCid)
	for _, n := range sibNotes {
		rep.Note("%s", n)
	}
	variants = append(variants, sibVariants...)
	rep.CountN("sibling-root-cid variants", len(sibVariants))

	for _, v := range variants {
		err := vc10Try(work, 2, v.f)
		accepted := vc10JudgeLoad(rep, cases, "load/", 2, v, err, "", "")
		if accepted {
			// the files whose recorded root CID was rewritten are otherwise the epoch's own: they still serve its objects
			if strings.HasPrefix(v.name, "all:=own-but-root-cid-") {
				cfgPath := filepath.Join(work, "try.yml") // written by vc10Try just above
				if bad, lerr := vc10WarmCache(cfgPath, vfxNewCache(), truths[0].Objects, vc10StoredBytes(A.Car, truths[0].Objects)); lerr != nil || bad > 0 {
					rep.Note("variant %s: accepted, but %d of %d objects are not served through the rewritten files (load error %v)", v.name, bad, len(truths[0].Objects), lerr)
				} else {
					rep.Count("rewritten-root files serve every object")
				}
			}
		} else if v.name == "baseline" || v.name == "gsfa:=none" {
			rep.Fail("own-indexes-rejected", fmt.Sprintf("variant %s: %v", v.name, err), map[string]interface{}{"variant": v.name})
		}
		if len(rep.Samples) < 4 && (v.name == "baseline" || strings.HasPrefix(v.name, "sx:=other-car") || strings.HasPrefix(v.name, "gsfa:=pubkey")) {
			rep.Sample(map[string]interface{}{"variant": v.name, "accepted": accepted, "error": fmt.Sprint(err)})
		}
	}
	// ---- the same decisions whatever was loaded before: every single-file substitution again while the epoch the
	// foreign file comes from is loaded in this process, and after it has been loaded and closed (c10hist_test.go)
	vc10HistoryCases(rep, cases, work, truths)
	// ---- identity written at build time is read back unchanged
	for _, tr := range truths {
		if r, err := indexes.Open_CidToOffsetAndSize(tr.Paths.CidToOffsetAndSize); err == nil {
			m := r.Meta()
			if m.Epoch != tr.Spec.Epoch || m.RootCid.String() != tr.RootCid || m.Network != indexes.NetworkMainnet || !bytes.Equal(m.IndexKind, indexes.Kind_CidToOffsetAndSize) {
				rep.Fail("identity-not-read-back", fmt.Sprintf("%s cid-to-offset: epoch %d root %s network %s kind %s", tr.Spec.Name, m.Epoch, m.RootCid, m.Network, m.IndexKind), nil)
			}
			r.Close()
		}
		rep.Case("identity/"+tr.Spec.Name, true)
	}
	// ---- Filecoin mode: the configured root CID is one more identity the indexes are compared with
	vc10FilecoinCases(rep, work, A, C, truths[0].RootCid, truths[2].RootCid)
	// ---- wrong CAR: CID-addressed fetches fail rather than return another object's bytes — on the first fetch of a
	// CID and on every later one (every CID is fetched several times through the same Epoch)
	vc10WrongCarCases(rep, work, A, C, truths[0])
	// ---- metadata codec
	rng := vh.NewRng(seed + 3)
	for i := 0; i < 60; i++ {
		var m indexmeta.Meta
		n := rng.Pick(0, 1, 2, 3, 5, 255, 256)
		if i > 50 {
			n = rng.Intn(4)
		}
		var kvs []string
		for j := 0; j < n; j++ {
			kl, vl := rng.Pick(0, 1, 4, 9), rng.Pick(0, 1, 8, 36)
			if n <= 3 && rng.Intn(6) == 0 {
				kl = rng.Pick(255, 256)
			}
			if n <= 3 && rng.Intn(6) == 0 {
				vl = rng.Pick(255, 256, 300)
			}
			k, v := rng.Bytes(kl), rng.Bytes(vl)
			m.KeyVals = append(m.KeyVals, indexmeta.KV{Key: k, Value: v})
			kvs = append(kvs, fmt.Sprintf("(%s, %s)", vh.CoqBytes(k), vh.CoqBytes(v)))
		}
		enc, err := m.MarshalBinary()
		obs := "None"
		if err == nil {
			obs = "(Some " + vh.CoqBytes(enc) + ")"
			var back indexmeta.Meta
			if derr := back.UnmarshalBinary(enc); derr != nil || len(back.KeyVals) != len(m.KeyVals) {
				rep.Fail("metadata-roundtrip", fmt.Sprintf("%d pairs: %v", n, derr), nil)
			}
		}
		rep.Case(fmt.Sprintf("meta/%d/%d", i, n), true)
		if n <= 8 {
			cases.Add(fmt.Sprintf("CMeta %s %s", vh.CoqList(kvs), obs))
		}
		// decoding arbitrary / truncated bytes
		raw := rng.Bytes(rng.Intn(24))
		if err == nil && len(enc) > 0 && len(enc) < 200 && rng.Bool() {
			raw = enc[:rng.Intn(len(enc)+1)]
		}
		var dm indexmeta.Meta
		var derr error
		func() {
			defer func() {
				if r := recover(); r != nil {
					derr = fmt.Errorf("panic: %v", r)
					rep.Fail("metadata-decode-panic", fmt.Sprintf("%x: %v", raw, r), nil)
				}
			}()
			derr = dm.UnmarshalBinary(raw)
		}()
		o := "None"
		if derr == nil {
			var l []string
			for _, kv := range dm.KeyVals {
				l = append(l, fmt.Sprintf("(%s, %s)", vh.CoqBytes(kv.Key), vh.CoqBytes(kv.Value)))
			}
			o = "(Some " + vh.CoqList(l) + ")"
		}
		cases.Add(fmt.Sprintf("CMetaDec %s %s", vh.CoqBytes(raw), o))
	}
	if err := cases.Write(); err != nil {
		t.Fatal(err)
	}
	rep.CasesWritten(cases)
	if err := rep.Write(); err != nil {
		t.Fatal(err)
	}
}

func vc10E(p *uint64) string {
	if p == nil {
		return "none"
	}
	return fmt.Sprint(*p)
}

func vc01DataLenC10(car []byte, o vfxObj) uint64 {
	w := uint64(0)
	for i := o.Offset; ; i++ {
		w++
		if car[i] < 0x80 {
			break
		}
	}
	return o.SecLen - w - uint64(o.CidLen)
}

// ---------------------------------------------------------------- helpers (sibling root CIDs, repeated wrong-CAR fetches)
// These live in this file because C13 also maps this file into its build.
//  (1) "sibling" root CIDs — same multihash as the epoch's root, another multicodec / CID version — written into ONE
//      identity field of an otherwise unchanged copy of an index file (compact index, sig-exists, gsfa manifest):
//      a sibling CID is a different root CID, so a load that mixes it with the epoch's own files must be rejected
//      exactly like a root of other content;
//  (2) repeated CID-addressed fetches through one Epoch whose CAR is not the one the indexes were built from: every
//      answer of every round is judged by the same oracle (the bytes stored under the requested CID, or an error).
// The rewriting works on the bytes of the files with its own reading of the metadata layout (count byte, then per
// pair: key-length byte, key, value-length byte, value), not with the tree's indexmeta code.

// ---------------------------------------------------------------- sibling CIDs

type vc10Sibling struct {
	Name string
	Cid  cid.Cid
}

// vc10Siblings: the CIDs over the multihash of root that differ from root in codec and/or version.
func vc10Siblings(root cid.Cid) []vc10Sibling {
	var out []vc10Sibling
	add := func(name string, mk func() cid.Cid) {
		defer func() { _ = recover() }() // a constructor may refuse a multihash (CIDv0 takes sha2-256 only)
		c := mk()
		if c.Defined() && !c.Equals(root) && bytes.Equal(c.Hash(), root.Hash()) {
			for _, o := range out {
				if o.Cid.Equals(c) {
					return
				}
			}
			out = append(out, vc10Sibling{name, c})
		}
	}
	h := root.Hash()
	add("v1-raw", func() cid.Cid { return cid.NewCidV1(cid.Raw, h) })
	add("v1-dag-pb", func() cid.Cid { return cid.NewCidV1(cid.DagProtobuf, h) })
	add("v1-dag-cbor", func() cid.Cid { return cid.NewCidV1(cid.DagCBOR, h) })
	add("v1-dag-json", func() cid.Cid { return cid.NewCidV1(cid.DagJSON, h) }) // two-byte codec: the CID is one byte longer
	add("v0", func() cid.Cid {
		dec, err := multihash.Decode(h)
		if err != nil || dec.Code != multihash.SHA2_256 || dec.Length != 32 {
			return cid.Undef
		}
		return cid.NewCidV0(h) // the bare multihash: two bytes shorter
	})
	return out
}

// ---------------------------------------------------------------- metadata rewriting

// vc10MetaSetValue reads the metadata block at the start of b and returns it re-encoded with the value of the first
// pair with the given key replaced, together with the number of bytes the original block occupies.
func vc10MetaSetValue(b []byte, key, val []byte) (out []byte, used int, err error) {
	if len(b) < 1 {
		return nil, 0, fmt.Errorf("metadata: empty")
	}
	if len(val) > 255 {
		return nil, 0, fmt.Errorf("metadata: value too long")
	}
	n, p, found := int(b[0]), 1, false
	out = []byte{b[0]}
	for i := 0; i < n; i++ {
		if p >= len(b) {
			return nil, 0, fmt.Errorf("metadata: truncated at pair %d", i)
		}
		kl := int(b[p])
		if p+1+kl >= len(b) {
			return nil, 0, fmt.Errorf("metadata: truncated key at pair %d", i)
		}
		k := b[p+1 : p+1+kl]
		p += 1 + kl
		vl := int(b[p])
		if p+1+vl > len(b) {
			return nil, 0, fmt.Errorf("metadata: truncated value at pair %d", i)
		}
		v := b[p+1 : p+1+vl]
		p += 1 + vl
		if !found && bytes.Equal(k, key) {
			v, found = val, true
		}
		out = append(out, byte(len(k)))
		out = append(out, k...)
		out = append(out, byte(len(v)))
		out = append(out, v...)
	}
	if !found {
		return nil, 0, fmt.Errorf("metadata: no %q pair", key)
	}
	return out, p, nil
}

// compact index: magic(8) | u32 length of the rest of the header | value size(8) | buckets(4) | version(1) | metadata |
// bucket table (16 bytes per bucket, bytes 10..15 = ABSOLUTE file offset of the bucket's entries) | entries.
func vc10RewriteCompactIndex(data []byte, key, val []byte) ([]byte, error) {
	if len(data) < 26 || !bytes.Equal(data[:8], compactindexsized.Magic[:]) {
		return nil, fmt.Errorf("not a compact index")
	}
	l := int(binary.LittleEndian.Uint32(data[8:12]))
	hdrEnd := 12 + l
	if l < 14 || hdrEnd > len(data) {
		return nil, fmt.Errorf("compact index: header length %d", l)
	}
	nb := int(binary.LittleEndian.Uint32(data[20:24]))
	meta, used, err := vc10MetaSetValue(data[25:hdrEnd], key, val)
	if err != nil {
		return nil, err
	}
	if used != hdrEnd-25 {
		return nil, fmt.Errorf("compact index: metadata occupies %d of %d header bytes", used, hdrEnd-25)
	}
	tblEnd := hdrEnd + nb*16
	if nb <= 0 || tblEnd > len(data) {
		return nil, fmt.Errorf("compact index: bucket table out of range")
	}
	d := len(meta) - used
	out := append([]byte(nil), data[:8]...)
	out = binary.LittleEndian.AppendUint32(out, uint32(l+d))
	out = append(out, data[12:25]...)
	out = append(out, meta...)
	tbl := append([]byte(nil), data[hdrEnd:tblEnd]...)
	for i := 0; i < nb; i++ {
		f := tbl[i*16+10 : i*16+16]
		var off uint64
		for j := 5; j >= 0; j-- {
			off = off<<8 | uint64(f[j])
		}
		off = uint64(int64(off) + int64(d))
		for j := 0; j < 6; j++ {
			f[j] = byte(off >> (8 * j))
		}
	}
	out = append(out, tbl...)
	out = append(out, data[tblEnd:]...)
	return out, nil
}

// sig-exists: u32 header size | header = magic(8) version(8) metadata prefix table | content (offsets relative to its start).
func vc10RewriteSigExists(data []byte, key, val []byte) ([]byte, error) {
	if len(data) < 21 {
		return nil, fmt.Errorf("sig-exists: too short")
	}
	hs := int(binary.LittleEndian.Uint32(data[:4]))
	if hs < 17 || 4+hs > len(data) {
		return nil, fmt.Errorf("sig-exists: header size %d", hs)
	}
	meta, used, err := vc10MetaSetValue(data[20:4+hs], key, val)
	if err != nil {
		return nil, err
	}
	out := binary.LittleEndian.AppendUint32(nil, uint32(hs+len(meta)-used))
	out = append(out, data[4:20]...)
	out = append(out, meta...)
	out = append(out, data[20+used:]...)
	return out, nil
}

// gsfa manifest: magic(8) version(8) metadata | 16-byte records.
func vc10RewriteManifest(data []byte, key, val []byte) ([]byte, error) {
	if len(data) < 17 {
		return nil, fmt.Errorf("manifest: too short")
	}
	meta, used, err := vc10MetaSetValue(data[16:], key, val)
	if err != nil {
		return nil, err
	}
	out := append([]byte(nil), data[:16]...)
	out = append(out, meta...)
	out = append(out, data[16+used:]...)
	return out, nil
}

// vc10Rewriters: role -> rewriting function ("man"/"offs" are the two files of the address-index directory).
var vc10Rewriters = map[string]func([]byte, []byte, []byte) ([]byte, error){
	"c2o": vc10RewriteCompactIndex, "s2c": vc10RewriteCompactIndex, "g2c": vc10RewriteCompactIndex, "offs": vc10RewriteCompactIndex,
	"sx": vc10RewriteSigExists, "man": vc10RewriteManifest,
}

const vc10OffsName = "pubkey-to-offset-and-size.index"

func vc10GsfaFile(dir, role string) string {
	if role == "man" {
		return filepath.Join(dir, "manifest")
	}
	return filepath.Join(dir, string(indexes.Kind_PubkeyToOffsetAndSize)+".index")
}

// vc10WithRoot returns the path of a copy of the role's file of f (for "man"/"offs": of a copy of the address-index
// directory) whose recorded root CID is c and which is otherwise the file itself. selfcheck: rewriting the recorded
// root CID with itself must reproduce the file byte for byte.
func vc10WithRoot(work string, f vc10Files, role string, tag string, c cid.Cid, own cid.Cid) (string, error) {
	src := ""
	switch role {
	case "c2o":
		src = f.C2o
	case "s2c":
		src = f.S2c
	case "g2c":
		src = f.G2c
	case "sx":
		src = f.Sx
	case "man", "offs":
		src = vc10GsfaFile(f.Gsfa, role)
	}
	data, err := os.ReadFile(src)
	if err != nil {
		return "", err
	}
	rw := vc10Rewriters[role]
	same, err := rw(data, indexmeta.MetadataKey_RootCid, own.Bytes())
	if err != nil {
		return "", fmt.Errorf("%s: %w", role, err)
	}
	if !bytes.Equal(same, data) {
		return "", fmt.Errorf("%s: the file does not record the root CID %s in the expected place (rewriting it with itself changes the file)", role, own)
	}
	out, err := rw(data, indexmeta.MetadataKey_RootCid, c.Bytes())
	if err != nil {
		return "", fmt.Errorf("%s: %w", role, err)
	}
	if role == "man" || role == "offs" {
		d := filepath.Join(work, "sib-"+tag+"-"+role)
		_ = os.MkdirAll(d, 0o755)
		ents, err := os.ReadDir(f.Gsfa)
		if err != nil {
			return "", err
		}
		for _, e := range ents {
			if e.IsDir() {
				continue
			}
			b, err := os.ReadFile(filepath.Join(f.Gsfa, e.Name()))
			if err != nil {
				return "", err
			}
			if filepath.Join(f.Gsfa, e.Name()) == src {
				b = out
			}
			if err := os.WriteFile(filepath.Join(d, e.Name()), b, 0o644); err != nil {
				return "", err
			}
		}
		return d, nil
	}
	dst := filepath.Join(work, "sib-"+tag+"-"+role+filepath.Ext(src))
	if err := os.WriteFile(dst, out, 0o644); err != nil {
		return "", err
	}
	return dst, nil
}

type vc10Variant struct {
	name string
	f    vc10Files
}

var vc10SibRoles = []string{"c2o", "s2c", "g2c", "sx", "man", "offs"}

type vc10Assign struct {
	role string
	sib  vc10Sibling
}

// vc10SibSet builds rewritten copies on demand and keeps them (one copy per role x sibling; one directory per
// assignment of siblings to {manifest, pubkey index}).
type vc10SibSet struct {
	work  string
	f     vc10Files
	own   cid.Cid
	paths map[string]string
}

func (s *vc10SibSet) with(as []vc10Assign) (vc10Files, error) {
	x := s.f
	gs := ""
	for _, a := range as {
		r, sib := a.role, a.sib
		if r == "man" || r == "offs" {
			gs += "+" + r + "=" + sib.Name
			if _, ok := s.paths[gs]; !ok {
				y := s.f
				y.Gsfa = x.Gsfa
				p, err := vc10WithRoot(s.work, y, r, gs[1:], sib.Cid, s.own)
				if err != nil {
					return x, err
				}
				s.paths[gs] = p
			}
			x.Gsfa = s.paths[gs]
			continue
		}
		key := r + "=" + sib.Name
		if _, ok := s.paths[key]; !ok {
			p, err := vc10WithRoot(s.work, s.f, r, key, sib.Cid, s.own)
			if err != nil {
				return x, err
			}
			s.paths[key] = p
		}
		switch r {
		case "c2o":
			x.C2o = s.paths[key]
		case "s2c":
			x.S2c = s.paths[key]
		case "g2c":
			x.G2c = s.paths[key]
		case "sx":
			x.Sx = s.paths[key]
		}
	}
	return x, nil
}

// vc10SiblingVariants: for every sibling of the epoch's root CID: each root-recording file alone, each pair of them
// (the same sibling in both, and two different siblings), and all of them, carrying the sibling instead of the root;
// everything else is the epoch's own.
func vc10SiblingVariants(work string, f vc10Files, rootStr string) (out []vc10Variant, notes []string) {
	root, err := cid.Decode(rootStr)
	if err != nil {
		return nil, []string{fmt.Sprintf("sibling root CIDs not exercised: root CID %q: %v", rootStr, err)}
	}
	sibs := vc10Siblings(root)
	if len(sibs) == 0 {
		return nil, []string{"sibling root CIDs not exercised: no sibling of " + rootStr}
	}
	set := &vc10SibSet{work: work, f: f, own: root, paths: map[string]string{}}
	roles := vc10SibRoles
	if f.Gsfa == "" {
		roles = roles[:4]
	}
	skipped := map[string]bool{}
	add := func(as ...vc10Assign) {
		x, err := set.with(as)
		if err != nil {
			if !skipped[err.Error()] {
				skipped[err.Error()] = true
				notes = append(notes, "sibling root CID variant skipped: "+err.Error())
			}
			return
		}
		name := ""
		for i, a := range as {
			if i > 0 {
				name += ","
			}
			name += a.role + ":=own-but-root-cid-" + a.sib.Name
		}
		if len(as) == len(roles) {
			name = "all:=own-but-root-cid-" + as[0].sib.Name
		}
		out = append(out, vc10Variant{name, x})
	}
	for k, sib := range sibs {
		other := sibs[(k+1)%len(sibs)]
		for i, r1 := range roles {
			add(vc10Assign{r1, sib})
			for _, r2 := range roles[i+1:] {
				add(vc10Assign{r1, sib}, vc10Assign{r2, sib})
				if len(sibs) > 1 {
					add(vc10Assign{r1, sib}, vc10Assign{r2, other})
				}
			}
		}
		var all []vc10Assign
		for _, r := range roles {
			all = append(all, vc10Assign{r, sib})
		}
		add(all...)
	}
	return out, notes
}

// ---------------------------------------------------------------- Filecoin mode (configured root CID)

// vc10FilecoinYaml: a Filecoin-mode config (no CAR, no cid-to-offset-and-size index) with the given configured root.
func vc10FilecoinYaml(epoch uint64, f vc10Files, root string) string {
	cfg := fmt.Sprintf("epoch: %d\nversion: 1\ndata:\n  filecoin:\n    enable: true\n    root_cid: %s\nindexes:\n  slot_to_cid:\n    uri: '%s'\n  sig_to_cid:\n    uri: '%s'\n  sig_exists:\n    uri: '%s'\n  slot_to_blocktime:\n    uri: '%s'\n",
		epoch, root, f.S2c, f.G2c, f.Sx, f.Bt)
	if f.Gsfa != "" {
		cfg += fmt.Sprintf("  gsfa:\n    uri: '%s'\n", f.Gsfa)
	}
	return cfg
}

func vc10TryFilecoin(dir string, epoch uint64, f vc10Files, root string) error {
	cfgPath := filepath.Join(dir, "try-filecoin.yml")
	_ = os.WriteFile(cfgPath, []byte(vc10FilecoinYaml(epoch, f, root)), 0o644)
	ep, err := vfxLoadConfigFile(cfgPath, vfxSharedCache())
	if err == nil {
		ep.Close()
	}
	return err
}

// ---------------------------------------------------------------- repeated fetches from a CAR the indexes were not built from

type vc10FetchTally struct {
	Wrong, Failed, Right int
	FirstWrong           map[string]interface{}
}

// vc10FetchRounds fetches every object of objs by CID `rounds` times through ep (all objects, then all objects again, ...)
// and then each object three more times back to back. want(o) = the bytes stored under o's CID in the CAR the indexes
// were built from. An answer is right (those bytes), failed (an error or a panic) or wrong (any other bytes).
func vc10FetchRounds(rep *vh.Report, ep *Epoch, objs []vfxObj, want func(vfxObj) []byte, key string, rounds int) vc10FetchTally {
	var t vc10FetchTally
	one := func(o vfxObj, sched string, n int) {
		var got []byte
		var gerr error
		func() {
			defer func() {
				if r := recover(); r != nil {
					gerr = fmt.Errorf("panic: %v", r)
				}
			}()
			got, gerr = ep.GetNodeByCid(context.Background(), vfxCidFromHex(o.Cid))
		}()
		rep.Case(fmt.Sprintf("%s/%s%d/%s", key, sched, n, o.Cid), true)
		switch {
		case gerr != nil:
			t.Failed++
		case bytes.Equal(got, want(o)):
			t.Right++
		default:
			t.Wrong++
			if t.FirstWrong == nil {
				t.FirstWrong = map[string]interface{}{"cid": vfxCidFromHex(o.Cid).String(), "schedule": sched, "fetch_number_of_this_cid": n + 1,
					"returned_len": len(got), "stored_len": len(want(o))}
			}
		}
	}
	for r := 0; r < rounds; r++ {
		for _, o := range objs {
			one(o, "round", r)
		}
	}
	for _, o := range objs {
		for n := 0; n < 3; n++ {
			one(o, "again", rounds+n)
		}
	}
	return t
}

// vc10StoredBytes: o -> the bytes stored under o's CID in the CAR file at path (the CAR the objects were listed from).
func vc10StoredBytes(path string, objs []vfxObj) func(vfxObj) []byte {
	car, _ := os.ReadFile(path)
	return func(o vfxObj) []byte {
		if o.Offset+o.SecLen > uint64(len(car)) {
			return nil
		}
		return car[o.Offset+o.SecLen-vc01DataLenC10(car, o) : o.Offset+o.SecLen]
	}
}

// vc10WarmCache loads the epoch of the given config with the cache and fetches every object once (this is the process
// serving the epoch from its own CAR before the CAR is replaced); returns how many fetches did not give the stored bytes.
func vc10WarmCache(cfgPath string, cache *hugecache.Cache, objs []vfxObj, want func(vfxObj) []byte) (int, error) {
	ep, err := vfxLoadConfigFile(cfgPath, cache)
	if err != nil {
		return 0, err
	}
	defer ep.Close()
	bad := 0
	for _, o := range objs {
		got, gerr := ep.GetNodeByCid(context.Background(), vfxCidFromHex(o.Cid))
		if gerr != nil || !bytes.Equal(got, want(o)) {
			bad++
		}
	}
	return bad, nil
}

// vc10FilecoinCases: epoch A in Filecoin mode (slot-to-cid, sig-to-cid, sig-exists, block times, address index; no CAR).
// Baseline: the configured root CID is the one the indexes record. Then (a) the configured root replaced by the root
// of another CAR and by each sibling of the epoch's root, the files being the epoch's own; (b) the configured root is
// the epoch's and EVERY index records one and the same other root CID (only the comparison with the configured root
// can notice). Every such load must be rejected. When the baseline does not load in this environment (the Filecoin
// retrieval client needs a libp2p host), nothing can be concluded and the block is skipped with a note.
func vc10FilecoinCases(rep *vh.Report, work string, A, C vc10Files, rootA, rootC string) {
	root, err := cid.Decode(rootA)
	if err != nil {
		rep.Note("Filecoin mode not exercised: root CID %q: %v", rootA, err)
		return
	}
	if err := vc10TryFilecoin(work, 2, A, rootA); err != nil {
		rep.Note("Filecoin mode not exercised (the epoch's own indexes with its own configured root do not load here): %v", err)
		return
	}
	rep.Case("filecoin/baseline", true)
	rep.Count("Filecoin-mode loads")
	type alt struct {
		name string
		c    string
	}
	alts := []alt{{"root-of-other-car", rootC}}
	sibs := vc10Siblings(root)
	for _, s := range sibs {
		alts = append(alts, alt{"sibling-" + s.Name, s.Cid.String()})
	}
	for _, a := range alts {
		err := vc10TryFilecoin(work, 2, A, a.c)
		rep.Case("filecoin/configured-root:="+a.name, true)
		rep.Count("Filecoin-mode loads")
		if err == nil {
			rep.Count("accepted")
			rep.Fail("foreign-configured-root-accepted",
				fmt.Sprintf("Filecoin mode: NewEpochFromConfig accepted the configured root CID %s (%s) although every index records root CID %s", a.c, a.name, rootA),
				map[string]interface{}{"configured_root": a.c, "recorded_root": rootA, "files": A})
		} else {
			rep.Count("rejected")
		}
	}
	// all indexes of another root, the configured root the epoch's own
	type set struct {
		name string
		f    vc10Files
		rec  string
	}
	sets := []set{{"indexes-of-other-car", vc10Files{"", "", C.S2c, C.G2c, C.Sx, C.Bt, C.Gsfa}, rootC}}
	ss := &vc10SibSet{work: work, f: A, own: root, paths: map[string]string{}}
	for _, s := range sibs {
		var as []vc10Assign
		for _, r := range vc10SibRoles[1:] {
			if A.Gsfa == "" && (r == "man" || r == "offs") {
				continue
			}
			as = append(as, vc10Assign{r, s})
		}
		x, err := ss.with(as)
		if err != nil {
			continue // already noted by the CAR-mode variants
		}
		sets = append(sets, set{"indexes-record-sibling-" + s.Name, x, s.Cid.String()})
	}
	for _, s := range sets {
		err := vc10TryFilecoin(work, 2, s.f, rootA)
		rep.Case("filecoin/"+s.name, true)
		rep.Count("Filecoin-mode loads")
		if err == nil {
			rep.Count("accepted")
			rep.Fail("foreign-configured-root-accepted",
				fmt.Sprintf("Filecoin mode: NewEpochFromConfig accepted indexes that all record root CID %s (%s) although the configured root CID is %s", s.rec, s.name, rootA),
				map[string]interface{}{"configured_root": rootA, "recorded_root": s.rec, "files": s.f})
		} else {
			rep.Count("rejected")
		}
	}
}

// vc10WrongCarCases: epoch A's indexes with a CAR they were not built from:
//
//	other-car    the CAR of another build of the same epoch (other content);
//	exchanged    A's CAR with two equal-length sections exchanged (same root CID: no load-time check can notice);
//	permuted     A's CAR with the sections of every group of equal length rotated by one place;
//
// each served from the local file, through a ReaderAt (HTTP range requests), and from the local file by a process
// whose location cache was filled while it served the epoch from its own CAR. Every CID is fetched several times.
type vc10WrongCar struct {
	name, path string
	moved      int // sections that are not where the index says (-1: unknown)
}

func vc10WrongCarCases(rep *vh.Report, work string, A, C vc10Files, trA *vfxTruth) {
	carA, err := os.ReadFile(A.Car)
	if err != nil {
		rep.Note("wrong-CAR fetches not exercised: %v", err)
		return
	}
	objs := trA.Objects
	want := func(o vfxObj) []byte { return carA[o.Offset+o.SecLen-vc01DataLenC10(carA, o) : o.Offset+o.SecLen] }
	type wcar = vc10WrongCar
	cars := []wcar{{"other-car", C.Car, -1}}
	// exchanged: the first two different sections of equal length
	exchanged := func() {
		for i := 0; i < len(objs); i++ {
			for j := i + 1; j < len(objs); j++ {
				if objs[i].SecLen == objs[j].SecLen && objs[i].Cid != objs[j].Cid {
					mod := append([]byte(nil), carA...)
					copy(mod[objs[i].Offset:objs[i].Offset+objs[i].SecLen], carA[objs[j].Offset:objs[j].Offset+objs[j].SecLen])
					copy(mod[objs[j].Offset:objs[j].Offset+objs[j].SecLen], carA[objs[i].Offset:objs[i].Offset+objs[i].SecLen])
					p := filepath.Join(work, "swapped.car")
					if os.WriteFile(p, mod, 0o644) == nil {
						cars = append(cars, wcar{"exchanged", p, 2})
					}
					return
				}
			}
		}
		rep.Note("no two sections of equal length in this epoch: exchanged-sections CAR not exercised")
	}
	exchanged()
	// permuted: within every group of sections of one length, section k takes the place of section k+1
	{
		groups := map[uint64][]int{}
		var lens []uint64
		for i, o := range objs {
			if _, ok := groups[o.SecLen]; !ok {
				lens = append(lens, o.SecLen)
			}
			groups[o.SecLen] = append(groups[o.SecLen], i)
		}
		mod := append([]byte(nil), carA...)
		moved := 0
		for _, l := range lens {
			g := groups[l]
			if len(g) < 2 {
				continue
			}
			for k := range g {
				src, dst := objs[g[k]], objs[g[(k+1)%len(g)]]
				copy(mod[dst.Offset:dst.Offset+l], carA[src.Offset:src.Offset+l])
				if src.Cid != dst.Cid {
					moved++
				}
			}
		}
		p := filepath.Join(work, "permuted.car")
		if moved > 2 && os.WriteFile(p, mod, 0o644) == nil {
			cars = append(cars, wcar{"permuted", p, moved})
		}
	}
	var base string
	if ln, err := net.Listen("tcp", "127.0.0.1:0"); err == nil {
		srv := &http.Server{Handler: http.FileServer(http.Dir("/"))}
		go srv.Serve(ln)
		defer srv.Close()
		base = "http://" + ln.Addr().String()
	} else {
		rep.Note("loopback listen failed: wrong CARs only through the local file path")
	}
	cfgOf := func(name, uri string) string {
		tr := &vfxTruth{Spec: vfxSpec{Epoch: 2}, GsfaDir: "", Paths: IndexPaths{CidToOffsetAndSize: A.C2o, SlotToCid: A.S2c, SignatureToCid: A.G2c, SignatureExists: A.Sx, SlotToBlocktime: A.Bt}}
		p := filepath.Join(work, name+".yml")
		_ = os.WriteFile(p, []byte(vfxConfigYaml(tr, uri)), 0o644)
		return p
	}
	ownCfg := cfgOf("wrongcar-own", A.Car)
	rounds := 3
	if vh.Thorough() {
		rounds = 9
	}
	for _, wc := range cars {
		modes := []string{"file", "file-warm-location-cache"}
		if base != "" {
			modes = append(modes, "readerat")
		}
		for _, mode := range modes {
			uri := wc.path
			if mode == "readerat" {
				uri = base + wc.path
			}
			cache := vfxNewCache()
			if mode == "file-warm-location-cache" {
				bad, err := vc10WarmCache(ownCfg, cache, objs, want)
				if err != nil || bad > 0 {
					rep.Note("wrong CAR %s/%s skipped: the epoch's own CAR did not serve every object (load error %v, %d objects not served)", wc.name, mode, err, bad)
					continue
				}
			}
			ep, err := vfxLoadConfigFile(cfgOf("wrongcar-"+wc.name+"-"+mode, uri), cache)
			if err != nil {
				rep.Note("wrong CAR %s (%s) rejected at load: %v", wc.name, mode, err)
				continue
			}
			t := vc10FetchRounds(rep, ep, objs, want, "wrongcar/"+wc.name+"/"+mode, rounds)
			ep.Close()
			rep.CountN("wrong CAR "+wc.name+" "+mode+": fetches failed", t.Failed)
			rep.CountN("wrong CAR "+wc.name+" "+mode+": fetches right", t.Right)
			if t.Wrong > 0 {
				sig := "wrong-car-returns-other-bytes:" + mode
				if wc.name == "other-car" && mode == "file" {
					sig = "wrong-car-returns-other-bytes"
				}
				rep.Fail(sig, fmt.Sprintf("indexes of epoch A with the %s CAR, served as %s, every CID fetched %d times: %d fetches by CID returned bytes that are not the ones stored under the requested CID (first: %v)",
					wc.name, mode, rounds+3, t.Wrong, t.FirstWrong),
					map[string]interface{}{"car": wc.name, "mode": mode, "first_wrong": t.FirstWrong})
			}
			if wc.moved >= 0 && t.Failed != wc.moved*(rounds+3) {
				rep.Note("wrong CAR %s %s: %d fetches failed (expected %d = %d displaced objects x %d fetches)", wc.name, mode, t.Failed, wc.moved*(rounds+3), wc.moved, rounds+3)
			}
		}
	}
	// ---- the same CARs with requests that overlap in time: a read of a section by offset (as getSignaturesForAddress and
	// the gRPC transaction stream issue it) held in the CAR reader while the object the index places there is fetched by
	// CID, and the other way round (c10conc_test.go)
	for _, wc := range cars {
		vc10ConcurrentWrongCar(rep, wc, cfgOf("wrongcar-"+wc.name+"-gated", wc.path), objs, want)
	}
}
