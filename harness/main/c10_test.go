package main

// Verification harness for C10 (uses fixture_test.go): every index file of an epoch config x every identity
// it carries replaced by that of another epoch / another CAR of the same epoch, singly and in pairs, and files
// swapped between roles; NewEpochFromConfig's accept/reject decision is compared with the model's `load`
// on the identities the harness reads from the files themselves. Index-metadata codec cases are included.

import (
	"bufio"
	"bytes"
	"context"
	"encoding/binary"
	"fmt"
	"net"
	"net/http"
	"os"
	"path/filepath"
	"strings"
	"testing"

	"github.com/rpcpool/yellowstone-faithful/blocktimeindex"
	"github.com/rpcpool/yellowstone-faithful/bucketteer"
	"github.com/rpcpool/yellowstone-faithful/compactindexsized"
	"github.com/rpcpool/yellowstone-faithful/gsfa/manifest"
	"github.com/rpcpool/yellowstone-faithful/indexes"
	"github.com/rpcpool/yellowstone-faithful/indexmeta"
	"github.com/rpcpool/yellowstone-faithful/zzverif/vh"
)

type vc10Files struct {
	Car, C2o, S2c, G2c, Sx, Bt, Gsfa string
}

func vc10FilesOf(tr *vfxTruth) vc10Files {
	return vc10Files{tr.CarPath, tr.Paths.CidToOffsetAndSize, tr.Paths.SlotToCid, tr.Paths.SignatureToCid, tr.Paths.SignatureExists, tr.Paths.SlotToBlocktime, tr.GsfaDir}
}

type vc10Ident struct {
	kind  string // Coq constructor
	epoch *uint64
	root  string // "" = none
}

var vc10Roots = map[string]int{}

func vc10RootID(r string) int {
	if _, ok := vc10Roots[r]; !ok {
		vc10Roots[r] = len(vc10Roots) + 1
	}
	return vc10Roots[r]
}

func (i vc10Ident) coq() string {
	e, r := "None", "None"
	if i.epoch != nil {
		e = fmt.Sprintf("(Some %d%%N)", *i.epoch)
	}
	if i.root != "" {
		r = fmt.Sprintf("(Some %d%%N)", vc10RootID(i.root))
	}
	return fmt.Sprintf("{| i_kind := %s; i_epoch := %s; i_root := %s |}", i.kind, e, r)
}

// vc10Identify reads the identity a file carries, independently of the role it is offered in.
func vc10Identify(path string) vc10Ident {
	unknown := vc10Ident{kind: "KUnknown"}
	st, err := os.Stat(path)
	if err != nil {
		return unknown
	}
	if st.IsDir() {
		return unknown
	}
	// compact index of some kind?
	if f, err := os.Open(path); err == nil {
		db, err := func() (db *compactindexsized.DB, err error) {
			defer func() {
				if r := recover(); r != nil {
					err = fmt.Errorf("panic %v", r)
				}
			}()
			return compactindexsized.Open(f)
		}()
		if err == nil {
			meta := db.Header.Metadata
			var id vc10Ident
			k, _ := meta.Get(indexmeta.MetadataKey_Kind)
			switch string(k) {
			case string(indexes.Kind_CidToOffsetAndSize):
				id.kind = "KCidToOffsetAndSize"
			case string(indexes.Kind_SlotToCid):
				id.kind = "KSlotToCid"
			case string(indexes.Kind_SigToCid):
				id.kind = "KSigToCid"
			case string(indexes.Kind_PubkeyToOffsetAndSize):
				id.kind = "KPubkeyToOffsetAndSize"
			default:
				id.kind = "KUnknown"
			}
			if e, ok := meta.GetUint64(indexmeta.MetadataKey_Epoch); ok {
				id.epoch = &e
			}
			if c, ok := meta.GetCid(indexmeta.MetadataKey_RootCid); ok {
				id.root = c.String()
			}
			f.Close()
			return id
		}
		f.Close()
	}
	if r, err := bucketteer.Open(path); err == nil {
		id := vc10Ident{kind: "KSigExists"}
		if e, ok := r.Meta().GetUint64(indexmeta.MetadataKey_Epoch); ok {
			id.epoch = &e
		}
		if c, ok := r.Meta().GetCid(indexmeta.MetadataKey_RootCid); ok {
			id.root = c.String()
		}
		r.Close()
		return id
	}
	if st.Size() < 4_000_000 {
		if bt, err := blocktimeindex.FromFile(path); err == nil {
			e := bt.Epoch()
			return vc10Ident{kind: "KBlocktime", epoch: &e}
		}
	}
	return unknown
}

func vc10IdentifyGsfa(dir string) (man, offs vc10Ident) {
	man, offs = vc10Ident{kind: "KUnknown"}, vc10Ident{kind: "KUnknown"}
	if m, err := manifest.NewManifest(filepath.Join(dir, "manifest"), indexmeta.Meta{}); err == nil {
		man.kind = "KGsfaManifest"
		meta := m.Meta()
		if e, ok := meta.GetUint64(indexmeta.MetadataKey_Epoch); ok {
			man.epoch = &e
		}
		if c, ok := meta.GetCid(indexmeta.MetadataKey_RootCid); ok {
			man.root = c.String()
		}
		m.Close()
	}
	offs = vc10Identify(filepath.Join(dir, string(indexes.Kind_PubkeyToOffsetAndSize)+".index"))
	return
}

func vc10Try(dir string, epoch uint64, f vc10Files) error {
	tr := &vfxTruth{Spec: vfxSpec{Epoch: epoch}, GsfaDir: f.Gsfa,
		Paths: IndexPaths{CidToOffsetAndSize: f.C2o, SlotToCid: f.S2c, SignatureToCid: f.G2c, SignatureExists: f.Sx, SlotToBlocktime: f.Bt}}
	cfgPath := filepath.Join(dir, "try.yml")
	_ = os.WriteFile(cfgPath, []byte(vfxConfigYaml(tr, f.Car)), 0o644)
	ep, err := vfxLoadConfigFile(cfgPath, vfxSharedCache())
	if err == nil {
		ep.Close()
	}
	return err
}

func TestVerif_C10(t *testing.T) {
	rep := vh.NewReport("C10", "load",
		"epoch A (config epoch 2) with every index file x {file of another epoch, file of another CAR of the same epoch} singly and in pairs, the address-index directory with only its pubkey index / only its manifest replaced, files offered in the wrong role, the CAR replaced; a case = one NewEpochFromConfig call; all combinations enumerated (finite space)")
	cases := vh.NewCases("cases_c10", []string{"YF.C10_Load"}, "case", "check")
	rep.Exhaustive = true
	seed := vh.Seed()
	a := vfxDefaultSpec("c10a", 2, seed)
	b := vfxDefaultSpec("c10b", 3, seed+1)
	c := vfxDefaultSpec("c10c", 2, seed+2)
	c.Variant = 1
	z := vfxDefaultSpec("c10z", 0, seed+3) // epoch 0: a recorded 0 must not read as "nothing recorded"
	for _, s := range []*vfxSpec{&a, &b, &c, &z} {
		s.NumSlots, s.Gsfa = 12, true
	}
	truths, err := vfxBuild([]vfxSpec{a, b, c, z})
	if err != nil {
		t.Fatalf("setup failed: %v", err)
	}
	for _, tr := range truths {
		if tr.BuildErr != "" {
			t.Fatalf("setup failed: fixture %s: %s", tr.Spec.Name, tr.BuildErr)
		}
	}
	A, B, C, Z := vc10FilesOf(truths[0]), vc10FilesOf(truths[1]), vc10FilesOf(truths[2]), vc10FilesOf(truths[3])
	work := filepath.Join(vh.OutDir(), "c10work")
	_ = os.MkdirAll(work, 0o755)
	// mixed address-index directories
	mix := func(name string, manFrom, offsFrom string) string {
		d := filepath.Join(work, name)
		_ = os.MkdirAll(d, 0o755)
		for _, fn := range []string{"manifest", "linked-log", string(indexes.Kind_PubkeyToOffsetAndSize) + ".index"} {
			src := filepath.Join(manFrom, fn)
			if strings.HasSuffix(fn, ".index") {
				src = filepath.Join(offsFrom, fn)
			}
			data, err := os.ReadFile(src)
			if err != nil {
				t.Fatalf("setup failed: %v", err)
			}
			_ = os.WriteFile(filepath.Join(d, fn), data, 0o644)
		}
		return d
	}
	gsfaVariants := map[string]string{
		"own": A.Gsfa, "other-epoch": B.Gsfa, "other-car": C.Gsfa, "epoch-zero": Z.Gsfa, "pubkey-index-of-epoch-zero": mix("g8", A.Gsfa, Z.Gsfa),
		"pubkey-index-of-other-epoch": mix("g1", A.Gsfa, B.Gsfa), "pubkey-index-of-other-car": mix("g2", A.Gsfa, C.Gsfa),
		"manifest-of-other-epoch": mix("g3", B.Gsfa, A.Gsfa), "manifest-of-other-car": mix("g4", C.Gsfa, A.Gsfa), "none": "",
	}
	// a manifest of the format before metadata existed (version 1: magic, version, records): it cannot say which
	// epoch / CAR it belongs to, so the directory must not be accepted
	legacy := func(name, from string) string {
		d := mix(name, from, from)
		mp := filepath.Join(d, "manifest")
		data, err := os.ReadFile(mp)
		if err != nil || len(data) < 16 {
			t.Fatalf("setup failed: manifest: %v", err)
		}
		var meta indexmeta.Meta
		if err := meta.UnmarshalWithDecoder(bufio.NewReader(bytes.NewReader(data[16:]))); err != nil {
			t.Fatalf("setup failed: manifest metadata: %v", err)
		}
		body := data[16+len(meta.Bytes()):]
		out := append([]byte(nil), data[:8]...)
		out = binary.LittleEndian.AppendUint64(out, 1)
		out = append(out, body...)
		_ = os.WriteFile(mp, out, 0o644)
		return d
	}
	gsfaVariants["legacy-manifest-v1"] = legacy("g5", A.Gsfa)
	gsfaVariants["legacy-manifest-v1-of-other-epoch"] = legacy("g6", B.Gsfa)
	gsfaVariants["legacy-manifest-v1,pubkey-index-of-other-epoch"] = legacy("g7", mix("g7src", A.Gsfa, B.Gsfa))
	type variant struct {
		name string
		f    vc10Files
	}
	var variants []variant
	variants = append(variants, variant{"baseline", A})
	roles := []string{"c2o", "s2c", "g2c", "sx", "bt"}
	get := func(f *vc10Files, r string) *string {
		switch r {
		case "c2o":
			return &f.C2o
		case "s2c":
			return &f.S2c
		case "g2c":
			return &f.G2c
		case "sx":
			return &f.Sx
		default:
			return &f.Bt
		}
	}
	others := []struct {
		name string
		f    vc10Files
	}{{"other-epoch", B}, {"other-car", C}, {"epoch-zero", Z}}
	// single swaps and pairs
	for _, o1 := range others {
		for i, r1 := range roles {
			x := A
			*get(&x, r1) = *get(&o1.f, r1)
			variants = append(variants, variant{fmt.Sprintf("%s:=%s", r1, o1.name), x})
			for _, o2 := range others {
				for _, r2 := range roles[i+1:] {
					y := x
					*get(&y, r2) = *get(&o2.f, r2)
					variants = append(variants, variant{fmt.Sprintf("%s:=%s,%s:=%s", r1, o1.name, r2, o2.name), y})
				}
			}
		}
	}
	// address index variants, alone and together with one other swap
	for gname, g := range gsfaVariants {
		x := A
		x.Gsfa = g
		variants = append(variants, variant{"gsfa:=" + gname, x})
		for _, r := range roles {
			y := x
			*get(&y, r) = *get(&B, r)
			variants = append(variants, variant{fmt.Sprintf("gsfa:=%s,%s:=other-epoch", gname, r), y})
		}
	}
	// role swaps: every file offered in every other role
	for _, r1 := range roles {
		for _, r2 := range roles {
			if r1 == r2 {
				continue
			}
			x := A
			*get(&x, r1) = *get(&A, r2)
			variants = append(variants, variant{fmt.Sprintf("%s:=own-%s", r1, r2), x})
		}
	}
	{
		x := A
		x.C2o = filepath.Join(A.Gsfa, string(indexes.Kind_PubkeyToOffsetAndSize)+".index")
		variants = append(variants, variant{"c2o:=own-pubkey-index", x})
	}
	// everything from the other epoch except the config epoch number
	variants = append(variants, variant{"all:=other-epoch", vc10Files{A.Car, B.C2o, B.S2c, B.G2c, B.Sx, B.Bt, B.Gsfa}})
	variants = append(variants, variant{"all:=other-car", vc10Files{A.Car, C.C2o, C.S2c, C.G2c, C.Sx, C.Bt, C.Gsfa}})

	for _, v := range variants {
		err := vc10Try(work, 2, v.f)
		accepted := err == nil
		rep.Case("load/"+v.name, true)
		if accepted {
			rep.Count("accepted")
		} else {
			rep.Count("rejected")
		}
		// model input: identities read from the files themselves
		gs := "None"
		var man, offs vc10Ident
		if v.f.Gsfa != "" {
			man, offs = vc10IdentifyGsfa(v.f.Gsfa)
			gs = fmt.Sprintf("(Some (%s, %s))", man.coq(), offs.coq())
		}
		ids := map[string]vc10Ident{}
		for _, r := range roles {
			ids[r] = vc10Identify(*get(&v.f, r))
		}
		cases.Add(fmt.Sprintf("CLoad {| c_epoch := 2%%N; c_c2o := %s; c_s2c := %s; c_g2c := %s; c_gsfa := %s; c_sx := %s; c_bt := %s |} %s",
			ids["c2o"].coq(), ids["s2c"].coq(), ids["g2c"].coq(), gs, ids["sx"].coq(), ids["bt"].coq(), vh.CoqBool(accepted)))
		// property oracle: an accepted configuration has only files of the right kind, of the config's epoch
		// and (where a root is recorded) of one and the same root CID
		if accepted {
			var bad []string
			root := ids["c2o"].root
			wantKind := map[string]string{"c2o": "KCidToOffsetAndSize", "s2c": "KSlotToCid", "g2c": "KSigToCid", "sx": "KSigExists", "bt": "KBlocktime"}
			for _, r := range roles {
				id := ids[r]
				if id.kind != wantKind[r] {
					bad = append(bad, r+": kind "+id.kind)
				}
				if id.epoch == nil || *id.epoch != 2 {
					bad = append(bad, r+": epoch")
				}
				if r != "bt" && id.root != root {
					bad = append(bad, r+": root CID")
				}
			}
			if v.f.Gsfa != "" {
				if man.epoch == nil || *man.epoch != 2 || man.root != root {
					bad = append(bad, "gsfa manifest: epoch/root")
				}
				if offs.kind != "KPubkeyToOffsetAndSize" {
					bad = append(bad, "gsfa pubkey index: kind "+offs.kind)
				}
				if offs.epoch == nil || *offs.epoch != 2 || offs.root != root {
					rep.Fail("gsfa-pubkey-index-of-other-epoch-or-car-accepted",
						fmt.Sprintf("variant %s: NewEpochFromConfig accepted an address index whose pubkey-to-offset-and-size index records epoch %v root %s (config epoch 2, root %s)", v.name, vc10E(offs.epoch), offs.root, root),
						map[string]interface{}{"variant": v.name, "files": v.f})
				}
			}
			if len(bad) > 0 {
				rep.Fail("foreign-index-accepted", fmt.Sprintf("variant %s accepted although: %s", v.name, strings.Join(bad, "; ")), map[string]interface{}{"variant": v.name, "files": v.f})
			}
		} else if v.name == "baseline" || v.name == "gsfa:=none" {
			rep.Fail("own-indexes-rejected", fmt.Sprintf("variant %s: %v", v.name, err), map[string]interface{}{"variant": v.name})
		}
		if len(rep.Samples) < 4 && (v.name == "baseline" || strings.HasPrefix(v.name, "sx:=other-car") || strings.HasPrefix(v.name, "gsfa:=pubkey")) {
			rep.Sample(map[string]interface{}{"variant": v.name, "accepted": accepted, "error": fmt.Sprint(err)})
		}
	}
	// ---- identity written at build time is read back unchanged
	for _, tr := range truths {
		if r, err := indexes.Open_CidToOffsetAndSize(tr.Paths.CidToOffsetAndSize); err == nil {
			m := r.Meta()
			if m.Epoch != tr.Spec.Epoch || m.RootCid.String() != tr.RootCid || m.Network != indexes.NetworkMainnet || !bytes.Equal(m.IndexKind, indexes.Kind_CidToOffsetAndSize) {
				rep.Fail("identity-not-read-back", fmt.Sprintf("%s cid-to-offset: epoch %d root %s network %s kind %s", tr.Spec.Name, m.Epoch, m.RootCid, m.Network, m.IndexKind), nil)
			}
			r.Close()
		}
		rep.Case("identity/"+tr.Spec.Name, true)
	}
	// ---- wrong CAR: CID-addressed fetches fail rather than return another object's bytes
	{
		x := A
		x.Car = C.Car
		tr := &vfxTruth{Spec: vfxSpec{Epoch: 2}, GsfaDir: "", Paths: IndexPaths{CidToOffsetAndSize: x.C2o, SlotToCid: x.S2c, SignatureToCid: x.G2c, SignatureExists: x.Sx, SlotToBlocktime: x.Bt}}
		cfgPath := filepath.Join(work, "wrongcar.yml")
		_ = os.WriteFile(cfgPath, []byte(vfxConfigYaml(tr, x.Car)), 0o644)
		if ep, err := vfxLoadConfigFile(cfgPath, vfxNewCache()); err == nil {
			carA, _ := os.ReadFile(A.Car)
			wrong, failed := 0, 0
			for _, o := range truths[0].Objects {
				got, gerr := ep.GetNodeByCid(context.Background(), vfxCidFromHex(o.Cid))
				rep.Case("wrongcar/"+o.Cid, true)
				if gerr != nil {
					failed++
					continue
				}
				want := carA[o.Offset+o.SecLen-vc01DataLenC10(carA, o) : o.Offset+o.SecLen]
				if !bytes.Equal(got, want) {
					wrong++
				}
			}
			rep.CountN("wrong-car fetches failed", failed)
			if wrong > 0 {
				rep.Fail("wrong-car-returns-other-bytes", fmt.Sprintf("%d fetches returned bytes of another object", wrong), nil)
			}
			ep.Close()
		} else {
			rep.Note("wrong CAR rejected at load: %v", err)
		}
	}
	// ---- a CAR with the same root CID in which two equal-length sections are exchanged (no load-time check can
	// notice): every fetch by CID must fail or return that CID's own bytes, from a local file AND through a ReaderAt
	{
		carA, _ := os.ReadFile(A.Car)
		objs := truths[0].Objects
		swapped := false
		var i1, i2 int
		for i := 0; i < len(objs) && !swapped; i++ {
			for j := i + 1; j < len(objs); j++ {
				if objs[i].SecLen == objs[j].SecLen && objs[i].Cid != objs[j].Cid {
					i1, i2, swapped = i, j, true
					break
				}
			}
		}
		if !swapped {
			rep.Note("no two sections of equal length in this epoch: swapped-sections CAR not exercised")
		} else {
			mod := append([]byte(nil), carA...)
			copy(mod[objs[i1].Offset:objs[i1].Offset+objs[i1].SecLen], carA[objs[i2].Offset:objs[i2].Offset+objs[i2].SecLen])
			copy(mod[objs[i2].Offset:objs[i2].Offset+objs[i2].SecLen], carA[objs[i1].Offset:objs[i1].Offset+objs[i1].SecLen])
			swPath := filepath.Join(work, "swapped.car")
			_ = os.WriteFile(swPath, mod, 0o644)
			uris := map[string]string{"file": swPath}
			if ln, err := net.Listen("tcp", "127.0.0.1:0"); err == nil {
				srv := &http.Server{Handler: http.FileServer(http.Dir(work))}
				go srv.Serve(ln)
				defer srv.Close()
				uris["readerat"] = fmt.Sprintf("http://%s/swapped.car", ln.Addr().String())
			} else {
				rep.Note("loopback listen failed: swapped-sections CAR only through the local file path")
			}
			for mode, uri := range uris {
				tr := &vfxTruth{Spec: vfxSpec{Epoch: 2}, GsfaDir: "", Paths: IndexPaths{CidToOffsetAndSize: A.C2o, SlotToCid: A.S2c, SignatureToCid: A.G2c, SignatureExists: A.Sx, SlotToBlocktime: A.Bt}}
				cfgPath := filepath.Join(work, "swapped-"+mode+".yml")
				_ = os.WriteFile(cfgPath, []byte(vfxConfigYaml(tr, uri)), 0o644)
				ep, err := vfxLoadConfigFile(cfgPath, vfxNewCache())
				if err != nil {
					rep.Note("swapped-sections CAR (%s) rejected at load: %v", mode, err)
					continue
				}
				wrong, failed, right := 0, 0, 0
				for _, o := range objs {
					got, gerr := ep.GetNodeByCid(context.Background(), vfxCidFromHex(o.Cid))
					rep.Case("swapped/"+mode+"/"+o.Cid, true)
					if gerr != nil {
						failed++
						continue
					}
					want := carA[o.Offset+o.SecLen-vc01DataLenC10(carA, o) : o.Offset+o.SecLen]
					if bytes.Equal(got, want) {
						right++
					} else {
						wrong++
					}
				}
				rep.CountN("swapped-sections "+mode+": fetches failed", failed)
				rep.CountN("swapped-sections "+mode+": fetches right", right)
				if wrong > 0 {
					rep.Fail("wrong-car-returns-other-bytes:"+mode, fmt.Sprintf("CAR with two exchanged sections, served as %s: %d fetches by CID returned the bytes of ANOTHER object", mode, wrong),
						map[string]interface{}{"mode": mode, "exchanged_objects": []int{i1, i2}})
				}
				if failed != 2 {
					rep.Note("swapped-sections %s: %d fetches failed (expected exactly the 2 exchanged objects)", mode, failed)
				}
				ep.Close()
			}
		}
	}
	// ---- metadata codec
	rng := vh.NewRng(seed + 3)
	for i := 0; i < 60; i++ {
		var m indexmeta.Meta
		n := rng.Pick(0, 1, 2, 3, 5, 255, 256)
		if i > 50 {
			n = rng.Intn(4)
		}
		var kvs []string
		for j := 0; j < n; j++ {
			kl, vl := rng.Pick(0, 1, 4, 9), rng.Pick(0, 1, 8, 36)
			if n <= 3 && rng.Intn(6) == 0 {
				kl = rng.Pick(255, 256)
			}
			if n <= 3 && rng.Intn(6) == 0 {
				vl = rng.Pick(255, 256, 300)
			}
			k, v := rng.Bytes(kl), rng.Bytes(vl)
			m.KeyVals = append(m.KeyVals, indexmeta.KV{Key: k, Value: v})
			kvs = append(kvs, fmt.Sprintf("(%s, %s)", vh.CoqBytes(k), vh.CoqBytes(v)))
		}
		enc, err := m.MarshalBinary()
		obs := "None"
		if err == nil {
			obs = "(Some " + vh.CoqBytes(enc) + ")"
			var back indexmeta.Meta
			if derr := back.UnmarshalBinary(enc); derr != nil || len(back.KeyVals) != len(m.KeyVals) {
				rep.Fail("metadata-roundtrip", fmt.Sprintf("%d pairs: %v", n, derr), nil)
			}
		}
		rep.Case(fmt.Sprintf("meta/%d/%d", i, n), true)
		if n <= 8 {
			cases.Add(fmt.Sprintf("CMeta %s %s", vh.CoqList(kvs), obs))
		}
		// decoding arbitrary / truncated bytes
		raw := rng.Bytes(rng.Intn(24))
		if err == nil && len(enc) > 0 && len(enc) < 200 && rng.Bool() {
			raw = enc[:rng.Intn(len(enc)+1)]
		}
		var dm indexmeta.Meta
		var derr error
		func() {
			defer func() {
				if r := recover(); r != nil {
					derr = fmt.Errorf("panic: %v", r)
					rep.Fail("metadata-decode-panic", fmt.Sprintf("%x: %v", raw, r), nil)
				}
			}()
			derr = dm.UnmarshalBinary(raw)
		}()
		o := "None"
		if derr == nil {
			var l []string
			for _, kv := range dm.KeyVals {
				l = append(l, fmt.Sprintf("(%s, %s)", vh.CoqBytes(kv.Key), vh.CoqBytes(kv.Value)))
			}
			o = "(Some " + vh.CoqList(l) + ")"
		}
		cases.Add(fmt.Sprintf("CMetaDec %s %s", vh.CoqBytes(raw), o))
	}
	if err := cases.Write(); err != nil {
		t.Fatal(err)
	}
	rep.CasesWritten(cases)
	if err := rep.Write(); err != nil {
		t.Fatal(err)
	}
}

func vc10E(p *uint64) string {
	if p == nil {
		return "none"
	}
	return fmt.Sprint(*p)
}

func vc01DataLenC10(car []byte, o vfxObj) uint64 {
	w := uint64(0)
	for i := o.Offset; ; i++ {
		w++
		if car[i] < 0x80 {
			break
		}
	}
	return o.SecLen - w - uint64(o.CidLen)
}
