package main

// Verification harness for C10, load history (called from TestVerif_C10; uses fixture_test.go and c10_test.go).
//
// The load-time identity checks are a function of the configuration and of the files it names - not of what the process
// has loaded before. The sweep of c10_test.go tries every substitution in a process that has never loaded the epoch the
// foreign file comes from (the "donor"). Here every single-file substitution (each index file, the block-time file, the
// address-index directory as a whole, only its pubkey index, only its manifest) is tried again
//
//	- while the donor epoch, loaded successfully from its own configuration, is being served by this process, and
//	- after the donor epoch has been loaded, served and closed,
//
// in both directions (epoch A receiving a file of B / of another CAR of its epoch / of epoch 0, and each of those
// receiving a file of A), plus A's own files offered in another role while A itself is loaded. Every outcome is judged
// exactly like in the plain sweep: a CLoad case for the model (whose decision knows nothing of the history: a reject is
// a reject whatever was loaded before) and the property oracle of vc10JudgeLoad.
// Thorough tier: all ordered pairs of the four epochs, and pairs of files from the donor.

import (
	"context"
	"fmt"
	"os"
	"path/filepath"
	"strings"

	"github.com/rpcpool/yellowstone-faithful/indexes"
	"github.com/rpcpool/yellowstone-faithful/zzverif/vh"
)

// vc10MixDir: an address-index directory with the manifest (and linked log) of manFrom and the pubkey index of offsFrom.
func vc10MixDir(work, name, manFrom, offsFrom string) (string, error) {
	d := filepath.Join(work, name)
	if err := os.MkdirAll(d, 0o755); err != nil {
		return "", err
	}
	for _, fn := range []string{"manifest", "linked-log", string(indexes.Kind_PubkeyToOffsetAndSize) + ".index"} {
		src := filepath.Join(manFrom, fn)
		if strings.HasSuffix(fn, ".index") {
			src = filepath.Join(offsFrom, fn)
		}
		data, err := os.ReadFile(src)
		if err != nil {
			return "", err
		}
		if err := os.WriteFile(filepath.Join(d, fn), data, 0o644); err != nil {
			return "", err
		}
	}
	return d, nil
}

// vc10Substitutions: the receiver's configuration with ONE file (thorough: also two files) taken from the donor.
func vc10Substitutions(rep *vh.Report, work string, recv, donor *vfxTruth, pairs bool) []vc10Variant {
	R, D := vc10FilesOf(recv), vc10FilesOf(donor)
	dn := donor.Spec.Name
	var out []vc10Variant
	for i, r1 := range vc10Roles {
		x := R
		*vc10Role(&x, r1) = *vc10Role(&D, r1)
		out = append(out, vc10Variant{fmt.Sprintf("%s:=%s", r1, dn), x})
		if pairs {
			for _, r2 := range vc10Roles[i+1:] {
				y := x
				*vc10Role(&y, r2) = *vc10Role(&D, r2)
				out = append(out, vc10Variant{fmt.Sprintf("%s:=%s,%s:=%s", r1, dn, r2, dn), y})
			}
		}
	}
	if R.Gsfa != "" && D.Gsfa != "" {
		x := R
		x.Gsfa = D.Gsfa
		out = append(out, vc10Variant{"gsfa:=" + dn, x})
		tag := "hist-" + recv.Spec.Name + "-" + dn
		if d, err := vc10MixDir(work, tag+"-offs", R.Gsfa, D.Gsfa); err == nil {
			y := R
			y.Gsfa = d
			out = append(out, vc10Variant{"gsfa:=pubkey-index-of-" + dn, y})
		} else {
			rep.Note("load history: %s with the pubkey index of %s not tried: %v", recv.Spec.Name, dn, err)
		}
		if d, err := vc10MixDir(work, tag+"-man", D.Gsfa, R.Gsfa); err == nil {
			y := R
			y.Gsfa = d
			out = append(out, vc10Variant{"gsfa:=manifest-of-" + dn, y})
		} else {
			rep.Note("load history: %s with the manifest of %s not tried: %v", recv.Spec.Name, dn, err)
		}
		if pairs {
			for _, r := range vc10Roles {
				y := x
				*vc10Role(&y, r) = *vc10Role(&D, r)
				out = append(out, vc10Variant{fmt.Sprintf("gsfa:=%s,%s:=%s", dn, r, dn), y})
			}
		}
	}
	return out
}

// vc10Serve: the process serves the loaded epoch (every object fetched once by CID; answers are not judged here).
func vc10Serve(ep *Epoch, tr *vfxTruth) {
	for _, o := range tr.Objects {
		func() {
			defer func() { _ = recover() }()
			_, _ = ep.GetNodeByCid(context.Background(), vfxCidFromHex(o.Cid))
		}()
	}
}

func vc10HistoryCases(rep *vh.Report, cases *vh.CasesFile, work string, truths []*vfxTruth) {
	if len(truths) < 2 {
		return
	}
	type pair struct{ recv, donor *vfxTruth }
	var todo []pair
	a := truths[0]
	for _, d := range truths[1:] {
		todo = append(todo, pair{a, d})
	}
	for _, r := range truths[1:] {
		todo = append(todo, pair{r, a})
	}
	if vh.Thorough() {
		for _, r := range truths[1:] {
			for _, d := range truths[1:] {
				if r != d {
					todo = append(todo, pair{r, d})
				}
			}
		}
	}
	const sig = ":after-donor-epoch-loaded"
	tried := 0
	for _, p := range todo {
		dn, rn := p.donor.Spec.Name, p.recv.Spec.Name
		variants := vc10Substitutions(rep, work, p.recv, p.donor, vh.Thorough())
		// the donor epoch from its own configuration
		ep, err := vfxLoad(p.donor, vfxSharedCache())
		if err != nil {
			// not a configuration of the sweep can be judged after a load that did not happen: say so and go on
			rep.Fail("own-indexes-rejected", fmt.Sprintf("epoch %s (epoch number %d) does not load from its own files: %v", dn, p.donor.Spec.Epoch, err),
				map[string]interface{}{"config": p.donor.ConfigYml})
			rep.Note("load history: donor %s skipped, it does not load from its own files: %v", dn, err)
			continue
		}
		vc10Serve(ep, p.donor)
		for _, v := range variants {
			err := vc10Try(work, p.recv.Spec.Epoch, v.f)
			vc10JudgeLoad(rep, cases, fmt.Sprintf("load-history/donor-loaded/%s<-%s/", rn, dn), p.recv.Spec.Epoch, v, err, sig,
				fmt.Sprintf("config of epoch %s tried while epoch %s, the epoch the foreign file comes from, is loaded in this process from its own files", rn, dn))
			tried++
		}
		ep.Close()
		for _, v := range variants {
			err := vc10Try(work, p.recv.Spec.Epoch, v.f)
			vc10JudgeLoad(rep, cases, fmt.Sprintf("load-history/donor-closed/%s<-%s/", rn, dn), p.recv.Spec.Epoch, v, err, sig,
				fmt.Sprintf("config of epoch %s tried after epoch %s, the epoch the foreign file comes from, has been loaded from its own files, served and closed in this process", rn, dn))
			tried++
		}
	}
	// the epoch's own files offered in another role while the epoch itself is loaded
	if ep, err := vfxLoad(a, vfxSharedCache()); err == nil {
		vc10Serve(ep, a)
		A := vc10FilesOf(a)
		for _, r1 := range vc10Roles {
			for _, r2 := range vc10Roles {
				if r1 == r2 {
					continue
				}
				x := A
				*vc10Role(&x, r1) = *vc10Role(&A, r2)
				v := vc10Variant{fmt.Sprintf("%s:=own-%s", r1, r2), x}
				err := vc10Try(work, a.Spec.Epoch, v.f)
				vc10JudgeLoad(rep, cases, "load-history/self-loaded/", a.Spec.Epoch, v, err, sig, "tried while the epoch itself is loaded in this process")
				tried++
			}
		}
		// and its own configuration a second time, next to the loaded one (what the config watcher does on a reload)
		err := vc10Try(work, a.Spec.Epoch, A)
		vc10JudgeLoad(rep, cases, "load-history/self-loaded/", a.Spec.Epoch, vc10Variant{"baseline", A}, err, sig, "tried while the epoch itself is loaded in this process")
		tried++
		ep.Close()
	} else {
		rep.Note("load history: epoch %s does not load from its own files: %v", a.Spec.Name, err)
	}
	rep.CountN("loads tried with the donor epoch loaded before (still loaded / closed)", tried)
}
