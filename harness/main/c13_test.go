package main

// Verification harness for C13 (uses fixture_test.go; more helpers in c13b_test.go): every file kind of a generated epoch is cut short at
// byte offsets (exhaustively for small files; structure boundaries +-2 and a random sample for large ones)
// and every stored key is looked up on the truncated copy: the answer must be the complete file's answer
// or an error — never "not found", an empty result or another value. Every ReadAt the real readers issue
// is recorded (offset, length, satisfied?) and handed to the Coq checker: a reader must not answer after a
// failed read (it is then a `prog` of YF.C13_Trunc, for which the theorem holds).

import (
	"bufio"
	"bytes"
	"context"
	"fmt"
	"io"
	"os"
	"path/filepath"
	"sort"
	"strings"
	"sync"
	"testing"

	"github.com/gagliardetto/solana-go"
	"github.com/ipfs/go-cid"
	"github.com/rpcpool/yellowstone-faithful/blocktimeindex"
	"github.com/rpcpool/yellowstone-faithful/compactindexsized"
	"github.com/rpcpool/yellowstone-faithful/gsfa"
	"github.com/rpcpool/yellowstone-faithful/gsfa/linkedlog"
	"github.com/rpcpool/yellowstone-faithful/indexes"
	"github.com/rpcpool/yellowstone-faithful/indexmeta"
	"github.com/rpcpool/yellowstone-faithful/zzverif/vh"
)

// vc13Reader: a ReaderAt over the first n bytes of data that records every read.
type vc13Reader struct {
	data  []byte
	mu    sync.Mutex
	reads []string // Coq triples
	fail  bool
	trace bool       // also keep every (offset, length) read
	spans [][2]int64 // with trace
}

func (r *vc13Reader) ReadAt(p []byte, off int64) (int, error) {
	n := 0
	var err error
	if off < 0 || off >= int64(len(r.data)) {
		err = io.EOF
	} else {
		n = copy(p, r.data[off:])
		if n < len(p) {
			err = io.EOF
		}
	}
	r.mu.Lock()
	if r.trace && len(r.spans) < 4096 {
		r.spans = append(r.spans, [2]int64{off, int64(len(p))})
	}
	if len(r.reads) < 64 {
		r.reads = append(r.reads, fmt.Sprintf("(%d%%N, %d%%N, %s)", off, len(p), vh.CoqBool(err == nil)))
	}
	if err != nil {
		r.fail = true
	}
	r.mu.Unlock()
	return n, err
}
func (r *vc13Reader) Close() error { return nil }
func (r *vc13Reader) reset()       { r.mu.Lock(); r.reads, r.fail = nil, false; r.mu.Unlock() }

type vc13Run struct {
	rep   *vh.Report
	cases *vh.CasesFile
	rng   *vh.Rng
	nCoq  map[string]int
	noted map[string]bool // notes already written (c13b_test.go)
}

// record one truncated lookup. kind: file kind; complete/trunc: canonical answers ("v:<hex>", "notfound", "err").
func (x *vc13Run) observe(kind string, cut int, size int, key string, complete, trunc string, rd *vc13Reader) {
	x.observeN(kind, cut, size, key, 1, complete, trunc, rd)
}

// observeN: lookup no. attempt (1 = the first one) of key on the SAME open reader over the truncated copy. The oracle is
// the same for every attempt: the complete file's answer or an error, whatever was asked on that reader before.
func (x *vc13Run) observeN(kind string, cut int, size int, key string, attempt int, complete, trunc string, rd *vc13Reader) {
	ck := fmt.Sprintf("%s/%d/%s", kind, cut, key)
	if attempt > 1 {
		ck += "#again"
		x.rep.Count("repeated-lookups:" + kind)
	}
	x.rep.Case(ck, cut < size)
	x.rep.Count("lookups:" + kind)
	if trunc != "err" && trunc != complete {
		if attempt > 1 {
			x.rep.Fail("truncated-file-answers-differently-on-repeated-lookup:"+kind,
				fmt.Sprintf("%s cut at %d of %d bytes, key %s, lookup no. %d of this key on the same open reader: complete file answers %.60s, truncated copy answers %.60s (must be the same or an error, whatever was looked up before)", kind, cut, size, key, attempt, complete, trunc),
				map[string]interface{}{"kind": kind, "cut": cut, "size": size, "key": key, "attempt": attempt})
		} else {
			x.rep.Fail("truncated-file-answers-differently:"+kind,
				fmt.Sprintf("%s cut at %d of %d bytes, key %s: complete file answers %.60s, truncated copy answers %.60s (must be the same or an error)", kind, cut, size, key, complete, trunc),
				map[string]interface{}{"kind": kind, "cut": cut, "size": size, "key": key})
		}
	}
	if trunc == "err" {
		x.rep.Count("outcome:error")
	} else {
		x.rep.Count("outcome:same-answer")
	}
	if rd != nil && (rd.fail || x.rng.Intn(40) == 0) && x.nCoq[kind] < 300 {
		x.nCoq[kind]++
		o := "OAnswer"
		if trunc == "err" {
			o = "OError"
		}
		x.cases.Add(fmt.Sprintf("(%s, %s)", vh.CoqList(rd.reads), o))
	}
}

// vc13Attempts: how often a key is looked up on one open reader over a truncated copy (at the cuts chosen by
// repeatAt; once at the others).
const vc13Attempts = 3

// repeatAt: the cuts at which every key is looked up vc13Attempts times: all directed / boundary cuts (and all cuts
// of a file swept exhaustively), and every fourth cut of the random sample.
func vc13RepeatAt(cut int, directed map[int]bool) bool { return directed[cut] || cut%4 == 0 }

// directed: for every read that the lookup of key i performs on the COMPLETE file (recorded), the file is cut inside
// that very read (at its first byte, after its first byte, before its last byte) and key i is looked up on the
// truncated copy, opened afresh - vc13Attempts times on that reader. These are the cuts at which a reader that
// tolerates a short read would answer from partial bytes; a random sample of a large file hardly ever lands on them.
// open: opens the file over r and returns the lookup of key i (nil: the open failed) and whether the recorded reads
// may go to the Coq checker.
func (x *vc13Run) directed(kind string, data []byte, keyNames []string, open func(r *vc13Reader) (look func(i int) string, traceOK bool)) {
	maxKeys := 40
	if vh.Thorough() {
		maxKeys = 400
	}
	for i := range keyNames {
		if i >= maxKeys && i < len(keyNames)-2 {
			continue // the first keys and the last two (the absent ones)
		}
		fr := &vc13Reader{data: data, trace: true}
		full, _ := open(fr)
		if full == nil {
			if !x.noted["directed-open:"+kind] {
				x.noted["directed-open:"+kind] = true
				x.rep.Note("%s: the COMPLETE file does not open on this tree; directed cuts skipped", kind)
				x.rep.Count("seed-skipped:directed:" + kind)
			}
			return
		}
		complete := full(i)
		seen := map[int]bool{}
		for _, sp := range fr.spans {
			lo, hi := int(sp[0]), int(sp[0]+sp[1])
			for _, cut := range []int{lo, lo + 1, hi - 1} {
				if cut <= 0 || cut >= len(data) || cut < lo || cut >= hi || seen[cut] {
					continue
				}
				seen[cut] = true
				r := &vc13Reader{data: data[:cut]}
				look, traceOK := open(r)
				for a := 1; a <= vc13Attempts; a++ {
					r.reset()
					got := "err"
					if look != nil {
						got = look(i)
					}
					rr := r
					if look == nil || !traceOK {
						rr = nil
					}
					x.observeN(kind, cut, len(data), keyNames[i], a, complete, got, rr)
					if look == nil {
						break
					}
				}
				x.rep.Count("directed-cuts:" + kind)
			}
		}
	}
}

// cuts: exhaustive for small files, otherwise boundaries +-2 and a random sample.
func (x *vc13Run) cuts(size int, boundaries []int, sample int) []int {
	out, _ := x.cutsTagged(size, boundaries, sample)
	return out
}

// cutsTagged: the same cuts, and which of them are directed (exhaustive sweep: all; otherwise the boundary cuts).
func (x *vc13Run) cutsTagged(size int, boundaries []int, sample int) ([]int, map[int]bool) {
	set := map[int]bool{}
	directed := map[int]bool{}
	if size <= 6000 && (vh.Thorough() || size <= 1500) {
		for i := 0; i <= size; i++ {
			set[i] = true
			directed[i] = true
		}
	} else {
		for _, b := range append(boundaries, 0, size) {
			for d := -2; d <= 2; d++ {
				if b+d >= 0 && b+d <= size {
					set[b+d] = true
					directed[b+d] = true
				}
			}
		}
		for i := 0; i < sample; i++ {
			set[x.rng.Intn(size+1)] = true
		}
	}
	var out []int
	for k := range set {
		out = append(out, k)
	}
	sort.Ints(out)
	return out, directed
}

func vc13Err(err error) string {
	if err == nil {
		return ""
	}
	if compactindexsized.IsNotFound(err) || strings.Contains(err.Error(), "not found") {
		return "notfound"
	}
	return "err"
}

func TestVerif_C13(t *testing.T) {
	rep := vh.NewReport("C13", "truncation",
		"one generated epoch with address index; for each file kind (cid-to-offset-and-size, slot-to-cid, sig-to-cid, gsfa pubkey index — each opened over a ReaderAt both with prefetch off and as the server opens a remote index, Prefetch(true); a generated 3-bucket index larger than the prefetch window; sig-exists, slot-to-blocktime, gsfa linked log / manifest, CAR) cut points (exhaustive for files <= 1.5 KB quick / 6 KB thorough, else structure boundaries +-2 and a random sample) x every stored key (+ absent keys); the gsfa manifest at EVERY cut offset (gsfa.NewGsfaReader, NewManifest+ReadAll: version, metadata, tuples, file bytes untouched); at every directed / boundary cut (and a quarter of the sampled ones) every key is looked up 3 times on the same open reader (sig-exists also through bucketteer.Open = mmap and an *os.File on a copy truncated on disk, plus a generated file with several signatures per prefix; gsfa: one reader per truncated directory; CAR: one ReaderAt / one seekable data reader per truncated copy); compact-index kinds and sig-exists: 8 lookups of keys with the same first read (one bucket / prefix) issued at the same time on one open reader whose reads are held until all of them have issued theirs, several rounds per cut, cuts inside the bucket header / count and inside entries; a case = one lookup / open on a truncated copy; non-trivial = cut strictly inside the file")
	cases := vh.NewCases("cases_c13", []string{"YF.C13_Trunc"}, "case", "check")
	seed := vh.Seed()
	sp := vfxDefaultSpec("c13", 2, seed)
	sp.NumSlots, sp.Gsfa, sp.MaxTx, sp.MaxEntries = 10, true, 2, 2
	sp.FirstRel = vfxEpochLen - 10 // the last block sits in the LAST slot of the epoch: its block time is the last 4 bytes of the table
	truths, err := vfxBuild([]vfxSpec{sp})
	if err != nil || truths[0].BuildErr != "" {
		t.Fatalf("setup failed: %v %s", err, truths[0].BuildErr)
	}
	tr := truths[0]
	x := &vc13Run{rep: rep, cases: cases, rng: vh.NewRng(seed + 1), nCoq: map[string]int{}, noted: map[string]bool{}}
	sample := 120
	if vh.Thorough() {
		sample = 1500
	}
	rd := func(path string) []byte {
		b, err := os.ReadFile(path)
		if err != nil {
			t.Fatalf("setup failed: %v", err)
		}
		return b
	}
	safe := func(f func() string) (out string) {
		defer func() {
			if r := recover(); r != nil {
				out = fmt.Sprintf("panic:%v", r)
			}
		}()
		return f()
	}
	// ---------------- compact indexes over an io.ReaderAt, as a local index is opened and as the server opens an index
	// whose URI is remote (Prefetch(true) after the open, see epoch.go); helpers in c13b_test.go
	{
		data := rd(tr.Paths.CidToOffsetAndSize)
		var keys []cid.Cid
		for _, o := range tr.Objects {
			keys = append(keys, vfxCidFromHex(o.Cid))
		}
		keys = append(keys, vfxMkCid([]byte("absent-1"), false), vfxMkCid([]byte("absent-2"), false))
		var names []string
		for _, k := range keys {
			names = append(names, k.String())
		}
		x.sweepCI("cid-to-offset-and-size", data, names, nil, sample, func(r indexes.ReaderAtCloser, prefetch bool) func(i int) string {
			ix := func() (ix *indexes.CidToOffsetAndSize_Reader) {
				defer func() {
					if recover() != nil {
						ix = nil
					}
				}()
				ix, err := indexes.OpenWithReader_CidToOffsetAndSize(r)
				if err != nil {
					return nil
				}
				if prefetch {
					ix.Prefetch(true)
				}
				return ix
			}()
			if ix == nil {
				return nil
			}
			return func(i int) string {
				return safe(func() string {
					v, err := ix.Get(keys[i])
					if err != nil {
						return vc13Err(err)
					}
					return fmt.Sprintf("v:%d/%d", v.Offset, v.Size)
				})
			}
		})
	}
	{
		data := rd(tr.Paths.SlotToCid)
		var keys []uint64
		for _, b := range tr.Blocks {
			keys = append(keys, b.Slot)
		}
		keys = append(keys, tr.base()+431999, tr.base()+777)
		var names []string
		for _, k := range keys {
			names = append(names, fmt.Sprint(k))
		}
		x.sweepCI("slot-to-cid", data, names, nil, sample, func(r indexes.ReaderAtCloser, prefetch bool) func(i int) string {
			ix := func() (ix *indexes.SlotToCid_Reader) {
				defer func() {
					if recover() != nil {
						ix = nil
					}
				}()
				ix, err := indexes.OpenWithReader_SlotToCid(r)
				if err != nil {
					return nil
				}
				if prefetch {
					ix.Prefetch(true)
				}
				return ix
			}()
			if ix == nil {
				return nil
			}
			return func(i int) string {
				return safe(func() string {
					v, err := ix.Get(keys[i])
					if err != nil {
						return vc13Err(err)
					}
					return "v:" + v.String()
				})
			}
		})
	}
	var sigs []solana.Signature
	for _, b := range tr.Blocks {
		for _, txx := range b.Txs {
			sigs = append(sigs, solana.MustSignatureFromBase58(txx.Sig))
		}
	}
	var absentSig solana.Signature
	copy(absentSig[:], x.rng.Bytes(64))
	{
		data := rd(tr.Paths.SignatureToCid)
		keys := append(append([]solana.Signature(nil), sigs...), absentSig)
		var names []string
		for _, k := range keys {
			names = append(names, k.String()[:12])
		}
		x.sweepCI("sig-to-cid", data, names, nil, sample, func(r indexes.ReaderAtCloser, prefetch bool) func(i int) string {
			ix := func() (ix *indexes.SigToCid_Reader) {
				defer func() {
					if recover() != nil {
						ix = nil
					}
				}()
				ix, err := indexes.OpenWithReader_SigToCid(r)
				if err != nil {
					return nil
				}
				if prefetch {
					ix.Prefetch(true)
				}
				return ix
			}()
			if ix == nil {
				return nil
			}
			return func(i int) string {
				return safe(func() string {
					v, err := ix.Get(keys[i])
					if err != nil {
						return vc13Err(err)
					}
					return "v:" + v.String()
				})
			}
		})
	}
	// the fourth compact-index kind (the address index's pubkey-to-offset-and-size file) over a ReaderAt too; below it is
	// also cut on disk inside its directory and read through gsfa.NewGsfaReader
	if tr.GsfaDir != "" {
		data := rd(filepath.Join(tr.GsfaDir, string(indexes.Kind_PubkeyToOffsetAndSize)+".index"))
		seen := map[string]bool{}
		var keys []solana.PublicKey
		for _, b := range tr.Blocks {
			for _, txx := range b.Txs {
				for _, a := range append(append([]string(nil), txx.Accounts...), txx.Loaded...) {
					if !seen[a] {
						seen[a] = true
						keys = append(keys, solana.MustPublicKeyFromBase58(a))
					}
				}
			}
		}
		sort.Slice(keys, func(i, j int) bool { return keys[i].String() < keys[j].String() })
		keys = append(keys, vfxAccount(977, 1), vfxAccount(977, 2)) // (almost surely) absent
		var names []string
		for _, k := range keys {
			names = append(names, k.String()[:12])
		}
		x.sweepCI("pubkey-to-offset-and-size", data, names, nil, sample, func(r indexes.ReaderAtCloser, prefetch bool) func(i int) string {
			ix := func() (ix *indexes.PubkeyToOffsetAndSize_Reader) {
				defer func() {
					if recover() != nil {
						ix = nil
					}
				}()
				ix, err := indexes.OpenWithReader_PubkeyToOffsetAndSize(r)
				if err != nil {
					return nil
				}
				if prefetch {
					ix.Prefetch(true)
				}
				return ix
			}()
			if ix == nil {
				return nil
			}
			return func(i int) string {
				return safe(func() string {
					v, err := ix.Get(keys[i])
					if err != nil {
						return vc13Err(err)
					}
					return fmt.Sprintf("v:%d/%d", v.Offset, v.Size)
				})
			}
		})
	}
	// a generated index with several buckets, each larger than the prefetch window
	x.bigIndex(vfxCidFromHex(tr.Objects[0].Cid), sample)
	// ---------------- sig-exists: the generated epoch's file and a small generated one with several signatures per
	// prefix (c13c_test.go): over a ReaderAt, through bucketteer.Open (mmap) and an *os.File, every key several times on
	// the same open reader, and concurrently
	{
		data := rd(tr.Paths.SignatureExists)
		keys := append(append([]solana.Signature(nil), sigs...), absentSig)
		x.sigExists("sig-exists", data, keys, sample)
		x.sigExistsSmall(sample)
	}
	// ---------------- slot-to-blocktime (exact-size read as in NewEpochFromConfig)
	{
		data := rd(tr.Paths.SlotToBlocktime)
		// open: the exact-size read and the parse, once per truncated copy; every slot is then asked vc13Attempts times
		// on the index it yields
		open := func(r *vc13Reader) (ix *blocktimeindex.Index) {
			defer func() {
				if recover() != nil {
					ix = nil
				}
			}()
			buf, err := ReadAllFromReaderAt(r, uint64(blocktimeindex.DefaultIndexByteSize))
			if err != nil {
				return nil
			}
			ix, err = blocktimeindex.FromBytes(buf)
			if err != nil {
				return nil
			}
			return ix
		}
		look := func(ix *blocktimeindex.Index, slot uint64) string {
			if ix == nil {
				return "err"
			}
			return safe(func() string {
				v, err := ix.Get(slot)
				if err != nil {
					return "err"
				}
				return fmt.Sprintf("v:%d", v)
			})
		}
		var bounds []int
		for _, b := range tr.Blocks {
			bounds = append(bounds, 46+4*int(b.Slot-tr.base()), 46+4*int(b.Slot-tr.base())+4)
		}
		for _, cut := range x.cuts(len(data), append(bounds, 14, 22, 30, 38, 46), sample/3) {
			r := &vc13Reader{data: data[:cut]}
			ix := open(r)
			for _, b := range tr.Blocks {
				for a := 1; a <= vc13Attempts; a++ {
					x.observeN("slot-to-blocktime", cut, len(data), fmt.Sprint(b.Slot), a, fmt.Sprintf("v:%d", b.Blocktime), look(ix, b.Slot), r)
					if ix == nil {
						break
					}
				}
			}
		}
		rep.Count(fmt.Sprintf("file:slot-to-blocktime bytes=%d", len(data)))
	}
	// ---------------- CAR sections (ReaderAt path and local bufio path)
	{
		data := rd(tr.CarPath)
		var bounds []int
		for _, o := range tr.Objects {
			bounds = append(bounds, int(o.Offset), int(o.Offset+o.SecLen))
		}
		cuts := x.cuts(len(data), bounds, sample)
		for _, cut := range cuts {
			r := &vc13Reader{data: data[:cut]} // one reader per truncated copy, for all objects
			dr := bytes.NewReader(data[:cut])
			for oi, o := range tr.Objects {
				if len(cuts) > 400 && (oi+cut)%4 != 0 {
					continue
				}
				c := vfxCidFromHex(o.Cid)
				want := "v:" + vh.Hex(data[o.Offset+o.SecLen-vc13DataLen(data, o):o.Offset+o.SecLen])
				// the remote path: the ReaderAt over the truncated CAR, asked vc13Attempts times
				for a := 1; a <= vc13Attempts; a++ {
					r.reset()
					got := safe(func() string {
						b, err := readNodeFromReaderAtWithOffsetAndSize(r, &c, o.Offset, o.SecLen)
						if err != nil {
							return "err"
						}
						return "v:" + vh.Hex(b)
					})
					x.observeN("car-readerat", cut, len(data), o.Cid[:16], a, want, got, r)
				}
				// the local path (Epoch.GetNodeByOffsetAndSize): seek the one data reader of the CAR to the offset, wrap
				// it in a fresh bufio.Reader, read the section - vc13Attempts times on the same data reader
				for a := 1; a <= vc13Attempts; a++ {
					got2 := safe(func() string {
						if _, err := dr.Seek(int64(o.Offset), io.SeekStart); err != nil {
							return "err"
						}
						b, err := readNodeWithKnownSize(bufio.NewReader(dr), &c, o.SecLen)
						if err != nil {
							return "err"
						}
						return "v:" + vh.Hex(b)
					})
					x.observeN("car-local", cut, len(data), o.Cid[:16], a, want, got2, nil)
				}
			}
		}
		rep.Count(fmt.Sprintf("file:car bytes=%d objects=%d", len(data), len(tr.Objects)))
	}
	// ---------------- address index directory: pubkey index / linked log / manifest truncated on disk
	{
		accounts := map[string]bool{}
		for _, b := range tr.Blocks {
			for _, txx := range b.Txs {
				for _, a := range txx.Accounts {
					accounts[a] = true
				}
			}
		}
		var keys []solana.PublicKey
		for a := range accounts {
			keys = append(keys, solana.MustPublicKeyFromBase58(a))
		}
		sort.Slice(keys, func(i, j int) bool { return keys[i].String() < keys[j].String() })
		if len(keys) > 14 {
			keys = keys[:14]
		}
		gsfaView := func(locs []linkedlog.OffsetAndSizeAndSlot) string {
			var sb strings.Builder
			for _, l := range locs {
				fmt.Fprintf(&sb, "%d/%d/%d;", l.Offset, l.Size, l.Slot)
			}
			return "v:" + sb.String()
		}
		look := func(dir string, k solana.PublicKey) string {
			return safe(func() string {
				g, err := gsfa.NewGsfaReader(dir)
				if err != nil {
					return "err"
				}
				defer g.Close()
				locs, err := g.Get(context.Background(), k, 1000)
				if err != nil {
					return vc13Err(err)
				}
				return gsfaView(locs)
			})
		}
		complete := map[string]string{}
		for _, k := range keys {
			complete[k.String()] = look(tr.GsfaDir, k)
		}
		names := []string{string(indexes.Kind_PubkeyToOffsetAndSize) + ".index", "linked-log", "manifest"}
		for _, victim := range names {
			full := rd(filepath.Join(tr.GsfaDir, victim))
			n := 40
			if vh.Thorough() {
				n = 300
			}
			for _, cut := range x.cuts(len(full)+7000, []int{len(full)}, n) { // +7000: never "exhaustive" (each cut costs a directory copy)
				if cut > len(full) {
					continue
				}
				d := filepath.Join(vh.OutDir(), "c13gsfa")
				_ = os.RemoveAll(d)
				_ = os.MkdirAll(d, 0o755)
				for _, nme := range names {
					b := rd(filepath.Join(tr.GsfaDir, nme))
					if nme == victim {
						b = b[:cut]
					}
					_ = os.WriteFile(filepath.Join(d, nme), b, 0o644)
				}
				for _, k := range keys {
					x.observe("gsfa-"+victim, cut, len(full), k.String()[:10], complete[k.String()], look(d, k), nil)
				}
				// and on ONE reader opened on the directory: every key vc13Attempts more times
				x.gsfaRepeated("gsfa-"+victim, d, cut, len(full), keys, complete, 1000, gsfaView)
			}
			rep.Count(fmt.Sprintf("file:gsfa-%s bytes=%d", victim, len(full)))
		}
	}
	// ---------------- the manifest cut at EVERY offset: open fails, or version / metadata / contents are the complete
	// file's, and the open leaves the file's bytes alone (c13b_test.go)
	if tr.GsfaDir != "" {
		x.manifestSweepDir(tr.GsfaDir, []string{string(indexes.Kind_PubkeyToOffsetAndSize) + ".index", "linked-log", "manifest"})
	}
	x.manifestSweepFile(vfxCidFromHex(tr.Objects[0].Cid))
	// ---------------- address index with MULTI-RECORD chains (an address with more than one flushed batch): a cut
	// inside the trailing 9-byte previous-record pointer of the newest record must not end the walk silently
	{
		gdir := filepath.Join(vh.OutDir(), "c13gsfa-multi")
		_ = os.RemoveAll(gdir)
		_ = os.MkdirAll(filepath.Join(vh.OutDir(), "c13gsfa-tmp"), 0o755)
		w, err := gsfa.NewGsfaWriter(gdir, indexmeta.Meta{}, 2, vfxCidFromHex(tr.Objects[0].Cid), indexes.NetworkMainnet, filepath.Join(vh.OutDir(), "c13gsfa-tmp"))
		if err != nil {
			t.Fatalf("setup failed: %v", err)
		}
		_ = os.MkdirAll(filepath.Join(vh.OutDir(), "c13gsfa-tmp"), 0o755)
		counts := []int{1003, 2005, 7}
		var keys []solana.PublicKey
		for i := range counts {
			keys = append(keys, vfxAccount(7, i))
		}
		n := 0
		for round := 0; round < 2005; round++ {
			var pks solana.PublicKeySlice
			for i, c := range counts {
				if round < c {
					pks = append(pks, keys[i])
				}
			}
			n++
			if err := w.Push(uint64(1000+n*50), uint64(100+n%7), tr.base()+uint64(round/5), pks, true, round%3 != 0, round%4 == 0); err != nil {
				t.Fatalf("setup failed: push: %v", err)
			}
		}
		if err := w.Close(); err != nil {
			t.Fatalf("setup failed: close: %v", err)
		}
		multiView := func(locs []linkedlog.OffsetAndSizeAndSlot) string {
			return fmt.Sprintf("v:%d entries, first %v", len(locs), locs[:1])
		}
		look := func(dir string, k solana.PublicKey) string {
			return safe(func() string {
				g, err := gsfa.NewGsfaReader(dir)
				if err != nil {
					return "err"
				}
				defer g.Close()
				locs, err := g.Get(context.Background(), k, 1000000)
				if err != nil {
					return vc13Err(err)
				}
				return multiView(locs)
			})
		}
		complete := map[string]string{}
		for i, k := range keys {
			complete[k.String()] = look(gdir, k)
			if !strings.HasPrefix(complete[k.String()], fmt.Sprintf("v:%d entries", counts[i])) {
				rep.Note("multi-record gsfa fixture: key %d reads back %s (expected %d entries)", i, complete[k.String()], counts[i])
			}
		}
		names := []string{string(indexes.Kind_PubkeyToOffsetAndSize) + ".index", "linked-log", "manifest"}
		full := rd(filepath.Join(gdir, "linked-log"))
		cutset := map[int]bool{}
		for c := len(full); c >= 0 && c > len(full)-700; c-- { // every byte of the newest records (written last)
			cutset[c] = true
		}
		for i := 0; i < 60; i++ {
			cutset[x.rng.Intn(len(full)+1)] = true
		}
		d := filepath.Join(vh.OutDir(), "c13gsfa-multi-cut")
		for cut := range cutset {
			_ = os.RemoveAll(d)
			_ = os.MkdirAll(d, 0o755)
			for _, nme := range names {
				b := rd(filepath.Join(gdir, nme))
				if nme == "linked-log" {
					b = b[:cut]
				}
				_ = os.WriteFile(filepath.Join(d, nme), b, 0o644)
			}
			for _, k := range keys {
				x.observe("gsfa-linked-log-multirecord", cut, len(full), k.String()[:10], complete[k.String()], look(d, k), nil)
			}
			if cut%3 == 0 || cut > len(full)-40 {
				x.gsfaRepeated("gsfa-linked-log-multirecord", d, cut, len(full), keys, complete, 1000000, multiView)
			}
		}
		rep.Count(fmt.Sprintf("file:gsfa-linked-log-multirecord bytes=%d", len(full)))
	}
	rep.Sample(map[string]interface{}{"spec": tr.Spec, "objects": len(tr.Objects), "signatures": len(sigs)})
	if err := cases.Write(); err != nil {
		t.Fatal(err)
	}
	rep.CasesWritten(cases)
	if err := rep.Write(); err != nil {
		t.Fatal(err)
	}
}
