package main

// Verification harness for C03 (uses fixture_test.go). Searches ABSENT keys whose lookup hits a stored
// entry (24-bit in-bucket hash collision) with the index's own lookup, and checks that the server never
// answers them with an object of another key.

import (
	"context"
	"encoding/binary"
	"errors"
	"fmt"
	"net"
	"net/http"
	"os"
	"path/filepath"
	"strings"
	"testing"
	"time"

	"github.com/gagliardetto/solana-go"
	"github.com/ipfs/go-cid"
	"github.com/rpcpool/yellowstone-faithful/compactindexsized"
	"github.com/rpcpool/yellowstone-faithful/iplddecoders"
	old_faithful_grpc "github.com/rpcpool/yellowstone-faithful/old-faithful-proto/old-faithful-grpc"
	"github.com/rpcpool/yellowstone-faithful/zzverif/vh"
)

func vc03Obs(err error, answered bool) string {
	if answered {
		return "OAnswered"
	}
	if err != nil && (errors.Is(err, compactindexsized.ErrNotFound) || errors.Is(err, ErrNotFound) || strings.Contains(strings.ToLower(err.Error()), "not found")) {
		return "ONotFound"
	}
	return "OError"
}

func TestVerif_C03(t *testing.T) {
	rep := vh.NewReport("C03", "absentkeys",
		"absent slots / signatures / CIDs / addresses whose index lookup hits a stored entry (found by search with the index's own lookup) + every skipped slot of the generated epochs; one epoch loaded and three epochs loaded; a case = one request; non-trivial = the index itself answered the absent key (collision)")
	cases := vh.NewCases("cases_c03", []string{"YF.C03_Lookup"}, "case", "check")
	seed := vh.Seed()
	big := vfxDefaultSpec("c03big", 2, seed)
	big.NumSlots, big.SkipPercent, big.MaxEntries, big.MaxTx, big.Gsfa, big.Accounts = 2600, 15, 1, 2, true, 6
	if vh.Thorough() {
		big.NumSlots = 9000
	}
	s1 := vfxDefaultSpec("c03s1", 1, seed+1)
	s1.NumSlots, s1.Gsfa = 40, true
	s3 := vfxDefaultSpec("c03s3", 3, seed+2)
	s3.NumSlots, s3.Gsfa = 40, true
	// the two small epochs get seeds (derived from the run's seed) for which their CAR files have objects at the same
	// offset with the same section length: the concurrent part fetches such objects across epochs
	s1, s3, steered := vc03SteerSeeds(s1, s3, 24)
	rep.CountN("small epochs: CAR positions (offset, section length) shared by construction", steered)
	mf := vfxDefaultSpec("c03mf", 4, seed+3) // a third of the transactions span several frames (no address index: its builder refuses split transaction data)
	mf.NumSlots, mf.SkipPercent, mf.MaxEntries, mf.MaxTx, mf.FrameSize, mf.FanOut = 900, 10, 1, 3, 70, 3
	// a fifth epoch with objects of very different sizes (c03held_test.go); it is not loaded next to the others
	all, err := vfxBuild([]vfxSpec{big, s1, s3, mf, vc03LargeSpec(seed)})
	var trLarge *vfxTruth
	if len(all) == 5 {
		trLarge = all[4]
		if err != nil && all[0] != nil && all[1] != nil && all[2] != nil && all[3] != nil {
			rep.Note("the large-object epoch was not built (its parts are skipped): %v", err)
			err = nil // only the additional epoch failed
		}
	}
	if err != nil {
		t.Fatalf("setup failed: %v", err)
	}
	truths := all[:4]
	for _, tr := range truths {
		if tr.BuildErr != "" {
			t.Fatalf("setup failed: fixture %s: %s", tr.Spec.Name, tr.BuildErr)
		}
	}
	trBig := truths[0]
	ctx := context.Background()
	// ---- what a fetch by CID returned stays the bytes stored under that CID (objects of 16 KiB .. 300 KiB among them)
	t0 := time.Now()
	vc03HeldLarge(rep, trLarge, seed)
	rep.Flag("seconds_held_bytes_part", time.Since(t0).Seconds())
	// ---- absent keys without any index entry, asked on long-lived readers between hits (c03xbucket_test.go)
	t0 = time.Now()
	vc03XSynthetic(rep, seed)
	vc03XCidIndex(rep, trLarge, seed)
	xaddr := vc03XAddrPairs(rep, trBig, seed)
	rep.Flag("seconds_cross_bucket_index_part", time.Since(t0).Seconds())
	pairs := &vc03Pairs{} // colliding (absent, stored) keys found below with one epoch loaded; replayed concurrently at the end
	objAt := map[uint64]cid.Cid{}
	for _, o := range trBig.Objects {
		objAt[o.Offset] = vfxCidFromHex(o.Cid)
	}
	// ---- absent signatures against the epoch with multi-frame transactions: the key confirmation must not depend on
	// how many frames the stored transaction has
	{
		trM := truths[3]
		multiM, epsM, err := vfxMulti([]*vfxTruth{trM}, 2)
		if err != nil {
			t.Fatalf("setup failed: %v", err)
		}
		epM := epsM[0]
		rngM := vh.NewRng(seed + 777)
		nsigM := 400000
		if vh.Thorough() {
			nsigM = 2000000
		}
		coll, collMulti := 0, 0
		for i := 0; i < nsigM; i++ {
			var sig solana.Signature
			binary.LittleEndian.PutUint64(sig[0:], rngM.U64())
			binary.LittleEndian.PutUint64(sig[8:], rngM.U64())
			sig[63] = 0xED
			c, lerr := epM.sigToCidIndex.Get(sig)
			if lerr != nil {
				continue
			}
			coll++
			frames := 1
			if raw, err := epM.GetNodeByCid(ctx, c); err == nil {
				if tx, err := iplddecoders.DecodeTransaction(raw); err == nil {
					if total, ok := tx.Data.GetTotal(); ok {
						frames = total
					}
				}
			}
			if frames > 1 {
				collMulti++
			}
			rep.Case(fmt.Sprintf("multiframe/sig/%s", sig), true)
			txn, _, gerr := epM.GetTransaction(ctx, sig)
			if gerr == nil {
				got, _ := readFirstSignature(txn.Data.Bytes())
				if got != sig {
					rep.Fail("transaction-of-another-signature", fmt.Sprintf("multi-frame epoch: Epoch.GetTransaction(%s) returned the %d-frame transaction %s", sig, frames, got),
						map[string]interface{}{"spec": trM.Spec, "asked_sig": sig.String(), "got_sig": got.String(), "frames": frames})
				}
			}
			if gr, gerr2 := multiM.GetTransaction(ctx, &old_faithful_grpc.TransactionRequest{Signature: sig[:]}); gerr2 == nil && gr != nil && gr.Transaction != nil {
				rep.Fail("transaction-of-another-signature:grpc", fmt.Sprintf("multi-frame epoch: gRPC GetTransaction(%s) answered (%d-frame transaction stored under the colliding entry)", sig, frames),
					map[string]interface{}{"spec": trM.Spec, "asked_sig": sig.String(), "frames": frames})
			}
		}
		rep.CountN("multiframe absent-signatures-colliding", coll)
		rep.CountN("multiframe absent-signatures-colliding-with-multi-frame-transaction", collMulti)
		for _, e := range epsM {
			e.Close()
		}
	}
	for _, loaded := range []int{1, 3} {
		var use []*vfxTruth
		if loaded == 1 {
			use = truths[:1]
		} else {
			use = truths
		}
		multi, eps, err := vfxMulti(use, 2)
		if err != nil {
			t.Fatalf("setup failed: %v", err)
		}
		ep := eps[0]
		h := newMultiEpochHandler(multi, nil)
		tag := fmt.Sprintf("epochs=%d", loaded)
		present := map[uint64]*vfxBlock{}
		for i := range trBig.Blocks {
			present[trBig.Blocks[i].Slot] = &trBig.Blocks[i]
		}
		// ---- absent slots of the whole epoch: the index's own lookup tells which collide
		base := trBig.base()
		collSlots := 0
		for s := base; s < base+vfxEpochLen; s++ {
			if present[s] != nil {
				continue
			}
			c, lerr := ep.slotToCidIndex.Get(s)
			if lerr != nil {
				continue // the index itself says not found: nothing can go wrong downstream
			}
			collSlots++
			rep.Case(fmt.Sprintf("%s/slot/%d", tag, s), true)
			decodedSlot := uint64(0)
			if raw, err := ep.GetNodeByCid(ctx, c); err == nil {
				if b, err := iplddecoders.DecodeBlock(raw); err == nil {
					decodedSlot = uint64(b.Slot)
				}
			}
			blk, _, gerr := ep.GetBlock(ctx, s)
			answered := gerr == nil
			if answered && uint64(blk.Slot) != s {
				rep.Fail("block-of-another-slot", fmt.Sprintf("%s: Epoch.GetBlock(%d) returned the block of slot %d", tag, s, blk.Slot),
					map[string]interface{}{"spec": trBig.Spec, "asked_slot": s, "got_slot": blk.Slot})
			}
			if loaded == 1 && present[decodedSlot] != nil {
				pairs.Slots = append(pairs.Slots, vc03SlotPair{Absent: s, Stored: decodedSlot})
			}
			if loaded == 1 || collSlots <= 40 {
				cases.Add(fmt.Sprintf("CBlock %d%%N %d%%N %s", s, decodedSlot, vc03Obs(gerr, answered)))
			}
			if collSlots <= 25 {
				// the public API: JSON-RPC getBlock and gRPC GetBlock
				body, _, panicked, pmsg := vfxRPC(h, fmt.Sprintf(`{"jsonrpc":"2.0","id":1,"method":"getBlock","params":[%d,{"encoding":"base64","maxSupportedTransactionVersion":0,"rewards":false}]}`, s))
				if panicked {
					rep.Fail("handler-panic", pmsg, map[string]interface{}{"slot": s})
				} else if r, err := vfxParseReply(body); err == nil && r.Error == nil && len(r.Result) > 4 {
					rep.Fail("block-of-another-slot:jsonrpc", fmt.Sprintf("%s: getBlock(%d) answered with a block: %.200s", tag, s, body),
						map[string]interface{}{"spec": trBig.Spec, "asked_slot": s})
				}
				gr, gerr2 := multi.GetBlock(ctx, &old_faithful_grpc.BlockRequest{Slot: s})
				if gerr2 == nil && gr != nil && gr.Slot != s {
					rep.Fail("block-of-another-slot:grpc", fmt.Sprintf("%s: gRPC GetBlock(%d) returned slot %d", tag, s, gr.Slot),
						map[string]interface{}{"spec": trBig.Spec, "asked_slot": s})
				}
			}
		}
		rep.CountN(tag+" absent-slots-colliding", collSlots)
		// present slots keep being answered (the confirmation must not reject them)
		np := 0
		for s, b := range present {
			if np >= 60 {
				break
			}
			np++
			blk, _, gerr := ep.GetBlock(ctx, s)
			if gerr != nil || uint64(blk.Slot) != b.Slot {
				rep.Fail("present-block-not-answered", fmt.Sprintf("%s: slot %d: %v", tag, s, gerr), map[string]interface{}{"slot": s})
			}
			cases.Add(fmt.Sprintf("CPresentBlock %d%%N %s", s, vc03Obs(gerr, gerr == nil)))
		}
		// ---- absent signatures
		rng := vh.NewRng(seed + uint64(loaded)*17)
		nsig := 250000
		if vh.Thorough() {
			nsig = 2000000
		}
		collSigs := 0
		for i := 0; i < nsig; i++ {
			var sig solana.Signature
			binary.LittleEndian.PutUint64(sig[0:], rng.U64())
			binary.LittleEndian.PutUint64(sig[8:], rng.U64())
			sig[63] = 0xEE // generated signatures never end like this... (they are random too; distinctness is by the 16 random bytes)
			c, lerr := ep.sigToCidIndex.Get(sig)
			if lerr != nil {
				continue
			}
			collSigs++
			rep.Case(fmt.Sprintf("%s/sig/%s", tag, sig), true)
			var decSig solana.Signature
			if raw, err := ep.GetNodeByCid(ctx, c); err == nil {
				if tx, err := iplddecoders.DecodeTransaction(raw); err == nil {
					if sg, err := readFirstSignature(tx.Data.Bytes()); err == nil {
						decSig = sg
					}
				}
			}
			if loaded == 1 && decSig != (solana.Signature{}) {
				pairs.Sigs = append(pairs.Sigs, vc03SigPair{Absent: sig, Stored: decSig})
			}
			txn, _, gerr := ep.GetTransaction(ctx, sig)
			answered := gerr == nil
			if answered {
				got, _ := readFirstSignature(txn.Data.Bytes())
				if got != sig {
					rep.Fail("transaction-of-another-signature", fmt.Sprintf("%s: Epoch.GetTransaction(%s) returned the transaction %s", tag, sig, got),
						map[string]interface{}{"spec": trBig.Spec, "asked_sig": sig.String(), "got_sig": got.String()})
				}
			}
			cases.Add(fmt.Sprintf("CTx %s %s %s", vh.CoqBytes(sig[:8]), vh.CoqBytes(decSig[:8]), vc03Obs(gerr, answered)))
			if collSigs <= 25 {
				body, _, panicked, pmsg := vfxRPC(h, fmt.Sprintf(`{"jsonrpc":"2.0","id":1,"method":"getTransaction","params":["%s",{"encoding":"base64","maxSupportedTransactionVersion":0}]}`, sig))
				if panicked {
					rep.Fail("handler-panic", pmsg, map[string]interface{}{"sig": sig.String()})
				} else if r, err := vfxParseReply(body); err == nil && r.Error == nil && len(r.Result) > 4 {
					rep.Fail("transaction-of-another-signature:jsonrpc", fmt.Sprintf("%s: getTransaction(%s) answered: %.200s", tag, sig, body),
						map[string]interface{}{"spec": trBig.Spec, "asked_sig": sig.String()})
				}
				gr, gerr2 := multi.GetTransaction(ctx, &old_faithful_grpc.TransactionRequest{Signature: sig[:]})
				if gerr2 == nil && gr != nil && gr.Transaction != nil {
					rep.Fail("transaction-of-another-signature:grpc", fmt.Sprintf("%s: gRPC GetTransaction(%s) answered", tag, sig),
						map[string]interface{}{"spec": trBig.Spec, "asked_sig": sig.String()})
				}
			}
		}
		rep.CountN(tag+" absent-signatures-tried", nsig)
		rep.CountN(tag+" absent-signatures-colliding", collSigs)
		// ---- absent CIDs: a colliding CID must fail (CID comparison), never return another object's bytes
		collCids := 0
		for i := 0; i < 200000; i++ {
			c := vfxMkCid(rng.Bytes(12), false)
			oas, lerr := ep.cidToOffsetAndSizeIndex.Get(c)
			if lerr != nil {
				continue
			}
			collCids++
			rep.Case(fmt.Sprintf("%s/cid/%s", tag, c), true)
			if stored, ok := objAt[oas.Offset]; ok && loaded == 1 {
				pairs.Cids = append(pairs.Cids, vc03CidPair{Absent: c, Stored: stored})
			}
			raw, gerr := ep.GetNodeByCid(ctx, c)
			if gerr == nil {
				rep.Fail("bytes-of-another-cid", fmt.Sprintf("%s: GetNodeByCid(%s) returned %d bytes stored at offset %d under another CID", tag, c, len(raw), oas.Offset),
					map[string]interface{}{"spec": trBig.Spec, "cid": c.String()})
			}
		}
		rep.CountN(tag+" absent-cids-colliding", collCids)
		// ---- sibling CIDs: same multihash as an archived object, another codec / version. They are not archived; with
		// the objects already in the caches (getBlock prefetches whole sections) a fetch must still fail.
		{
			warm := 0
			var sib int
			for s, b := range present {
				if warm >= 25 {
					break
				}
				warm++
				if _, err := multi.GetBlock(ctx, &old_faithful_grpc.BlockRequest{Slot: s}); err != nil {
					continue
				}
				var cids []cid.Cid
				cids = append(cids, vfxCidFromHex(b.Cid))
				for _, e := range b.Entries {
					cids = append(cids, vfxCidFromHex(e.Cid))
				}
				for _, tx := range b.Txs {
					cids = append(cids, vfxCidFromHex(tx.Cid))
				}
				for _, c0 := range cids {
					for _, codec := range []uint64{0x55 /* raw */, 0x70 /* dag-pb */, 0x0129 /* dag-json */, 0x71 /* dag-cbor */} {
						c := cid.NewCidV1(codec, c0.Hash())
						if c.Equals(c0) {
							continue
						}
						sib++
						rep.Case(fmt.Sprintf("%s/sibling-cid/%s", tag, c), true)
						if raw, gerr := ep.GetNodeByCid(ctx, c); gerr == nil {
							rep.Fail("bytes-of-another-cid:same-multihash", fmt.Sprintf("%s: GetNodeByCid(%s) returned %d bytes; only %s is archived (same multihash, another codec)", tag, c, len(raw), c0),
								map[string]interface{}{"spec": trBig.Spec, "cid": c.String(), "archived": c0.String()})
						}
					}
				}
			}
			rep.CountN(tag+" sibling-cids-tried", sib)
		}
		// the same through a CAR served by a ReaderAt (HTTP on loopback): the remote read path has its own CID check
		if loaded == 1 {
			if ln, lerr := net.Listen("tcp", "127.0.0.1:0"); lerr == nil {
				srv := &http.Server{Handler: http.FileServer(http.Dir(vh.OutDir()))}
				go srv.Serve(ln)
				rel, _ := filepath.Rel(vh.OutDir(), trBig.CarPath)
				cfgPath := filepath.Join(trBig.Spec.Dir, "epoch-http.yml")
				_ = os.WriteFile(cfgPath, []byte(vfxConfigYaml(trBig, fmt.Sprintf("http://%s/%s", ln.Addr().String(), filepath.ToSlash(rel)))), 0o644)
				if epR, err := vfxLoadConfigFile(cfgPath, vfxNewCache()); err == nil {
					rngR := vh.NewRng(seed + 4242)
					collR := 0
					for i := 0; i < 200000; i++ {
						c := vfxMkCid(rngR.Bytes(12), false)
						oas, lerr := epR.cidToOffsetAndSizeIndex.Get(c)
						if lerr != nil {
							continue
						}
						collR++
						rep.Case(fmt.Sprintf("%s/cid-readerat/%s", tag, c), true)
						if raw, gerr := epR.GetNodeByCid(ctx, c); gerr == nil {
							rep.Fail("bytes-of-another-cid:readerat", fmt.Sprintf("CAR served through a ReaderAt: GetNodeByCid(%s) returned %d bytes stored at offset %d under another CID", c, len(raw), oas.Offset),
								map[string]interface{}{"spec": trBig.Spec, "cid": c.String()})
						}
					}
					rep.CountN("readerat absent-cids-colliding", collR)
					epR.Close()
				} else {
					rep.Note("ReaderAt path not exercised: %v", err)
				}
				srv.Close()
			}
		}
		// ---- absent addresses (GSFA): an address without history
		if ep.gsfaReader != nil {
			known := map[string]bool{}
			for _, b := range trBig.Blocks {
				for _, tx := range b.Txs {
					for _, a := range tx.Accounts {
						known[a] = true
					}
					for _, a := range tx.Loaded {
						known[a] = true
					}
				}
			}
			collAddr := 0
			for i := 0; i < 3000000 && collAddr < 3; i++ {
				var pk solana.PublicKey
				copy(pk[:], rng.Bytes(32))
				if known[pk.String()] {
					continue
				}
				// the reader's own head lookup
				if _, err := ep.gsfaReader.Get(ctx, pk, 1); err != nil {
					continue
				}
				collAddr++
				rep.Case(fmt.Sprintf("%s/addr/%s", tag, pk), true)
				body, _, panicked, pmsg := vfxRPC(h, fmt.Sprintf(`{"jsonrpc":"2.0","id":1,"method":"getSignaturesForAddress","params":["%s",{"limit":10}]}`, pk))
				if panicked {
					rep.Fail("handler-panic", pmsg, map[string]interface{}{"address": pk.String()})
					continue
				}
				if r, err := vfxParseReply(body); err == nil && r.Error == nil && len(r.Result) > 4 {
					rep.Fail("gsfa-address-collision", fmt.Sprintf("%s: getSignaturesForAddress(%s) (an address without history) returned signatures of transactions that do not mention it: %.160s", tag, pk, body),
						map[string]interface{}{"spec": trBig.Spec, "address": pk.String()})
				}
			}
			rep.CountN(tag+" absent-addresses-colliding", collAddr)
			// addresses without history AND without index entry, asked right after an indexed address (other bucket, same number)
			vc03XAddrServer(rep, xaddr, tag, h, eps, trBig)
		}
		// ---- slot in an epoch that is not loaded
		body, _, panicked, _ := vfxRPC(h, fmt.Sprintf(`{"jsonrpc":"2.0","id":1,"method":"getBlock","params":[%d]}`, uint64(77)*vfxEpochLen+5))
		if r, err := vfxParseReply(body); !panicked && err == nil && r.Error == nil && len(r.Result) > 4 {
			rep.Fail("answered-for-unloaded-epoch", body, nil)
		}
		for _, e := range eps {
			e.Close()
		}
	}
	// ---- the colliding pairs again, absent and stored key requested concurrently (c03conc_test.go)
	vc03Concurrent(rep, cases, truths, pairs, seed)
	_ = cid.Undef
	rep.Sample(map[string]interface{}{"epoch_blocks": len(trBig.Blocks), "spec": trBig.Spec})
	if err := cases.Write(); err != nil {
		t.Fatal(err)
	}
	rep.CasesWritten(cases)
	if err := rep.Write(); err != nil {
		t.Fatal(err)
	}
}
