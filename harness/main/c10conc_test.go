package main

// Verification harness for C10, overlapping requests on a CAR the indexes were not built from (called from
// vc10WrongCarCases; uses fixture_test.go and c10_test.go).
//
// The sequential part fetches every CID one request at a time. Here the CAR is served through a ReaderAt of the harness
// (the path a remote CAR takes) that can hold ONE read of a chosen section back. For an object o that the index of epoch A
// places at (offset, length), two requests for that place overlap in time, in both orders:
//
//	X  a read of the section by its place, Epoch.GetNodeByOffsetAndSize, as getSignaturesForAddress and the gRPC transaction
//	   stream issue it - without a CID (nil), with the CID the served CAR stores there, and with o's CID;
//	Y  the CID-addressed fetch Epoch.GetNodeByCid(o's CID).
//
// Oracle (unchanged): a CID-addressed answer is an error or the bytes stored under the requested CID. For Y these are the
// bytes the CAR the indexes were built from stores under o's CID; for an X that names a CID, the bytes of the section
// read, whose CID field must be the CID named. An X without a CID is not a CID-addressed fetch: its answer is not judged.
//
// Nothing depends on timing for its verdict: the schedule is forced by the gate. The only timer bounds how long the second
// request is waited for before the held read is released (a second request that waits for the first one - which the
// property does not forbid - is simply judged after both have finished).

import (
	"bytes"
	"context"
	"encoding/binary"
	"fmt"
	"os"
	"sync"
	"time"

	"github.com/ipfs/go-cid"
	"github.com/rpcpool/yellowstone-faithful/indexes"
	"github.com/rpcpool/yellowstone-faithful/zzverif/vh"
)

// vc10Gate: a CAR in memory; after arm(off) the next ReadAt that starts at off signals `entered` and waits for `release`.
type vc10Gate struct {
	rd      *bytes.Reader
	mu      sync.Mutex
	armed   bool
	off     int64
	entered chan struct{}
	release chan struct{}
	reads   int
}

func (g *vc10Gate) arm(off int64) (entered, release chan struct{}) {
	g.mu.Lock()
	defer g.mu.Unlock()
	g.armed, g.off = true, off
	g.entered, g.release = make(chan struct{}), make(chan struct{})
	return g.entered, g.release
}

func (g *vc10Gate) disarm() {
	g.mu.Lock()
	g.armed = false
	g.mu.Unlock()
}

func (g *vc10Gate) ReadAt(p []byte, off int64) (int, error) {
	g.mu.Lock()
	g.reads++
	hold := g.armed && off == g.off
	if hold {
		g.armed = false
	}
	entered, release := g.entered, g.release
	g.mu.Unlock()
	if hold {
		close(entered)
		<-release
	}
	return g.rd.ReadAt(p, off)
}

func (g *vc10Gate) Close() error { return nil }

type vc10Ans struct {
	got      []byte
	err      error
	panicMsg string
}

type vc10Req struct {
	desc  string
	do    func() ([]byte, error)
	judge func(a vc10Ans) (ok bool, why string) // nil: the answer is not judged
	sig   string
}

func (r *vc10Req) run() (a vc10Ans) {
	defer func() {
		if p := recover(); p != nil {
			a = vc10Ans{err: fmt.Errorf("panic: %v", p), panicMsg: fmt.Sprint(p)}
		}
	}()
	got, err := r.do()
	return vc10Ans{got: got, err: err}
}

type vc10Conc struct {
	rep    *vh.Report
	wait   time.Duration
	fails  int
	waited int // replays in which the second request did not return while the first one was held
	stuck  bool
	held   int
	noRead int
}

// race starts first, waits until it sits in its read of the section at off (or has finished without such a read), starts
// second, waits for second (at most c.wait while first is held), lets the held read go and waits for both.
func (c *vc10Conc) race(g *vc10Gate, off int64, first, second func()) (held, ok bool) {
	entered, release := g.arm(off)
	d1 := make(chan struct{})
	go func() { defer close(d1); first() }()
	select {
	case <-entered:
		held = true
	case <-d1:
		g.disarm()
	}
	d2 := make(chan struct{})
	go func() { defer close(d2); second() }()
	if held {
		tm := time.NewTimer(c.wait)
		select {
		case <-d2:
		case <-tm.C:
			c.waited++
		}
		tm.Stop()
	}
	close(release)
	guard := time.NewTimer(90 * time.Second)
	defer guard.Stop()
	for _, d := range []chan struct{}{d1, d2} {
		select {
		case <-d:
		case <-guard.C:
			c.stuck = true
			c.rep.Note("overlapping wrong-CAR requests stopped: a request did not return within 90 s after the held CAR read was released")
			return held, false
		}
	}
	if held {
		c.held++
	} else {
		c.noRead++
	}
	return held, true
}

// vc10SectionAt: the section the served CAR holds at the place of o, if those bytes are a section: its CID field and data.
func vc10SectionAt(served []byte, o vfxObj) (c cid.Cid, data []byte, ok bool) {
	if o.Offset+o.SecLen > uint64(len(served)) || o.SecLen == 0 {
		return cid.Undef, nil, false
	}
	sec := served[o.Offset : o.Offset+o.SecLen]
	l, n := binary.Uvarint(sec)
	if n <= 0 || l != uint64(len(sec)-n) {
		return cid.Undef, nil, false
	}
	cl, c, err := cid.CidFromBytes(sec[n:])
	if err != nil {
		return cid.Undef, nil, false
	}
	return c, sec[n+cl:], true
}

func vc10ConcurrentWrongCar(rep *vh.Report, wc vc10WrongCar, cfgPath string, objs []vfxObj, want func(vfxObj) []byte) {
	served, err := os.ReadFile(wc.path)
	if err != nil {
		rep.Note("overlapping requests on wrong CAR %s not exercised: %v", wc.name, err)
		return
	}
	ep, err := vfxLoadConfigFile(cfgPath, vfxNewCache())
	if err != nil {
		rep.Note("overlapping requests on wrong CAR %s not exercised: rejected at load: %v", wc.name, err)
		return
	}
	defer ep.Close()
	g := &vc10Gate{rd: bytes.NewReader(served)}
	ep.localCarReader = nil // stays registered in onClose
	ep.remoteCarReader = g
	c := &vc10Conc{rep: rep, wait: 150 * time.Millisecond}
	ctx := context.Background()

	// which objects: those at whose place the served CAR holds a well-formed section of ANOTHER object first, then some at
	// whose place it holds no section at all, then some that are where the index says
	nOther, nNone, nSame := 10, 3, 3
	maxWaited := 40
	if vh.Thorough() {
		nOther, nNone, nSame, maxWaited = 80, 10, 10, 400
	}
	var other, none, same []vfxObj
	for _, o := range objs {
		here, _, ok := vc10SectionAt(served, o)
		switch {
		case !ok:
			none = append(none, o)
		case here.Equals(vfxCidFromHex(o.Cid)):
			same = append(same, o)
		default:
			other = append(other, o)
		}
	}
	rep.CountN("wrong CAR "+wc.name+": places holding a well-formed section of another object", len(other))
	rep.CountN("wrong CAR "+wc.name+": places holding no section", len(none))
	rep.CountN("wrong CAR "+wc.name+": places holding the indexed object", len(same))
	cut := func(l []vfxObj, n int) []vfxObj {
		if len(l) > n {
			return l[:n]
		}
		return l
	}
	chosen := append(append(append([]vfxObj(nil), cut(other, nOther)...), cut(none, nNone)...), cut(same, nSame)...)

	for _, o := range chosen {
		o := o
		oc := vfxCidFromHex(o.Cid)
		here, dataHere, parses := vc10SectionAt(served, o)
		oas := &indexes.OffsetAndSize{Offset: o.Offset, Size: o.SecLen}
		y := &vc10Req{desc: fmt.Sprintf("Epoch.GetNodeByCid(%s)", oc), sig: "wrong-car-returns-other-bytes:concurrent",
			do: func() ([]byte, error) { return ep.GetNodeByCid(ctx, oc) },
			judge: func(a vc10Ans) (bool, string) {
				if a.err != nil || bytes.Equal(a.got, want(o)) {
					return true, ""
				}
				return false, fmt.Sprintf("returned %d bytes that are not the %d bytes stored under the requested CID", len(a.got), len(want(o)))
			}}
		type leader struct {
			name string
			c    *cid.Cid
		}
		leaders := []leader{{"no CID", nil}}
		if parses && !here.Equals(oc) {
			leaders = append(leaders, leader{"the CID the served CAR stores there", &here})
		}
		leaders = append(leaders, leader{"the CID the index places there", &oc})
		for _, l := range leaders {
			l := l
			x := &vc10Req{desc: fmt.Sprintf("Epoch.GetNodeByOffsetAndSize(%s, offset %d, size %d)", l.name, o.Offset, o.SecLen), sig: "cid-checked-read-returns-other-section:concurrent",
				do: func() ([]byte, error) { return ep.GetNodeByOffsetAndSize(ctx, l.c, oas) }}
			if l.c != nil {
				named := *l.c
				x.judge = func(a vc10Ans) (bool, string) {
					if a.err != nil {
						return true, ""
					}
					if parses && here.Equals(named) && bytes.Equal(a.got, dataHere) {
						return true, ""
					}
					return false, fmt.Sprintf("the read named CID %s and returned %d bytes although the section at that place of the served CAR does not carry that CID", named, len(a.got))
				}
			}
			for order := 0; order < 2; order++ {
				if c.stuck || c.fails >= 6 || c.waited >= maxWaited {
					break
				}
				var ax, ay vc10Ans
				fx := func() { ax = x.run() }
				fy := func() { ay = y.run() }
				var held, ok bool
				var sx, sy string
				if order == 0 {
					held, ok = c.race(g, int64(o.Offset), fx, fy)
					sx, sy = "in its CAR read while the other request was issued", "issued while the other request was in its CAR read"
				} else {
					held, ok = c.race(g, int64(o.Offset), fy, fx)
					sy, sx = "in its CAR read while the other request was issued", "issued while the other request was in its CAR read"
				}
				if !ok {
					break
				}
				if !held {
					sx, sy = "no CAR read to hold: the requests ran one after the other", "no CAR read to hold: the requests ran one after the other"
				}
				rep.Case(fmt.Sprintf("wrongcar-concurrent/%s/%s/by-offset-with=%s/order=%d", wc.name, o.Cid, l.name, order), held)
				for _, q := range []struct {
					r     *vc10Req
					a     vc10Ans
					sched string
					with  *vc10Req
				}{{y, ay, sy, x}, {x, ax, sx, y}} {
					if q.r.judge == nil {
						continue
					}
					if q.a.err != nil {
						rep.Count("wrong CAR " + wc.name + " overlapping: CID-addressed answers that are errors")
					} else {
						rep.Count("wrong CAR " + wc.name + " overlapping: CID-addressed answers with bytes")
					}
					if good, why := q.r.judge(q.a); !good {
						c.fails++
						rep.Fail(q.r.sig, fmt.Sprintf("indexes of epoch A with the %s CAR served through a ReaderAt: %s, %s, concurrently with %s: %s", wc.name, q.r.desc, q.sched, q.with.desc, why),
							map[string]interface{}{"car": wc.name, "cid": oc.String(), "offset": o.Offset, "section_len": o.SecLen, "request": q.r.desc, "schedule": q.sched, "concurrent_with": q.with.desc,
								"cid_stored_at_that_place_of_the_served_car": fmt.Sprint(here)})
					}
				}
			}
		}
	}
	rep.CountN("wrong CAR "+wc.name+" overlapping: replays with the first request held in its CAR read", c.held)
	rep.CountN("wrong CAR "+wc.name+" overlapping: replays without a CAR read to hold", c.noRead)
	rep.CountN("wrong CAR "+wc.name+" overlapping: replays in which the second request waited for the held one", c.waited)
	if g.reads == 0 {
		rep.Note("overlapping requests on wrong CAR %s: no read went through the harness's CAR reader", wc.name)
	}
	if c.waited >= maxWaited {
		rep.Note("overlapping requests on wrong CAR %s: stopped after %d replays in which the second request waited for the held read (%v each)", wc.name, c.waited, c.wait)
	}
}
