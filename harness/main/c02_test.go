package main

// Verification harness for C02 (uses fixture_test.go): every archived block and transaction of the
// generated epochs is requested through the JSON-RPC handler (base58 / base64 / base64+zstd / json) and
// through the gRPC methods, with different sets of epochs loaded and different epoch-search concurrency,
// and compared with the generator's ground truth; the transaction order of every block reply and the
// previous-blockhash decision are written as Coq cases for the assembly model (YF.C02_Rpc).

import (
	"bytes"
	"context"
	"encoding/base64"
	"encoding/hex"
	"encoding/json"
	"fmt"
	"go/ast"
	"go/parser"
	"go/token"
	"os"
	"path/filepath"
	"regexp"
	"runtime"
	"sort"
	"strconv"
	"strings"
	"testing"
	"time"

	"github.com/gagliardetto/solana-go"
	"github.com/klauspost/compress/zstd"
	"github.com/mr-tron/base58"
	hugecache "github.com/rpcpool/yellowstone-faithful/huge-cache"
	old_faithful_grpc "github.com/rpcpool/yellowstone-faithful/old-faithful-proto/old-faithful-grpc"
	"github.com/rpcpool/yellowstone-faithful/zzverif/vh"
	"github.com/valyala/fasthttp"
	"google.golang.org/grpc/codes"
	"google.golang.org/grpc/status"
)

type vc02Tx struct {
	Transaction json.RawMessage `json:"transaction"`
	Meta        map[string]any  `json:"meta"`
	Version     any             `json:"version"`
	Slot        *uint64         `json:"slot"`
	BlockTime   *int64          `json:"blockTime"`
}
type vc02Block struct {
	BlockHeight       *uint64  `json:"blockHeight"`
	BlockTime         *uint64  `json:"blockTime"`
	Blockhash         string   `json:"blockhash"`
	ParentSlot        uint64   `json:"parentSlot"`
	PreviousBlockhash *string  `json:"previousBlockhash"`
	Transactions      []vc02Tx `json:"transactions"`
}

// vc02DecodeTx turns the "transaction" member of a reply into raw transaction bytes (nil for json encoding).
func vc02DecodeTx(raw json.RawMessage, enc string) ([]byte, error) {
	if enc == "json" {
		return nil, nil
	}
	var arr []string
	if err := json.Unmarshal(raw, &arr); err != nil || len(arr) != 2 {
		return nil, fmt.Errorf("transaction member is not [data, encoding]: %.80s", string(raw))
	}
	switch enc {
	case "base58":
		return base58.Decode(arr[0])
	case "base64":
		return base64.StdEncoding.DecodeString(arr[0])
	case "base64+zstd":
		z, err := base64.StdEncoding.DecodeString(arr[0])
		if err != nil {
			return nil, err
		}
		dec, err := zstd.NewReader(nil)
		if err != nil {
			return nil, err
		}
		defer dec.Close()
		return dec.DecodeAll(z, nil)
	}
	return nil, fmt.Errorf("unknown encoding")
}

func vc02MetaMatches(meta map[string]any, want *vfxTx) string {
	if meta == nil {
		return "meta missing"
	}
	fee, ok := meta["fee"].(float64)
	if !ok || uint64(fee) != want.Fee {
		return fmt.Sprintf("fee %v, want %d", meta["fee"], want.Fee)
	}
	logs, _ := meta["logMessages"].([]any)
	wantLog := fmt.Sprintf("log %d/%d/", want.Slot, want.Pos)
	if len(logs) != 1 || !strings.HasPrefix(fmt.Sprint(logs[0]), wantLog) {
		return fmt.Sprintf("logMessages %v, want prefix %q", logs, wantLog)
	}
	if (meta["err"] != nil) != want.Failed {
		return fmt.Sprintf("err %v, failed=%v (recorded error: %s)", meta["err"], want.Failed, want.ErrName)
	}
	if want.Failed && !strings.Contains(fmt.Sprint(meta["err"]), want.ErrName) {
		return fmt.Sprintf("err %v does not name the recorded error %s", meta["err"], want.ErrName)
	}
	return ""
}

// the position index of a reply: the archived one, or none when the archive has none
func vc02IdxOK(noIdx bool, got *uint64, want int) bool {
	if noIdx {
		return got == nil
	}
	return got != nil && int(*got) == want
}

// vc02Run carries what every part of the run needs.
type vc02Run struct {
	rep   *vh.Report
	cases *vh.CasesFile
	ctx   context.Context
	seed  uint64
	// observe: failures are counted and noted instead of reported (a check that is switched to "observe")
	observe     bool
	observed    int
	observeNote string
}

func (r *vc02Run) fail(sig, detail string, replay interface{}) {
	if r.observe {
		r.observed++
		r.rep.Count("observed (not enforced) " + r.observeNote + ": " + sig)
		if r.observed <= 3 {
			r.rep.Note("observed, not enforced (%s): %s: %.400s", r.observeNote, sig, detail)
		}
		return
	}
	r.rep.Fail(sig, detail, replay)
}

// vc02Opt describes one sweep over the epochs that are loaded in a server.
type vc02Opt struct {
	tag    string                 // distinguishes the cases of this sweep (loaded set, concurrency, phase)
	si     int                    // rotates the encodings and the half of the transactions that the quick tier asks for
	conc   int                    // epoch search concurrency of the server
	loaded interface{}            // replay: what is loaded
	extra  map[string]interface{} // replay: more members (the epoch-set changes made so far, the phase ...)
	allEnc bool                   // every encoding for every block
	allTx  bool                   // every transaction
	noCoq  bool                   // no Coq cases (a repeated sweep over content that already produced its cases)
}

func (o vc02Opt) replay(tr *vfxTruth, more map[string]interface{}) map[string]interface{} {
	m := map[string]interface{}{"epochs_loaded": o.loaded, "concurrency": o.conc, "sweep": o.tag}
	if tr != nil {
		m["spec"] = tr.Spec
	}
	for k, v := range o.extra {
		m[k] = v
	}
	for k, v := range more {
		m[k] = v
	}
	return m
}

var vc02Encodings = []string{"base64", "base58", "base64+zstd", "json"}

// sweep requests every block (getBlock in the chosen encodings, gRPC GetBlock, getBlockTime both ways) and the
// transactions (getTransaction JSON-RPC and gRPC) of the given epochs from the server and compares every reply
// with the generator's truth.
func (r *vc02Run) sweep(multi *MultiEpoch, h func(*fasthttp.RequestCtx), use []*vfxTruth, o vc02Opt) {
	rep, cases, ctx := r.rep, r.cases, r.ctx
	encodings := vc02Encodings
	tag, si := o.tag, o.si
	for _, tr := range use {
		for bi := range tr.Blocks {
			b := &tr.Blocks[bi]
			replay := o.replay(tr, map[string]interface{}{"slot": b.Slot})
			wantHash := ""
			if n := len(b.Entries); n > 0 {
				hb, _ := hex.DecodeString(b.Entries[n-1].Hash)
				wantHash = solana.HashFromBytes(hb).String()
			}
			// expected previous blockhash
			var wantPrev *string
			parentArchived := false
			if (b.Parent != 0 || b.Slot == 1) && b.Parent/vfxEpochLen == tr.Spec.Epoch {
				if pb := tr.blockBySlot(b.Parent); pb != nil {
					parentArchived = true
					if n := len(pb.Entries); n > 0 {
						hb, _ := hex.DecodeString(pb.Entries[n-1].Hash)
						s := solana.HashFromBytes(hb).String()
						wantPrev = &s
					}
				}
			}
			enc := encodings[(bi+si)%len(encodings)]
			if o.allEnc || vh.Thorough() || bi%5 == 0 {
				enc = "" // all encodings
			}
			for _, e := range encodings {
				if enc != "" && e != enc {
					continue
				}
				rep.Case(fmt.Sprintf("%s/getBlock/%s/%d", tag, e, b.Slot), true)
				rep.Count("getBlock:" + e)
				body, _, panicked, pmsg := vfxRPC(h, fmt.Sprintf(`{"jsonrpc":"2.0","id":1,"method":"getBlock","params":[%d,{"encoding":"%s","maxSupportedTransactionVersion":0,"rewards":false}]}`, b.Slot, e))
				if panicked {
					r.fail("handler-panic", pmsg, replay)
					continue
				}
				rr, perr := vfxParseReply(body)
				if perr != nil || rr.Error != nil || len(rr.Result) < 5 {
					r.fail("archived-block-not-served", fmt.Sprintf("%s getBlock(%d,%s): %.300s", tag, b.Slot, e, body), replay)
					continue
				}
				var got vc02Block
				if err := json.Unmarshal(rr.Result, &got); err != nil {
					r.fail("block-reply-unparsable", err.Error(), replay)
					continue
				}
				var diffs []string
				if b.Slot != 0 {
					if got.ParentSlot != b.Parent {
						diffs = append(diffs, fmt.Sprintf("parentSlot %d want %d", got.ParentSlot, b.Parent))
					}
					if b.Blocktime == 0 {
						// a recorded block time of 0 is reported as null (or 0), never as another value
						if got.BlockTime != nil && *got.BlockTime != 0 {
							diffs = append(diffs, fmt.Sprintf("blockTime %d want 0/null", *got.BlockTime))
						}
					} else if got.BlockTime == nil || int64(*got.BlockTime) != b.Blocktime {
						diffs = append(diffs, fmt.Sprintf("blockTime %s want %d", vc02U(got.BlockTime), b.Blocktime))
					}
					if b.HasHeight && (got.BlockHeight == nil || *got.BlockHeight != b.Height) {
						diffs = append(diffs, fmt.Sprintf("blockHeight %s want %d", vc02U(got.BlockHeight), b.Height))
					}
					if (wantPrev == nil) != (got.PreviousBlockhash == nil) || (wantPrev != nil && *wantPrev != *got.PreviousBlockhash) {
						diffs = append(diffs, fmt.Sprintf("previousBlockhash %v want %v", vc02S(got.PreviousBlockhash), vc02S(wantPrev)))
					}
				}
				if got.Blockhash != wantHash {
					diffs = append(diffs, fmt.Sprintf("blockhash %s want %s", got.Blockhash, wantHash))
				}
				byPos := b.sortedTxs()
				if len(got.Transactions) != len(b.Txs) {
					diffs = append(diffs, fmt.Sprintf("%d transactions want %d", len(got.Transactions), len(b.Txs)))
				} else {
					for i := range byPos {
						want := &byPos[i]
						if e != "json" {
							raw, derr := vc02DecodeTx(got.Transactions[i].Transaction, e)
							wantRaw, _ := base64.StdEncoding.DecodeString(want.TxB64)
							if derr != nil || !bytes.Equal(raw, wantRaw) {
								diffs = append(diffs, fmt.Sprintf("transaction #%d payload differs (%v)", i, derr))
							}
						} else {
							var jt struct {
								Signatures []string `json:"signatures"`
							}
							_ = json.Unmarshal(got.Transactions[i].Transaction, &jt)
							if len(jt.Signatures) < 1 || jt.Signatures[0] != want.Sig {
								diffs = append(diffs, fmt.Sprintf("transaction #%d signature %v want %s", i, jt.Signatures, want.Sig))
							}
						}
						if m := vc02MetaMatches(got.Transactions[i].Meta, want); m != "" {
							diffs = append(diffs, fmt.Sprintf("transaction #%d metadata: %s", i, m))
						}
					}
				}
				if len(diffs) > 0 {
					r.fail("block-reply-differs-from-archive", fmt.Sprintf("%s getBlock(%d,%s): %s", tag, b.Slot, e, vc02Join(diffs)), replay)
				}
				// Coq cases (once per block and set): transaction order and previous-blockhash decision
				if e == "base64" && len(got.Transactions) == len(b.Txs) && !o.noCoq {
					ids := map[string]int{}
					for _, tx := range b.Txs {
						ids[tx.TxB64] = 1 + len(ids)
					}
					var entries []string
					k := 0
					for _, en := range b.Entries {
						var txs []string
						for j := 0; j < en.NumTx; j++ {
							txs = append(txs, fmt.Sprintf("(%d%%nat, %d%%N)", b.Txs[k].Pos, ids[b.Txs[k].TxB64]))
							k++
						}
						entries = append(entries, vh.CoqList(txs))
					}
					var obs []string
					okAll := true
					for i := range got.Transactions {
						raw, _ := vc02DecodeTx(got.Transactions[i].Transaction, e)
						id, ok := ids[base64.StdEncoding.EncodeToString(raw)]
						if !ok {
							okAll = false
							break
						}
						// position is not exposed by JSON-RPC; the model's position of that payload is used
						pos := -1
						for _, tx := range b.Txs {
							if ids[tx.TxB64] == id {
								pos = tx.Pos
							}
						}
						obs = append(obs, fmt.Sprintf("(%d%%nat, %d%%N)", pos, id))
					}
					if okAll {
						cases.Add(fmt.Sprintf("CBlockTxs %s %s", vh.CoqList(entries), vh.CoqList(obs)))
					}
					if b.Slot != 0 {
						cases.Add(fmt.Sprintf("CPrev %d%%N %d%%N %d%%N %s %s", b.Slot, b.Parent, tr.Spec.Epoch, vh.CoqBool(parentArchived), vh.CoqBool(got.PreviousBlockhash != nil)))
					}
				}
			}
			// ---- gRPC GetBlock
			rep.Case(fmt.Sprintf("%s/grpcGetBlock/%d", tag, b.Slot), true)
			gb, gerr := multi.GetBlock(ctx, &old_faithful_grpc.BlockRequest{Slot: b.Slot})
			if gerr != nil {
				r.fail("archived-block-not-served:grpc", fmt.Sprintf("%s slot %d: %v", tag, b.Slot, gerr), replay)
			} else {
				var diffs []string
				if gb.Slot != b.Slot {
					diffs = append(diffs, fmt.Sprintf("slot %d", gb.Slot))
				}
				if b.Slot != 0 && (gb.ParentSlot != b.Parent || gb.BlockTime != b.Blocktime) {
					diffs = append(diffs, fmt.Sprintf("parent %d time %d", gb.ParentSlot, gb.BlockTime))
				}
				if solana.HashFromBytes(gb.Blockhash).String() != wantHash {
					diffs = append(diffs, "blockhash")
				}
				if b.Slot != 0 && ((wantPrev == nil) != (len(gb.PreviousBlockhash) == 0) || (wantPrev != nil && solana.HashFromBytes(gb.PreviousBlockhash).String() != *wantPrev)) {
					diffs = append(diffs, "previous blockhash")
				}
				if len(gb.Transactions) != len(b.Txs) {
					diffs = append(diffs, fmt.Sprintf("%d transactions want %d", len(gb.Transactions), len(b.Txs)))
				} else {
					byPos := b.sortedTxs()
					for i := range byPos {
						wantRaw, _ := base64.StdEncoding.DecodeString(byPos[i].TxB64)
						wantMeta, _ := base64.StdEncoding.DecodeString(byPos[i].MetaB64)
						g := gb.Transactions[i]
						if !bytes.Equal(g.Transaction, wantRaw) || !bytes.Equal(g.Meta, wantMeta) || !vc02IdxOK(tr.Spec.NoTxIndex, g.Index, byPos[i].Pos) {
							diffs = append(diffs, fmt.Sprintf("transaction #%d (bytes/meta/index)", i))
						}
					}
				}
				if len(diffs) > 0 {
					r.fail("block-reply-differs-from-archive:grpc", fmt.Sprintf("%s slot %d: %s", tag, b.Slot, vc02Join(diffs)), replay)
				}
			}
			// ---- getBlockTime
			body, _, panicked, pmsg := vfxRPC(h, fmt.Sprintf(`{"jsonrpc":"2.0","id":1,"method":"getBlockTime","params":[%d]}`, b.Slot))
			if panicked {
				r.fail("handler-panic", pmsg, replay)
			} else if rr, err := vfxParseReply(body); err != nil || rr.Error != nil || (strings.TrimSpace(string(rr.Result)) != fmt.Sprint(b.Blocktime) && !(b.Blocktime == 0 && strings.TrimSpace(string(rr.Result)) == "null")) {
				if b.Slot != 0 {
					r.fail("blocktime-differs-from-archive", fmt.Sprintf("%s getBlockTime(%d): %.200s want %d", tag, b.Slot, body, b.Blocktime), replay)
				}
			}
			if gt, err := multi.GetBlockTime(ctx, &old_faithful_grpc.BlockTimeRequest{Slot: b.Slot}); b.Slot != 0 && (err != nil || gt.BlockTime != b.Blocktime) {
				r.fail("blocktime-differs-from-archive:grpc", fmt.Sprintf("%s slot %d: %v %v", tag, b.Slot, gt, err), replay)
			}
			// ---- transactions
			for ti := range b.Txs {
				if !o.allTx && !vh.Thorough() && (ti+bi+si)%2 == 1 {
					continue
				}
				r.getTx(multi, h, tr, b, bi, ti, o, replay)
			}
		}
	}
}

// getTx requests one archived transaction through JSON-RPC (one byte encoding) and gRPC and compares the replies.
func (r *vc02Run) getTx(multi *MultiEpoch, h func(*fasthttp.RequestCtx), tr *vfxTruth, b *vfxBlock, bi, ti int, o vc02Opt, replay map[string]interface{}) {
	rep, ctx, tag := r.rep, r.ctx, o.tag
	want := &b.Txs[ti]
	e := vc02Encodings[(ti+bi)%3] // byte encodings
	rep.Case(fmt.Sprintf("%s/getTransaction/%s/%s", tag, e, want.Sig), true)
	rep.Count("getTransaction:" + e)
	if want.Frames > 1 || want.MetaFr > 1 {
		rep.Count("getTransaction:multi-frame")
	}
	wantRaw, _ := base64.StdEncoding.DecodeString(want.TxB64)
	body, _, panicked, pmsg := vfxRPC(h, fmt.Sprintf(`{"jsonrpc":"2.0","id":1,"method":"getTransaction","params":["%s",{"encoding":"%s","maxSupportedTransactionVersion":0}]}`, want.Sig, e))
	if panicked {
		r.fail("handler-panic", pmsg, replay)
		return
	}
	rr, perr := vfxParseReply(body)
	if perr != nil || rr.Error != nil || len(rr.Result) < 5 {
		r.fail("archived-transaction-not-served", fmt.Sprintf("%s getTransaction(%s): %.300s", tag, want.Sig, body), replay)
		return
	}
	var got vc02Tx
	_ = json.Unmarshal(rr.Result, &got)
	var diffs []string
	raw, derr := vc02DecodeTx(got.Transaction, e)
	if derr != nil || !bytes.Equal(raw, wantRaw) {
		diffs = append(diffs, "payload differs")
	}
	if got.Slot == nil || *got.Slot != want.Slot {
		diffs = append(diffs, fmt.Sprintf("slot %s want %d", vc02U(got.Slot), want.Slot))
	}
	if got.BlockTime == nil || *got.BlockTime != b.Blocktime {
		bt := "<nil>"
		if got.BlockTime != nil {
			bt = fmt.Sprint(*got.BlockTime)
		}
		diffs = append(diffs, fmt.Sprintf("blockTime %s want %d", bt, b.Blocktime))
	}
	if m := vc02MetaMatches(got.Meta, want); m != "" {
		diffs = append(diffs, "metadata: "+m)
	}
	if len(diffs) > 0 {
		r.fail("transaction-reply-differs-from-archive", fmt.Sprintf("%s getTransaction(%s,%s): %s", tag, want.Sig, e, vc02Join(diffs)), replay)
	}
	sig := solana.MustSignatureFromBase58(want.Sig)
	gtx, gerr := multi.GetTransaction(ctx, &old_faithful_grpc.TransactionRequest{Signature: sig[:]})
	wantMeta, _ := base64.StdEncoding.DecodeString(want.MetaB64)
	if gerr != nil || gtx.Transaction == nil {
		r.fail("archived-transaction-not-served:grpc", fmt.Sprintf("%s %s: %v", tag, want.Sig, gerr), replay)
	} else if !bytes.Equal(gtx.Transaction.Transaction, wantRaw) || !bytes.Equal(gtx.Transaction.Meta, wantMeta) || gtx.Slot != want.Slot || gtx.BlockTime != b.Blocktime || !vc02IdxOK(tr.Spec.NoTxIndex, gtx.Index, want.Pos) {
		r.fail("transaction-reply-differs-from-archive:grpc", fmt.Sprintf("%s %s: slot %d time %d index %v", tag, want.Sig, gtx.Slot, gtx.BlockTime, gtx.Index), replay)
	}
}

// absent: signatures that no loaded epoch archives are answered not-found (never an internal error, never a
// transaction), whatever the number of loaded epochs and the search concurrency (all-not-found -> not found, C18 mapping).
// kind names the sort of signature in the case key and the counters ("absent": random; "gone": archived by an
// epoch that was loaded earlier and has been removed or replaced since).
func (r *vc02Run) absent(multi *MultiEpoch, h func(*fasthttp.RequestCtx), o vc02Opt, kind string, sigs []solana.Signature) {
	rep, ctx, tag := r.rep, r.ctx, o.tag
	for k, sig := range sigs {
		rp := o.replay(nil, map[string]interface{}{"sig": sig.String(), "signature_kind": kind})
		rep.Case(fmt.Sprintf("%s/getTransaction/%s/%d", tag, kind, k), true)
		rep.Count("getTransaction:" + kind)
		body, _, panicked, pmsg := vfxRPC(h, fmt.Sprintf(`{"jsonrpc":"2.0","id":1,"method":"getTransaction","params":["%s",{"encoding":"base64"}]}`, sig))
		if panicked {
			r.fail("handler-panic", pmsg, rp)
			continue
		}
		rr, perr := vfxParseReply(body)
		switch {
		case perr != nil:
			r.fail("unarchived-signature-bad-reply", body, rp)
		case rr.Error != nil && rr.Error.Code == -32603:
			r.fail("unarchived-signature-internal-error", fmt.Sprintf("%s getTransaction(%s): %.200s (all epochs answered not-found: the reply must be not-found)", tag, sig, body), rp)
		case rr.Error == nil && len(rr.Result) > 4:
			r.fail("unarchived-signature-answered", fmt.Sprintf("%s getTransaction(%s) [%s]: %.300s", tag, sig, kind, body), rp)
		}
		if gtx, gerr := multi.GetTransaction(ctx, &old_faithful_grpc.TransactionRequest{Signature: sig[:]}); gerr == nil && gtx != nil && gtx.Transaction != nil {
			r.fail("unarchived-signature-answered:grpc", fmt.Sprintf("%s %s [%s]", tag, sig, kind), rp)
		} else if gerr != nil && status.Code(gerr) != codes.NotFound {
			r.fail("unarchived-signature-internal-error:grpc", fmt.Sprintf("%s %s [%s]: %v", tag, sig, kind, gerr), rp)
		}
	}
}

func TestVerif_C02(t *testing.T) {
	rep := vh.NewReport("C02", "rpc",
		"every archived block / transaction of the generated epochs x {JSON-RPC base58, base64, base64+zstd, json; gRPC} x epoch sets {one, two, all incl. epoch 0 with genesis} x search concurrency {1, NumCPU}; one epoch with a block that lies further from its parent than the handlers' read-ahead reaches (cold and warm cache); servers whose epoch set changes while they run (epochs replaced by a grown / shrunk build, removed, added again): after every change the answers for ALL loaded epochs are those of the current set; a case = one request compared field by field with the generator's truth; distinct by (epoch set / phase, api, encoding, key)")
	cases := vh.NewCases("cases_c02", []string{"YF.C02_Rpc"}, "case", "check")
	seed := vh.Seed()
	run := &vc02Run{rep: rep, cases: cases, ctx: context.Background(), seed: seed}
	e0 := vfxDefaultSpec("c02e0", 0, seed)
	e0.NumSlots, e0.SkipPercent = 14, 20
	e1 := vfxDefaultSpec("c02e1", 1, seed+1)
	e1.NumSlots, e1.FrameSize, e1.FanOut, e1.MaxTx, e1.ZeroTimes = 16, 70, 2, 4, true
	e1.EdgeTimes, e1.ShortSigs = true, true
	e2 := vfxDefaultSpec("c02e2", 2, seed+2)
	e2.NumSlots, e2.FrameSize, e2.FanOut, e2.BigObjects, e2.MaxEntries, e2.MultiSig, e2.Boundary = 14, 90, 5, true, 4, true, true
	e2.ShuffleNext = true
	// transactions without the optional position index (archives written before the field existed); blocks with
	// more than 12 transactions, so that an unstable sort on the absent positions would show
	eN := vfxDefaultSpec("c02noidx", 5, seed+4)
	eN.NumSlots, eN.MaxEntries, eN.MaxTx, eN.NoTxIndex, eN.SkipPercent = 10, 5, 6, true, 10
	specs := []vfxSpec{e0, e1, e2, eN}
	if vh.Thorough() {
		e3 := vfxDefaultSpec("c02e3", 700, seed+3)
		e3.NumSlots, e3.FrameSize, e3.FanOut, e3.MaxTx, e3.BigObjects = 60, 70, 10, 6, true
		specs = append(specs, e3)
		for i := range specs {
			specs[i].NumSlots *= 3
		}
	}
	nCore := len(specs)
	// ---- additional epochs (they must not stop the run when they cannot be built or loaded on a changed tree)
	// (a) epoch 1 built again after it has grown: a strict extension of e1 (same objects, more blocks)
	e1x := specs[1]
	e1x.Name, e1x.Dir, e1x.ExtraSlots = "c02e1x", vfxDefaultSpec("c02e1x", 1, 0).Dir, 3
	iE1x := len(specs)
	specs = append(specs, e1x)
	// (b) epoch 2 built from other content (other blocks at the same slots)
	e2v := specs[2]
	e2v.Name, e2v.Dir, e2v.Variant = "c02e2v", vfxDefaultSpec("c02e2v", 2, 0).Dir, 1
	iE2v := len(specs)
	specs = append(specs, e2v)
	// (c) an epoch with a block whose objects take more of the CAR file than the getBlock read-ahead covers
	capBytes, capWhere := vc02ReadAheadCap()
	rep.Flag("read_ahead_cap", map[string]interface{}{"bytes": capBytes, "found": capWhere})
	const maxAffordable = 48 << 20
	iBig, iBig0 := -1, -1
	if capBytes <= maxAffordable {
		big := vfxDefaultSpec("c02big", 3, seed+5)
		big.NumSlots, big.SkipPercent, big.FrameSize, big.FanOut = 5, 0, 256<<10, 4
		big.HugeSpan, big.HugeMask = capBytes+capBytes/8+4096, 1<<2 // the third block: its parent is a block of the same epoch
		iBig = len(specs)
		specs = append(specs, big)
		if vh.Thorough() {
			// the FIRST block of the epoch: its parent belongs to the previous epoch, the read-ahead starts after the CAR header
			big0 := vfxDefaultSpec("c02big0", 4, seed+6)
			big0.NumSlots, big0.SkipPercent, big0.FrameSize, big0.FanOut = 4, 0, 0, 4
			big0.HugeSpan, big0.HugeMask = capBytes+capBytes/8+4096, 1<<0
			iBig0 = len(specs)
			specs = append(specs, big0)
		}
	} else {
		rep.Note("the read-ahead of getBlock is capped at %d bytes: an epoch with a block beyond that is not affordable here and was not generated", capBytes)
	}
	truths, err := vfxBuild(specs)
	for i := 0; i < nCore; i++ {
		if i >= len(truths) || truths[i] == nil {
			t.Fatalf("setup failed: %v", err)
		}
		if truths[i].BuildErr != "" {
			t.Fatalf("setup failed: fixture %s: %s", truths[i].Spec.Name, truths[i].BuildErr)
		}
	}
	usable := func(i int) bool {
		if i < 0 || i >= len(truths) {
			return false
		}
		if truths[i] == nil {
			rep.Note("additional epoch %s could not be built on this tree (%.300v): the cases that need it are skipped", specs[i].Name, err)
			return false
		}
		if truths[i].BuildErr != "" {
			rep.Note("additional epoch %s could not be built on this tree (%.300s): the cases that need it are skipped", specs[i].Name, truths[i].BuildErr)
			return false
		}
		return true
	}
	sets := [][]int{{1}, {1, 2}, {0, 1, 2}, {3}, {3, 1}}
	if vh.Thorough() {
		sets = append(sets, []int{0}, []int{2}, []int{0, 2}, []int{0, 1, 2, 4}, []int{4, 1})
	}
	concs := []int{1, runtime.NumCPU()}
	for si, set := range sets {
		conc := concs[si%len(concs)]
		var use []*vfxTruth
		for _, i := range set {
			use = append(use, truths[i])
		}
		multi, eps, err := vfxMulti(use, conc)
		if err != nil {
			t.Fatalf("setup failed: %v", err)
		}
		h := newMultiEpochHandler(multi, nil)
		tag := fmt.Sprintf("set=%v conc=%d", set, conc)
		o := vc02Opt{tag: tag, si: si, conc: conc, loaded: set}
		run.sweep(multi, h, use, o)
		// ---- unarchived signatures
		run.absent(multi, h, o, "absent", vc02RandomSigs(seed+uint64(si)*7+3, 6))
		if len(rep.Samples) < 3 {
			tr := use[0]
			if len(tr.Blocks) > 2 {
				rep.Sample(map[string]interface{}{"epochs_loaded": set, "concurrency": conc, "example_block": map[string]interface{}{"slot": tr.Blocks[2].Slot, "entries": len(tr.Blocks[2].Entries), "txs": len(tr.Blocks[2].Txs)}})
			}
		}
		for _, e := range eps {
			e.Close()
		}
	}

	// ---- a block beyond the reach of the read-ahead
	for k, ib := range []int{iBig, iBig0} {
		if ib < 0 || !usable(ib) {
			continue
		}
		t0 := time.Now()
		run.bigEpoch(truths[ib], truths[1], capBytes, concs[k%len(concs)], len(sets)+k)
		rep.Flag(fmt.Sprintf("seconds_%s", truths[ib].Spec.Name), map[string]interface{}{"build": float64(truths[ib].BuildMs) / 1000, "requests": time.Since(t0).Seconds()})
	}

	// ---- servers whose epoch set changes while they run
	if usable(iE1x) {
		seqs := 1
		if vh.Thorough() {
			seqs = 2
		}
		for q := 0; q < seqs; q++ {
			run.changingSet(q, concs[(q+1)%len(concs)], truths[1], truths[iE1x], truths[2], truths[3])
		}
	}
	if usable(iE2v) {
		run.replacedByOtherContent(concs[1], truths[1], truths[2], truths[iE2v])
	}

	if err := cases.Write(); err != nil {
		t.Fatal(err)
	}
	rep.CasesWritten(cases)
	if err := rep.Write(); err != nil {
		t.Fatal(err)
	}
}

func vc02S(p *string) string {
	if p == nil {
		return "<nil>"
	}
	return *p
}

func vc02U(p *uint64) string {
	if p == nil {
		return "<nil>"
	}
	return fmt.Sprint(*p)
}

func vc02Join(d []string) string { return strings.Join(d, "; ") }

func vc02RandomSigs(seed uint64, n int) []solana.Signature {
	rng := vh.NewRng(seed)
	out := make([]solana.Signature, n)
	for k := range out {
		copy(out[k][:], rng.Bytes(64))
	}
	return out
}

// ---------------------------------------------------------------- the read-ahead of getBlock

// vc02ReadAheadCap reads from the source of the package under test (the test runs in its directory) how many
// bytes of the CAR file the getBlock handlers read ahead at most: the largest value assigned to a variable or
// constant whose name speaks of a prefetch / read-ahead size limit. Falls back to 10 MiB (the value of the pinned
// tree) when nothing of the kind is found; the second result says where the value comes from.
func vc02ReadAheadCap() (uint64, string) {
	const fallback = 10 << 20
	name := regexp.MustCompile(`(?i)^(max)?(prefetch|readahead|read_ahead)\w*(size|bytes|len|length|cap|limit)$|^max\w*(prefetch|readahead)\w*$`)
	files, _ := filepath.Glob("*.go")
	var best uint64
	where := ""
	for _, f := range files {
		if strings.HasSuffix(f, "_test.go") {
			continue
		}
		fset := token.NewFileSet()
		af, err := parser.ParseFile(fset, f, nil, 0)
		if err != nil {
			continue
		}
		env := map[string]uint64{}
		var eval func(e ast.Expr) (uint64, bool)
		eval = func(e ast.Expr) (uint64, bool) {
			switch x := e.(type) {
			case *ast.BasicLit:
				if x.Kind != token.INT {
					return 0, false
				}
				v, err := strconv.ParseUint(strings.ReplaceAll(x.Value, "_", ""), 0, 64)
				return v, err == nil
			case *ast.ParenExpr:
				return eval(x.X)
			case *ast.Ident:
				v, ok := env[x.Name]
				return v, ok
			case *ast.CallExpr: // a conversion such as uint64(1024 * 1024)
				if id, ok := x.Fun.(*ast.Ident); ok && len(x.Args) == 1 && (strings.HasPrefix(id.Name, "uint") || strings.HasPrefix(id.Name, "int")) {
					return eval(x.Args[0])
				}
				return 0, false
			case *ast.BinaryExpr:
				a, ok1 := eval(x.X)
				b, ok2 := eval(x.Y)
				if !ok1 || !ok2 {
					return 0, false
				}
				switch x.Op {
				case token.MUL:
					return a * b, true
				case token.ADD:
					return a + b, true
				case token.SUB:
					return a - b, true
				case token.SHL:
					return a << b, true
				case token.QUO:
					if b != 0 {
						return a / b, true
					}
				}
			}
			return 0, false
		}
		note := func(id *ast.Ident, rhs ast.Expr) {
			v, ok := eval(rhs)
			if !ok {
				return
			}
			env[id.Name] = v
			if name.MatchString(id.Name) && v > best {
				best, where = v, fmt.Sprintf("%s: %s", fset.Position(id.Pos()), id.Name)
			}
		}
		ast.Inspect(af, func(n ast.Node) bool { // source order: a definition is seen before its uses
			switch x := n.(type) {
			case *ast.AssignStmt:
				if len(x.Lhs) == len(x.Rhs) {
					for i := range x.Lhs {
						if id, ok := x.Lhs[i].(*ast.Ident); ok {
							note(id, x.Rhs[i])
						}
					}
				}
			case *ast.ValueSpec:
				if len(x.Names) == len(x.Values) {
					for i := range x.Names {
						note(x.Names[i], x.Values[i])
					}
				}
			}
			return true
		})
	}
	if best == 0 {
		return fallback, "not found in the source: the value of the pinned tree (10 MiB) is assumed"
	}
	return best, where
}

// bigEpoch: an epoch one of whose blocks lies further from its parent block than the read-ahead of getBlock
// reaches is loaded together with another epoch into a fresh server (cold cache). Every transaction is requested
// first (before any getBlock has read ahead), then every block and transaction (the first getBlock of a slot
// reads ahead), then everything again with whatever the first round left in the cache.
func (r *vc02Run) bigEpoch(big, other *vfxTruth, capBytes uint64, conc, si int) {
	rep := r.rep
	var maxSpan uint64
	beyond := 0
	for bi := range big.Blocks {
		span, ok := big.vfxBlockSpan(&big.Blocks[bi])
		if ok && span > maxSpan {
			maxSpan = span
		}
		if ok && span > capBytes {
			beyond++
			rep.Count("blocks that lie further from their parent than the read-ahead reaches")
		}
	}
	var carBytes int64
	if st, err := os.Stat(big.CarPath); err == nil {
		carBytes = st.Size()
	}
	rep.Flag("epoch_"+big.Spec.Name, map[string]interface{}{"car_bytes": carBytes, "largest_block_span": maxSpan, "read_ahead_cap": capBytes, "blocks_beyond_cap": beyond})
	if beyond == 0 {
		rep.Note("epoch %s: no block lies more than %d bytes after its parent (largest span %d): the read-ahead limit is not exercised", big.Spec.Name, capBytes, maxSpan)
	}
	use := []*vfxTruth{big, other}
	multi, eps, err := vfxMulti(use, conc)
	if err != nil {
		rep.Note("epoch %s cannot be loaded on this tree (%.300v): its cases are skipped", big.Spec.Name, err)
		return
	}
	defer func() {
		for _, e := range eps {
			e.Close()
		}
	}()
	h := newMultiEpochHandler(multi, nil)
	loaded := []string{big.Spec.Name, other.Spec.Name}
	o := vc02Opt{si: si, conc: conc, loaded: loaded, allEnc: true, allTx: true}
	phase := func(p string) {
		o.tag = fmt.Sprintf("set=%v conc=%d phase=%s", loaded, conc, p)
		o.extra = map[string]interface{}{"phase": p, "phases": "cold-transactions, cold-blocks, warm (one server, in this order)"}
	}
	phase("cold-transactions")
	for bi := range big.Blocks {
		b := &big.Blocks[bi]
		for ti := range b.Txs {
			r.getTx(multi, h, big, b, bi, ti, o, o.replay(big, map[string]interface{}{"slot": b.Slot}))
		}
	}
	phase("cold-blocks")
	r.sweep(multi, h, use, o)
	phase("warm")
	o.noCoq = true
	r.sweep(multi, h, use, o)
}

// ---------------------------------------------------------------- epoch sets that change while the server runs

// vc02Server is a server whose set of loaded epochs is changed through the entry points of MultiEpoch; cur is
// what a server freshly started with the current set would have loaded.
type vc02Server struct {
	multi *MultiEpoch
	h     func(*fasthttp.RequestCtx)
	cache *hugecache.Cache
	cur   map[uint64]*vfxTruth
	live  map[uint64]*Epoch
	past  []*vfxTruth // every build that has been loaded at some time
	steps []string
}

type vc02Change struct {
	op string // AddEpoch | ReplaceOrAddEpoch | ReplaceEpoch | RemoveEpoch | RemoveEpochByConfigFilepath
	tr *vfxTruth
}

func (c vc02Change) String() string {
	return fmt.Sprintf("%s(%d: %s)", c.op, c.tr.Spec.Epoch, c.tr.Spec.Name)
}

// apply makes one change; "" when it was made, otherwise why it could not be made (the sequence ends there).
func (s *vc02Server) apply(c vc02Change) (why string) {
	defer func() {
		if x := recover(); x != nil {
			why = fmt.Sprintf("%s panicked: %v", c, x)
		}
	}()
	ep := c.tr.Spec.Epoch
	switch c.op {
	case "AddEpoch", "ReplaceOrAddEpoch", "ReplaceEpoch":
		ne, err := vfxLoad(c.tr, s.cache) // the one cache of the server, as in cmd-rpc.go
		if err != nil {
			return fmt.Sprintf("%s: the epoch does not load: %v", c, err)
		}
		switch c.op {
		case "AddEpoch":
			err = s.multi.AddEpoch(ep, ne)
		case "ReplaceOrAddEpoch":
			err = s.multi.ReplaceOrAddEpoch(ep, ne) // closes the epoch it replaces
		case "ReplaceEpoch":
			err = s.multi.ReplaceEpoch(ep, ne)
			if old := s.live[ep]; err == nil && old != nil {
				old.Close() // ReplaceEpoch leaves the replaced epoch to its caller
			}
		}
		if err != nil {
			ne.Close()
			return fmt.Sprintf("%s: %v", c, err)
		}
		s.cur[ep], s.live[ep] = c.tr, ne
		s.past = append(s.past, c.tr)
	case "RemoveEpoch":
		if err := s.multi.RemoveEpoch(ep); err != nil {
			return fmt.Sprintf("%s: %v", c, err)
		}
		if old := s.live[ep]; old != nil {
			old.Close() // RemoveEpoch leaves the removed epoch to its caller
		}
		delete(s.cur, ep)
		delete(s.live, ep)
	case "RemoveEpochByConfigFilepath":
		if _, err := s.multi.RemoveEpochByConfigFilepath(c.tr.ConfigYml); err != nil {
			return fmt.Sprintf("%s: %v", c, err)
		}
		delete(s.cur, ep)
		delete(s.live, ep)
	default:
		return "unknown change " + c.op
	}
	s.steps = append(s.steps, c.String())
	return ""
}

func (s *vc02Server) loaded() (use []*vfxTruth, names []string) {
	var eps []uint64
	for e := range s.cur {
		eps = append(eps, e)
	}
	sort.Slice(eps, func(i, j int) bool { return eps[i] < eps[j] })
	for _, e := range eps {
		use = append(use, s.cur[e])
		names = append(names, fmt.Sprintf("%d:%s", e, s.cur[e].Spec.Name))
	}
	return
}

// gone: signatures archived by a build that was loaded earlier and by no build that is loaded now.
func (s *vc02Server) gone(limitPerBuild int) []solana.Signature {
	have := map[string]bool{}
	for _, tr := range s.cur {
		for bi := range tr.Blocks {
			for _, tx := range tr.Blocks[bi].Txs {
				have[tx.Sig] = true
			}
		}
	}
	seen := map[string]bool{}
	var out []solana.Signature
	for _, tr := range s.past {
		var cand []string
		for bi := range tr.Blocks {
			for _, tx := range tr.Blocks[bi].Txs {
				if !have[tx.Sig] && !seen[tx.Sig] {
					seen[tx.Sig] = true
					cand = append(cand, tx.Sig)
				}
			}
		}
		step := 1
		if limitPerBuild > 0 && len(cand) > limitPerBuild {
			step = (len(cand) + limitPerBuild - 1) / limitPerBuild
		}
		for i := 0; i < len(cand); i += step {
			out = append(out, solana.MustSignatureFromBase58(cand[i]))
		}
	}
	return out
}

func (s *vc02Server) close() {
	for _, e := range s.live {
		e.Close()
	}
}

// check: the answers for ALL loaded epochs are those of the current set; what only earlier builds had is not found.
func (r *vc02Run) check(s *vc02Server, name string, conc, si int, noCoq bool) {
	use, names := s.loaded()
	stepName := "start"
	if n := len(s.steps); n > 0 {
		stepName = s.steps[n-1]
	}
	o := vc02Opt{
		tag: fmt.Sprintf("%s conc=%d step=%d %s loaded=%v", name, conc, len(s.steps), stepName, names),
		si:  si + len(s.steps), conc: conc, loaded: names, noCoq: noCoq,
		extra: map[string]interface{}{"epoch_set_changes": append([]string(nil), s.steps...),
			"how": "one server (one shared cache); the changes are made in this order through MultiEpoch, each followed by a sweep over all loaded epochs"},
	}
	r.rep.Count("sweeps after an epoch-set change: " + strings.SplitN(stepName, "(", 2)[0])
	r.sweep(s.multi, s.h, use, o)
	r.absent(s.multi, s.h, o, "absent", vc02RandomSigs(r.seed+uint64(si)*31+uint64(len(s.steps)), 3))
	limit := 12
	if vh.Thorough() {
		limit = 0
	}
	r.absent(s.multi, s.h, o, "gone", s.gone(limit))
}

func (r *vc02Run) newServer(conc int, start []*vfxTruth) (*vc02Server, error) {
	multi, eps, cache, err := vfxMultiCache(start, conc)
	if err != nil {
		return nil, err
	}
	s := &vc02Server{multi: multi, h: newMultiEpochHandler(multi, nil), cache: cache, cur: map[uint64]*vfxTruth{}, live: map[uint64]*Epoch{}}
	for i, tr := range start {
		s.cur[tr.Spec.Epoch], s.live[tr.Spec.Epoch] = tr, eps[i]
		s.past = append(s.past, tr)
	}
	return s, nil
}

// changingSet: a server is started with some epochs; then epochs are replaced (by a build of the same epoch that
// has grown, and back by the shorter one), removed, added again and added under a new number, through every entry
// point MultiEpoch has for it. After every change every block and transaction of every loaded epoch is requested
// and compared with the truth of the CURRENT builds, and the signatures that only earlier builds had must be
// answered not-found: the answers must not depend on what was loaded before.
func (r *vc02Run) changingSet(q, conc int, e1, e1x, e2, eN *vfxTruth) {
	name := fmt.Sprintf("changing-set#%d", q)
	var start []*vfxTruth
	var changes []vc02Change
	if q%2 == 0 {
		start = []*vfxTruth{e1, e2}
		changes = []vc02Change{
			{"ReplaceOrAddEpoch", e1x}, // epoch 1 has grown and was built again
			{"ReplaceEpoch", e1},       // ... and back to the shorter build
			{"RemoveEpoch", e2},
			{"AddEpoch", e2},
			{"ReplaceOrAddEpoch", eN}, // a new number
			{"RemoveEpochByConfigFilepath", e1},
			{"ReplaceOrAddEpoch", e1x},
		}
	} else {
		start = []*vfxTruth{e1x, e2, eN}
		changes = []vc02Change{
			{"ReplaceOrAddEpoch", e1},
			{"RemoveEpochByConfigFilepath", eN},
			{"ReplaceEpoch", e1x},
			{"RemoveEpoch", e1x},
			{"AddEpoch", eN},
			{"AddEpoch", e1},
			{"ReplaceOrAddEpoch", e2},
		}
	}
	s, err := r.newServer(conc, start)
	if err != nil {
		r.rep.Note("%s: the server cannot be started on this tree (%.300v): skipped", name, err)
		return
	}
	defer s.close()
	r.check(s, name, conc, 100+10*q, false)
	for i, c := range changes {
		if why := s.apply(c); why != "" {
			r.rep.Note("%s: %.400s - the rest of the sequence is skipped", name, why)
			return
		}
		r.check(s, name, conc, 100+10*q, i > 0)
	}
}

// replacedByOtherContent: an epoch is replaced by a build of the same epoch number with OTHER blocks at the same
// slots. The property asks for the answers of the build that is loaded; VERIF_C02_OTHER_CONTENT = enforce reports
// differences as failures, observe (the default) records them as notes and counters, off skips the scenario.
func (r *vc02Run) replacedByOtherContent(conc int, e1, e2, e2v *vfxTruth) {
	mode := os.Getenv("VERIF_C02_OTHER_CONTENT")
	if mode == "" {
		mode = "observe"
	}
	if mode == "off" {
		return
	}
	name := "other-content"
	s, err := r.newServer(conc, []*vfxTruth{e1, e2})
	if err != nil {
		r.rep.Note("%s: the server cannot be started on this tree (%.300v): skipped", name, err)
		return
	}
	defer s.close()
	r.check(s, name, conc, 200, true)
	if why := s.apply(vc02Change{"ReplaceOrAddEpoch", e2v}); why != "" {
		r.rep.Note("%s: %.400s - skipped", name, why)
		return
	}
	r.observe, r.observed, r.observeNote = mode != "enforce", 0, "epoch replaced by a build with other blocks at the same slots"
	r.check(s, name, conc, 200, true)
	r.rep.Flag("replaced_by_other_content", map[string]interface{}{"mode": mode, "differences_observed": r.observed})
	r.observe = false
}
