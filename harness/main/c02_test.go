package main

// Verification harness for C02 (uses fixture_test.go): every archived block and transaction of the
// generated epochs is requested through the JSON-RPC handler (base58 / base64 / base64+zstd / json) and
// through the gRPC methods, with different sets of epochs loaded and different epoch-search concurrency,
// and compared with the generator's ground truth; the transaction order of every block reply and the
// previous-blockhash decision are written as Coq cases for the assembly model (YF.C02_Rpc).

import (
	"bytes"
	"context"
	"encoding/base64"
	"encoding/hex"
	"encoding/json"
	"fmt"
	"runtime"
	"strings"
	"testing"

	"github.com/gagliardetto/solana-go"
	"github.com/klauspost/compress/zstd"
	"github.com/mr-tron/base58"
	old_faithful_grpc "github.com/rpcpool/yellowstone-faithful/old-faithful-proto/old-faithful-grpc"
	"github.com/rpcpool/yellowstone-faithful/zzverif/vh"
	"google.golang.org/grpc/codes"
	"google.golang.org/grpc/status"
)

type vc02Tx struct {
	Transaction json.RawMessage `json:"transaction"`
	Meta        map[string]any  `json:"meta"`
	Version     any             `json:"version"`
	Slot        *uint64         `json:"slot"`
	BlockTime   *int64          `json:"blockTime"`
}
type vc02Block struct {
	BlockHeight       *uint64  `json:"blockHeight"`
	BlockTime         *uint64  `json:"blockTime"`
	Blockhash         string   `json:"blockhash"`
	ParentSlot        uint64   `json:"parentSlot"`
	PreviousBlockhash *string  `json:"previousBlockhash"`
	Transactions      []vc02Tx `json:"transactions"`
}

// vc02DecodeTx turns the "transaction" member of a reply into raw transaction bytes (nil for json encoding).
func vc02DecodeTx(raw json.RawMessage, enc string) ([]byte, error) {
	if enc == "json" {
		return nil, nil
	}
	var arr []string
	if err := json.Unmarshal(raw, &arr); err != nil || len(arr) != 2 {
		return nil, fmt.Errorf("transaction member is not [data, encoding]: %.80s", string(raw))
	}
	switch enc {
	case "base58":
		return base58.Decode(arr[0])
	case "base64":
		return base64.StdEncoding.DecodeString(arr[0])
	case "base64+zstd":
		z, err := base64.StdEncoding.DecodeString(arr[0])
		if err != nil {
			return nil, err
		}
		dec, err := zstd.NewReader(nil)
		if err != nil {
			return nil, err
		}
		defer dec.Close()
		return dec.DecodeAll(z, nil)
	}
	return nil, fmt.Errorf("unknown encoding")
}

func vc02MetaMatches(meta map[string]any, want *vfxTx) string {
	if meta == nil {
		return "meta missing"
	}
	fee, ok := meta["fee"].(float64)
	if !ok || uint64(fee) != want.Fee {
		return fmt.Sprintf("fee %v, want %d", meta["fee"], want.Fee)
	}
	logs, _ := meta["logMessages"].([]any)
	wantLog := fmt.Sprintf("log %d/%d/", want.Slot, want.Pos)
	if len(logs) != 1 || !strings.HasPrefix(fmt.Sprint(logs[0]), wantLog) {
		return fmt.Sprintf("logMessages %v, want prefix %q", logs, wantLog)
	}
	if (meta["err"] != nil) != want.Failed {
		return fmt.Sprintf("err %v, failed=%v (recorded error: %s)", meta["err"], want.Failed, want.ErrName)
	}
	if want.Failed && !strings.Contains(fmt.Sprint(meta["err"]), want.ErrName) {
		return fmt.Sprintf("err %v does not name the recorded error %s", meta["err"], want.ErrName)
	}
	return ""
}

// the position index of a reply: the archived one, or none when the archive has none
func vc02IdxOK(noIdx bool, got *uint64, want int) bool {
	if noIdx {
		return got == nil
	}
	return got != nil && int(*got) == want
}

func TestVerif_C02(t *testing.T) {
	rep := vh.NewReport("C02", "rpc",
		"every archived block / transaction of the generated epochs x {JSON-RPC base58, base64, base64+zstd, json; gRPC} x epoch sets {one, two, all incl. epoch 0 with genesis} x search concurrency {1, NumCPU}; a case = one request compared field by field with the generator's truth; distinct by (epoch set, api, encoding, key)")
	cases := vh.NewCases("cases_c02", []string{"YF.C02_Rpc"}, "case", "check")
	seed := vh.Seed()
	e0 := vfxDefaultSpec("c02e0", 0, seed)
	e0.NumSlots, e0.SkipPercent = 14, 20
	e1 := vfxDefaultSpec("c02e1", 1, seed+1)
	e1.NumSlots, e1.FrameSize, e1.FanOut, e1.MaxTx, e1.ZeroTimes = 16, 70, 2, 4, true
	e1.EdgeTimes, e1.ShortSigs = true, true
	e2 := vfxDefaultSpec("c02e2", 2, seed+2)
	e2.NumSlots, e2.FrameSize, e2.FanOut, e2.BigObjects, e2.MaxEntries, e2.MultiSig, e2.Boundary = 14, 90, 5, true, 4, true, true
	e2.ShuffleNext = true
	// transactions without the optional position index (archives written before the field existed); blocks with
	// more than 12 transactions, so that an unstable sort on the absent positions would show
	eN := vfxDefaultSpec("c02noidx", 5, seed+4)
	eN.NumSlots, eN.MaxEntries, eN.MaxTx, eN.NoTxIndex, eN.SkipPercent = 10, 5, 6, true, 10
	specs := []vfxSpec{e0, e1, e2, eN}
	if vh.Thorough() {
		e3 := vfxDefaultSpec("c02e3", 700, seed+3)
		e3.NumSlots, e3.FrameSize, e3.FanOut, e3.MaxTx, e3.BigObjects = 60, 70, 10, 6, true
		specs = append(specs, e3)
		for i := range specs {
			specs[i].NumSlots *= 3
		}
	}
	truths, err := vfxBuild(specs)
	if err != nil {
		t.Fatalf("setup failed: %v", err)
	}
	for _, tr := range truths {
		if tr.BuildErr != "" {
			t.Fatalf("setup failed: fixture %s: %s", tr.Spec.Name, tr.BuildErr)
		}
	}
	sets := [][]int{{1}, {1, 2}, {0, 1, 2}, {3}, {3, 1}}
	if vh.Thorough() {
		sets = append(sets, []int{0}, []int{2}, []int{0, 2}, []int{0, 1, 2, 4}, []int{4, 1})
	}
	concs := []int{1, runtime.NumCPU()}
	ctx := context.Background()
	encodings := []string{"base64", "base58", "base64+zstd", "json"}
	for si, set := range sets {
		conc := concs[si%len(concs)]
		var use []*vfxTruth
		for _, i := range set {
			use = append(use, truths[i])
		}
		multi, eps, err := vfxMulti(use, conc)
		if err != nil {
			t.Fatalf("setup failed: %v", err)
		}
		h := newMultiEpochHandler(multi, nil)
		tag := fmt.Sprintf("set=%v conc=%d", set, conc)
		for _, tr := range use {
			for bi := range tr.Blocks {
				b := &tr.Blocks[bi]
				replay := map[string]interface{}{"spec": tr.Spec, "epochs_loaded": set, "concurrency": conc, "slot": b.Slot}
				wantHash := ""
				if n := len(b.Entries); n > 0 {
					hb, _ := hex.DecodeString(b.Entries[n-1].Hash)
					wantHash = solana.HashFromBytes(hb).String()
				}
				// expected previous blockhash
				var wantPrev *string
				parentArchived := false
				if (b.Parent != 0 || b.Slot == 1) && b.Parent/vfxEpochLen == tr.Spec.Epoch {
					if pb := tr.blockBySlot(b.Parent); pb != nil {
						parentArchived = true
						if n := len(pb.Entries); n > 0 {
							hb, _ := hex.DecodeString(pb.Entries[n-1].Hash)
							s := solana.HashFromBytes(hb).String()
							wantPrev = &s
						}
					}
				}
				enc := encodings[(bi+si)%len(encodings)]
				if vh.Thorough() || bi%5 == 0 {
					enc = "" // all encodings
				}
				for _, e := range encodings {
					if enc != "" && e != enc {
						continue
					}
					rep.Case(fmt.Sprintf("%s/getBlock/%s/%d", tag, e, b.Slot), true)
					rep.Count("getBlock:" + e)
					body, _, panicked, pmsg := vfxRPC(h, fmt.Sprintf(`{"jsonrpc":"2.0","id":1,"method":"getBlock","params":[%d,{"encoding":"%s","maxSupportedTransactionVersion":0,"rewards":false}]}`, b.Slot, e))
					if panicked {
						rep.Fail("handler-panic", pmsg, replay)
						continue
					}
					r, perr := vfxParseReply(body)
					if perr != nil || r.Error != nil || len(r.Result) < 5 {
						rep.Fail("archived-block-not-served", fmt.Sprintf("%s getBlock(%d,%s): %.300s", tag, b.Slot, e, body), replay)
						continue
					}
					var got vc02Block
					if err := json.Unmarshal(r.Result, &got); err != nil {
						rep.Fail("block-reply-unparsable", err.Error(), replay)
						continue
					}
					var diffs []string
					if b.Slot != 0 {
						if got.ParentSlot != b.Parent {
							diffs = append(diffs, fmt.Sprintf("parentSlot %d want %d", got.ParentSlot, b.Parent))
						}
						if b.Blocktime == 0 {
							// a recorded block time of 0 is reported as null (or 0), never as another value
							if got.BlockTime != nil && *got.BlockTime != 0 {
								diffs = append(diffs, fmt.Sprintf("blockTime %d want 0/null", *got.BlockTime))
							}
						} else if got.BlockTime == nil || int64(*got.BlockTime) != b.Blocktime {
							diffs = append(diffs, fmt.Sprintf("blockTime %v want %d", got.BlockTime, b.Blocktime))
						}
						if b.HasHeight && (got.BlockHeight == nil || *got.BlockHeight != b.Height) {
							diffs = append(diffs, fmt.Sprintf("blockHeight %v want %d", got.BlockHeight, b.Height))
						}
						if (wantPrev == nil) != (got.PreviousBlockhash == nil) || (wantPrev != nil && *wantPrev != *got.PreviousBlockhash) {
							diffs = append(diffs, fmt.Sprintf("previousBlockhash %v want %v", vc02S(got.PreviousBlockhash), vc02S(wantPrev)))
						}
					}
					if got.Blockhash != wantHash {
						diffs = append(diffs, fmt.Sprintf("blockhash %s want %s", got.Blockhash, wantHash))
					}
					byPos := b.sortedTxs()
					if len(got.Transactions) != len(b.Txs) {
						diffs = append(diffs, fmt.Sprintf("%d transactions want %d", len(got.Transactions), len(b.Txs)))
					} else {
						for i := range byPos {
							want := &byPos[i]
							if e != "json" {
								raw, derr := vc02DecodeTx(got.Transactions[i].Transaction, e)
								wantRaw, _ := base64.StdEncoding.DecodeString(want.TxB64)
								if derr != nil || !bytes.Equal(raw, wantRaw) {
									diffs = append(diffs, fmt.Sprintf("transaction #%d payload differs (%v)", i, derr))
								}
							} else {
								var jt struct {
									Signatures []string `json:"signatures"`
								}
								_ = json.Unmarshal(got.Transactions[i].Transaction, &jt)
								if len(jt.Signatures) < 1 || jt.Signatures[0] != want.Sig {
									diffs = append(diffs, fmt.Sprintf("transaction #%d signature %v want %s", i, jt.Signatures, want.Sig))
								}
							}
							if m := vc02MetaMatches(got.Transactions[i].Meta, want); m != "" {
								diffs = append(diffs, fmt.Sprintf("transaction #%d metadata: %s", i, m))
							}
						}
					}
					if len(diffs) > 0 {
						rep.Fail("block-reply-differs-from-archive", fmt.Sprintf("%s getBlock(%d,%s): %s", tag, b.Slot, e, strings.Join(diffs, "; ")), replay)
					}
					// Coq cases (once per block and set): transaction order and previous-blockhash decision
					if e == "base64" && len(got.Transactions) == len(b.Txs) {
						ids := map[string]int{}
						for _, tx := range b.Txs {
							ids[tx.TxB64] = 1 + len(ids)
						}
						var entries []string
						k := 0
						for _, en := range b.Entries {
							var txs []string
							for j := 0; j < en.NumTx; j++ {
								txs = append(txs, fmt.Sprintf("(%d%%nat, %d%%N)", b.Txs[k].Pos, ids[b.Txs[k].TxB64]))
								k++
							}
							entries = append(entries, vh.CoqList(txs))
						}
						var obs []string
						okAll := true
						for i := range got.Transactions {
							raw, _ := vc02DecodeTx(got.Transactions[i].Transaction, e)
							id, ok := ids[base64.StdEncoding.EncodeToString(raw)]
							if !ok {
								okAll = false
								break
							}
							// position is not exposed by JSON-RPC; the model's position of that payload is used
							pos := -1
							for _, tx := range b.Txs {
								if ids[tx.TxB64] == id {
									pos = tx.Pos
								}
							}
							obs = append(obs, fmt.Sprintf("(%d%%nat, %d%%N)", pos, id))
						}
						if okAll {
							cases.Add(fmt.Sprintf("CBlockTxs %s %s", vh.CoqList(entries), vh.CoqList(obs)))
						}
						if b.Slot != 0 {
							cases.Add(fmt.Sprintf("CPrev %d%%N %d%%N %d%%N %s %s", b.Slot, b.Parent, tr.Spec.Epoch, vh.CoqBool(parentArchived), vh.CoqBool(got.PreviousBlockhash != nil)))
						}
					}
				}
				// ---- gRPC GetBlock
				rep.Case(fmt.Sprintf("%s/grpcGetBlock/%d", tag, b.Slot), true)
				gb, gerr := multi.GetBlock(ctx, &old_faithful_grpc.BlockRequest{Slot: b.Slot})
				if gerr != nil {
					rep.Fail("archived-block-not-served:grpc", fmt.Sprintf("%s slot %d: %v", tag, b.Slot, gerr), replay)
				} else {
					var diffs []string
					if gb.Slot != b.Slot {
						diffs = append(diffs, fmt.Sprintf("slot %d", gb.Slot))
					}
					if b.Slot != 0 && (gb.ParentSlot != b.Parent || gb.BlockTime != b.Blocktime) {
						diffs = append(diffs, fmt.Sprintf("parent %d time %d", gb.ParentSlot, gb.BlockTime))
					}
					if solana.HashFromBytes(gb.Blockhash).String() != wantHash {
						diffs = append(diffs, "blockhash")
					}
					if b.Slot != 0 && ((wantPrev == nil) != (len(gb.PreviousBlockhash) == 0) || (wantPrev != nil && solana.HashFromBytes(gb.PreviousBlockhash).String() != *wantPrev)) {
						diffs = append(diffs, "previous blockhash")
					}
					if len(gb.Transactions) != len(b.Txs) {
						diffs = append(diffs, fmt.Sprintf("%d transactions want %d", len(gb.Transactions), len(b.Txs)))
					} else {
						byPos := b.sortedTxs()
						for i := range byPos {
							wantRaw, _ := base64.StdEncoding.DecodeString(byPos[i].TxB64)
							wantMeta, _ := base64.StdEncoding.DecodeString(byPos[i].MetaB64)
							g := gb.Transactions[i]
							if !bytes.Equal(g.Transaction, wantRaw) || !bytes.Equal(g.Meta, wantMeta) || !vc02IdxOK(tr.Spec.NoTxIndex, g.Index, byPos[i].Pos) {
								diffs = append(diffs, fmt.Sprintf("transaction #%d (bytes/meta/index)", i))
							}
						}
					}
					if len(diffs) > 0 {
						rep.Fail("block-reply-differs-from-archive:grpc", fmt.Sprintf("%s slot %d: %s", tag, b.Slot, strings.Join(diffs, "; ")), replay)
					}
				}
				// ---- getBlockTime
				body, _, panicked, pmsg := vfxRPC(h, fmt.Sprintf(`{"jsonrpc":"2.0","id":1,"method":"getBlockTime","params":[%d]}`, b.Slot))
				if panicked {
					rep.Fail("handler-panic", pmsg, replay)
				} else if r, err := vfxParseReply(body); err != nil || r.Error != nil || (strings.TrimSpace(string(r.Result)) != fmt.Sprint(b.Blocktime) && !(b.Blocktime == 0 && strings.TrimSpace(string(r.Result)) == "null")) {
					if b.Slot != 0 {
						rep.Fail("blocktime-differs-from-archive", fmt.Sprintf("%s getBlockTime(%d): %.200s want %d", tag, b.Slot, body, b.Blocktime), replay)
					}
				}
				if gt, err := multi.GetBlockTime(ctx, &old_faithful_grpc.BlockTimeRequest{Slot: b.Slot}); b.Slot != 0 && (err != nil || gt.BlockTime != b.Blocktime) {
					rep.Fail("blocktime-differs-from-archive:grpc", fmt.Sprintf("%s slot %d: %v %v", tag, b.Slot, gt, err), replay)
				}
				// ---- transactions
				for ti := range b.Txs {
					want := &b.Txs[ti]
					if !vh.Thorough() && (ti+bi+si)%2 == 1 {
						continue
					}
					e := encodings[(ti+bi)%3] // byte encodings
					rep.Case(fmt.Sprintf("%s/getTransaction/%s/%s", tag, e, want.Sig), true)
					rep.Count("getTransaction:" + e)
					if want.Frames > 1 || want.MetaFr > 1 {
						rep.Count("getTransaction:multi-frame")
					}
					body, _, panicked, pmsg := vfxRPC(h, fmt.Sprintf(`{"jsonrpc":"2.0","id":1,"method":"getTransaction","params":["%s",{"encoding":"%s","maxSupportedTransactionVersion":0}]}`, want.Sig, e))
					if panicked {
						rep.Fail("handler-panic", pmsg, replay)
						continue
					}
					r, perr := vfxParseReply(body)
					if perr != nil || r.Error != nil || len(r.Result) < 5 {
						rep.Fail("archived-transaction-not-served", fmt.Sprintf("%s getTransaction(%s): %.300s", tag, want.Sig, body), replay)
						continue
					}
					var got vc02Tx
					_ = json.Unmarshal(r.Result, &got)
					var diffs []string
					raw, derr := vc02DecodeTx(got.Transaction, e)
					wantRaw, _ := base64.StdEncoding.DecodeString(want.TxB64)
					if derr != nil || !bytes.Equal(raw, wantRaw) {
						diffs = append(diffs, "payload differs")
					}
					if got.Slot == nil || *got.Slot != want.Slot {
						diffs = append(diffs, fmt.Sprintf("slot %v want %d", got.Slot, want.Slot))
					}
					if got.BlockTime == nil || *got.BlockTime != b.Blocktime {
						diffs = append(diffs, fmt.Sprintf("blockTime %v want %d", got.BlockTime, b.Blocktime))
					}
					if m := vc02MetaMatches(got.Meta, want); m != "" {
						diffs = append(diffs, "metadata: "+m)
					}
					if len(diffs) > 0 {
						rep.Fail("transaction-reply-differs-from-archive", fmt.Sprintf("%s getTransaction(%s,%s): %s", tag, want.Sig, e, strings.Join(diffs, "; ")), replay)
					}
					sig := solana.MustSignatureFromBase58(want.Sig)
					gtx, gerr := multi.GetTransaction(ctx, &old_faithful_grpc.TransactionRequest{Signature: sig[:]})
					wantMeta, _ := base64.StdEncoding.DecodeString(want.MetaB64)
					if gerr != nil || gtx.Transaction == nil {
						rep.Fail("archived-transaction-not-served:grpc", fmt.Sprintf("%s %s: %v", tag, want.Sig, gerr), replay)
					} else if !bytes.Equal(gtx.Transaction.Transaction, wantRaw) || !bytes.Equal(gtx.Transaction.Meta, wantMeta) || gtx.Slot != want.Slot || gtx.BlockTime != b.Blocktime || !vc02IdxOK(tr.Spec.NoTxIndex, gtx.Index, want.Pos) {
						rep.Fail("transaction-reply-differs-from-archive:grpc", fmt.Sprintf("%s %s: slot %d time %d index %v", tag, want.Sig, gtx.Slot, gtx.BlockTime, gtx.Index), replay)
					}
				}
			}
		}
		// ---- unarchived signatures: answered not-found (never an internal error, never a transaction), whatever
		// the number of loaded epochs and the search concurrency (all-not-found -> not found, C18 mapping)
		{
			rngA := vh.NewRng(seed + uint64(si)*7 + 3)
			for k := 0; k < 6; k++ {
				var sig solana.Signature
				copy(sig[:], rngA.Bytes(64))
				rep.Case(fmt.Sprintf("%s/getTransaction/absent/%d", tag, k), true)
				rep.Count("getTransaction:absent")
				body, _, panicked, pmsg := vfxRPC(h, fmt.Sprintf(`{"jsonrpc":"2.0","id":1,"method":"getTransaction","params":["%s",{"encoding":"base64"}]}`, sig))
				if panicked {
					rep.Fail("handler-panic", pmsg, map[string]interface{}{"sig": sig.String()})
					continue
				}
				r, perr := vfxParseReply(body)
				switch {
				case perr != nil:
					rep.Fail("unarchived-signature-bad-reply", body, map[string]interface{}{"sig": sig.String(), "epochs_loaded": set})
				case r.Error != nil && r.Error.Code == -32603:
					rep.Fail("unarchived-signature-internal-error", fmt.Sprintf("%s getTransaction(%s): %.200s (all epochs answered not-found: the reply must be not-found)", tag, sig, body),
						map[string]interface{}{"sig": sig.String(), "epochs_loaded": set, "concurrency": conc})
				case r.Error == nil && len(r.Result) > 4:
					rep.Fail("unarchived-signature-answered", body, map[string]interface{}{"sig": sig.String(), "epochs_loaded": set})
				}
				if gtx, gerr := multi.GetTransaction(ctx, &old_faithful_grpc.TransactionRequest{Signature: sig[:]}); gerr == nil && gtx != nil && gtx.Transaction != nil {
					rep.Fail("unarchived-signature-answered:grpc", sig.String(), map[string]interface{}{"sig": sig.String(), "epochs_loaded": set})
				} else if gerr != nil && status.Code(gerr) != codes.NotFound {
					rep.Fail("unarchived-signature-internal-error:grpc", fmt.Sprintf("%s %s: %v", tag, sig, gerr), map[string]interface{}{"sig": sig.String(), "epochs_loaded": set})
				}
			}
		}
		if len(rep.Samples) < 3 {
			tr := use[0]
			if len(tr.Blocks) > 2 {
				rep.Sample(map[string]interface{}{"epochs_loaded": set, "concurrency": conc, "example_block": map[string]interface{}{"slot": tr.Blocks[2].Slot, "entries": len(tr.Blocks[2].Entries), "txs": len(tr.Blocks[2].Txs)}})
			}
		}
		for _, e := range eps {
			e.Close()
		}
	}
	if err := cases.Write(); err != nil {
		t.Fatal(err)
	}
	rep.CasesWritten(cases)
	if err := rep.Write(); err != nil {
		t.Fatal(err)
	}
}

func vc02S(p *string) string {
	if p == nil {
		return "<nil>"
	}
	return *p
}
