package main

// C13, third part (helpers called from TestVerif_C13 and from sweepCI):
//
//   * concurrent: the property holds for every lookup, whatever else happens on that reader. For the compact-index kinds
//     and sig-exists, N lookups of keys that share their first read (keys of one bucket / one prefix, the same key
//     included) are issued at the same time on ONE open reader over a truncated copy. The copy is served through a
//     ReaderAt of the harness (vc13Gate) that makes the reads overlap: every read of a round is held until all lookups
//     of the round that are still running have issued a read too (lock step: the k-th reads of all lookups are pending
//     together), or - second mode - only the first read of every lookup is. Cuts: inside the first read of the lookups
//     (the bucket header / the bucket's count), inside reads behind it (entries), and a few random ones. Every answer is
//     judged by the oracle of the sweep: the complete file's answer or an error.
//     Nothing here depends on timing for its verdict. The only timer bounds how long a held read waits for the other
//     lookups: an implementation in which a lookup waits for another lookup instead of reading (which the property does
//     not forbid) would otherwise block the barrier; after the timer the round simply runs on without the barrier.
//   * sigExists / sigExistsSmall: the sig-exists sweep (every key several times on the same open reader; over a ReaderAt,
//     through bucketteer.Open = mmap and through an *os.File) on the generated epoch's file and on a small generated
//     file with several signatures per prefix (so that a lookup probes several slots and a cut can lose some of them).
//   * gsfaRepeated: every key several times on one gsfa reader opened on a directory with a truncated file.

import (
	"context"
	"encoding/binary"
	"fmt"
	"io"
	"os"
	"path/filepath"
	"sort"
	"sync"
	"time"

	"github.com/gagliardetto/solana-go"
	"github.com/rpcpool/yellowstone-faithful/bucketteer"
	"github.com/rpcpool/yellowstone-faithful/gsfa"
	"github.com/rpcpool/yellowstone-faithful/gsfa/linkedlog"
	"github.com/rpcpool/yellowstone-faithful/indexes"
	"github.com/rpcpool/yellowstone-faithful/indexmeta"
	"github.com/rpcpool/yellowstone-faithful/zzverif/vh"
)

// ---------------------------------------------------------------- a truncated copy served in lock step

// vc13Gate: a ReaderAt over data. While a round is on, every read is held at a barrier that opens when all lookups of
// the round that have not returned yet are held at it (or when the first one held has waited for `wait`).
type vc13Gate struct {
	data []byte

	mu         sync.Mutex
	on         bool          // a round is on and its barrier is in force
	live       int           // lookups of the round that have not returned yet
	waiting    int           // of them, held at the barrier
	stage      chan struct{} // closed when the barrier opens
	stagesLeft int           // barriers still to be formed in this round (< 0: no limit)
	wait       time.Duration
	timeouts   int // barriers opened by the timer
	barriers   int // barriers opened because everybody had arrived
}

func (g *vc13Gate) ReadAt(p []byte, off int64) (int, error) {
	g.hold()
	if off < 0 || off >= int64(len(g.data)) {
		return 0, io.EOF
	}
	n := copy(p, g.data[off:])
	if n < len(p) {
		return n, io.EOF
	}
	return n, nil
}

func (g *vc13Gate) Close() error { return nil }

// openLocked opens the current barrier (g.mu held).
func (g *vc13Gate) openLocked() {
	close(g.stage)
	g.stage = make(chan struct{})
	g.waiting = 0
	if g.stagesLeft > 0 {
		g.stagesLeft--
		if g.stagesLeft == 0 {
			g.on = false
		}
	}
}

func (g *vc13Gate) hold() {
	g.mu.Lock()
	if !g.on {
		g.mu.Unlock()
		return
	}
	g.waiting++
	if g.waiting >= g.live {
		g.barriers++
		g.openLocked()
		g.mu.Unlock()
		return
	}
	ch := g.stage
	first := g.waiting == 1
	g.mu.Unlock()
	if !first {
		<-ch
		return
	}
	// the first read held at a barrier also runs its timer
	tm := time.NewTimer(g.wait)
	select {
	case <-ch:
	case <-tm.C:
		g.mu.Lock()
		if g.stage == ch {
			g.timeouts++
			g.on = false // the rest of the round runs without the barrier
			g.openLocked()
		}
		g.mu.Unlock()
		<-ch
	}
	tm.Stop()
}

// begin a round of n lookups; stages: how many barriers are formed (< 0: one for every read).
func (g *vc13Gate) begin(n, stages int, wait time.Duration) {
	g.mu.Lock()
	g.on, g.live, g.waiting, g.stagesLeft, g.wait = true, n, 0, stages, wait
	g.stage = make(chan struct{})
	g.mu.Unlock()
}

// leave: a lookup of the round has returned.
func (g *vc13Gate) leave() {
	g.mu.Lock()
	g.live--
	if g.on && g.waiting > 0 && g.waiting >= g.live {
		g.barriers++
		g.openLocked()
	}
	g.mu.Unlock()
}

func (g *vc13Gate) end() (timeouts, barriers int) {
	g.mu.Lock()
	defer g.mu.Unlock()
	g.on = false
	t, b := g.timeouts, g.barriers
	g.timeouts, g.barriers = 0, 0
	return t, b
}

// ---------------------------------------------------------------- concurrent lookups on a truncated copy

const vc13ConcPar = 8 // lookups issued at the same time

// concurrent: see the head of the file. names/keyIdx/complete as in sweepCI; open opens the file over r and returns the
// lookup of key i (nil: the open failed).
func (x *vc13Run) concurrent(kind string, data []byte, names []string, keyIdx []int, complete map[int]string,
	open func(r indexes.ReaderAtCloser) func(i int) string) {
	ckind := kind + "/concurrent"
	// the reads of every key's lookup on the complete file; keys are grouped by the offset of their first read
	fr := &vc13Reader{data: data, trace: true}
	full := open(fr)
	if full == nil {
		x.rep.Note("%s: the COMPLETE file does not open on this tree; skipped", ckind)
		x.rep.Count("seed-skipped:" + ckind)
		return
	}
	spansOf := map[int][][2]int64{}
	groups := map[int64][]int{}
	for _, i := range keyIdx {
		fr.mu.Lock()
		fr.spans = nil
		fr.mu.Unlock()
		_ = full(i)
		fr.mu.Lock()
		sp := append([][2]int64(nil), fr.spans...)
		fr.mu.Unlock()
		if len(sp) == 0 {
			continue // answered without reading the file: no cut can change it
		}
		spansOf[i] = sp
		groups[sp[0][0]] = append(groups[sp[0][0]], i)
	}
	var offs []int64
	for o := range groups {
		offs = append(offs, o)
	}
	sort.Slice(offs, func(a, b int) bool { // the largest groups first, then by offset
		if len(groups[offs[a]]) != len(groups[offs[b]]) {
			return len(groups[offs[a]]) > len(groups[offs[b]])
		}
		return offs[a] < offs[b]
	})
	maxGroups, rounds := 4, 6
	if vh.Thorough() {
		maxGroups, rounds = 12, 20
	}
	if len(offs) > maxGroups {
		offs = offs[:maxGroups]
	}
	// cuts: inside the first read of a group, inside the first / a middle / the last read behind it, a few random ones
	cutSet := map[int]bool{}
	addCut := func(c int) {
		if c > 0 && c < len(data) {
			cutSet[c] = true
		}
	}
	for _, o := range offs {
		g := groups[o]
		for _, i := range []int{g[0], g[len(g)-1]} {
			sp := spansOf[i]
			lo, hi := int(sp[0][0]), int(sp[0][0]+sp[0][1])
			addCut(lo)
			addCut(lo + 1)
			addCut((lo + hi) / 2)
			addCut(hi - 1)
			rest := sp[1:]
			if len(rest) > 0 {
				for _, j := range []int{0, len(rest) / 2, len(rest) - 1} {
					addCut(int(rest[j][0]) + 1)
				}
				addCut(int(rest[len(rest)-1][0]+rest[len(rest)-1][1]) - 1)
			}
		}
	}
	for i := 0; i < 3; i++ {
		addCut(x.rng.Intn(len(data)))
	}
	var cuts []int
	for c := range cutSet {
		cuts = append(cuts, c)
	}
	sort.Ints(cuts)
	wait := 30 * time.Millisecond
	fails, timeouts, barriers, nRounds := 0, 0, 0, 0
	for _, cut := range cuts {
		if fails >= 3 {
			break // shown three times: enough (every further round may cost `wait`)
		}
		gate := &vc13Gate{data: data[:cut]}
		look := open(gate)
		if look == nil {
			x.rep.Count("concurrent-open-failed:" + kind)
			continue // loud
		}
		for _, o := range offs {
			grp := groups[o]
			for round := 0; round < rounds && fails < 3; round++ {
				stages := -1 // every read of the round in lock step
				if round%2 == 1 {
					stages = 1 // only the first read of every lookup
				}
				if timeouts >= 6 {
					wait = 3 * time.Millisecond
				}
				keys := make([]int, vc13ConcPar)
				for g := range keys {
					keys[g] = grp[(round*vc13ConcPar+g)%len(grp)]
				}
				if round%3 == 2 {
					for g := range keys { // everybody asks for the same key
						keys[g] = grp[round%len(grp)]
					}
				}
				got := make([]string, vc13ConcPar)
				gate.begin(vc13ConcPar, stages, wait)
				var wg sync.WaitGroup
				for g := 0; g < vc13ConcPar; g++ {
					wg.Add(1)
					go func(g int) {
						defer wg.Done()
						defer gate.leave()
						got[g] = look(keys[g])
					}(g)
				}
				wg.Wait()
				t, b := gate.end()
				timeouts += t
				barriers += b
				nRounds++
				for g := 0; g < vc13ConcPar; g++ {
					i := keys[g]
					x.rep.Case(fmt.Sprintf("%s/%d/%s/r%d.%d", ckind, cut, names[i], round, g), true)
					x.rep.Count("lookups:" + ckind)
					if got[g] == "err" {
						x.rep.Count("outcome:error")
						continue
					}
					if got[g] == complete[i] {
						x.rep.Count("outcome:same-answer")
						continue
					}
					fails++
					x.rep.Fail("truncated-file-answers-differently-under-concurrent-lookups:"+kind,
						fmt.Sprintf("%s cut at %d of %d bytes, %d lookups of keys with the same first read (offset %d) issued at the same time on one open reader, round %d, lookup %d, key %s: complete file answers %.60s, truncated copy answers %.60s (must be the same or an error)",
							kind, cut, len(data), vc13ConcPar, o, round, g, names[i], complete[i], got[g]),
						map[string]interface{}{"kind": kind, "cut": cut, "size": len(data), "key": names[i], "round": round, "concurrent": vc13ConcPar, "first_read_offset": o})
				}
			}
		}
	}
	x.rep.CountN("concurrent-rounds:"+kind, nRounds)
	x.rep.CountN("concurrent-barriers:"+kind, barriers)
	if timeouts > 0 {
		x.rep.CountN("concurrent-barrier-timeouts:"+kind, timeouts)
	}
}

// ---------------------------------------------------------------- sig-exists

func vc13SigName(k solana.Signature) string { return k.String()[:12] }

// sigExists: the truncation sweep of one sig-exists file.
func (x *vc13Run) sigExists(kind string, data []byte, keys []solana.Signature, sample int) {
	open := func(r io.ReaderAt) (ix *bucketteer.Reader) {
		defer func() {
			if recover() != nil {
				ix = nil
			}
		}()
		ix, err := bucketteer.NewReader(r)
		if err != nil {
			return nil
		}
		return ix
	}
	look := func(ix *bucketteer.Reader, k solana.Signature) (out string) {
		if ix == nil {
			return "err"
		}
		defer func() {
			if r := recover(); r != nil {
				out = fmt.Sprintf("panic:%v", r)
			}
		}()
		has, err := ix.Has(k)
		if err != nil {
			return "err"
		}
		return fmt.Sprintf("v:%v", has)
	}
	var names []string
	for _, k := range keys {
		names = append(names, vc13SigName(k))
	}
	full := open(&vc13Reader{data: data})
	if full == nil {
		x.rep.Note("%s: the COMPLETE file does not open on this tree; kind skipped", kind)
		x.rep.Count("seed-skipped:" + kind)
		return
	}
	complete := map[int]string{}
	for i, k := range keys {
		complete[i] = look(full, k)
	}
	// structure boundaries: header size field, header end, the first bucket records
	bounds := []int{4, 12, 20}
	hdrEnd := 0
	if len(data) > 4 {
		hdrEnd = 4 + int(binary.LittleEndian.Uint32(data[:4]))
		bounds = append(bounds, hdrEnd)
		for off, n := hdrEnd, 0; off < len(data) && n < 30; off, n = off+12, n+1 {
			bounds = append(bounds, off)
		}
	}
	cuts, tagged := x.cutsTagged(len(data), bounds, sample/2)
	diskCuts := map[int]bool{}
	for _, cut := range cuts {
		if tagged[cut] && (cut >= hdrEnd-2 || cut <= 64) {
			diskCuts[cut] = true
		}
		if cut < hdrEnd && cut > 64 && x.rng.Intn(4) != 0 {
			continue // the 655 KB header: every cut inside it fails at open; keep a quarter of the sample
		}
		r := &vc13Reader{data: data[:cut]}
		ix := open(r)
		one := func(ki, attempt int) {
			r.reset()
			got := look(ix, keys[ki])
			rr := r
			if ix == nil {
				rr = nil
			}
			x.observeN(kind, cut, len(data), names[ki], attempt, complete[ki], got, rr)
		}
		for ki := range keys {
			if ki > 12 && cut < hdrEnd {
				break
			}
			one(ki, 1)
		}
		if ix != nil && vc13RepeatAt(cut, tagged) {
			for ki := range keys {
				for a := 2; a <= vc13Attempts; a++ {
					one(ki, a)
				}
			}
		}
	}
	x.directed(kind, data, names, func(r *vc13Reader) (func(i int) string, bool) {
		ix := open(r)
		if ix == nil {
			return nil, false
		}
		return func(i int) string { return look(ix, keys[i]) }, true
	})
	// the cuts inside the reads of the lookups, for the readers over a file on disk
	{
		fr := &vc13Reader{data: data, trace: true}
		if ix := open(fr); ix != nil {
			fr.mu.Lock()
			fr.spans = nil
			fr.mu.Unlock()
			for ki, k := range keys {
				if ki >= 40 && ki < len(keys)-2 {
					continue
				}
				_ = look(ix, k)
			}
			for _, sp := range fr.spans {
				lo, hi := int(sp[0]), int(sp[0]+sp[1])
				for _, c := range []int{lo, lo + 1, hi - 1} {
					if c > 0 && c < len(data) && c >= lo && c < hi {
						diskCuts[c] = true
					}
				}
			}
		}
	}
	x.sigExistsOnDisk(kind, data, keys, names, complete, diskCuts)
	var keyIdx []int
	for i := range keys {
		keyIdx = append(keyIdx, i)
	}
	x.concurrent(kind, data, names, keyIdx, complete, func(r indexes.ReaderAtCloser) func(i int) string {
		ix := open(r)
		if ix == nil {
			return nil
		}
		return func(i int) string { return look(ix, keys[i]) }
	})
	x.rep.Count(fmt.Sprintf("file:%s bytes=%d header=%d keys=%d", kind, len(data), hdrEnd, len(keys)))
}

// sigExistsOnDisk: the file truncated on disk at the given cuts and opened as the server opens a local file
// (bucketteer.Open: memory-mapped) and over an *os.File; every key vc13Attempts times on each open reader.
func (x *vc13Run) sigExistsOnDisk(kind string, data []byte, keys []solana.Signature, names []string, complete map[int]string, cutSet map[int]bool) {
	dir := filepath.Join(vh.OutDir(), "c13sigx")
	_ = os.MkdirAll(dir, 0o755)
	path := filepath.Join(dir, "copy.index")
	_ = os.Remove(path)
	if err := os.WriteFile(path, data, 0o644); err != nil {
		x.rep.Note("%s: cannot write the copy to truncate (%v); on-disk readers skipped", kind, err)
		return
	}
	defer os.Remove(path)
	var cuts []int
	for c := range cutSet {
		cuts = append(cuts, c)
	}
	sort.Sort(sort.Reverse(sort.IntSlice(cuts))) // the one copy is cut shorter and shorter
	type opened struct {
		ix    *bucketteer.Reader
		close func()
	}
	hows := []struct {
		name string
		open func() opened
	}{
		{"mmap", func() (o opened) {
			defer func() {
				if recover() != nil {
					o = opened{}
				}
			}()
			ix, err := bucketteer.Open(path)
			if err != nil {
				return opened{}
			}
			return opened{ix: ix, close: func() { _ = ix.Close() }}
		}},
		{"file", func() (o opened) {
			f, err := os.Open(path)
			if err != nil {
				return opened{}
			}
			defer func() {
				if recover() != nil {
					_ = f.Close()
					o = opened{}
				}
			}()
			ix, err := bucketteer.NewReader(f)
			if err != nil {
				_ = f.Close()
				return opened{}
			}
			return opened{ix: ix, close: func() { _ = f.Close() }}
		}},
	}
	for _, cut := range cuts {
		if err := os.Truncate(path, int64(cut)); err != nil {
			x.rep.Note("%s: cannot truncate the copy to %d bytes (%v); on-disk readers stopped", kind, cut, err)
			return
		}
		for _, h := range hows {
			k := kind + ":" + h.name
			o := h.open()
			one := func(ki, attempt int) {
				got := "err"
				if o.ix != nil {
					got = func() (out string) {
						defer func() {
							if r := recover(); r != nil {
								out = fmt.Sprintf("panic:%v", r)
							}
						}()
						has, err := o.ix.Has(keys[ki])
						if err != nil {
							return "err"
						}
						return fmt.Sprintf("v:%v", has)
					}()
				}
				x.observeN(k, cut, len(data), names[ki], attempt, complete[ki], got, nil)
			}
			for ki := range keys {
				one(ki, 1)
			}
			if o.ix != nil {
				for ki := range keys {
					for a := 2; a <= vc13Attempts; a++ {
						one(ki, a)
					}
				}
				o.close()
			}
		}
	}
	x.rep.CountN("on-disk-cuts:"+kind, len(cuts))
}

// vc13Eytzinger lays sorted out in the order the sig-exists reader searches a bucket (children of slot i: 2i+1, 2i+2).
func vc13Eytzinger(in, out []uint64, i, k int) int {
	if k <= len(in) {
		i = vc13Eytzinger(in, out, i, 2*k)
		out[k-1] = in[i]
		i++
		i = vc13Eytzinger(in, out, i, 2*k+1)
	}
	return i
}

// sigExistsSmall: a sig-exists file written by the harness (the repository's writer reserves 8 GiB and needs a process
// of its own): a few prefixes with 7, 5, 2 and 1 signatures, so that a lookup probes several slots of its bucket and a
// cut can lose some of them. It is a seed only if the real reader answers `true` for every signature put in and
// `false` for the absent ones on the complete file; otherwise it is skipped with a note. Small enough for every cut.
func (x *vc13Run) sigExistsSmall(sample int) {
	const kind = "sig-exists-small"
	type bucket struct {
		prefix [2]byte
		n      int
	}
	buckets := []bucket{{[2]byte{0xab, 0xcd}, 7}, {[2]byte{0x00, 0x00}, 5}, {[2]byte{0xff, 0xfe}, 2}, {[2]byte{0x10, 0x01}, 1}}
	var keys []solana.Signature
	var content []byte
	var pairs []byte
	for _, b := range buckets {
		var hashes []uint64
		for i := 0; i < b.n; i++ {
			var s solana.Signature
			copy(s[:], x.rng.Bytes(64))
			s[0], s[1] = b.prefix[0], b.prefix[1]
			keys = append(keys, s)
			hashes = append(hashes, bucketteer.Hash(s))
		}
		sort.Slice(hashes, func(i, j int) bool { return hashes[i] < hashes[j] })
		laid := make([]uint64, len(hashes))
		vc13Eytzinger(hashes, laid, 0, 1)
		pairs = append(pairs, b.prefix[:]...)
		pairs = binary.LittleEndian.AppendUint64(pairs, uint64(len(content)))
		content = binary.LittleEndian.AppendUint32(content, uint32(len(laid)))
		for _, h := range laid {
			content = binary.LittleEndian.AppendUint64(content, h)
		}
	}
	nStored := len(keys)
	// absent: one in a populated prefix, one in a prefix the file does not have
	var a1, a2 solana.Signature
	copy(a1[:], x.rng.Bytes(64))
	a1[0], a1[1] = 0xab, 0xcd
	copy(a2[:], x.rng.Bytes(64))
	a2[0], a2[1] = 0x77, 0x77
	keys = append(keys, a1, a2)
	metaBuf, err := indexmeta.Meta{}.MarshalBinary()
	if err != nil {
		x.rep.Note("%s: %v; kind skipped", kind, err)
		x.rep.Count("seed-skipped:" + kind)
		return
	}
	magic := bucketteer.Magic()
	var hdr []byte
	hdr = append(hdr, magic[:]...)
	hdr = binary.LittleEndian.AppendUint64(hdr, bucketteer.Version)
	hdr = append(hdr, metaBuf...)
	hdr = binary.LittleEndian.AppendUint64(hdr, uint64(len(buckets)))
	hdr = append(hdr, pairs...)
	data := binary.LittleEndian.AppendUint32(nil, uint32(len(hdr)))
	data = append(data, hdr...)
	data = append(data, content...)
	// a seed only if the real reader reads it back
	ok := func() (ok bool) {
		defer func() {
			if recover() != nil {
				ok = false
			}
		}()
		ix, err := bucketteer.NewReader(&vc13Reader{data: data})
		if err != nil {
			return false
		}
		for i, k := range keys {
			has, err := ix.Has(k)
			if err != nil || has != (i < nStored) {
				return false
			}
		}
		return true
	}()
	if !ok {
		x.rep.Note("%s: the generated file is not read back by the reader of this tree; kind skipped", kind)
		x.rep.Count("seed-skipped:" + kind)
		return
	}
	x.sigExists(kind, data, keys, sample)
}

// ---------------------------------------------------------------- gsfa: one reader, every key several times

func (x *vc13Run) gsfaRepeated(kind, dir string, cut, size int, keys []solana.PublicKey, complete map[string]string, limit int,
	view func([]linkedlog.OffsetAndSizeAndSlot) string) {
	g, err := func() (g *gsfa.GsfaReader, err error) {
		defer func() {
			if r := recover(); r != nil {
				g, err = nil, fmt.Errorf("panic: %v", r)
			}
		}()
		return gsfa.NewGsfaReader(dir)
	}()
	if err != nil || g == nil {
		return // the open fails: loud (the lookups through a fresh reader have recorded it)
	}
	defer func() {
		defer func() { _ = recover() }()
		_ = g.Close()
	}()
	for _, k := range keys {
		for a := 2; a <= 1+vc13Attempts; a++ {
			got := func() (out string) {
				defer func() {
					if r := recover(); r != nil {
						out = fmt.Sprintf("panic:%v", r)
					}
				}()
				locs, err := g.Get(context.Background(), k, limit)
				if err != nil {
					return vc13Err(err)
				}
				return view(locs)
			}()
			x.observeN(kind, cut, size, k.String()[:10], a, complete[k.String()], got, nil)
		}
	}
}
