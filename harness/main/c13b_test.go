package main

// C13, second part (helpers called from TestVerif_C13):
//
//   * sweepCI: the truncation sweep of one compact index opened over an io.ReaderAt, run twice: as a local index is
//     opened (prefetch off) and as the server opens an index whose URI is remote (OpenWithReader_* followed by
//     Prefetch(true), see epoch.go). Same oracle both times. With prefetch on, GetBucket issues one advisory read of
//     the first entries of the bucket whose end-of-file error is tolerated and whose bytes are discarded: the recorded
//     read traces of those runs are therefore NOT handed to the Coq checker (its rule "no answer after a failed read"
//     is about reads whose bytes are used).
//   * bigIndex: a generated cid-to-offset-and-size index with several buckets, each larger than the prefetch window.
//   * manifestSweep: the gsfa manifest cut at EVERY offset, opened as the reader does (gsfa.NewGsfaReader on a directory
//     whose manifest is cut; manifest.NewManifest with empty metadata) and as the writer re-opens it: the open fails, or
//     version, metadata and contents are those of the complete file; opening must leave the file's bytes alone.

import (
	"bytes"
	"context"
	"encoding/binary"
	"fmt"
	"os"
	"path/filepath"
	"strings"

	"github.com/ipfs/go-cid"
	"github.com/rpcpool/yellowstone-faithful/compactindexsized"
	"github.com/rpcpool/yellowstone-faithful/gsfa"
	"github.com/rpcpool/yellowstone-faithful/gsfa/manifest"
	"github.com/rpcpool/yellowstone-faithful/indexes"
	"github.com/rpcpool/yellowstone-faithful/indexmeta"
	"github.com/rpcpool/yellowstone-faithful/zzverif/vh"
)

// vc13ManifestKnownEnv: what to do with the two manifest cuts that the format cannot tell from a complete file
// (cut at offset 0 = "new file"; cut exactly between two 16-byte tuples = shorter log): "observe" (default) records
// them as a note and a count, "enforce" reports them with rep.Fail.
const vc13ManifestKnownEnv = "VERIF_C13_MANIFEST_UNDETECTABLE"

// vc13PrefetchWindow: entries of a bucket read ahead by GetBucket with Prefetch(true) (only used to place cut points;
// the directed cuts take the real window from the recorded reads).
const vc13PrefetchWindow = 3000

// vc13CIBounds: structure boundaries of a compact index: magic, header length, header end, every bucket header,
// every bucket's first entry, end of its prefetch window, end of the bucket.
func vc13CIBounds(data []byte) (out []int) {
	defer func() { _ = recover() }()
	out = []int{8, 12}
	if len(data) < 12 {
		return out
	}
	hdr := 12 + int(binary.LittleEndian.Uint32(data[8:12]))
	out = append(out, hdr)
	db, err := compactindexsized.Open(bytes.NewReader(data))
	if err != nil {
		return out
	}
	for i := uint(0); i < uint(db.Header.NumBuckets) && i < 64; i++ {
		out = append(out, hdr+16*int(i), hdr+16*int(i)+16)
		b, err := db.GetBucket(i)
		if err != nil {
			continue
		}
		st, off, n := int(b.Stride), int(b.FileOffset), int(b.NumEntries)
		w := n
		if w > vc13PrefetchWindow {
			w = vc13PrefetchWindow
		}
		out = append(out, off, off+st, off+w*st, off+n*st)
	}
	return out
}

// sweepCI: opener opens the index over r the way the server does (prefetch: followed by Prefetch(true)) and returns
// the lookup of key i ("v:...", "notfound", "err", "panic:..."), or nil when the open fails. keyIdx: the keys looked up
// at every cut (nil = all).
func (x *vc13Run) sweepCI(kind string, data []byte, names []string, keyIdx []int, sample int,
	opener func(r indexes.ReaderAtCloser, prefetch bool) func(i int) string) {
	if keyIdx == nil {
		for i := range names {
			keyIdx = append(keyIdx, i)
		}
	}
	bounds := vc13CIBounds(data)
	for _, pf := range []bool{false, true} {
		k := kind
		if pf {
			k += "+prefetch"
		}
		full := opener(&vc13Reader{data: data}, pf)
		if full == nil {
			x.rep.Note("%s: the COMPLETE index does not open on this tree; kind skipped", k)
			x.rep.Count("seed-skipped:" + k)
			continue
		}
		complete := map[int]string{}
		for _, i := range keyIdx {
			complete[i] = full(i)
		}
		cuts, tagged := x.cutsTagged(len(data), bounds, sample)
		for _, cut := range cuts {
			r := &vc13Reader{data: data[:cut]}
			look := opener(r, pf)
			one := func(i, attempt int) {
				r.reset()
				got := "err"
				if look != nil {
					got = look(i)
				}
				rr := r
				if look == nil || pf {
					rr = nil
				}
				x.observeN(k, cut, len(data), names[i], attempt, complete[i], got, rr)
			}
			for _, i := range keyIdx {
				one(i, 1)
			}
			// the same keys again on the same open reader: once after all the others, then once more at once
			if look != nil && vc13RepeatAt(cut, tagged) {
				for _, i := range keyIdx {
					for a := 2; a <= vc13Attempts; a++ {
						one(i, a)
					}
				}
			}
		}
		var dnames []string
		for _, i := range keyIdx {
			dnames = append(dnames, names[i])
		}
		x.directed(k, data, dnames, func(r *vc13Reader) (func(j int) string, bool) {
			look := opener(r, pf)
			if look == nil {
				return nil, false
			}
			return func(j int) string { return look(keyIdx[j]) }, !pf
		})
		// lookups of keys of one bucket issued at the same time on one open reader (c13c_test.go)
		x.concurrent(k, data, names, keyIdx, complete, func(r indexes.ReaderAtCloser) func(i int) string { return opener(r, pf) })
	}
	x.rep.Count(fmt.Sprintf("file:%s bytes=%d keys=%d", kind, len(data), len(keyIdx)))
}

// bigIndex: a cid-to-offset-and-size index with 3 buckets of ~3700 entries each (more than the prefetch window, so a
// lookup uses both the entries inside the window and entries behind it), built with the real writer.
func (x *vc13Run) bigIndex(root cid.Cid, sample int) {
	const kind = "cid-to-offset-and-size-3buckets"
	dir := filepath.Join(vh.OutDir(), "c13big")
	_ = os.RemoveAll(dir)
	tmp := filepath.Join(dir, "tmp")
	_ = os.MkdirAll(tmp, 0o755)
	nKeys := 11000
	var keys []cid.Cid
	var want []string
	path, err := func() (p string, err error) {
		defer func() {
			if r := recover(); r != nil {
				err = fmt.Errorf("panic: %v", r)
			}
		}()
		w, err := indexes.NewWriter_CidToOffsetAndSize(2, root, indexes.NetworkMainnet, tmp, 25000) // 25000 -> 3 buckets
		if err != nil {
			return "", err
		}
		for i := 0; i < nKeys; i++ {
			c := vfxMkCid([]byte(fmt.Sprintf("c13-big-%d", i)), i%5 == 0)
			off, size := uint64(1000+i*97), uint64(40+i%1500)
			if err := w.Put(c, off, size); err != nil {
				return "", err
			}
			keys = append(keys, c)
			want = append(want, fmt.Sprintf("v:%d/%d", off, size))
		}
		if err := w.Seal(context.Background(), dir); err != nil {
			return "", err
		}
		p = w.GetFilepath()
		_ = w.Close()
		return p, nil
	}()
	if err != nil {
		x.rep.Note("%s: the generated index could not be built on this tree (%v); kind skipped", kind, err)
		x.rep.Count("seed-skipped:" + kind)
		return
	}
	data, err := os.ReadFile(path)
	if err != nil {
		x.rep.Note("%s: %v; kind skipped", kind, err)
		x.rep.Count("seed-skipped:" + kind)
		return
	}
	keys = append(keys, vfxMkCid([]byte("c13-big-absent-1"), false), vfxMkCid([]byte("c13-big-absent-2"), true))
	want = append(want, "notfound", "notfound")
	var names []string
	for _, k := range keys {
		names = append(names, k.String())
	}
	opener := func(r indexes.ReaderAtCloser, prefetch bool) func(i int) string {
		ix := func() (ix *indexes.CidToOffsetAndSize_Reader) {
			defer func() {
				if recover() != nil {
					ix = nil
				}
			}()
			ix, err := indexes.OpenWithReader_CidToOffsetAndSize(r)
			if err != nil {
				return nil
			}
			if prefetch {
				ix.Prefetch(true)
			}
			return ix
		}()
		if ix == nil {
			return nil
		}
		return func(i int) (out string) {
			defer func() {
				if r := recover(); r != nil {
					out = fmt.Sprintf("panic:%v", r)
				}
			}()
			v, err := ix.Get(keys[i])
			if err != nil {
				return vc13Err(err)
			}
			return fmt.Sprintf("v:%d/%d", v.Offset, v.Size)
		}
	}
	// the complete file must answer what was put (otherwise this is not a valid seed)
	if full := opener(&vc13Reader{data: data}, false); full != nil {
		bad := 0
		for i := range keys {
			if full(i) != want[i] {
				bad++
			}
		}
		if bad > 0 {
			x.rep.Note("%s: the complete generated index answers %d of %d keys differently from what was put (not judged here, see C04)", kind, bad, len(keys))
		}
	}
	// keys looked up at every cut: the first 40 (directed cuts too), a random sample, the two absent ones
	nRand := 100
	if vh.Thorough() {
		nRand = 400
	}
	sel := map[int]bool{}
	var keyIdx []int
	add := func(i int) {
		if !sel[i] {
			sel[i] = true
			keyIdx = append(keyIdx, i)
		}
	}
	for i := 0; i < 40; i++ {
		add(i)
	}
	for i := 0; i < nRand; i++ {
		add(x.rng.Intn(nKeys))
	}
	add(len(keys) - 2)
	add(len(keys) - 1)
	x.sweepCI(kind, data, names, keyIdx, sample, opener)
}

// vc13ManView: canonical projection of an opened manifest.
func vc13ManView(version uint64, meta indexmeta.Meta, vals [][2]uint64, haveVals bool) string {
	var sb strings.Builder
	fmt.Fprintf(&sb, "v:version=%d meta=%s", version, vh.Hex(meta.Bytes()))
	if haveVals {
		fmt.Fprintf(&sb, " tuples=%d:", len(vals))
		for _, v := range vals {
			fmt.Fprintf(&sb, "%d/%d;", v[0], v[1])
		}
	}
	return sb.String()
}

// manifestObserve: one open of a cut manifest. got/complete: "err" or a vc13ManView. after: the file's bytes after the
// open (nil: unreadable). prefixOK: got is the view of a proper prefix of the complete file's tuples with the same
// version and metadata (only possible when the cut lies exactly between two tuples).
func (x *vc13Run) manifestObserve(kind, how string, cut, size int, complete, got string, before, after []byte, prefixOK bool) {
	known := ""
	if cut == 0 && kind == "gsfa-manifest-file" {
		// manifest.NewManifest is the WRITER's constructor: an empty file is a manifest to be started. Readers go
		// through gsfa.NewGsfaReader (kind gsfa-manifest-open), which must refuse an empty manifest.
		x.rep.Count("creation-semantics:NewManifest-on-empty-file")
		return
	}
	if got != "err" && got != complete {
		if cut == 0 {
			known = "empty-manifest-opens-as-new"
		} else if prefixOK {
			known = "manifest-cut-between-tuples-reads-shorter-log"
		}
	}
	rewritten := after == nil || !bytes.Equal(before, after)
	if known != "" || (cut == 0 && rewritten) {
		if known == "" {
			known = "empty-manifest-opens-as-new"
		}
		// the format has no length field: these two cuts look like a complete (shorter / new) manifest
		x.rep.Case(fmt.Sprintf("%s/%d/%s", kind, cut, how), cut < size)
		x.rep.Count("lookups:" + kind)
		if os.Getenv(vc13ManifestKnownEnv) == "enforce" {
			x.rep.Fail(known+":"+kind,
				fmt.Sprintf("%s cut at %d of %d bytes, %s: complete file gives %.200s, truncated copy gives %.200s; file on disk afterwards: %d bytes (was %d)", kind, cut, size, how, vc13Short(complete), vc13Short(got), len(after), len(before)),
				map[string]interface{}{"kind": kind, "cut": cut, "size": size, "how": how})
		} else {
			x.rep.Count("observed-not-enforced:" + known)
			if !x.noted[known+how] {
				x.noted[known+how] = true
				x.rep.Note("OBSERVED (not enforced, %s=observe): %s: %s cut at %d of %d bytes, %s: complete file gives %.160s, truncated copy gives %.160s; file on disk afterwards %d bytes (was %d)",
					vc13ManifestKnownEnv, known, kind, cut, size, how, vc13Short(complete), vc13Short(got), len(after), len(before))
			}
		}
		return
	}
	x.observe(kind, cut, size, how, complete, got, nil)
	if rewritten {
		x.rep.Fail("truncated-file-rewritten-by-open:"+kind,
			fmt.Sprintf("%s cut at %d of %d bytes, %s: opening the truncated copy (nothing was put) changed the file on disk: %d bytes before, %d after", kind, cut, size, how, len(before), len(after)),
			map[string]interface{}{"kind": kind, "cut": cut, "size": size, "how": how})
	}
}

// manifestSweep, part 1: the generated epoch's gsfa directory with its manifest cut at every offset, opened with
// gsfa.NewGsfaReader (what the server does); observables: Version(), Meta().
func (x *vc13Run) manifestSweepDir(gsfaDir string, names []string) {
	const kind = "gsfa-manifest-open"
	files := map[string][]byte{}
	for _, n := range names {
		b, err := os.ReadFile(filepath.Join(gsfaDir, n))
		if err != nil {
			x.rep.Note("%s: %v; skipped", kind, err)
			x.rep.Count("seed-skipped:" + kind)
			return
		}
		files[n] = b
	}
	view := func(dir string) (out string) {
		defer func() {
			if r := recover(); r != nil {
				out = fmt.Sprintf("panic:%v", r)
			}
		}()
		g, err := gsfa.NewGsfaReader(dir)
		if err != nil {
			return "err"
		}
		defer g.Close()
		return vc13ManView(g.Version(), g.Meta(), nil, false)
	}
	full := files["manifest"]
	d := filepath.Join(vh.OutDir(), "c13gsfa-man")
	mk := func(cut int) {
		_ = os.RemoveAll(d)
		_ = os.MkdirAll(d, 0o755)
		for _, n := range names {
			b := files[n]
			if n == "manifest" {
				b = b[:cut]
			}
			_ = os.WriteFile(filepath.Join(d, n), b, 0o644)
		}
	}
	mk(len(full))
	complete := view(d)
	if complete == "err" || strings.HasPrefix(complete, "panic") {
		x.rep.Note("%s: the COMPLETE gsfa directory does not open on this tree (%s); skipped", kind, complete)
		x.rep.Count("seed-skipped:" + kind)
		return
	}
	for cut := 0; cut < len(full); cut++ {
		mk(cut)
		got := view(d)
		after, _ := os.ReadFile(filepath.Join(d, "manifest"))
		x.manifestObserve(kind, "gsfa.NewGsfaReader", cut, len(full), complete, got, full[:cut], after, false)
	}
	x.rep.Count(fmt.Sprintf("file:%s bytes=%d (every cut)", kind, len(full)))
}

// manifestSweep, part 2: a manifest with metadata (epoch, root CID, network) and tuples written with the real
// NewManifest/Put, cut at every offset, opened as the reader does (empty metadata) and as the writer re-opens it
// (the same metadata); observables: Version(), Meta(), ReadAll().
func (x *vc13Run) manifestSweepFile(root cid.Cid) {
	const kind = "gsfa-manifest-file"
	dir := filepath.Join(vh.OutDir(), "c13man")
	_ = os.RemoveAll(dir)
	_ = os.MkdirAll(dir, 0o755)
	var meta indexmeta.Meta
	_ = meta.AddUint64(indexmeta.MetadataKey_Epoch, 2)
	_ = meta.AddCid(indexmeta.MetadataKey_RootCid, root)
	_ = meta.AddString(indexmeta.MetadataKey_Network, string(indexes.NetworkMainnet))
	nTuples := 5
	src := filepath.Join(dir, "manifest")
	err := func() (err error) {
		defer func() {
			if r := recover(); r != nil {
				err = fmt.Errorf("panic: %v", r)
			}
		}()
		m, err := manifest.NewManifest(src, meta)
		if err != nil {
			return err
		}
		for i := 0; i < nTuples; i++ {
			if err := m.Put(uint64(100+i), x.rng.U64()); err != nil {
				return err
			}
		}
		return m.Close()
	}()
	if err != nil {
		x.rep.Note("%s: the manifest could not be written on this tree (%v); skipped", kind, err)
		x.rep.Count("seed-skipped:" + kind)
		return
	}
	full, err := os.ReadFile(src)
	if err != nil {
		x.rep.Note("%s: %v; skipped", kind, err)
		x.rep.Count("seed-skipped:" + kind)
		return
	}
	type res struct {
		view    string
		version uint64
		meta    string
		vals    [][2]uint64
	}
	open := func(path string, m indexmeta.Meta) (out res) {
		defer func() {
			if r := recover(); r != nil {
				out = res{view: fmt.Sprintf("panic:%v", r)}
			}
		}()
		man, err := manifest.NewManifest(path, m)
		if err != nil {
			return res{view: "err"}
		}
		defer man.Close()
		vals, err := man.ReadAll()
		if err != nil {
			return res{view: "err"}
		}
		mm := man.Meta()
		return res{view: vc13ManView(man.Version(), mm, vals, true), version: man.Version(), meta: vh.Hex(mm.Bytes()), vals: vals}
	}
	hows := []struct {
		name string
		meta indexmeta.Meta
	}{{"NewManifest(empty metadata)+ReadAll", indexmeta.Meta{}}, {"NewManifest(same metadata)+ReadAll", meta}}
	for _, h := range hows {
		cp := filepath.Join(dir, "copy")
		_ = os.WriteFile(cp, full, 0o644)
		complete := open(cp, h.meta)
		if complete.view == "err" || strings.HasPrefix(complete.view, "panic") || len(complete.vals) != nTuples {
			x.rep.Note("%s: the COMPLETE manifest does not read back on this tree (%s: %.120s); skipped", kind, h.name, complete.view)
			x.rep.Count("seed-skipped:" + kind)
			continue
		}
		for cut := 0; cut < len(full); cut++ {
			if cut == 0 && len(h.meta.KeyVals) > 0 {
				continue // an empty file opened by the writer IS a new manifest
			}
			_ = os.Remove(cp)
			_ = os.WriteFile(cp, full[:cut], 0o644)
			got := open(cp, h.meta)
			after, _ := os.ReadFile(cp)
			// the cut copy is byte for byte a complete manifest with the first k tuples (the format has no length field)
			hdrEnd := len(full) - 16*nTuples
			prefixOK := got.view != "err" && got.version == complete.version && got.meta == complete.meta &&
				cut >= hdrEnd && (cut-hdrEnd)%16 == 0 && len(got.vals) == (cut-hdrEnd)/16
			if prefixOK {
				for i, v := range got.vals {
					if v != complete.vals[i] {
						prefixOK = false
					}
				}
			}
			x.manifestObserve(kind, h.name, cut, len(full), complete.view, got.view, full[:cut], after, prefixOK)
		}
	}
	x.rep.Count(fmt.Sprintf("file:%s bytes=%d tuples=%d (every cut)", kind, len(full), nTuples))
}

// vc13DataLen: length of the data part of a CAR section (section length minus the length varint and the CID).
func vc13DataLen(car []byte, o vfxObj) uint64 {
	w := uint64(0)
	for i := o.Offset; ; i++ {
		w++
		if car[i] < 0x80 {
			break
		}
	}
	return o.SecLen - w - uint64(o.CidLen)
}

// vc13Short: a manifest view with the metadata bytes abbreviated (for messages only).
func vc13Short(view string) string {
	i := strings.Index(view, "meta=")
	if i < 0 {
		return view
	}
	j := i + 5
	k := j
	for k < len(view) && view[k] != ' ' {
		k++
	}
	if k-j <= 24 {
		return view
	}
	return fmt.Sprintf("%s%s..(%d bytes)%s", view[:j], view[j:j+12], (k-j)/2, view[k:])
}
