package main

// Verification harness for C16, part (b) (injected with `go test -overlay`; not part of the repository).
// Generates small synthetic epoch CARs, runs the real `split-car` command (through a urfave/cli app) at target
// sizes that force 1..N pieces, and compares the piece files + epoch-N-metadata.yaml with the original CAR
// (property oracle) and with the Coq model of the split (case file checked by YF.C16_Check.check_split).
// Everything is written under vh.OutDir(); the process chdirs there because split-car writes its yaml
// into the current directory.

import (
	"bytes"
	"encoding/base64"
	"encoding/binary"
	"fmt"
	"io"
	"os"
	"path/filepath"
	"sort"
	"strings"
	"testing"

	"github.com/anjor/carlet"
	"github.com/ipfs/go-cid"
	carv1 "github.com/ipld/go-car"
	"github.com/ipld/go-car/util"
	cidlink "github.com/ipld/go-ipld-prime/linking/cid"
	"github.com/multiformats/go-multicodec"
	"github.com/rpcpool/yellowstone-faithful/ipld/ipldbindcode"
	"github.com/rpcpool/yellowstone-faithful/iplddecoders"
	splitcarfetcher "github.com/rpcpool/yellowstone-faithful/split-car-fetcher"
	"github.com/rpcpool/yellowstone-faithful/zzverif/vh"
	"github.com/urfave/cli/v2"
)

const vc16KnownSig = "metadata-content-size-excludes-appended-nodes"

type vc16Obj struct {
	kind    int
	c       cid.Cid
	data    []byte
	section []byte // uvarint(len(cid)+len(data)) ++ cid ++ data, as written into the CAR
	family  int    // index of the block family it belongs to, -1 for ignored/orphan objects
}

type vc16Car struct {
	name     string
	path     string
	bytes    []byte
	header   []byte // whole header incl. its length prefix
	objs     []vc16Obj
	famSizes []int // section bytes per family, file order
	nfam     int
}

func vc16Cid(data []byte) cid.Cid {
	c, err := cid.V1Builder{Codec: uint64(multicodec.DagCbor), MhType: uint64(multicodec.Sha2_256), MhLength: -1}.Sum(data)
	if err != nil {
		panic("VERIF-HARNESS-BUG: " + err.Error())
	}
	return c
}

func vc16pp(i int) **int { p := &i; return &p }

// a child object: CBOR array [kind, bytes]; data[1] is the kind byte the accumulator looks at
func vc16Child(kind int, payload []byte) []byte {
	out := []byte{0x82, byte(kind)}
	n := len(payload)
	switch {
	case n < 24:
		out = append(out, 0x40|byte(n))
	case n < 256:
		out = append(out, 0x58, byte(n))
	default:
		out = append(out, 0x59, byte(n>>8), byte(n))
	}
	return append(out, payload...)
}

type vc16Shape struct {
	name          string
	blocks        int
	maxChildren   int
	bigChild      int  // size of occasional large children (section varint of 2 or 3 bytes)
	subsetsInside bool // ignored Subset nodes between blocks (not only at the end)
	orphans       int  // non-ignored objects after the last block
	noChildren    bool
	rootCount     int
	// fixedChildren[b] >= 0: block b has exactly that many (tiny) children instead of a random number; used for
	// blocks whose DAG is larger than any internal buffer of the accumulator (thousands of objects)
	fixedChildren []int
	fewTargets    bool // only the structural targets (1 piece, one family per piece, boundaries of the first families)
}

func vc16Build(dir string, sh vc16Shape, rng *vh.Rng, epoch int) *vc16Car {
	car := &vc16Car{name: sh.name}
	add := func(kind int, data []byte, fam int) cid.Cid {
		c := vc16Cid(data)
		var sec bytes.Buffer
		if err := util.LdWrite(&sec, c.Bytes(), data); err != nil {
			panic("VERIF-HARNESS-BUG: " + err.Error())
		}
		car.objs = append(car.objs, vc16Obj{kind: kind, c: c, data: data, section: sec.Bytes(), family: fam})
		return c
	}
	var blockLinks, subsetLinks ipldbindcode.List__Link
	first := 432000 * epoch
	slot := first
	lastSubsetStart := slot
	uniq := 0
	for b := 0; b < sh.blocks; b++ {
		slot += rng.Range(1, 3)
		nch := 0
		if !sh.noChildren {
			nch = rng.Intn(sh.maxChildren + 1)
		}
		fixed := b < len(sh.fixedChildren) && sh.fixedChildren[b] >= 0
		if fixed {
			nch = sh.fixedChildren[b]
		}
		var entries ipldbindcode.List__Link
		for k := 0; k < nch; k++ {
			sz := rng.Pick(0, 1, 5, 20, 60, 90, 91, 92, 130, 200)
			if sh.bigChild > 0 && rng.Intn(12) == 0 {
				sz = sh.bigChild + rng.Intn(40)
			}
			if fixed {
				sz = rng.Intn(3) // tiny objects: the number of objects matters, not their size
			}
			payload := rng.Bytes(sz)
			uniq++
			payload = append(payload, byte(uniq), byte(uniq>>8)) // distinct objects
			if uniq > 0xffff {
				payload = append(payload, byte(uniq>>16))
			}
			kind := rng.Pick(int(iplddecoders.KindTransaction), int(iplddecoders.KindEntry), int(iplddecoders.KindRewards), int(iplddecoders.KindDataFrame))
			c := add(kind, vc16Child(kind, payload), b)
			if kind == int(iplddecoders.KindEntry) {
				entries = append(entries, cidlink.Link{Cid: c})
			}
		}
		bn := ipldbindcode.Block{Kind: int(iplddecoders.KindBlock), Slot: slot, Shredding: nil, Entries: entries,
			Meta:    ipldbindcode.SlotMeta{Parent_slot: slot - 1, Blocktime: 1600000000 + slot, Block_height: vc16pp(slot / 2)},
			Rewards: cidlink.Link{Cid: DummyCID}}
		bb, err := bn.MarshalCBOR()
		if err != nil {
			panic("VERIF-HARNESS-BUG: " + err.Error())
		}
		bc := add(int(iplddecoders.KindBlock), bb, b)
		blockLinks = append(blockLinks, cidlink.Link{Cid: bc})
		if sh.subsetsInside && (b%3 == 2) && b != sh.blocks-1 {
			sn := ipldbindcode.Subset{Kind: int(iplddecoders.KindSubset), First: lastSubsetStart, Last: slot, Blocks: blockLinks}
			sb, _ := sn.MarshalCBOR()
			sc := add(int(iplddecoders.KindSubset), sb, -1)
			subsetLinks = append(subsetLinks, cidlink.Link{Cid: sc})
			blockLinks = nil
			lastSubsetStart = slot + 1
		}
	}
	car.nfam = sh.blocks
	for k := 0; k < sh.orphans; k++ {
		uniq++
		add(int(iplddecoders.KindDataFrame), vc16Child(int(iplddecoders.KindDataFrame), append(rng.Bytes(rng.Intn(40)), byte(uniq))), -1)
	}
	sn := ipldbindcode.Subset{Kind: int(iplddecoders.KindSubset), First: lastSubsetStart, Last: slot, Blocks: blockLinks}
	sb, _ := sn.MarshalCBOR()
	sc := add(int(iplddecoders.KindSubset), sb, -1)
	subsetLinks = append(subsetLinks, cidlink.Link{Cid: sc})
	epn := ipldbindcode.Epoch{Kind: int(iplddecoders.KindEpoch), Epoch: epoch, Subsets: subsetLinks}
	epb, _ := epn.MarshalCBOR()
	root := add(int(iplddecoders.KindEpoch), epb, -1)

	var buf bytes.Buffer
	roots := []cid.Cid{root}
	for i := 1; i < sh.rootCount; i++ {
		roots = append(roots, sc) // a longer header
	}
	if err := carv1.WriteHeader(&carv1.CarHeader{Roots: roots, Version: 1}, &buf); err != nil {
		panic("VERIF-HARNESS-BUG: " + err.Error())
	}
	car.header = append([]byte(nil), buf.Bytes()...)
	car.famSizes = make([]int, car.nfam)
	for _, o := range car.objs {
		buf.Write(o.section)
		if o.family >= 0 {
			car.famSizes[o.family] += len(o.section)
		}
	}
	car.bytes = buf.Bytes()
	car.path = filepath.Join(dir, fmt.Sprintf("%s-epoch-%d.car", sh.name, epoch))
	if err := os.WriteFile(car.path, car.bytes, 0o644); err != nil {
		panic("VERIF-HARNESS-BUG: " + err.Error())
	}
	return car
}

// expected written objects (ground truth of the generator): members of block families, file order
func (c *vc16Car) familyObjs() []int {
	var ids []int
	for i, o := range c.objs {
		if o.family >= 0 {
			ids = append(ids, i)
		}
	}
	return ids
}

type vc16Wrap struct { // neither *FileSplitCarReader nor the HTTP reader: no size check applies
	*os.File
	size int64
}

func (w *vc16Wrap) Size() int64 { return w.size }

type vc16Piece struct {
	name        string
	headerSize  uint64
	contentSize uint64
	file        []byte
	ids         []int // object ids found in the exposed content, in order (-1: not an object of the original)
	lens        []int
	clean       bool // the exposed content parses into whole sections
	tailKinds   []int
}

func vc16RunSplit(dir string, carPath string, epoch int, target int64) (err error, panicked string) {
	defer func() {
		if e := recover(); e != nil {
			panicked = fmt.Sprint(e)
		}
	}()
	app := &cli.App{Name: "faithful-cli", Commands: []*cli.Command{newCmd_SplitCar()}, ExitErrHandler: func(*cli.Context, error) {}}
	app.Writer, app.ErrWriter = io.Discard, io.Discard
	err = app.Run([]string{"faithful-cli", "split-car", "--size", fmt.Sprint(target), "--epoch", fmt.Sprint(epoch),
		"--metadata", filepath.Join(dir, "metadata.csv"), "--output-dir", dir, carPath})
	return
}

func vc16ParseSections(b []byte) (secs [][]byte, clean bool) {
	for len(b) > 0 {
		l, n := binary.Uvarint(b)
		if n <= 0 || uint64(len(b)-n) < l {
			return secs, false
		}
		secs = append(secs, b[:n+int(l)])
		b = b[n+int(l):]
	}
	return secs, true
}

func TestVerif_C16Split(t *testing.T) {
	rng := vh.NewRng(vh.Seed() + 77)
	rep := vh.NewReport("C16", "split",
		"generated epoch CARs (blocks with 0..5 children of 1/2/3-byte-varint sections, childless blocks, blocks with exactly 5000, 5001 and 5003 tiny objects, ignored Subset nodes between blocks, "+
			"objects after the last block, 1- and 2-root headers) split by the real split-car command at every boundary target "+
			"(header +- each prefix of family sizes, below the header, one-family targets, unlimited) and with a shrunk link limit; "+
			"one evaluation = one split run compared with the original CAR and the model; non-trivial when >= 2 pieces are written; distinct by (CAR, target)")
	cases := vh.NewCases("cases_c16_split", []string{"YF.C16_Split", "YF.C16_Check"}, "case_split", "check_split")
	base := filepath.Join(vh.OutDir(), "c16split")
	os.RemoveAll(base)
	if err := os.MkdirAll(base, 0o755); err != nil {
		t.Fatal(err)
	}
	oldwd, _ := os.Getwd()
	defer os.Chdir(oldwd)

	rep.Flag("maxLinks_compiled", maxLinks)
	rep.Flag("hdrSize", hdrSize)
	if maxLinks > 1000 {
		rep.Note("maxLinks is %d (the shrinking rewrite of cmd-car-split.go did not apply): the link limit is not reached by these CARs", maxLinks)
	}
	linkBlocks := 2*maxLinks + 5
	if linkBlocks > 60 {
		linkBlocks = 60
	}
	shapes := []vc16Shape{
		{name: "plain", blocks: 9, maxChildren: 4, rootCount: 1},
		{name: "tiny", blocks: 3, maxChildren: 2, rootCount: 1},
		{name: "ignored-inside", blocks: 10, maxChildren: 3, subsetsInside: true, rootCount: 1},
		{name: "orphans", blocks: 6, maxChildren: 3, orphans: 2, rootCount: 2},
		{name: "links", blocks: linkBlocks, noChildren: true, rootCount: 1},
		{name: "bigchild", blocks: 7, maxChildren: 5, bigChild: 16400, rootCount: 1},
		// blocks with thousands of objects of their own (busy slots): exactly 5000, 5001 and 5003 tiny objects between
		// small blocks, so that a family is larger than any fixed-size buffer on the way from the reader to the pieces
		{name: "manyobjects", blocks: 5, maxChildren: 3, rootCount: 1, fixedChildren: []int{2, 5000, 5001, 5003, 1}, fewTargets: true},
	}
	if vh.Thorough() {
		shapes = append(shapes,
			vc16Shape{name: "plain2", blocks: 25, maxChildren: 5, bigChild: 300, rootCount: 1},
			vc16Shape{name: "mixed", blocks: 30, maxChildren: 4, subsetsInside: true, orphans: 1, rootCount: 3},
			vc16Shape{name: "single", blocks: 1, maxChildren: 3, rootCount: 1},
			vc16Shape{name: "manyobjects2", blocks: 6, maxChildren: 3, subsetsInside: true, rootCount: 1,
				fixedChildren: []int{4999, -1, 12001, 0, 5002, 8193}, fewTargets: true})
	}
	knownSeen := 0
	runNo := 0
	for si, sh := range shapes {
		epoch := si + 1
		cdir := filepath.Join(base, sh.name)
		os.MkdirAll(cdir, 0o755)
		car := vc16Build(cdir, sh, rng, epoch)
		famIDs := car.familyObjs()
		var expect []byte // header excluded: sections of all family members in file order
		for _, id := range famIDs {
			expect = append(expect, car.objs[id].section...)
		}
		bySection := map[string][]int{}
		for i, o := range car.objs {
			bySection[string(o.section)] = append(bySection[string(o.section)], i)
		}
		// ---- target sizes ----
		h := int64(hdrSize)
		tset := map[int64]bool{0: true, h: true, 1 << 40: true}
		total := 0
		maxFam := 0
		for _, s := range car.famSizes {
			total += s
			if s > maxFam {
				maxFam = s
			}
		}
		for _, d := range []int64{-1, 0, 1} {
			tset[h+int64(maxFam)+d] = true
			tset[h+int64(total)+d] = true
		}
		// prefix sums from every start (so that boundaries inside later pieces are hit too)
		var bound []int64
		for a := 0; a < len(car.famSizes); a++ {
			acc := 0
			for b := a; b < len(car.famSizes); b++ {
				acc += car.famSizes[b]
				bound = append(bound, h+int64(acc))
			}
		}
		sort.Slice(bound, func(i, j int) bool { return bound[i] < bound[j] })
		quota := 14
		if vh.Thorough() {
			quota = 400
		}
		if sh.name == "tiny" {
			quota = 1000
		}
		if sh.fewTargets {
			// one piece (unlimited, exact total), two pieces (total-1), one family per piece (0, the largest family),
			// the boundaries after each prefix of families
			acc := int64(0)
			for _, s := range car.famSizes {
				acc += int64(s)
				tset[h+acc-1], tset[h+acc] = true, true
			}
		} else if len(bound) <= quota {
			for _, b := range bound {
				tset[b-1], tset[b], tset[b+1] = true, true, true
			}
		} else {
			for k := 0; k < quota; k++ {
				b := bound[rng.Intn(len(bound))]
				tset[b-1], tset[b] = true, true
			}
		}
		if sh.name == "tiny" && vh.Thorough() {
			for x := h - 1; x <= h+int64(total)+1; x++ {
				tset[x] = true
			}
		}
		var targets []int64
		for x := range tset {
			if x >= 0 {
				targets = append(targets, x)
			}
		}
		sort.Slice(targets, func(i, j int) bool { return targets[i] < targets[j] })

		for _, target := range targets {
			runNo++
			rdir := filepath.Join(cdir, fmt.Sprintf("t%d", target))
			os.MkdirAll(rdir, 0o755)
			if err := os.Chdir(rdir); err != nil {
				t.Fatal(err)
			}
			err, pan := vc16RunSplit(rdir, car.path, epoch, target)
			os.Chdir(oldwd)
			replay := map[string]interface{}{"car_shape": fmt.Sprintf("%+v", sh), "seed": vh.Seed(), "family_section_bytes": car.famSizes, "hdrSize": hdrSize,
				"maxLinks": maxLinks, "target": target, "cmd": fmt.Sprintf("faithful-cli split-car --size %d --epoch %d <generated %s CAR>", target, epoch, sh.name)}
			if pan != "" || err != nil {
				rep.Case(fmt.Sprint(sh.name, target), false)
				rep.Fail("split-fails-on-valid-car", fmt.Sprintf("split-car failed: err=%v panic=%s", err, pan), replay)
				os.RemoveAll(rdir)
				continue
			}
			meta, merr := splitcarfetcher.MetadataFromYaml(filepath.Join(rdir, fmt.Sprintf("epoch-%d-metadata.yaml", epoch)))
			if merr != nil || meta.CarPieces == nil {
				rep.Case(fmt.Sprint(sh.name, target), false)
				rep.Fail("metadata-unreadable", fmt.Sprint("metadata yaml written by split-car cannot be read back: ", merr), replay)
				os.RemoveAll(rdir)
				continue
			}
			cp := meta.CarPieces
			// ---- observe the pieces ----
			var pieces []*vc16Piece
			var exposedAll []byte
			used := map[int]bool{}
			for _, cf := range cp.CarPieces {
				p := &vc16Piece{name: cf.Name, headerSize: cf.HeaderSize, contentSize: cf.ContentSize}
				fb, rerr := os.ReadFile(cf.Name)
				if rerr != nil {
					rep.Fail("piece-file-missing", "a piece named in the metadata does not exist: "+cf.Name, replay)
					continue
				}
				p.file = fb
				// the piece's real header length
				hl, n := binary.Uvarint(fb)
				realHdr := uint64(n) + hl
				if n <= 0 || realHdr != cf.HeaderSize {
					rep.Fail("header-size-mismatch", fmt.Sprintf("piece %s: recorded HeaderSize %d, header in the file is %d bytes", filepath.Base(cf.Name), cf.HeaderSize, realHdr), replay)
				}
				end := cf.HeaderSize + cf.ContentSize
				if end > uint64(len(fb)) {
					rep.Fail("content-beyond-file", fmt.Sprintf("piece %s: HeaderSize+ContentSize = %d exceeds the file size %d", filepath.Base(cf.Name), end, len(fb)), replay)
					end = uint64(len(fb))
				}
				exposed := fb[cf.HeaderSize:end]
				exposedAll = append(exposedAll, exposed...)
				secs, clean := vc16ParseSections(exposed)
				p.clean = clean
				if !clean {
					rep.Fail("content-size-not-on-section-boundary", fmt.Sprintf("piece %s: the %d content bytes do not end on a section boundary", filepath.Base(cf.Name), cf.ContentSize), replay)
				}
				for _, s := range secs {
					id := -1
					for _, cand := range bySection[string(s)] {
						if !used[cand] {
							id = cand
							used[cand] = true
							break
						}
					}
					p.ids = append(p.ids, id)
					p.lens = append(p.lens, len(s))
				}
				if !clean { // account for the unparsed remainder
					sum := 0
					for _, l := range p.lens {
						sum += l
					}
					p.ids = append(p.ids, -1)
					p.lens = append(p.lens, len(exposed)-sum)
				}
				// what follows the recorded content
				tail := fb[end:]
				if len(tail) > 0 {
					tsecs, _ := vc16ParseSections(tail)
					for _, ts := range tsecs {
						_, n := binary.Uvarint(ts)
						if len(ts) > n+36+1 {
							p.tailKinds = append(p.tailKinds, int(ts[n+36+1]))
						}
					}
				}
				pieces = append(pieces, p)
			}
			nontrivial := len(pieces) >= 2
			rep.Case(fmt.Sprint(sh.name, "/", target), nontrivial)
			rep.Count(fmt.Sprintf("pieces=%d", vc16Min(len(pieces), 9)))
			rep.Count("shape=" + sh.name)

			// ---- property oracle ----
			// (1) byte-identical, original order
			if !bytes.Equal(exposedAll, expect) {
				rep.Fail("pieces-content-differs-from-original", fmt.Sprintf("concatenated piece contents (%d bytes) differ from the block families' sections of the original (%d bytes)", len(exposedAll), len(expect)), replay)
			}
			// (2) every block with all of its objects in exactly one piece, contiguous, in order
			famPiece := map[int]int{}
			okFam := true
			next := 0
			for pi, p := range pieces {
				for _, id := range p.ids {
					if id < 0 || next >= len(famIDs) || id != famIDs[next] {
						okFam = false
						continue
					}
					next++
					f := car.objs[id].family
					if prev, seen := famPiece[f]; seen && prev != pi {
						okFam = false
						rep.Fail("family-split-across-pieces", fmt.Sprintf("block family %d is spread over pieces %d and %d", f, prev, pi), replay)
					}
					famPiece[f] = pi
				}
			}
			if next != len(famIDs) || len(famPiece) != car.nfam {
				okFam = false
			}
			if !okFam {
				rep.Fail("family-lost-or-reordered", fmt.Sprintf("%d of %d family objects found in order; %d of %d families placed", next, len(famIDs), len(famPiece), car.nfam), replay)
			}
			// (3) sizes recorded in the metadata match the files written
			sizeMismatch := ""
			for _, p := range pieces {
				if p.headerSize+p.contentSize != uint64(len(p.file)) {
					sizeMismatch = fmt.Sprintf("piece %s: HeaderSize %d + ContentSize %d = %d but the file has %d bytes (kinds of the %d uncounted trailing nodes: %v)",
						filepath.Base(p.name), p.headerSize, p.contentSize, p.headerSize+p.contentSize, len(p.file), len(p.tailKinds), p.tailKinds)
					break
				}
			}
			var localErr error
			func() {
				defer func() {
					if e := recover(); e != nil {
						localErr = fmt.Errorf("panic: %v", e)
					}
				}()
				scr, e := splitcarfetcher.NewSplitCarReader(cp, func(cf carlet.CarFile) (splitcarfetcher.ReaderAtCloserSize, error) {
					return splitcarfetcher.NewFileSplitCarReader(cf.Name)
				})
				if e == nil {
					scr.Close()
				}
				localErr = e
			}()
			if sizeMismatch != "" || localErr != nil {
				knownSeen++
				d := sizeMismatch
				if localErr != nil {
					d += fmt.Sprintf("; NewSplitCarReader over the local piece files (FileSplitCarReader) fails: %v", localErr)
				}
				rep.Fail(vc16KnownSig, d, replay)
			}
			// (4) original header in the metadata
			ob, derr := base64.StdEncoding.DecodeString(cp.OriginalCarHeader)
			rebuilt := append(binary.AppendUvarint(nil, uint64(len(ob))), ob...)
			if derr != nil || !bytes.Equal(rebuilt, car.header) || cp.OriginalCarHeaderSize != uint64(len(car.header)) {
				rep.Fail("original-header-mismatch", fmt.Sprintf("metadata header (%d bytes, recorded size %d) is not the original CAR header (%d bytes)", len(rebuilt), cp.OriginalCarHeaderSize, len(car.header)), replay)
			}
			// (5) the split-CAR reader over the pieces = original header ++ family sections
			whole := append(append([]byte(nil), car.header...), expect...)
			func() {
				defer func() {
					if e := recover(); e != nil {
						rep.Fail("reader-panic", fmt.Sprint(e), replay)
					}
				}()
				scr, e := splitcarfetcher.NewSplitCarReader(cp, func(cf carlet.CarFile) (splitcarfetcher.ReaderAtCloserSize, error) {
					f, e := os.Open(cf.Name)
					if e != nil {
						return nil, e
					}
					st, _ := f.Stat()
					return &vc16Wrap{File: f, size: st.Size()}, nil
				})
				if e != nil {
					rep.Fail("reader-rejects-pieces", "NewSplitCarReader (no size check applicable) fails on the written pieces: "+e.Error(), replay)
					return
				}
				defer scr.Close()
				for k := 0; k < 40; k++ {
					off := int64(rng.Intn(len(whole) + 2))
					ln := rng.Intn(len(whole) + 3)
					if k == 0 {
						off, ln = 0, len(whole)
					}
					if k == 1 {
						off, ln = 0, len(whole)+1
					}
					buf := make([]byte, ln)
					n, rerr := scr.ReadAt(buf, off)
					lo, hi := off, off+int64(ln)
					if lo > int64(len(whole)) {
						lo = int64(len(whole))
					}
					if hi > int64(len(whole)) {
						hi = int64(len(whole))
					}
					wantEOF := int(hi-lo) < ln
					if n != int(hi-lo) || !bytes.Equal(buf[:vc16Min(n, ln)], whole[lo:hi]) || (rerr == io.EOF) != wantEOF || (rerr != nil && rerr != io.EOF) {
						rep.Fail("reader-differs-from-original", fmt.Sprintf("SplitCarReader.ReadAt(len %d, off %d) = n %d err %v; original header ++ family sections has %d bytes there", ln, off, n, rerr, hi-lo), replay)
						break
					}
				}
				// when nothing is ignored before the last block the pieces reproduce the original file prefix
				if !sh.subsetsInside && !bytes.HasPrefix(car.bytes, whole) {
					rep.Fail("reader-differs-from-original", "header ++ piece contents is not a prefix of the original CAR", replay)
				}
			}()

			// ---- Coq case ----
			// A CAR with thousands of objects per block costs coqc about 14 s per case (parsing a 260 KB term and expanding
			// 650 000 bytes twice): such runs are judged by the property oracle above only, except for two targets (one piece,
			// one family per piece) of the first such CAR in the thorough tier.
			if sh.fewTargets && !(vh.Thorough() && sh.name == "manyobjects" && (target == 0 || target == 1<<40)) {
				rep.Count("oracle-only(no model case)")
				os.RemoveAll(rdir)
				continue
			}
			objTerms := make([]string, len(car.objs))
			for i, o := range car.objs {
				objTerms[i] = fmt.Sprintf("(%d,%d)", o.kind, len(o.section))
			}
			var pts []string
			for _, p := range pieces {
				runs := make([]string, len(p.ids))
				for i, id := range p.ids {
					n := 999999 // not an object of the original
					if id >= 0 {
						n = id + 1
					}
					runs[i] = fmt.Sprintf("(%d,%d)", n, p.lens[i])
				}
				pts = append(pts, fmt.Sprintf("(%d,%d,[%s])", p.headerSize, p.contentSize, strings.Join(runs, ";")))
			}
			cases.Add(fmt.Sprintf("(%d, [%d;%d], %d, %d, %d, [%s], Some [%s])%%N",
				int(iplddecoders.KindBlock), int(iplddecoders.KindEpoch), int(iplddecoders.KindSubset), hdrSize, target, maxLinks,
				strings.Join(objTerms, ";"), strings.Join(pts, ";")))
			if len(pieces) >= 2 && len(pieces) <= 4 {
				var ps []map[string]interface{}
				for _, p := range pieces {
					ps = append(ps, map[string]interface{}{"file_bytes": len(p.file), "HeaderSize": p.headerSize, "ContentSize": p.contentSize, "objects": len(p.ids), "uncounted_tail_kinds": p.tailKinds})
				}
				rep.Sample(map[string]interface{}{"car": sh.name, "families": car.famSizes, "target": target, "pieces": ps})
			}
			os.RemoveAll(rdir)
		}
		os.Remove(car.path)
	}
	rep.Flag("runs", runNo)
	rep.Flag("runs_where_metadata_sizes_differ_from_files", knownSeen)
	os.RemoveAll(base)
	if err := cases.Write(); err != nil {
		t.Fatal(err)
	}
	rep.CasesWritten(cases)
	if err := rep.Write(); err != nil {
		t.Fatal(err)
	}
}

func vc16Min(a, b int) int {
	if a < b {
		return a
	}
	return b
}
