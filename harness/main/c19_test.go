package main

// Verification harness for C19 (uses fixture_test.go): StreamBlocks / StreamTransactions over slot ranges
// inside and across generated epochs, all filter combinations over a small account universe, address index
// loaded or not; the messages passed to a fake server-stream Send are compared with the generator's truth
// (oracle) and written as Coq cases for the model (YF.C19_Stream).

import (
	"bytes"
	"context"
	"encoding/base64"
	"errors"
	"fmt"
	"os"
	"path/filepath"
	"regexp"
	"runtime"
	"sort"
	"strconv"
	"strings"
	"testing"
	"time"

	old_faithful_grpc "github.com/rpcpool/yellowstone-faithful/old-faithful-proto/old-faithful-grpc"
	"github.com/rpcpool/yellowstone-faithful/zzverif/vh"
	"google.golang.org/grpc"
)

type vc19TxStream struct {
	grpc.ServerStream
	ctx  context.Context
	sent []*old_faithful_grpc.TransactionResponse
	// an ABORTED stream (both 0 = a healthy one): the failAt-th Send and every later one return an error (the
	// client went away); after the cancelAfter-th Send has returned nil the stream context is cancelled
	failAt      int
	cancelAfter int
	cancel      context.CancelFunc
}

var errVc19ClientGone = errors.New("verif: the client of this stream went away")

func (f *vc19TxStream) Context() context.Context { return f.ctx }
func (f *vc19TxStream) Send(r *old_faithful_grpc.TransactionResponse) error {
	f.sent = append(f.sent, r)
	if f.failAt > 0 && len(f.sent) >= f.failAt {
		return errVc19ClientGone
	}
	if f.cancelAfter > 0 && len(f.sent) == f.cancelAfter && f.cancel != nil {
		f.cancel()
	}
	return nil
}

type vc19BlockStream struct {
	grpc.ServerStream
	ctx  context.Context
	sent []*old_faithful_grpc.BlockResponse
}

func (f *vc19BlockStream) Context() context.Context { return f.ctx }
func (f *vc19BlockStream) Send(r *old_faithful_grpc.BlockResponse) error {
	f.sent = append(f.sent, r)
	return nil
}

type vc19Filter struct {
	Vote, Failed               *bool
	Include, Exclude, Required []string
	Nil                        bool
}

func (f vc19Filter) String() string {
	if f.Nil {
		return "nil"
	}
	b := func(p *bool) string {
		if p == nil {
			return "-"
		}
		return fmt.Sprint(*p)
	}
	return fmt.Sprintf("vote=%s failed=%s inc=%d exc=%d req=%d", b(f.Vote), b(f.Failed), len(f.Include), len(f.Exclude), len(f.Required))
}

func vc19Mentions(tx *vfxTx, acc string) bool {
	for _, a := range tx.Accounts {
		if a == acc {
			return true
		}
	}
	for _, a := range tx.Loaded {
		if a == acc {
			return true
		}
	}
	return false
}

// the property's predicate, written independently of the implementation
func vc19Keep(f vc19Filter, tx *vfxTx) bool {
	if f.Nil {
		return true
	}
	if f.Vote != nil && !*f.Vote && tx.Vote {
		return false
	}
	if f.Failed != nil && !*f.Failed && tx.Failed {
		return false
	}
	if len(f.Include) > 0 {
		any := false
		for _, a := range f.Include {
			if vc19Mentions(tx, a) {
				any = true
			}
		}
		if !any {
			return false
		}
	}
	for _, a := range f.Exclude {
		if vc19Mentions(tx, a) {
			return false
		}
	}
	for _, a := range f.Required {
		if !vc19Mentions(tx, a) {
			return false
		}
	}
	return true
}

func TestVerif_C19(t *testing.T) {
	rep := vh.NewReport("C19", "stream",
		"StreamTransactions / StreamBlocks over ranges inside and across two adjacent generated epochs (skipped slots, blocks recording block time 0, vote/non-vote, failed/ok, loaded accounts) and across a second pair of adjacent epochs with identical CAR layout (same byte offsets, same accounts) x filter combinations (vote, failed in {absent,true,false}; include/exclude/required over a 6-account universe incl. an account that only appears as a loaded address) x address index loaded or not; an epoch with two hot accounts (a few thousand transactions each, several per slot: chains of several records in the address index) streamed over windows that start / end at and around every record boundary of either chain and at sampled slots holding several of its transactions; request histories on one server: a stream aborted at every point (k-th Send fails / context cancelled after the k-th Send) followed by healthy streams with the same and other filters over the same, overlapping and disjoint windows, under the default GOMAXPROCS and 1; a case = one stream; non-trivial = at least one archived transaction in the range")
	cases := vh.NewCases("cases_c19", []string{"YF.C19_Stream"}, "case", "check")
	seed := vh.Seed()
	e1 := vfxDefaultSpec("c19e1", 1, seed)
	e1.NumSlots, e1.FirstRel, e1.SkipPercent, e1.Gsfa, e1.Accounts, e1.MaxTx, e1.MultiSig = 26, vfxEpochLen-26, 30, true, 3, 3, true
	e1.ZeroTimes = true // some archived blocks record block time 0 (unknown): they are blocks, not skipped slots
	e2 := vfxDefaultSpec("c19e2", 2, seed+1)
	e2.NumSlots, e2.FirstRel, e2.SkipPercent, e2.Gsfa, e2.Accounts, e2.MaxTx, e2.MultiSig = 24, 0, 30, true, 3, 3, true
	e2.ZeroTimes = true
	specs := []vfxSpec{e1, e2}
	dense := vfxDefaultSpec("c19dense", 4, seed+2) // more than 100 transactions of one account inside one range
	dense.NumSlots, dense.SkipPercent, dense.Gsfa, dense.Accounts, dense.MaxEntries, dense.MaxTx = 40, 0, true, 1, 3, 4
	specs = append(specs, dense)
	noidx := vfxDefaultSpec("c19noidx", 6, seed+3) // transactions without the optional position index
	noidx.NumSlots, noidx.SkipPercent, noidx.Gsfa, noidx.Accounts, noidx.MaxEntries, noidx.MaxTx, noidx.NoTxIndex = 12, 20, true, 3, 4, 5, true
	specs = append(specs, noidx)
	// two ADJACENT epochs with the SAME layout: equal specs and the same layout seed, only the epoch number and
	// the slots differ (the slot-dependent choices of the generator used here depend on slot mod 4 only, and
	// corresponding slots of the two epochs differ by vc19TwinSlots, a multiple of 4). The k-th object of both
	// CAR files has the same size and the same byte offset and the k-th transactions mention the same accounts:
	// whatever the server keys by "position in the CAR" must also be keyed by the epoch.
	tw1 := vfxDefaultSpec("c19tw1", 8, seed+4)
	tw1.NumSlots, tw1.FirstRel, tw1.SkipPercent, tw1.Gsfa, tw1.Accounts, tw1.MaxTx, tw1.MultiSig = vc19TwinSlots, vfxEpochLen-vc19TwinSlots, 25, true, 3, 3, true
	tw1.ZeroTimes = true
	tw1.LayoutSeed = seed*2654435761 + 977
	if tw1.LayoutSeed == 0 {
		tw1.LayoutSeed = 977
	}
	tw2 := tw1
	tw2.Name, tw2.Dir, tw2.Epoch, tw2.FirstRel = "c19tw2", filepath.Join(vh.OutDir(), "fx-c19tw2"), 9, 0
	specs = append(specs, tw1, tw2)
	// an epoch with two HOT accounts: each is mentioned by a few thousand transactions of the epoch, several per
	// slot, so that its chain in the address index consists of several records and record boundaries fall inside
	// slots (measured below, not assumed)
	hot := vfxDefaultSpec("c19hot", 11, seed+6)
	hot.NumSlots, hot.FirstRel, hot.SkipPercent, hot.Gsfa, hot.Accounts, hot.MaxEntries, hot.MaxTx = 420, 1000, 10, true, 2, 4, 9
	specs = append(specs, hot)
	built, berr := vfxBuild(specs)
	// a fixture epoch that cannot be built (or, below, loaded) on the tree under test is left out with a note;
	// the remaining epochs are still streamed
	var truths []*vfxTruth
	byName := map[string]*vfxTruth{}
	var skippedFx []string
	for i, tr := range built {
		switch {
		case tr == nil:
			rep.Note("fixture epoch %s was not built (%v): left out", specs[i].Name, berr)
			skippedFx = append(skippedFx, specs[i].Name)
		case tr.BuildErr != "":
			rep.Note("fixture epoch %s was not built (%s): left out", specs[i].Name, tr.BuildErr)
			skippedFx = append(skippedFx, specs[i].Name)
		default:
			truths = append(truths, tr)
			byName[tr.Spec.Name] = tr
		}
	}
	if len(truths) == 0 {
		t.Fatalf("setup failed: no fixture epoch could be built: %v", berr)
	}
	// account universe -> small numbers for the Coq cases
	accID := map[string]int{}
	id := func(a string) int {
		if v, ok := accID[a]; ok {
			return v
		}
		accID[a] = len(accID) + 1
		return accID[a]
	}
	var universe []string
	for i := 0; i < 3; i++ {
		universe = append(universe, vfxAccount(0, i).String())
	}
	loadedOnly := vfxAccount(1, 0).String()
	universe = append(universe, loadedOnly, vfxAccount(1, 1).String(), vfxAccount(5, 5).String() /* never used */)
	trD, trN, trH := byName["c19dense"], byName["c19noidx"], byName["c19hot"]
	perRecord := vc19ItemsPerRecord(rep)
	hotAccs := []string{universe[0], universe[1]}
	hotInfo := map[string]*vc19Hot{}
	if trH != nil {
		for _, a := range hotAccs {
			hotInfo[a] = vc19HotHistory(trH, a, perRecord)
		}
		rep.Flag("hot_epoch_transactions_per_hot_account", []int{len(hotInfo[hotAccs[0]].hist), len(hotInfo[hotAccs[1]].hist)})
		rep.Flag("hot_epoch_index_record_boundaries", hotInfo[hotAccs[0]].boundaries+hotInfo[hotAccs[1]].boundaries)
		rep.Flag("hot_epoch_index_record_boundaries_inside_a_slot", hotInfo[hotAccs[0]].inside+hotInfo[hotAccs[1]].inside)
		if hotInfo[hotAccs[0]].inside+hotInfo[hotAccs[1]].inside == 0 {
			rep.Note("no record boundary of a hot account falls inside a slot under this seed (%d transactions per index record)", perRecord)
		}
	}
	base2 := e2.Epoch * vfxEpochLen
	baseT := tw2.Epoch * vfxEpochLen
	type rng struct{ lo, hi uint64 }
	ranges := []rng{
		{base2 - 26, base2 - 14}, {base2 - 12, base2 - 1}, {base2 - 6, base2 + 6}, {base2, base2 + 11}, {base2 + 8, base2 + 23},
		{base2 - 3, base2 - 3}, {base2 + 5, base2 + 4},
		{base2 - 200, base2 + 11}, // starts more than the default window (100 slots) before the epoch boundary and ends behind it
	}
	// ranges over the pair of same-layout epochs: across the boundary (symmetric; ending on the first slot of the
	// newer epoch; all of both), and inside either epoch
	firstTwin := len(ranges)
	ranges = append(ranges,
		rng{baseT - 10, baseT + 10}, rng{baseT - 7, baseT}, rng{baseT - vc19TwinSlots, baseT + vc19TwinSlots - 1},
		rng{baseT - 2, baseT + 16}, rng{baseT - 12, baseT - 1}, rng{baseT, baseT + 12})
	// what the fixtures provide (preconditions of the two directions above, measured, not assumed)
	{
		zero, blocks := 0, 0
		for _, tr := range truths {
			for bi := range tr.Blocks {
				blocks++
				if tr.Blocks[bi].Blocktime == 0 {
					zero++
				}
			}
		}
		rep.Flag("archived_blocks", blocks)
		rep.Flag("archived_blocks_with_block_time_0", zero)
		if zero == 0 {
			rep.Note("no generated block records block time 0 under this seed")
		}
		if a, b := byName["c19tw1"], byName["c19tw2"]; a != nil && b != nil {
			isTx := map[string]bool{}
			offA := map[uint64]string{}
			for _, tr := range []*vfxTruth{a, b} {
				for bi := range tr.Blocks {
					for _, tx := range tr.Blocks[bi].Txs {
						isTx[tx.Cid] = true
					}
				}
			}
			for _, o := range a.Objects {
				if isTx[o.Cid] {
					offA[o.Offset] = o.Cid
				}
			}
			same, txB := 0, 0
			for _, o := range b.Objects {
				if isTx[o.Cid] {
					txB++
					if _, ok := offA[o.Offset]; ok {
						same++
					}
				}
			}
			rep.Flag("same_layout_epochs_transactions_at_equal_car_offsets", fmt.Sprintf("%d of %d", same, txB))
			if same == 0 {
				rep.Note("the two same-layout epochs share no transaction offset under this seed")
			}
		}
	}
	T, F := true, false
	flags := []*bool{nil, &T, &F}
	var filters []vc19Filter
	filters = append(filters, vc19Filter{Nil: true})
	incs := [][]string{nil, {universe[0]}, {universe[0], universe[1]}, {loadedOnly}, {universe[5]}}
	excs := [][]string{nil, {universe[1]}}
	reqs := [][]string{nil, {universe[0]}, {universe[2], loadedOnly}}
	for _, v := range flags {
		for _, fl := range flags {
			for _, in := range incs {
				for _, ex := range excs {
					for _, rq := range reqs {
						filters = append(filters, vc19Filter{Vote: v, Failed: fl, Include: in, Exclude: ex, Required: rq})
					}
				}
			}
		}
	}
	rnd := vh.NewRng(seed + 5)
	coqTx := func(tx *vfxTx, num int) string {
		var st, ld []string
		for _, a := range tx.Accounts {
			st = append(st, fmt.Sprint(id(a)))
		}
		for _, a := range tx.Loaded {
			ld = append(ld, fmt.Sprint(id(a)))
		}
		l := func(x []string) string {
			if len(x) == 0 {
				return "[]"
			}
			return "[" + strings.Join(x, "; ") + "]%N"
		}
		return fmt.Sprintf("Build_tx %d%%N %d%%N %s %s %s %s %d%%N", tx.Slot, tx.Pos, vh.CoqBool(tx.Vote), vh.CoqBool(tx.Failed), l(st), l(ld), num)
	}
	coqAccs := func(x []string) string {
		if len(x) == 0 {
			return "[]"
		}
		var o []string
		for _, a := range x {
			o = append(o, fmt.Sprint(id(a)))
		}
		return "[" + strings.Join(o, "; ") + "]%N"
	}
	coqOptB := func(p *bool) string {
		if p == nil {
			return "None"
		}
		return "(Some " + vh.CoqBool(*p) + ")"
	}
	for _, withIndex := range []bool{true, false} {
		var use []*vfxTruth
		var eps []*Epoch
		multi := NewMultiEpoch(&Options{EpochSearchConcurrency: 2})
		cache := vfxNewCache()
		loaded := map[string]bool{}
		for _, tr := range truths {
			c := *tr
			if !withIndex {
				c.GsfaDir = ""
				c.ConfigYml = filepath.Join(tr.Spec.Dir, "epoch-noindex.yml")
				_ = os.WriteFile(c.ConfigYml, []byte(vfxConfigYaml(&c, c.CarPath)), 0o644)
			}
			ep, err := vfxLoad(&c, cache)
			if err == nil {
				if err = multi.AddEpoch(c.Spec.Epoch, ep); err != nil {
					ep.Close()
				}
			}
			if err != nil {
				rep.Note("index=%v: fixture epoch %s could not be loaded (%v): left out", withIndex, tr.Spec.Name, err)
				skippedFx = append(skippedFx, fmt.Sprintf("%s(index=%v)", tr.Spec.Name, withIndex))
				continue
			}
			eps = append(eps, ep)
			use = append(use, tr)
			loaded[tr.Spec.Name] = true
		}
		if len(use) == 0 {
			t.Fatalf("setup failed: index=%v: no fixture epoch could be loaded", withIndex)
		}
		tag := fmt.Sprintf("index=%v", withIndex)
		archived := func(lo, hi uint64) []*vfxTx {
			var out []*vfxTx
			for _, tr := range use {
				for bi := range tr.Blocks {
					b := &tr.Blocks[bi]
					if b.Slot >= lo && b.Slot <= hi {
						s := b.sortedTxs()
						for i := range s {
							out = append(out, &s[i])
						}
					}
				}
			}
			sort.SliceStable(out, func(i, j int) bool {
				if out[i].Slot != out[j].Slot {
					return out[i].Slot < out[j].Slot
				}
				return out[i].Pos < out[j].Pos
			})
			return out
		}
		var runTxSig func(lo, hi uint64, f vc19Filter, addCase bool, sigDiff, label string)
		runTx := func(lo, hi uint64, f vc19Filter, addCase bool) { runTxSig(lo, hi, f, addCase, "", "") }
		// sigDiff: the failure signature of a difference ("" = the general ones); label: what came before this
		// stream on the same server ("" = nothing that matters), part of the case key and of the replay
		runTxSig = func(lo, hi uint64, f vc19Filter, addCase bool, sigDiff, label string) {
			arch := archived(lo, hi)
			byBytes := map[string]int{}
			for i, tx := range arch {
				byBytes[tx.TxB64] = i + 1
			}
			req := &old_faithful_grpc.StreamTransactionsRequest{StartSlot: lo, EndSlot: &hi}
			if !f.Nil {
				req.Filter = &old_faithful_grpc.StreamTransactionsFilter{Vote: f.Vote, Failed: f.Failed, AccountInclude: f.Include, AccountExclude: f.Exclude, AccountRequired: f.Required}
			}
			st := &vc19TxStream{ctx: context.Background()}
			replay := map[string]interface{}{"specs": specs, "start": lo, "end": hi, "filter": f.String(), "filter_detail": f, "index_loaded": withIndex}
			if label != "" {
				replay["earlier_on_this_server"] = label
				replay["gomaxprocs"] = runtime.GOMAXPROCS(0)
			}
			var serr error
			panicked := false
			func() {
				defer func() {
					if r := recover(); r != nil {
						panicked = true
						rep.Fail("stream-panic", fmt.Sprintf("%s StreamTransactions[%d,%d] filter{%s}: %v", tag, lo, hi, f, r), replay)
					}
				}()
				serr = multi.StreamTransactions(req, st)
			}()
			if panicked {
				return
			}
			key := fmt.Sprintf("%s/tx/%d-%d/%s/%v%v%v%s", tag, lo, hi, f, f.Include, f.Exclude, f.Required, label)
			rep.Case(key, len(arch) > 0)
			rep.Count("StreamTransactions " + tag)
			if serr != nil && strings.Contains(serr.Error(), "no position index") {
				// the ordered buffer of the index-accelerated path needs the OPTIONAL position index of the archive format
				rep.Fail("indexed-stream-needs-position-index", fmt.Sprintf("%s StreamTransactions[%d,%d] filter{%s}: %v", tag, lo, hi, f, serr), replay)
				return
			}
			if serr != nil {
				rep.Fail("stream-error", fmt.Sprintf("%s StreamTransactions[%d,%d] filter{%s}: %v", tag, lo, hi, f, serr), replay)
				return
			}
			var want []int
			for i, tx := range arch {
				if vc19Keep(f, tx) {
					want = append(want, i+1)
				}
			}
			var got []int
			unknown := 0
			for _, m := range st.sent {
				if m.Transaction == nil || len(m.Transaction.Transaction) == 0 {
					continue // placeholder "nothing matched" message: not a transaction
				}
				n, ok := byBytes[base64.StdEncoding.EncodeToString(m.Transaction.Transaction)]
				if !ok {
					unknown++
					continue
				}
				got = append(got, n)
				tx := arch[n-1]
				wantMeta, _ := base64.StdEncoding.DecodeString(tx.MetaB64)
				if !bytes.Equal(m.Transaction.Meta, wantMeta) {
					rep.Fail("streamed-metadata-differs", fmt.Sprintf("%s slot %d pos %d", tag, tx.Slot, tx.Pos), replay)
				}
			}
			if unknown > 0 {
				rep.Fail("streamed-transaction-outside-range", fmt.Sprintf("%s [%d,%d] filter{%s}: %d streamed transactions are not archived in the range", tag, lo, hi, f, unknown), replay)
			}
			if fmt.Sprint(got) != fmt.Sprint(want) {
				sig := "stream-differs-from-filtered-archive"
				missing, extra := vc19Diff(want, got)
				if len(extra) == 0 && len(missing) > 0 && len(want) > 100 && withIndex && !f.Nil && len(f.Include) > 0 {
					sig = "stream-misses-transactions-beyond-100-per-account"
				}
				if sigDiff != "" {
					sig = sigDiff
				}
				after := ""
				if label != "" {
					after = " after {" + label + "}"
				}
				rep.Fail(sig, fmt.Sprintf("%s StreamTransactions[%d,%d] filter{%s} inc=%v exc=%v req=%v%s: streamed %d, expected %d (missing %v, unexpected %v) of %d archived",
					tag, lo, hi, f, coqAccs(f.Include), coqAccs(f.Exclude), coqAccs(f.Required), after, len(got), len(want), vc19Head(missing), vc19Head(extra), len(arch)), replay)
			}
			if addCase && len(arch) <= 60 {
				var txs []string
				for i, tx := range arch {
					txs = append(txs, coqTx(tx, i+1))
				}
				flt := "None"
				if !f.Nil {
					flt = fmt.Sprintf("(Some (Build_flt %s %s %s %s %s))", coqOptB(f.Vote), coqOptB(f.Failed), coqAccs(f.Include), coqAccs(f.Exclude), coqAccs(f.Required))
				}
				var obs []string
				for _, g := range got {
					obs = append(obs, fmt.Sprint(g))
				}
				o := "[]"
				if len(obs) > 0 {
					o = "[" + strings.Join(obs, "; ") + "]%N"
				}
				cases.Add(fmt.Sprintf("CTxs %s %s %s", vh.CoqList(txs), flt, o))
			}
			if len(rep.Samples) < 4 && len(arch) > 3 && len(want) > 0 && len(want) < len(arch) {
				rep.Sample(map[string]interface{}{"index_loaded": withIndex, "start": lo, "end": hi, "filter": f.String(), "archived": len(arch), "streamed": len(got)})
			}
		}
		// full filter product on one cross-epoch range, a random sample of filters on the others
		// on the ranges over the same-layout pair: every account filter combination with an include list (the
		// index-accelerated path), vote/failed absent, and the same random sample of the rest
		for ri, r := range ranges {
			for fi, f := range filters {
				twinPick := ri >= firstTwin && !f.Nil && len(f.Include) > 0 && f.Vote == nil && f.Failed == nil
				if ri == 2 || fi == 0 || rnd.Intn(len(filters)) < 14 || twinPick || vh.Thorough() {
					if ri >= firstTwin {
						rep.Count("StreamTransactions over the same-layout pair " + tag)
					}
					runTx(r.lo, r.hi, f, ri == 2 || rnd.Intn(3) == 0)
				}
			}
		}
		// the dense epoch: more than 100 matching transactions for one included account
		if trD != nil && loaded["c19dense"] {
			dLo, dHi := trD.base(), trD.base()+39
			dAcc := vfxAccount(0, 0).String()
			runTx(dLo, dHi, vc19Filter{Include: []string{dAcc}}, false)
			runTx(dLo, dHi, vc19Filter{Nil: true}, false)
		}
		// the epoch whose transactions carry no position index: the order is the order of the block
		if trN != nil && loaded["c19noidx"] {
			nLo, nHi := trN.base(), trN.base()+uint64(trN.Spec.NumSlots)
			runTx(nLo, nHi, vc19Filter{Nil: true}, false)
			runTx(nLo, nHi, vc19Filter{Vote: &F}, false)
			runTx(nLo, nHi, vc19Filter{Include: []string{universe[0]}}, false)
			runTx(nLo, nHi, vc19Filter{Failed: &F, Include: []string{universe[1], universe[0]}, Exclude: []string{universe[2]}}, false)
		}
		// ---- StreamBlocks
		for _, r := range ranges {
			for _, inc := range [][]string{nil, {universe[0]}, {loadedOnly}, {universe[5]}, {universe[1], universe[2]}} {
				req := &old_faithful_grpc.StreamBlocksRequest{StartSlot: r.lo, EndSlot: &r.hi}
				if inc != nil {
					req.Filter = &old_faithful_grpc.StreamBlocksFilter{AccountInclude: inc}
				}
				st := &vc19BlockStream{ctx: context.Background()}
				replay := map[string]interface{}{"specs": specs, "start": r.lo, "end": r.hi, "include": inc, "index_loaded": withIndex}
				var serr error
				panicked := false
				func() {
					defer func() {
						if rr := recover(); rr != nil {
							panicked = true
							rep.Fail("stream-panic", fmt.Sprintf("%s StreamBlocks[%d,%d]: %v", tag, r.lo, r.hi, rr), replay)
						}
					}()
					serr = multi.StreamBlocks(req, st)
				}()
				if panicked {
					continue
				}
				rep.Case(fmt.Sprintf("%s/blocks/%d-%d/%v", tag, r.lo, r.hi, inc), true)
				rep.Count("StreamBlocks " + tag)
				if serr != nil {
					rep.Fail("stream-error", fmt.Sprintf("%s StreamBlocks[%d,%d]: %v", tag, r.lo, r.hi, serr), replay)
					continue
				}
				var want, got []uint64
				var coqBlocks []string
				n := 0
				for _, tr := range use {
					for bi := range tr.Blocks {
						b := &tr.Blocks[bi]
						if b.Slot < r.lo || b.Slot > r.hi {
							continue
						}
						s := b.sortedTxs()
						var txs []string
						keepB := len(inc) == 0
						for i := range s {
							n++
							txs = append(txs, coqTx(&s[i], n))
							for _, a := range inc {
								if vc19Mentions(&s[i], a) {
									keepB = true
								}
							}
						}
						coqBlocks = append(coqBlocks, fmt.Sprintf("(%d%%N, %s)", b.Slot, vh.CoqList(txs)))
						if keepB {
							want = append(want, b.Slot)
						}
					}
				}
				for _, m := range st.sent {
					got = append(got, m.Slot)
				}
				if fmt.Sprint(got) != fmt.Sprint(want) {
					rep.Fail("blocks-differ-from-filtered-archive", fmt.Sprintf("%s StreamBlocks[%d,%d] include=%v: streamed slots %v, expected %v", tag, r.lo, r.hi, coqAccs(inc), got, want), replay)
				}
				var obs []string
				for _, g := range got {
					obs = append(obs, fmt.Sprint(g))
				}
				o := "[]"
				if len(obs) > 0 {
					o = "[" + strings.Join(obs, "; ") + "]%N"
				}
				if withIndex {
					cases.Add(fmt.Sprintf("CBlocks %s %s %s", vh.CoqList(coqBlocks), coqAccs(inc), o))
				}
			}
		}
		// ---- the hot epoch: windows that start / end at and around every record boundary of a hot account's
		// chain in the address index (positions per*k +-2 of its history, counted from the oldest and from the
		// newest transaction) and at sampled slots that hold several of its transactions; the account alone,
		// with flags / an exclude list, and together with the other hot account and a loaded-only account
		if trH != nil && loaded["c19hot"] {
			const hotSig = "hot-account-stream-differs-from-filtered-archive"
			first, last := trH.Blocks[0].Slot, trH.Blocks[len(trH.Blocks)-1].Slot
			hrnd := vh.NewRng(seed + 7)
			run := func(lo, hi uint64, f vc19Filter) {
				if lo < first-1 {
					lo = first - 1
				}
				if hi > last+1 {
					hi = last + 1
				}
				rep.Count("StreamTransactions on the hot epoch " + tag)
				runTxSig(lo, hi, f, hi-lo <= 1 && hrnd.Intn(8) == 0, hotSig, "")
			}
			for ai, a := range hotAccs {
				h := hotInfo[a]
				other := hotAccs[1-ai]
				alone := vc19Filter{Include: []string{a}}
				for _, s := range h.boundarySlots {
					run(s, s, alone)
					run(s, s+2, alone)
					run(s-2, s, alone)
					if withIndex || hrnd.Intn(4) == 0 || vh.Thorough() { // long scans without the index: a sample
						run(s, last, alone)
						run(first, s, alone)
					}
					run(s, s, vc19Filter{Include: []string{a}, Failed: &F})
					run(s, s+1, vc19Filter{Include: []string{a}, Exclude: []string{other}})
					run(s, s+1, vc19Filter{Include: []string{a, other}})
					run(s-1, s, vc19Filter{Include: []string{other, a}, Vote: &F})
					run(s, s+3, vc19Filter{Include: []string{a, loadedOnly}})
					run(s, s, vc19Filter{Include: []string{loadedOnly, a}, Required: []string{other}})
				}
				ms := append([]uint64(nil), h.multiSlots...)
				if !vh.Thorough() && len(ms) > 16 {
					for i := len(ms) - 1; i > 0; i-- {
						j := hrnd.Intn(i + 1)
						ms[i], ms[j] = ms[j], ms[i]
					}
					ms = ms[:16]
				}
				for _, s := range ms {
					run(s, s, alone)
					run(s, s+4, vc19Filter{Include: []string{a, other}})
				}
			}
		}
		// ---- request HISTORIES on this server: a stream that is aborted at every possible point (the k-th Send
		// fails, or the stream context is cancelled after the k-th Send, k = 1 .. number of answers + 1) followed
		// by healthy streams (same and other filters; the same, an overlapping, a disjoint window; with and
		// without an include list). What was passed to Send by the aborted stream must be archived transactions
		// of the range that satisfy its filter, in ascending order; every later stream must be exactly the
		// filtered archive, as if nothing had happened before. Once with the default GOMAXPROCS and once with 1
		// (objects kept per P).
		{
			runAborted := func(lo, hi uint64, f vc19Filter, failAt, cancelAfter int, label string) {
				arch := archived(lo, hi)
				byBytes := map[string]int{}
				for i, tx := range arch {
					byBytes[tx.TxB64] = i + 1
				}
				wantSet := map[int]bool{}
				var want []int
				for i, tx := range arch {
					if vc19Keep(f, tx) {
						want = append(want, i+1)
						wantSet[i+1] = true
					}
				}
				req := &old_faithful_grpc.StreamTransactionsRequest{StartSlot: lo, EndSlot: &hi}
				if !f.Nil {
					req.Filter = &old_faithful_grpc.StreamTransactionsFilter{Vote: f.Vote, Failed: f.Failed, AccountInclude: f.Include, AccountExclude: f.Exclude, AccountRequired: f.Required}
				}
				ctx, cancel := context.WithCancel(context.Background())
				defer cancel()
				st := &vc19TxStream{ctx: ctx, failAt: failAt, cancelAfter: cancelAfter, cancel: cancel}
				replay := map[string]interface{}{"specs": specs, "start": lo, "end": hi, "filter": f.String(), "filter_detail": f, "index_loaded": withIndex,
					"aborted": label, "gomaxprocs": runtime.GOMAXPROCS(0)}
				var serr error
				panicked := false
				func() {
					defer func() {
						if r := recover(); r != nil {
							panicked = true
							rep.Fail("stream-panic", fmt.Sprintf("%s StreamTransactions[%d,%d] filter{%s} %s: %v", tag, lo, hi, f, label, r), replay)
						}
					}()
					serr = multi.StreamTransactions(req, st)
				}()
				if panicked {
					return
				}
				rep.Case(fmt.Sprintf("%s/tx-aborted/%d-%d/%s/%v%v%v/%s", tag, lo, hi, f, f.Include, f.Exclude, f.Required, label), len(arch) > 0)
				rep.Count("StreamTransactions aborted " + tag)
				triggered := (failAt > 0 && len(st.sent) >= failAt) || (cancelAfter > 0 && len(st.sent) >= cancelAfter)
				var got []int
				bad := 0
				prev := 0
				for _, m := range st.sent {
					if m.Transaction == nil || len(m.Transaction.Transaction) == 0 {
						continue
					}
					n, ok := byBytes[base64.StdEncoding.EncodeToString(m.Transaction.Transaction)]
					if !ok || !wantSet[n] || n <= prev {
						bad++
						continue
					}
					prev = n
					got = append(got, n)
				}
				if bad > 0 {
					rep.Fail("aborted-stream-sent-unexpected-transaction", fmt.Sprintf("%s StreamTransactions[%d,%d] filter{%s} %s: %d of the %d messages passed to Send are not archived transactions of the range satisfying the filter in ascending order",
						tag, lo, hi, f, label, bad, len(st.sent)), replay)
				}
				if !triggered {
					// the abort point lies behind the last message: a complete stream
					if serr != nil && !strings.Contains(serr.Error(), "no position index") {
						rep.Fail("stream-error", fmt.Sprintf("%s StreamTransactions[%d,%d] filter{%s}: %v", tag, lo, hi, f, serr), replay)
					} else if serr == nil && fmt.Sprint(got) != fmt.Sprint(want) {
						missing, extra := vc19Diff(want, got)
						rep.Fail("stream-differs-from-filtered-archive", fmt.Sprintf("%s StreamTransactions[%d,%d] filter{%s}: streamed %d, expected %d (missing %v, unexpected %v)", tag, lo, hi, f, len(got), len(want), vc19Head(missing), vc19Head(extra)), replay)
					}
					return
				}
				rep.Count("aborted streams that had passed some but not all answers to Send " + tag + fmt.Sprintf(": %v", len(got) > 0 && len(got) < len(want)))
				if len(got) > len(want) || fmt.Sprint(got) != fmt.Sprint(want[:len(got)]) {
					// not demanded by the property text (an aborted stream promises nothing about completeness): recorded only
					rep.Count("aborted streams whose messages are not a prefix of the answer " + tag)
				}
			}
			type win struct{ lo, hi uint64 }
			var wins []win
			if loaded["c19e1"] && loaded["c19e2"] {
				wins = append(wins, win{base2 - 6, base2 + 6})
			}
			if loaded["c19tw1"] && loaded["c19tw2"] {
				wins = append(wins, win{baseT - 5, baseT + 4})
			}
			if trD != nil && loaded["c19dense"] {
				wins = append(wins, win{trD.base() + 3, trD.base() + 5})
			}
			if trH != nil && loaded["c19hot"] {
				if bs := hotInfo[hotAccs[0]].boundarySlots; len(bs) > 0 {
					wins = append(wins, win{bs[len(bs)/2], bs[len(bs)/2] + 1})
				}
			}
			firsts := []vc19Filter{{Include: []string{universe[0]}}, {Include: []string{universe[1], universe[0]}, Failed: &F}, {Vote: &F}, {Nil: true}}
			hrnd := vh.NewRng(seed + 8)
			for _, procs := range []int{0, 1} {
				func() {
					if procs > 0 {
						old := runtime.GOMAXPROCS(procs)
						defer runtime.GOMAXPROCS(old)
					}
					for _, w := range wins {
						for _, f1 := range firsts {
							n := 0
							for _, tx := range archived(w.lo, w.hi) {
								if vc19Keep(f1, tx) {
									n++
								}
							}
							maxK := n + 1
							ks := make([]int, 0, maxK)
							for k := 1; k <= maxK; k++ {
								ks = append(ks, k)
							}
							if !vh.Thorough() && len(ks) > 10 { // every abort point when there are few, else the first 4, the last 3 and 3 between
								pick := append([]int{}, ks[:4]...)
								for i := 0; i < 3; i++ {
									pick = append(pick, ks[4+hrnd.Intn(len(ks)-7)])
								}
								ks = append(pick, ks[len(ks)-3:]...)
							}
							for _, k := range ks {
								for mode := 0; mode < 2; mode++ {
									label := fmt.Sprintf("[%d,%d] filter{%s} inc=%v aborted: Send #%d fails", w.lo, w.hi, f1, coqAccs(f1.Include), k)
									failAt, cancelAfter := k, 0
									if mode == 1 {
										label = fmt.Sprintf("[%d,%d] filter{%s} inc=%v aborted: stream context cancelled after Send #%d", w.lo, w.hi, f1, coqAccs(f1.Include), k)
										failAt, cancelAfter = 0, k
									}
									runAborted(w.lo, w.hi, f1, failAt, cancelAfter, label)
									const sig = "stream-after-aborted-stream-differs-from-filtered-archive"
									c := func() bool { return hrnd.Intn(24) == 0 }
									rep.CountN("StreamTransactions after an aborted stream "+tag, 6)
									runTxSig(w.lo, w.hi, vc19Filter{Include: []string{universe[1]}}, c(), sig, label)
									runTxSig(w.lo, w.hi, vc19Filter{Include: []string{universe[2], loadedOnly}, Exclude: []string{universe[0]}}, c(), sig, label)
									runTxSig(w.lo, w.hi, f1, c(), sig, label)
									runTxSig(w.lo+2, w.hi+3, vc19Filter{Include: []string{loadedOnly, universe[1]}, Vote: &F}, c(), sig, label)
									runTxSig(w.hi+1, w.hi+8, vc19Filter{Include: []string{universe[0]}}, c(), sig, label)
									runTxSig(w.lo, w.hi, vc19Filter{Nil: true}, c(), sig, label)
								}
							}
						}
					}
				}()
			}
		}
		for _, e := range eps {
			e.Close()
		}
	}
	_ = time.Second
	if len(skippedFx) > 0 {
		rep.Flag("fixture_epochs_left_out", skippedFx)
	}
	if err := cases.Write(); err != nil {
		t.Fatal(err)
	}
	rep.CasesWritten(cases)
	if err := rep.Write(); err != nil {
		t.Fatal(err)
	}
}

// candidate slots of each of the two same-layout epochs (a multiple of 4, see the specs)
const vc19TwinSlots = 24

func vc19Diff(want, got []int) (missing, extra []int) {
	w := map[int]bool{}
	g := map[int]bool{}
	for _, x := range want {
		w[x] = true
	}
	for _, x := range got {
		g[x] = true
	}
	for _, x := range want {
		if !g[x] {
			missing = append(missing, x)
		}
	}
	for _, x := range got {
		if !w[x] {
			extra = append(extra, x)
		}
	}
	return
}

func vc19Head(x []int) []int {
	if len(x) > 8 {
		return x[:8]
	}
	return x
}

// ---------------------------------------------------------------- hot accounts

// vc19ItemsPerRecord reads the number of transactions the address-index writer puts into one record of an
// account's chain from the source of the tree under test (it is an unexported constant of another package);
// when it cannot be read the value of the pinned tree is used, with a note.
func vc19ItemsPerRecord(rep *vh.Report) int {
	const pinned = 1000
	src, err := os.ReadFile(filepath.Join(vfxRepoRoot(), "gsfa", "gsfa-write.go"))
	if err == nil {
		if m := regexp.MustCompile(`(?m)^\s*(?:const\s+)?itemsPerBatch\s*=\s*([0-9_]+)\s*$`).FindSubmatch(src); m != nil {
			if v, err := strconv.Atoi(strings.ReplaceAll(string(m[1]), "_", "")); err == nil && v > 0 {
				rep.Flag("address_index_transactions_per_record", v)
				return v
			}
		}
	}
	rep.Note("itemsPerBatch not found in gsfa/gsfa-write.go: record boundaries computed for %d transactions per record", pinned)
	return pinned
}

type vc19Hot struct {
	hist          []uint64 // slot of every transaction of the epoch that mentions the account, ascending
	boundaries    int      // record boundaries of its chain (counted from the oldest transaction)
	inside        int      // ... of which between two transactions of the same slot
	boundarySlots []uint64 // slots within +-1 of the transactions at positions per*k-2 .. per*k+1, counted from either end
	multiSlots    []uint64 // slots that hold at least two transactions of the account
}

func vc19HotHistory(tr *vfxTruth, acc string, per int) *vc19Hot {
	h := &vc19Hot{}
	perSlot := map[uint64]int{}
	for bi := range tr.Blocks {
		b := &tr.Blocks[bi]
		for ti := range b.Txs {
			if vc19Mentions(&b.Txs[ti], acc) {
				h.hist = append(h.hist, b.Slot)
				perSlot[b.Slot]++
			}
		}
	}
	sort.Slice(h.hist, func(i, j int) bool { return h.hist[i] < h.hist[j] })
	set := map[uint64]bool{}
	add := func(p int) {
		if p < 0 || p >= len(h.hist) {
			return
		}
		for d := uint64(0); d < 3; d++ {
			set[h.hist[p]+d-1] = true
		}
	}
	for k := 1; k*per < len(h.hist); k++ {
		h.boundaries++
		if h.hist[k*per-1] == h.hist[k*per] {
			h.inside++
		}
		for d := -2; d <= 1; d++ {
			add(k*per + d)
			add(len(h.hist) - k*per + d)
		}
	}
	for s := range set {
		h.boundarySlots = append(h.boundarySlots, s)
	}
	sort.Slice(h.boundarySlots, func(i, j int) bool { return h.boundarySlots[i] < h.boundarySlots[j] })
	for s, n := range perSlot {
		if n >= 2 {
			h.multiSlots = append(h.multiSlots, s)
		}
	}
	sort.Slice(h.multiSlots, func(i, j int) bool { return h.multiSlots[i] < h.multiSlots[j] })
	return h
}
