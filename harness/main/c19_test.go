package main

// Verification harness for C19 (uses fixture_test.go): StreamBlocks / StreamTransactions over slot ranges
// inside and across generated epochs, all filter combinations over a small account universe, address index
// loaded or not; the messages passed to a fake server-stream Send are compared with the generator's truth
// (oracle) and written as Coq cases for the model (YF.C19_Stream).

import (
	"bytes"
	"context"
	"encoding/base64"
	"fmt"
	"os"
	"path/filepath"
	"sort"
	"strings"
	"testing"
	"time"

	old_faithful_grpc "github.com/rpcpool/yellowstone-faithful/old-faithful-proto/old-faithful-grpc"
	"github.com/rpcpool/yellowstone-faithful/zzverif/vh"
	"google.golang.org/grpc"
)

type vc19TxStream struct {
	grpc.ServerStream
	ctx  context.Context
	sent []*old_faithful_grpc.TransactionResponse
}

func (f *vc19TxStream) Context() context.Context { return f.ctx }
func (f *vc19TxStream) Send(r *old_faithful_grpc.TransactionResponse) error {
	f.sent = append(f.sent, r)
	return nil
}

type vc19BlockStream struct {
	grpc.ServerStream
	ctx  context.Context
	sent []*old_faithful_grpc.BlockResponse
}

func (f *vc19BlockStream) Context() context.Context { return f.ctx }
func (f *vc19BlockStream) Send(r *old_faithful_grpc.BlockResponse) error {
	f.sent = append(f.sent, r)
	return nil
}

type vc19Filter struct {
	Vote, Failed               *bool
	Include, Exclude, Required []string
	Nil                        bool
}

func (f vc19Filter) String() string {
	if f.Nil {
		return "nil"
	}
	b := func(p *bool) string {
		if p == nil {
			return "-"
		}
		return fmt.Sprint(*p)
	}
	return fmt.Sprintf("vote=%s failed=%s inc=%d exc=%d req=%d", b(f.Vote), b(f.Failed), len(f.Include), len(f.Exclude), len(f.Required))
}

func vc19Mentions(tx *vfxTx, acc string) bool {
	for _, a := range tx.Accounts {
		if a == acc {
			return true
		}
	}
	for _, a := range tx.Loaded {
		if a == acc {
			return true
		}
	}
	return false
}

// the property's predicate, written independently of the implementation
func vc19Keep(f vc19Filter, tx *vfxTx) bool {
	if f.Nil {
		return true
	}
	if f.Vote != nil && !*f.Vote && tx.Vote {
		return false
	}
	if f.Failed != nil && !*f.Failed && tx.Failed {
		return false
	}
	if len(f.Include) > 0 {
		any := false
		for _, a := range f.Include {
			if vc19Mentions(tx, a) {
				any = true
			}
		}
		if !any {
			return false
		}
	}
	for _, a := range f.Exclude {
		if vc19Mentions(tx, a) {
			return false
		}
	}
	for _, a := range f.Required {
		if !vc19Mentions(tx, a) {
			return false
		}
	}
	return true
}

func TestVerif_C19(t *testing.T) {
	rep := vh.NewReport("C19", "stream",
		"StreamTransactions / StreamBlocks over ranges inside and across two adjacent generated epochs (skipped slots, blocks recording block time 0, vote/non-vote, failed/ok, loaded accounts) and across a second pair of adjacent epochs with identical CAR layout (same byte offsets, same accounts) x filter combinations (vote, failed in {absent,true,false}; include/exclude/required over a 6-account universe incl. an account that only appears as a loaded address) x address index loaded or not; a case = one stream; non-trivial = at least one archived transaction in the range")
	cases := vh.NewCases("cases_c19", []string{"YF.C19_Stream"}, "case", "check")
	seed := vh.Seed()
	e1 := vfxDefaultSpec("c19e1", 1, seed)
	e1.NumSlots, e1.FirstRel, e1.SkipPercent, e1.Gsfa, e1.Accounts, e1.MaxTx, e1.MultiSig = 26, vfxEpochLen-26, 30, true, 3, 3, true
	e1.ZeroTimes = true // some archived blocks record block time 0 (unknown): they are blocks, not skipped slots
	e2 := vfxDefaultSpec("c19e2", 2, seed+1)
	e2.NumSlots, e2.FirstRel, e2.SkipPercent, e2.Gsfa, e2.Accounts, e2.MaxTx, e2.MultiSig = 24, 0, 30, true, 3, 3, true
	e2.ZeroTimes = true
	specs := []vfxSpec{e1, e2}
	dense := vfxDefaultSpec("c19dense", 4, seed+2) // more than 100 transactions of one account inside one range
	dense.NumSlots, dense.SkipPercent, dense.Gsfa, dense.Accounts, dense.MaxEntries, dense.MaxTx = 40, 0, true, 1, 3, 4
	specs = append(specs, dense)
	noidx := vfxDefaultSpec("c19noidx", 6, seed+3) // transactions without the optional position index
	noidx.NumSlots, noidx.SkipPercent, noidx.Gsfa, noidx.Accounts, noidx.MaxEntries, noidx.MaxTx, noidx.NoTxIndex = 12, 20, true, 3, 4, 5, true
	specs = append(specs, noidx)
	// two ADJACENT epochs with the SAME layout: equal specs and the same layout seed, only the epoch number and
	// the slots differ (the slot-dependent choices of the generator used here depend on slot mod 4 only, and
	// corresponding slots of the two epochs differ by vc19TwinSlots, a multiple of 4). The k-th object of both
	// CAR files has the same size and the same byte offset and the k-th transactions mention the same accounts:
	// whatever the server keys by "position in the CAR" must also be keyed by the epoch.
	tw1 := vfxDefaultSpec("c19tw1", 8, seed+4)
	tw1.NumSlots, tw1.FirstRel, tw1.SkipPercent, tw1.Gsfa, tw1.Accounts, tw1.MaxTx, tw1.MultiSig = vc19TwinSlots, vfxEpochLen-vc19TwinSlots, 25, true, 3, 3, true
	tw1.ZeroTimes = true
	tw1.LayoutSeed = seed*2654435761 + 977
	if tw1.LayoutSeed == 0 {
		tw1.LayoutSeed = 977
	}
	tw2 := tw1
	tw2.Name, tw2.Dir, tw2.Epoch, tw2.FirstRel = "c19tw2", filepath.Join(vh.OutDir(), "fx-c19tw2"), 9, 0
	specs = append(specs, tw1, tw2)
	built, berr := vfxBuild(specs)
	// a fixture epoch that cannot be built (or, below, loaded) on the tree under test is left out with a note;
	// the remaining epochs are still streamed
	var truths []*vfxTruth
	byName := map[string]*vfxTruth{}
	var skippedFx []string
	for i, tr := range built {
		switch {
		case tr == nil:
			rep.Note("fixture epoch %s was not built (%v): left out", specs[i].Name, berr)
			skippedFx = append(skippedFx, specs[i].Name)
		case tr.BuildErr != "":
			rep.Note("fixture epoch %s was not built (%s): left out", specs[i].Name, tr.BuildErr)
			skippedFx = append(skippedFx, specs[i].Name)
		default:
			truths = append(truths, tr)
			byName[tr.Spec.Name] = tr
		}
	}
	if len(truths) == 0 {
		t.Fatalf("setup failed: no fixture epoch could be built: %v", berr)
	}
	// account universe -> small numbers for the Coq cases
	accID := map[string]int{}
	id := func(a string) int {
		if v, ok := accID[a]; ok {
			return v
		}
		accID[a] = len(accID) + 1
		return accID[a]
	}
	var universe []string
	for i := 0; i < 3; i++ {
		universe = append(universe, vfxAccount(0, i).String())
	}
	loadedOnly := vfxAccount(1, 0).String()
	universe = append(universe, loadedOnly, vfxAccount(1, 1).String(), vfxAccount(5, 5).String() /* never used */)
	trD, trN := byName["c19dense"], byName["c19noidx"]
	base2 := e2.Epoch * vfxEpochLen
	baseT := tw2.Epoch * vfxEpochLen
	type rng struct{ lo, hi uint64 }
	ranges := []rng{
		{base2 - 26, base2 - 14}, {base2 - 12, base2 - 1}, {base2 - 6, base2 + 6}, {base2, base2 + 11}, {base2 + 8, base2 + 23},
		{base2 - 3, base2 - 3}, {base2 + 5, base2 + 4},
		{base2 - 200, base2 + 11}, // starts more than the default window (100 slots) before the epoch boundary and ends behind it
	}
	// ranges over the pair of same-layout epochs: across the boundary (symmetric; ending on the first slot of the
	// newer epoch; all of both), and inside either epoch
	firstTwin := len(ranges)
	ranges = append(ranges,
		rng{baseT - 10, baseT + 10}, rng{baseT - 7, baseT}, rng{baseT - vc19TwinSlots, baseT + vc19TwinSlots - 1},
		rng{baseT - 2, baseT + 16}, rng{baseT - 12, baseT - 1}, rng{baseT, baseT + 12})
	// what the fixtures provide (preconditions of the two directions above, measured, not assumed)
	{
		zero, blocks := 0, 0
		for _, tr := range truths {
			for bi := range tr.Blocks {
				blocks++
				if tr.Blocks[bi].Blocktime == 0 {
					zero++
				}
			}
		}
		rep.Flag("archived_blocks", blocks)
		rep.Flag("archived_blocks_with_block_time_0", zero)
		if zero == 0 {
			rep.Note("no generated block records block time 0 under this seed")
		}
		if a, b := byName["c19tw1"], byName["c19tw2"]; a != nil && b != nil {
			isTx := map[string]bool{}
			offA := map[uint64]string{}
			for _, tr := range []*vfxTruth{a, b} {
				for bi := range tr.Blocks {
					for _, tx := range tr.Blocks[bi].Txs {
						isTx[tx.Cid] = true
					}
				}
			}
			for _, o := range a.Objects {
				if isTx[o.Cid] {
					offA[o.Offset] = o.Cid
				}
			}
			same, txB := 0, 0
			for _, o := range b.Objects {
				if isTx[o.Cid] {
					txB++
					if _, ok := offA[o.Offset]; ok {
						same++
					}
				}
			}
			rep.Flag("same_layout_epochs_transactions_at_equal_car_offsets", fmt.Sprintf("%d of %d", same, txB))
			if same == 0 {
				rep.Note("the two same-layout epochs share no transaction offset under this seed")
			}
		}
	}
	T, F := true, false
	flags := []*bool{nil, &T, &F}
	var filters []vc19Filter
	filters = append(filters, vc19Filter{Nil: true})
	incs := [][]string{nil, {universe[0]}, {universe[0], universe[1]}, {loadedOnly}, {universe[5]}}
	excs := [][]string{nil, {universe[1]}}
	reqs := [][]string{nil, {universe[0]}, {universe[2], loadedOnly}}
	for _, v := range flags {
		for _, fl := range flags {
			for _, in := range incs {
				for _, ex := range excs {
					for _, rq := range reqs {
						filters = append(filters, vc19Filter{Vote: v, Failed: fl, Include: in, Exclude: ex, Required: rq})
					}
				}
			}
		}
	}
	rnd := vh.NewRng(seed + 5)
	coqTx := func(tx *vfxTx, num int) string {
		var st, ld []string
		for _, a := range tx.Accounts {
			st = append(st, fmt.Sprint(id(a)))
		}
		for _, a := range tx.Loaded {
			ld = append(ld, fmt.Sprint(id(a)))
		}
		l := func(x []string) string {
			if len(x) == 0 {
				return "[]"
			}
			return "[" + strings.Join(x, "; ") + "]%N"
		}
		return fmt.Sprintf("Build_tx %d%%N %d%%N %s %s %s %s %d%%N", tx.Slot, tx.Pos, vh.CoqBool(tx.Vote), vh.CoqBool(tx.Failed), l(st), l(ld), num)
	}
	coqAccs := func(x []string) string {
		if len(x) == 0 {
			return "[]"
		}
		var o []string
		for _, a := range x {
			o = append(o, fmt.Sprint(id(a)))
		}
		return "[" + strings.Join(o, "; ") + "]%N"
	}
	coqOptB := func(p *bool) string {
		if p == nil {
			return "None"
		}
		return "(Some " + vh.CoqBool(*p) + ")"
	}
	for _, withIndex := range []bool{true, false} {
		var use []*vfxTruth
		var eps []*Epoch
		multi := NewMultiEpoch(&Options{EpochSearchConcurrency: 2})
		cache := vfxNewCache()
		loaded := map[string]bool{}
		for _, tr := range truths {
			c := *tr
			if !withIndex {
				c.GsfaDir = ""
				c.ConfigYml = filepath.Join(tr.Spec.Dir, "epoch-noindex.yml")
				_ = os.WriteFile(c.ConfigYml, []byte(vfxConfigYaml(&c, c.CarPath)), 0o644)
			}
			ep, err := vfxLoad(&c, cache)
			if err == nil {
				if err = multi.AddEpoch(c.Spec.Epoch, ep); err != nil {
					ep.Close()
				}
			}
			if err != nil {
				rep.Note("index=%v: fixture epoch %s could not be loaded (%v): left out", withIndex, tr.Spec.Name, err)
				skippedFx = append(skippedFx, fmt.Sprintf("%s(index=%v)", tr.Spec.Name, withIndex))
				continue
			}
			eps = append(eps, ep)
			use = append(use, tr)
			loaded[tr.Spec.Name] = true
		}
		if len(use) == 0 {
			t.Fatalf("setup failed: index=%v: no fixture epoch could be loaded", withIndex)
		}
		tag := fmt.Sprintf("index=%v", withIndex)
		archived := func(lo, hi uint64) []*vfxTx {
			var out []*vfxTx
			for _, tr := range use {
				for bi := range tr.Blocks {
					b := &tr.Blocks[bi]
					if b.Slot >= lo && b.Slot <= hi {
						s := b.sortedTxs()
						for i := range s {
							out = append(out, &s[i])
						}
					}
				}
			}
			sort.SliceStable(out, func(i, j int) bool {
				if out[i].Slot != out[j].Slot {
					return out[i].Slot < out[j].Slot
				}
				return out[i].Pos < out[j].Pos
			})
			return out
		}
		runTx := func(lo, hi uint64, f vc19Filter, addCase bool) {
			arch := archived(lo, hi)
			byBytes := map[string]int{}
			for i, tx := range arch {
				byBytes[tx.TxB64] = i + 1
			}
			req := &old_faithful_grpc.StreamTransactionsRequest{StartSlot: lo, EndSlot: &hi}
			if !f.Nil {
				req.Filter = &old_faithful_grpc.StreamTransactionsFilter{Vote: f.Vote, Failed: f.Failed, AccountInclude: f.Include, AccountExclude: f.Exclude, AccountRequired: f.Required}
			}
			st := &vc19TxStream{ctx: context.Background()}
			replay := map[string]interface{}{"specs": specs, "start": lo, "end": hi, "filter": f.String(), "filter_detail": f, "index_loaded": withIndex}
			var serr error
			panicked := false
			func() {
				defer func() {
					if r := recover(); r != nil {
						panicked = true
						rep.Fail("stream-panic", fmt.Sprintf("%s StreamTransactions[%d,%d] filter{%s}: %v", tag, lo, hi, f, r), replay)
					}
				}()
				serr = multi.StreamTransactions(req, st)
			}()
			if panicked {
				return
			}
			key := fmt.Sprintf("%s/tx/%d-%d/%s/%v%v%v", tag, lo, hi, f, f.Include, f.Exclude, f.Required)
			rep.Case(key, len(arch) > 0)
			rep.Count("StreamTransactions " + tag)
			if serr != nil && strings.Contains(serr.Error(), "no position index") {
				// the ordered buffer of the index-accelerated path needs the OPTIONAL position index of the archive format
				rep.Fail("indexed-stream-needs-position-index", fmt.Sprintf("%s StreamTransactions[%d,%d] filter{%s}: %v", tag, lo, hi, f, serr), replay)
				return
			}
			if serr != nil {
				rep.Fail("stream-error", fmt.Sprintf("%s StreamTransactions[%d,%d] filter{%s}: %v", tag, lo, hi, f, serr), replay)
				return
			}
			var want []int
			for i, tx := range arch {
				if vc19Keep(f, tx) {
					want = append(want, i+1)
				}
			}
			var got []int
			unknown := 0
			for _, m := range st.sent {
				if m.Transaction == nil || len(m.Transaction.Transaction) == 0 {
					continue // placeholder "nothing matched" message: not a transaction
				}
				n, ok := byBytes[base64.StdEncoding.EncodeToString(m.Transaction.Transaction)]
				if !ok {
					unknown++
					continue
				}
				got = append(got, n)
				tx := arch[n-1]
				wantMeta, _ := base64.StdEncoding.DecodeString(tx.MetaB64)
				if !bytes.Equal(m.Transaction.Meta, wantMeta) {
					rep.Fail("streamed-metadata-differs", fmt.Sprintf("%s slot %d pos %d", tag, tx.Slot, tx.Pos), replay)
				}
			}
			if unknown > 0 {
				rep.Fail("streamed-transaction-outside-range", fmt.Sprintf("%s [%d,%d] filter{%s}: %d streamed transactions are not archived in the range", tag, lo, hi, f, unknown), replay)
			}
			if fmt.Sprint(got) != fmt.Sprint(want) {
				sig := "stream-differs-from-filtered-archive"
				missing, extra := vc19Diff(want, got)
				if len(extra) == 0 && len(missing) > 0 && len(want) > 100 && withIndex && !f.Nil && len(f.Include) > 0 {
					sig = "stream-misses-transactions-beyond-100-per-account"
				}
				rep.Fail(sig, fmt.Sprintf("%s StreamTransactions[%d,%d] filter{%s} inc=%v exc=%v req=%v: streamed %d, expected %d (missing %v, unexpected %v) of %d archived",
					tag, lo, hi, f, coqAccs(f.Include), coqAccs(f.Exclude), coqAccs(f.Required), len(got), len(want), vc19Head(missing), vc19Head(extra), len(arch)), replay)
			}
			if addCase && len(arch) <= 60 {
				var txs []string
				for i, tx := range arch {
					txs = append(txs, coqTx(tx, i+1))
				}
				flt := "None"
				if !f.Nil {
					flt = fmt.Sprintf("(Some (Build_flt %s %s %s %s %s))", coqOptB(f.Vote), coqOptB(f.Failed), coqAccs(f.Include), coqAccs(f.Exclude), coqAccs(f.Required))
				}
				var obs []string
				for _, g := range got {
					obs = append(obs, fmt.Sprint(g))
				}
				o := "[]"
				if len(obs) > 0 {
					o = "[" + strings.Join(obs, "; ") + "]%N"
				}
				cases.Add(fmt.Sprintf("CTxs %s %s %s", vh.CoqList(txs), flt, o))
			}
			if len(rep.Samples) < 4 && len(arch) > 3 && len(want) > 0 && len(want) < len(arch) {
				rep.Sample(map[string]interface{}{"index_loaded": withIndex, "start": lo, "end": hi, "filter": f.String(), "archived": len(arch), "streamed": len(got)})
			}
		}
		// full filter product on one cross-epoch range, a random sample of filters on the others
		// on the ranges over the same-layout pair: every account filter combination with an include list (the
		// index-accelerated path), vote/failed absent, and the same random sample of the rest
		for ri, r := range ranges {
			for fi, f := range filters {
				twinPick := ri >= firstTwin && !f.Nil && len(f.Include) > 0 && f.Vote == nil && f.Failed == nil
				if ri == 2 || fi == 0 || rnd.Intn(len(filters)) < 14 || twinPick || vh.Thorough() {
					if ri >= firstTwin {
						rep.Count("StreamTransactions over the same-layout pair " + tag)
					}
					runTx(r.lo, r.hi, f, ri == 2 || rnd.Intn(3) == 0)
				}
			}
		}
		// the dense epoch: more than 100 matching transactions for one included account
		if trD != nil && loaded["c19dense"] {
			dLo, dHi := trD.base(), trD.base()+39
			dAcc := vfxAccount(0, 0).String()
			runTx(dLo, dHi, vc19Filter{Include: []string{dAcc}}, false)
			runTx(dLo, dHi, vc19Filter{Nil: true}, false)
		}
		// the epoch whose transactions carry no position index: the order is the order of the block
		if trN != nil && loaded["c19noidx"] {
			nLo, nHi := trN.base(), trN.base()+uint64(trN.Spec.NumSlots)
			runTx(nLo, nHi, vc19Filter{Nil: true}, false)
			runTx(nLo, nHi, vc19Filter{Vote: &F}, false)
			runTx(nLo, nHi, vc19Filter{Include: []string{universe[0]}}, false)
			runTx(nLo, nHi, vc19Filter{Failed: &F, Include: []string{universe[1], universe[0]}, Exclude: []string{universe[2]}}, false)
		}
		// ---- StreamBlocks
		for _, r := range ranges {
			for _, inc := range [][]string{nil, {universe[0]}, {loadedOnly}, {universe[5]}, {universe[1], universe[2]}} {
				req := &old_faithful_grpc.StreamBlocksRequest{StartSlot: r.lo, EndSlot: &r.hi}
				if inc != nil {
					req.Filter = &old_faithful_grpc.StreamBlocksFilter{AccountInclude: inc}
				}
				st := &vc19BlockStream{ctx: context.Background()}
				replay := map[string]interface{}{"specs": specs, "start": r.lo, "end": r.hi, "include": inc, "index_loaded": withIndex}
				var serr error
				panicked := false
				func() {
					defer func() {
						if rr := recover(); rr != nil {
							panicked = true
							rep.Fail("stream-panic", fmt.Sprintf("%s StreamBlocks[%d,%d]: %v", tag, r.lo, r.hi, rr), replay)
						}
					}()
					serr = multi.StreamBlocks(req, st)
				}()
				if panicked {
					continue
				}
				rep.Case(fmt.Sprintf("%s/blocks/%d-%d/%v", tag, r.lo, r.hi, inc), true)
				rep.Count("StreamBlocks " + tag)
				if serr != nil {
					rep.Fail("stream-error", fmt.Sprintf("%s StreamBlocks[%d,%d]: %v", tag, r.lo, r.hi, serr), replay)
					continue
				}
				var want, got []uint64
				var coqBlocks []string
				n := 0
				for _, tr := range use {
					for bi := range tr.Blocks {
						b := &tr.Blocks[bi]
						if b.Slot < r.lo || b.Slot > r.hi {
							continue
						}
						s := b.sortedTxs()
						var txs []string
						keepB := len(inc) == 0
						for i := range s {
							n++
							txs = append(txs, coqTx(&s[i], n))
							for _, a := range inc {
								if vc19Mentions(&s[i], a) {
									keepB = true
								}
							}
						}
						coqBlocks = append(coqBlocks, fmt.Sprintf("(%d%%N, %s)", b.Slot, vh.CoqList(txs)))
						if keepB {
							want = append(want, b.Slot)
						}
					}
				}
				for _, m := range st.sent {
					got = append(got, m.Slot)
				}
				if fmt.Sprint(got) != fmt.Sprint(want) {
					rep.Fail("blocks-differ-from-filtered-archive", fmt.Sprintf("%s StreamBlocks[%d,%d] include=%v: streamed slots %v, expected %v", tag, r.lo, r.hi, coqAccs(inc), got, want), replay)
				}
				var obs []string
				for _, g := range got {
					obs = append(obs, fmt.Sprint(g))
				}
				o := "[]"
				if len(obs) > 0 {
					o = "[" + strings.Join(obs, "; ") + "]%N"
				}
				if withIndex {
					cases.Add(fmt.Sprintf("CBlocks %s %s %s", vh.CoqList(coqBlocks), coqAccs(inc), o))
				}
			}
		}
		for _, e := range eps {
			e.Close()
		}
	}
	_ = time.Second
	if len(skippedFx) > 0 {
		rep.Flag("fixture_epochs_left_out", skippedFx)
	}
	if err := cases.Write(); err != nil {
		t.Fatal(err)
	}
	rep.CasesWritten(cases)
	if err := rep.Write(); err != nil {
		t.Fatal(err)
	}
}

// candidate slots of each of the two same-layout epochs (a multiple of 4, see the specs)
const vc19TwinSlots = 24

func vc19Diff(want, got []int) (missing, extra []int) {
	w := map[int]bool{}
	g := map[int]bool{}
	for _, x := range want {
		w[x] = true
	}
	for _, x := range got {
		g[x] = true
	}
	for _, x := range want {
		if !g[x] {
			missing = append(missing, x)
		}
	}
	for _, x := range got {
		if !w[x] {
			extra = append(extra, x)
		}
	}
	return
}

func vc19Head(x []int) []int {
	if len(x) > 8 {
		return x[:8]
	}
	return x
}
