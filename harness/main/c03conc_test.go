package main

// Verification harness for C03, concurrent part (called from TestVerif_C03; uses fixture_test.go).
//
// The sequential part finds ABSENT keys that the index itself resolves to a stored entry (24-bit in-bucket hash
// collision). Here every such (absent, stored) pair is requested CONCURRENTLY: the CAR of the epoch is served through a
// ReaderAt of the harness that can hold one read back, so the request that starts first sits in its CAR read while the
// other one is issued (both orders), through Epoch, the JSON-RPC handler and gRPC. With several epochs loaded, objects
// that lie at the same offset (and have the same section length) in the CAR files of DIFFERENT epochs are fetched by CID
// concurrently in the same way. The oracle is the one of the sequential part: an answer must carry the requested key /
// the bytes stored under the requested CID; an absent key may be answered not-found or with an error only; a stored key
// keeps being answered.
//
// Nothing here depends on timing for its verdict: the schedule is forced by the gate. The only timer bounds how long the
// second request is waited for before the held read is released (a second request that waits for the first one - which
// the property does not forbid - is then simply evaluated after both have finished).

import (
	"bytes"
	"context"
	"encoding/base64"
	"encoding/json"
	"fmt"
	"os"
	"sort"
	"sync"
	"time"

	"github.com/gagliardetto/solana-go"
	"github.com/ipfs/go-cid"
	hugecache "github.com/rpcpool/yellowstone-faithful/huge-cache"
	old_faithful_grpc "github.com/rpcpool/yellowstone-faithful/old-faithful-proto/old-faithful-grpc"
	"github.com/rpcpool/yellowstone-faithful/zzverif/vh"
	"github.com/valyala/fasthttp"
)

// ---------------------------------------------------------------- colliding pairs found by the sequential part

type vc03SlotPair struct{ Absent, Stored uint64 }
type vc03SigPair struct{ Absent, Stored solana.Signature }
type vc03CidPair struct{ Absent, Stored cid.Cid }

type vc03Pairs struct {
	Slots []vc03SlotPair
	Sigs  []vc03SigPair
	Cids  []vc03CidPair
}

// ---------------------------------------------------------------- a CAR served through a ReaderAt that can hold one read

type vc03Gate struct {
	rd      *bytes.Reader
	mu      sync.Mutex
	armed   bool
	entered chan struct{}
	release chan struct{}
}

// arm: the next ReadAt closes entered and then waits until release is closed (that one read only).
func (g *vc03Gate) arm() (entered, release chan struct{}) {
	g.mu.Lock()
	defer g.mu.Unlock()
	g.armed = true
	g.entered = make(chan struct{})
	g.release = make(chan struct{})
	return g.entered, g.release
}

func (g *vc03Gate) disarm() {
	g.mu.Lock()
	g.armed = false
	g.mu.Unlock()
}

func (g *vc03Gate) ReadAt(p []byte, off int64) (int, error) {
	g.mu.Lock()
	hold := g.armed
	g.armed = false
	entered, release := g.entered, g.release
	g.mu.Unlock()
	if hold {
		close(entered)
		<-release
	}
	return g.rd.ReadAt(p, off)
}

func (g *vc03Gate) Close() error { return nil }

// vc03LoadGated loads the epoch from its config file (as the server does) and then serves its CAR through the ReaderAt
// path (the one a remote CAR takes) from a reader of the harness.
func vc03LoadGated(tr *vfxTruth, cache *hugecache.Cache) (*Epoch, *vc03Gate, error) {
	data, err := os.ReadFile(tr.CarPath)
	if err != nil {
		return nil, nil, err
	}
	ep, err := vfxLoad(tr, cache)
	if err != nil {
		return nil, nil, err
	}
	g := &vc03Gate{rd: bytes.NewReader(data)}
	ep.localCarReader = nil // stays registered in onClose
	ep.remoteCarReader = g
	return ep, g, nil
}

// ---------------------------------------------------------------- requests and their observations

type vc03Res struct {
	answered bool   // an object was returned
	key      string // which object, as far as the reply shows it ("" = the reply does not show it)
	panicMsg string
	obs      string // OAnswered / ONotFound / OError (the classes of the Coq case checker)
}

type vc03Req struct {
	desc    string
	want    string // the key an answer must carry
	present bool   // the key is archived: the request must be answered
	gate    *vc03Gate
	do      func() (answered bool, key string, err error)
}

func (r *vc03Req) run() (res vc03Res) {
	defer func() {
		if p := recover(); p != nil {
			res = vc03Res{panicMsg: fmt.Sprint(p), obs: "OError"}
		}
	}()
	a, k, err := r.do()
	return vc03Res{answered: a, key: k, obs: vc03Obs(err, a)}
}

type vc03Conc struct {
	rep     *vh.Report
	ctx     context.Context
	wait    time.Duration
	fails   map[string]int
	stuck   bool
	held    int
	notHeld int
}

func (c *vc03Conc) fail(group, sig, detail string, replay map[string]interface{}) {
	c.fails[group]++
	c.rep.Fail(sig, detail, replay)
}

// enough: a group that has shown the same thing three times is not replayed further (each replay of a request that waits
// for another one costs c.wait).
func (c *vc03Conc) enough(group string) bool { return c.stuck || c.fails[group] >= 3 }

// race starts first, waits until it sits in a CAR read (or has finished without one: everything came from a cache),
// starts second, waits for second (at most c.wait while first is held), lets the held read go and waits for both.
func (c *vc03Conc) race(g *vc03Gate, first, second func()) (held, ok bool) {
	entered, release := g.arm()
	d1 := make(chan struct{})
	go func() { defer close(d1); first() }()
	select {
	case <-entered:
		held = true
	case <-d1:
		g.disarm()
	}
	d2 := make(chan struct{})
	go func() { defer close(d2); second() }()
	if held {
		tm := time.NewTimer(c.wait)
		select {
		case <-d2:
		case <-tm.C:
		}
		tm.Stop()
	}
	close(release)
	guard := time.NewTimer(90 * time.Second)
	defer guard.Stop()
	for _, d := range []chan struct{}{d1, d2} {
		select {
		case <-d:
		case <-guard.C:
			c.stuck = true
			c.rep.Note("concurrent replay stopped: a request did not return within 90 s after the held CAR read was released")
			return held, false
		}
	}
	if held {
		c.held++
	} else {
		c.notHeld++
	}
	return held, true
}

// judge applies the property oracle to one observation.
func (c *vc03Conc) judge(group, wrongSig string, q *vc03Req, r vc03Res, other *vc03Req, sched string, replay map[string]interface{}) {
	rp := map[string]interface{}{"request": q.desc, "concurrent_with": other.desc, "schedule": sched}
	for k, v := range replay {
		rp[k] = v
	}
	switch {
	case r.panicMsg != "":
		c.fail(group, "handler-panic", fmt.Sprintf("%s (%s, concurrently with %s): %s", q.desc, sched, other.desc, r.panicMsg), rp)
	case r.answered && r.key != q.want && !(q.present && r.key == ""):
		got := r.key
		if got == "" {
			got = "an object (the key is not archived)"
		}
		c.fail(group, wrongSig, fmt.Sprintf("%s (%s, concurrently with %s) was answered with %s; an answer must carry %s", q.desc, sched, other.desc, got, q.want), rp)
	case q.present && !r.answered:
		c.fail(group, "present-key-not-answered:concurrent", fmt.Sprintf("%s (%s, concurrently with %s) was not answered although the key is archived", q.desc, sched, other.desc), rp)
	}
}

// pair replays two requests concurrently in both orders (the first one held in its CAR read) and judges both answers.
// It returns the observations of a (index 0) and b (index 1) per order.
func (c *vc03Conc) pair(group, wrongSig string, a, b *vc03Req, replay map[string]interface{}) (out [2][2]vc03Res, done bool) {
	for order := 0; order < 2; order++ {
		var ra, rb vc03Res
		fa := func() { ra = a.run() }
		fb := func() { rb = b.run() }
		var held, ok bool
		var sched string
		if order == 0 {
			held, ok = c.race(b.gate, fb, fa)
			sched = "issued while the other request was in its CAR read"
		} else {
			held, ok = c.race(a.gate, fa, fb)
			sched = "in its CAR read while the other request was issued"
		}
		if !ok {
			return out, false
		}
		if !held {
			sched = "no CAR read to hold: requests ran one after the other"
		}
		c.rep.Case(fmt.Sprintf("concurrent/%s/%s|%s/order=%d", group, a.desc, b.desc, order), held)
		c.judge(group, wrongSig, a, ra, b, sched, replay)
		sb := sched
		if held {
			if order == 0 {
				sb = "in its CAR read while the other request was issued"
			} else {
				sb = "issued while the other request was in its CAR read"
			}
		}
		c.judge(group, wrongSig, b, rb, a, sb, replay)
		out[order] = [2]vc03Res{ra, rb}
	}
	return out, true
}

// hammer: no gate (the CAR is a local file, the path of a default deployment): both requests from several goroutines
// released together, many rounds. It can only add detections; the verdict per answer is the same oracle.
func (c *vc03Conc) hammer(group, wrongSig string, a, b *vc03Req, rounds, par int, replay map[string]interface{}) {
	for round := 0; round < rounds && !c.enough(group); round++ {
		start := make(chan struct{})
		res := make([]vc03Res, 2*par)
		var wg sync.WaitGroup
		for i := 0; i < 2*par; i++ {
			i := i
			wg.Add(1)
			go func() {
				defer wg.Done()
				<-start
				if i%2 == 0 {
					res[i] = b.run()
				} else {
					res[i] = a.run()
				}
			}()
		}
		close(start)
		wg.Wait()
		for i, r := range res {
			if i%2 == 0 {
				c.judge(group, wrongSig, b, r, a, "local CAR, goroutines released together", replay)
			} else {
				c.judge(group, wrongSig, a, r, b, "local CAR, goroutines released together", replay)
			}
		}
	}
}

// ---------------------------------------------------------------- request builders

func (c *vc03Conc) reqEpochBlock(ep *Epoch, g *vc03Gate, slot uint64, present bool) *vc03Req {
	return &vc03Req{desc: fmt.Sprintf("Epoch.GetBlock(%d)", slot), want: fmt.Sprintf("slot %d", slot), present: present, gate: g,
		do: func() (bool, string, error) {
			blk, _, err := ep.GetBlock(c.ctx, slot)
			if err != nil || blk == nil {
				return false, "", err
			}
			return true, fmt.Sprintf("slot %d", uint64(blk.Slot)), nil
		}}
}

func (c *vc03Conc) reqGrpcBlock(multi *MultiEpoch, g *vc03Gate, slot uint64, present bool) *vc03Req {
	return &vc03Req{desc: fmt.Sprintf("gRPC GetBlock(%d)", slot), want: fmt.Sprintf("slot %d", slot), present: present, gate: g,
		do: func() (bool, string, error) {
			gr, err := multi.GetBlock(c.ctx, &old_faithful_grpc.BlockRequest{Slot: slot})
			if err != nil || gr == nil {
				return false, "", err
			}
			return true, fmt.Sprintf("slot %d", gr.Slot), nil
		}}
}

func vc03BlockKey(blockTime uint64, parent uint64) string {
	return fmt.Sprintf("the block with blockTime %d and parentSlot %d", blockTime, parent)
}

// JSON-RPC getBlock: the reply does not carry the slot; blockTime (distinct per slot in the generated epochs) and
// parentSlot identify the block.
func (c *vc03Conc) reqRPCBlock(h func(*fasthttp.RequestCtx), g *vc03Gate, slot uint64, blk *vfxBlock) *vc03Req {
	want := fmt.Sprintf("slot %d (not archived)", slot)
	if blk != nil {
		want = vc03BlockKey(uint64(blk.Blocktime), blk.Parent)
	}
	return &vc03Req{desc: fmt.Sprintf("JSON-RPC getBlock(%d)", slot), want: want, present: blk != nil, gate: g,
		do: func() (bool, string, error) {
			body, _, panicked, pmsg := vfxRPC(h, fmt.Sprintf(`{"jsonrpc":"2.0","id":1,"method":"getBlock","params":[%d,{"encoding":"base64","maxSupportedTransactionVersion":0,"rewards":false}]}`, slot))
			if panicked {
				panic(pmsg)
			}
			r, err := vfxParseReply(body)
			if err != nil || r.Error != nil || len(r.Result) <= 4 {
				return false, "", nil
			}
			var b struct {
				BlockTime  *uint64 `json:"blockTime"`
				ParentSlot *uint64 `json:"parentSlot"`
			}
			if err := json.Unmarshal(r.Result, &b); err != nil || b.ParentSlot == nil {
				return true, "", nil
			}
			bt := uint64(0)
			if b.BlockTime != nil {
				bt = *b.BlockTime
			}
			return true, vc03BlockKey(bt, *b.ParentSlot), nil
		}}
}

func (c *vc03Conc) reqEpochTx(ep *Epoch, g *vc03Gate, sig solana.Signature, present bool) *vc03Req {
	return &vc03Req{desc: fmt.Sprintf("Epoch.GetTransaction(%s)", sig), want: "the transaction " + sig.String(), present: present, gate: g,
		do: func() (bool, string, error) {
			txn, _, err := ep.GetTransaction(c.ctx, sig)
			if err != nil || txn == nil {
				return false, "", err
			}
			got, err := readFirstSignature(txn.Data.Bytes())
			if err != nil {
				return true, "a transaction without a readable first signature", nil
			}
			return true, "the transaction " + got.String(), nil
		}}
}

func (c *vc03Conc) reqGrpcTx(multi *MultiEpoch, g *vc03Gate, sig solana.Signature, present bool) *vc03Req {
	return &vc03Req{desc: fmt.Sprintf("gRPC GetTransaction(%s)", sig), want: "the transaction " + sig.String(), present: present, gate: g,
		do: func() (bool, string, error) {
			gr, err := multi.GetTransaction(c.ctx, &old_faithful_grpc.TransactionRequest{Signature: sig[:]})
			if err != nil || gr == nil || gr.Transaction == nil {
				return false, "", err
			}
			got, err := readFirstSignature(gr.Transaction.Transaction)
			if err != nil {
				return true, "", nil
			}
			return true, "the transaction " + got.String(), nil
		}}
}

func (c *vc03Conc) reqRPCTx(h func(*fasthttp.RequestCtx), g *vc03Gate, sig solana.Signature, present bool) *vc03Req {
	return &vc03Req{desc: fmt.Sprintf("JSON-RPC getTransaction(%s)", sig), want: "the transaction " + sig.String(), present: present, gate: g,
		do: func() (bool, string, error) {
			body, _, panicked, pmsg := vfxRPC(h, fmt.Sprintf(`{"jsonrpc":"2.0","id":1,"method":"getTransaction","params":["%s",{"encoding":"base64","maxSupportedTransactionVersion":0}]}`, sig))
			if panicked {
				panic(pmsg)
			}
			r, err := vfxParseReply(body)
			if err != nil || r.Error != nil || len(r.Result) <= 4 {
				return false, "", nil
			}
			var t struct {
				Transaction []string `json:"transaction"`
			}
			if err := json.Unmarshal(r.Result, &t); err != nil || len(t.Transaction) < 1 {
				return true, "", nil
			}
			raw, err := base64.StdEncoding.DecodeString(t.Transaction[0])
			if err != nil {
				return true, "", nil
			}
			got, err := readFirstSignature(raw)
			if err != nil {
				return true, "", nil
			}
			return true, "the transaction " + got.String(), nil
		}}
}

// Fetch by CID: the CID of the returned bytes (dag-cbor, sha2-256, as every archived object has) must be the requested one.
func (c *vc03Conc) reqCid(ep *Epoch, g *vc03Gate, epochNo uint64, want cid.Cid, present bool) *vc03Req {
	return &vc03Req{desc: fmt.Sprintf("epoch %d: Epoch.GetNodeByCid(%s)", epochNo, want), want: "the bytes stored under " + want.String(), present: present, gate: g,
		do: func() (bool, string, error) {
			raw, err := ep.GetNodeByCid(c.ctx, want)
			if err != nil {
				return false, "", err
			}
			return true, "the bytes stored under " + vfxMkCid(raw, false).String(), nil
		}}
}

// ---------------------------------------------------------------- steering the small epochs

// vc03SteerSeeds: the two small epochs are loaded next to the big one. Their seeds are chosen (deterministically, from
// the run's seed) among a few candidates so that their CAR files have objects at the same offset with the same section
// length - the generator alone rarely produces that. Returns how many positions the chosen pair shares.
func vc03SteerSeeds(a, b vfxSpec, tries int) (vfxSpec, vfxSpec, int) {
	type cand struct {
		seed uint64
		pos  map[[2]uint64]bool
	}
	gen := func(sp vfxSpec) (out []cand) {
		for i := 0; i < tries; i++ {
			s := sp
			s.Seed = sp.Seed + uint64(i)*1009
			func() {
				defer func() { _ = recover() }() // a candidate the generator refuses (duplicate CID) is skipped
				tr, _ := vfxGenerate(s)
				m := map[[2]uint64]bool{}
				for _, o := range tr.Objects {
					m[[2]uint64{o.Offset, o.SecLen}] = true
				}
				out = append(out, cand{s.Seed, m})
			}()
		}
		return out
	}
	ca, cb := gen(a), gen(b)
	best, bi, bj := -1, 0, 0
	for i := range ca {
		for j := range cb {
			n := 0
			for p := range ca[i].pos {
				if cb[j].pos[p] {
					n++
				}
			}
			if n > best {
				best, bi, bj = n, i, j
			}
		}
	}
	if best < 0 {
		return a, b, 0
	}
	a.Seed, b.Seed = ca[bi].seed, cb[bj].seed
	return a, b, best
}

// ---------------------------------------------------------------- the concurrent replay

func vc03Concurrent(rep *vh.Report, cases *vh.CasesFile, truths []*vfxTruth, pairs *vc03Pairs, seed uint64) {
	c := &vc03Conc{rep: rep, ctx: context.Background(), wait: 150 * time.Millisecond, fails: map[string]int{}}
	trBig := truths[0]
	maxPairs, maxCross := 10, 40
	if vh.Thorough() {
		maxPairs, maxCross = 60, 400
	}
	present := map[uint64]*vfxBlock{}
	for i := range trBig.Blocks {
		present[trBig.Blocks[i].Slot] = &trBig.Blocks[i]
	}
	spec := map[string]interface{}{"spec": trBig.Spec}
	cut := func(n int) int {
		if n > maxPairs {
			return maxPairs
		}
		return n
	}

	// ---- one epoch loaded, its CAR behind the gate
	func() {
		ep, g, err := vc03LoadGated(trBig, vfxNewCache())
		if err != nil {
			rep.Note("concurrent replay (one epoch) skipped: the epoch does not load: %v", err)
			return
		}
		defer ep.Close()
		multi := NewMultiEpoch(&Options{EpochSearchConcurrency: 2})
		if err := multi.AddEpoch(trBig.Spec.Epoch, ep); err != nil {
			rep.Note("concurrent replay (one epoch) skipped: %v", err)
			return
		}
		h := newMultiEpochHandler(multi, nil)
		// Epoch
		for _, p := range pairs.Slots[:cut(len(pairs.Slots))] {
			if c.enough("slot/epoch") {
				break
			}
			out, ok := c.pair("slot/epoch", "block-of-another-slot:concurrent", c.reqEpochBlock(ep, g, p.Absent, false), c.reqEpochBlock(ep, g, p.Stored, true), spec)
			if !ok {
				break
			}
			for _, o := range out {
				cases.Add(fmt.Sprintf("CBlock %d%%N %d%%N %s", p.Absent, p.Stored, vc03ObsRes(o[0])))
				cases.Add(fmt.Sprintf("CPresentBlock %d%%N %s", p.Stored, vc03ObsRes(o[1])))
			}
		}
		for _, p := range pairs.Sigs[:cut(len(pairs.Sigs))] {
			if c.enough("sig/epoch") {
				break
			}
			out, ok := c.pair("sig/epoch", "transaction-of-another-signature:concurrent", c.reqEpochTx(ep, g, p.Absent, false), c.reqEpochTx(ep, g, p.Stored, true), spec)
			if !ok {
				break
			}
			for _, o := range out {
				cases.Add(fmt.Sprintf("CTx %s %s %s", vh.CoqBytes(p.Absent[:8]), vh.CoqBytes(p.Stored[:8]), vc03ObsRes(o[0])))
			}
		}
		for _, p := range pairs.Cids[:cut(len(pairs.Cids))] {
			if c.enough("cid/epoch") {
				break
			}
			if _, ok := c.pair("cid/epoch", "bytes-of-another-cid:concurrent", c.reqCid(ep, g, trBig.Spec.Epoch, p.Absent, false), c.reqCid(ep, g, trBig.Spec.Epoch, p.Stored, true), spec); !ok {
				break
			}
		}
		// sibling CIDs (same multihash, another codec): not archived
		nsib := 0
		for i := range trBig.Blocks {
			if nsib >= maxPairs/2 || c.enough("sibling-cid/epoch") {
				break
			}
			c0 := vfxCidFromHex(trBig.Blocks[(i*37)%len(trBig.Blocks)].Cid)
			for _, codec := range []uint64{0x55 /* raw */, 0x70 /* dag-pb */} {
				nsib++
				if _, ok := c.pair("sibling-cid/epoch", "bytes-of-another-cid:same-multihash:concurrent", c.reqCid(ep, g, trBig.Spec.Epoch, cid.NewCidV1(codec, c0.Hash()), false), c.reqCid(ep, g, trBig.Spec.Epoch, c0, true), spec); !ok {
					break
				}
			}
		}
		// gRPC and JSON-RPC: transactions first (getBlock fills the object cache with the transactions of the block)
		for _, p := range pairs.Sigs[:cut(len(pairs.Sigs))] {
			if !c.enough("sig/grpc") {
				c.pair("sig/grpc", "transaction-of-another-signature:grpc:concurrent", c.reqGrpcTx(multi, g, p.Absent, false), c.reqGrpcTx(multi, g, p.Stored, true), spec)
			}
			if !c.enough("sig/jsonrpc") {
				c.pair("sig/jsonrpc", "transaction-of-another-signature:jsonrpc:concurrent", c.reqRPCTx(h, g, p.Absent, false), c.reqRPCTx(h, g, p.Stored, true), spec)
			}
		}
		for _, p := range pairs.Slots[:cut(len(pairs.Slots))] {
			if !c.enough("slot/grpc") {
				c.pair("slot/grpc", "block-of-another-slot:grpc:concurrent", c.reqGrpcBlock(multi, g, p.Absent, false), c.reqGrpcBlock(multi, g, p.Stored, true), spec)
			}
			if !c.enough("slot/jsonrpc") {
				c.pair("slot/jsonrpc", "block-of-another-slot:jsonrpc:concurrent", c.reqRPCBlock(h, g, p.Absent, nil), c.reqRPCBlock(h, g, p.Stored, present[p.Stored]), spec)
			}
		}
	}()
	rep.CountN("concurrent epochs=1 replays with the first request held in its CAR read", c.held)
	rep.CountN("concurrent epochs=1 replays without a CAR read to hold", c.notHeld)
	c.held, c.notHeld = 0, 0

	// ---- all epochs loaded (one shared cache), every CAR behind its own gate
	func() {
		cache := vfxNewCache()
		multi := NewMultiEpoch(&Options{EpochSearchConcurrency: 2})
		type loaded struct {
			tr *vfxTruth
			ep *Epoch
			g  *vc03Gate
		}
		var eps []loaded
		defer func() {
			for _, l := range eps {
				l.ep.Close()
			}
		}()
		for _, tr := range truths {
			ep, g, err := vc03LoadGated(tr, cache)
			if err != nil {
				rep.Note("concurrent replay (several epochs): epoch %s skipped, it does not load: %v", tr.Spec.Name, err)
				continue
			}
			if err := multi.AddEpoch(tr.Spec.Epoch, ep); err != nil {
				rep.Note("concurrent replay (several epochs): epoch %s skipped: %v", tr.Spec.Name, err)
				ep.Close()
				continue
			}
			eps = append(eps, loaded{tr, ep, g})
		}
		if len(eps) < 2 {
			rep.Note("concurrent replay (several epochs) skipped: fewer than two epochs load")
			return
		}
		h := newMultiEpochHandler(multi, nil)
		// objects of different epochs at the same CAR offset; those with the same section length first
		type at struct {
			e   int
			obj vfxObj
		}
		byOff := map[uint64][]at{}
		for e, l := range eps {
			for _, o := range l.tr.Objects {
				byOff[o.Offset] = append(byOff[o.Offset], at{e, o})
			}
		}
		type cross struct {
			x, y    at
			sameLen bool
		}
		var crosses []cross
		for _, l := range byOff {
			for i := 0; i < len(l); i++ {
				for j := i + 1; j < len(l); j++ {
					if l[i].e != l[j].e {
						crosses = append(crosses, cross{l[i], l[j], l[i].obj.SecLen == l[j].obj.SecLen})
					}
				}
			}
		}
		sort.Slice(crosses, func(i, j int) bool {
			a, b := crosses[i], crosses[j]
			if a.sameLen != b.sameLen {
				return a.sameLen
			}
			if a.x.obj.Offset != b.x.obj.Offset {
				return a.x.obj.Offset < b.x.obj.Offset
			}
			if a.x.e != b.x.e {
				return a.x.e < b.x.e
			}
			return a.y.e < b.y.e
		})
		nSame := 0
		for _, x := range crosses {
			if x.sameLen {
				nSame++
			}
		}
		rep.CountN("concurrent epochs=n object pairs of different epochs at the same CAR offset", len(crosses))
		rep.CountN("concurrent epochs=n object pairs of different epochs at the same CAR offset with the same section length", nSame)
		if nSame == 0 {
			rep.Note("no two loaded epochs have objects at the same offset with the same section length in this run; cross-epoch fetches are replayed for equal offsets only")
		}
		sigOfCid := map[string]solana.Signature{}
		for _, l := range eps {
			for _, b := range l.tr.Blocks {
				for _, tx := range b.Txs {
					if s, err := solana.SignatureFromBase58(tx.Sig); err == nil {
						sigOfCid[tx.Cid] = s
					}
				}
			}
		}
		type txPair struct {
			sx, sy solana.Signature
			gx, gy *vc03Gate
		}
		var txCross []txPair
		for i, x := range crosses {
			if i >= maxCross || c.enough("cid/cross-epoch") {
				break
			}
			ex, ey := eps[x.x.e], eps[x.y.e]
			rp := map[string]interface{}{"spec_a": ex.tr.Spec, "spec_b": ey.tr.Spec, "offset": x.x.obj.Offset, "section_len_a": x.x.obj.SecLen, "section_len_b": x.y.obj.SecLen}
			if _, ok := c.pair("cid/cross-epoch", "bytes-of-another-cid:concurrent-epochs",
				c.reqCid(ex.ep, ex.g, ex.tr.Spec.Epoch, vfxCidFromHex(x.x.obj.Cid), true),
				c.reqCid(ey.ep, ey.g, ey.tr.Spec.Epoch, vfxCidFromHex(x.y.obj.Cid), true), rp); !ok {
				break
			}
			sx, okx := sigOfCid[x.x.obj.Cid]
			sy, oky := sigOfCid[x.y.obj.Cid]
			if okx && oky && len(txCross) < maxPairs {
				txCross = append(txCross, txPair{sx, sy, ex.g, ey.g})
			}
		}
		// the transactions among them, through the handlers (the epoch is found with the sig-exists indexes)
		for _, p := range txCross {
			if !c.enough("sig/cross-epoch/grpc") {
				c.pair("sig/cross-epoch/grpc", "transaction-of-another-signature:grpc:concurrent-epochs", c.reqGrpcTx(multi, p.gx, p.sx, true), c.reqGrpcTx(multi, p.gy, p.sy, true), nil)
			}
			if !c.enough("sig/cross-epoch/jsonrpc") {
				c.pair("sig/cross-epoch/jsonrpc", "transaction-of-another-signature:jsonrpc:concurrent-epochs", c.reqRPCTx(h, p.gx, p.sx, true), c.reqRPCTx(h, p.gy, p.sy, true), nil)
			}
		}
		// colliding absent slots with several epochs loaded, through the handlers
		if eps[0].tr == trBig {
			g := eps[0].g
			n := cut(len(pairs.Slots)) / 2
			for _, p := range pairs.Slots[:n] {
				if !c.enough("slot/grpc/epochs=n") {
					c.pair("slot/grpc/epochs=n", "block-of-another-slot:grpc:concurrent", c.reqGrpcBlock(multi, g, p.Absent, false), c.reqGrpcBlock(multi, g, p.Stored, true), spec)
				}
				if !c.enough("slot/jsonrpc/epochs=n") {
					c.pair("slot/jsonrpc/epochs=n", "block-of-another-slot:jsonrpc:concurrent", c.reqRPCBlock(h, g, p.Absent, nil), c.reqRPCBlock(h, g, p.Stored, present[p.Stored]), spec)
				}
			}
		}
	}()
	rep.CountN("concurrent epochs=n replays with the first request held in its CAR read", c.held)
	rep.CountN("concurrent epochs=n replays without a CAR read to hold", c.notHeld)

	// ---- local CAR files (no gate): goroutines released together
	func() {
		multi, eps, err := vfxMulti(truths[:1], 2)
		if err != nil {
			rep.Note("concurrent replay (local CAR) skipped: %v", err)
			return
		}
		defer func() {
			for _, e := range eps {
				e.Close()
			}
		}()
		ep := eps[0]
		rounds, par := 40, 3
		if vh.Thorough() {
			rounds = 400
		}
		n := 0
		for _, p := range pairs.Slots[:cut(len(pairs.Slots))] {
			c.hammer("slot/local", "block-of-another-slot:concurrent", c.reqEpochBlock(ep, nil, p.Absent, false), c.reqEpochBlock(ep, nil, p.Stored, true), rounds, par, spec)
			c.hammer("slot/local/grpc", "block-of-another-slot:grpc:concurrent", c.reqGrpcBlock(multi, nil, p.Absent, false), c.reqGrpcBlock(multi, nil, p.Stored, true), rounds/8, par, spec)
			n++
		}
		for _, p := range pairs.Sigs[:cut(len(pairs.Sigs))] {
			c.hammer("sig/local", "transaction-of-another-signature:concurrent", c.reqEpochTx(ep, nil, p.Absent, false), c.reqEpochTx(ep, nil, p.Stored, true), rounds, par, spec)
			n++
		}
		for _, p := range pairs.Cids[:cut(len(pairs.Cids))] {
			c.hammer("cid/local", "bytes-of-another-cid:concurrent", c.reqCid(ep, nil, trBig.Spec.Epoch, p.Absent, false), c.reqCid(ep, nil, trBig.Spec.Epoch, p.Stored, true), rounds, par, spec)
			n++
		}
		rep.CountN("concurrent local-CAR pairs hammered", n)
	}()
}

func vc03ObsRes(r vc03Res) string { return r.obs }
