package main

// Verification harness for C09, quiescence part (injected with `go test -overlay`; uses fixture_test.go; not part of
// the repository).
//
// Property clause: "a query addressed to an epoch that stays loaded for the whole query behaves as on an idle server".
// Once every writer has returned and no query is in flight, EVERY epoch stays loaded for the whole of every later query:
// so after ANY interleaving of queries and writers has quiesced, the server must answer every query kind exactly like an
// idle server (freshly started, nothing else running) that holds the same set of epochs.
//
//   (a) forced schedules: a query (getSlot, getFirstAvailableBlock, getBlock, getTransaction, getSignaturesForAddress,
//       getVersion, epoch listing) is started and HELD inside its first CAR read - the CAR of every epoch is served
//       through a ReaderAt of the harness (Epoch.remoteCarReader, the path a remote CAR takes) - while a writer
//       (AddEpoch of a newer / an older epoch, ReplaceOrAddEpoch of the newest / of an absent number, ReplaceEpoch,
//       RemoveEpoch / RemoveEpochByConfigFilepath of an epoch the query is not addressed to, AddEpoch of a loaded number)
//       runs to completion; then the read is released. The overlapping query itself must complete, and - when the writer
//       did not touch an epoch it is addressed to - answer as the idle server does before or after that writer. Then, with
//       nothing running, every probe (all query kinds, every epoch of the pool, loaded or not) is asked several times and
//       compared with an idle server holding the same epochs. Each (query, writer) pair runs on a freshly started server
//       (nothing cached) and, in random order with further writers in between, on one long-lived server.
//   (b) stress: readers issuing the probes and writers changing the set run concurrently (CAR reads yield the processor);
//       probes addressed to a pinned epoch no writer touches are compared with the idle answer all along; after all
//       goroutines have finished the same post-quiescence comparison is made.
// Every epoch value handed to the server is a copy of a loaded Epoch without close hooks (ReplaceOrAddEpoch and
// RemoveEpochByConfigFilepath close the epoch they drop; the files stay open until the end of the test, so an in-flight
// query never reads a closed file - that is not what is examined here). All instances of an epoch number have the same
// content (an epoch's CAR is content-addressed).
// No verdict depends on timing: schedules are forced by the gate; timers only bound how long a blocked party is waited
// for before the gate is opened, and the watchdog that declares a stall.

import (
	"bytes"
	"context"
	"encoding/json"
	"fmt"
	"os"
	"runtime"
	"sort"
	"strings"
	"sync"
	"sync/atomic"
	"testing"
	"time"

	"github.com/allegro/bigcache/v3"
	hugecache "github.com/rpcpool/yellowstone-faithful/huge-cache"
	"github.com/rpcpool/yellowstone-faithful/zzverif/vh"
	"github.com/valyala/fasthttp"
)

const (
	vc09qWatchdog   = 40 * time.Second       // a party that has not returned by then is reported as stalled
	vc09qWriterWait = 300 * time.Millisecond // how long a writer is waited for while the query is held (no verdict)
)

// ---------------------------------------------------------------- CAR behind a gate

// vc09qCtl: one per server. When armed, the next CAR read of ANY epoch of that server announces itself and waits.
type vc09qCtl struct {
	mu      sync.Mutex
	armed   bool
	entered chan struct{}
	release chan struct{}
	yield   atomic.Bool // stress: every CAR read yields the processor first
	reads   atomic.Int64
}

func (c *vc09qCtl) arm() (entered, release chan struct{}) {
	c.mu.Lock()
	defer c.mu.Unlock()
	c.armed = true
	c.entered = make(chan struct{})
	c.release = make(chan struct{})
	return c.entered, c.release
}

func (c *vc09qCtl) disarm() {
	c.mu.Lock()
	c.armed = false
	c.mu.Unlock()
}

func (c *vc09qCtl) pass() {
	c.reads.Add(1)
	if c.yield.Load() {
		runtime.Gosched()
	}
	c.mu.Lock()
	hold := c.armed
	c.armed = false
	entered, release := c.entered, c.release
	c.mu.Unlock()
	if hold {
		close(entered)
		<-release
	}
}

type vc09qCar struct {
	rd  *bytes.Reader
	ctl *vc09qCtl
}

func (g *vc09qCar) ReadAt(p []byte, off int64) (int, error) {
	g.ctl.pass()
	return g.rd.ReadAt(p, off)
}
func (g *vc09qCar) Close() error { return nil }

// ---------------------------------------------------------------- pool of epochs and servers

type vc09qPool struct {
	nums     []uint64 // ascending
	truths   map[uint64]*vfxTruth
	cars     map[uint64][]byte
	baseTest map[uint64]*Epoch // loaded once, instances are copies of these
	baseIdle map[uint64]*Epoch // a second, independent load for the idle reference servers
}

func vc09qNewCache() (*hugecache.Cache, context.CancelFunc, error) {
	cfg := bigcache.DefaultConfig(time.Hour)
	cfg.Shards = 16
	cfg.MaxEntriesInWindow = 4096
	cfg.CleanWindow = 0
	cfg.Verbose = false
	ctx, cancel := context.WithCancel(context.Background())
	c, err := hugecache.NewWithConfig(ctx, cfg)
	if err != nil {
		cancel()
		return nil, nil, err
	}
	return c, cancel, nil
}

// instance: a new Epoch value for epoch k (same indexes, its own gate and the given cache, no close hooks)
func (p *vc09qPool) instance(base map[uint64]*Epoch, k uint64, ctl *vc09qCtl, cache *hugecache.Cache) *Epoch {
	cp := *base[k]
	cp.onClose = nil
	cp.localCarReader = nil
	cp.remoteCarReader = &vc09qCar{rd: bytes.NewReader(p.cars[k]), ctl: ctl}
	cp.allCache = cache
	return &cp
}

type vc09qServer struct {
	pool   *vc09qPool
	base   map[uint64]*Epoch
	multi  *MultiEpoch
	h      func(*fasthttp.RequestCtx)
	ctl    *vc09qCtl
	cache  *hugecache.Cache
	cancel context.CancelFunc
	set    map[uint64]bool // the epochs loaded according to the writers that have returned (sequential parts only)
}

func (p *vc09qPool) newServer(base map[uint64]*Epoch, set []uint64) (*vc09qServer, error) {
	cache, cancel, err := vc09qNewCache()
	if err != nil {
		return nil, err
	}
	s := &vc09qServer{pool: p, base: base, multi: NewMultiEpoch(&Options{EpochSearchConcurrency: 2}), ctl: &vc09qCtl{}, cache: cache, cancel: cancel, set: map[uint64]bool{}}
	for _, k := range set {
		if err := s.multi.AddEpoch(k, p.instance(base, k, s.ctl, cache)); err != nil {
			cancel()
			return nil, err
		}
		s.set[k] = true
	}
	s.h = newMultiEpochHandler(s.multi, nil)
	return s, nil
}

func (s *vc09qServer) close() { s.cancel() }

func (s *vc09qServer) sorted() []uint64 {
	var l []uint64
	for k := range s.set {
		l = append(l, k)
	}
	sort.Slice(l, func(i, j int) bool { return l[i] < l[j] })
	return l
}

func vc09qSetKey(l []uint64) string { return fmt.Sprint(l) }

// ---------------------------------------------------------------- probes (queries) and their observations

const (
	vc09qNewest = -1
	vc09qOldest = -2
	vc09qAll    = -3
	vc09qNone   = -4
)

type vc09qProbe struct {
	key   string
	kind  string
	body  string // JSON-RPC request; "" = the epoch listing accessor
	epoch int64  // the epoch the query is addressed to (number, or one of the constants above)
}

// addressed: the epochs a probe is addressed to when the loaded set is `set` (ascending)
func (q vc09qProbe) addressed(set []uint64) map[uint64]bool {
	m := map[uint64]bool{}
	switch {
	case q.epoch >= 0:
		m[uint64(q.epoch)] = true
	case q.epoch == vc09qNewest && len(set) > 0:
		m[set[len(set)-1]] = true
	case q.epoch == vc09qOldest && len(set) > 0:
		m[set[0]] = true
	case q.epoch == vc09qAll:
		for _, k := range set {
			m[k] = true
		}
	}
	return m
}

// vc09qCanon: what a reply shows - the result (canonical JSON) or the error code; never error text.
func vc09qCanon(body string) string {
	dec := json.NewDecoder(strings.NewReader(body))
	dec.UseNumber()
	var r struct {
		Result interface{} `json:"result"`
		Error  *struct {
			Code json.Number `json:"code"`
		} `json:"error"`
	}
	if err := dec.Decode(&r); err != nil {
		return "unparsable reply"
	}
	if r.Error != nil {
		return "error code " + r.Error.Code.String()
	}
	b, err := json.Marshal(r.Result)
	if err != nil {
		return "unencodable result"
	}
	return "result " + string(b)
}

func (s *vc09qServer) ask(q vc09qProbe) (answer string, panicked bool) {
	defer func() {
		if r := recover(); r != nil {
			answer, panicked = fmt.Sprintf("panic: %v", r), true
		}
	}()
	if q.body == "" {
		return "listing " + fmt.Sprint(s.multi.GetEpochNumbers()), false
	}
	body, _, pan, msg := vfxRPC(s.h, q.body)
	if pan {
		return "panic: " + msg, true
	}
	return vc09qCanon(body), false
}

func vc09qShort(s string) string {
	if len(s) > 300 {
		return s[:300] + fmt.Sprintf("... (%d bytes)", len(s))
	}
	return s
}

func vc09qProbes(p *vc09qPool) []vc09qProbe {
	rpc := func(method, params string) string {
		if params == "" {
			return fmt.Sprintf(`{"jsonrpc":"2.0","id":1,"method":"%s"}`, method)
		}
		return fmt.Sprintf(`{"jsonrpc":"2.0","id":1,"method":"%s","params":%s}`, method, params)
	}
	ps := []vc09qProbe{
		{"getSlot", "getSlot", rpc("getSlot", ""), vc09qNewest},
		{"getFirstAvailableBlock", "getFirstAvailableBlock", rpc("getFirstAvailableBlock", ""), vc09qOldest},
		{"getVersion", "getVersion", rpc("getVersion", ""), vc09qNone},
		{"epoch listing", "listing", "", vc09qNone},
	}
	accounts := map[string]bool{}
	for _, k := range p.nums {
		tr := p.truths[k]
		if len(tr.Blocks) == 0 {
			continue
		}
		blocks := []*vfxBlock{&tr.Blocks[0], &tr.Blocks[len(tr.Blocks)-1]}
		for bi, b := range blocks {
			if bi == 1 && len(tr.Blocks) == 1 {
				break
			}
			which := []string{"first", "last"}[bi]
			ps = append(ps, vc09qProbe{fmt.Sprintf("getBlock(%s block of epoch %d = slot %d)", which, k, b.Slot), "getBlock",
				rpc("getBlock", fmt.Sprintf(`[%d,{"encoding":"base64","maxSupportedTransactionVersion":0,"rewards":false}]`, b.Slot)), int64(k)})
		}
		// a transaction of the first and of the last block that has one
		var txs []*vfxTx
		for i := range tr.Blocks {
			if len(tr.Blocks[i].Txs) > 0 {
				txs = append(txs, &tr.Blocks[i].Txs[0])
				break
			}
		}
		for i := len(tr.Blocks) - 1; i >= 0; i-- {
			if n := len(tr.Blocks[i].Txs); n > 0 {
				if len(txs) == 0 || txs[0] != &tr.Blocks[i].Txs[n-1] {
					txs = append(txs, &tr.Blocks[i].Txs[n-1])
				}
				break
			}
		}
		for _, tx := range txs {
			ps = append(ps, vc09qProbe{fmt.Sprintf("getTransaction(%s of epoch %d)", tx.Sig, k), "getTransaction",
				rpc("getTransaction", fmt.Sprintf(`["%s",{"encoding":"base64","maxSupportedTransactionVersion":0}]`, tx.Sig)), int64(k)})
			if len(tx.Accounts) > 1 {
				accounts[tx.Accounts[1]] = true // an account of the shared universe: its history spans the epochs
			}
		}
	}
	var accs []string
	for a := range accounts {
		accs = append(accs, a)
	}
	sort.Strings(accs)
	if len(accs) > 3 {
		accs = accs[:3]
	}
	for _, a := range accs {
		ps = append(ps, vc09qProbe{fmt.Sprintf("getSignaturesForAddress(%s)", a), "getSignaturesForAddress", rpc("getSignaturesForAddress", fmt.Sprintf(`["%s",{"limit":40}]`, a)), vc09qAll})
	}
	return ps
}

// ---------------------------------------------------------------- writers

type vc09qWriter struct {
	name    string
	touches uint64 // the epoch number it writes
	run     func(s *vc09qServer) error
	apply   func(set map[uint64]bool) // its effect on the set when it succeeds
	fails   bool                      // expected to return an error (and to change nothing)
}

// vc09qWriters: the writers that make sense for the loaded set, given the epochs the overlapping query is addressed to.
func (p *vc09qPool) writers(set []uint64, addressed map[uint64]bool) []vc09qWriter {
	var ws []vc09qWriter
	if len(set) == 0 {
		return ws
	}
	in := map[uint64]bool{}
	for _, k := range set {
		in[k] = true
	}
	newest, oldest := set[len(set)-1], set[0]
	add := func(name string, k uint64) {
		ws = append(ws, vc09qWriter{name: fmt.Sprintf("AddEpoch(%d) [%s]", k, name), touches: k,
			run:   func(s *vc09qServer) error { return s.multi.AddEpoch(k, p.instance(s.base, k, s.ctl, s.cache)) },
			apply: func(m map[uint64]bool) { m[k] = true }})
	}
	var newer, older, absent []uint64
	for _, k := range p.nums {
		if in[k] {
			continue
		}
		absent = append(absent, k)
		if k > newest {
			newer = append(newer, k)
		}
		if k < oldest {
			older = append(older, k)
		}
	}
	if len(newer) > 0 {
		add("newer than every loaded epoch", newer[0])
	}
	if len(older) > 0 {
		add("older than every loaded epoch", older[len(older)-1])
	}
	ws = append(ws, vc09qWriter{name: fmt.Sprintf("ReplaceOrAddEpoch(%d) [the newest, loaded]", newest), touches: newest,
		run:   func(s *vc09qServer) error { return s.multi.ReplaceOrAddEpoch(newest, p.instance(s.base, newest, s.ctl, s.cache)) },
		apply: func(m map[uint64]bool) {}})
	if len(absent) > 0 {
		k := absent[len(absent)-1]
		ws = append(ws, vc09qWriter{name: fmt.Sprintf("ReplaceOrAddEpoch(%d) [not loaded]", k), touches: k,
			run:   func(s *vc09qServer) error { return s.multi.ReplaceOrAddEpoch(k, p.instance(s.base, k, s.ctl, s.cache)) },
			apply: func(m map[uint64]bool) { m[k] = true }})
	}
	ws = append(ws, vc09qWriter{name: fmt.Sprintf("ReplaceEpoch(%d) [the oldest, loaded]", oldest), touches: oldest,
		run:   func(s *vc09qServer) error { return s.multi.ReplaceEpoch(oldest, p.instance(s.base, oldest, s.ctl, s.cache)) },
		apply: func(m map[uint64]bool) {}})
	ws = append(ws, vc09qWriter{name: fmt.Sprintf("AddEpoch(%d) [already loaded: refused]", newest), touches: newest, fails: true,
		run:   func(s *vc09qServer) error { return s.multi.AddEpoch(newest, p.instance(s.base, newest, s.ctl, s.cache)) },
		apply: func(m map[uint64]bool) {}})
	// removal of an epoch the query is NOT addressed to; the other end of the set first (it changes getSlot /
	// getFirstAvailableBlock of the server)
	if len(set) >= 2 {
		var cands []uint64
		for _, k := range []uint64{newest, oldest} {
			if !addressed[k] {
				cands = append(cands, k)
			}
		}
		for _, k := range set {
			if !addressed[k] && k != newest && k != oldest {
				cands = append(cands, k)
			}
		}
		if len(cands) > 0 {
			k := cands[0]
			ws = append(ws, vc09qWriter{name: fmt.Sprintf("RemoveEpoch(%d)", k), touches: k,
				run:   func(s *vc09qServer) error { return s.multi.RemoveEpoch(k) },
				apply: func(m map[uint64]bool) { delete(m, k) }})
			k2 := cands[len(cands)-1]
			path := p.truths[k2].ConfigYml
			ws = append(ws, vc09qWriter{name: fmt.Sprintf("RemoveEpochByConfigFilepath(config of %d)", k2), touches: k2,
				run: func(s *vc09qServer) error {
					_, err := s.multi.RemoveEpochByConfigFilepath(path)
					return err
				},
				apply: func(m map[uint64]bool) { delete(m, k2) }})
		}
	}
	return ws
}

// ---------------------------------------------------------------- the run

type vc09qRun struct {
	rep    *vh.Report
	pool   *vc09qPool
	probes []vc09qProbe
	idle   map[string]map[string]string // set -> probe key -> idle answer ("" = the idle answers themselves vary)
	stuck  bool
	nfail  map[string]int
}

func (r *vc09qRun) fail(sig, detail string, replay map[string]interface{}) {
	r.nfail[sig]++
	r.rep.Fail(sig, detail, replay)
}

// idleAnswers: what a freshly started server holding exactly `set` answers to every probe, nothing else running.
func (r *vc09qRun) idleAnswers(set []uint64) map[string]string {
	key := vc09qSetKey(set)
	if a, ok := r.idle[key]; ok {
		return a
	}
	ans := map[string]string{}
	for round := 0; round < 2; round++ { // two servers, two questions each: an answer that varies by itself is not compared
		s, err := r.pool.newServer(r.pool.baseIdle, set)
		if err != nil {
			r.rep.Note("idle reference server for epochs %v could not be started: %v", set, err)
			break
		}
		for _, q := range r.probes {
			for k := 0; k < 2; k++ {
				a, _ := s.ask(q)
				if prev, ok := ans[q.key]; ok && prev != a {
					ans[q.key] = ""
					r.rep.Count("idle-answer-varies-not-compared")
				} else if !ok {
					ans[q.key] = a
				}
			}
		}
		s.close()
	}
	r.idle[key] = ans
	r.rep.Count("idle-reference-servers")
	return ans
}

// compare: with nothing running, the server must answer every probe as the idle server with the same epochs.
func (r *vc09qRun) compare(s *vc09qServer, set []uint64, rounds int, sample int, rng *vh.Rng, ctx map[string]interface{}, what string) {
	idle := r.idleAnswers(set)
	for round := 0; round < rounds; round++ {
		for _, q := range r.probes {
			if sample > 0 && rng.Intn(len(r.probes)) >= sample {
				continue
			}
			want := idle[q.key]
			if want == "" {
				continue
			}
			got, panicked := s.ask(q)
			r.rep.Case(fmt.Sprintf("quiescent/%s/%s/%s", what, vc09qSetKey(set), q.key), true)
			r.rep.Count("post-quiescence comparisons: " + q.kind)
			if got == want {
				continue
			}
			if r.nfail["stale-after-quiescence"]+r.nfail["handler-panic"] >= 25 {
				r.rep.Count("post-quiescence differences not reported in detail")
				continue
			}
			rp := map[string]interface{}{"part": what, "query": q.key, "epochs_loaded": set, "observed": vc09qShort(got), "idle_server_answers": vc09qShort(want), "asked_again": round}
			for k, v := range ctx {
				rp[k] = v
			}
			if panicked {
				r.fail("handler-panic", fmt.Sprintf("%s: with nothing else running, %s panicked: %s", what, q.key, vc09qShort(got)), rp)
				continue
			}
			r.fail("stale-after-quiescence", fmt.Sprintf("%s: every writer has returned and no query is in flight, epochs %v are loaded; %s (question %d after quiescence) is answered with %s, an idle server holding the same epochs answers %s [%v]",
				what, set, q.key, round+1, vc09qShort(got), vc09qShort(want), ctx), rp)
		}
	}
}

// wait for a channel with the watchdog
func vc09qWait(ch <-chan struct{}, d time.Duration) bool {
	tm := time.NewTimer(d)
	defer tm.Stop()
	select {
	case <-ch:
		return true
	case <-tm.C:
		return false
	}
}

// forced: query q is started and held in its first CAR read, writer w runs to completion, the read is released.
// Returns false when a party stalled (the server is then abandoned).
func (r *vc09qRun) forced(s *vc09qServer, q vc09qProbe, w vc09qWriter, what string) bool {
	pre := s.sorted()
	post := map[uint64]bool{}
	for k := range s.set {
		post[k] = true
	}
	if !w.fails {
		w.apply(post)
	}
	var postL []uint64
	for k := range post {
		postL = append(postL, k)
	}
	sort.Slice(postL, func(i, j int) bool { return postL[i] < postL[j] })
	ctx := map[string]interface{}{"overlapping_query": q.key, "writer": w.name, "epochs_before": pre, "epochs_after": postL,
		"schedule": "query starts; held in its first CAR read; writer runs start to finish; read released; query ends"}

	entered, release := s.ctl.arm()
	var qAns string
	var qPan bool
	qDone := make(chan struct{})
	go func() { defer close(qDone); qAns, qPan = s.ask(q) }()
	held := false
	select {
	case <-entered:
		held = true
	case <-qDone:
		s.ctl.disarm()
	case <-time.After(vc09qWatchdog):
		s.ctl.disarm()
		close(release)
		r.stuck = true
		r.fail("stall", fmt.Sprintf("%s: %s neither reached a CAR read nor returned within %v although nothing else was running", what, q.key, vc09qWatchdog), ctx)
		return false
	}
	ctx["query_held_in_car_read"] = held
	var wErr error
	var wPan interface{}
	wDone := make(chan struct{})
	go func() {
		defer close(wDone)
		defer func() { wPan = recover() }()
		wErr = w.run(s)
	}()
	if held {
		if !vc09qWait(wDone, vc09qWriterWait) {
			r.rep.Count("writer still waiting when the held read was released (not a failure)")
		}
	}
	close(release)
	if !vc09qWait(qDone, vc09qWatchdog) || !vc09qWait(wDone, vc09qWatchdog) {
		r.stuck = true
		r.fail("stall", fmt.Sprintf("%s: after the held CAR read was released, %s and %s did not both return within %v", what, q.key, w.name, vc09qWatchdog), ctx)
		return false
	}
	r.rep.Case(fmt.Sprintf("forced/%s/%s/%s|%s", what, vc09qSetKey(pre), q.key, w.name), held)
	if held {
		r.rep.Count("forced schedules with the query held in a CAR read: " + q.kind)
	} else {
		r.rep.Count("forced schedules without a CAR read to hold (query ran first): " + q.kind)
	}
	if wPan != nil {
		r.fail("writer-panic", fmt.Sprintf("%s: %s panicked while %s was in flight: %v", what, w.name, q.key, wPan), ctx)
	} else if (wErr != nil) != w.fails {
		r.fail("writer-outcome", fmt.Sprintf("%s: %s on epochs %v returned error=%v while %s was in flight; on an idle server it %s", what, w.name, pre, wErr, q.key,
			map[bool]string{true: "is refused", false: "succeeds"}[w.fails]), ctx)
	}
	if wErr == nil && wPan == nil {
		w.apply(s.set)
	}
	// the overlapping query
	if qPan {
		r.fail("handler-panic", fmt.Sprintf("%s: %s, overlapped by %s, panicked: %s", what, q.key, w.name, vc09qShort(qAns)), ctx)
	} else if !q.addressed(pre)[w.touches] {
		a, b := r.idleAnswers(pre)[q.key], r.idleAnswers(postL)[q.key]
		if a != "" && b != "" && qAns != a && qAns != b {
			c2 := map[string]interface{}{"observed": vc09qShort(qAns), "idle_before_writer": vc09qShort(a), "idle_after_writer": vc09qShort(b)}
			for k, v := range ctx {
				c2[k] = v
			}
			r.fail("isolated-query-changed", fmt.Sprintf("%s: %s is addressed to epochs that %s does not touch, but its answer %s is neither what an idle server with epochs %v answers (%s) nor with epochs %v (%s)",
				what, q.key, w.name, vc09qShort(qAns), pre, vc09qShort(a), postL, vc09qShort(b)), c2)
		}
	} else {
		r.rep.Count("overlapping query addressed to the written epoch: answer not judged")
	}
	return true
}

func TestVerif_C09Quiesce(t *testing.T) {
	rng := vh.NewRng(vh.Seed() + 0xC09)
	rep := vh.NewReport("C09", "quiesce",
		"forced schedules: every query kind held in its first CAR read x every writer kind (fresh server per pair, then random pairs with further writers in between on one long-lived server); "+
			"after each: all probes (every query kind x every epoch of a 4-epoch pool) asked repeatedly and compared with a freshly started idle server holding the same epochs; "+
			"stress: readers x writers on generated epochs, pinned-epoch probes compared all along, same comparison after the goroutines have finished; non-trivial forced case = the query was actually held; distinct by content")
	finish := func() {
		if err := rep.Write(); err != nil {
			t.Fatal(err)
		}
	}
	// ---- pool: four small generated epochs (CAR + all indexes + gsfa by the repository's own indexers)
	nums := []uint64{40, 41, 43, 44}
	var specs []vfxSpec
	for i, k := range nums {
		sp := vfxDefaultSpec(fmt.Sprintf("c09q%d", k), k, vh.Seed()*31+uint64(i))
		sp.NumSlots, sp.SkipPercent, sp.MaxEntries, sp.MaxTx, sp.Accounts, sp.Gsfa = 10, 20, 2, 2, 3, true
		sp.FirstRel = uint64(rng.Pick(0, 5, 1000))
		specs = append(specs, sp)
	}
	defer func() {
		for _, sp := range specs {
			_ = os.RemoveAll(sp.Dir)
		}
	}()
	truths, err := vfxBuild(specs)
	if err != nil {
		t.Fatalf("setup failed: %v", err)
	}
	pool := &vc09qPool{truths: map[uint64]*vfxTruth{}, cars: map[uint64][]byte{}, baseTest: map[uint64]*Epoch{}, baseIdle: map[uint64]*Epoch{}}
	var closeAll []*Epoch
	defer func() {
		for _, ep := range closeAll {
			ep.Close()
		}
	}()
	loadCache, cancelLoad, err := vc09qNewCache()
	if err != nil {
		t.Fatalf("setup failed: %v", err)
	}
	defer cancelLoad()
	for i, tr := range truths {
		k := nums[i]
		// an epoch that does not build or load on this tree is left out; the rest still runs
		if tr == nil || tr.BuildErr != "" {
			why := "no result"
			if tr != nil {
				why = tr.BuildErr
			}
			rep.Note("epoch %d left out: it could not be built on this tree: %s", k, why)
			continue
		}
		car, err := os.ReadFile(tr.CarPath)
		if err != nil {
			rep.Note("epoch %d left out: %v", k, err)
			continue
		}
		a, err := vfxLoad(tr, loadCache)
		if err != nil {
			rep.Note("epoch %d left out: it does not load on this tree: %v", k, err)
			continue
		}
		closeAll = append(closeAll, a)
		b, err := vfxLoad(tr, loadCache)
		if err != nil {
			rep.Note("epoch %d left out: it does not load a second time: %v", k, err)
			continue
		}
		closeAll = append(closeAll, b)
		pool.nums = append(pool.nums, k)
		pool.truths[k], pool.cars[k], pool.baseTest[k], pool.baseIdle[k] = tr, car, a, b
	}
	rep.Flag("epochs_in_pool", pool.nums)
	if len(pool.nums) < 3 {
		rep.Note("fewer than three epochs build and load on this tree: quiescence part skipped")
		finish()
		return
	}
	run := &vc09qRun{rep: rep, pool: pool, probes: vc09qProbes(pool), idle: map[string]map[string]string{}, nfail: map[string]int{}}
	rep.Flag("probes", len(run.probes))
	// the base set: the middle epochs, so that a newer and an older one can be added
	baseSet := pool.nums[1 : len(pool.nums)-1]
	if len(pool.nums) == 3 {
		baseSet = pool.nums[:2]
	}
	// the queries that are held: one per kind and addressed end of the set
	var heldQs []vc09qProbe
	{
		newest, oldest := baseSet[len(baseSet)-1], baseSet[0]
		seen := map[string]bool{}
		for _, q := range run.probes {
			tag := q.kind
			if q.epoch >= 0 {
				if uint64(q.epoch) != newest && uint64(q.epoch) != oldest {
					continue
				}
				tag += fmt.Sprint("/", q.epoch)
			}
			if !seen[tag] {
				seen[tag] = true
				heldQs = append(heldQs, q)
			}
		}
	}
	rep.Flag("held_queries", len(heldQs))
	{
		// what the idle reference answers for the base set (evidence that the probes reach the archive)
		idle := run.idleAnswers(baseSet)
		nres, nerr := 0, 0
		smp := map[string]string{}
		for _, q := range run.probes {
			a := idle[q.key]
			if strings.HasPrefix(a, "result ") && a != "result null" {
				nres++
			} else {
				nerr++
			}
			if len(a) > 120 {
				a = a[:120] + "..."
			}
			smp[q.key] = a
		}
		rep.Flag("idle_base_set_probes_answered_with_a_result", nres)
		rep.Flag("idle_base_set_probes_answered_null_or_error", nerr)
		rep.Sample(map[string]interface{}{"epochs_loaded": baseSet, "idle_server_answers": smp})
	}

	// ---------------- (a1) every (query, writer) pair on a freshly started server
	for _, q := range heldQs {
		if run.stuck {
			break
		}
		for wi := 0; ; wi++ {
			s, err := pool.newServer(pool.baseTest, baseSet)
			if err != nil {
				rep.Note("forced schedules: server could not be started: %v", err)
				break
			}
			ws := pool.writers(s.sorted(), q.addressed(s.sorted()))
			if wi >= len(ws) {
				s.close()
				break
			}
			w := ws[wi]
			ok := run.forced(s, q, w, "forced schedule on a freshly started server")
			if ok {
				run.compare(s, s.sorted(), 2, 0, rng, map[string]interface{}{"overlapping_query": q.key, "writer": w.name, "epochs_before": baseSet,
					"schedule": "query starts; held in its first CAR read; writer runs start to finish; read released; query ends; then every probe"}, "forced schedule on a freshly started server")
			}
			s.close()
			if !ok {
				break
			}
		}
	}
	// ---------------- (a2) one long-lived server: random pairs, further writers in between, probes now and then
	steps := 40
	if vh.Thorough() {
		steps = 600
	}
	if !run.stuck {
		s, err := pool.newServer(pool.baseTest, baseSet)
		if err != nil {
			rep.Note("long-lived server could not be started: %v", err)
		} else {
			var history []string
			for st := 0; st < steps && !run.stuck; st++ {
				if len(s.set) == 0 { // everything was removed: load the base set again
					for _, k := range baseSet {
						if s.multi.AddEpoch(k, pool.instance(s.base, k, s.ctl, s.cache)) == nil {
							s.set[k] = true
						}
					}
					history = append(history, "base set loaded again")
				}
				if rng.Intn(2) == 0 { // a writer on its own first (whatever the server memoised is now older than a writer)
					ws := pool.writers(s.sorted(), map[uint64]bool{})
					w := ws[rng.Intn(len(ws))]
					if err := w.run(s); err == nil {
						w.apply(s.set)
					}
					history = append(history, w.name)
					if len(s.set) == 0 {
						continue
					}
				}
				q := heldQs[rng.Intn(len(heldQs))]
				if q.epoch >= 0 && !s.set[uint64(q.epoch)] {
					q = heldQs[0]
				}
				ws := pool.writers(s.sorted(), q.addressed(s.sorted()))
				w := ws[rng.Intn(len(ws))]
				history = append(history, q.key+" || "+w.name)
				if len(history) > 12 {
					history = history[len(history)-12:]
				}
				if !run.forced(s, q, w, "forced schedule on a long-lived server") {
					break
				}
				if rng.Intn(2) == 0 {
					run.compare(s, s.sorted(), 1, 8, rng, map[string]interface{}{"last_steps": append([]string(nil), history...)}, "forced schedule on a long-lived server")
				}
			}
			if !run.stuck {
				run.compare(s, s.sorted(), 2, 0, rng, map[string]interface{}{"last_steps": append([]string(nil), history...)}, "forced schedule on a long-lived server")
			}
			s.close()
		}
	}
	// ---------------- (b) stress on generated epochs, comparison after the goroutines have finished
	procsList := []int{2, 8}
	dur := 350 * time.Millisecond
	if vh.Thorough() {
		procsList, dur = []int{2, 3, 4, 8, 16}, 6*time.Second
	}
	old := runtime.GOMAXPROCS(0)
	for _, procs := range procsList {
		if run.stuck {
			break
		}
		runtime.GOMAXPROCS(procs)
		run.stress(rng.U64(), procs, dur)
	}
	runtime.GOMAXPROCS(old)
	rep.Note("every Epoch value given to a server is a copy without close hooks of an epoch loaded once (the files stay open until the end): queries never read a closed file here")
	rep.Note("all instances of an epoch number have the same content; replacing an epoch by a DIFFERENT archive of the same number is not examined")
	rep.Note("replay: the schedules are forced and deterministic; re-running with the same seed repeats them")
	finish()
}

// stress: readers (all probes) and writers on one server; the pinned epoch is never written.
func (r *vc09qRun) stress(seed uint64, procs int, dur time.Duration) {
	pool := r.pool
	pinned := pool.nums[1]
	s, err := pool.newServer(pool.baseTest, []uint64{pool.nums[0], pinned})
	if err != nil {
		r.rep.Note("stress server could not be started: %v", err)
		return
	}
	defer s.close()
	s.ctl.yield.Store(true)
	what := fmt.Sprintf("stress GOMAXPROCS=%d", procs)
	// idle answers of the pinned probes do not depend on the other epochs: take them from the pinned-only server
	pinnedIdle := r.idleAnswers([]uint64{pinned})
	var pinnedProbes []vc09qProbe
	for _, q := range r.probes {
		if q.epoch == int64(pinned) && pinnedIdle[q.key] != "" {
			pinnedProbes = append(pinnedProbes, q)
		}
	}
	const nReaders, nWriters = 6, 2
	var stop atomic.Bool
	var wg sync.WaitGroup
	var omu sync.Mutex
	type obsFail struct {
		sig, detail string
		rp          map[string]interface{}
	}
	var fails []obsFail
	var reads, writes atomic.Int64
	var current [nReaders + nWriters]atomic.Value
	for g := 0; g < nReaders; g++ {
		g := g
		rr := vh.NewRng(seed + uint64(g)*7919)
		wg.Add(1)
		go func() {
			defer wg.Done()
			for !stop.Load() {
				var q vc09qProbe
				isPinned := len(pinnedProbes) > 0 && rr.Intn(3) == 0
				if isPinned {
					q = pinnedProbes[rr.Intn(len(pinnedProbes))]
				} else {
					q = r.probes[rr.Intn(len(r.probes))]
				}
				current[g].Store(q.key)
				got, panicked := s.ask(q)
				current[g].Store("")
				reads.Add(1)
				if panicked {
					omu.Lock()
					if len(fails) < 5 {
						fails = append(fails, obsFail{"handler-panic", fmt.Sprintf("%s: %s panicked while writers were running: %s", what, q.key, vc09qShort(got)), map[string]interface{}{"part": what, "query": q.key}})
					}
					omu.Unlock()
					continue
				}
				if isPinned && got != pinnedIdle[q.key] {
					omu.Lock()
					if len(fails) < 5 {
						fails = append(fails, obsFail{"isolated-query-changed", fmt.Sprintf("%s: epoch %d is loaded for the whole run and no writer touches it, but %s was answered with %s; an idle server answers %s",
							what, pinned, q.key, vc09qShort(got), vc09qShort(pinnedIdle[q.key])), map[string]interface{}{"part": what, "query": q.key, "observed": vc09qShort(got), "idle_server_answers": vc09qShort(pinnedIdle[q.key])}})
					}
					omu.Unlock()
				}
			}
		}()
	}
	var others []uint64
	for _, k := range pool.nums {
		if k != pinned {
			others = append(others, k)
		}
	}
	for w := 0; w < nWriters; w++ {
		g := nReaders + w
		rr := vh.NewRng(seed + 104729*uint64(w+1))
		wg.Add(1)
		go func() {
			defer wg.Done()
			for !stop.Load() {
				k := others[rr.Intn(len(others))]
				switch rr.Intn(5) {
				case 0:
					current[g].Store("AddEpoch")
					_ = s.multi.AddEpoch(k, pool.instance(s.base, k, s.ctl, s.cache))
				case 1:
					current[g].Store("ReplaceOrAddEpoch")
					_ = s.multi.ReplaceOrAddEpoch(k, pool.instance(s.base, k, s.ctl, s.cache))
				case 2:
					current[g].Store("RemoveEpoch")
					_ = s.multi.RemoveEpoch(k)
				case 3:
					current[g].Store("RemoveEpochByConfigFilepath")
					_, _ = s.multi.RemoveEpochByConfigFilepath(pool.truths[k].ConfigYml)
				default:
					current[g].Store("ReplaceEpoch")
					_ = s.multi.ReplaceEpoch(k, pool.instance(s.base, k, s.ctl, s.cache))
				}
				current[g].Store("")
				writes.Add(1)
				runtime.Gosched()
			}
		}()
	}
	time.Sleep(dur)
	stop.Store(true)
	done := make(chan struct{})
	go func() { wg.Wait(); close(done) }()
	if !vc09qWait(done, vc09qWatchdog) {
		var in []string
		for i := range current {
			if v, _ := current[i].Load().(string); v != "" {
				in = append(in, v)
			}
		}
		sort.Strings(in)
		r.stuck = true
		r.fail("stall", fmt.Sprintf("%s: after %d queries and %d writer calls some goroutine did not finish its current operation within %v; still inside: %v", what, reads.Load(), writes.Load(), vc09qWatchdog, in),
			map[string]interface{}{"part": what, "stuck_in": in})
		return
	}
	r.rep.CountN("stress queries", int(reads.Load()))
	r.rep.CountN("stress writer calls", int(writes.Load()))
	r.rep.Case(what, true)
	for _, f := range fails {
		r.fail(f.sig, f.detail, f.rp)
	}
	// quiescent now: the set is whatever the writers left
	final := s.multi.GetEpochNumbers()
	sort.Slice(final, func(i, j int) bool { return final[i] < final[j] })
	ok := true
	for i, k := range final {
		if _, in := pool.truths[k]; !in || (i > 0 && final[i-1] == k) {
			ok = false
		}
	}
	if !ok {
		r.fail("listing-unsorted", fmt.Sprintf("%s: after the run the listing is %v (duplicates or numbers never added)", what, final), map[string]interface{}{"part": what})
		return
	}
	s.ctl.yield.Store(false)
	rr := vh.NewRng(seed)
	r.compare(s, final, 2, 0, rr, map[string]interface{}{"after": fmt.Sprintf("%d queries and %d writer calls running concurrently, all finished", reads.Load(), writes.Load())}, what)
}
