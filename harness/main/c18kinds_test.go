package main

// Verification harness for C18, second part (injected with `go test -overlay` together with c18_test.go).
//
// The property quantifies over "any set of per-epoch search jobs": the ERROR VALUE a failing job returns is part
// of the job. c18_test.go enumerates outcome vectors with one plain error value per failing job; this file
// enumerates outcome vectors over an alphabet of error KINDS (plain value, ErrNotFound sentinel, an ErrorSlice with
// 1/2/3 elements as returned by a nested group, an error wrapping / being context.DeadlineExceeded or
// context.Canceled of a JOB-LOCAL sub-context, a pointer-typed custom error), with the request context live
// throughout, x completion orders x limits.
//
// Oracle (property text): if any job succeeds the result is a job's success value; otherwise the result is an
// ErrorSlice with exactly one entry per job — the entry of a job is the very error value it returned (matched by
// identity, or carried in the entry's errors.Is / errors.As chain), whatever its type.
// The observations are also written as Coq cases for YF.FSCheck.check (the error value of a job is an opaque id
// there; equal sentinels share an id).

import (
	"context"
	"errors"
	"fmt"
	"reflect"
	"runtime"
	"sort"
	"strings"
	"sync"
	"sync/atomic"
	"testing"
	"time"

	"github.com/rpcpool/yellowstone-faithful/zzverif/vh"
)

type vc18Kind int

const (
	vc18Succ         vc18Kind = iota // the job succeeds
	vc18Plain                        // comparable value-typed custom error (vc18Err)
	vc18NotFound                     // the ErrNotFound sentinel
	vc18Slice1                       // ErrorSlice with 1 element (a job that ran its own group)
	vc18Slice2                       // ErrorSlice with 2 elements
	vc18Slice3                       // ErrorSlice with 3 elements
	vc18WrapDeadline                 // fmt.Errorf("...: %w", sub.Err()), sub = context.WithTimeout(ctx, 1ns) inside the job
	vc18WrapCanceled                 // fmt.Errorf("...: %w", sub.Err()), sub = context.WithCancel(ctx) cancelled inside the job
	vc18Ptr                          // pointer-typed custom error (never a typed nil)
	vc18RawDeadline                  // sub.Err() itself (== context.DeadlineExceeded) of a job-local sub-context
	vc18RawCanceled                  // sub.Err() itself (== context.Canceled) of a job-local sub-context
	vc18NKinds
)

var vc18KindNames = [...]string{"ok", "plain", "notfound", "slice1", "slice2", "slice3", "wrap-deadline", "wrap-canceled", "ptr", "raw-deadline", "raw-canceled"}

func (k vc18Kind) String() string { return vc18KindNames[k] }

type vc18PtrErr struct{ code uint64 }

func (e *vc18PtrErr) Error() string { return fmt.Sprintf("p%d", e.code) }

// vc18Code is the opaque id of job i's error in the Coq case (equal sentinel values share one id; 0 = ErrNotFound
// as in FSCheck.not_found_code).
func vc18Code(k vc18Kind, i int) uint64 {
	switch k {
	case vc18NotFound:
		return 0
	case vc18RawDeadline:
		return 1
	case vc18RawCanceled:
		return 2
	}
	return uint64(k)*100 + 10 + uint64(i)
}

func vc18Val(i int) uint64 { return uint64(100 + i) }

// vc18MakeErr builds, INSIDE the job and from the context the job was given, the error job i returns.
func vc18MakeErr(ctx context.Context, k vc18Kind, i int) error {
	switch k {
	case vc18Plain:
		return vc18Err{vc18Code(k, i)}
	case vc18NotFound:
		return ErrNotFound
	case vc18Slice1, vc18Slice2, vc18Slice3:
		m := int(k-vc18Slice1) + 1
		es := make(ErrorSlice, m)
		for j := range es {
			if j == 0 {
				es[j] = ErrNotFound
			} else {
				es[j] = vc18Err{uint64(9000 + 10*i + j)}
			}
		}
		return es
	case vc18WrapDeadline, vc18RawDeadline:
		sub, cancel := context.WithTimeout(ctx, time.Nanosecond)
		defer cancel()
		<-sub.Done()
		if k == vc18RawDeadline {
			return sub.Err()
		}
		return fmt.Errorf("failed to check if signature exists in bucket: %w", sub.Err())
	case vc18WrapCanceled, vc18RawCanceled:
		sub, cancel := context.WithCancel(ctx)
		cancel()
		<-sub.Done()
		if k == vc18RawCanceled {
			return sub.Err()
		}
		return fmt.Errorf("failed to get epoch %d: %w", i, sub.Err())
	case vc18Ptr:
		return &vc18PtrErr{vc18Code(k, i)}
	}
	panic("vc18MakeErr: not a failing kind")
}

type vc18KCase struct {
	Kinds []string `json:"kinds"` // per job: what it returns
	Limit int      `json:"limit"`
	Order []int    `json:"order"` // order in which the jobs' gates are opened
	Entry string   `json:"entry"` // FirstSuccess | JobGroup.RunWithConcurrency
	kinds []vc18Kind
}

type vc18KObs struct {
	val      uint64
	err      error
	handed   []error // handed[i]: the error value job i returned (nil: it succeeded or has not returned)
	timedOut bool
	panicked string
}

// vc18RunKinds runs one gated call with a live request context.
func vc18RunKinds(kinds []vc18Kind, limit int, order []int, useJobGroup bool) vc18KObs {
	n := len(kinds)
	gates := make([]chan struct{}, n)
	started := make([]atomic.Bool, n)
	returned := make([]atomic.Bool, n)
	var nStarted atomic.Int32
	var finished atomic.Bool
	var mu sync.Mutex
	handed := make([]error, n)
	for i := range gates {
		gates[i] = make(chan struct{})
	}
	fns := make([]JobFunc[uint64], n)
	for i := 0; i < n; i++ {
		i := i
		fns[i] = func(ctx context.Context) (uint64, error) {
			started[i].Store(true)
			nStarted.Add(1)
			<-gates[i]
			defer returned[i].Store(true)
			if kinds[i] == vc18Succ {
				return vc18Val(i), nil
			}
			e := vc18MakeErr(ctx, kinds[i], i)
			mu.Lock()
			handed[i] = e
			mu.Unlock()
			return 0, e
		}
	}
	type res struct {
		v     uint64
		err   error
		panic string
	}
	done := make(chan res, 1)
	go func() {
		var r res
		defer func() {
			if p := recover(); p != nil {
				r.panic = fmt.Sprint(p)
			}
			done <- r
		}()
		if useJobGroup {
			jg := NewJobGroup[uint64]()
			for _, f := range fns {
				jg.Add(f)
			}
			r.v, r.err = jg.RunWithConcurrency(context.Background(), limit)
		} else {
			r.v, r.err = FirstSuccess(context.Background(), limit, fns...)
		}
	}()
	// controller: open the gates in the requested order; after each, wait (bounded) for that job to have returned.
	// This only steers the schedule towards the requested completion order; no assertion depends on it.
	go func() {
		want := n
		if limit > 0 && limit < n {
			want = limit
		}
		t0 := time.Now()
		for k := 0; int(nStarted.Load()) < want && !finished.Load(); k++ { // let the launch phase settle
			if k < 200 {
				runtime.Gosched()
			} else {
				if time.Since(t0) > 2*time.Millisecond {
					break
				}
				time.Sleep(5 * time.Microsecond)
			}
		}
		for _, i := range order {
			close(gates[i])
			if finished.Load() {
				continue
			}
			t1 := time.Now()
			for k := 0; !returned[i].Load() && !finished.Load(); k++ {
				if !started[i].Load() && k > 50 {
					break // not launched yet (blocked by the limit): it runs through when launched
				}
				if k < 300 {
					runtime.Gosched()
				} else {
					if time.Since(t1) > 10*time.Millisecond {
						break
					}
					time.Sleep(5 * time.Microsecond)
				}
			}
			for k := 0; k < 8; k++ { // let the worker push its result
				runtime.Gosched()
			}
		}
	}()
	var o vc18KObs
	select {
	case r := <-done:
		finished.Store(true)
		o.val, o.err, o.panicked = r.v, r.err, r.panic
	case <-time.After(10 * time.Second):
		finished.Store(true)
		o.timedOut = true
	}
	mu.Lock()
	o.handed = append([]error(nil), handed...)
	mu.Unlock()
	return o
}

// vc18SameSlice: two ErrorSlice values are the same slice (same backing array and length).
func vc18SameSlice(a, b ErrorSlice) bool {
	return len(a) == len(b) && len(a) > 0 && &a[0] == &b[0]
}

// vc18Same: entry IS the value the job returned.
func vc18Same(entry, want error) (same bool) {
	defer func() {
		if recover() != nil {
			same = false
		}
	}()
	if entry == nil || want == nil {
		return false
	}
	ws, wIs := want.(ErrorSlice)
	es, eIs := entry.(ErrorSlice)
	if wIs || eIs {
		return wIs && eIs && vc18SameSlice(ws, es)
	}
	if !reflect.TypeOf(entry).Comparable() || !reflect.TypeOf(want).Comparable() {
		return false
	}
	return entry == want
}

// vc18Carries: the job's value is visible through the entry (the entry is it, or wraps it).
func vc18Carries(entry, want error) (ok bool) {
	defer func() {
		if recover() != nil {
			ok = false
		}
	}()
	if entry == nil || want == nil {
		return false
	}
	if vc18Same(entry, want) {
		return true
	}
	if ws, isSlice := want.(ErrorSlice); isSlice {
		var es ErrorSlice
		return errors.As(entry, &es) && vc18SameSlice(ws, es)
	}
	return errors.Is(entry, want)
}

// vc18Match assigns list entries to jobs: first by identity, then (maximum bipartite matching) by vc18Carries.
// Returns jobOf[e] (job index of entry e, -1 = no job) and entryOf[j] (-1 = job j's error is not in the list).
func vc18Match(entries []error, handed []error, failing []bool) (jobOf []int, entryOf []int) {
	jobOf = make([]int, len(entries))
	entryOf = make([]int, len(handed))
	for e := range jobOf {
		jobOf[e] = -1
	}
	for j := range entryOf {
		entryOf[j] = -1
	}
	for e, en := range entries {
		for j := range handed {
			if failing[j] && entryOf[j] < 0 && vc18Same(en, handed[j]) {
				jobOf[e], entryOf[j] = j, e
				break
			}
		}
	}
	var try func(e int, seen []bool) bool
	try = func(e int, seen []bool) bool {
		for j := range handed {
			if !failing[j] || seen[j] || !vc18Carries(entries[e], handed[j]) {
				continue
			}
			seen[j] = true
			if entryOf[j] < 0 || try(entryOf[j], seen) {
				jobOf[e], entryOf[j] = j, e
				return true
			}
		}
		return false
	}
	for e := range entries {
		if jobOf[e] < 0 {
			try(e, make([]bool, len(handed)))
		}
	}
	return
}

func vc18KindsKey(ks []vc18Kind) string {
	s := make([]string, len(ks))
	for i, k := range ks {
		s[i] = k.String()
	}
	return strings.Join(s, ",")
}

// vc18Vectors: every vector of length n over the alphabet.
func vc18Vectors(n int, alphabet []vc18Kind) [][]vc18Kind {
	res := [][]vc18Kind{{}}
	for p := 0; p < n; p++ {
		var next [][]vc18Kind
		for _, v := range res {
			for _, k := range alphabet {
				next = append(next, append(append([]vc18Kind(nil), v...), k))
			}
		}
		res = next
	}
	return res
}

// vc18Family: vectors of length n with at most one success and at most `specials` failing jobs of a non-plain
// kind (any kind, any position); the other jobs fail with a plain error. The all-plain vectors are left to c18_test.go.
func vc18Family(n, specials int, special []vc18Kind) [][]vc18Kind {
	seen := map[string]bool{}
	var res [][]vc18Kind
	var rec func(v []vc18Kind, pos, left int)
	rec = func(v []vc18Kind, pos, left int) {
		if pos == n {
			if left == specials {
				return // no special at all
			}
			for s := -1; s < n; s++ {
				w := append([]vc18Kind(nil), v...)
				if s >= 0 {
					if w[s] != vc18Plain {
						continue
					}
					w[s] = vc18Succ
				}
				if k := vc18KindsKey(w); !seen[k] {
					seen[k] = true
					res = append(res, w)
				}
			}
			return
		}
		rec(append(v, vc18Plain), pos+1, left)
		if left > 0 {
			for _, k := range special {
				rec(append(append([]vc18Kind(nil), v...), k), pos+1, left-1)
			}
		}
	}
	rec(nil, 0, specials)
	return res
}

func TestVerif_C18Kinds(t *testing.T) {
	core := []vc18Kind{vc18Succ, vc18Plain, vc18NotFound, vc18Slice1, vc18Slice2, vc18Slice3, vc18WrapDeadline, vc18WrapCanceled, vc18Ptr}
	var all, special []vc18Kind
	for k := vc18Succ; k < vc18NKinds; k++ {
		all = append(all, k)
		if k != vc18Succ && k != vc18Plain {
			special = append(special, k)
		}
	}
	thorough := vh.Thorough()
	rule := "a job returns success or an error of one of the kinds " + strings.Join(vc18KindNames[1:], "/") +
		" (context errors come from a job-local sub-context; the request context is live). Exhaustive: every vector over all kinds for 1..2 jobs, " +
		"every vector over ok/plain/notfound/slice1-3/wrap-deadline/wrap-canceled/ptr for 3 jobs, and for 4 jobs every vector with at most one success, " +
		"exactly one failing job of a non-plain kind and plain errors otherwise — each x every completion order x limits -1,1..n. " +
		"In addition a seeded sample of (vector over all kinds, order, limit) for 4 jobs. " +
		"Thorough: all kinds for 3 jobs, the family also with two non-plain jobs (4 jobs) and for 5 jobs, larger samples for 4 and 5 jobs. " +
		"A case is non-trivial when it has >= 2 jobs; distinct by (kinds,limit,order)"
	rep := vh.NewReport("C18", "errorkinds", rule)
	rep.Exhaustive = true
	cases := vh.NewCases("cases_c18kinds", []string{"YF.FS", "YF.FSCheck"}, "case", "check")
	rng := vh.NewRng(vh.Seed() ^ 0xC18C18)

	type work struct {
		kinds []vc18Kind
		limit int
		order []int
	}
	var todo []work
	addAll := func(vectors [][]vc18Kind) {
		for _, v := range vectors {
			n := len(v)
			for _, order := range vc18Perms(n) {
				todo = append(todo, work{v, -1, order})
				for l := 1; l <= n; l++ {
					todo = append(todo, work{v, l, order})
				}
			}
		}
	}
	addSample := func(n, count int) {
		for c := 0; c < count; c++ {
			v := make([]vc18Kind, n)
			for i := range v {
				v[i] = all[rng.Intn(len(all))]
			}
			switch rng.Intn(4) { // bias towards the families where the oracle has most to say
			case 0: // nobody succeeds
				for i := range v {
					if v[i] == vc18Succ {
						v[i] = special[rng.Intn(len(special))]
					}
				}
			case 1: // exactly one success
				for i := range v {
					if v[i] == vc18Succ {
						v[i] = special[rng.Intn(len(special))]
					}
				}
				v[rng.Intn(n)] = vc18Succ
			}
			lim := rng.Intn(n + 1) // 0 stands for "no limit"
			if lim == 0 {
				lim = -1
			}
			todo = append(todo, work{v, lim, rng.Perm(n)})
		}
	}
	addAll(vc18Vectors(1, all))
	addAll(vc18Vectors(2, all))
	if thorough {
		addAll(vc18Vectors(3, all))
		addAll(vc18Family(4, 2, special))
		addAll(vc18Family(5, 1, special))
		addSample(4, 6000)
		addSample(5, 6000)
	} else {
		addAll(vc18Vectors(3, core))
		addAll(vc18Family(4, 1, special))
		addSample(4, 400)
	}

	// run (a few calls at a time: each call spends most of its time waiting for the controller)
	obs := make([]vc18KObs, len(todo))
	useJG := make([]bool, len(todo))
	for i := range useJG {
		useJG[i] = rng.Bool()
	}
	const workers = 4
	var next atomic.Int64
	var stop atomic.Bool
	var nTimeouts atomic.Int32
	var wg sync.WaitGroup
	for w := 0; w < workers; w++ {
		wg.Add(1)
		go func() {
			defer wg.Done()
			for !stop.Load() {
				i := int(next.Add(1) - 1)
				if i >= len(todo) {
					return
				}
				obs[i] = vc18RunKinds(todo[i].kinds, todo[i].limit, todo[i].order, useJG[i])
				if obs[i].timedOut && nTimeouts.Add(1) >= 3 {
					stop.Store(true)
				}
			}
		}()
	}
	wg.Wait()
	ran := int(next.Load())
	if ran > len(todo) {
		ran = len(todo)
	}
	if stop.Load() {
		rep.Note("stopped after %d calls that never returned; %d of %d planned calls were made", nTimeouts.Load(), ran, len(todo))
	}

	emitted := map[string]bool{}
	nFailedEmitted := 0
	orderAgree, orderTotal := 0, 0
	for idx := 0; idx < ran; idx++ {
		w, o := todo[idx], obs[idx]
		n := len(w.kinds)
		entry := "FirstSuccess"
		if useJG[idx] {
			entry = "JobGroup.RunWithConcurrency"
		}
		kindNames := make([]string, n)
		for i, k := range w.kinds {
			kindNames[i] = k.String()
		}
		c := vc18KCase{Kinds: kindNames, Limit: w.limit, Order: w.order, Entry: entry}
		rep.Case(fmt.Sprint(vc18KindsKey(w.kinds), w.limit, w.order), n >= 2)
		rep.Count(fmt.Sprintf("jobs=%d", n))
		for _, k := range w.kinds {
			rep.Count("job-kind=" + k.String())
		}
		if o.timedOut {
			rep.Fail("no-termination", "FirstSuccess did not return within 10 s", c)
			continue
		}
		if o.panicked != "" {
			rep.Fail("panic", "FirstSuccess panicked: "+o.panicked, c)
			continue
		}
		failing := make([]bool, n)
		anySucc := false
		for i, k := range w.kinds {
			failing[i] = k != vc18Succ
			anySucc = anySucc || k == vc18Succ
		}
		outs := make([]string, n)
		for i, k := range w.kinds {
			if k == vc18Succ {
				outs[i] = fmt.Sprintf("Succ %d", vc18Val(i))
			} else {
				outs[i] = fmt.Sprintf("Fail %d", vc18Code(k, i))
			}
		}
		lim := w.limit
		if lim < 0 {
			lim = 0
		}
		exact := w.limit == 1 // order forced: jobs run one after another in index order
		failedHere := false
		fail := func(sig, detail string) {
			failedHere = true
			rep.Fail(sig, detail, c)
		}
		emit := func(result string) {
			if failedHere {
				// already reported by the oracle above; the model would reject it as well. Only a few of these go
				// into the case file (a long list of mismatch indexes makes coqc very slow).
				if nFailedEmitted >= 20 {
					rep.Count("coq-case=not-emitted-already-reported")
					return
				}
				nFailedEmitted++
			}
			key := strings.Join(outs, ";") + "|" + result
			if exact {
				key += fmt.Sprint("|", lim, w.order)
			}
			if emitted[key] { // the checker's verdict is a function of exactly these fields
				rep.Count("coq-case=duplicate-of-an-emitted-one")
				return
			}
			emitted[key] = true
			cases.Add(fmt.Sprintf("(([%s]%%N : list outcome), %d%%nat, %s, %s, %s)", strings.Join(outs, "; "), lim, vh.CoqNats(w.order), vh.CoqBool(exact), result))
		}
		if o.err == nil {
			rep.Count("result=value")
			okVal := false
			for i, k := range w.kinds {
				if k == vc18Succ && vc18Val(i) == o.val {
					okVal = true
				}
			}
			if !okVal {
				fail("value-no-job-produced", fmt.Sprintf("returned (%d, nil); no job produced this value", o.val))
			}
			emit(fmt.Sprintf("ROk %d", o.val))
			if w.limit < 0 || w.limit >= n { // informational: did the gated order decide the winner?
				orderTotal++
				for _, i := range w.order {
					if w.kinds[i] == vc18Succ {
						if vc18Val(i) == o.val {
							orderAgree++
						}
						break
					}
				}
			}
			continue
		}
		rep.Count("result=errors")
		if anySucc {
			fail("error-despite-success", fmt.Sprintf("a job succeeds (request context live) but the search returned the error %q", o.err.Error()))
		}
		var es ErrorSlice
		if !errors.As(o.err, &es) {
			fail("bad-error-shape", "the error is not an ErrorSlice: "+o.err.Error())
			continue
		}
		jobOf, entryOf := vc18Match(es, o.handed, failing)
		var missing, extra []string
		for j := range entryOf {
			if failing[j] && entryOf[j] < 0 {
				missing = append(missing, fmt.Sprintf("job %d (%s)", j, w.kinds[j]))
			}
		}
		codes := make([]uint64, 0, len(es))
		for e, j := range jobOf {
			if j < 0 {
				extra = append(extra, fmt.Sprintf("entry %d (%T %q)", e, es[e], fmt.Sprint(es[e])))
			} else {
				codes = append(codes, vc18Code(w.kinds[j], j))
			}
		}
		if !anySucc {
			if len(missing) > 0 {
				fail("incomplete-error-list", fmt.Sprintf("all %d jobs failed; the returned list (%d entries) does not contain the error of %s", n, len(es), strings.Join(missing, ", ")))
			}
			if len(extra) > 0 {
				fail("extra-error-entry", fmt.Sprintf("all %d jobs failed; the returned list (%d entries) has entries that are no job's error: %s", n, len(es), strings.Join(extra, ", ")))
			}
		}
		if len(extra) == 0 {
			emit("RErr " + vh.CoqNs(codes))
		}
		if len(rep.Samples) < 4 && n >= 3 && len(missing) == 0 && len(extra) == 0 && rng.Intn(60) == 0 {
			rep.Sample(map[string]interface{}{"kinds": kindNames, "limit": w.limit, "order": w.order, "entry": entry, "error_ids": codes})
		}
	}
	rep.Flag("kinds_winner_equals_first_released_success", fmt.Sprintf("%d of %d", orderAgree, orderTotal))
	rep.Flag("kinds_coq_cases", cases.Len())
	ks := make([]string, 0)
	for _, k := range all {
		ks = append(ks, k.String())
	}
	sort.Strings(ks)
	rep.Flag("kinds", strings.Join(ks, " "))
	if len(rep.Samples) == 0 {
		rep.Sample(map[string]interface{}{"kinds": []string{"slice2", "ok"}, "limit": -1, "order": []int{0, 1}})
	}
	if err := cases.Write(); err != nil {
		t.Fatal(err)
	}
	rep.CasesWritten(cases)
	if err := rep.Write(); err != nil {
		t.Fatal(err)
	}
}
