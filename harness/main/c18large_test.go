package main

// Verification harness for C18, third part (injected with `go test -overlay` together with c18_test.go and
// c18kinds_test.go, whose gated runner vc18RunKinds and matcher vc18Match it uses).
//
// The property quantifies over "ANY set of per-epoch search jobs"; the two exhaustive enumerations stop at 5 jobs. A
// server searches as many jobs as it has epochs loaded (hundreds), so this part runs LARGE job sets - n in 6, 17, 32, 33,
// 34, 64, 100, 257 (thorough: also 65, 128, 500) - with structured outcome vectors, for each completion order identity / reverse /
// seeded shuffle (steered through the jobs' gates; no assertion depends on the order actually taken) and each limit
// -1, 1, 4, n:
//   - every job fails, each with its own plain error value;
//   - every job fails with the ErrNotFound sentinel;
//   - every job fails with ErrNotFound except ONE hard error (plain value / pointer-typed / wrapped context error of a
//     job-local sub-context) at the first / middle / last completion position;
//   - exactly ONE job succeeds, at the first / middle / last completion position (the others fail, mostly not-found).
// Oracle (property text, as in c18kinds_test.go): a success value iff some job succeeds, and then a job's value; otherwise
// an ErrorSlice with exactly one entry per job, each job's own error value present (identity / errors.Is / errors.As);
// and, as findEpochNumberFromSignature classifies the list ("all not-found -> not found, otherwise internal error"), a
// list for a job set containing a hard error must not consist of not-found entries only.
// Signatures: incomplete-error-list, extra-error-entry, error-despite-success, value-no-job-produced, bad-error-shape,
// hard-error-classified-not-found, no-termination, panic.
// The cases with n <= 64 at limits 1 (order forced: the model's run must be equal) and -1 also go to YF.FSCheck.check.

import (
	"errors"
	"fmt"
	"strings"
	"sync"
	"sync/atomic"
	"testing"

	"github.com/rpcpool/yellowstone-faithful/zzverif/vh"
)

type vc18LCase struct {
	Jobs   int    `json:"jobs"`
	Vector string `json:"vector"` // how the outcome vector is built
	Limit  int    `json:"limit"`
	Order  string `json:"order"` // identity | reverse | shuffle (seeded: rng of seed^0xC18B16, drawn per (n) in this order)
	Entry  string `json:"entry"`
	Kinds  string `json:"kinds_run_length"` // the outcome vector, run-length encoded
	Seed   uint64 `json:"seed"`
}

func vc18RunLength(ks []vc18Kind) string {
	var sb strings.Builder
	for i := 0; i < len(ks); {
		j := i
		for j < len(ks) && ks[j] == ks[i] {
			j++
		}
		if sb.Len() > 0 {
			sb.WriteByte(' ')
		}
		fmt.Fprintf(&sb, "%s*%d", ks[i], j-i)
		i = j
	}
	return sb.String()
}

func TestVerif_C18Large(t *testing.T) {
	thorough := vh.Thorough()
	seed := vh.Seed()
	rng := vh.NewRng(seed ^ 0xC18B16)
	sizes := []int{6, 17, 32, 33, 34, 64, 100, 257}
	if thorough {
		sizes = append(sizes, 65, 128, 500) // the gated runner gives a call 10 s: 500 gates of at most 10 ms each stay below it
	}
	rep := vh.NewReport("C18", "largesets",
		"large job sets: n in 6,17,32,33,34,64,100,257 (thorough: also 65,128,500) x outcome vectors {all fail with own plain errors; all fail not-found; all not-found but one hard error (plain/ptr/wrapped context error) at the first/middle/last completion position; exactly one success at the first/middle/last completion position} x completion orders {identity, reverse, seeded shuffle} x limits {-1,1,4,n} x entry point (FirstSuccess / JobGroup, drawn); oracle: a job's value iff some job succeeds, otherwise exactly one list entry per job with each job's own error, and a list holding a hard error is not all-not-found; every case is non-trivial; distinct by (n,vector,order,limit)")
	cases := vh.NewCases("cases_c18large", []string{"YF.FS", "YF.FSCheck"}, "case", "check")

	type work struct {
		kinds           []vc18Kind
		limit           int
		order           []int
		vector, ordName string
		useJG           bool
	}
	var todo []work
	hard := []vc18Kind{vc18Plain, vc18Ptr, vc18WrapDeadline}
	for _, n := range sizes {
		ident := make([]int, n)
		rev := make([]int, n)
		for i := range ident {
			ident[i], rev[i] = i, n-1-i
		}
		orders := []struct {
			name string
			o    []int
		}{{"identity", ident}, {"reverse", rev}, {"shuffle", rng.Perm(n)}}
		positions := []struct {
			name string
			p    int
		}{{"first", 0}, {"middle", n / 2}, {"last", n - 1}}
		for _, ord := range orders {
			type vec struct {
				name  string
				kinds []vc18Kind
			}
			fill := func(k vc18Kind) []vc18Kind {
				v := make([]vc18Kind, n)
				for i := range v {
					v[i] = k
				}
				return v
			}
			vecs := []vec{{"all fail, each with its own plain error", fill(vc18Plain)}, {"all fail with ErrNotFound", fill(vc18NotFound)}}
			for pi, pos := range positions {
				v := fill(vc18NotFound)
				v[ord.o[pos.p]] = hard[pi%len(hard)]
				vecs = append(vecs, vec{fmt.Sprintf("all fail with ErrNotFound except one hard error (%s) at the %s completion position", hard[pi%len(hard)], pos.name), v})
			}
			for _, pos := range positions {
				v := fill(vc18NotFound)
				for i := range v {
					if i%5 == 3 {
						v[i] = vc18Plain
					}
				}
				v[ord.o[pos.p]] = vc18Succ
				vecs = append(vecs, vec{fmt.Sprintf("exactly one success, at the %s completion position", pos.name), v})
			}
			limits := []int{-1, 1, 4, n}
			for _, v := range vecs {
				for _, lim := range limits {
					if thorough || n <= 100 || lim != 4 || ord.name != "reverse" { // a little thinning of the biggest sets
						todo = append(todo, work{v.kinds, lim, ord.o, v.name, ord.name, rng.Bool()})
					}
				}
			}
		}
	}

	obs := make([]vc18KObs, len(todo))
	const workers = 4
	var next atomic.Int64
	var stop atomic.Bool
	var nTimeouts atomic.Int32
	var wg sync.WaitGroup
	for w := 0; w < workers; w++ {
		wg.Add(1)
		go func() {
			defer wg.Done()
			for !stop.Load() {
				i := int(next.Add(1) - 1)
				if i >= len(todo) {
					return
				}
				obs[i] = vc18RunKinds(todo[i].kinds, todo[i].limit, todo[i].order, todo[i].useJG)
				if obs[i].timedOut && nTimeouts.Add(1) >= 3 {
					stop.Store(true)
				}
			}
		}()
	}
	wg.Wait()
	ran := int(next.Load())
	if ran > len(todo) {
		ran = len(todo)
	}
	if stop.Load() {
		rep.Note("stopped after %d calls that never returned; %d of %d planned calls were made", nTimeouts.Load(), ran, len(todo))
	}

	nFailedEmitted := 0
	for idx := 0; idx < ran; idx++ {
		w, o := todo[idx], obs[idx]
		n := len(w.kinds)
		entry := "FirstSuccess"
		if w.useJG {
			entry = "JobGroup.RunWithConcurrency"
		}
		c := vc18LCase{Jobs: n, Vector: w.vector, Limit: w.limit, Order: w.ordName, Entry: entry, Kinds: vc18RunLength(w.kinds), Seed: seed}
		rep.Case(fmt.Sprint(n, "|", w.vector, "|", w.ordName, "|", w.limit), true)
		rep.Count(fmt.Sprintf("jobs=%d", n))
		rep.Count("order=" + w.ordName)
		rep.Count(fmt.Sprintf("limit=%s", map[bool]string{true: "n", false: fmt.Sprint(w.limit)}[w.limit == n]))
		if o.timedOut {
			rep.Fail("no-termination", "FirstSuccess did not return within 10 s", c)
			continue
		}
		if o.panicked != "" {
			rep.Fail("panic", "FirstSuccess panicked: "+o.panicked, c)
			continue
		}
		failing := make([]bool, n)
		anySucc, anyHard := false, false
		for i, k := range w.kinds {
			failing[i] = k != vc18Succ
			anySucc = anySucc || k == vc18Succ
			anyHard = anyHard || (k != vc18Succ && k != vc18NotFound)
		}
		failedHere := false
		fail := func(sig, detail string) {
			failedHere = true
			rep.Fail(sig, detail, c)
		}
		emit := func(result string) {
			if n > 64 || (w.limit != 1 && w.limit != -1) {
				return
			}
			if failedHere {
				if nFailedEmitted >= 10 {
					return
				}
				nFailedEmitted++
			}
			outs := make([]string, n)
			for i, k := range w.kinds {
				if k == vc18Succ {
					outs[i] = fmt.Sprintf("Succ %d", vc18Val(i))
				} else {
					outs[i] = fmt.Sprintf("Fail %d", vc18Code(k, i))
				}
			}
			lim := w.limit
			if lim < 0 {
				lim = 0
			}
			cases.Add(fmt.Sprintf("(([%s]%%N : list outcome), %d%%nat, %s, %s, %s)", strings.Join(outs, "; "), lim, vh.CoqNats(w.order), vh.CoqBool(w.limit == 1), result))
		}
		if o.err == nil {
			rep.Count("result=value")
			okVal := false
			for i, k := range w.kinds {
				if k == vc18Succ && vc18Val(i) == o.val {
					okVal = true
				}
			}
			if !okVal {
				fail("value-no-job-produced", fmt.Sprintf("returned (%d, nil); no job produced this value", o.val))
			}
			emit(fmt.Sprintf("ROk %d", o.val))
			continue
		}
		rep.Count("result=errors")
		if anySucc {
			fail("error-despite-success", fmt.Sprintf("a job succeeds (request context live) but the search returned an error list of %d entries", vc18LLen(o.err)))
		}
		var es ErrorSlice
		if !errors.As(o.err, &es) {
			fail("bad-error-shape", "the error is not an ErrorSlice: "+o.err.Error())
			continue
		}
		jobOf, entryOf := vc18Match(es, o.handed, failing)
		var missing, extra []string
		nMissing, nExtra := 0, 0
		for j := range entryOf {
			if failing[j] && entryOf[j] < 0 {
				if nMissing++; nMissing <= 4 {
					missing = append(missing, fmt.Sprintf("job %d (%s)", j, w.kinds[j]))
				}
			}
		}
		codes := make([]uint64, 0, len(es))
		for e, j := range jobOf {
			if j < 0 {
				if nExtra++; nExtra <= 4 {
					extra = append(extra, fmt.Sprintf("entry %d (%T)", e, es[e]))
				}
			} else {
				codes = append(codes, vc18Code(w.kinds[j], j))
			}
		}
		if !anySucc {
			if nMissing > 0 {
				fail("incomplete-error-list", fmt.Sprintf("all %d jobs failed; the returned list has %d entries and lacks the error of %d jobs, e.g. %s", n, len(es), nMissing, strings.Join(missing, ", ")))
			}
			if nExtra > 0 {
				fail("extra-error-entry", fmt.Sprintf("all %d jobs failed; the returned list (%d entries) has %d entries that are no job's error, e.g. %s", n, len(es), nExtra, strings.Join(extra, ", ")))
			}
			if anyHard && len(es) > 0 && es.All(func(e error) bool { return errors.Is(e, ErrNotFound) }) {
				fail("hard-error-classified-not-found", fmt.Sprintf("one of the %d failing jobs returned a hard error, but every entry of the returned list (%d entries) is ErrNotFound: findEpochNumberFromSignature answers 'not found' instead of an internal error", n, len(es)))
			}
		}
		if nExtra == 0 {
			emit("RErr " + vh.CoqNs(codes))
		}
		if len(rep.Samples) < 3 && n >= 33 && !failedHere && rng.Intn(40) == 0 {
			rep.Sample(map[string]interface{}{"jobs": n, "vector": w.vector, "limit": w.limit, "order": w.ordName, "entry": entry, "error_list_entries": len(es)})
		}
	}
	rep.Flag("large_calls", ran)
	rep.Flag("large_coq_cases", cases.Len())
	if len(rep.Samples) == 0 {
		rep.Sample(map[string]interface{}{"jobs": 33, "vector": "all fail with ErrNotFound", "limit": -1, "order": "identity"})
	}
	if err := cases.Write(); err != nil {
		t.Fatal(err)
	}
	rep.CasesWritten(cases)
	if err := rep.Write(); err != nil {
		t.Fatal(err)
	}
}

func vc18LLen(err error) int {
	var es ErrorSlice
	if errors.As(err, &es) {
		return len(es)
	}
	return -1
}
