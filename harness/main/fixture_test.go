package main

// Shared epoch fixture for the verification harnesses of package main (injected with `go test -overlay`).
// It generates complete synthetic epochs: a CAR file written through ipldbindcode + the CARv1 section
// writer, then the repository's OWN createAllIndexes and GSFA indexer build the indexes, then
// NewEpochFromConfig loads them. Ground truth (what was put where) is kept by the generator,
// independently of any index. Each epoch is built in its own child process (bucketteer.NewWriter
// pre-allocates 8 GiB virtual memory; a second writer in the same process costs ~55 s).

import (
	"bytes"
	"context"
	"encoding/base64"
	"encoding/binary"
	"encoding/hex"
	"encoding/json"
	"flag"
	"fmt"
	"hash/crc64"
	"os"
	"os/exec"
	"path/filepath"
	"sort"
	"sync"
	"testing"
	"time"

	"github.com/allegro/bigcache/v3"
	"github.com/gagliardetto/solana-go"
	"github.com/ipfs/go-cid"
	carv1 "github.com/ipld/go-car"
	"github.com/ipld/go-car/util"
	cidlink "github.com/ipld/go-ipld-prime/linking/cid"
	"github.com/multiformats/go-multicodec"
	hugecache "github.com/rpcpool/yellowstone-faithful/huge-cache"
	"github.com/rpcpool/yellowstone-faithful/indexes"
	"github.com/rpcpool/yellowstone-faithful/ipld/ipldbindcode"
	"github.com/rpcpool/yellowstone-faithful/third_party/solana_proto/confirmed_block"
	"github.com/rpcpool/yellowstone-faithful/tooling"
	"github.com/rpcpool/yellowstone-faithful/zzverif/vh"
	"github.com/urfave/cli/v2"
	"github.com/valyala/fasthttp"
	"google.golang.org/protobuf/proto"
)

const vfxEpochLen = 432000

// ---------------------------------------------------------------- spec and truth

type vfxSpec struct {
	Name        string `json:"name"`
	Dir         string `json:"dir"`
	Epoch       uint64 `json:"epoch"`
	Seed        uint64 `json:"seed"`
	NumSlots    int    `json:"num_slots"`    // slots first..first+NumSlots-1 are candidates
	FirstRel    uint64 `json:"first_rel"`    // first candidate slot relative to the epoch start
	SkipPercent int    `json:"skip_percent"` // chance that a candidate slot has no block
	MaxEntries  int    `json:"max_entries"`  // entries per block 1..MaxEntries
	MaxTx       int    `json:"max_tx"`       // transactions per entry 0..MaxTx
	FrameSize   int    `json:"frame_size"`   // payload chunk size; 0 = always single frame (must be >= 66: the indexer reads the first signature from the first frame)
	FanOut      int    `json:"fan_out"`      // next-link fan-out for multi-frame payloads
	BigObjects  bool   `json:"big_objects"`  // some payloads large enough for 2- and 3-byte section varints
	LongHeader  bool   `json:"long_header"`  // root CID with a longer multihash => different CAR header length
	Rewards     bool   `json:"rewards"`      // some blocks get a Rewards object
	Accounts    int    `json:"accounts"`     // size of the shared account universe
	Gsfa        bool   `json:"gsfa"`         // also build the GSFA index
	Boundary    bool   `json:"boundary"`     // extra objects whose section-length value is exactly 127,128,129,16383,16384,16385,...
	ZeroTimes   bool   `json:"zero_times"`   // some blocks record block time 0
	MultiSig    bool   `json:"multi_sig"`    // some transactions carry 2 or 3 signatures
	EdgeTimes   bool   `json:"edge_times"`   // some blocks record block times 2^31-1, 2^31, 2^31+1 and 2^32-1
	ShuffleNext bool   `json:"shuffle_next"` // the next-links of multi-frame payloads are listed in shuffled order
	ShortSigs   bool   `json:"short_sigs"`   // some signatures are numerically small (base58 text of 84..86 characters)
	OddRewards  bool   `json:"odd_rewards"`  // every block gets rewards; commission strings "", "7", "12.5" and one that is not a number
	NoTxIndex   bool   `json:"no_tx_index"`  // Transaction nodes without the optional position index (archives written before the field existed)
	Variant     int    `json:"variant"`      // alternative content for the same epoch ("another CAR of the same epoch")
	EdgeTxs     bool   `json:"edge_txs"`     // every second transaction has a legal but unusual shape (see vfxEdgeShapes): no instructions, an instruction without accounts and data, several instructions, every account a signer, many signatures, a version-0 message; every entry holds at least one transaction

	// LayoutSeed (optional): when non-zero, the generator's random stream is seeded by this value alone (not by
	// seed, epoch and variant): two epochs built from otherwise equal specs with the same layout seed make the
	// same random choices, so that their CAR files are laid out alike (same object sizes and byte offsets) and
	// only the slot numbers differ. 0 = as before.
	LayoutSeed uint64 `json:"layout_seed,omitempty"`

	// HugeSpan / HugeMask (optional, default off): the generated blocks whose 0-based number (position among the
	// blocks of the epoch) has its bit set in HugeMask get at least three entries of at least three transactions,
	// and the log message of each of their transactions is followed by pseudo-random text, so that the objects of
	// such a block take more than HugeSpan bytes of the CAR file (distance between the parent block's object - or
	// the end of the CAR header for the first block - and the block's object). The text does not compress below
	// 3/4 of its length; the generator writes 7/5 of the span.
	HugeSpan uint64 `json:"huge_span,omitempty"`
	HugeMask uint64 `json:"huge_mask,omitempty"`

	// ExtraSlots (optional, default 0): after the NumSlots candidate slots, ExtraSlots further candidate slots
	// follow whose content comes from a random stream of its own. The epoch built with ExtraSlots = k is therefore
	// a strict extension of the epoch built from the same spec with ExtraSlots = 0 ("the epoch has grown and was
	// built again"): the same objects with the same CIDs at the same CAR offsets, followed by the new blocks (only
	// the Subset / Epoch objects at the end and the root CID differ; objects of spec.Boundary come after the blocks).
	ExtraSlots int `json:"extra_slots,omitempty"`

	// BigRewards (optional, default 0 = as before): every Rewards object the generator writes gets BigRewards>>k
	// (k drawn from 0..4 per block) further reward entries with pseudo-random accounts, so that the Rewards nodes (one
	// data frame each, zstd-compressed protobuf) are of very different sizes: BigRewards = 6000 gives nodes of roughly
	// 15 KiB .. 300 KiB, as the rewards of blocks at an epoch boundary are. No random number is drawn for it when 0.
	BigRewards int `json:"big_rewards,omitempty"`
}

type vfxObj struct {
	Cid    string `json:"cid"` // hex of cid bytes
	Offset uint64 `json:"offset"`
	SecLen uint64 `json:"sec_len"`
	CidLen int    `json:"cid_len"`
	Kind   int    `json:"kind"`
}

type vfxTx struct {
	Slot     uint64   `json:"slot"`
	Pos      int      `json:"pos"`
	Sig      string   `json:"sig"` // base58
	Cid      string   `json:"cid"`
	Vote     bool     `json:"vote"`
	Failed   bool     `json:"failed"`
	ErrName  string   `json:"err_name"` // the recorded TransactionError variant of a failed transaction
	Accounts []string `json:"accounts"` // static account keys, base58
	Loaded   []string `json:"loaded"`   // address-table loaded accounts (from meta), base58
	TxB64    string   `json:"tx"`
	MetaB64  string   `json:"meta"` // uncompressed protobuf bytes
	Fee      uint64   `json:"fee"`
	Frames   int      `json:"frames"`     // frames of the transaction payload
	MetaFr   int      `json:"meta_frames"`
	Edge     string   `json:"edge,omitempty"` // name of the unusual shape of this transaction (spec.EdgeTxs), "" for an ordinary one
}

type vfxEntry struct {
	Cid       string `json:"cid"`
	Hash      string `json:"hash"` // hex, 32 bytes
	NumHashes int    `json:"num_hashes"`
	NumTx     int    `json:"num_tx"`
}

type vfxBlock struct {
	Slot       uint64     `json:"slot"`
	Cid        string     `json:"cid"`
	Parent     uint64     `json:"parent"`
	Blocktime  int64      `json:"blocktime"`
	Height     uint64     `json:"height"`
	HasHeight  bool       `json:"has_height"`
	Entries    []vfxEntry `json:"entries"`
	Txs        []vfxTx    `json:"txs"`
	HasRewards bool       `json:"has_rewards"`
}

type vfxTruth struct {
	Spec      vfxSpec    `json:"spec"`
	CarPath   string     `json:"car_path"`
	HeaderLen uint64     `json:"header_len"`
	RootCid   string     `json:"root_cid"` // string form
	Objects   []vfxObj   `json:"objects"`
	Blocks    []vfxBlock `json:"blocks"`
	Paths     IndexPaths `json:"paths"`
	GsfaDir   string     `json:"gsfa_dir"`
	NumItems  uint64     `json:"num_items"`
	BuildErr  string     `json:"build_err"`
	ConfigYml string     `json:"config_yml"`
	BuildMs   int64      `json:"build_ms"`
}

// sortedTxs returns the block's transactions in recorded position order (Txs is in entry order).
func (b *vfxBlock) sortedTxs() []vfxTx {
	out := append([]vfxTx(nil), b.Txs...)
	sort.Slice(out, func(i, j int) bool { return out[i].Pos < out[j].Pos })
	return out
}

func (t *vfxTruth) base() uint64 { return t.Spec.Epoch * vfxEpochLen }

func (t *vfxTruth) blockBySlot(slot uint64) *vfxBlock {
	for i := range t.Blocks {
		if t.Blocks[i].Slot == slot {
			return &t.Blocks[i]
		}
	}
	return nil
}

// ---------------------------------------------------------------- generator

func vfxMkCid(data []byte, long bool) cid.Cid {
	mh := uint64(multicodec.Sha2_256)
	if long {
		mh = uint64(multicodec.Sha2_512)
	}
	c, err := cid.V1Builder{Codec: uint64(multicodec.DagCbor), MhType: mh, MhLength: -1}.Sum(data)
	if err != nil {
		panic(err)
	}
	return c
}

func vfxPP(i int) **int { p := &i; return &p }

func vfxAccount(universe int, i int) solana.PublicKey {
	var k solana.PublicKey
	k[0] = 0xA0
	k[1] = byte(universe)
	binary.LittleEndian.PutUint64(k[8:], uint64(i)+1)
	k[31] = byte(i*7 + 1)
	return k
}

type vfxGen struct {
	rng  *vh.Rng
	objs []struct {
		c    cid.Cid
		data []byte
	}
	seen map[string]bool

	shuffleNext bool
	edgeSeq     int // transactions generated so far (spec.EdgeTxs only)
}

func (g *vfxGen) add(data []byte) cid.Cid {
	c := vfxMkCid(data, false)
	if g.seen[c.KeyString()] {
		panic("fixture generated a duplicate CID")
	}
	g.seen[c.KeyString()] = true
	g.objs = append(g.objs, struct {
		c    cid.Cid
		data []byte
	}{c, data})
	return c
}

// frames splits payload into linked DataFrames as the schema comment describes; continuation frames are
// added to the CAR (before their parent), the first frame is returned to be embedded in the parent node.
func (g *vfxGen) frames(payload []byte, frameSize, fanOut int) (ipldbindcode.DataFrame, int) {
	h := int(crc64.Checksum(payload, crc64.MakeTable(crc64.ISO)))
	if frameSize <= 0 || len(payload) <= frameSize {
		nx := ipldbindcode.List__Link{}
		nxp := &nx
		return ipldbindcode.DataFrame{Kind: 6, Hash: vfxPP(h), Index: vfxPP(0), Total: vfxPP(1), Data: payload, Next: &nxp}, 1
	}
	var chunks [][]byte
	for off := 0; off < len(payload); off += frameSize {
		end := off + frameSize
		if end > len(payload) {
			end = len(payload)
		}
		chunks = append(chunks, payload[off:end])
	}
	n := len(chunks)
	if fanOut < 1 {
		fanOut = 1
	}
	// build(i) returns frame i whose next links cover frames i+1 .. (as in the schema comment)
	var build func(i int) ipldbindcode.DataFrame
	build = func(i int) ipldbindcode.DataFrame {
		nx := ipldbindcode.List__Link{}
		last := i + fanOut
		if last > n-1 {
			last = n - 1
		}
		for j := i + 1; j <= last; j++ {
			var fr ipldbindcode.DataFrame
			if j == last && last < n-1 {
				fr = build(j) // the last linked frame carries the next group
			} else {
				e := ipldbindcode.List__Link{}
				ep := &e
				fr = ipldbindcode.DataFrame{Kind: 6, Hash: vfxPP(h), Index: vfxPP(j), Total: vfxPP(n), Data: chunks[j], Next: &ep}
			}
			b, err := fr.MarshalCBOR()
			if err != nil {
				panic(err)
			}
			nx = append(nx, cidlink.Link{Cid: g.add(b)})
		}
		if g.shuffleNext && len(nx) > 1 { // frames are ordered by their index, not by the order of the links
			for a := len(nx) - 1; a > 0; a-- {
				c := g.rng.Intn(a + 1)
				nx[a], nx[c] = nx[c], nx[a]
			}
		}
		nxp := &nx
		return ipldbindcode.DataFrame{Kind: 6, Hash: vfxPP(h), Index: vfxPP(i), Total: vfxPP(n), Data: chunks[i], Next: &nxp}
	}
	return build(0), n
}

func vfxGenerate(spec vfxSpec) (*vfxTruth, []byte) {
	g := &vfxGen{rng: vh.NewRng(spec.Seed*1000003 + spec.Epoch*7919 + uint64(spec.Variant)*104729), seen: map[string]bool{}, shuffleNext: spec.ShuffleNext}
	if spec.LayoutSeed != 0 {
		g.rng = vh.NewRng(spec.LayoutSeed)
	}
	rng := g.rng
	tr := &vfxTruth{Spec: spec}
	base := spec.Epoch * vfxEpochLen
	if spec.Accounts <= 0 {
		spec.Accounts = 4
	}
	var blockLinks ipldbindcode.List__Link
	parent := uint64(0)
	if spec.Epoch > 0 {
		parent = base - 1
	}
	type pend struct {
		blk *vfxBlock
		c   cid.Cid
	}
	totalSlots := spec.NumSlots
	if spec.ExtraSlots > 0 {
		totalSlots += spec.ExtraSlots
	}
	for s := 0; s < totalSlots; s++ {
		slot := base + spec.FirstRel + uint64(s)
		if slot >= base+vfxEpochLen {
			break
		}
		if s == spec.NumSlots && s != 0 {
			// spec.ExtraSlots: the additional slots draw from their own stream (see the field's comment)
			rng = vh.NewRng(spec.Seed*1000003 + spec.Epoch*7919 + uint64(spec.Variant)*104729 + 15485863)
			g.rng = rng
		}
		if s != 0 && s != spec.NumSlots-1 && s != totalSlots-1 && rng.Intn(100) < spec.SkipPercent {
			continue
		}
		gb := vfxBlock{Slot: slot, Parent: parent, Blocktime: int64(1_600_000_000 + slot*2 + uint64(spec.Variant)), Height: slot/2 + uint64(rng.Intn(3)), HasHeight: rng.Intn(5) != 0}
		if spec.EdgeTimes {
			switch slot % 7 {
			case 1:
				gb.Blocktime = 1<<31 - 1
			case 2:
				gb.Blocktime = 1 << 31
			case 3:
				gb.Blocktime = 1<<31 + 1
			case 4:
				gb.Blocktime = 1<<32 - 1
			}
		}
		if spec.ZeroTimes && rng.Intn(4) == 0 {
			gb.Blocktime = 0 // early mainnet blocks record no block time
		}
		nEntries := 1 + rng.Intn(spec.MaxEntries)
		huge := spec.HugeSpan > 0 && len(tr.Blocks) < 64 && spec.HugeMask>>uint(len(tr.Blocks))&1 == 1
		if huge && nEntries < 3 {
			nEntries = 3
		}
		var entryLinks ipldbindcode.List__Link
		// transactions per entry, and the recorded position of each transaction: usually entry order, but
		// in some blocks a permutation of it (the reply must follow the RECORDED positions)
		ntxs := make([]int, nEntries)
		total := 0
		for e := range ntxs {
			ntxs[e] = rng.Intn(spec.MaxTx + 1)
			if spec.EdgeTxs && ntxs[e] == 0 {
				ntxs[e] = 1 // enough transactions for every shape of vfxEdgeShapes to occur
			}
			if huge && ntxs[e] < 3 {
				ntxs[e] = 3 // spec.HugeSpan: the padding is spread over at least nine transactions
			}
			total += ntxs[e]
		}
		positions := make([]int, total)
		for i := range positions {
			positions[i] = i
		}
		if rng.Intn(3) == 0 && !spec.NoTxIndex { // without a recorded position the only order is the traversal order
			positions = rng.Perm(total)
		}
		seq := 0
		for e := 0; e < nEntries; e++ {
			ntx := ntxs[e]
			var txLinks ipldbindcode.List__Link
			for k := 0; k < ntx; k++ {
				pos := positions[seq]
				seq++
				var sig solana.Signature
				copy(sig[:], rng.Bytes(64))
				binary.LittleEndian.PutUint64(sig[32:], slot) // keeps signatures distinct across slots
				sig[40] = byte(pos)
				sig[41] = byte(spec.Variant)
				if spec.ShortSigs {
					switch (int(slot) + pos) % 5 {
					case 1:
						sig[0], sig[1] = 0, 1 // '1' + 85 characters
					case 2:
						sig[0], sig[1], sig[2], sig[3] = 0, 0, 0, 1
					case 3:
						sig[0] = 1
					}
				}
				vote := rng.Intn(3) == 0
				failed := rng.Intn(4) == 0
				var unique solana.PublicKey
				copy(unique[:], rng.Bytes(32))
				a1 := vfxAccount(0, rng.Intn(spec.Accounts))
				a2 := vfxAccount(0, rng.Intn(spec.Accounts))
				accs := []solana.PublicKey{unique, a1}
				if a2 != a1 && rng.Bool() {
					accs = append(accs, a2)
				}
				prog := solana.SystemProgramID
				if vote {
					prog = solana.VoteProgramID
				}
				accs = append(accs, prog)
				ixAccs := []uint16{0, 1}
				nsig := 1
				if spec.MultiSig {
					nsig = rng.Pick(1, 1, 2, 2, 3)
				}
				sigs := []solana.Signature{sig}
				for len(sigs) < nsig {
					var s2 solana.Signature
					copy(s2[:], rng.Bytes(64))
					sigs = append(sigs, s2)
				}
				if nsig == 3 {
					// three signers need three signer accounts in front
					var extra solana.PublicKey
					copy(extra[:], rng.Bytes(32))
					accs = append([]solana.PublicKey{accs[0], accs[1], extra}, accs[2:]...)
					ixAccs = []uint16{0, 1}
				}
				// a SIMPLE vote transaction has one or two signatures (validator identity + authorized voter), is
				// legacy and has exactly one instruction, of the vote program; with three signatures it is not one
				vote = vote && nsig < 3
				tx := solana.Transaction{
					Signatures: sigs,
					Message: solana.Message{
						AccountKeys:     accs,
						Header:          solana.MessageHeader{NumRequiredSignatures: uint8(nsig), NumReadonlyUnsignedAccounts: 1},
						RecentBlockhash: solana.Hash(vfxAccount(9, int(slot%1000))),
						Instructions:    []solana.CompiledInstruction{{ProgramIDIndex: uint16(len(accs) - 1), Accounts: ixAccs, Data: rng.Bytes(1 + rng.Intn(12))}},
					},
				}
				edge := ""
				if spec.EdgeTxs {
					if g.edgeSeq%2 == 0 {
						edge = vfxEdgeShapes[(g.edgeSeq/2)%len(vfxEdgeShapes)]
						vote = vfxEdgeTx(edge, rng, &tx, &accs)
					}
					g.edgeSeq++
				}
				if spec.BigObjects && rng.Intn(6) == 0 && len(tx.Message.Instructions) > 0 {
					// a large instruction payload: section-length varint becomes 2 or 3 bytes wide
					sz := 200 + rng.Intn(400)
					if rng.Intn(4) == 0 {
						sz = 17000 + rng.Intn(3000)
					}
					tx.Message.Instructions[0].Data = rng.Bytes(sz)
				}
				txb, err := tx.MarshalBinary()
				if err != nil {
					panic(err)
				}
				meta := &confirmed_block.TransactionStatusMeta{
					Fee:          5000 + uint64(rng.Intn(1000)),
					PreBalances:  []uint64{uint64(1_000_000 + rng.Intn(1000)), 1},
					PostBalances: []uint64{uint64(900_000 + rng.Intn(1000)), 2},
					LogMessages:  []string{fmt.Sprintf("log %d/%d/%d", slot, pos, spec.Variant)},
				}
				if huge {
					meta.LogMessages[0] += " " + vfxPadText(rng, int(spec.HugeSpan*7/5/uint64(total))+1)
				}
				var loaded []solana.PublicKey
				if rng.Intn(4) == 0 {
					l := vfxAccount(0, rng.Intn(spec.Accounts))
					loaded = append(loaded, l)
					meta.LoadedWritableAddresses = [][]byte{l[:]}
					if rng.Bool() {
						l2 := vfxAccount(1, rng.Intn(spec.Accounts))
						loaded = append(loaded, l2)
						meta.LoadedReadonlyAddresses = [][]byte{l2[:]}
					}
				}
				errName := ""
				if failed {
					// the bincode image of Solana's TransactionError, in the shapes the format has: a unit variant, a
					// variant with a one-byte payload, an instruction error without and with payload
					switch (int(slot) + pos) % 4 {
					case 0:
						meta.Err = &confirmed_block.TransactionError{Err: []byte{8, 0, 0, 0, 0, 25, 0, 0, 0, 1, 0, 0, 0}} // InstructionError(0, Custom(1))
						errName = "Custom"
					case 1:
						meta.Err = &confirmed_block.TransactionError{Err: []byte{0, 0, 0, 0}} // AccountInUse
						errName = "AccountInUse"
					case 2:
						meta.Err = &confirmed_block.TransactionError{Err: []byte{8, 0, 0, 0, 1, 3, 0, 0, 0}} // InstructionError(1, InvalidAccountData)
						errName = "InvalidAccountData"
					default:
						meta.Err = &confirmed_block.TransactionError{Err: []byte{31, 0, 0, 0, 2}} // InsufficientFundsForRent { account_index: 2 }
						errName = "InsufficientFundsForRent"
					}
				}
				mb, err := proto.Marshal(meta)
				if err != nil {
					panic(err)
				}
				mz, err := tooling.CompressZstd(mb)
				if err != nil {
					panic(err)
				}
				fs := spec.FrameSize
				if fs > 0 && rng.Intn(3) != 0 {
					fs = 0 // most payloads single-frame even when multi-frame is enabled
				}
				dataFrame, nfr := g.frames(txb, fs, spec.FanOut)
				metaFrame, nmfr := g.frames(mz, fs, spec.FanOut)
				tn := ipldbindcode.Transaction{Kind: 0, Data: dataFrame, Metadata: metaFrame, Slot: int(slot), Index: vfxPP(pos)}
				if spec.NoTxIndex {
					tn.Index = nil
				}
				tb, err := tn.MarshalCBOR()
				if err != nil {
					panic(err)
				}
				tc := g.add(tb)
				txLinks = append(txLinks, cidlink.Link{Cid: tc})
				vt := vfxTx{Slot: slot, Pos: pos, Sig: sig.String(), Cid: hex.EncodeToString(tc.Bytes()), Vote: vote, Failed: failed, ErrName: errName,
					TxB64: base64.StdEncoding.EncodeToString(txb), MetaB64: base64.StdEncoding.EncodeToString(mb), Fee: meta.Fee, Frames: nfr, MetaFr: nmfr, Edge: edge}
				for _, a := range accs {
					vt.Accounts = append(vt.Accounts, a.String())
				}
				for _, a := range loaded {
					vt.Loaded = append(vt.Loaded, a.String())
				}
				gb.Txs = append(gb.Txs, vt)
			}
			hash := rng.Bytes(32)
			en := ipldbindcode.Entry{Kind: 1, NumHashes: 1 + rng.Intn(1000), Hash: hash, Transactions: txLinks}
			eb, err := en.MarshalCBOR()
			if err != nil {
				panic(err)
			}
			ec := g.add(eb)
			entryLinks = append(entryLinks, cidlink.Link{Cid: ec})
			gb.Entries = append(gb.Entries, vfxEntry{Cid: hex.EncodeToString(ec.Bytes()), Hash: hex.EncodeToString(hash), NumHashes: en.NumHashes, NumTx: ntx})
		}
		rewardsLink := cidlink.Link{Cid: DummyCID}
		if (spec.Rewards && rng.Intn(3) == 0) || spec.OddRewards {
			rw := &confirmed_block.Rewards{Rewards: []*confirmed_block.Reward{{Pubkey: vfxAccount(0, 0).String(), Lamports: int64(slot % 1000), PostBalance: 5, RewardType: confirmed_block.RewardType_Fee}}}
			if spec.OddRewards {
				for _, c := range []string{"", "7", "12.5", "n/a"} {
					rw.Rewards = append(rw.Rewards, &confirmed_block.Reward{Pubkey: vfxAccount(0, 1).String(), Lamports: 1, PostBalance: 2, RewardType: confirmed_block.RewardType_Voting, Commission: c})
				}
			}
			if spec.BigRewards > 0 {
				for n := spec.BigRewards >> uint(rng.Intn(5)); n > 0; n-- {
					rw.Rewards = append(rw.Rewards, &confirmed_block.Reward{Pubkey: solana.PublicKeyFromBytes(rng.Bytes(32)).String(), Lamports: int64(rng.Intn(1 << 30)), PostBalance: rng.U64() >> 20, RewardType: confirmed_block.RewardType_Staking})
				}
			}
			rb, _ := proto.Marshal(rw)
			rz, _ := tooling.CompressZstd(rb)
			fr, _ := g.frames(rz, 0, 1)
			rn := ipldbindcode.Rewards{Kind: 5, Slot: int(slot), Data: fr}
			rnb, err := rn.MarshalCBOR()
			if err != nil {
				panic(err)
			}
			rewardsLink = cidlink.Link{Cid: g.add(rnb)}
			gb.HasRewards = true
		}
		meta := ipldbindcode.SlotMeta{Parent_slot: int(parent), Blocktime: int(gb.Blocktime)}
		if gb.HasHeight {
			meta.Block_height = vfxPP(int(gb.Height))
		}
		bn := ipldbindcode.Block{Kind: 2, Slot: int(slot), Shredding: nil, Entries: entryLinks, Meta: meta, Rewards: rewardsLink}
		bb, err := bn.MarshalCBOR()
		if err != nil {
			panic(err)
		}
		bc := g.add(bb)
		gb.Cid = hex.EncodeToString(bc.Bytes())
		blockLinks = append(blockLinks, cidlink.Link{Cid: bc})
		tr.Blocks = append(tr.Blocks, gb)
		parent = slot
	}
	if spec.Boundary {
		// standalone data frames whose section-length VALUE (cid + payload bytes) sits exactly at and around the
		// points where the length varint gets one byte wider
		for _, target := range []int{127, 128, 129, 16383, 16384, 16385, 16511, 16512} {
			d := target - 36 - 12
			for tries := 0; tries < 40 && d >= 0; tries++ {
				payload := make([]byte, d)
				for i := range payload {
					payload[i] = byte(target + i*7 + int(spec.Epoch))
				}
				e := ipldbindcode.List__Link{}
				ep := &e
				fr := ipldbindcode.DataFrame{Kind: 6, Hash: vfxPP(target), Index: vfxPP(0), Total: vfxPP(1), Data: payload, Next: &ep}
				b, err := fr.MarshalCBOR()
				if err != nil {
					panic(err)
				}
				if 36+len(b) == target {
					g.add(b)
					break
				}
				d += target - (36 + len(b))
			}
		}
	}
	first, last := 0, 0
	if len(tr.Blocks) > 0 {
		first, last = int(tr.Blocks[0].Slot), int(tr.Blocks[len(tr.Blocks)-1].Slot)
	}
	sn := ipldbindcode.Subset{Kind: 3, First: first, Last: last, Blocks: blockLinks}
	sb, err := sn.MarshalCBOR()
	if err != nil {
		panic(err)
	}
	sc := g.add(sb)
	epn := ipldbindcode.Epoch{Kind: 4, Epoch: int(spec.Epoch), Subsets: ipldbindcode.List__Link{cidlink.Link{Cid: sc}}}
	epb, err := epn.MarshalCBOR()
	if err != nil {
		panic(err)
	}
	root := g.add(epb)
	hdrRoot := root
	if spec.LongHeader {
		hdrRoot = vfxMkCid(epb, true) // sha2-512 multihash: 68-byte CID, longer header
	}
	var buf bytes.Buffer
	if err := carv1.WriteHeader(&carv1.CarHeader{Roots: []cid.Cid{hdrRoot}, Version: 1}, &buf); err != nil {
		panic(err)
	}
	tr.HeaderLen = uint64(buf.Len())
	tr.RootCid = hdrRoot.String()
	for _, o := range g.objs {
		off := uint64(buf.Len())
		if err := util.LdWrite(&buf, o.c.Bytes(), o.data); err != nil {
			panic(err)
		}
		kind := -1
		if len(o.data) > 1 {
			kind = int(o.data[1])
		}
		tr.Objects = append(tr.Objects, vfxObj{Cid: hex.EncodeToString(o.c.Bytes()), Offset: off, SecLen: uint64(buf.Len()) - off, CidLen: len(o.c.Bytes()), Kind: kind})
	}
	return tr, buf.Bytes()
}

// vfxPadText returns n characters of pseudo-random text over a 64-letter alphabet (6 bits of entropy per byte).
func vfxPadText(rng *vh.Rng, n int) string {
	const alphabet = "ABCDEFGHIJKLMNOPQRSTUVWXYZabcdefghijklmnopqrstuvwxyz0123456789+/"
	b := rng.Bytes(n)
	for i := range b {
		b[i] = alphabet[b[i]&63]
	}
	return string(b)
}

// vfxBlockSpan returns the distance in the CAR file between the object of the block's parent (the end of the CAR
// header when the parent is not a block of this epoch) and the object of the block itself: the region that holds
// the block's entries, transactions and data frames. ok=false when the block's object is not in the truth.
func (t *vfxTruth) vfxBlockSpan(b *vfxBlock) (span uint64, ok bool) {
	off := map[string]uint64{}
	for _, o := range t.Objects {
		off[o.Cid] = o.Offset
	}
	bo, ok := off[b.Cid]
	if !ok {
		return 0, false
	}
	start := t.HeaderLen
	if pb := t.blockBySlot(b.Parent); pb != nil && pb.Slot != b.Slot && b.Parent/vfxEpochLen == t.Spec.Epoch {
		if po, ok := off[pb.Cid]; ok {
			start = po
		}
	}
	return bo - start, true
}

// ---------------------------------------------------------------- child process: build CAR + indexes

func vfxConfigYaml(tr *vfxTruth, carURI string) string {
	cfg := fmt.Sprintf("epoch: %d\nversion: 1\ndata:\n  car:\n    uri: %s\nindexes:\n  cid_to_offset_and_size:\n    uri: '%s'\n  slot_to_cid:\n    uri: '%s'\n  sig_to_cid:\n    uri: '%s'\n  sig_exists:\n    uri: '%s'\n  slot_to_blocktime:\n    uri: '%s'\n",
		tr.Spec.Epoch, carURI, tr.Paths.CidToOffsetAndSize, tr.Paths.SlotToCid, tr.Paths.SignatureToCid, tr.Paths.SignatureExists, tr.Paths.SlotToBlocktime)
	if tr.GsfaDir != "" {
		cfg += fmt.Sprintf("  gsfa:\n    uri: '%s'\n", tr.GsfaDir)
	}
	if tr.Spec.Epoch == 0 {
		cfg += fmt.Sprintf("genesis:\n  uri: '%s'\n", filepath.Join(vfxRepoRoot(), "radiance/genesis/testdata/mainnet/genesis.tar.bz2"))
	}
	return cfg
}

// vfxRepoRoot: the package directory of package main (the tests start there); children get it by env.
var vfxRoot = func() string {
	if r := os.Getenv("VFX_REPO_ROOT"); r != "" {
		return r
	}
	wd, _ := os.Getwd()
	return wd
}()

func vfxRepoRoot() string { return vfxRoot }

// TestVerif_FixtureChild is run in a child process (env VFX_SPEC = path of a spec JSON file).
func TestVerif_FixtureChild(t *testing.T) {
	specPath := os.Getenv("VFX_SPEC")
	if specPath == "" {
		t.Skip("not a fixture child")
	}
	raw, err := os.ReadFile(specPath)
	if err != nil {
		t.Fatal(err)
	}
	var spec vfxSpec
	if err := json.Unmarshal(raw, &spec); err != nil {
		t.Fatal(err)
	}
	t0 := time.Now()
	_ = os.MkdirAll(spec.Dir, 0o755)
	_ = os.Chdir(spec.Dir) // anything written to the cwd lands in scratch, never in /repo
	tr, car := vfxGenerate(spec)
	tr.CarPath = filepath.Join(spec.Dir, fmt.Sprintf("epoch-%d.car", spec.Epoch))
	if err := os.WriteFile(tr.CarPath, car, 0o644); err != nil {
		t.Fatal(err)
	}
	idxDir := filepath.Join(spec.Dir, "idx")
	_ = os.MkdirAll(idxDir, 0o755)
	tmpDir := filepath.Join(spec.Dir, "tmp")
	_ = os.MkdirAll(tmpDir, 0o755)
	func() {
		defer func() {
			if r := recover(); r != nil {
				tr.BuildErr = fmt.Sprintf("PANIC in createAllIndexes: %v", r)
			}
		}()
		paths, n, err := createAllIndexes(context.Background(), indexes.NetworkMainnet, tmpDir, tr.CarPath, idxDir)
		if err != nil {
			tr.BuildErr = "createAllIndexes: " + err.Error()
			return
		}
		tr.Paths = *paths
		tr.NumItems = n
	}()
	if tr.BuildErr == "" && spec.Gsfa {
		func() {
			defer func() {
				if r := recover(); r != nil {
					tr.BuildErr = fmt.Sprintf("PANIC in gsfa indexer: %v", r)
				}
			}()
			app := &cli.App{Commands: []*cli.Command{newCmd_Index_gsfa()}}
			err := app.Run([]string{"x", "gsfa", "--epoch", fmt.Sprint(spec.Epoch), "--tmp-dir", tmpDir, "--sigverify=false", tr.CarPath, idxDir})
			if err != nil {
				tr.BuildErr = "gsfa indexer: " + err.Error()
				return
			}
			ents, _ := os.ReadDir(idxDir)
			for _, e := range ents {
				if e.IsDir() {
					tr.GsfaDir = filepath.Join(idxDir, e.Name())
				}
			}
		}()
	}
	tr.ConfigYml = filepath.Join(spec.Dir, fmt.Sprintf("epoch-%d.yml", spec.Epoch))
	_ = os.WriteFile(tr.ConfigYml, []byte(vfxConfigYaml(tr, tr.CarPath)), 0o644)
	tr.BuildMs = time.Since(t0).Milliseconds()
	out, _ := json.Marshal(tr)
	if err := os.WriteFile(filepath.Join(spec.Dir, "truth.json"), out, 0o644); err != nil {
		t.Fatal(err)
	}
}

// vfxBuild builds the given epochs, each in its own child process, at most 4 in parallel.
func vfxBuild(specs []vfxSpec) ([]*vfxTruth, error) {
	res := make([]*vfxTruth, len(specs))
	errs := make([]error, len(specs))
	sem := make(chan struct{}, 4)
	var wg sync.WaitGroup
	for i := range specs {
		i := i
		wg.Add(1)
		go func() {
			defer wg.Done()
			sem <- struct{}{}
			defer func() { <-sem }()
			sp := specs[i]
			_ = os.RemoveAll(sp.Dir)
			_ = os.MkdirAll(sp.Dir, 0o755)
			specPath := filepath.Join(sp.Dir, "spec.json")
			b, _ := json.Marshal(sp)
			_ = os.WriteFile(specPath, b, 0o644)
			cmd := exec.Command(os.Args[0], "-test.run", "^TestVerif_FixtureChild$", "-test.count=1", "-test.timeout=600s")
			cmd.Env = append(os.Environ(), "VFX_SPEC="+specPath, "VFX_REPO_ROOT="+vfxRepoRoot())
			cmd.Dir = sp.Dir
			out, err := cmd.CombinedOutput()
			if err != nil {
				errs[i] = fmt.Errorf("VERIF-HARNESS-BUG? fixture child for %s failed: %v\n%s", sp.Name, err, vfxTail(out, 3000))
				return
			}
			raw, err := os.ReadFile(filepath.Join(sp.Dir, "truth.json"))
			if err != nil {
				errs[i] = fmt.Errorf("fixture child for %s wrote no truth: %v\n%s", sp.Name, err, vfxTail(out, 3000))
				return
			}
			var tr vfxTruth
			if err := json.Unmarshal(raw, &tr); err != nil {
				errs[i] = err
				return
			}
			res[i] = &tr
		}()
	}
	wg.Wait()
	for _, e := range errs {
		if e != nil {
			return res, e
		}
	}
	return res, nil
}

func vfxTail(b []byte, n int) string {
	if len(b) > n {
		b = b[len(b)-n:]
	}
	return string(b)
}

// ---------------------------------------------------------------- loading

var vfxCacheOnce sync.Once
var vfxCache *hugecache.Cache

func vfxSharedCache() *hugecache.Cache {
	vfxCacheOnce.Do(func() {
		c, err := hugecache.NewWithConfig(context.Background(), bigcache.DefaultConfig(5*60*1e9))
		if err != nil {
			panic(err)
		}
		vfxCache = c
	})
	return vfxCache
}

func vfxNewCache() *hugecache.Cache {
	c, err := hugecache.NewWithConfig(context.Background(), bigcache.DefaultConfig(5*60*1e9))
	if err != nil {
		panic(err)
	}
	return c
}

func vfxCliContext() *cli.Context {
	cctx := cli.NewContext(cli.NewApp(), flag.NewFlagSet("x", flag.ContinueOnError), nil)
	cctx.Context = context.Background()
	return cctx
}

// vfxLoadConfigFile loads an epoch from a YAML config file through LoadConfig + NewEpochFromConfig.
func vfxLoadConfigFile(path string, cache *hugecache.Cache) (ep *Epoch, err error) {
	defer func() {
		if r := recover(); r != nil {
			err = fmt.Errorf("PANIC while loading epoch: %v", r)
		}
	}()
	conf, err := LoadConfig(path)
	if err != nil {
		return nil, fmt.Errorf("LoadConfig: %w", err)
	}
	return NewEpochFromConfig(conf, vfxCliContext(), cache, nil)
}

func vfxLoad(tr *vfxTruth, cache *hugecache.Cache) (*Epoch, error) {
	return vfxLoadConfigFile(tr.ConfigYml, cache)
}

func vfxCidFromHex(h string) cid.Cid {
	b, err := hex.DecodeString(h)
	if err != nil {
		panic(err)
	}
	_, c, err := cid.CidFromBytes(b)
	if err != nil {
		panic(err)
	}
	return c
}

func vfxDefaultSpec(name string, epoch uint64, seed uint64) vfxSpec {
	return vfxSpec{Name: name, Dir: filepath.Join(vh.OutDir(), "fx-"+name), Epoch: epoch, Seed: seed, NumSlots: 40, FirstRel: 0,
		SkipPercent: 20, MaxEntries: 3, MaxTx: 3, FrameSize: 0, FanOut: 5, Accounts: 4}
}

// ---------------------------------------------------------------- JSON-RPC helper

// vfxRPC calls the JSON-RPC handler in-process. panicked=true when the handler panicked (recovered here so
// that the harness can classify it; in production fasthttp would let the process die).
func vfxRPC(h func(*fasthttp.RequestCtx), body string) (resp string, status int, panicked bool, panicMsg string) {
	defer func() {
		if r := recover(); r != nil {
			panicked = true
			panicMsg = fmt.Sprint(r)
		}
	}()
	var req fasthttp.Request
	req.Header.SetMethod("POST")
	req.Header.SetContentType("application/json")
	req.SetBody([]byte(body))
	var ctx fasthttp.RequestCtx
	ctx.Init(&req, nil, nil)
	h(&ctx)
	return string(ctx.Response.Body()), ctx.Response.StatusCode(), false, ""
}

type vfxRPCReply struct {
	Result json.RawMessage `json:"result"`
	Error  *struct {
		Code    int    `json:"code"`
		Message string `json:"message"`
	} `json:"error"`
}

func vfxParseReply(s string) (*vfxRPCReply, error) {
	var r vfxRPCReply
	if err := json.Unmarshal([]byte(s), &r); err != nil {
		return nil, err
	}
	return &r, nil
}

// vfxMultiCache is vfxMulti returning also the shared cache, so that further epochs can be loaded into the same
// server later on (a running server hands ONE cache to every epoch it loads, also to those it loads while running).
func vfxMultiCache(truths []*vfxTruth, concurrency int) (*MultiEpoch, []*Epoch, *hugecache.Cache, error) {
	multi, eps, err := vfxMulti(truths, concurrency)
	if err != nil {
		return nil, nil, nil, err
	}
	if len(eps) == 0 {
		return multi, eps, vfxNewCache(), nil
	}
	return multi, eps, eps[0].GetCache(), nil
}

// vfxMulti loads the given epochs into a MultiEpoch with one shared cache.
func vfxMulti(truths []*vfxTruth, concurrency int) (*MultiEpoch, []*Epoch, error) {
	cache := vfxNewCache()
	multi := NewMultiEpoch(&Options{EpochSearchConcurrency: concurrency})
	var eps []*Epoch
	for _, tr := range truths {
		if tr.BuildErr != "" {
			return nil, nil, fmt.Errorf("fixture %s: %s", tr.Spec.Name, tr.BuildErr)
		}
		ep, err := vfxLoad(tr, cache)
		if err != nil {
			return nil, nil, fmt.Errorf("fixture %s: load: %w", tr.Spec.Name, err)
		}
		if err := multi.AddEpoch(tr.Spec.Epoch, ep); err != nil {
			return nil, nil, err
		}
		eps = append(eps, ep)
	}
	return multi, eps, nil
}

// ---------------------------------------------------------------- legal but unusual transaction shapes (spec.EdgeTxs)

// vfxEdgeShapes lists the shapes in the order in which the generator hands them out (every second transaction
// of an epoch built with spec.EdgeTxs gets the next one). All of them pass the sanitisation rules of a Solana
// message (num_required_signatures + num_readonly_unsigned <= number of account keys, every index in range,
// one signature per required signer); the archive holds such transactions.
var vfxEdgeShapes = []string{
	"no-instructions",           // legacy, one signature, the instruction list is empty (the transaction only pays its fee)
	"no-instructions-2sig",      // the same with two signatures
	"instruction-no-accounts",   // one instruction with an empty account list and empty data
	"two-instructions-vote-2nd", // two instructions, the second of the vote program (still a simple vote transaction)
	"three-instructions-vote",   // three instructions of the vote program (not a simple vote transaction)
	"all-accounts-sign",         // every account key, the program included, is a required signer; no read-only accounts
	"twelve-signatures",         // twelve signers (what fits a 1232-byte packet) and the program
	"instruction-all-accounts",  // the program is the last account; the instruction lists every account (in reverse order), the program itself included
	"v0-no-instructions",        // a version-0 message without instructions and without address-table lookups
	"v0-one-instruction",        // a version-0 message with one instruction whose program is the last account, no lookups
}

// vfxEdgeTx rewrites tx (and the account list accs kept as ground truth) into the named shape, keeping the
// first signature and the first two accounts. It returns whether the result is a SIMPLE vote transaction
// (legacy, fewer than three signatures, one instruction of the vote program or two with the second of it).
func vfxEdgeTx(shape string, rng *vh.Rng, tx *solana.Transaction, accs *[]solana.PublicKey) (simpleVote bool) {
	newKey := func() solana.PublicKey {
		var k solana.PublicKey
		copy(k[:], rng.Bytes(32))
		return k
	}
	setSigners := func(n int) {
		for len(tx.Signatures) < n {
			var s solana.Signature
			copy(s[:], rng.Bytes(64))
			tx.Signatures = append(tx.Signatures, s)
		}
		tx.Signatures = tx.Signatures[:n]
		tx.Message.Header.NumRequiredSignatures = uint8(n)
	}
	m := &tx.Message
	payer, second := m.AccountKeys[0], m.AccountKeys[1]
	isVoteProg := m.AccountKeys[len(m.AccountKeys)-1] == solana.VoteProgramID
	switch shape {
	case "no-instructions":
		setSigners(1)
		m.Instructions = []solana.CompiledInstruction{}
	case "no-instructions-2sig":
		setSigners(2)
		m.Instructions = []solana.CompiledInstruction{}
	case "instruction-no-accounts":
		setSigners(1)
		m.Instructions = []solana.CompiledInstruction{{ProgramIDIndex: uint16(len(m.AccountKeys) - 1), Accounts: []uint16{}, Data: []byte{}}}
		simpleVote = isVoteProg
	case "two-instructions-vote-2nd":
		setSigners(1 + rng.Intn(2))
		m.AccountKeys = []solana.PublicKey{payer, second, solana.SystemProgramID, solana.VoteProgramID}
		m.Header.NumReadonlyUnsignedAccounts = 2
		m.Instructions = []solana.CompiledInstruction{
			{ProgramIDIndex: 2, Accounts: []uint16{0, 1}, Data: rng.Bytes(4)},
			{ProgramIDIndex: 3, Accounts: []uint16{1, 0}, Data: rng.Bytes(1 + rng.Intn(8))},
		}
		simpleVote = true
	case "three-instructions-vote":
		setSigners(1)
		m.AccountKeys = []solana.PublicKey{payer, second, solana.VoteProgramID}
		m.Header.NumReadonlyUnsignedAccounts = 1
		m.Instructions = nil
		for i := 0; i < 3; i++ {
			m.Instructions = append(m.Instructions, solana.CompiledInstruction{ProgramIDIndex: 2, Accounts: []uint16{1, 0}, Data: rng.Bytes(1 + i)})
		}
	case "all-accounts-sign":
		m.AccountKeys = []solana.PublicKey{payer, second, newKey(), m.AccountKeys[len(m.AccountKeys)-1]}
		setSigners(4)
		m.Header.NumReadonlySignedAccounts, m.Header.NumReadonlyUnsignedAccounts = 1, 0
		m.Instructions = []solana.CompiledInstruction{{ProgramIDIndex: 3, Accounts: []uint16{0, 1, 2}, Data: rng.Bytes(2)}}
	case "twelve-signatures":
		prog := m.AccountKeys[len(m.AccountKeys)-1]
		m.AccountKeys = []solana.PublicKey{payer, second}
		for len(m.AccountKeys) < 12 {
			m.AccountKeys = append(m.AccountKeys, newKey())
		}
		m.AccountKeys = append(m.AccountKeys, prog)
		setSigners(12)
		m.Header.NumReadonlyUnsignedAccounts = 1
		m.Instructions = []solana.CompiledInstruction{{ProgramIDIndex: 12, Accounts: []uint16{0, 11}, Data: rng.Bytes(3)}}
	case "instruction-all-accounts":
		setSigners(1)
		all := make([]uint16, len(m.AccountKeys))
		for i := range all {
			all[i] = uint16(len(all) - 1 - i)
		}
		m.Instructions = []solana.CompiledInstruction{{ProgramIDIndex: uint16(len(m.AccountKeys) - 1), Accounts: all, Data: []byte{}}}
		simpleVote = isVoteProg
	case "v0-no-instructions":
		setSigners(1)
		m.SetVersion(solana.MessageVersionV0)
		m.Instructions = []solana.CompiledInstruction{}
	case "v0-one-instruction":
		setSigners(1 + rng.Intn(2))
		m.SetVersion(solana.MessageVersionV0)
		m.Instructions = []solana.CompiledInstruction{{ProgramIDIndex: uint16(len(m.AccountKeys) - 1), Accounts: []uint16{0}, Data: rng.Bytes(1 + rng.Intn(5))}}
	default:
		panic("fixture: unknown edge shape " + shape)
	}
	*accs = append([]solana.PublicKey(nil), m.AccountKeys...)
	return simpleVote
}
