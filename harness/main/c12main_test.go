package main

// Verification harness for C12, package main (injected with `go test -overlay` together with fixture_test.go;
// not part of the repository).
//
// TestVerif_C12main_sections: mutated CAR sections through parseNodeFromSection / readNodeWithKnownSize /
//   readNodeFromReaderAtWithOffsetAndSize / readNodeSizeFromReaderAtWithOffset, and mutated CAR files through
//   carCountItems / carCountItemsByFirstByte (the `block[1]` kind dispatch), under the c12h watchdog.
//   Correspondence: the kind dispatch against YF.C12_Parsers.kind_of.
// TestVerif_C12main_getblock: a generated epoch (real indexes) whose CAR gets ONE transaction / entry / rewards
//   object overwritten with bytes no decoder accepts, then getBlock (JSON-RPC, every encoding), gRPC GetBlock and
//   getTransaction are served from it. Oracle: an error reply, never a panic (the handler's nil-transaction loop).
//   Correspondence: YF.C12_Parsers.assemble_block.

import (
	"bufio"
	"bytes"
	"context"
	"encoding/binary"
	"fmt"
	"os"
	"path/filepath"
	"testing"

	"github.com/ipfs/go-cid"
	carv1 "github.com/ipld/go-car"
	"github.com/ipld/go-car/util"
	"github.com/multiformats/go-multihash"
	"github.com/rpcpool/yellowstone-faithful/iplddecoders"
	old_faithful_grpc "github.com/rpcpool/yellowstone-faithful/old-faithful-proto/old-faithful-grpc"
	"github.com/rpcpool/yellowstone-faithful/zzverif/c12h"
	"github.com/rpcpool/yellowstone-faithful/zzverif/vh"
)

type vc12RC struct{ *bytes.Reader }

func (vc12RC) Close() error { return nil }

func vc12Cid(data []byte) cid.Cid {
	h, err := multihash.Sum(data, multihash.SHA2_256, -1)
	if err != nil {
		panic("VERIF-HARNESS-BUG " + err.Error())
	}
	return cid.NewCidV1(cid.DagCBOR, h)
}

// seeds: single sections (Name "section") and small CAR files (Name "car")
func vc12Seeds(dir string, rng *vh.Rng) ([]c12h.Seed, error) {
	var seeds []c12h.Seed
	for _, n := range []int{40, 2, 200, 17000} {
		data := rng.Bytes(n)
		data[0], data[1] = 0x84, 0x01
		c := vc12Cid(data)
		var b bytes.Buffer
		if err := util.LdWrite(&b, c.Bytes(), data); err != nil {
			return nil, err
		}
		seeds = append(seeds, c12h.Seed{Name: "section", Data: b.Bytes(), Keys: [][]byte{c.Bytes()}, Nums: []uint64{uint64(len(binary.AppendUvarint(nil, uint64(len(c.Bytes())+n)))), uint64(len(c.Bytes())), uint64(n)}})
	}
	for _, sizes := range [][]int{{30, 9, 100}, {2, 2}, {}} {
		var b bytes.Buffer
		if err := carv1.WriteHeader(&carv1.CarHeader{Roots: []cid.Cid{vc12Cid([]byte("r"))}, Version: 1}, &b); err != nil {
			return nil, err
		}
		nums := []uint64{uint64(b.Len())}
		for i, n := range sizes {
			data := rng.Bytes(n)
			data[0], data[1] = 0x84, byte(i%6)
			c := vc12Cid(data)
			nums = append(nums, uint64(b.Len()), uint64(len(c.Bytes())), uint64(n))
			if err := util.LdWrite(&b, c.Bytes(), data); err != nil {
				return nil, err
			}
		}
		seeds = append(seeds, c12h.Seed{Name: "car", Data: b.Bytes(), Nums: nums})
	}
	return seeds, nil
}

func vc12Gen(seeds []c12h.Seed, rng *vh.Rng, thorough bool) []c12h.Input {
	var ins []c12h.Input
	nrand := 1200
	if thorough {
		nrand = 15000
	}
	for si := range seeds {
		s := &seeds[si]
		if s.Name == "section" {
			vl, cl, dl := int(s.Nums[0]), int(s.Nums[1]), int(s.Nums[2])
			fields := []c12h.Field{{Name: "section.len", Off: 0, Len: 1}}
			for j := 0; j < 4; j++ {
				fields = append(fields, c12h.Field{Name: "cid.byte", Off: vl + j, Len: 1})
			}
			for _, e := range []string{"parse", "knownsize", "readerat", "nodesize"} {
				aux := []uint64{uint64(len(s.Data)), 1}
				ins = append(ins, c12h.Input{Entry: e, Label: "valid", Data: s.Data, Keys: s.Keys, Aux: aux})
				ins = append(ins, c12h.Input{Entry: e, Label: "valid-nocid", Data: s.Data, Keys: s.Keys, Aux: []uint64{uint64(len(s.Data)), 0}})
				ins = append(ins, c12h.MutateFields(e, s, fields, s.Keys, aux)...)
				ins = append(ins, c12h.Truncations(e, s, []int{vl, vl + cl, vl + cl + 1, vl + cl + 2}, s.Keys, aux)...)
				for _, declared := range []uint64{0, 1, uint64(cl) - 1, uint64(cl), uint64(cl + dl + 1), 1 << 25, 1<<25 + 1, 1 << 40, 1<<64 - 1} {
					d := binary.AppendUvarint(nil, declared)
					d = append(d, s.Data[vl:]...)
					ins = append(ins, c12h.Input{Entry: e, Label: "section.len", Data: d, Keys: s.Keys, Aux: []uint64{uint64(len(d)), 1}})
				}
				// the length the index hands to the reader disagrees with the bytes
				for _, l := range []uint64{0, 1, 2, uint64(len(s.Data)) - 1, uint64(len(s.Data)) + 1, 1 << 16, 1<<24 - 1} {
					ins = append(ins, c12h.Input{Entry: e, Label: "index.size", Data: s.Data, Keys: s.Keys, Aux: []uint64{l, 1}})
				}
				if len(s.Data) < 1000 {
					ins = append(ins, c12h.RandomMutations(e, s, rng, nrand/2, vl+cl, s.Keys, aux)...)
				}
			}
			continue
		}
		hdr := int(s.Nums[0])
		bounds := []int{hdr}
		for i := 1; i+2 < len(s.Nums); i += 3 {
			off, cl, dl := int(s.Nums[i]), int(s.Nums[i+1]), int(s.Nums[i+2])
			bounds = append(bounds, off, off+1+cl, off+1+cl+dl)
			// objects of 0, 1, 2 bytes with a consistent section length: the kind byte data[1] is missing
			for keep := 0; keep <= 2 && keep <= dl; keep++ {
				d := append([]byte(nil), s.Data[:off]...)
				d = binary.AppendUvarint(d, uint64(cl+keep))
				d = append(d, s.Data[off+1:off+1+cl+keep]...)
				d = append(d, s.Data[off+1+cl+dl:]...)
				for _, e := range []string{"count", "countkinds"} {
					ins = append(ins, c12h.Input{Entry: e, Label: "object.short", Data: d})
				}
			}
			for _, e := range []string{"count", "countkinds"} {
				ins = append(ins, c12h.MutateFields(e, s, []c12h.Field{{Name: "section.len", Off: off, Len: 1}, {Name: "cid.byte", Off: off + 1, Len: 1}, {Name: "cid.byte", Off: off + 3, Len: 1}, {Name: "cid.byte", Off: off + 4, Len: 1}}, nil, nil)...)
			}
		}
		for _, e := range []string{"count", "countkinds"} {
			ins = append(ins, c12h.Input{Entry: e, Label: "valid", Data: s.Data})
			ins = append(ins, c12h.Truncations(e, s, bounds, nil, nil)...)
			ins = append(ins, c12h.RandomMutations(e, s, rng, nrand, 0, nil, nil)...)
		}
		// kind dispatch for the model: the same rule on bare byte strings
		for n := 0; n <= 4; n++ {
			ins = append(ins, c12h.Input{Entry: "kind", Label: "short", Data: rng.Bytes(n)})
		}
	}
	ins = append(ins, c12h.Junk("parse", rng, 200, nil)...)
	ins = append(ins, c12h.Junk("kind", rng, 100, nil)...)
	for i := range ins {
		if ins[i].Aux == nil {
			ins[i].Aux = []uint64{uint64(len(ins[i].Data)), 0}
		}
	}
	return ins
}

var vc12Run int

func vc12Exec(in *c12h.Input) c12h.Obs {
	var wanted *cid.Cid
	if in.Aux[1] == 1 && len(in.Keys) > 0 {
		if c, err := cid.Cast(in.Keys[0]); err == nil {
			wanted = &c
		}
	}
	var err error
	switch in.Entry {
	case "parse":
		_, err = parseNodeFromSection(in.Data, wanted)
	case "knownsize":
		_, err = readNodeWithKnownSize(bufio.NewReader(bytes.NewReader(in.Data)), wanted, in.Aux[0])
	case "readerat":
		_, err = readNodeFromReaderAtWithOffsetAndSize(vc12RC{bytes.NewReader(in.Data)}, wanted, 0, in.Aux[0])
		if err == nil {
			_, err = readSectionFromReaderAt(vc12RC{bytes.NewReader(in.Data)}, 0, in.Aux[0])
		}
	case "nodesize":
		var n uint64
		n, err = readNodeSizeFromReaderAtWithOffset(bytes.NewReader(in.Data), 0)
		if err == nil && n > uint64(util.MaxAllowedSectionSize) {
			panic("readNodeSizeFromReaderAtWithOffset returned a size above the section cap")
		}
		if err == nil {
			_, err = ReadAllFromReaderAt(bytes.NewReader(in.Data), uint64(len(in.Data)))
		}
	case "count", "countkinds":
		vc12Run++
		p := filepath.Join(vh.OutDir(), "c12_main-sections", fmt.Sprintf("run%d.car", vc12Run%4))
		if werr := os.WriteFile(p, in.Data, 0o644); werr != nil {
			panic("VERIF-HARNESS-BUG " + werr.Error())
		}
		if in.Entry == "count" {
			_, err = carCountItems(p)
		} else {
			_, _, err = carCountItemsByFirstByte(p)
		}
	case "kind":
		k, kerr := iplddecoders.GetKind(in.Data)
		if kerr != nil {
			return c12h.Obs{Class: "error"}
		}
		return c12h.Obs{Class: "ok", Nums: []uint64{uint64(byte(k))}}
	default:
		panic("VERIF-HARNESS-BUG unknown entry " + in.Entry)
	}
	if err != nil {
		return c12h.Obs{Class: "error"}
	}
	return c12h.Obs{Class: "ok"}
}

func TestVerif_C12main_sections(t *testing.T) {
	c12h.Run(t, &c12h.Part{
		Name:  "main-sections",
		Rule:  "parseNodeFromSection / readNodeWithKnownSize / readNodeFromReaderAtWithOffsetAndSize / readNodeSizeFromReaderAtWithOffset / carCountItems / carCountItemsByFirstByte on mutated sections and CAR files: no panic, allocation <= 96 MiB (32 MiB section cap of go-car + 32 MiB digest cap of go-cid + growth + 16 MiB index size field) + 16*len, no hang",
		Seeds: vc12Seeds, Gen: vc12Gen, Exec: vc12Exec,
		Budget: func(in *c12h.Input) uint64 { return 96<<20 + uint64(16*len(in.Data)) + 2*in.Aux[0] },
		Witnesses: func(seeds []c12h.Seed) map[string]c12h.Input {
			s := &seeds[len(seeds)-3]
			off, cl, dl := int(s.Nums[1]), int(s.Nums[2]), int(s.Nums[3])
			d := append([]byte(nil), s.Data[:off]...)
			d = binary.AppendUvarint(d, uint64(cl+1))
			d = append(d, s.Data[off+1:off+1+cl+1]...)
			d = append(d, s.Data[off+1+cl+dl:]...)
			return map[string]c12h.Input{"g_kind_len": {Entry: "countkinds", Label: "witness", Data: d, Aux: []uint64{0, 0}}}
		},
		CoqImports: []string{"YF.C12_Check"}, CoqType: "kind_case",
		CoqChecker: func(f map[string]bool) string { return "(check_kind true)" }, // iplddecoders.GetKind is guarded on every tree
		CoqCase: func(in *c12h.Input, r *c12h.Result) (string, bool) {
			cls, ok := c12h.ClassN(r.Class)
			if !ok || in.Entry != "kind" {
				return "", false
			}
			k := uint64(0)
			if len(r.Nums) == 1 {
				k = r.Nums[0]
			}
			return fmt.Sprintf("CKind %s %s %s", vh.CoqBytes(in.Data), vh.CoqN(cls), vh.CoqN(k)), true
		},
	})
}

// ---------------------------------------------------------------- getBlock over a CAR with an undecodable object

func vc12Corrupt(path string, o vfxObj) error {
	f, err := os.OpenFile(path, os.O_RDWR, 0)
	if err != nil {
		return err
	}
	defer f.Close()
	// the object's data starts after the section varint and the CID
	hdr := make([]byte, 12)
	if _, err := f.ReadAt(hdr, int64(o.Offset)); err != nil {
		return err
	}
	_, vl := binary.Uvarint(hdr)
	if vl <= 0 {
		return fmt.Errorf("bad section varint at %d", o.Offset)
	}
	// 0xff = CBOR "break": no decoder accepts it as the first byte of a node
	_, err = f.WriteAt([]byte{0xff}, int64(o.Offset)+int64(vl)+int64(o.CidLen))
	return err
}

func TestVerif_C12main_getblock(t *testing.T) {
	rep := vh.NewReport("C12", "main-getblock", "getBlock (JSON-RPC, all encodings), gRPC GetBlock and getTransaction over an epoch whose CAR holds one undecodable transaction / entry / rewards object: an error reply, never a panic; class = Coq model assemble_block")
	defer rep.Write()
	kinds := []struct {
		name string
		kind int
	}{{"transaction", int(iplddecoders.KindTransaction)}, {"entry", int(iplddecoders.KindEntry)}, {"rewards", int(iplddecoders.KindRewards)}}
	var specs []vfxSpec
	for i, k := range kinds {
		sp := vfxDefaultSpec("c12-"+k.name, uint64(20+i), vh.Seed()+uint64(i))
		sp.NumSlots, sp.SkipPercent, sp.MaxEntries, sp.MaxTx, sp.Rewards = 12, 0, 2, 3, true
		specs = append(specs, sp)
	}
	truths, err := vfxBuild(specs)
	if err != nil {
		t.Fatalf("VERIF-HARNESS-BUG setup failed: %v", err)
	}
	flagGood := true
	type obs struct {
		fetched []bool
		cls     int
	}
	var all []obs
	for ki, k := range kinds {
		tr := truths[ki]
		if tr.BuildErr != "" {
			t.Fatalf("VERIF-HARNESS-BUG setup failed: fixture %s: %s", tr.Spec.Name, tr.BuildErr)
		}
		// pick the victim: an object of the wanted kind that belongs to a block with at least two transactions
		var victim *vfxObj
		var blk *vfxBlock
		cidKind := map[string]vfxObj{}
		for _, o := range tr.Objects {
			cidKind[o.Cid] = o
		}
		for bi := range tr.Blocks {
			b := &tr.Blocks[bi]
			if len(b.Txs) < 2 || (k.name == "rewards" && !b.HasRewards) {
				continue
			}
			switch k.name {
			case "transaction":
				o := cidKind[b.Txs[1].Cid]
				victim, blk = &o, b
			case "entry":
				o := cidKind[b.Entries[0].Cid]
				victim, blk = &o, b
			case "rewards":
				// the rewards object of this block: the Rewards-kind object closest before the block object
				bo := cidKind[b.Cid]
				for i := range tr.Objects {
					o := tr.Objects[i]
					if o.Kind == k.kind && o.Offset < bo.Offset && (victim == nil || o.Offset > victim.Offset) {
						oo := o
						victim = &oo
					}
				}
				blk = b
			}
			if victim != nil {
				break
			}
		}
		if victim == nil || victim.Kind != k.kind {
			rep.Note("fixture %s: no %s object to corrupt (skipped)", tr.Spec.Name, k.name)
			continue
		}
		if err := vc12Corrupt(tr.CarPath, *victim); err != nil {
			t.Fatalf("VERIF-HARNESS-BUG setup failed: %v", err)
		}
		multi, _, err := vfxMulti([]*vfxTruth{tr}, 1)
		if err != nil {
			rep.Fail("load-fails-after-object-corruption:"+k.name, err.Error(), map[string]interface{}{"fixture": tr.Spec.Name})
			continue
		}
		h := newMultiEpochHandler(multi, nil)
		fetched := make([]bool, len(blk.Txs))
		for i := range fetched {
			fetched[i] = !(k.name == "transaction" && blk.Txs[i].Cid == victim.Cid)
		}
		record := func(what string, panicked bool, pmsg string, isErr bool) {
			cls := 0
			switch {
			case panicked:
				cls = 2
			case isErr:
				cls = 1
			}
			rep.Case(tr.Spec.Name+"|"+what, true)
			rep.Count(k.name + "/" + []string{"ok", "error", "panic"}[cls])
			if k.name == "transaction" {
				all = append(all, obs{fetched, cls})
			}
			if panicked {
				if k.name == "transaction" {
					flagGood = false
				}
				rep.Fail("panic:main-getblock:"+k.name, fmt.Sprintf("%s over a CAR whose %s object %s (slot %d) cannot be decoded: %s", what, k.name, victim.Cid, blk.Slot, pmsg),
					map[string]interface{}{"fixture_spec": tr.Spec, "corrupted_object": victim, "slot": blk.Slot, "request": what})
			} else if !isErr && k.name != "rewards" {
				rep.Fail("undecodable-object-served:"+k.name, fmt.Sprintf("%s answered without an error although a %s of the block cannot be decoded", what, k.name),
					map[string]interface{}{"fixture_spec": tr.Spec, "corrupted_object": victim, "slot": blk.Slot})
			}
		}
		for _, enc := range []string{"base64", "json", "base58"} { // (jsonParsed is rejected while parsing the parameters)
			for _, rewards := range []string{"false", "true"} {
				body := fmt.Sprintf(`{"jsonrpc":"2.0","id":1,"method":"getBlock","params":[%d,{"encoding":"%s","maxSupportedTransactionVersion":0,"rewards":%s}]}`, blk.Slot, enc, rewards)
				resp, _, panicked, pmsg := vfxRPC(h, body)
				isErr := false
				if !panicked {
					if r, perr := vfxParseReply(resp); perr != nil || r.Error != nil {
						isErr = true
					}
				}
				if k.name == "rewards" && rewards == "false" {
					continue // the rewards object is not read
				}
				record("getBlock/"+enc+"/rewards="+rewards, panicked, pmsg, isErr)
			}
		}
		func() {
			panicked, pmsg, isErr := false, "", false
			func() {
				defer func() {
					if r := recover(); r != nil {
						panicked, pmsg = true, fmt.Sprint(r)
					}
				}()
				_, gerr := multi.GetBlock(context.Background(), &old_faithful_grpc.BlockRequest{Slot: blk.Slot})
				isErr = gerr != nil
			}()
			record("grpc.GetBlock", panicked, pmsg, isErr)
		}()
		if k.name == "transaction" {
			body := fmt.Sprintf(`{"jsonrpc":"2.0","id":1,"method":"getTransaction","params":["%s",{"encoding":"base64","maxSupportedTransactionVersion":0}]}`, blk.Txs[1].Sig)
			resp, _, panicked, pmsg := vfxRPC(h, body)
			isErr := false
			if !panicked {
				if r, perr := vfxParseReply(resp); perr != nil || r.Error != nil {
					isErr = true
				}
			}
			rep.Case(tr.Spec.Name+"|getTransaction", true)
			if panicked {
				rep.Fail("panic:main-getblock:getTransaction", pmsg, map[string]interface{}{"fixture_spec": tr.Spec, "corrupted_object": victim})
			} else if !isErr {
				rep.Fail("undecodable-object-served:getTransaction", "getTransaction answered without an error for a transaction that cannot be decoded", map[string]interface{}{"fixture_spec": tr.Spec, "corrupted_object": victim})
			}
			// an intact block of the same epoch is still served
			for bi := range tr.Blocks {
				b := &tr.Blocks[bi]
				if b.Slot == blk.Slot || len(b.Txs) == 0 {
					continue
				}
				resp, _, panicked, pmsg := vfxRPC(h, fmt.Sprintf(`{"jsonrpc":"2.0","id":1,"method":"getBlock","params":[%d,{"encoding":"base64","maxSupportedTransactionVersion":0,"rewards":false}]}`, b.Slot))
				ok := !panicked
				if ok {
					if r, perr := vfxParseReply(resp); perr != nil || r.Error != nil {
						ok = false
					}
				}
				rep.Case(tr.Spec.Name+"|intact", true)
				if ok {
					f := make([]bool, len(b.Txs))
					for i := range f {
						f[i] = true
					}
					all = append(all, obs{f, 0})
				} else {
					rep.Fail("intact-block-not-served", fmt.Sprintf("getBlock(%d) fails although only slot %d holds a corrupted object: %s", b.Slot, blk.Slot, pmsg), map[string]interface{}{"fixture_spec": tr.Spec, "slot": b.Slot})
				}
				break
			}
		}
	}
	rep.Flag("g_nil_tx", flagGood)
	cs := vh.NewCases("cases_c12_main_getblock", []string{"YF.C12_Check"}, "blk_case", "(check_blk "+vh.CoqBool(flagGood)+")")
	for _, o := range all {
		items := make([]string, len(o.fetched))
		for i, b := range o.fetched {
			items[i] = vh.CoqBool(b)
		}
		cs.Add(fmt.Sprintf("CBlk %s %s", vh.CoqList(items), vh.CoqN(uint64(o.cls))))
	}
	if err := cs.Write(); err != nil {
		t.Fatal(err)
	}
	rep.CasesWritten(cs)
	rep.Sample(map[string]interface{}{"cases": len(all), "g_nil_tx": flagGood})
}
