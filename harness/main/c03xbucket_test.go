package main

// Verification harness for C03, absent keys that are NOT collisions of the on-disk format, asked on LONG-LIVED readers
// between hits (called from TestVerif_C03; uses fixture_test.go).
//
// The sequential part of c03_test.go engineers absent keys whose 24-bit in-bucket hash equals that of a stored key of the
// SAME bucket: the index file itself answers them (the format allows that) and the later confirmation has to reject the
// object. This part adds the other class the quantifier names ("all absent keys"): keys the index file says NOTHING about,
// asked on a reader that has just answered other keys. In an index with several buckets every bucket hashes in its own
// domain; an absent key K2 of bucket b2 whose b2-domain hash equals the b1-domain hash of a stored key K1 of another
// bucket b1 is such a key (found by search with the index's own Header.BucketHash / BucketHeader.Hash; a fresh handle on
// the file confirms "not found"). The address index of getSignaturesForAddress always has 100 buckets and nothing behind
// it can confirm an address, so for it the index's "not found" is the only thing that keeps another address's
// transactions out of the reply.
//
//   - index level (a synthetic three-bucket index with 32-byte keys built with compactindexsized.NewBuilderSized, the
//     cid-to-offset-and-size index of the large-object epoch - two buckets -, and the 100-bucket address index of the big
//     epoch): on ONE reader kept open, the sequences K2, K1, K2, K1 for every engineered pair, then a few thousand
//     lookups mixing stored keys, random absent keys and the engineered ones in random order. The model of C03 takes an
//     index lookup to be a FUNCTION of the key (arbitrary, collisions included): every answer of the long-lived reader
//     must therefore equal the answer of a fresh handle on the same (immutable) file - same value, or not found.
//   - server level: getSignaturesForAddress through the JSON-RPC handler of a server that stays up, for the address
//     pairs: K2 (no history, no index entry) -> empty; K1 (has history) -> only signatures of transactions that mention
//     K1; K2 again -> empty; with one epoch and with several epochs loaded.
//
// Failure signatures: long-lived-index-reader-answer-differs-from-fresh-reader,
// gsfa-history-of-another-address:no-index-entry, gsfa-signature-of-transaction-not-mentioning-address.
// (gsfa-address-collision, the recorded finding about on-disk collisions, is NOT used here: the keys of this part have no
// index entry at all.)

import (
	"bytes"
	"context"
	"encoding/json"
	"errors"
	"fmt"
	"os"
	"path/filepath"
	"sort"

	"github.com/gagliardetto/solana-go"
	"github.com/ipfs/go-cid"
	"github.com/rpcpool/yellowstone-faithful/compactindexsized"
	"github.com/rpcpool/yellowstone-faithful/indexes"
	"github.com/rpcpool/yellowstone-faithful/zzverif/vh"
	"github.com/valyala/fasthttp"
)

type vc03XPair struct {
	K1, K2 []byte // K1 stored in bucket B1; K2 absent, of bucket B2 != B1, with the same number in its own domain
	B1, B2 uint
	Hash   uint64
}

type vc03XInfo struct {
	Buckets, Tries, OnDisk int
}

// vc03XOpen opens a fresh handle on an index file.
func vc03XOpen(path string) (*compactindexsized.DB, *os.File, error) {
	f, err := os.Open(path)
	if err != nil {
		return nil, nil, err
	}
	db, err := compactindexsized.Open(f)
	if err != nil {
		f.Close()
		return nil, nil, err
	}
	return db, f, nil
}

// vc03XFresh: the answer of a fresh handle (value, found, error that is not "not found").
func vc03XFresh(path string, key []byte) (val []byte, found bool, err error) {
	db, f, err := vc03XOpen(path)
	if err != nil {
		return nil, false, err
	}
	defer f.Close()
	return vc03XLookup(db, key)
}

func vc03XLookup(db *compactindexsized.DB, key []byte) (val []byte, found bool, err error) {
	defer func() {
		if r := recover(); r != nil {
			err = fmt.Errorf("PANIC in Lookup: %v", r)
		}
	}()
	v, lerr := db.Lookup(key)
	if lerr == nil {
		return v, true, nil
	}
	if errors.Is(lerr, compactindexsized.ErrNotFound) {
		return nil, false, nil
	}
	return nil, false, lerr
}

// vc03XPairs searches absent keys (from mkAbsent) that lie in another bucket than a stored key with the same in-bucket
// number and that the index file does not answer. Only the hash functions of the index are used for the search; the
// verdict "absent" comes from a fresh handle.
func vc03XPairs(path string, stored [][]byte, mkAbsent func() []byte, want, maxTries int) (pairs []vc03XPair, info vc03XInfo, err error) {
	defer func() {
		if r := recover(); r != nil {
			err = fmt.Errorf("PANIC while analysing the index: %v", r)
		}
	}()
	db, f, err := vc03XOpen(path)
	if err != nil {
		return nil, info, err
	}
	defer f.Close()
	nb := uint(db.Header.NumBuckets)
	info.Buckets = int(nb)
	if nb < 2 {
		return nil, info, nil
	}
	buckets := make([]*compactindexsized.Bucket, nb)
	for i := uint(0); i < nb; i++ {
		if buckets[i], err = db.GetBucket(i); err != nil {
			return nil, info, err
		}
	}
	type ref struct {
		key    int
		bucket uint
	}
	byHash := map[uint64][]ref{}
	isStored := map[string]bool{}
	for i, k := range stored {
		b := db.Header.BucketHash(k)
		h := buckets[b].Hash(k)
		byHash[h] = append(byHash[h], ref{i, b})
		isStored[string(k)] = true
	}
	used := map[int]bool{}
	for info.Tries = 0; info.Tries < maxTries && len(pairs) < want; info.Tries++ {
		k2 := mkAbsent()
		if isStored[string(k2)] {
			continue
		}
		b2 := db.Header.BucketHash(k2)
		h2 := buckets[b2].Hash(k2)
		refs := byHash[h2]
		if len(refs) == 0 {
			continue
		}
		pick, sameBucket := -1, false
		for j, r := range refs {
			if r.bucket == b2 {
				sameBucket = true
			} else if pick < 0 && !used[r.key] {
				pick = j
			}
		}
		if sameBucket || pick < 0 {
			if sameBucket {
				info.OnDisk++ // a collision of the on-disk format: the class of the sequential part
			}
			continue
		}
		if _, found, ferr := vc03XFresh(path, k2); ferr != nil || found {
			info.OnDisk++
			continue
		}
		used[refs[pick].key] = true
		pairs = append(pairs, vc03XPair{K1: stored[refs[pick].key], K2: k2, B1: refs[pick].bucket, B2: b2, Hash: h2})
	}
	return pairs, info, nil
}

// vc03XReplayIndex: one reader kept open; the engineered sequences, then a random mix of stored, absent and engineered
// keys; every answer against a fresh handle.
func vc03XReplayIndex(rep *vh.Report, label, path string, pairs []vc03XPair, stored [][]byte, mkAbsent func() []byte, rng *vh.Rng, mixed int, replay map[string]interface{}) {
	long, f, err := vc03XOpen(path)
	if err != nil {
		rep.Note("cross-bucket replay on %s skipped: %v", label, err)
		return
	}
	defer f.Close()
	fails := 0
	ask := func(key []byte, what, history string) {
		if fails >= 4 {
			return
		}
		wantV, wantFound, ferr := vc03XFresh(path, key)
		if ferr != nil {
			return // the file does not answer this key without an error: nothing to compare
		}
		gotV, gotFound, gerr := vc03XLookup(long, key)
		ok := gerr == nil && gotFound == wantFound && (!gotFound || bytes.Equal(gotV, wantV))
		if ok {
			return
		}
		fails++
		desc := func(v []byte, found bool, err error) string {
			if err != nil {
				return "error " + err.Error()
			}
			if !found {
				return "not found"
			}
			return fmt.Sprintf("value %x", v)
		}
		rp := map[string]interface{}{"index": label, "key": fmt.Sprintf("%x", key), "key_is": what, "earlier_lookups_on_the_reader": history}
		for k, v := range replay {
			rp[k] = v
		}
		rep.Fail("long-lived-index-reader-answer-differs-from-fresh-reader",
			fmt.Sprintf("%s: Lookup(%x) (%s) on a reader that had answered other keys before (%s): %s; a fresh handle on the same file: %s",
				label, key, what, history, desc(gotV, gotFound, gerr), desc(wantV, wantFound, nil)), rp)
	}
	for _, p := range pairs {
		rep.Case(fmt.Sprintf("xbucket/%s/%x", label, p.K2), true)
		hist := fmt.Sprintf("stored key %x of bucket %d was found just before; both keys have the number %#x in the hash domain of their own bucket", p.K1, p.B1, p.Hash)
		ask(p.K2, fmt.Sprintf("absent, bucket %d, no entry with its number in that bucket", p.B2), "nothing that concerns it")
		ask(p.K1, fmt.Sprintf("stored, bucket %d", p.B1), "the absent key of the other bucket")
		ask(p.K2, fmt.Sprintf("absent, bucket %d, no entry with its number in that bucket", p.B2), hist)
		ask(p.K1, fmt.Sprintf("stored, bucket %d", p.B1), "the absent key of the other bucket, again")
		ask(p.K2, fmt.Sprintf("absent, bucket %d, no entry with its number in that bucket", p.B2), hist)
	}
	for i := 0; i < mixed && len(stored) > 0; i++ {
		switch rng.Intn(4) {
		case 0:
			ask(stored[rng.Intn(len(stored))], "stored", "a random mix of stored and absent keys")
		case 1:
			ask(mkAbsent(), "absent (random)", "a random mix of stored and absent keys")
		default:
			if len(pairs) == 0 {
				ask(stored[rng.Intn(len(stored))], "stored", "a random mix of stored and absent keys")
				continue
			}
			p := pairs[rng.Intn(len(pairs))]
			if rng.Bool() {
				ask(p.K1, fmt.Sprintf("stored, bucket %d", p.B1), "a random mix of stored and absent keys")
			} else {
				ask(p.K2, fmt.Sprintf("absent, bucket %d", p.B2), "a random mix of stored and absent keys, the stored key with its number among them")
			}
		}
	}
	rep.CountN("xbucket/"+label+": lookups on the long-lived reader compared with a fresh handle", 5*len(pairs)+mixed)
}

// vc03XSynthetic builds a three-bucket index (32-byte keys, 9-byte values) with the repository's builder.
func vc03XSynthetic(rep *vh.Report, seed uint64) {
	rng := vh.NewRng(seed + 0xb0c4e7)
	dir := filepath.Join(vh.OutDir(), "c03xb")
	_ = os.RemoveAll(dir)
	if err := os.MkdirAll(filepath.Join(dir, "tmp"), 0o755); err != nil {
		rep.Note("cross-bucket part (synthetic index) skipped: %v", err)
		return
	}
	defer os.RemoveAll(dir)
	n := 24000 + rng.Intn(5000) // 3 buckets of about 8 000..9 700 entries
	path := filepath.Join(dir, "three-buckets.index")
	var stored [][]byte
	err := func() (err error) {
		defer func() {
			if r := recover(); r != nil {
				err = fmt.Errorf("PANIC: %v", r)
			}
		}()
		b, err := compactindexsized.NewBuilderSized(filepath.Join(dir, "tmp"), uint(n), 9)
		if err != nil {
			return err
		}
		defer b.Close()
		for i := 0; i < n; i++ {
			k := rng.Bytes(32)
			k[31] = 0x01
			v := make([]byte, 9)
			copy(v, k[:9])
			if err := b.Insert(k, v); err != nil {
				return err
			}
			stored = append(stored, k)
		}
		f, err := os.Create(path)
		if err != nil {
			return err
		}
		defer f.Close()
		return b.Seal(context.Background(), f)
	}()
	if err != nil {
		// a seed of the harness that does not build on the tree under test: the other parts go on
		rep.Note("cross-bucket part (synthetic index) skipped: the index does not build: %v", err)
		return
	}
	mkAbsent := func() []byte { k := rng.Bytes(32); k[31] = 0x02; return k }
	pairs, info, err := vc03XPairs(path, stored, mkAbsent, 24, 400000)
	if err != nil {
		rep.Note("cross-bucket part (synthetic index) skipped: %v", err)
		return
	}
	rep.CountN("xbucket/synthetic: buckets", info.Buckets)
	rep.CountN("xbucket/synthetic: absent keys tried", info.Tries)
	rep.CountN("xbucket/synthetic: absent keys with the number of a stored key of ANOTHER bucket (no index entry)", len(pairs))
	rep.CountN("xbucket/synthetic: absent keys dropped as on-disk collisions", info.OnDisk)
	vc03XReplayIndex(rep, "synthetic 3-bucket index", path, pairs, stored, mkAbsent, rng, 3000, map[string]interface{}{"seed": seed, "items": n})
}

// vc03XCidIndex: the cid-to-offset-and-size index of an epoch with more than 10 000 objects.
func vc03XCidIndex(rep *vh.Report, tr *vfxTruth, seed uint64) {
	if tr == nil || tr.BuildErr != "" {
		return
	}
	rng := vh.NewRng(seed + 0xc1d)
	var stored [][]byte
	for _, o := range tr.Objects {
		stored = append(stored, vfxCidFromHex(o.Cid).Bytes())
	}
	mkAbsent := func() []byte { return vfxMkCid(rng.Bytes(12), false).Bytes() }
	pairs, info, err := vc03XPairs(tr.Paths.CidToOffsetAndSize, stored, mkAbsent, 12, 400000)
	if err != nil {
		rep.Note("cross-bucket part (cid index of %s) skipped: %v", tr.Spec.Name, err)
		return
	}
	rep.CountN("xbucket/cid-index: buckets", info.Buckets)
	rep.CountN("xbucket/cid-index: absent CIDs with the number of a stored CID of another bucket (no index entry)", len(pairs))
	if info.Buckets < 2 {
		rep.Note("the cid-to-offset-and-size index of %s has one bucket (%d objects): no cross-bucket keys", tr.Spec.Name, len(tr.Objects))
		return
	}
	vc03XReplayIndex(rep, "cid-to-offset-and-size index of "+tr.Spec.Name, tr.Paths.CidToOffsetAndSize, pairs, stored, mkAbsent, rng, 1500, map[string]interface{}{"spec": tr.Spec})
	// through a loaded Epoch: hit, then the absent CID of the other bucket - never bytes
	ep, err := vfxLoad(tr, vfxNewCache())
	if err != nil {
		rep.Note("cross-bucket part (Epoch over %s) skipped: %v", tr.Spec.Name, err)
		return
	}
	defer ep.Close()
	ctx := context.Background()
	for _, p := range pairs {
		_, c1, e1 := cid.CidFromBytes(p.K1)
		_, c2, e2 := cid.CidFromBytes(p.K2)
		if e1 != nil || e2 != nil {
			continue
		}
		rep.Case(fmt.Sprintf("xbucket/epoch-cid/%s", c2), true)
		if _, err := ep.GetNodeByCid(ctx, c1); err != nil {
			rep.Fail("stored-cid-not-fetched:local", fmt.Sprintf("%s: GetNodeByCid(%s) failed: %v", tr.Spec.Name, c1, err), map[string]interface{}{"spec": tr.Spec})
		}
		if raw, err := ep.GetNodeByCid(ctx, c2); err == nil {
			rep.Fail("bytes-of-another-cid", fmt.Sprintf("%s: GetNodeByCid(%s) (not archived, no index entry), asked right after the archived %s, returned %d bytes", tr.Spec.Name, c2, c1, len(raw)),
				map[string]interface{}{"spec": tr.Spec, "cid": c2.String(), "fetched_before": c1.String()})
		}
	}
}

// ---------------------------------------------------------------- the address index

type vc03XAddr struct {
	pairs   []vc03XPair
	mention map[string]map[string]bool // address -> signatures of the transactions that mention it
	path    string
}

// vc03XAddrPairs: (address with history, address without history and without index entry) pairs of the big epoch's
// address index; the absent address must be unknown to every loaded epoch (checked by the caller per server).
func vc03XAddrPairs(rep *vh.Report, tr *vfxTruth, seed uint64) *vc03XAddr {
	if tr.GsfaDir == "" {
		return nil
	}
	x := &vc03XAddr{mention: map[string]map[string]bool{}, path: filepath.Join(tr.GsfaDir, string(indexes.Kind_PubkeyToOffsetAndSize)+".index")}
	for _, b := range tr.Blocks {
		for _, tx := range b.Txs {
			for _, l := range [][]string{tx.Accounts, tx.Loaded} {
				for _, a := range l {
					if x.mention[a] == nil {
						x.mention[a] = map[string]bool{}
					}
					x.mention[a][tx.Sig] = true
				}
			}
		}
	}
	var stored [][]byte
	for a := range x.mention {
		pk, err := solana.PublicKeyFromBase58(a)
		if err != nil {
			continue
		}
		// only addresses the index file really answers can play the stored key
		if _, found, err := vc03XFresh(x.path, pk[:]); err == nil && found {
			stored = append(stored, append([]byte(nil), pk[:]...))
		}
	}
	// map iteration order is random: the search must not depend on it
	vc03XSortBytes(stored)
	rng := vh.NewRng(seed + 0xadd2)
	mkAbsent := func() []byte { return rng.Bytes(32) }
	want := 6
	if vh.Thorough() {
		want = 30
	}
	pairs, info, err := vc03XPairs(x.path, stored, mkAbsent, want, 3000000)
	if err != nil {
		rep.Note("cross-bucket part (address index) skipped: %v", err)
		return nil
	}
	rep.CountN("xbucket/address-index: buckets", info.Buckets)
	rep.CountN("xbucket/address-index: indexed addresses", len(stored))
	rep.CountN("xbucket/address-index: addresses without history tried", info.Tries)
	rep.CountN("xbucket/address-index: addresses without history and without index entry that have the number of an indexed address of another bucket", len(pairs))
	x.pairs = pairs
	vc03XReplayIndex(rep, "address index of "+tr.Spec.Name, x.path, pairs, stored, mkAbsent, rng, 1500, map[string]interface{}{"spec": tr.Spec})
	return x
}

func vc03XSortBytes(l [][]byte) {
	sort.Slice(l, func(i, j int) bool { return bytes.Compare(l[i], l[j]) < 0 })
}

// vc03XAddrServer: getSignaturesForAddress through the handler of a server that stays up.
func vc03XAddrServer(rep *vh.Report, x *vc03XAddr, tag string, h func(*fasthttp.RequestCtx), eps []*Epoch, trBig *vfxTruth) {
	if x == nil {
		return
	}
	ctx := context.Background()
	ask := func(pk solana.PublicKey) (sigs []string, answered, ok bool) {
		body, _, panicked, pmsg := vfxRPC(h, fmt.Sprintf(`{"jsonrpc":"2.0","id":1,"method":"getSignaturesForAddress","params":["%s",{"limit":25}]}`, pk))
		if panicked {
			rep.Fail("handler-panic", pmsg, map[string]interface{}{"address": pk.String()})
			return nil, false, false
		}
		r, err := vfxParseReply(body)
		if err != nil || r.Error != nil {
			return nil, false, true
		}
		var list []struct {
			Signature string `json:"signature"`
		}
		if err := json.Unmarshal(r.Result, &list); err != nil {
			return nil, len(r.Result) > 4, true
		}
		for _, e := range list {
			sigs = append(sigs, e.Signature)
		}
		return sigs, len(list) > 0, true
	}
	n := 0
	for _, p := range x.pairs {
		k1, k2 := solana.PublicKeyFromBytes(p.K1), solana.PublicKeyFromBytes(p.K2)
		// the absent address must be unknown to every loaded epoch (random 32 bytes: it is, unless an index file says otherwise)
		unknown := true
		for _, ep := range eps {
			if ep.gsfaReader == nil || ep.Epoch() == trBig.Spec.Epoch {
				continue
			}
			if _, err := ep.gsfaReader.Get(ctx, k2, 1); err == nil {
				unknown = false
			}
		}
		if !unknown {
			continue
		}
		n++
		rep.Case(fmt.Sprintf("xbucket/%s/addr/%s", tag, k2), true)
		rp := map[string]interface{}{"spec": trBig.Spec, "address_without_history": k2.String(), "address_asked_before": k1.String(), "bucket_of_absent": p.B2, "bucket_of_indexed": p.B1, "hash": p.Hash}
		judgeAbsent := func(when string) {
			sigs, answered, ok := ask(k2)
			if !ok || !answered {
				return
			}
			whose := "signatures"
			if len(sigs) > 0 {
				whose = "signature " + sigs[0]
				if x.mention[k1.String()][sigs[0]] {
					whose += " (a transaction of " + k1.String() + ", which does not mention the requested address)"
				}
			}
			rep.Fail("gsfa-history-of-another-address:no-index-entry",
				fmt.Sprintf("%s: getSignaturesForAddress(%s) %s: the address has no history and the address index has NO entry for it (a fresh handle answers not found), yet the reply holds %d entries: %s",
					tag, k2, when, len(sigs), whose), rp)
		}
		judgeAbsent("before the indexed address was asked")
		sigs, answered, ok := ask(k1)
		if ok {
			if !answered {
				rep.Fail("present-address-not-answered", fmt.Sprintf("%s: getSignaturesForAddress(%s): the address has %d transactions in the loaded epoch, the reply is empty or an error", tag, k1, len(x.mention[k1.String()])), rp)
			}
			for _, s := range sigs {
				if !x.mention[k1.String()][s] && vc03XSigOfBig(trBig, s) {
					rep.Fail("gsfa-signature-of-transaction-not-mentioning-address", fmt.Sprintf("%s: getSignaturesForAddress(%s) lists %s, a transaction of the epoch that does not mention the address", tag, k1, s), rp)
					break
				}
			}
		}
		judgeAbsent("right after getSignaturesForAddress(" + k1.String() + "), an indexed address of another bucket with the same in-bucket number")
		// the reader's own head lookup on the long-lived reader
		for _, ep := range eps {
			if ep.gsfaReader != nil && ep.Epoch() == trBig.Spec.Epoch {
				_, _ = ep.gsfaReader.Get(ctx, k1, 1)
				if locs, err := ep.gsfaReader.Get(ctx, k2, 5); err == nil && len(locs) > 0 {
					rep.Fail("gsfa-history-of-another-address:no-index-entry",
						fmt.Sprintf("%s: GsfaReader.Get(%s) right after Get(%s): %d transaction locations for an address without index entry", tag, k2, k1, len(locs)), rp)
				}
			}
		}
	}
	rep.CountN("xbucket/"+tag+": address pairs asked through getSignaturesForAddress (absent, indexed, absent)", n)
}

var vc03XBigSigs map[string]bool

func vc03XSigOfBig(tr *vfxTruth, sig string) bool {
	if vc03XBigSigs == nil {
		vc03XBigSigs = map[string]bool{}
		for _, b := range tr.Blocks {
			for _, tx := range b.Txs {
				vc03XBigSigs[tx.Sig] = true
			}
		}
	}
	return vc03XBigSigs[sig]
}
