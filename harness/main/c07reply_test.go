package main

// Verification harness for C07, JSON-RPC part (injected with `go test -overlay`; not part of the repository).
//
// Self-contained fixture: three GSFA indexes written with the real writer (gsfa.NewGsfaWriter / Push / Close), three
// in-memory "CAR files" (sections uvarint(len) | CID | dag-cbor Transaction, read through Epoch.remoteCarReader), three
// Epoch values carrying only what getSignaturesForAddress needs, served through newMultiEpochHandler.
// Every request is sent >= 24 times because the order of the reply depends on Go's map iteration order.
// Oracle: the reply array must be the slice (after `before`, cut to `limit`, up to `until`) of the address's complete
// newest-first history. Every distinct reply observed is also handed to the Coq checker (YF.C07_Check: CReply).

import (
	"bytes"
	"encoding/binary"
	"encoding/json"
	"fmt"
	"io"
	"os"
	"path/filepath"
	"strings"
	"sync"
	"testing"

	"github.com/gagliardetto/solana-go"
	"github.com/ipfs/go-cid"
	"github.com/multiformats/go-multihash"
	"github.com/rpcpool/yellowstone-faithful/gsfa"
	"github.com/rpcpool/yellowstone-faithful/indexes"
	"github.com/rpcpool/yellowstone-faithful/indexmeta"
	"github.com/rpcpool/yellowstone-faithful/ipld/ipldbindcode"
	"github.com/rpcpool/yellowstone-faithful/slottools"
	"github.com/rpcpool/yellowstone-faithful/zzverif/vh"
	"github.com/valyala/fasthttp"
)

var vc07rEpochs = []uint64{8, 6, 5} // newest first

type vc07rEntry struct {
	Sig   int    `json:"sig"` // address number * 100 + position in the address's history (1 = oldest)
	Slot  uint64 `json:"slot"`
	Epoch uint64 `json:"epoch"`
}

type vc07rAddr struct {
	pk     solana.PublicKey
	counts [3]int
	hist   [3][]vc07rEntry // per epoch, newest first; nil = absent
}

type vc07rMem struct{ b []byte }

func (m *vc07rMem) ReadAt(p []byte, off int64) (int, error) {
	if off < 0 || off >= int64(len(m.b)) {
		return 0, io.EOF
	}
	n := copy(p, m.b[off:])
	if n < len(p) {
		return n, io.EOF
	}
	return n, nil
}
func (m *vc07rMem) Close() error { return nil }

func vc07rSig(id int) solana.Signature {
	var s solana.Signature
	binary.LittleEndian.PutUint64(s[0:8], uint64(id))
	for i := 8; i < 64; i++ {
		s[i] = byte(0x50 + i)
	}
	return s
}

// a minimal well-formed legacy transaction: 1 signature, header (1,0,0), 1 account key, blockhash, no instructions
func vc07rTxBytes(id int, payer solana.PublicKey) []byte {
	var b []byte
	b = append(b, 1)
	s := vc07rSig(id)
	b = append(b, s[:]...)
	b = append(b, 1, 0, 0)
	b = append(b, 1)
	b = append(b, payer[:]...)
	var bh [32]byte
	bh[0] = 0xB1
	b = append(b, bh[:]...)
	b = append(b, 0)
	return b
}

func vc07rFlat(a *vc07rAddr) []vc07rEntry {
	var h []vc07rEntry
	for i := 0; i < 3; i++ {
		h = append(h, a.hist[i]...)
	}
	return h
}

func vc07rSlice(h []vc07rEntry, limit int, before, until *int) []vc07rEntry {
	exp := h
	if before != nil {
		idx := -1
		for i, x := range exp {
			if x.Sig == *before {
				idx = i
				break
			}
		}
		if idx < 0 {
			exp = nil
		} else {
			exp = exp[idx+1:]
		}
	}
	if len(exp) > limit {
		exp = exp[:limit]
	}
	if until != nil {
		for i, x := range exp {
			if x.Sig == *until {
				exp = exp[:i+1]
				break
			}
		}
	}
	return exp
}

func vc07rCall(h func(*fasthttp.RequestCtx), body string) (res string, panicked bool) {
	defer func() {
		if r := recover(); r != nil {
			res, panicked = fmt.Sprintf("panic: %v", r), true
		}
	}()
	var req fasthttp.Request
	req.Header.SetMethod("POST")
	req.SetBody([]byte(body))
	var ctx fasthttp.RequestCtx
	ctx.Init(&req, nil, nil)
	h(&ctx)
	return string(ctx.Response.Body()), false
}

type vc07rReplay struct {
	Addr     int          `json:"addr"`
	Counts   [3]int       `json:"entries_per_epoch_8_6_5"`
	History  []vc07rEntry `json:"history_newest_first"`
	Limit    int          `json:"limit"`
	Before   *int         `json:"before_sig,omitempty"`
	Until    *int         `json:"until_sig,omitempty"`
	SigsOnly bool         `json:"gsfa_only_signatures"`
	Request  string       `json:"request"`
	Expected []int        `json:"expected_signatures"`
	Observed []int        `json:"observed_signatures"`
	Orders   map[string]int `json:"epoch_orders_seen_over_repeats,omitempty"`
}

func vc07rCoqOpt(p *int) string {
	if p == nil {
		return "None"
	}
	return fmt.Sprintf("(Some %d)", *p%100)
}

func TestVerif_C07Reply(t *testing.T) {
	rng := vh.NewRng(vh.Seed() + 7)
	repeats := 24
	if vh.Thorough() {
		repeats = 60
	}
	rep := vh.NewReport("C07", "reply",
		fmt.Sprintf("JSON-RPC getSignaturesForAddress through newMultiEpochHandler: every address (n8,n6,n5) in {0..4}^3 entries per epoch (0 = absent); parameters: no options, every limit 1..N+1 alone, and (limit,before,until) combinations drawn from the history (all of them for N <= 5, a random sample above) plus an absent `before`; each request sent %d times (map iteration order); non-trivial = reply spans >= 2 epochs; distinct by (address, parameters)", repeats))
	cases := vh.NewCases("cases_c07_reply", []string{"YF.C07_Model", "YF.C07_Check"}, "case", "check")

	root := filepath.Join(vh.OutDir(), "c07reply")
	_ = os.RemoveAll(root)
	defer os.RemoveAll(root)

	// ---- plan addresses ----
	var addrs []*vc07rAddr
	addrNo := 0
	for n0 := 0; n0 <= 4; n0++ {
		for n1 := 0; n1 <= 4; n1++ {
			for n2 := 0; n2 <= 4; n2++ {
				addrNo++
				a := &vc07rAddr{counts: [3]int{n0, n1, n2}}
				binary.LittleEndian.PutUint32(a.pk[0:4], uint32(addrNo))
				a.pk[6] = byte(rng.Intn(256))
				a.pk[31] = 0x7C
				next := addrNo*100 + 1
				for i := 2; i >= 0; i-- {
					n := a.counts[i]
					if n == 0 {
						continue
					}
					e := vc07rEpochs[i]
					slot := e*slottools.EpochLen + uint64(rng.Pick(0, 1, 9))
					var asc []vc07rEntry
					for k := 0; k < n; k++ {
						asc = append(asc, vc07rEntry{Sig: next, Slot: slot, Epoch: e})
						next++
						slot += uint64(rng.Pick(0, 1, 3))
					}
					for k := n - 1; k >= 0; k-- {
						a.hist[i] = append(a.hist[i], asc[k])
					}
				}
				addrs = append(addrs, a)
			}
		}
	}
	sigToID := map[string]int{}
	// ---- per epoch: in-memory CAR + GSFA index ----
	dummyRoot := cid.MustParse("bafyreics5uul5lbtxslcigtoa5fkba7qgwu7cyb7ih7z6fzsh4lgfgraau")
	type push struct {
		off, size, slot uint64
		pk              solana.PublicKey
	}
	cars := make([]*vc07rMem, 3)
	pushes := make([][]push, 3)
	for i := 0; i < 3; i++ {
		e := vc07rEpochs[i]
		car := &vc07rMem{b: bytes.Repeat([]byte{0xCA}, 40+rng.Intn(30))} // stands for the CAR header
		for _, a := range addrs {
			h := a.hist[i]
			for k := len(h) - 1; k >= 0; k-- { // oldest first
				x := h[k]
				tx := &ipldbindcode.Transaction{
					Kind:     0,
					Data:     ipldbindcode.DataFrame{Kind: 6, Data: vc07rTxBytes(x.Sig, a.pk)},
					Metadata: ipldbindcode.DataFrame{Kind: 6, Data: []byte{}},
					Slot:     int(x.Slot),
				}
				data, err := tx.MarshalCBOR()
				if err != nil {
					t.Fatalf("setup failed: %v", err)
				}
				mh, err := multihash.Sum(data, multihash.SHA2_256, -1)
				if err != nil {
					t.Fatalf("setup failed: %v", err)
				}
				c := cid.NewCidV1(cid.DagCBOR, mh)
				payload := append(append([]byte{}, c.Bytes()...), data...)
				lenBuf := make([]byte, binary.MaxVarintLen64)
				n := binary.PutUvarint(lenBuf, uint64(len(payload)))
				off := uint64(len(car.b))
				car.b = append(car.b, lenBuf[:n]...)
				car.b = append(car.b, payload...)
				pushes[i] = append(pushes[i], push{off: off, size: uint64(n + len(payload)), slot: x.Slot, pk: a.pk})
				sigToID[vc07rSig(x.Sig).String()] = x.Sig
			}
		}
		cars[i] = car
		_ = e
	}
	var wg sync.WaitGroup
	errs := make([]error, 3)
	dirs := make([]string, 3)
	for i := 0; i < 3; i++ {
		i := i
		e := vc07rEpochs[i]
		dirs[i] = filepath.Join(root, fmt.Sprintf("gsfa-%d", e))
		tmp := filepath.Join(root, fmt.Sprintf("tmp-%d", e))
		if err := os.MkdirAll(tmp, 0o755); err != nil {
			t.Fatalf("setup failed: %v", err)
		}
		wg.Add(1)
		go func() {
			defer wg.Done()
			w, err := gsfa.NewGsfaWriter(dirs[i], indexmeta.Meta{}, e, dummyRoot, indexes.NetworkMainnet, tmp)
			if err != nil {
				errs[i] = err
				return
			}
			for _, p := range pushes[i] {
				if err := w.Push(p.off, p.size, p.slot, solana.PublicKeySlice{p.pk}, true, true, false); err != nil {
					errs[i] = err
					return
				}
			}
			errs[i] = w.Close()
		}()
	}
	wg.Wait()
	for i, err := range errs {
		if err != nil {
			t.Fatalf("setup failed: GSFA index of epoch %d: %v", vc07rEpochs[i], err)
		}
	}
	handlers := map[bool]func(*fasthttp.RequestCtx){}
	for _, sigsOnly := range []bool{true, false} {
		multi := NewMultiEpoch(&Options{GsfaOnlySignatures: sigsOnly, EpochSearchConcurrency: 2})
		// load the epochs in a scrambled order: the handler has to sort the readers itself
		for _, i := range rng.Perm(3) {
			r, err := gsfa.NewGsfaReader(dirs[i])
			if err != nil {
				t.Fatalf("setup failed: %v", err)
			}
			defer r.Close()
			ep := &Epoch{epoch: vc07rEpochs[i], gsfaReader: r, remoteCarReader: cars[i]}
			if err := multi.AddEpoch(vc07rEpochs[i], ep); err != nil {
				t.Fatalf("setup failed: %v", err)
			}
		}
		handlers[sigsOnly] = newMultiEpochHandler(multi, nil)
	}

	coqEps := func(a *vc07rAddr) string {
		var eps []string
		for i := 0; i < 3; i++ {
			if a.hist[i] == nil {
				eps = append(eps, fmt.Sprintf("(%d%%N, NotFound)", vc07rEpochs[i]))
				continue
			}
			var es []string
			for _, x := range a.hist[i] {
				es = append(es, fmt.Sprintf("(%d, %d%%N)", x.Sig%100, x.Slot))
			}
			eps = append(eps, fmt.Sprintf("(%d%%N, Found [[%s]])", vc07rEpochs[i], strings.Join(es, "; ")))
		}
		return "[" + strings.Join(eps, "; ") + "]"
	}

	type params struct {
		limit         int // 0 = not given
		before, until *int
	}
	orderTotals := map[string]int{}
	// replay mode: only the requests recorded in the replay file (same seed => same fixture)
	var replayKeys map[string]bool
	if rp := vh.Replay(); rp != "" {
		replayKeys = map[string]bool{}
		var doc struct {
			Failures []struct {
				Replay vc07rReplay `json:"replay"`
			} `json:"failures"`
		}
		if raw, err := os.ReadFile(rp); err == nil && json.Unmarshal(raw, &doc) == nil {
			for _, f := range doc.Failures {
				if f.Replay.Request != "" {
					replayKeys[fmt.Sprintf("a%d l%d b%s u%s", f.Replay.Addr, f.Replay.Limit, vc07rCoqOpt(f.Replay.Before), vc07rCoqOpt(f.Replay.Until))] = true
				}
			}
		}
	}
	for ai, a := range addrs {
		h := vc07rFlat(a)
		n := len(h)
		name := fmt.Sprintf("r%d", ai)
		cases.Preamble(fmt.Sprintf("Definition %s : list epoch := %s.", name, coqEps(a)))
		nEpochs := 0
		for i := 0; i < 3; i++ {
			if a.hist[i] != nil {
				nEpochs++
			}
		}
		rep.Count(fmt.Sprintf("epochs-with-address=%d", nEpochs))
		var ps []params
		ps = append(ps, params{})
		for l := 1; l <= n+1; l++ {
			ps = append(ps, params{limit: l})
		}
		absent := (ai+1)*100 + 99
		var marks []*int
		marks = append(marks, nil)
		for i := range h {
			s := h[i].Sig
			marks = append(marks, &s)
		}
		ps = append(ps, params{before: &absent}, params{until: &absent, limit: n})
		if n <= 5 {
			for l := 1; l <= n+1; l++ {
				for _, b := range marks {
					for _, u := range marks {
						if b != nil || u != nil {
							ps = append(ps, params{limit: l, before: b, until: u})
						}
					}
				}
			}
		} else {
			for k := 0; k < 14; k++ {
				p := params{limit: rng.Range(1, n+1)}
				if rng.Intn(4) != 0 {
					p.before = marks[1+rng.Intn(n)]
				}
				if rng.Intn(3) != 0 {
					p.until = marks[1+rng.Intn(n)]
				}
				if rng.Intn(3) == 0 {
					p.limit = 0
				}
				ps = append(ps, p)
			}
		}
		for _, p := range ps {
			var opts []string
			if p.limit > 0 {
				opts = append(opts, fmt.Sprintf(`"limit":%d`, p.limit))
			}
			if p.before != nil {
				opts = append(opts, fmt.Sprintf(`"before":"%s"`, vc07rSig(*p.before)))
			}
			if p.until != nil {
				opts = append(opts, fmt.Sprintf(`"until":"%s"`, vc07rSig(*p.until)))
			}
			body := fmt.Sprintf(`{"jsonrpc":"2.0","id":1,"method":"getSignaturesForAddress","params":["%s"`, a.pk)
			if len(opts) > 0 || rng.Bool() {
				body += ",{" + strings.Join(opts, ",") + "}"
			}
			body += "]}"
			effLimit := p.limit
			if effLimit <= 0 || effLimit > 1000 {
				effLimit = 1000 // parseGetSignaturesForAddressParams
			}
			exp := vc07rSlice(h, effLimit, p.before, p.until)
			expEpochs := map[uint64]bool{}
			var expSigs []int
			for _, x := range exp {
				expEpochs[x.Epoch] = true
				expSigs = append(expSigs, x.Sig)
			}
			sigsOnly := rng.Intn(4) != 0
			toCoq := rng.Intn(3) == 0 // every third parameter set also goes to the Coq checker (all its distinct replies)
			key := fmt.Sprintf("a%d l%d b%s u%s", ai, p.limit, vc07rCoqOpt(p.before), vc07rCoqOpt(p.until))
			if replayKeys != nil {
				if !replayKeys[key] {
					continue
				}
				toCoq = true
			}
			seen := map[string]bool{}
			orders := map[string]int{}
			var firstBad *vc07rReplay
			badKind := ""
			for k := 0; k < repeats; k++ {
				out, panicked := vc07rCall(handlers[sigsOnly], body)
				rep.Case(key, len(expEpochs) >= 2)
				rep.Count("requests")
				mk := func(obs []int) *vc07rReplay {
					return &vc07rReplay{Addr: ai, Counts: a.counts, History: h, Limit: p.limit, Before: p.before, Until: p.until,
						SigsOnly: sigsOnly, Request: body, Expected: expSigs, Observed: obs}
				}
				if panicked {
					rep.Fail("handler-panic", out, mk(nil))
					break
				}
				var resp struct {
					Result []struct {
						Signature string  `json:"signature"`
						Slot      *uint64 `json:"slot"`
					} `json:"result"`
					Error *struct {
						Code    int    `json:"code"`
						Message string `json:"message"`
					} `json:"error"`
				}
				if err := json.Unmarshal([]byte(out), &resp); err != nil || resp.Error != nil {
					rep.Fail("reply-error", "the request was answered with an error: "+out, mk(nil))
					break
				}
				var obs []int
				order := ""
				last := uint64(0)
				slotWrong := false
				for _, r := range resp.Result {
					id, ok := sigToID[r.Signature]
					if !ok {
						id = -1
					}
					obs = append(obs, id)
					var ent *vc07rEntry
					for j := range h {
						if h[j].Sig == id {
							ent = &h[j]
						}
					}
					if ent != nil {
						if ent.Epoch != last {
							order += fmt.Sprint(ent.Epoch) + " "
							last = ent.Epoch
						}
						if !sigsOnly && (r.Slot == nil || *r.Slot != ent.Slot) {
							slotWrong = true
						}
					}
				}
				orders[strings.TrimSpace(order)]++
				same := len(obs) == len(expSigs)
				for j := 0; same && j < len(obs); j++ {
					same = obs[j] == expSigs[j]
				}
				if !same && firstBad == nil {
					firstBad = mk(obs)
					// same entries, same order inside every epoch, only the epoch blocks are not newest first?
					blocks := map[uint64][]int{}
					for _, id := range obs {
						for j := range h {
							if h[j].Sig == id {
								blocks[h[j].Epoch] = append(blocks[h[j].Epoch], id)
							}
						}
					}
					var re []int
					for _, e := range vc07rEpochs {
						re = append(re, blocks[e]...)
					}
					badKind = "reply-mismatch"
					if len(re) == len(expSigs) {
						eq := true
						for j := range re {
							eq = eq && re[j] == expSigs[j]
						}
						if eq {
							badKind = "reply-order-not-newest-first"
						}
					}
				}
				if slotWrong {
					rep.Fail("reply-slot-wrong", "a reply entry carries a slot different from its transaction's", mk(obs))
				}
				ck := fmt.Sprint(obs)
				if toCoq && !seen[ck] {
					seen[ck] = true
					var ss []string
					for _, id := range obs {
						if id < 0 {
							ss = append(ss, "98")
						} else {
							ss = append(ss, fmt.Sprint(id%100))
						}
					}
					cases.Add(fmt.Sprintf("CReply %s (%d)%%Z %s %s [%s]", name, effLimit, vc07rCoqOpt(p.before), vc07rCoqOpt(p.until), strings.Join(ss, "; ")))
				}
			}
			if len(expEpochs) >= 2 {
				for o, c := range orders {
					orderTotals[fmt.Sprintf("epochs=%d order=%s", len(expEpochs), o)] += c
				}
			}
			if firstBad != nil {
				firstBad.Orders = orders
				detail := fmt.Sprintf("same request sent %d times; expected signatures %v; first differing reply %v; epoch orders seen: %v", repeats, expSigs, firstBad.Observed, orders)
				if badKind == "reply-order-not-newest-first" {
					detail = "the reply lists the epochs in map iteration order, not newest first: " + detail
				}
				rep.Fail(badKind, detail, firstBad)
			}
			if len(rep.Samples) < 3 && len(expEpochs) == 3 && rng.Intn(30) == 0 {
				rep.Sample(map[string]interface{}{"request": body, "history": h, "expected_signatures": expSigs, "epoch_orders_seen": orders})
			}
		}
	}
	for k, v := range orderTotals {
		rep.CountN("reply "+k, v)
	}
	rep.Flag("epochs_sorted_in_reply", rep.Distribution["failure:reply-order-not-newest-first"] == 0)
	rep.Flag("repeats_per_request", repeats)
	rep.Note("fixture: Epoch values with only epoch number, GSFA reader and an in-memory CAR reader; one linked-log record per address and epoch (multi-record chains are exercised by the gsfa harness)")
	rep.Note("not covered here: block-time / memo / err members of the reply entries (their values do not depend on the order), epochs served through local CAR files or split pieces")
	if replayKeys == nil {
		vc07rSharedPart(rng, rep, cases, root, dummyRoot)
	} else {
		// a recorded failure of the shared part depends on the requests before it: the whole sequence is repeated
		for _, k := range vc07rSharedReplays(vh.Replay()) {
			if k {
				vc07rSharedPart(rng, rep, cases, root, dummyRoot)
				break
			}
		}
	}
	if err := cases.Write(); err != nil {
		t.Fatal(err)
	}
	rep.CasesWritten(cases)
	if err := rep.Write(); err != nil {
		t.Fatal(err)
	}
}

// ---------------------------------------------------------------- addresses that share transactions, one running server

// vc07rSharedReplays: for each failure recorded in a replay file, whether it belongs to the shared part.
func vc07rSharedReplays(path string) []bool {
	var doc struct {
		Failures []struct {
			Replay struct {
				Part string `json:"part"`
			} `json:"replay"`
		} `json:"failures"`
	}
	var out []bool
	if raw, err := os.ReadFile(path); err == nil && json.Unmarshal(raw, &doc) == nil {
		for _, f := range doc.Failures {
			out = append(out, f.Replay.Part == "shared")
		}
	}
	return out
}

type vc07rSharedReplay struct {
	Part      string       `json:"part"` // "shared"
	Group     int          `json:"group"`
	Addr      int          `json:"address_in_group"`
	History   []vc07rEntry `json:"history_newest_first"`
	Limit     int          `json:"limit"`
	Before    *int         `json:"before_sig,omitempty"`
	Until     *int         `json:"until_sig,omitempty"`
	SigsOnly  bool         `json:"gsfa_only_signatures"`
	Request   string       `json:"request"`
	Expected  []int        `json:"expected_signatures"`
	Observed  []int        `json:"observed_signatures"`
	Preceded  []string     `json:"preceded_by_on_the_same_server"`
	FreshObs  []int        `json:"observed_on_a_freshly_started_server,omitempty"`
	FreshSame bool         `json:"freshly_started_server_gives_expected"`
}

// vc07rSharedPart: the transactions of a group mention 1..k of the group's addresses (the gsfa indexer pushes a
// transaction under each of its account keys), so one signature occurs in several histories. ONE MultiEpoch (its Epoch
// values and their gsfa readers) serves every request, as a running server does; the requests of the addresses of a group
// are interleaved: A is paged through (`before` = last signature of the previous page) and B is asked with `before` = the
// end of each page that B's history holds, then B with every signature of A; afterwards all requests again in shuffled
// order. Oracle per request: the reply is the slice of THAT address's newest-first history.
func vc07rSharedPart(_ *vh.Rng, rep *vh.Report, cases *vh.CasesFile, root string, dummyRoot cid.Cid) {
	rng := vh.NewRng(vh.Seed() + 7007) // its own stream: the same sequence of requests in a replay run
	nGroups, rpt := 20, 3
	if vh.Thorough() {
		nGroups, rpt = 160, 6
	}
	type gaddr struct {
		pk   solana.PublicKey
		hist [3][]vc07rEntry // per epoch, newest first
	}
	type group struct {
		no    int
		addrs []*gaddr
	}
	type push struct {
		off, size, slot uint64
		pks             solana.PublicKeySlice
	}
	var groups []*group
	sigToID := map[string]int{}
	cars := make([]*vc07rMem, 3)
	pushes := make([][]push, 3)
	for i := range cars {
		cars[i] = &vc07rMem{b: bytes.Repeat([]byte{0xCA}, 40+rng.Intn(30))}
	}
	fail := func(what string, err error) {
		rep.Note("shared-transaction part skipped: %s: %v", what, err)
	}
	addrNo := 0
	for g := 1; g <= nGroups; g++ {
		k := rng.Pick(2, 2, 3)
		grp := &group{no: g}
		for j := 0; j < k; j++ {
			addrNo++
			a := &gaddr{}
			binary.LittleEndian.PutUint32(a.pk[0:4], uint32(addrNo))
			a.pk[4] = 0x5B
			a.pk[6] = byte(rng.Intn(256))
			a.pk[31] = 0x7C
			grp.addrs = append(grp.addrs, a)
		}
		var n [3]int
		for n[0]+n[1]+n[2] < 2 {
			for i := range n {
				n[i] = rng.Pick(0, 1, 2, 2, 3, 4)
			}
		}
		forcedAll := rng.Intn(n[0] + n[1] + n[2])
		pos := 0
		for i := 2; i >= 0; i-- {
			e := vc07rEpochs[i]
			slot := e*slottools.EpochLen + uint64(rng.Pick(0, 1, 9))
			asc := make([][]vc07rEntry, k)
			for x := 0; x < n[i]; x++ {
				pos++
				ent := vc07rEntry{Sig: g*100 + pos, Slot: slot, Epoch: e}
				slot += uint64(rng.Pick(0, 1, 3))
				var who []int
				switch c := rng.Intn(6); {
				case pos-1 == forcedAll || c < 2:
					for j := 0; j < k; j++ {
						who = append(who, j)
					}
				case c < 4:
					p := rng.Perm(k)
					who = []int{p[0], p[1]}
				default:
					who = []int{rng.Intn(k)}
				}
				var pks solana.PublicKeySlice
				for _, j := range who {
					pks = append(pks, grp.addrs[j].pk)
					asc[j] = append(asc[j], ent)
				}
				tx := &ipldbindcode.Transaction{
					Kind:     0,
					Data:     ipldbindcode.DataFrame{Kind: 6, Data: vc07rTxBytes(ent.Sig, pks[0])},
					Metadata: ipldbindcode.DataFrame{Kind: 6, Data: []byte{}},
					Slot:     int(ent.Slot),
				}
				data, err := tx.MarshalCBOR()
				if err != nil {
					fail("encoding a transaction", err)
					return
				}
				mh, err := multihash.Sum(data, multihash.SHA2_256, -1)
				if err != nil {
					fail("hashing a transaction", err)
					return
				}
				c := cid.NewCidV1(cid.DagCBOR, mh)
				payload := append(append([]byte{}, c.Bytes()...), data...)
				lenBuf := make([]byte, binary.MaxVarintLen64)
				ln := binary.PutUvarint(lenBuf, uint64(len(payload)))
				off := uint64(len(cars[i].b))
				cars[i].b = append(cars[i].b, lenBuf[:ln]...)
				cars[i].b = append(cars[i].b, payload...)
				pushes[i] = append(pushes[i], push{off: off, size: uint64(ln + len(payload)), slot: ent.Slot, pks: pks})
				sigToID[vc07rSig(ent.Sig).String()] = ent.Sig
			}
			for j := 0; j < k; j++ {
				for x := len(asc[j]) - 1; x >= 0; x-- {
					grp.addrs[j].hist[i] = append(grp.addrs[j].hist[i], asc[j][x])
				}
			}
		}
		groups = append(groups, grp)
	}
	dirs := make([]string, 3)
	errs := make([]error, 3)
	var wg sync.WaitGroup
	for i := 0; i < 3; i++ {
		i := i
		e := vc07rEpochs[i]
		dirs[i] = filepath.Join(root, fmt.Sprintf("shared-gsfa-%d", e))
		tmp := filepath.Join(root, fmt.Sprintf("shared-tmp-%d", e))
		if err := os.MkdirAll(tmp, 0o755); err != nil {
			fail("scratch directory", err)
			return
		}
		wg.Add(1)
		go func() {
			defer wg.Done()
			defer func() {
				if p := recover(); p != nil {
					errs[i] = fmt.Errorf("panic: %v", p)
				}
			}()
			w, err := gsfa.NewGsfaWriter(dirs[i], indexmeta.Meta{}, e, dummyRoot, indexes.NetworkMainnet, tmp)
			if err != nil {
				errs[i] = err
				return
			}
			for _, p := range pushes[i] {
				if err := w.Push(p.off, p.size, p.slot, p.pks, true, true, false); err != nil {
					errs[i] = err
					return
				}
			}
			errs[i] = w.Close()
		}()
	}
	wg.Wait()
	for i, err := range errs {
		if err != nil {
			fail(fmt.Sprintf("GSFA index of epoch %d", vc07rEpochs[i]), err)
			return
		}
	}
	// a server: both reply flavours, each with its own Epoch values and gsfa readers, loaded once
	var closers []func()
	defer func() {
		for _, c := range closers {
			c()
		}
	}()
	newServer := func(sigsOnly bool, order []int) (func(*fasthttp.RequestCtx), error) {
		multi := NewMultiEpoch(&Options{GsfaOnlySignatures: sigsOnly, EpochSearchConcurrency: 2})
		for _, i := range order {
			r, err := gsfa.NewGsfaReader(dirs[i])
			if err != nil {
				return nil, err
			}
			closers = append(closers, func() { r.Close() })
			if err := multi.AddEpoch(vc07rEpochs[i], &Epoch{epoch: vc07rEpochs[i], gsfaReader: r, remoteCarReader: cars[i]}); err != nil {
				return nil, err
			}
		}
		return newMultiEpochHandler(multi, nil), nil
	}
	handlers := map[bool]func(*fasthttp.RequestCtx){}
	for _, so := range []bool{true, false} {
		h, err := newServer(so, rng.Perm(3))
		if err != nil {
			fail("loading the epochs", err)
			return
		}
		handlers[so] = h
	}
	flat := func(a *gaddr) []vc07rEntry {
		var h []vc07rEntry
		for i := 0; i < 3; i++ {
			h = append(h, a.hist[i]...)
		}
		return h
	}
	has := func(h []vc07rEntry, s int) bool {
		for _, x := range h {
			if x.Sig == s {
				return true
			}
		}
		return false
	}
	type request struct {
		g, j          int
		limit         int // 0 = not given
		before, until *int
		sigsOnly      bool
		coq           bool
	}
	send := func(h func(*fasthttp.RequestCtx), body string) (obs []int, problem string) {
		out, panicked := vc07rCall(h, body)
		if panicked {
			return nil, "handler-panic: " + out
		}
		var resp struct {
			Result []struct {
				Signature string `json:"signature"`
			} `json:"result"`
			Error *struct {
				Code    int    `json:"code"`
				Message string `json:"message"`
			} `json:"error"`
		}
		if err := json.Unmarshal([]byte(out), &resp); err != nil || resp.Error != nil {
			return nil, "reply-error: " + out
		}
		for _, r := range resp.Result {
			id, ok := sigToID[r.Signature]
			if !ok {
				id = -1
			}
			obs = append(obs, id)
		}
		return obs, ""
	}
	sameInts := func(a, b []int) bool {
		if len(a) != len(b) {
			return false
		}
		for i := range a {
			if a[i] != b[i] {
				return false
			}
		}
		return true
	}
	var recent []string
	named := map[string]bool{}
	diagnosed := 0
	do := func(q request) {
		grp := groups[q.g]
		a := grp.addrs[q.j]
		h := flat(a)
		var opts []string
		if q.limit > 0 {
			opts = append(opts, fmt.Sprintf(`"limit":%d`, q.limit))
		}
		if q.before != nil {
			opts = append(opts, fmt.Sprintf(`"before":"%s"`, vc07rSig(*q.before)))
		}
		if q.until != nil {
			opts = append(opts, fmt.Sprintf(`"until":"%s"`, vc07rSig(*q.until)))
		}
		body := fmt.Sprintf(`{"jsonrpc":"2.0","id":1,"method":"getSignaturesForAddress","params":["%s",{%s}]}`, a.pk, strings.Join(opts, ","))
		effLimit := q.limit
		if effLimit <= 0 || effLimit > 1000 {
			effLimit = 1000
		}
		exp := vc07rSlice(h, effLimit, q.before, q.until)
		var expSigs []int
		expEpochs := map[uint64]bool{}
		for _, x := range exp {
			expSigs = append(expSigs, x.Sig)
			expEpochs[x.Epoch] = true
		}
		key := fmt.Sprintf("shared g%d a%d l%d b%s u%s", grp.no, q.j, q.limit, vc07rCoqOpt(q.before), vc07rCoqOpt(q.until))
		seen := map[string]bool{}
		for k := 0; k < rpt; k++ {
			obs, problem := send(handlers[q.sigsOnly], body)
			rep.Case(key, len(expEpochs) >= 2)
			rep.Count("shared-requests")
			mk := func() *vc07rSharedReplay {
				return &vc07rSharedReplay{Part: "shared", Group: grp.no, Addr: q.j, History: h, Limit: q.limit, Before: q.before, Until: q.until, SigsOnly: q.sigsOnly,
					Request: body, Expected: expSigs, Observed: obs, Preceded: append([]string(nil), recent...)}
			}
			if problem != "" {
				rep.Fail(strings.SplitN(problem, ":", 2)[0], "shared-transaction part: "+problem, mk())
				break
			}
			if !sameInts(obs, expSigs) {
				if diagnosed >= 20 {
					rep.Count("shared-mismatch-not-diagnosed-further")
					break
				}
				diagnosed++
				sig := "reply-mismatch"
				rp := mk()
				// the same request to a server started for it alone
				if fh, err := newServer(q.sigsOnly, []int{0, 1, 2}); err == nil {
					fobs, fproblem := send(fh, body)
					if fproblem == "" {
						rp.FreshObs, rp.FreshSame = fobs, sameInts(fobs, expSigs)
						if rp.FreshSame {
							sig = "reply-depends-on-earlier-requests"
						}
					}
				}
				rep.Fail(sig, fmt.Sprintf("addresses sharing transactions, one running server: expected signatures %v, reply %v (a freshly started server gives the expected reply: %v); requests before: %v", expSigs, obs, rp.FreshSame, recent), rp)
				break
			}
			ck := fmt.Sprint(obs)
			if q.coq && !seen[ck] {
				seen[ck] = true
				name := fmt.Sprintf("rg%d_%d", grp.no, q.j)
				if !named[name] {
					named[name] = true
					var eps []string
					for i := 0; i < 3; i++ {
						if a.hist[i] == nil {
							eps = append(eps, fmt.Sprintf("(%d%%N, NotFound)", vc07rEpochs[i]))
							continue
						}
						var es []string
						for _, x := range a.hist[i] {
							es = append(es, fmt.Sprintf("(%d, %d%%N)", x.Sig%100, x.Slot))
						}
						eps = append(eps, fmt.Sprintf("(%d%%N, Found [[%s]])", vc07rEpochs[i], strings.Join(es, "; ")))
					}
					cases.Preamble(fmt.Sprintf("Definition %s : list epoch := [%s].", name, strings.Join(eps, "; ")))
				}
				var ss []string
				for _, id := range obs {
					if id < 0 {
						ss = append(ss, "98")
					} else {
						ss = append(ss, fmt.Sprint(id%100))
					}
				}
				cases.Add(fmt.Sprintf("CReply %s (%d)%%Z %s %s [%s]", name, effLimit, vc07rCoqOpt(q.before), vc07rCoqOpt(q.until), strings.Join(ss, "; ")))
			}
		}
		if len(recent) >= 10 {
			recent = append(recent[:0], recent[1:]...)
		}
		recent = append(recent, key)
	}
	ip := func(v int) *int { return &v }
	var sample []request
	for gi, grp := range groups {
		rep.Count(fmt.Sprintf("shared-group-addresses=%d", len(grp.addrs)))
		var all []request
		issue := func(q request) {
			all = append(all, q)
			do(q)
		}
		for ja, a := range grp.addrs {
			hA := flat(a)
			if len(hA) == 0 {
				continue
			}
			for jb, b := range grp.addrs {
				hB := flat(b)
				common := false
				for _, x := range hA {
					common = common || has(hB, x.Sig)
				}
				if jb == ja || !common {
					continue
				}
				rep.Count("shared-paging-pairs")
				so := rng.Intn(4) != 0
				for _, p := range []int{1, 2, len(hA) + 2} {
					var before *int
					for {
						page := vc07rSlice(hA, p, before, nil)
						issue(request{g: gi, j: ja, limit: p, before: before, sigsOnly: so, coq: rng.Intn(10) == 0})
						if len(page) == 0 {
							break
						}
						last := page[len(page)-1].Sig
						if has(hB, last) {
							rep.Count("shared-page-ends-on-shared-transaction")
							issue(request{g: gi, j: jb, limit: 1, before: ip(last), sigsOnly: so, coq: rng.Intn(4) == 0})
							var u *int
							if rng.Bool() {
								u = ip(hB[rng.Intn(len(hB))].Sig)
							}
							issue(request{g: gi, j: jb, before: ip(last), until: u, sigsOnly: so, coq: rng.Intn(4) == 0})
						}
						before = ip(last)
					}
				}
				for _, x := range hA { // own signatures select a suffix of B's history, foreign ones nothing
					issue(request{g: gi, j: jb, limit: rng.Pick(0, 1, 2), before: ip(x.Sig), sigsOnly: so, coq: rng.Intn(10) == 0})
				}
			}
		}
		for _, y := range rng.Perm(len(all)) {
			q := all[y]
			q.coq = false
			do(q)
			rep.Count("shared-requests-repeated-in-shuffled-order")
			if rng.Intn(4) == 0 {
				sample = append(sample, q)
			}
		}
	}
	for _, y := range rng.Perm(len(sample)) {
		do(sample[y])
	}
	rep.Note("shared-transaction part: one MultiEpoch (Epoch values and gsfa readers loaded once) answers every request; a differing reply is repeated on a freshly started server to tell state kept across requests from a wrong walk")
}
