package iplddecoders

// Verification harness for the decoder part of C12 (injected with `go test -overlay` TOGETHER WITH c11_test.go,
// whose generators and helpers it uses; not part of the repository).
//
// Structure-aware mutation of valid nodes of every kind, run through iplddecoders.Decode<Kind> under recover():
//   - every element of every tuple (top level and nested: data frames, slot meta, shredding pairs, link lists)
//     replaced by values of every other CBOR type,
//   - lists emptied / shortened / extended, tuples shortened to every length and extended,
//   - tag-42 content emptied, truncated, re-tagged, given a non-bytes content,
//   - array and byte-string length fields set to 0, 1, max and to values inconsistent with the content,
//   - truncation at every byte, wrappers (tags, self-described CBOR), nesting at and beyond the library limit.
// Oracle: a panic is a failure `decoder-panic:<kind>:<site>`. Correspondence: the outcome class
// (ok | error | panic) of every input inside the modelled CBOR fragment is compared with the Coq model
// (coq/C12dec_Check.v) run under the site flags measured here with the seven witness inputs of C12dec_Total.v.

import (
	"bytes"
	"encoding/binary"
	"encoding/hex"
	"fmt"
	"os"
	"regexp"
	"runtime/debug"
	"strings"
	"testing"
	"unicode/utf8"

	"github.com/rpcpool/yellowstone-faithful/zzverif/vh"
)

// ---------------------------------------------------------------- a small CBOR tree with a permissive encoder

type vc12Item struct {
	major  byte        // 0 uint, 1 nint, 2 bytes, 3 text, 4 array, 6 tag, 7 simple
	val    uint64      // value of uint/nint (n of -1-n), tag number, simple value
	data   []byte      // bytes / text content
	items  []*vc12Item // array elements; the single content of a tag
	raw    []byte      // when set: these bytes are emitted verbatim
	count  *uint64     // when set: the length/count written in the head (content unchanged)
	widen  bool        // write the head argument in 8 bytes (non-minimal)
}

func vc12Head(buf *bytes.Buffer, major byte, n uint64, widen bool) {
	m := major << 5
	switch {
	case widen:
		buf.WriteByte(m | 27)
		var b [8]byte
		binary.BigEndian.PutUint64(b[:], n)
		buf.Write(b[:])
	case n < 24:
		buf.WriteByte(m | byte(n))
	case n < 1<<8:
		buf.WriteByte(m | 24)
		buf.WriteByte(byte(n))
	case n < 1<<16:
		buf.WriteByte(m | 25)
		var b [2]byte
		binary.BigEndian.PutUint16(b[:], uint16(n))
		buf.Write(b[:])
	case n < 1<<32:
		buf.WriteByte(m | 26)
		var b [4]byte
		binary.BigEndian.PutUint32(b[:], uint32(n))
		buf.Write(b[:])
	default:
		buf.WriteByte(m | 27)
		var b [8]byte
		binary.BigEndian.PutUint64(b[:], n)
		buf.Write(b[:])
	}
}

func (it *vc12Item) encode(buf *bytes.Buffer) {
	if it.raw != nil {
		buf.Write(it.raw)
		return
	}
	switch it.major {
	case 0, 1:
		vc12Head(buf, it.major, it.val, it.widen)
	case 2, 3:
		n := uint64(len(it.data))
		if it.count != nil {
			n = *it.count
		}
		vc12Head(buf, it.major, n, it.widen)
		buf.Write(it.data)
	case 4:
		n := uint64(len(it.items))
		if it.count != nil {
			n = *it.count
		}
		vc12Head(buf, 4, n, it.widen)
		for _, x := range it.items {
			x.encode(buf)
		}
	case 6:
		vc12Head(buf, 6, it.val, it.widen)
		if len(it.items) > 0 {
			it.items[0].encode(buf)
		}
	case 7:
		buf.WriteByte(0xe0 | byte(it.val))
	}
}

func (it *vc12Item) bytes() []byte {
	var b bytes.Buffer
	it.encode(&b)
	return b.Bytes()
}

func (it *vc12Item) clone() *vc12Item {
	c := *it
	if it.data != nil {
		c.data = append([]byte(nil), it.data...)
	}
	if it.items != nil {
		c.items = make([]*vc12Item, len(it.items))
		for i, x := range it.items {
			c.items[i] = x.clone()
		}
	}
	return &c
}

// vc12Parse reads one item of the modelled fragment (definite lengths; majors 0-4 and 6; false/true/null).
func vc12Parse(b []byte) (*vc12Item, []byte, error) {
	if len(b) == 0 {
		return nil, nil, fmt.Errorf("eof")
	}
	ib := b[0]
	major, ai := ib>>5, ib&31
	if major == 7 {
		if ai >= 20 && ai <= 22 {
			return &vc12Item{major: 7, val: uint64(ai)}, b[1:], nil
		}
		return nil, nil, fmt.Errorf("outside fragment")
	}
	var n uint64
	r := b[1:]
	switch {
	case ai < 24:
		n = uint64(ai)
	case ai == 24 && len(r) >= 1:
		n, r = uint64(r[0]), r[1:]
	case ai == 25 && len(r) >= 2:
		n, r = uint64(binary.BigEndian.Uint16(r)), r[2:]
	case ai == 26 && len(r) >= 4:
		n, r = uint64(binary.BigEndian.Uint32(r)), r[4:]
	case ai == 27 && len(r) >= 8:
		n, r = binary.BigEndian.Uint64(r), r[8:]
	default:
		return nil, nil, fmt.Errorf("bad head")
	}
	switch major {
	case 0, 1:
		return &vc12Item{major: major, val: n}, r, nil
	case 2, 3:
		if uint64(len(r)) < n {
			return nil, nil, fmt.Errorf("short")
		}
		return &vc12Item{major: major, data: append([]byte{}, r[:n]...)}, r[n:], nil
	case 4:
		it := &vc12Item{major: 4, items: []*vc12Item{}}
		for i := uint64(0); i < n; i++ {
			x, rr, err := vc12Parse(r)
			if err != nil {
				return nil, nil, err
			}
			it.items = append(it.items, x)
			r = rr
		}
		return it, r, nil
	case 6:
		x, rr, err := vc12Parse(r)
		if err != nil {
			return nil, nil, err
		}
		return &vc12Item{major: 6, val: n, items: []*vc12Item{x}}, rr, nil
	}
	return nil, nil, fmt.Errorf("outside fragment")
}

// vc12Fragment classifies the first data item of b: inside = the Coq model's parser and library model cover it
// (malformed / truncated inputs included: both sides must answer with an error). Outside: maps, floats, undefined
// and other simple values, indefinite lengths, time tags 0/1, text that is not valid UTF-8.
func vc12Fragment(b []byte) (inside bool) {
	var walk func(b []byte, depth int) (rest []byte, ok bool, malformed bool)
	walk = func(b []byte, depth int) ([]byte, bool, bool) {
		if len(b) == 0 {
			return nil, true, true
		}
		if depth > 200 {
			return nil, false, false
		}
		ib := b[0]
		major, ai := ib>>5, ib&31
		if major == 7 {
			if ai >= 20 && ai <= 22 {
				return b[1:], true, false
			}
			return nil, false, false
		}
		if major == 5 || ai == 31 {
			return nil, false, false
		}
		var n uint64
		r := b[1:]
		switch {
		case ai < 24:
			n = uint64(ai)
		case ai == 24:
			if len(r) < 1 {
				return nil, true, true
			}
			n, r = uint64(r[0]), r[1:]
		case ai == 25:
			if len(r) < 2 {
				return nil, true, true
			}
			n, r = uint64(binary.BigEndian.Uint16(r)), r[2:]
		case ai == 26:
			if len(r) < 4 {
				return nil, true, true
			}
			n, r = uint64(binary.BigEndian.Uint32(r)), r[4:]
		case ai == 27:
			if len(r) < 8 {
				return nil, true, true
			}
			n, r = binary.BigEndian.Uint64(r), r[8:]
		default:
			return nil, true, true // ai 28..30: malformed for both
		}
		switch major {
		case 0, 1:
			return r, true, false
		case 2, 3:
			if uint64(len(r)) < n {
				return nil, true, true
			}
			if major == 3 && !utf8.Valid(r[:n]) {
				return nil, false, false
			}
			return r[n:], true, false
		case 4:
			for i := uint64(0); i < n; i++ {
				rr, ok, mal := walk(r, depth+1)
				if !ok || mal {
					return nil, ok, mal
				}
				r = rr
			}
			return r, true, false
		case 6:
			if n == 0 || n == 1 {
				return nil, false, false
			}
			return walk(r, depth+1)
		}
		return nil, false, false
	}
	_, ok, _ := walk(b, 0)
	return ok
}

// ---------------------------------------------------------------- mutations

func vc12U(n uint64) *vc12Item  { return &vc12Item{major: 0, val: n} }
func vc12B(b ...byte) *vc12Item { return &vc12Item{major: 2, data: append([]byte{}, b...)} }
func vc12A(xs ...*vc12Item) *vc12Item {
	return &vc12Item{major: 4, items: append([]*vc12Item{}, xs...)}
}
func vc12Null() *vc12Item           { return &vc12Item{major: 7, val: 22} }
func vc12T(n uint64, c *vc12Item) *vc12Item { return &vc12Item{major: 6, val: n, items: []*vc12Item{c}} }
func vc12Raw(h string) *vc12Item {
	b, _ := hex.DecodeString(h)
	return &vc12Item{raw: b}
}

var vc12GoodCid = []byte{0, 1, 0x71, 0x12, 0x20, 1, 2, 3, 4, 5, 6, 7, 8, 9, 10, 11, 12, 13, 14, 15, 16, 17, 18, 19, 20, 21, 22, 23, 24, 25, 26, 27, 28, 29, 30, 31, 32}

// replacement values of every CBOR type (the ones marked raw lie outside the modelled fragment)
func vc12Alternatives() map[string]*vc12Item {
	return map[string]*vc12Item{
		"uint":            vc12U(7),
		"uint-big":        vc12U(1<<63 + 5),
		"nint":            {major: 1, val: 2},
		"nint-min":        {major: 1, val: 1<<63 - 1},
		"nint-bignum":     {major: 1, val: 1 << 63},
		"bytes":           vc12B(1, 2),
		"bytes-empty":     vc12B(),
		"text":            {major: 3, data: []byte("x")},
		"array-empty":     vc12A(),
		"array-1":         vc12A(vc12U(1)),
		"array-frame":     vc12A(vc12U(6), vc12Null(), vc12Null(), vc12Null(), vc12B(1)),
		"null":            {major: 7, val: 22},
		"true":            {major: 7, val: 21},
		"link":            vc12T(42, vc12B(vc12GoodCid...)),
		"link-empty":      vc12T(42, vc12B()),
		"link-1byte":      vc12T(42, vc12B(0)),
		"link-notbytes":   vc12T(42, vc12U(3)),
		"link-tag41":      vc12T(41, vc12B(vc12GoodCid...)),
		"link-badcid":     vc12T(42, vc12B(0, 1, 0x71, 0x12, 0x20, 1, 2)),
		"link-selfdesc":   vc12T(55799, vc12T(42, vc12B(vc12GoodCid...))),
		"uint-selfdesc":   vc12T(55799, vc12U(6)),
		"bignum":          vc12T(2, vc12B(1, 0)),
		"bignum-notbytes": vc12T(2, vc12U(1)),
		"tag-in-tag":      vc12T(42, vc12T(42, vc12B(vc12GoodCid...))),
		"map-empty":       vc12Raw("a0"),
		"map-1":           vc12Raw("a10102"),
		"float":           vc12Raw("f93e00"),
		"undefined":       vc12Raw("f7"),
		"simple-16":       vc12Raw("f0"),
		"indef-array":     vc12Raw("9f01ff"),
		"indef-bytes":     vc12Raw("5f4101ff"),
		"time-tag":        vc12Raw("c11a514b67b0"),
	}
}

type vc12Mutant struct {
	desc string
	raw  []byte
}

// vc12Paths lists every node of the tree with a path string.
func vc12Paths(root *vc12Item) (paths []string, nodes []*vc12Item, parents []*vc12Item, idx []int) {
	var rec func(p string, it, parent *vc12Item, i int)
	rec = func(p string, it, parent *vc12Item, i int) {
		paths, nodes, parents, idx = append(paths, p), append(nodes, it), append(parents, parent), append(idx, i)
		for j, c := range it.items {
			rec(fmt.Sprintf("%s/%d", p, j), c, it, j)
		}
	}
	rec("", root, nil, 0)
	return
}

func vc12Mutants(seed []byte, rng *vh.Rng, perSeedCap int) []vc12Mutant {
	root, _, err := vc12Parse(seed)
	if err != nil {
		return nil
	}
	var out []vc12Mutant
	add := func(desc string, it *vc12Item) { out = append(out, vc12Mutant{desc, it.bytes()}) }
	alts := vc12Alternatives()
	altNames := vh.SortedKeys(func() map[string]int {
		m := map[string]int{}
		for k := range alts {
			m[k] = 1
		}
		return m
	}())
	paths, _, _, _ := vc12Paths(root)
	u := func(v uint64) *uint64 { return &v }
	for pi, p := range paths {
		depth := strings.Count(p, "/")
		// elements of the top tuple and of nested tuples are mutated exhaustively; elements of long lists are sampled
		exhaustive := depth <= 2
		if !exhaustive && rng.Intn(6) != 0 {
			continue
		}
		// (1) replace the node by every other type
		if pi > 0 {
			for _, an := range altNames {
				c := root.clone()
				_, cn, cp, ci := vc12Paths(c)
				_ = cn
				cp[pi].items[ci[pi]] = alts[an].clone()
				add("replace "+p+" by "+an, c)
			}
		}
		// (2) per-type structure mutations
		c0 := root.clone()
		_, n0, _, _ := vc12Paths(c0)
		node := n0[pi]
		switch node.major {
		case 4:
			n := len(node.items)
			for _, k := range []int{0, 1, n - 1, n / 2} { // shortened (lists emptied)
				if k >= 0 && k < n {
					c := root.clone()
					_, cn, _, _ := vc12Paths(c)
					cn[pi].items = cn[pi].items[:k]
					add(fmt.Sprintf("shorten %s to %d", p, k), c)
				}
			}
			if depth <= 1 { // every length of a tuple
				for k := 0; k < n; k++ {
					c := root.clone()
					_, cn, _, _ := vc12Paths(c)
					cn[pi].items = cn[pi].items[:k]
					add(fmt.Sprintf("tuple %s cut to %d", p, k), c)
				}
			}
			for _, extra := range []string{"uint", "null", "array-empty", "text", "link-empty"} {
				c := root.clone()
				_, cn, _, _ := vc12Paths(c)
				cn[pi].items = append(cn[pi].items, alts[extra].clone())
				add("extend "+p+" with "+extra, c)
			}
			for _, cnt := range []uint64{0, 1, uint64(n) + 1, uint64(n) + 100, 131073, 1<<32 - 1, 1<<63 - 1, 1 << 63, 1<<64 - 1} {
				if cnt == uint64(n) {
					continue
				}
				c := root.clone()
				_, cn, _, _ := vc12Paths(c)
				cn[pi].count = u(cnt)
				add(fmt.Sprintf("array count of %s set to %d (has %d)", p, cnt, n), c)
			}
			if n > 0 {
				c := root.clone()
				_, cn, _, _ := vc12Paths(c)
				cn[pi].count = u(uint64(n) - 1)
				add(fmt.Sprintf("array count of %s set to %d (has %d)", p, n-1, n), c)
			}
			{
				c := root.clone()
				_, cn, _, _ := vc12Paths(c)
				cn[pi].widen = true
				add("non-minimal array head at "+p, c)
			}
		case 2, 3:
			n := len(node.data)
			for _, cnt := range []uint64{0, 1, uint64(n) + 1, uint64(n) + 1000, 1<<32 - 1, 1<<63 - 1, 1 << 63, 1<<64 - 1} {
				if cnt == uint64(n) {
					continue
				}
				c := root.clone()
				_, cn, _, _ := vc12Paths(c)
				cn[pi].count = u(cnt)
				add(fmt.Sprintf("string length of %s set to %d (has %d)", p, cnt, n), c)
			}
			for _, k := range []int{0, 1, 2, n - 1} { // content emptied / truncated (tag-42 content included)
				if k >= 0 && k < n {
					c := root.clone()
					_, cn, _, _ := vc12Paths(c)
					cn[pi].data = cn[pi].data[:k]
					add(fmt.Sprintf("content of %s truncated to %d", p, k), c)
				}
			}
			if n > 0 {
				c := root.clone()
				_, cn, _, _ := vc12Paths(c)
				cn[pi].data[0] ^= 0x55
				add("first content byte of "+p+" flipped", c)
			}
		case 6:
			for _, t := range []uint64{2, 3, 4, 24, 41, 43, 55799, 1<<64 - 1} {
				c := root.clone()
				_, cn, _, _ := vc12Paths(c)
				cn[pi].val = t
				add(fmt.Sprintf("tag number of %s set to %d", p, t), c)
			}
			{
				c := root.clone()
				_, cn, _, _ := vc12Paths(c)
				cn[pi].items = nil
				add("tag "+p+" without content (takes the next item)", c)
			}
		case 0, 1:
			for _, v := range []uint64{0, 6, 23, 24, 1<<63 - 1, 1 << 63, 1<<64 - 1} {
				c := root.clone()
				_, cn, _, _ := vc12Paths(c)
				cn[pi].val = v
				add(fmt.Sprintf("integer %s set to argument %d", p, v), c)
			}
			{
				c := root.clone()
				_, cn, _, _ := vc12Paths(c)
				cn[pi].major ^= 1
				add("sign of "+p+" flipped", c)
			}
			{
				c := root.clone()
				_, cn, _, _ := vc12Paths(c)
				cn[pi].widen = true
				add("non-minimal integer at "+p, c)
			}
		}
	}
	// (3) whole-input mutations
	for _, w := range []uint64{42, 55799, 2, 6, 100} {
		add(fmt.Sprintf("whole node wrapped in tag %d", w), vc12T(w, root.clone()))
	}
	add("whole node wrapped in tag 55799 twice", vc12T(55799, vc12T(55799, root.clone())))
	add("whole node wrapped in an array", vc12A(root.clone()))
	for _, deep := range []int{30, 31, 32, 33} { // nesting at and beyond MaxNestedLevels, in a position nobody reads
		inner := vc12A()
		for i := 1; i < deep; i++ {
			inner = vc12A(inner)
		}
		c := root.clone()
		for len(c.items) < 7 {
			c.items = append(c.items, &vc12Item{major: 7, val: 22})
		}
		c.items = append(c.items, inner)
		add(fmt.Sprintf("extra element nested %d arrays deep", deep), c)
	}
	for _, chain := range []int{31, 32, 33, 34} { // tag chains count towards the nesting limit
		inner := vc12U(1)
		for i := 0; i < chain; i++ {
			inner = vc12T(100, inner)
		}
		c := root.clone()
		for len(c.items) < 7 {
			c.items = append(c.items, &vc12Item{major: 7, val: 22})
		}
		c.items = append(c.items, inner)
		add(fmt.Sprintf("extra element under a chain of %d tags", chain), c)
	}
	// sample down the structure mutants when there are too many
	if perSeedCap > 0 && len(out) > perSeedCap {
		keep := out[:0:0]
		perm := rng.Perm(len(out))
		chosen := map[int]bool{}
		for _, i := range perm[:perSeedCap] {
			chosen[i] = true
		}
		for i, m := range out {
			// replacements of the first two tree levels are always kept
			if chosen[i] || (strings.HasPrefix(m.desc, "replace /") && strings.Count(strings.Fields(m.desc)[1], "/") <= 2) {
				keep = append(keep, m)
			}
		}
		out = keep
	}
	// (4) truncation at every byte (every byte for small nodes, a sample for larger ones)
	step := 1
	if len(seed) > 160 {
		step = len(seed) / 160
	}
	for cut := 0; cut < len(seed); cut += step {
		out = append(out, vc12Mutant{fmt.Sprintf("truncated to %d of %d bytes", cut, len(seed)), append([]byte{}, seed[:cut]...)})
	}
	out = append(out, vc12Mutant{"one byte appended", append(append([]byte{}, seed...), 0xff)})
	return out
}

// ---------------------------------------------------------------- running a decoder and naming a panic site

var vc12FrameRe = regexp.MustCompile(`ipldbindcode\.(?:\(\*(\w+)\)\.)?(\w+)\(.*\n\s+(\S*ipld/ipldbindcode/cbor\.go):(\d+)`)

// vc12Site turns the stack of a recovered panic into a stable site name.
func vc12Site(stack string) string {
	m := vc12FrameRe.FindStringSubmatch(stack)
	if m == nil {
		// not in the fast decoders: name the first frame below the runtime
		for _, l := range strings.Split(stack, "\n") {
			if strings.Contains(l, "(") && !strings.HasPrefix(l, "runtime") && !strings.HasPrefix(l, "panic") && !strings.Contains(l, "debug.Stack") && !strings.HasPrefix(l, "goroutine") && !strings.HasPrefix(l, "\t") && !strings.Contains(l, "vc12") && !strings.Contains(l, "vc11") {
				return "other:" + strings.SplitN(l, "(", 2)[0]
			}
		}
		return "other:unknown"
	}
	recv, fn, file, line := m[1], m[2], m[3], m[4]
	src, err := os.ReadFile(file)
	text := ""
	if err == nil {
		lines := strings.Split(string(src), "\n")
		var ln int
		fmt.Sscanf(line, "%d", &ln)
		if ln >= 1 && ln <= len(lines) {
			text = strings.TrimSpace(lines[ln-1])
		}
	}
	who := recv
	if who == "" {
		who = fn
	}
	switch {
	case strings.Contains(text, "meta.([]interface{})"):
		return who + ":meta-not-list"
	case strings.Contains(text, "metadata.([]interface{})"):
		return who + ":metadata-not-list"
	case strings.Contains(text, "data.([]interface{})"):
		return who + ":data-not-list"
	case strings.Contains(text, "hash.([]byte)"):
		return who + ":hash-not-bytes"
	case strings.Contains(text, "rawBytes[1:]") && fn == "decodeCborLinkListFromAny":
		return "links:empty-tag42"
	case strings.Contains(text, "rawBytes[1:]"):
		return who + ":rewards-empty-tag42"
	}
	if recv != "" {
		who = recv + "." + fn
	}
	return who + ":" + regexp.MustCompile(`\s+`).ReplaceAllString(text, " ")
}

// vc12Run: class 0 ok, 1 error, 2 panic (+ site).
func vc12Run(kind int, raw []byte) (class int, site string, msg string) {
	defer func() {
		if r := recover(); r != nil {
			class, site, msg = 2, vc12Site(string(debug.Stack())), fmt.Sprint(r)
		}
	}()
	_, err := vc11Fast(kind)(raw)
	if err != nil {
		return 1, "", err.Error()
	}
	return 0, "", ""
}

// the witness inputs of coq/C12dec_Total.v, by site number
func vc12Witnesses() []struct {
	site int
	kind int
	name string
	raw  []byte
} {
	h := func(s string) []byte { b, _ := hex.DecodeString(s); return b }
	link := "d82a58250001711220" + "0102030405060708090a0b0c0d0e0f101112131415161718191a1b1c1d1e1f20"
	return []struct {
		site int
		kind int
		name string
		raw  []byte
	}{
		{1, int(KindBlock), "Block [2,5,[],[],7,link]: meta is not a list", h("860205808007" + link)},
		{2, int(KindEntry), "Entry [1,5,77,[]]: hash is not a byte string", h("840105184d80")},
		{3, int(KindTransaction), "Transaction [0,5,frame,9]: data is not a list", h("8400058506f6f6f6410109")},
		{4, int(KindTransaction), "Transaction [0,frame,5,9]: metadata is not a list", h("84008506f6f6f641010509")},
		{5, int(KindRewards), "Rewards [5,5,\"x\"]: data is not a list", h("8305056178")},
		{6, int(KindEntry), "Entry [1,5,h'01',[42(h'')]]: empty tag-42 content in a link list", h("840105410181d82a40")},
		{7, int(KindBlock), "Block [2,5,[],[],[1,2,3],42(h'')]: empty tag-42 content in rewards", h("860205808083010203d82a40")},
	}
}

func TestVerif_C12dec(t *testing.T) {
	seedsPerKind, capPerSeed := 4, 260
	if vh.Thorough() {
		seedsPerKind, capPerSeed = 12, 1200
	}
	rep := vh.NewReport("C12", "decoders",
		"structure-aware mutation of reference-encoded nodes of the seven kinds through iplddecoders.Decode<Kind> under recover(): every element of every tuple replaced by every other CBOR type (32 alternatives incl. maps, floats, undefined, indefinite lengths, bignums, empty / short / re-tagged links), lists and tuples shortened to every length and extended, string and array length fields set to 0, 1, max and inconsistent values, truncation at every byte, tag wrappers, nesting at and beyond the library limit; oracle: no panic; outcome class compared with the Coq model for inputs of the modelled CBOR fragment; a case is non-trivial when it differs from its seed; distinct by (kind, bytes)")
	cases := vh.NewCases("cases_c12dec", []string{"YF.Cbor", "YF.C11_Nodes", "YF.C11_Check", "YF.C12dec_Check"}, "C12dec_Check.case", "(C12dec_Check.check_with measured_flags)")
	cases.Preamble("From Coq Require Import Uint63.")
	rng := vh.NewRng(vh.Seed())
	g := &vc11Gen{rng: rng, rep: vh.NewReport("C12", "scratch", "")}
	vc11T = nil // byte strings are written in full

	// measure the site flags with the witness inputs (flag true = the site answers with an error)
	flags := []string{"true"}
	for _, w := range vc12Witnesses() {
		raw := w.raw
		class, site, msg := vc12Run(w.kind, raw)
		rep.Flag(fmt.Sprintf("site_%d_guarded", w.site), class != 2)
		flags = append(flags, vh.CoqBool(class != 2))
		rep.Case(fmt.Sprintf("witness-%d", w.site), true)
		rep.Count("witness")
		if class == 2 {
			rep.Fail("decoder-panic:"+site, fmt.Sprintf("Decode%s panics on %s: %s", vc11KindNames[w.kind], w.name, msg),
				map[string]interface{}{"kind": vc11KindNames[w.kind], "hex": hex.EncodeToString(raw), "witness_of_site": w.site})
		} else if class == 0 {
			rep.Note("witness %d unexpectedly decodes without error", w.site)
		}
		cases.Add(fmt.Sprintf("(%d%%Z, %s, %d%%N)", w.kind, vc11Pack(raw), class))
	}
	cases.Preamble("Definition measured_flags : list bool := [" + strings.Join(flags, "; ") + "].")

	seen := map[string]bool{}
	for kind := 0; kind < 7; kind++ {
		for s := 0; s < seedsPerKind; s++ {
			var seed []byte
			for try := 0; try < 50; try++ {
				v := g.node(kind)
				raw, err := vc11RefEncode(v, kind)
				if err == nil && len(raw) < 420 {
					seed = raw
					break
				}
			}
			if seed == nil {
				continue
			}
			if c, _, _ := vc12Run(kind, seed); c != 0 {
				rep.Note("seed of kind %s does not decode (see C11)", vc11KindNames[kind])
			}
			muts := append([]vc12Mutant{{"unmodified seed", seed}}, vc12Mutants(seed, rng, capPerSeed)...)
			for _, m := range muts {
				key := fmt.Sprintf("%d:%x", kind, m.raw)
				if seen[key] {
					continue
				}
				seen[key] = true
				class, site, msg := vc12Run(kind, m.raw)
				rep.Case(key, !bytes.Equal(m.raw, seed))
				rep.Count("kind=" + vc11KindNames[kind])
				rep.Count([]string{"class=ok", "class=error", "class=panic"}[class])
				rep.Count("mutation=" + strings.Fields(m.desc)[0])
				if class == 2 {
					rep.Fail("decoder-panic:"+site, fmt.Sprintf("Decode%s panics (%s) on: %s", vc11KindNames[kind], msg, m.desc),
						map[string]interface{}{"kind": vc11KindNames[kind], "hex": hex.EncodeToString(m.raw), "mutation": m.desc, "seed_hex": hex.EncodeToString(seed)})
				}
				if len(m.raw) < 4000 && vc12Fragment(m.raw) {
					rep.Count("model=compared")
					cases.Add(fmt.Sprintf("(%d%%Z, %s, %d%%N)", kind, vc11Pack(m.raw), class))
				} else {
					rep.Count("model=outside-fragment")
				}
				if len(rep.Samples) < 6 && class == 1 && len(seen)%397 == 0 {
					rep.Sample(map[string]interface{}{"kind": vc11KindNames[kind], "mutation": m.desc, "hex": hex.EncodeToString(m.raw[:min(len(m.raw), 120)]), "class": "error"})
				}
			}
		}
	}
	// a few hand-written inputs: empty, one byte, an array of 131073 nulls (beyond the element limit)
	for kind := 0; kind < 7; kind++ {
		big := append([]byte{0x9a, 0x00, 0x02, 0x00, 0x01}, bytes.Repeat([]byte{0xf6}, 131073)...)
		for _, in := range [][]byte{{}, {0x80}, {0xf6}, {0x00}, {0x9f}, {0xff}, {0x84}, big} {
			class, site, msg := vc12Run(kind, in)
			rep.Case(fmt.Sprintf("%d:%x", kind, in[:min(len(in), 16)]), true)
			rep.Count("mutation=handwritten")
			if class == 2 {
				rep.Fail("decoder-panic:"+site, fmt.Sprintf("Decode%s panics (%s) on %d handwritten bytes", vc11KindNames[kind], msg, len(in)),
					map[string]interface{}{"kind": vc11KindNames[kind], "hex": hex.EncodeToString(in[:min(len(in), 64)])})
			}
			if len(in) < 100 && vc12Fragment(in) {
				cases.Add(fmt.Sprintf("(%d%%Z, %s, %d%%N)", kind, vc11Pack(in), class))
			}
		}
	}
	if err := cases.Write(); err != nil {
		t.Fatal(err)
	}
	rep.CasesWritten(cases)
	if err := rep.Write(); err != nil {
		t.Fatal(err)
	}
}
