package iplddecoders

// Verification harness for C11 (injected with `go test -overlay`; not part of the repository).
//
// Three-way correspondence on the same bytes:
//   reference  : ipld-prime bindnode + dag-cbor (the encoder that produces the bytes, and _Decode*Classic)
//   fast       : the hand-written decoders (iplddecoders.Decode* = _Decode*Fast -> ipldbindcode.(*T).UnmarshalCBOR)
//   model      : coq/C11_Nodes.v (repr_node / fast_decode_bytes / observe_node), evaluated by coqc on the case file
// Property oracle, evaluated here on the real code: for every schema-conforming typed value v,
//   the fast decoder accepts the reference encoding of v, what it returns is observed (exported fields and
//   Get*/Has* accessors) exactly like v and like the reference decoder's result, and no decoder of another
//   kind accepts those bytes.
// The property quantifies over conforming nodes only, so the verdict on a conforming node must not depend on what the
// fast decoders were handed BEFORE it: between the decodes of conforming nodes the harness calls the fast decoders on
// inputs that are NOT one complete conforming node (truncations, trailing bytes, mutated bytes, nodes of another kind,
// malformed CBOR; their own outcome is C12's subject and is not judged here), on the same goroutine and from several
// goroutines, and every conforming node is decoded again at the end of the run (see "decode history" below).

import (
	"bytes"
	"encoding/hex"
	"encoding/json"
	"fmt"
	"go/ast"
	"go/parser"
	"go/token"
	"os"
	"sort"
	"strconv"
	"strings"
	"sync"
	"testing"

	"github.com/ipfs/go-cid"
	"github.com/ipld/go-ipld-prime/codec/dagcbor"
	"github.com/ipld/go-ipld-prime/datamodel"
	cidlink "github.com/ipld/go-ipld-prime/linking/cid"
	"github.com/ipld/go-ipld-prime/node/bindnode"
	"github.com/ipld/go-ipld-prime/schema"
	"github.com/rpcpool/yellowstone-faithful/ipld/ipldbindcode"
	"github.com/rpcpool/yellowstone-faithful/zzverif/vh"
)

// ---------------------------------------------------------------- Coq term printing

// vc11Tab: byte strings of one case are bound once (`let bN := unpack [..] in`) and referred to by name wherever
// the same bytes occur again (typed value, observation); pure compression of the case file.
type vc11Tab struct {
	names map[string]string
	defs  []string
}

var vc11T *vc11Tab

func vc11NewCase() { vc11T = &vc11Tab{names: map[string]string{}} }

// vc11Wrap puts the bindings of the current case in front of a term.
func vc11Wrap(term string) string {
	if vc11T == nil || len(vc11T.defs) == 0 {
		return term
	}
	return "(" + strings.Join(vc11T.defs, " ") + " " + term + ")"
}

// vc11Pack prints a byte string as `(unpack [..]%uint63)`: 7 bytes per primitive integer, least significant byte
// first, sentinel 1 above the last byte (see coq/C11_Check.v).
func vc11Pack(b []byte) string {
	if len(b) == 0 {
		return "([] : list N)"
	}
	if vc11T != nil && len(b) > 7 {
		if n, ok := vc11T.names[string(b)]; ok {
			return n
		}
	}
	var sb strings.Builder
	sb.WriteString("(unpack [")
	for i := 0; i < len(b); i += 7 {
		j := i + 7
		if j > len(b) {
			j = len(b)
		}
		v := uint64(1)
		for k := j - 1; k >= i; k-- {
			v = v<<8 | uint64(b[k])
		}
		if i > 0 {
			sb.WriteString(";")
		}
		sb.WriteString("0x" + strconv.FormatUint(v, 16))
	}
	sb.WriteString("]%uint63)")
	if vc11T != nil && len(b) > 7 {
		name := fmt.Sprintf("b%d", len(vc11T.defs))
		vc11T.names[string(b)] = name
		vc11T.defs = append(vc11T.defs, "let "+name+" := "+sb.String()+" in")
		return name
	}
	return sb.String()
}

func vc11Z(v int) string {
	if v < 0 {
		return "(" + strconv.Itoa(v) + ")%Z"
	}
	return strconv.Itoa(v) + "%Z"
}

func vc11LinkBytes(l datamodel.Link) []byte {
	if l == nil {
		return nil
	}
	cl, ok := l.(cidlink.Link)
	if !ok {
		return []byte("not-a-cidlink")
	}
	return cl.Cid.Bytes()
}

// ---------------------------------------------------------------- observation through exported fields and accessors
// The observation is printed as a term of type C11_Nodes.ov; the same string is used to compare decoders.

type vc11Obs struct {
	term    string
	extra   string   // compared between the two decoders only: the raw ok flag of GetNext (nil versus empty list)
	problem []string // accessor inconsistencies (Has* vs Get*)
}

func vc11OvLinks(l ipldbindcode.List__Link) string {
	items := make([]string, len(l))
	for i, x := range l {
		items[i] = "VB " + vc11Pack(vc11LinkBytes(x))
	}
	return "VL " + vh.CoqList(items)
}

func vc11ObsDataFrame(d ipldbindcode.DataFrame, o *vc11Obs) string {
	parts := []string{"VZ " + vc11Z(d.Kind)}
	if h, ok := d.GetHash(); ok {
		parts = append(parts, "VSome (VN "+vh.CoqN(h)+")")
		if !d.HasHash() {
			o.problem = append(o.problem, "DataFrame.hash: GetHash ok but HasHash false")
		}
	} else {
		parts = append(parts, "VNone")
		if d.HasHash() {
			o.problem = append(o.problem, "DataFrame.hash: HasHash true but GetHash not ok")
		}
	}
	if v, ok := d.GetIndex(); ok {
		parts = append(parts, "VSome (VZ "+vc11Z(v)+")")
		if !d.HasIndex() {
			o.problem = append(o.problem, "DataFrame.index: GetIndex ok but HasIndex false")
		}
	} else {
		parts = append(parts, "VNone")
		if d.HasIndex() {
			o.problem = append(o.problem, "DataFrame.index: HasIndex true but GetIndex not ok")
		}
	}
	if v, ok := d.GetTotal(); ok {
		parts = append(parts, "VSome (VZ "+vc11Z(v)+")")
		if !d.HasTotal() {
			o.problem = append(o.problem, "DataFrame.total: GetTotal ok but HasTotal false")
		}
	} else {
		parts = append(parts, "VNone")
		if d.HasTotal() {
			o.problem = append(o.problem, "DataFrame.total: HasTotal true but GetTotal not ok")
		}
	}
	parts = append(parts, "VB "+vc11Pack(d.Bytes()))
	next, ok := d.GetNext()
	// canonical: `ok` is reported as "there is something to follow" (both decoders leave a nil list for an empty one)
	parts = append(parts, "VT "+vh.CoqBool(ok && len(next) > 0))
	o.extra += fmt.Sprintf("GetNext.ok=%v;", ok)
	parts = append(parts, vc11OvLinks(next))
	if d.HasNext() != (len(next) > 0) {
		o.problem = append(o.problem, "DataFrame.next: HasNext differs from len(GetNext) > 0")
	}
	return "VL " + vh.CoqList(parts)
}

func vc11ObsNode(n any) vc11Obs {
	var o vc11Obs
	switch x := n.(type) {
	case *ipldbindcode.Transaction:
		parts := []string{"VZ " + vc11Z(x.Kind), vc11ObsDataFrame(x.Data, &o), vc11ObsDataFrame(x.Metadata, &o), "VZ " + vc11Z(x.Slot)}
		if v, ok := x.GetPositionIndex(); ok {
			parts = append(parts, "VSome (VZ "+vc11Z(v)+")")
			if !x.HasIndex() {
				o.problem = append(o.problem, "Transaction.index: GetPositionIndex ok but HasIndex false")
			}
		} else {
			parts = append(parts, "VNone")
			if x.HasIndex() {
				o.problem = append(o.problem, "Transaction.index: HasIndex true but GetPositionIndex not ok")
			}
		}
		o.term = "VL [VN 0%N; VL " + vh.CoqList(parts) + "]"
	case *ipldbindcode.Entry:
		parts := []string{"VZ " + vc11Z(x.Kind), "VZ " + vc11Z(x.NumHashes), "VB " + vc11Pack(x.Hash), vc11OvLinks(x.Transactions)}
		o.term = "VL [VN 1%N; VL " + vh.CoqList(parts) + "]"
	case *ipldbindcode.Block:
		sh := make([]string, len(x.Shredding))
		for i, s := range x.Shredding {
			sh[i] = "VL [VZ " + vc11Z(s.EntryEndIdx) + "; VZ " + vc11Z(s.ShredEndIdx) + "]"
		}
		parts := []string{"VZ " + vc11Z(x.Kind), "VZ " + vc11Z(x.Slot), "VL " + vh.CoqList(sh), vc11OvLinks(x.Entries),
			"VZ " + vc11Z(x.Meta.Parent_slot), "VZ " + vc11Z(x.Meta.Blocktime)}
		bh, ok := x.GetBlockHeight()
		bh2, ok2 := x.Meta.GetBlockHeight()
		if ok != ok2 || bh != bh2 || ok != x.Meta.HasBlockHeight() {
			o.problem = append(o.problem, "Block.meta.block_height: Block.GetBlockHeight / SlotMeta.GetBlockHeight / HasBlockHeight disagree")
		}
		if ok {
			parts = append(parts, "VSome (VN "+vh.CoqN(bh)+")")
		} else {
			parts = append(parts, "VNone")
		}
		parts = append(parts, "VB "+vc11Pack(vc11LinkBytes(x.Rewards)))
		o.term = "VL [VN 2%N; VL " + vh.CoqList(parts) + "]"
	case *ipldbindcode.Subset:
		parts := []string{"VZ " + vc11Z(x.Kind), "VZ " + vc11Z(x.First), "VZ " + vc11Z(x.Last), vc11OvLinks(x.Blocks)}
		o.term = "VL [VN 3%N; VL " + vh.CoqList(parts) + "]"
	case *ipldbindcode.Epoch:
		parts := []string{"VZ " + vc11Z(x.Kind), "VZ " + vc11Z(x.Epoch), vc11OvLinks(x.Subsets)}
		o.term = "VL [VN 4%N; VL " + vh.CoqList(parts) + "]"
	case *ipldbindcode.Rewards:
		parts := []string{"VZ " + vc11Z(x.Kind), "VZ " + vc11Z(x.Slot), vc11ObsDataFrame(x.Data, &o)}
		o.term = "VL [VN 5%N; VL " + vh.CoqList(parts) + "]"
	case *ipldbindcode.DataFrame:
		o.term = "VL [VN 6%N; " + vc11ObsDataFrame(*x, &o) + "]"
	default:
		o.term = fmt.Sprintf("VL [VN 99%%N] (* unexpected Go type %T *)", n)
	}
	return o
}

// ---------------------------------------------------------------- typed values as Coq terms (C11_Nodes records)

func vc11OptInt(p **int) string {
	if p == nil {
		return "Absent"
	}
	if *p == nil {
		return "Null"
	}
	return "(Present " + vc11Z(**p) + ")"
}

func vc11CoqLinks(l ipldbindcode.List__Link) string {
	items := make([]string, len(l))
	for i, x := range l {
		items[i] = vc11Pack(vc11LinkBytes(x))
	}
	if len(items) == 0 {
		return "([] : list link)"
	}
	return "[" + strings.Join(items, "; ") + "]"
}

func vc11CoqDataFrame(d ipldbindcode.DataFrame) string {
	next := "Absent"
	if d.Next != nil {
		if *d.Next == nil {
			next = "Null"
		} else {
			next = "(Present " + vc11CoqLinks(**d.Next) + ")"
		}
	}
	return fmt.Sprintf("(mkDataFrame %s %s %s %s %s %s)", vc11Z(d.Kind), vc11OptInt(d.Hash), vc11OptInt(d.Index), vc11OptInt(d.Total), vc11Pack(d.Data), next)
}

func vc11CoqNode(n any) string {
	switch x := n.(type) {
	case *ipldbindcode.Transaction:
		return fmt.Sprintf("(NTransaction (mkTransaction %s %s %s %s %s))", vc11Z(x.Kind), vc11CoqDataFrame(x.Data), vc11CoqDataFrame(x.Metadata), vc11Z(x.Slot), vc11OptInt(x.Index))
	case *ipldbindcode.Entry:
		return fmt.Sprintf("(NEntry (mkEntry %s %s %s %s))", vc11Z(x.Kind), vc11Z(x.NumHashes), vc11Pack(x.Hash), vc11CoqLinks(x.Transactions))
	case *ipldbindcode.Block:
		sh := make([]string, len(x.Shredding))
		for i, s := range x.Shredding {
			sh[i] = "mkShredding " + vc11Z(s.EntryEndIdx) + " " + vc11Z(s.ShredEndIdx)
		}
		shs := "([] : list Shredding)"
		if len(sh) > 0 {
			shs = "[" + strings.Join(sh, "; ") + "]"
		}
		return fmt.Sprintf("(NBlock (mkBlock %s %s %s %s (mkSlotMeta %s %s %s) %s))", vc11Z(x.Kind), vc11Z(x.Slot), shs, vc11CoqLinks(x.Entries),
			vc11Z(x.Meta.Parent_slot), vc11Z(x.Meta.Blocktime), vc11OptInt(x.Meta.Block_height), vc11Pack(vc11LinkBytes(x.Rewards)))
	case *ipldbindcode.Subset:
		return fmt.Sprintf("(NSubset (mkSubset %s %s %s %s))", vc11Z(x.Kind), vc11Z(x.First), vc11Z(x.Last), vc11CoqLinks(x.Blocks))
	case *ipldbindcode.Epoch:
		return fmt.Sprintf("(NEpoch (mkEpoch %s %s %s))", vc11Z(x.Kind), vc11Z(x.Epoch), vc11CoqLinks(x.Subsets))
	case *ipldbindcode.Rewards:
		return fmt.Sprintf("(NRewards (mkRewards %s %s %s))", vc11Z(x.Kind), vc11Z(x.Slot), vc11CoqDataFrame(x.Data))
	case *ipldbindcode.DataFrame:
		return "(NDataFrame " + vc11CoqDataFrame(*x) + ")"
	}
	return "?"
}

// ---------------------------------------------------------------- the three implementations

var vc11KindNames = []string{"Transaction", "Entry", "Block", "Subset", "Epoch", "Rewards", "DataFrame"}

func vc11Proto(kind int) schema.TypedPrototype {
	switch Kind(kind) {
	case KindTransaction:
		return ipldbindcode.Prototypes.Transaction
	case KindEntry:
		return ipldbindcode.Prototypes.Entry
	case KindBlock:
		return ipldbindcode.Prototypes.Block
	case KindSubset:
		return ipldbindcode.Prototypes.Subset
	case KindEpoch:
		return ipldbindcode.Prototypes.Epoch
	case KindRewards:
		return ipldbindcode.Prototypes.Rewards
	default:
		return ipldbindcode.Prototypes.DataFrame
	}
}

// vc11RefEncode: the reference encoder (bindnode representation + dag-cbor), as cmd-car-split.go writes nodes.
func vc11RefEncode(ptr any, kind int) (b []byte, err error) {
	defer func() {
		if r := recover(); r != nil {
			err = fmt.Errorf("panic in reference encoder: %v", r)
		}
	}()
	n := bindnode.Wrap(ptr, vc11Proto(kind).Type()).Representation()
	var buf bytes.Buffer
	err = dagcbor.Encode(n, &buf)
	return buf.Bytes(), err
}

// vc11Run calls a decoder under recover. class: 0 ok, 1 error, 2 panic.
func vc11Run(f func([]byte) (any, error), raw []byte) (res any, class int, msg string) {
	defer func() {
		if r := recover(); r != nil {
			res, class, msg = nil, 2, fmt.Sprint(r)
		}
	}()
	v, err := f(raw)
	if err != nil {
		return nil, 1, err.Error()
	}
	return v, 0, ""
}

func vc11Fast(kind int) func([]byte) (any, error) {
	switch Kind(kind) {
	case KindTransaction:
		return func(b []byte) (any, error) { return DecodeTransaction(b) }
	case KindEntry:
		return func(b []byte) (any, error) { return DecodeEntry(b) }
	case KindBlock:
		return func(b []byte) (any, error) { return DecodeBlock(b) }
	case KindSubset:
		return func(b []byte) (any, error) { return DecodeSubset(b) }
	case KindEpoch:
		return func(b []byte) (any, error) { return DecodeEpoch(b) }
	case KindRewards:
		return func(b []byte) (any, error) { return DecodeRewards(b) }
	default:
		return func(b []byte) (any, error) { return DecodeDataFrame(b) }
	}
}

func vc11Classic(kind int) func([]byte) (any, error) {
	switch Kind(kind) {
	case KindTransaction:
		return func(b []byte) (any, error) { return _DecodeTransactionClassic(b) }
	case KindEntry:
		return func(b []byte) (any, error) { return _DecodeEntryClassic(b) }
	case KindBlock:
		return func(b []byte) (any, error) { return _DecodeBlockClassic(b) }
	case KindSubset:
		return func(b []byte) (any, error) { return _DecodeSubsetClassic(b) }
	case KindEpoch:
		return func(b []byte) (any, error) { return _DecodeEpochClassic(b) }
	case KindRewards:
		return func(b []byte) (any, error) { return _DecodeRewardsClassic(b) }
	default:
		return func(b []byte) (any, error) { return _DecodeDataFrameClassic(b) }
	}
}

func vc11KindOfValue(v any) int {
	switch v.(type) {
	case *ipldbindcode.Transaction:
		return int(KindTransaction)
	case *ipldbindcode.Entry:
		return int(KindEntry)
	case *ipldbindcode.Block:
		return int(KindBlock)
	case *ipldbindcode.Subset:
		return int(KindSubset)
	case *ipldbindcode.Epoch:
		return int(KindEpoch)
	case *ipldbindcode.Rewards:
		return int(KindRewards)
	case *ipldbindcode.DataFrame:
		return int(KindDataFrame)
	}
	return -1
}

// ---------------------------------------------------------------- generators

type vc11Gen struct {
	rng *vh.Rng
	rep *vh.Report
}

var vc11IntEdges = []int{0, 1, 23, 24, 25, 255, 256, 257, 65535, 65536, 65537, 4294967295, 4294967296, 4294967297,
	9223372036854775807, 9223372036854775806, -1, -2, -24, -25, -26, -256, -257, -65536, -65537, -4294967296, -4294967297,
	-9223372036854775808, -9223372036854775807}

func (g *vc11Gen) intv() int {
	switch g.rng.Intn(10) {
	case 0, 1, 2:
		g.rep.Count("int=small")
		return g.rng.Intn(400)
	case 3, 4:
		g.rep.Count("int=edge")
		return vc11IntEdges[g.rng.Intn(len(vc11IntEdges))]
	case 5:
		g.rep.Count("int=negative")
		return -1 - g.rng.Intn(100000)
	case 6:
		g.rep.Count("int=random64")
		return int(g.rng.U64())
	case 7:
		g.rep.Count("int=slot-like")
		return 100000000 + g.rng.Intn(300000000)
	default:
		g.rep.Count("int=random32")
		return int(g.rng.U64() >> 33)
	}
}

// optional field: 0 absent, 1 null, 2 present
func (g *vc11Gen) opt(name string) **int {
	switch g.rng.Intn(3) {
	case 0:
		g.rep.Count(name + "=omitted-or-absent")
		return nil
	case 1:
		g.rep.Count(name + "=null")
		var p *int
		return &p
	default:
		g.rep.Count(name + "=present")
		v := g.intv()
		if g.rng.Intn(4) == 0 {
			// a present optional integer that is exactly zero must stay PRESENT (not be conflated with null/omitted)
			g.rep.Count(name + "=present-zero")
			v = 0
		}
		p := &v
		return &p
	}
}

func (g *vc11Gen) bytesv(what string) []byte {
	var n int
	switch g.rng.Intn(12) {
	case 0, 1:
		n = 0
	case 2:
		n = 1
	case 3:
		n = g.rng.Pick(23, 24, 25)
	case 4:
		n = g.rng.Pick(255, 256, 257)
	case 5:
		n = 32
	case 6:
		n = 64
	case 7:
		if g.rng.Intn(3) == 0 {
			n = 300 + g.rng.Intn(900)
		} else {
			n = 26 + g.rng.Intn(60)
		}
	default:
		n = 2 + g.rng.Intn(40)
	}
	switch {
	case n == 0:
		g.rep.Count(what + "=empty")
	case n < 24:
		g.rep.Count(what + "=1..23")
	case n < 256:
		g.rep.Count(what + "=24..255")
	default:
		g.rep.Count(what + "=256+")
	}
	return g.rng.Bytes(n)
}

// vc11Uvarint: unsigned LEB128 (multiformats varint).
func vc11Uvarint(v uint64) []byte {
	var b []byte
	for v >= 0x80 {
		b = append(b, byte(v)|0x80)
		v >>= 7
	}
	return append(b, byte(v))
}

// vc11Cid builds a CID from its parts without importing go-multihash (the harness must not add direct
// dependencies to the module): version 0 = <0x12 0x20 digest32>, version 1 = <1 codec mhcode mhlen digest>.
func vc11Cid(version int, codec, mhcode uint64, digest []byte) cid.Cid {
	var b []byte
	if version == 1 {
		b = append(b, 1)
		b = append(b, vc11Uvarint(codec)...)
	}
	b = append(b, vc11Uvarint(mhcode)...)
	b = append(b, vc11Uvarint(uint64(len(digest)))...)
	b = append(b, digest...)
	c, err := cid.Cast(b)
	if err != nil {
		panic("VERIF-HARNESS-BUG: generated CID does not parse: " + err.Error())
	}
	return c
}

// link: CIDv1 with various codecs and multihashes (1- and 2-byte varints, identity hashes of several lengths), and CIDv0
func (g *vc11Gen) link() datamodel.Link {
	var c cid.Cid
	switch g.rng.Intn(10) {
	case 0:
		g.rep.Count("cid=v0")
		c = vc11Cid(0, 0, 0x12, g.rng.Bytes(32))
	case 1:
		g.rep.Count("cid=v1-identity")
		c = vc11Cid(1, 0x55, 0x00, g.rng.Bytes(g.rng.Pick(0, 1, 5, 40)))
	case 2:
		g.rep.Count("cid=v1-sha512-dagjson")
		c = vc11Cid(1, 0x0129, 0x13, g.rng.Bytes(64))
	case 3:
		g.rep.Count("cid=v1-blake2b256")
		c = vc11Cid(1, 0x71, 0xb220, g.rng.Bytes(32))
	default:
		g.rep.Count("cid=v1-dagcbor-sha256")
		c = vc11Cid(1, 0x71, 0x12, g.rng.Bytes(32))
	}
	return cidlink.Link{Cid: c}
}

func (g *vc11Gen) links(what string, allowLong bool) ipldbindcode.List__Link {
	var n int
	switch g.rng.Intn(16) {
	case 0, 1, 2:
		n = 0
	case 3, 4:
		n = 1
	case 5:
		n = g.rng.Pick(23, 24, 25)
		if g.rng.Intn(6) == 0 && allowLong {
			n = g.rng.Pick(255, 256, 257)
		}
	default:
		n = 2 + g.rng.Intn(7)
	}
	switch {
	case n == 0:
		g.rep.Count(what + "=empty")
	case n == 1:
		g.rep.Count(what + "=1")
	case n < 24:
		g.rep.Count(what + "=2..23")
	case n < 256:
		g.rep.Count(what + "=24..255")
	default:
		g.rep.Count(what + "=256+")
	}
	if n == 0 && g.rng.Bool() {
		return nil
	}
	l := make(ipldbindcode.List__Link, n)
	for i := range l {
		l[i] = g.link()
	}
	return l
}

func (g *vc11Gen) dataFrame(long bool) ipldbindcode.DataFrame {
	d := ipldbindcode.DataFrame{Kind: int(KindDataFrame), Hash: g.opt("df.hash"), Index: g.opt("df.index"), Total: g.opt("df.total"), Data: g.bytesv("df.data")}
	switch g.rng.Intn(4) {
	case 0:
		g.rep.Count("df.next=omitted")
	case 1:
		g.rep.Count("df.next=null")
		var p *ipldbindcode.List__Link
		d.Next = &p
	default:
		g.rep.Count("df.next=present")
		l := g.links("df.next.len", long)
		p := &l
		d.Next = &p
	}
	return d
}

func (g *vc11Gen) node(kind int) any {
	switch Kind(kind) {
	case KindTransaction:
		return &ipldbindcode.Transaction{Kind: kind, Data: g.dataFrame(false), Metadata: g.dataFrame(false), Slot: g.intv(), Index: g.opt("tx.index")}
	case KindEntry:
		return &ipldbindcode.Entry{Kind: kind, NumHashes: g.intv(), Hash: g.bytesv("entry.hash"), Transactions: g.links("entry.transactions", true)}
	case KindBlock:
		n := g.rng.Pick(0, 0, 1, 2, 5, 24, 40)
		var sh ipldbindcode.List__Shredding
		for i := 0; i < n; i++ {
			sh = append(sh, ipldbindcode.Shredding{EntryEndIdx: g.intv(), ShredEndIdx: g.intv()})
		}
		g.rep.Count(fmt.Sprintf("block.shredding=%d", n))
		return &ipldbindcode.Block{Kind: kind, Slot: g.intv(), Shredding: sh, Entries: g.links("block.entries", true),
			Meta: ipldbindcode.SlotMeta{Parent_slot: g.intv(), Blocktime: g.intv(), Block_height: g.opt("block.block_height")}, Rewards: g.link()}
	case KindSubset:
		return &ipldbindcode.Subset{Kind: kind, First: g.intv(), Last: g.intv(), Blocks: g.links("subset.blocks", true)}
	case KindEpoch:
		return &ipldbindcode.Epoch{Kind: kind, Epoch: g.intv(), Subsets: g.links("epoch.subsets", true)}
	case KindRewards:
		return &ipldbindcode.Rewards{Kind: kind, Slot: g.intv(), Data: g.dataFrame(true)}
	default:
		d := g.dataFrame(true)
		return &d
	}
}

// ---------------------------------------------------------------- the oracle on one input

type vc11Replay struct {
	Kind  string `json:"kind"`
	Hex   string `json:"hex,omitempty"`
	Links int    `json:"links,omitempty"` // generated long-list input: an Entry with that many transaction links
	Note  string `json:"note,omitempty"`
	// decode history: the inputs (not conforming nodes) handed to the fast decoders right before this node, in order
	Before []vc11Prev `json:"decoded_before,omitempty"`
}

// vc11Prev: one fast-decoder call on an input that is not a conforming node of the decoder's kind.
type vc11Prev struct {
	Decoder string `json:"decoder"` // Decode<Decoder>, or "Any"
	Class   string `json:"class"`
	Hex     string `json:"hex"`
}

func vc11Trunc(s string) string {
	if len(s) > 1500 {
		return s[:1500] + "…"
	}
	return s
}

// vc11Check runs the three decoders on raw and evaluates the property. value is the typed value the bytes were
// made from (nil for fixture nodes). Returns the fast decoder's class and observation for the case file.
func vc11Check(rep *vh.Report, kind int, value any, raw []byte, origin string, before func(kind int) []vc11Prev) (class int, obs string, ref *vc11Conf) {
	kn := vc11KindNames[kind]
	rp := vc11Replay{Kind: kn, Hex: hex.EncodeToString(raw), Note: origin}
	if len(raw) > 4096 {
		rp.Hex = hex.EncodeToString(raw[:4096]) + "…(truncated; regenerate with the seed)"
	}
	cres, cclass, cmsg := vc11Run(vc11Classic(kind), raw)
	if cclass == 0 {
		// the reference observation without the per-case byte-string names: what every later decode of this node
		// (after other inputs, from other goroutines) is compared with
		saved := vc11T
		vc11T = nil
		cp := vc11ObsNode(cres)
		vc11T = saved
		ref = &vc11Conf{kind: kind, raw: raw, term: cp.term, extra: cp.extra, origin: origin}
	}
	if before != nil {
		// decode history: fast-decoder calls on inputs that are not conforming nodes, right before the fast decode
		rp.Before = before(kind)
	}
	fres, fclass, fmsg := vc11Run(vc11Fast(kind), raw)
	if cclass != 0 {
		// the reference decoder does not accept what the reference encoder wrote: not a statement about the fast decoder
		rep.Fail("reference-rejects:"+kn, "schema-driven decoder fails on a node written by the schema-driven encoder: "+vc11Trunc(cmsg), rp)
		return fclass, "", nil
	}
	if fclass == 2 {
		rep.Fail("fast-panics-on-conforming:"+kn, "panic: "+vc11Trunc(fmsg)+vc11HistNote(rp.Before), rp)
		return fclass, "", ref
	}
	if fclass == 1 {
		rep.Fail("fast-rejects-conforming:"+kn, "fast decoder error on a node the schema-driven decoder accepts: "+vc11Trunc(fmsg)+vc11HistNote(rp.Before), rp)
		return fclass, "", ref
	}
	co, fo := vc11ObsNode(cres), vc11ObsNode(fres)
	for _, p := range fo.problem {
		rep.Fail("accessor-inconsistent:"+kn, "on the fast decoder's result: "+p, rp)
	}
	for _, p := range co.problem {
		rep.Fail("accessor-inconsistent:"+kn, "on the schema-driven decoder's result: "+p, rp)
	}
	if co.extra != fo.extra {
		rep.Fail("fast-classic-disagree:"+kn, "the ok flag of DataFrame.GetNext differs\n fast:    "+fo.extra+"\n classic: "+co.extra, rp)
	}
	if co.term != fo.term {
		rep.Fail("fast-classic-disagree:"+kn, "observations differ"+vc11HistNote(rp.Before)+"\n fast:    "+vc11Trunc(fo.term)+"\n classic: "+vc11Trunc(co.term), rp)
	}
	if value != nil {
		vo := vc11ObsNode(value)
		if vo.term != fo.term {
			rep.Fail("value-not-preserved:"+kn, "the fast decoder's result is not observed like the encoded value\n fast:  "+vc11Trunc(fo.term)+"\n value: "+vc11Trunc(vo.term), rp)
		}
	}
	// a node of one kind is never accepted as another kind
	for other := 0; other < 7; other++ {
		if other == kind {
			continue
		}
		_, oclass, omsg := vc11Run(vc11Fast(other), raw)
		switch oclass {
		case 0:
			rep.Fail("wrong-kind-accepted:"+kn+"-as-"+vc11KindNames[other], "Decode"+vc11KindNames[other]+" accepted a "+kn+" node", rp)
		case 2:
			rep.Fail("wrong-kind-panics:"+kn+"-as-"+vc11KindNames[other], "panic: "+vc11Trunc(omsg), rp)
		}
	}
	// DecodeAny dispatches on the kind byte
	ares, aclass, amsg := vc11Run(func(b []byte) (any, error) { return DecodeAny(b) }, raw)
	if aclass != 0 {
		rep.Fail("decodeany-rejects:"+kn, vc11Trunc(amsg), rp)
	} else if vc11KindOfValue(ares) != kind {
		rep.Fail("decodeany-wrong-kind:"+kn, fmt.Sprintf("DecodeAny returned %T", ares), rp)
	}
	return 0, fo.term, ref
}

// vc11Fixtures extracts every package-level `name = []byte{...}` of the package's *_test.go files (the embedded
// fixture nodes of decoders_test.go / data_test.go), without depending on their names.
func vc11Fixtures() (map[string][]byte, error) {
	out := map[string][]byte{}
	ents, err := os.ReadDir(".")
	if err != nil {
		return nil, err
	}
	for _, e := range ents {
		if !strings.HasSuffix(e.Name(), "_test.go") || strings.HasPrefix(e.Name(), "zz_verif") {
			continue
		}
		fset := token.NewFileSet()
		f, err := parser.ParseFile(fset, e.Name(), nil, 0)
		if err != nil {
			continue
		}
		for _, d := range f.Decls {
			gd, ok := d.(*ast.GenDecl)
			if !ok || gd.Tok != token.VAR {
				continue
			}
			for _, s := range gd.Specs {
				vs := s.(*ast.ValueSpec)
				for i, n := range vs.Names {
					if i >= len(vs.Values) {
						continue
					}
					cl, ok := vs.Values[i].(*ast.CompositeLit)
					if !ok {
						continue
					}
					at, ok := cl.Type.(*ast.ArrayType)
					if !ok || at.Len != nil {
						continue
					}
					if id, ok := at.Elt.(*ast.Ident); !ok || id.Name != "byte" {
						continue
					}
					b := make([]byte, 0, len(cl.Elts))
					good := true
					for _, el := range cl.Elts {
						bl, ok := el.(*ast.BasicLit)
						if !ok {
							good = false
							break
						}
						v, err := strconv.ParseUint(bl.Value, 0, 8)
						if err != nil {
							good = false
							break
						}
						b = append(b, byte(v))
					}
					if good && len(b) >= 2 {
						out[n.Name] = b
					}
				}
			}
		}
	}
	return out, nil
}

func vc11LongEntry(n int) ([]byte, *ipldbindcode.Entry, error) {
	l := cidlink.Link{Cid: vc11Cid(1, 0x71, 0x12, bytes.Repeat([]byte{7}, 32))}
	links := make(ipldbindcode.List__Link, n)
	for i := range links {
		links[i] = l
	}
	e := &ipldbindcode.Entry{Kind: int(KindEntry), NumHashes: 5, Hash: []byte{1, 2}, Transactions: links}
	raw, err := vc11RefEncode(e, int(KindEntry))
	return raw, e, err
}

// vc11LongList: the real code on both sides of the CBOR library's default array limit (131072 elements).
func vc11LongList(rep *vh.Report, n int) {
	raw, e, err := vc11LongEntry(n)
	if err != nil {
		rep.Note("long list %d: reference encoder failed: %v", n, err)
		return
	}
	rp := vc11Replay{Kind: "Entry", Links: n, Note: "Entry{kind 1, num_hashes 5, hash 0x0102, transactions: the same CIDv1 dag-cbor sha2-256 link repeated}"}
	rep.Case(fmt.Sprintf("long-entry-%d", n), true)
	rep.Count(fmt.Sprintf("long-list=%d", n))
	cres, cclass, cmsg := vc11Run(vc11Classic(int(KindEntry)), raw)
	fres, fclass, fmsg := vc11Run(vc11Fast(int(KindEntry)), raw)
	if cclass != 0 {
		rep.Note("long list %d: schema-driven decoder: %s", n, vc11Trunc(cmsg))
		return
	}
	if fclass != 0 {
		rep.Fail("fast-rejects-long-list", fmt.Sprintf("Entry with %d transaction links (%d bytes): the schema-driven decoder accepts it, the fast decoder fails: %s", n, len(raw), vc11Trunc(fmsg)), rp)
		return
	}
	ce, fe := cres.(*ipldbindcode.Entry), fres.(*ipldbindcode.Entry)
	same := len(ce.Transactions) == n && len(fe.Transactions) == n && fe.Kind == e.Kind && fe.NumHashes == e.NumHashes && bytes.Equal(fe.Hash, e.Hash)
	for i := 0; same && i < n; i++ {
		if !bytes.Equal(vc11LinkBytes(fe.Transactions[i]), vc11LinkBytes(e.Transactions[i])) || !bytes.Equal(vc11LinkBytes(ce.Transactions[i]), vc11LinkBytes(e.Transactions[i])) {
			same = false
		}
	}
	if !same {
		rep.Fail("fast-classic-disagree:Entry", fmt.Sprintf("Entry with %d links decodes differently in the two decoders", n), rp)
	}
}

// ---------------------------------------------------------------- decode history
// C11 speaks about conforming nodes: each one is accepted and observed as the reference decoder says - whatever the
// fast decoders were handed before. The inputs generated here are NOT conforming nodes of the decoder they are given to
// (so they need no case; what happens on them is C12's subject): they only form the history of the next conforming node.

// vc11Conf: a conforming node together with the reference decoder's observation (byte strings printed in full).
type vc11Conf struct {
	kind        int
	raw         []byte
	term, extra string
	origin      string
	key         string // the key of the node's rep.Case
}

func vc11HistNote(before []vc11Prev) string {
	if len(before) == 0 {
		return ""
	}
	last := before[len(before)-1]
	return fmt.Sprintf(" [right after %d fast-decoder call(s) on inputs that are not conforming nodes; the last one: Decode%s on a %s input of %d bytes]",
		len(before), last.Decoder, last.Class, len(last.Hex)/2)
}

// vc11Junk makes inputs that are not one complete conforming node of the decoder's kind, from conforming donor nodes.
type vc11Junk struct {
	rng    *vh.Rng
	donors [7][][]byte // conforming nodes (reference encoder), read-only once built
	rep    *vh.Report
}

func vc11NewJunk(seed uint64, rep *vh.Report) *vc11Junk {
	j := &vc11Junk{rng: vh.NewRng(seed), rep: rep}
	g := &vc11Gen{rng: vh.NewRng(seed ^ 0x5bd1e995), rep: vh.NewReport("C11", "donors", "")} // counts of the donors are not reported
	for kind := 0; kind < 7; kind++ {
		for tries := 0; len(j.donors[kind]) < 10 && tries < 200; tries++ {
			raw, err := vc11RefEncode(g.node(kind), kind)
			if err == nil && len(raw) >= 4 {
				j.donors[kind] = append(j.donors[kind], raw)
			}
		}
	}
	return j
}

// fork: the same donors with an own random stream (for another goroutine).
func (j *vc11Junk) fork(seed uint64) *vc11Junk {
	return &vc11Junk{rng: vh.NewRng(seed), donors: j.donors, rep: j.rep}
}

func (j *vc11Junk) donor(kind int) []byte {
	if len(j.donors[kind]) == 0 {
		return []byte{0x82, 0x00, 0x00} // never the case with a working reference encoder
	}
	return j.donors[kind][j.rng.Intn(len(j.donors[kind]))]
}

var vc11Malformed = [][]byte{
	{},                 // nothing at all
	{0x9f},             // indefinite-length array that never ends
	{0x9f, 0x01, 0x02}, // the same with elements
	{0xff},             // a break outside an indefinite-length item
	{0x1c},             // reserved additional information
	{0x9b, 0x00, 0x00, 0x00, 0x01, 0x00, 0x00, 0x00, 0x00}, // array header announcing 2^32 elements
	{0x5a, 0xff, 0xff, 0xff, 0xff, 0x00},                   // byte string announcing 2^32-1 bytes
	{0x86, 0x00, 0x5f, 0x41, 0x00},                         // unfinished indefinite-length byte string inside a tuple
	{0xd8, 0x2a},                                           // a tag without content
	{0x84, 0x01, 0xf9, 0x00},                               // tuple cut inside a half-precision float
}

// one makes one input for the decoder of kind decKind (nextKind = the kind of the conforming node decoded next).
func (j *vc11Junk) one(nextKind int) (decKind int, class string, data []byte) {
	rng := j.rng
	donorKind := nextKind
	if rng.Intn(3) == 0 {
		donorKind = rng.Intn(7)
	}
	d := j.donor(donorKind)
	// which decoder: that of the next conforming node, that of the donor, or any
	switch rng.Intn(4) {
	case 0:
		decKind = donorKind
	case 1:
		decKind = rng.Intn(7)
	default:
		decKind = nextKind
	}
	switch rng.Intn(12) {
	case 0, 1, 2, 3: // truncated conforming node, every class of cut position
		var cut int
		switch rng.Intn(8) {
		case 0:
			cut, class = 0, "truncated:empty"
		case 1:
			cut, class = 1, "truncated:after-tuple-header"
		case 2:
			cut, class = 2, "truncated:after-kind"
		case 3:
			cut, class = len(d)-1, "truncated:last-byte-missing"
		case 4:
			cut, class = len(d)-2, "truncated:two-bytes-missing"
		case 5:
			cut, class = len(d)/2, "truncated:half"
		default:
			cut, class = 1+rng.Intn(len(d)-1), "truncated:random"
		}
		if cut < 0 {
			cut = 0
		}
		data = append([]byte(nil), d[:cut]...)
	case 4, 5, 6: // a conforming node followed by extra bytes
		var extra []byte
		switch rng.Intn(6) {
		case 0:
			extra, class = j.donor(donorKind), "trailing:another-node-of-the-kind"
		case 1:
			extra, class = j.donor(rng.Intn(7)), "trailing:a-node-of-any-kind"
		case 2:
			extra, class = []byte{0x00}, "trailing:one-byte"
		case 3:
			extra, class = []byte{0xff}, "trailing:break-byte"
		case 4:
			extra, class = d[:1+rng.Intn(len(d)-1)], "trailing:truncated-node"
		default:
			extra, class = rng.Bytes(1+rng.Intn(40)), "trailing:random-bytes"
		}
		data = append(append([]byte(nil), d...), extra...)
	case 7, 8: // byte-mutated node
		data = append([]byte(nil), d...)
		switch rng.Intn(4) {
		case 0:
			class = "mutated:byte-inserted"
			at := rng.Intn(len(data) + 1)
			data = append(data[:at], append([]byte{byte(rng.U64())}, data[at:]...)...)
		case 1:
			class = "mutated:byte-deleted"
			at := rng.Intn(len(data))
			data = append(data[:at], data[at+1:]...)
		default:
			class = "mutated:bytes-changed"
			for n := 1 + rng.Intn(3); n > 0; n-- {
				data[rng.Intn(len(data))] ^= byte(1 + rng.Intn(255))
			}
		}
	case 9: // a complete conforming node of another kind than the decoder's
		class = "other-kind"
		if decKind == donorKind {
			decKind = (donorKind + 1 + rng.Intn(6)) % 7
		}
		data = d
	case 10:
		class = "malformed-cbor"
		data = vc11Malformed[rng.Intn(len(vc11Malformed))]
	default:
		class = "random-bytes"
		data = rng.Bytes(rng.Intn(64))
	}
	return decKind, class, data
}

// feed calls fast decoders on n generated inputs and returns what was fed (for the replay file).
func (j *vc11Junk) feed(nextKind, n int) []vc11Prev {
	var out []vc11Prev
	for i := 0; i < n; i++ {
		decKind, class, data := j.one(nextKind)
		out = append(out, j.call(decKind, class, data))
	}
	return out
}

func (j *vc11Junk) call(decKind int, class string, data []byte) vc11Prev {
	name := vc11KindNames[decKind]
	f := vc11Fast(decKind)
	if j.rng.Intn(16) == 0 {
		name, f = "Any", func(b []byte) (any, error) { return DecodeAny(b) }
	}
	_, cls, _ := vc11Run(f, data)
	if j.rep != nil {
		j.rep.Count("history input=" + class)
		j.rep.Count("history input outcome=" + [...]string{"accepted", "error", "panic"}[cls])
	}
	h := data
	if len(h) > 2048 {
		h = h[:2048]
	}
	return vc11Prev{Decoder: name, Class: class, Hex: hex.EncodeToString(h)}
}

// prefixes: every proper prefix of a (short) conforming node, one call each.
func (j *vc11Junk) prefixes(nextKind int) []vc11Prev {
	d := j.donor(nextKind)
	if len(d) > 160 {
		d = j.donor(int(KindEpoch))
	}
	if len(d) > 400 {
		d = d[:400]
	}
	var last vc11Prev
	for cut := 0; cut < len(d); cut++ {
		last = j.call(nextKind, "truncated:every-prefix", d[:cut])
	}
	return []vc11Prev{last}
}

// before: the history put in front of one conforming node: nothing (a third of the nodes: the node right after
// another conforming node), one input, a few, or every prefix of a node.
func (j *vc11Junk) before(nextKind int) []vc11Prev {
	switch j.rng.Intn(12) {
	case 0, 1, 2, 3:
		j.rep.Count("history=none")
		return nil
	case 4, 5, 6, 7:
		j.rep.Count("history=1 input")
		return j.feed(nextKind, 1)
	case 8, 9:
		j.rep.Count("history=2-3 inputs")
		return j.feed(nextKind, 2+j.rng.Intn(2))
	case 10:
		j.rep.Count("history=8 inputs")
		return j.feed(nextKind, 8)
	default:
		j.rep.Count("history=every prefix")
		return j.prefixes(nextKind)
	}
}

// vc11Again decodes a conforming node with the fast decoder once more and compares the observation with the reference
// decoder's (vc11T must be nil: byte strings are printed in full). Safe to call from several goroutines.
func vc11Again(rep *vh.Report, c *vc11Conf, when string, before []vc11Prev) {
	kn := vc11KindNames[c.kind]
	rp := vc11Replay{Kind: kn, Hex: hex.EncodeToString(c.raw), Note: c.origin + "; " + when, Before: before}
	if len(c.raw) > 4096 {
		rp.Hex = hex.EncodeToString(c.raw[:4096]) + "…(truncated; regenerate with the seed)"
	}
	fres, fclass, fmsg := vc11Run(vc11Fast(c.kind), c.raw)
	switch fclass {
	case 2:
		rep.Fail("fast-panics-on-conforming:"+kn, when+": panic: "+vc11Trunc(fmsg)+vc11HistNote(before), rp)
		return
	case 1:
		rep.Fail("fast-rejects-conforming:"+kn, when+": fast decoder error on a node the schema-driven decoder accepts: "+vc11Trunc(fmsg)+vc11HistNote(before), rp)
		return
	}
	fo := vc11ObsNode(fres)
	for _, p := range fo.problem {
		rep.Fail("accessor-inconsistent:"+kn, when+": on the fast decoder's result: "+p, rp)
	}
	if fo.term != c.term || fo.extra != c.extra {
		rep.Fail("fast-classic-disagree:"+kn, when+": observations differ"+vc11HistNote(before)+"\n fast:    "+vc11Trunc(fo.term)+" "+fo.extra+"\n classic: "+vc11Trunc(c.term)+" "+c.extra, rp)
	}
}

// vc11History: (a) several goroutines decode the conforming nodes at the same time, each with inputs that are not
// conforming nodes in between; (b) every conforming node is decoded once more, on one goroutine, after everything else.
func vc11History(rep *vh.Report, confs []*vc11Conf, junk *vc11Junk, seed uint64) {
	vc11T = nil // observations with byte strings in full; only read from here on
	workers := 4
	if vh.Thorough() {
		workers = 8
	}
	var wg sync.WaitGroup
	for w := 0; w < workers; w++ {
		w := w
		wg.Add(1)
		go func() {
			defer wg.Done()
			j := junk.fork(seed + 1000 + uint64(w))
			order := j.rng.Perm(len(confs))
			// every worker decodes its own share plus a share all workers have in common
			for n, i := range order {
				if i%workers != w && n%8 != 0 {
					continue
				}
				c := confs[i]
				var before []vc11Prev
				if j.rng.Intn(3) != 0 {
					before = j.feed(c.kind, 1+j.rng.Intn(2))
				}
				rep.Case(c.key, len(c.raw) > 8)
				rep.Count("decoded again from one of several goroutines")
				vc11Again(rep, c, fmt.Sprintf("decoded again from goroutine %d of %d", w, workers), before)
			}
		}()
	}
	wg.Wait()
	for _, i := range junk.rng.Perm(len(confs)) {
		c := confs[i]
		rep.Case(c.key, len(c.raw) > 8)
		rep.Count("decoded again at the end of the run")
		vc11Again(rep, c, "decoded again at the end of the run", nil)
	}
}

// ---------------------------------------------------------------- the test

func TestVerif_C11(t *testing.T) {
	perKind := 300
	if vh.Thorough() {
		perKind = 2000
	}
	rep := vh.NewReport("C11", "decoders",
		"random typed values of every kind (each optional field omitted / null / present, empty .. 257-element lists, five CID shapes, edge and random 64-bit integers, 0 .. 1200-byte strings) encoded by bindnode+dag-cbor, plus the fixture nodes of the package tests, plus Entries with 131072 and 131073 links; oracle: fast decoder accepts, is observed like the value and like the schema-driven decoder, no other kind accepts; between the decodes of conforming nodes the fast decoders are called on inputs that are not conforming nodes (truncations at every class of cut position and every prefix, trailing bytes / nodes, inserted / deleted / changed bytes, nodes of another kind, malformed CBOR, random bytes: none, 1, 2-3, 8 or all prefixes before a node), every conforming node is decoded again from 4 (thorough 8) goroutines with such inputs in between and once more at the end of the run, each time with the same oracle; a case is non-trivial when the node has more than 8 bytes; distinct by bytes")
	cases := vh.NewCases("cases_c11", []string{"YF.Cbor", "YF.C11_Nodes", "YF.C11_Check"}, "C11_Check.case", "C11_Check.check")
	cases.Preamble("From Coq Require Import Uint63.")
	g := &vc11Gen{rng: vh.NewRng(vh.Seed()), rep: rep}
	junk := vc11NewJunk(vh.Seed()+7777, rep)
	var confs []*vc11Conf

	if rp := vh.Replay(); rp != "" {
		vc11DoReplay(t, rep, rp)
		if err := cases.Write(); err != nil {
			t.Fatal(err)
		}
		rep.CasesWritten(cases)
		if err := rep.Write(); err != nil {
			t.Fatal(err)
		}
		return
	}

	encFail := 0
	for kind := 0; kind < 7; kind++ {
		for i := 0; i < perKind; i++ {
			vc11NewCase()
			v := g.node(kind)
			raw, err := vc11RefEncode(v, kind)
			if err != nil {
				encFail++
				rep.Note("reference encoder rejected a generated %s: %v", vc11KindNames[kind], err)
				continue
			}
			rep.Case(hex.EncodeToString(raw), len(raw) > 8)
			rep.Count("kind=" + vc11KindNames[kind])
			class, obs, ref := vc11Check(rep, kind, v, raw, fmt.Sprintf("generated %s #%d (seed %d)", vc11KindNames[kind], i, vh.Seed()), junk.before)
			if ref != nil {
				ref.key = hex.EncodeToString(raw)
				confs = append(confs, ref)
			}
			if obs != "" {
				cases.Add(vc11Wrap(fmt.Sprintf("(%d%%Z, Some %s, %s, %d%%N, %s)", kind, vc11CoqNode(v), vc11Pack(raw), class, obs)))
			}
			if i == 3 {
				rep.Sample(map[string]interface{}{"kind": vc11KindNames[kind], "hex": hex.EncodeToString(raw[:min(len(raw), 160)]), "bytes": len(raw)})
			}
		}
	}
	if encFail > perKind/10 {
		t.Fatalf("VERIF-HARNESS-BUG: the reference encoder rejected %d generated values", encFail)
	}

	// fixture nodes of the package's own tests
	fx, err := vc11Fixtures()
	if err != nil {
		rep.Note("fixtures: %v", err)
	}
	names := make([]string, 0, len(fx))
	for n := range fx {
		names = append(names, n)
	}
	sort.Strings(names)
	nfx := 0
	for _, n := range names {
		raw := fx[n]
		k, err := GetKind(raw)
		if err != nil || int(k) < 0 || int(k) > 6 {
			continue
		}
		// only fixtures the schema-driven decoder accepts are schema-conforming nodes
		if _, cclass, _ := vc11Run(vc11Classic(int(k)), raw); cclass != 0 {
			rep.Count("fixture=not-accepted-by-reference")
			continue
		}
		nfx++
		vc11NewCase()
		rep.Case("fixture:"+n, true)
		rep.Count("fixture=" + vc11KindNames[int(k)])
		class, obs, ref := vc11Check(rep, int(k), nil, raw, "fixture "+n, junk.before)
		if ref != nil {
			ref.key = "fixture:" + n
			confs = append(confs, ref)
		}
		if obs != "" {
			cases.Add(vc11Wrap(fmt.Sprintf("(%d%%Z, None, %s, %d%%N, %s)", int(k), vc11Pack(raw), class, obs)))
		}
	}
	rep.Flag("fixture_nodes", nfx)

	// both sides of the CBOR library's default array limit
	vc11LongList(rep, 131072)
	vc11LongList(rep, 131073)
	if vh.Thorough() {
		vc11LongList(rep, 1000000)
	}

	// every conforming node once more: from several goroutines with other inputs in between, then at the end of the run
	vc11History(rep, confs, junk, vh.Seed())

	if err := cases.Write(); err != nil {
		t.Fatal(err)
	}
	rep.CasesWritten(cases)
	if err := rep.Write(); err != nil {
		t.Fatal(err)
	}
}

// vc11DoReplay re-evaluates the oracle on the inputs of a replay file written by bin/check.
func vc11DoReplay(t *testing.T, rep *vh.Report, path string) {
	raw, err := os.ReadFile(path)
	if err != nil {
		t.Fatalf("setup failed: %v", err)
	}
	var doc struct {
		Failures []struct {
			Replay vc11Replay `json:"replay"`
		} `json:"failures"`
	}
	if err := json.Unmarshal(raw, &doc); err != nil {
		t.Fatalf("setup failed: %v", err)
	}
	for _, f := range doc.Failures {
		r := f.Replay
		if r.Links > 0 {
			vc11LongList(rep, r.Links)
			continue
		}
		b, err := hex.DecodeString(strings.TrimSuffix(r.Hex, "…(truncated; regenerate with the seed)"))
		if err != nil {
			rep.Note("replay input is truncated; re-run with the recorded seed")
			continue
		}
		for k, n := range vc11KindNames {
			if n == r.Kind {
				rep.Case("replay:"+r.Hex, true)
				before := r.Before
				vc11Check(rep, k, nil, b, "replay", func(int) []vc11Prev {
					// the recorded history of the node: the same inputs to the same decoders, in order
					for _, p := range before {
						pb, err := hex.DecodeString(p.Hex)
						if err != nil {
							continue
						}
						f := func(b []byte) (any, error) { return DecodeAny(b) }
						for dk, dn := range vc11KindNames {
							if dn == p.Decoder {
								f = vc11Fast(dk)
							}
						}
						vc11Run(f, pb)
					}
					return before
				})
			}
		}
	}
}
