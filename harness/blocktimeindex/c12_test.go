package blocktimeindex

// Verification harness for C12 (injected with `go test -overlay`; not part of the repository).
// Mutated block-time index files through FromBytes / FromFile / Index.Get under the c12h watchdog.
// Oracle: no panic, allocation <= 16*len + 256 KiB, no hang. Correspondence: outcome class and decoded fields of
// FromBytes, outcome class of Get, against YF.C12_Parsers.bt_unmarshal_c12 / bt_get under the measured guard flags.

import (
	"fmt"
	"os"
	"path/filepath"
	"testing"

	"github.com/rpcpool/yellowstone-faithful/zzverif/c12h"
	"github.com/rpcpool/yellowstone-faithful/zzverif/vh"
)

func vc12Seeds(dir string, rng *vh.Rng) ([]c12h.Seed, error) {
	var seeds []c12h.Seed
	mk := func(name string, idx *Index, n int) error {
		for k := 0; k < n; k++ {
			slot := idx.start + uint64(k)
			if err := idx.Set(slot, int64(1_600_000_000+rng.Intn(1000))); err != nil {
				return err
			}
		}
		b, err := idx.MarshalBinary()
		if err != nil {
			return err
		}
		back, err := FromBytes(b)
		if err != nil {
			c12h.SkipSeed(name, fmt.Sprintf("does not load: %v", err))
			return nil
		}
		if back.capacity != idx.capacity {
			c12h.SkipSeed(name, "capacity mismatch after loading")
			return nil
		}
		seeds = append(seeds, c12h.Seed{Name: name, Data: b, Nums: []uint64{idx.start, idx.end, idx.epoch, idx.capacity}})
		return nil
	}
	// small tables written by the real writer (NewIndexer takes any capacity)
	if err := mk("cap10", NewIndexer(432000*3, 432000*3+9, 10), 10); err != nil {
		return seeds, err
	}
	if err := mk("cap1", NewIndexer(0, 0, 1), 1); err != nil {
		return seeds, err
	}
	if err := mk("cap40", NewIndexer(432000*700+5, 432000*700+44, 40), 40); err != nil {
		return seeds, err
	}
	if err := mk("cap0", NewIndexer(432000, 432000+3, 0), 0); err != nil {
		return seeds, err
	}
	// the real thing: one whole epoch (1.7 MB)
	if err := mk("epoch", NewForEpoch(5), 2000); err != nil {
		return seeds, err
	}
	return seeds, nil
}

var vc12Fields = []c12h.Field{{Name: "start", Off: 14, Len: 8}, {Name: "end", Off: 22, Len: 8}, {Name: "epoch", Off: 30, Len: 8}, {Name: "capacity", Off: 38, Len: 8}}

func vc12Slots(s *c12h.Seed) []uint64 {
	st, en, capa := s.Nums[0], s.Nums[1], s.Nums[3]
	return []uint64{st, st + 1, st + capa - 1, st + capa, en, en + 1, st - 1, st + capa/2}
}

func vc12Gen(seeds []c12h.Seed, rng *vh.Rng, thorough bool) []c12h.Input {
	var ins []c12h.Input
	nrand := 1500
	if thorough {
		nrand = 20000
	}
	for si := range seeds {
		s := &seeds[si]
		big := len(s.Data) > 100000
		ins = append(ins, c12h.Input{Entry: "frombytes", Label: "valid", Data: s.Data})
		ins = append(ins, c12h.MutateFields("frombytes", s, vc12Fields, nil, nil)...)
		if big {
			ins = append(ins, c12h.Truncations("frombytes", s, []int{14, 46, len(s.Data) / 2}, nil, nil)...)
			ins = append(ins, c12h.MutateFields("get", s, vc12Fields[3:], nil, []uint64{s.Nums[0] + 5})...)
			continue
		}
		ins = append(ins, c12h.Truncations("frombytes", s, []int{14, 22, 30, 38, 46, 50}, nil, nil)...)
		for n := 0; n < len(s.Data); n++ { // every cut point of a small file
			ins = append(ins, c12h.Input{Entry: "frombytes", Label: "truncate", Data: append([]byte(nil), s.Data[:n]...)})
		}
		for _, slot := range vc12Slots(s) {
			ins = append(ins, c12h.Input{Entry: "get", Label: "valid", Data: s.Data, Aux: []uint64{slot}})
			ins = append(ins, vc12SmallCap(c12h.MutateFields("get", s, vc12Fields, nil, []uint64{slot}))...)
		}
		ins = append(ins, vc12SmallCap(c12h.MutateFields("fromfile", s, vc12Fields, nil, nil))...)
		ins = append(ins, c12h.RandomMutations("frombytes", s, rng, nrand, 46, nil, nil)...)
		ins = append(ins, c12h.RandomMutations("get", s, rng, nrand/3, 46, nil, []uint64{s.Nums[0] + 1})...)
	}
	ins = append(ins, vc12Spans()...)
	ins = append(ins, c12h.Junk("frombytes", rng, 200, magic)...)
	return ins
}

// vc12SpanFile lays out a well-formed file (magic, start, end, the epoch of start, capacity, then exactly
// `capacity` values) without going through the writer: start, end and capacity are three independent fields.
func vc12SpanFile(start, end, capacity uint64) []byte {
	d := append([]byte(nil), magic...)
	for _, v := range []uint64{start, end, start / 432000, capacity} {
		for i := 0; i < 8; i++ {
			d = append(d, byte(v>>(8*uint(i))))
		}
	}
	for j := uint64(0); j < capacity; j++ {
		v := uint32(1_600_000_000 + j*3)
		d = append(d, byte(v), byte(v>>8), byte(v>>16), byte(v>>24))
	}
	return d
}

// vc12Spans: for several slot ranges start..end (end inclusive, as CalcEpochLimits gives it; one with end < start)
// the files whose value count is 0, 1, end-start-1, end-start, end-start+1 (what the range needs) and end-start+2,
// each through FromBytes and through Get for the slots start-1, start, start+1, end-1, end, end+1 and the slots of
// the last value and of the first missing one (start+capacity-1, start+capacity). All of them go into the case file.
func vc12Spans() []c12h.Input {
	const maxU = ^uint64(0)
	ranges := [][2]uint64{
		{432000 * 3, 432000*3 + 9},
		{0, 0},
		{0, 5},
		{432000*700 + 5, 432000*700 + 44},
		{432000*2 - 4, 432000*2 - 1}, // the last slots of an epoch: end+1 belongs to the next one
		{432000 + 90, 432000 + 80},   // end < start
		{maxU - 5, maxU},             // end+1 wraps around
	}
	var ins []c12h.Input
	for _, r := range ranges {
		start, end := r[0], r[1]
		d := end - start
		seenCap := map[uint64]bool{}
		for _, capa := range []uint64{0, 1, d - 1, d, d + 1, d + 2} {
			if capa > 80 || seenCap[capa] { // d-1 below zero, or end < start
				continue
			}
			seenCap[capa] = true
			data := vc12SpanFile(start, end, capa)
			ins = append(ins, c12h.Input{Entry: "frombytes", Label: "span", Data: data, Pin: true})
			seenSlot := map[uint64]bool{}
			for _, slot := range []uint64{start - 1, start, start + 1, end - 1, end, end + 1, start + capa - 1, start + capa} {
				if seenSlot[slot] {
					continue
				}
				seenSlot[slot] = true
				ins = append(ins, c12h.Input{Entry: "get", Label: "span", Data: data, Aux: []uint64{slot}, Pin: true})
			}
		}
	}
	return ins
}

// the huge capacities are exercised through FromBytes; the other entries keep the ones that load
func vc12SmallCap(ins []c12h.Input) []c12h.Input {
	out := ins[:0]
	for _, in := range ins {
		if len(in.Data) >= 46 && c12h.GetLE(in.Data, 38, 8) > 1<<16 {
			continue
		}
		out = append(out, in)
	}
	return out
}

func vc12Exec(in *c12h.Input) c12h.Obs {
	var idx *Index
	var err error
	if in.Entry == "fromfile" {
		p := filepath.Join(vh.OutDir(), "c12_blocktime", "run.idx")
		if werr := os.WriteFile(p, in.Data, 0o644); werr != nil {
			panic("VERIF-HARNESS-BUG " + werr.Error())
		}
		idx, err = FromFile(p)
	} else {
		idx, err = FromBytes(in.Data)
	}
	if err != nil {
		return c12h.Obs{Class: "error", Fine: "load-error"}
	}
	nums := []uint64{idx.start, idx.end, idx.epoch, idx.capacity}
	if in.Entry != "get" {
		_ = idx.Epoch()
		return c12h.Obs{Class: "ok", Nums: nums}
	}
	in.Pre = nums
	if _, err := idx.Get(in.Aux[0]); err != nil {
		return c12h.Obs{Class: "error", Fine: "get-error", Nums: nums}
	}
	return c12h.Obs{Class: "ok", Nums: nums}
}

func vc12Budget(in *c12h.Input) uint64 { return uint64(16*len(in.Data)) + 256<<10 }

func vc12Witnesses(seeds []c12h.Seed) map[string]c12h.Input {
	s := &seeds[0]
	for i := range seeds { // the probes below query start+5 of a table with at least 10 values
		if seeds[i].Nums[3] >= 10 && len(seeds[i].Data) < 100000 {
			s = &seeds[i]
			break
		}
	}
	mut := func(v uint64) []byte {
		d := append([]byte(nil), s.Data...)
		for i := 0; i < 8; i++ {
			d[38+i] = byte(v >> (8 * uint(i)))
		}
		return d
	}
	return map[string]c12h.Input{
		"g_bt_capacity": {Entry: "frombytes", Label: "witness", Data: mut(1 << 62)},
		"g_bt_readfull": {Entry: "frombytes", Label: "witness", Data: append([]byte(nil), s.Data[:len(s.Data)-2]...)}, // last value cut after 2 bytes
		"g_bt_get":      {Entry: "get", Label: "witness", Data: mut(3), Aux: []uint64{s.Nums[0] + 5}},
	}
}

func vc12CoqCase(in *c12h.Input, r *c12h.Result) (string, bool) {
	if len(in.Data) > 400 {
		return "", false
	}
	cls, ok := c12h.ClassN(r.Class)
	if !ok {
		return "", false
	}
	switch in.Entry {
	case "frombytes":
		n := []uint64{0, 0, 0, 0}
		if r.Class == "ok" {
			n = r.Nums
		}
		return fmt.Sprintf("CBt %s %s %s %s %s %s", vh.CoqBytes(in.Data), vh.CoqN(cls), vh.CoqN(n[0]), vh.CoqN(n[1]), vh.CoqN(n[2]), vh.CoqN(n[3])), true
	case "get":
		if len(r.Nums) != 4 {
			return "", false // the load failed: covered by the frombytes cases
		}
		n := r.Nums
		return fmt.Sprintf("CBtGet %s %s %s %s %s %s", vh.CoqN(n[0]), vh.CoqN(n[1]), vh.CoqN(n[2]), vh.CoqN(n[3]), vh.CoqN(in.Aux[0]), vh.CoqN(cls)), true
	}
	return "", false
}

func vc12Flags(flags map[string]bool) string {
	g := func(n string) string { return vh.CoqBool(flags[n]) }
	return fmt.Sprintf("(check_bt (mk_bt_guards %s %s %s))", g("g_bt_capacity"), g("g_bt_readfull"), g("g_bt_get"))
}

func vc12Part() *c12h.Part {
	return &c12h.Part{
		Name:  "blocktime",
		Rule:  "blocktimeindex.FromBytes / FromFile / Index.Get on mutated valid files: no panic, allocation <= 16*len+256KiB, no hang; outcome class and decoded fields = Coq model",
		Seeds: vc12Seeds, Gen: vc12Gen, Exec: vc12Exec, Budget: vc12Budget, Witnesses: vc12Witnesses,
		FlagOf: func(name string, r *c12h.Result, def bool) bool {
			if name == "g_bt_readfull" { // a file whose last value is cut: io.ReadFull reports it, a bare Read pads it with zeros
				return r.Class == "error"
			}
			return def
		},
		CoqImports: []string{"YF.C12_Check"}, CoqType: "bt_case", CoqChecker: vc12Flags, CoqCase: vc12CoqCase, MaxCoq: 500,
		Fuzz: vc12Fuzz,
	}
}

func TestVerif_C12(t *testing.T) { c12h.Run(t, vc12Part()) }

// native fuzz target (thorough tier; run by c12h.Run from an instrumented copy of the test binary)
func FuzzVerifC12(f *testing.F) { c12h.FuzzBody(f, vc12Part()) }

func vc12Fuzz(data []byte, sel uint64, seeds []c12h.Seed) *c12h.Input {
	if sel%2 == 0 {
		return &c12h.Input{Entry: "frombytes", Label: "fuzz", Data: data}
	}
	slot := sel / 2
	if len(data) >= 22 && sel%3 == 0 { // a slot near the start the file declares
		slot = c12h.GetLE(data, 14, 8) + (sel/6)%64
	}
	return &c12h.Input{Entry: "get", Label: "fuzz", Data: data, Aux: []uint64{slot}}
}
