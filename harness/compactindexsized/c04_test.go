package compactindexsized

// Verification harness for C04 (injected with `go test -overlay`; not part of the repository).
//
// Runs the REAL builder (NewBuilderSized / Metadata / Insert / Seal) and the REAL reader (Open / Lookup) on
// generated inputs, evaluates the property oracle directly on what they do, and writes two kinds of Coq cases
// for YF.C04_Check:
//   CRead  - a Go-sealed file with the pairs that went in and the Go reader's answers on other keys: the
//            Gallina reader (transcribed xxhash64 / EntryHash64 / BucketHash, header + metadata parser, eytzinger
//            search) must parse the same header, find every inserted key and agree on the other keys;
//   CBuild - an input with the outcome class of the Go builder (file / error / panic): must equal the class of
//            the repaired model builder.
// Oracle signatures (stable): lost-entry, wrong-value, header-mismatch, nondeterministic-seal, order-dependent,
// unexpected-build-error, duplicate-key-accepted, unsupported-value-size-panic, unsupported-value-size-corrupt,
// long-key-lost, builder-panic, reader-panic, lookup-error.
// Every verified file is also queried through the readers of c04r_test.go (signatures eof-with-full-read-not-served,
// section-reader-not-served, prefetch-not-served, read-error-masked, transient-read-error-poisons-reader).

import (
	"bytes"
	"context"
	"encoding/binary"
	"encoding/json"
	"fmt"
	"os"
	"strings"
	"testing"

	"github.com/rpcpool/yellowstone-faithful/indexmeta"
	"github.com/rpcpool/yellowstone-faithful/zzverif/vh"
)

type vc04KV struct {
	K, V []byte
	CoqK string // optional compact Coq term for K (long keys written by formula)
}

// vc04FormulaKey: byte x of the key is x*a+b; Coq: mk_key n a b
func vc04FormulaKey(n int, a, b byte) ([]byte, string) {
	k := make([]byte, n)
	for x := range k {
		k[x] = byte(x)*a + b
	}
	return k, fmt.Sprintf("(mk_key %d%%N %d%%N %d%%N)", n, a, b)
}

func vc04CoqKey(x vc04KV) string {
	if x.CoqK != "" {
		return x.CoqK
	}
	return vh.CoqBytes(x.K)
}

type vc04Meta struct{ K, V []byte }

type vc04Out struct {
	Class int    // 0 sealed, 1 error, 2 panic
	Stage string // new / insert / seal
	Msg   string
	File  []byte
}

func vc04Seed() uint64 {
	if p := vh.Replay(); p != "" {
		if b, err := os.ReadFile(p); err == nil {
			var r struct {
				Seed uint64 `json:"seed"`
			}
			if json.Unmarshal(b, &r) == nil && r.Seed != 0 {
				return r.Seed
			}
		}
	}
	return vh.Seed()
}

var vc04Dirs int

// vc04Build runs one complete build. A panic anywhere inside the implementation is an observation.
func vc04Build(items uint, vs uint, meta []vc04Meta, kvs []vc04KV) (out vc04Out) {
	vc04Dirs++
	dir, err := os.MkdirTemp(vh.OutDir(), "c04b-")
	if err != nil {
		panic("VERIF-HARNESS-BUG: " + err.Error())
	}
	defer os.RemoveAll(dir)
	out.Stage = "new"
	defer func() {
		if r := recover(); r != nil {
			out.Class, out.Msg, out.File = 2, fmt.Sprint(r), nil
		}
	}()
	if err := os.MkdirAll(dir+"/tmp", 0o755); err != nil {
		panic("VERIF-HARNESS-BUG: " + err.Error())
	}
	b, err := NewBuilderSized(dir+"/tmp", items, vs)
	if err != nil {
		return vc04Out{Class: 1, Stage: "new", Msg: err.Error()}
	}
	defer b.Close()
	for _, m := range meta {
		b.Header.Metadata.KeyVals = append(b.Header.Metadata.KeyVals, indexmeta.KV{Key: m.K, Value: m.V})
	}
	out.Stage = "insert"
	for _, x := range kvs {
		if err := b.Insert(x.K, x.V); err != nil {
			return vc04Out{Class: 1, Stage: "insert", Msg: err.Error()}
		}
	}
	out.Stage = "seal"
	f, err := os.Create(dir + "/index")
	if err != nil {
		panic("VERIF-HARNESS-BUG: " + err.Error())
	}
	defer f.Close()
	if err := b.Seal(context.Background(), f); err != nil {
		return vc04Out{Class: 1, Stage: "seal", Msg: err.Error()}
	}
	data, err := os.ReadFile(dir + "/index")
	if err != nil {
		panic("VERIF-HARNESS-BUG: " + err.Error())
	}
	return vc04Out{Class: 0, Stage: "seal", File: data}
}

// vc04Lookup: 0 found, 1 not found, 2 other error, 3 panic
func vc04Lookup(db *DB, k []byte) (v []byte, st int, msg string) {
	defer func() {
		if r := recover(); r != nil {
			v, st, msg = nil, 3, fmt.Sprint(r)
		}
	}()
	got, err := db.Lookup(k)
	if err == nil {
		return got, 0, ""
	}
	if IsNotFound(err) {
		return nil, 1, ""
	}
	return nil, 2, err.Error()
}

func vc04Open(file []byte) (db *DB, msg string) {
	defer func() {
		if r := recover(); r != nil {
			db, msg = nil, "panic: "+fmt.Sprint(r)
		}
	}()
	d, err := Open(bytes.NewReader(file))
	if err != nil {
		return nil, err.Error()
	}
	return d, ""
}

func vc04Short(b []byte) string {
	if len(b) <= 24 {
		return vh.Hex(b)
	}
	return fmt.Sprintf("%s..(%d bytes)", vh.Hex(b[:16]), len(b))
}

type vc04Input struct {
	Items     uint     `json:"declared_items"`
	ValueSize uint     `json:"value_size"`
	NKeys     int      `json:"keys"`
	KeyLens   []int    `json:"key_lengths,omitempty"`
	Keys      []string `json:"keys_hex,omitempty"`
	Meta      int      `json:"metadata_pairs"`
	Note      string   `json:"note,omitempty"`
}

func vc04Describe(items, vs uint, meta []vc04Meta, kvs []vc04KV, note string) vc04Input {
	in := vc04Input{Items: items, ValueSize: vs, NKeys: len(kvs), Meta: len(meta), Note: note}
	for i, x := range kvs {
		if i < 12 {
			in.KeyLens = append(in.KeyLens, len(x.K))
			in.Keys = append(in.Keys, vc04Short(x.K))
		}
	}
	return in
}

func vc04NumBuckets(items uint) uint {
	return (items + targetEntriesPerBucket - 1) / targetEntriesPerBucket
}

// vc04Verify: the oracle on a sealed file. Returns the opened DB (nil when Open failed).
func vc04Verify(rep *vh.Report, file []byte, items, vs uint, meta []vc04Meta, kvs []vc04KV, note string) *DB {
	db, msg := vc04Open(file)
	if db == nil {
		rep.Fail("header-mismatch", "Open of a freshly sealed index failed: "+msg, vc04Describe(items, vs, meta, kvs, note))
		return nil
	}
	if db.Header.ValueSize != uint64(vs) {
		rep.Fail("header-mismatch", fmt.Sprintf("header says valueSize=%d, built with valueSize=%d", db.Header.ValueSize, vs), vc04Describe(items, vs, meta, kvs, note))
	}
	if uint(db.Header.NumBuckets) != vc04NumBuckets(items) { // information: the property does not fix the bucket count
		rep.Count("bucket-count-differs-from-ceil(declared/targetEntriesPerBucket)")
	}
	got := db.Header.Metadata.KeyVals
	okm := len(got) == len(meta)
	for i := 0; okm && i < len(meta); i++ {
		okm = bytes.Equal(got[i].Key, meta[i].K) && bytes.Equal(got[i].Value, meta[i].V)
	}
	if !okm {
		rep.Fail("header-mismatch", fmt.Sprintf("metadata read back differs: wrote %d pairs, read %d", len(meta), len(got)), vc04Describe(items, vs, meta, kvs, note))
	}
	for _, x := range kvs {
		v, st, m := vc04Lookup(db, x.K)
		switch {
		case st == 0 && bytes.Equal(v, x.V):
		case st == 0:
			rep.Fail("wrong-value", fmt.Sprintf("key %s: got %s want %s", vc04Short(x.K), vc04Short(v), vc04Short(x.V)), vc04Describe(items, vs, meta, kvs, note))
		case st == 1:
			rep.Fail("lost-entry", fmt.Sprintf("inserted key %s (len %d) is not found", vc04Short(x.K), len(x.K)), vc04Describe(items, vs, meta, kvs, note))
		case st == 2:
			rep.Fail("lookup-error", fmt.Sprintf("key %s: %s", vc04Short(x.K), m), vc04Describe(items, vs, meta, kvs, note))
		default:
			rep.Fail("reader-panic", fmt.Sprintf("key %s: %s", vc04Short(x.K), m), vc04Describe(items, vs, meta, kvs, note))
		}
	}
	// the same keys through the other conforming readers (c04r_test.go): EOF together with a full read at the end of
	// the data, a section reader at an offset, Prefetch(true), one transient read error at every position of the trace
	rkvs := make([]vc04rKV, len(kvs))
	for i, x := range kvs {
		rkvs[i] = vc04rKV{x.K, x.V}
	}
	vc04rCheckReaders(rep, vc04Seed(), file, rkvs, vc04raOpen, vc04Describe(items, vs, meta, kvs, note))
	return db
}

func vc04MaxLoad(items uint, kvs []vc04KV) int {
	h := Header{NumBuckets: uint32(vc04NumBuckets(items))}
	load := map[uint]int{}
	mx := 0
	for _, x := range kvs {
		b := h.BucketHash(x.K)
		load[b]++
		if load[b] > mx {
			mx = load[b]
		}
	}
	return mx
}

func vc04HasDup(kvs []vc04KV) bool {
	seen := map[string]bool{}
	for _, x := range kvs {
		if seen[string(x.K)] {
			return true
		}
		seen[string(x.K)] = true
	}
	return false
}

// ---------------------------------------------------------------- Coq terms
func vc04CoqKVs(kvs []vc04KV) string {
	items := make([]string, len(kvs))
	for i, x := range kvs {
		items[i] = "(" + vc04CoqKey(x) + ", " + vh.CoqBytes(x.V) + ")"
	}
	if len(items) == 0 {
		return "([] : list (list N * list N))"
	}
	return "[" + strings.Join(items, "; ") + "]"
}

func vc04CoqMeta(meta []vc04Meta) string {
	items := make([]string, len(meta))
	for i, x := range meta {
		items[i] = "(" + vh.CoqBytes(x.K) + ", " + vh.CoqBytes(x.V) + ")"
	}
	if len(items) == 0 {
		return "([] : list (list N * list N))"
	}
	return "[" + strings.Join(items, "; ") + "]"
}

type vc04Absent struct {
	K     []byte
	V     []byte
	Found bool
}

func vc04CoqRead(file []byte, vs, nb uint, meta []vc04Meta, kvs []vc04KV, absent []vc04Absent) string {
	abs := make([]string, len(absent))
	for i, a := range absent {
		abs[i] = "(" + vh.CoqBytes(a.K) + ", " + vh.CoqOpt(vh.CoqBytes(a.V), a.Found) + ")"
	}
	al := "([] : list (list N * option (list N)))"
	if len(abs) > 0 {
		al = "[" + strings.Join(abs, "; ") + "]"
	}
	return fmt.Sprintf("CRead FSized %s %s %s %s %s %s", vh.CoqBytes(file), vh.CoqN(uint64(vs)), vh.CoqN(uint64(nb)),
		vc04CoqMeta(meta), vc04CoqKVs(kvs), al)
}

func vc04CoqBuild(items, vs uint, meta []vc04Meta, kvs []vc04KV, class int) string {
	return fmt.Sprintf("CBuild FSized %s %s %s %s %s", vh.CoqN(uint64(items)), vh.CoqN(uint64(vs)), vc04CoqMeta(meta), vc04CoqKVs(kvs), vh.CoqN(uint64(class)))
}

// ---------------------------------------------------------------- generators
func vc04KeyLen(rng *vh.Rng) int {
	switch rng.Intn(12) {
	case 0:
		return rng.Intn(4) // 0..3
	case 1:
		return rng.Pick(31, 32, 33, 63, 64, 65)
	case 2:
		return rng.Range(100, 300)
	default:
		return rng.Range(1, 48)
	}
}

// vc04Keys: n distinct keys; the index i is mixed in so that equal lengths do not collide
func vc04Keys(rng *vh.Rng, n int, lenf func(*vh.Rng) int, vs uint) []vc04KV {
	seen := map[string]bool{}
	out := make([]vc04KV, 0, n)
	for len(out) < n {
		k := rng.Bytes(lenf(rng))
		if seen[string(k)] {
			if len(k) < 3 { // small key space: grow
				k = append(k, rng.Bytes(2)...)
			} else {
				continue
			}
			if seen[string(k)] {
				continue
			}
		}
		seen[string(k)] = true
		out = append(out, vc04KV{K: k, V: rng.Bytes(int(vs))})
	}
	return out
}

func vc04MetaShape(rng *vh.Rng, shape int) []vc04Meta {
	switch shape % 7 {
	case 0:
		return nil
	case 1:
		return []vc04Meta{{indexmeta.MetadataKey_Kind, []byte("verif-kind")}}
	case 2: // empty key and empty value
		return []vc04Meta{{[]byte{}, []byte{}}, {[]byte("k"), []byte{}}, {[]byte{}, []byte("v")}}
	case 3: // maximal key/value sizes
		return []vc04Meta{{rng.Bytes(255), rng.Bytes(255)}}
	case 4: // duplicate metadata keys
		return []vc04Meta{{[]byte("dup"), []byte("1")}, {[]byte("dup"), []byte("2")}, {indexmeta.MetadataKey_Kind, []byte("x")}}
	case 5: // many pairs
		n := rng.Pick(17, 100, 254, 255)
		m := make([]vc04Meta, n)
		for i := range m {
			m[i] = vc04Meta{[]byte(fmt.Sprintf("key-%d", i)), rng.Bytes(rng.Intn(9))}
		}
		return m
	default:
		m := make([]vc04Meta, rng.Range(1, 4))
		for i := range m {
			m[i] = vc04Meta{rng.Bytes(rng.Intn(20)), rng.Bytes(rng.Intn(40))}
		}
		return m
	}
}

func vc04Perms(n int) [][]int {
	var res [][]int
	var rec func(cur []int, used uint)
	rec = func(cur []int, used uint) {
		if len(cur) == n {
			res = append(res, append([]int(nil), cur...))
			return
		}
		for i := 0; i < n; i++ {
			if used&(1<<uint(i)) == 0 {
				rec(append(cur, i), used|1<<uint(i))
			}
		}
	}
	rec(nil, 0)
	return res
}

func vc04Permute(kvs []vc04KV, p []int) []vc04KV {
	out := make([]vc04KV, len(kvs))
	for i, j := range p {
		out[i] = kvs[j]
	}
	return out
}

// absent keys with the Go reader's answers (found values are possible: 24-bit false positives)
func vc04AbsentAnswers(rep *vh.Report, db *DB, rng *vh.Rng, kvs []vc04KV, n int) []vc04Absent {
	present := map[string]bool{}
	for _, x := range kvs {
		present[string(x.K)] = true
	}
	var out []vc04Absent
	for len(out) < n {
		var k []byte
		if len(kvs) > 0 && rng.Intn(3) == 0 { // neighbour of a present key
			k = append([]byte(nil), kvs[rng.Intn(len(kvs))].K...)
			if len(k) == 0 || rng.Bool() {
				k = append(k, byte(rng.Intn(256)))
			} else {
				k[rng.Intn(len(k))] ^= byte(1 << uint(rng.Intn(8)))
			}
		} else {
			k = rng.Bytes(vc04KeyLen(rng))
		}
		if present[string(k)] {
			continue
		}
		v, st, msg := vc04Lookup(db, k)
		if st >= 2 {
			rep.Fail(map[int]string{2: "lookup-error", 3: "reader-panic"}[st], fmt.Sprintf("absent key %s: %s", vc04Short(k), msg), nil)
			continue
		}
		out = append(out, vc04Absent{k, v, st == 0})
		if st == 0 {
			rep.Count("absent-key-false-positive")
		} else {
			rep.Count("absent-key-not-found")
		}
	}
	return out
}

// ---------------------------------------------------------------- the test
func TestVerif_C04(t *testing.T) {
	seed := vc04Seed()
	rng := vh.NewRng(seed)
	thorough := vh.Thorough()
	rep := vh.NewReport("C04", "sized",
		"random + directed key sets through the real NewBuilderSized/Insert/Seal/Open/Lookup; oracle: every inserted key returns its value, header/metadata read back, seal twice byte-identical, all insertion orders byte-identical, unsupported/duplicate/over-full input gives an error; a case is non-trivial when it has >= 2 keys; distinct by (declared, value size, key bytes)")
	cases := vh.NewCases("cases_c04_sized", []string{"YF.C04_Check"}, "case", "check")
	caseKey := func(items, vs uint, kvs []vc04KV) string {
		var sb strings.Builder
		fmt.Fprintf(&sb, "%d/%d/%d/", items, vs, len(kvs))
		for i, x := range kvs {
			if i < 4 {
				sb.WriteString(vh.Hex(x.K))
				sb.WriteByte('/')
			}
		}
		return sb.String()
	}

	// ------------------------------------------------ A. model-evaluated random key sets (cross-read)
	nSets := 25
	if thorough {
		nSets = 120
	}
	vsChoices := []int{1, 2, 5, 8, 8, 9, 36, 36, 48, 100, 252}
	for s := 0; s < nSets; s++ {
		n := rng.Range(5, 40)
		if s < 4 {
			n = s + 1 // 1..4 keys: tiny eytzinger trees
		}
		vs := uint(rng.Pick(vsChoices...))
		var items uint
		switch rng.Intn(8) {
		case 0:
			items = 1
		case 1:
			items = 9999
		case 2:
			items = 10000
		case 3:
			items = 10001
		case 4:
			items = 20001
		case 5:
			items = uint(n * 10)
		case 6:
			items = uint(rng.Range(20002, 90000))
		default:
			items = uint(n)
		}
		meta := vc04MetaShape(rng, s)
		if len(meta) > 20 && !thorough && s%2 == 0 {
			meta = meta[:20]
		}
		kvs := vc04Keys(rng, n, vc04KeyLen, vs)
		if thorough && s == 7 { // one very long key inside a model-evaluated set (costs ~20 s of Coq hashing)
			kvs[0].K, kvs[0].CoqK = vc04FormulaKey(65535, byte(rng.Range(1, 255)), byte(rng.Intn(256)))
		}
		note := fmt.Sprintf("random set #%d", s)
		out := vc04Build(items, vs, meta, kvs)
		rep.Case(caseKey(items, vs, kvs), n >= 2)
		rep.Count(fmt.Sprintf("model-set buckets=%d", vc04NumBuckets(items)))
		rep.Count(fmt.Sprintf("model-set valuesize=%d", vs))
		if out.Class != 0 {
			sig := "unexpected-build-error"
			if out.Class == 2 {
				sig = "builder-panic"
			}
			rep.Fail(sig, fmt.Sprintf("supported distinct key set: %s at %s: %s", []string{"ok", "error", "panic"}[out.Class], out.Stage, out.Msg), vc04Describe(items, vs, meta, kvs, note))
			cases.Add(vc04CoqBuild(items, vs, meta, kvs, out.Class))
			continue
		}
		db := vc04Verify(rep, out.File, items, vs, meta, kvs, note)
		out2 := vc04Build(items, vs, meta, kvs)
		if out2.Class != 0 || !bytes.Equal(out.File, out2.File) {
			rep.Fail("nondeterministic-seal", "sealing the same inserts twice gave different bytes", vc04Describe(items, vs, meta, kvs, note))
		}
		p := rng.Perm(n)
		out3 := vc04Build(items, vs, meta, vc04Permute(kvs, p))
		if out3.Class != 0 || !bytes.Equal(out.File, out3.File) {
			rep.Fail("order-dependent", "a permutation of the inserts gave different bytes", vc04Describe(items, vs, meta, kvs, note))
		}
		if db != nil {
			absent := vc04AbsentAnswers(rep, db, rng, kvs, 8)
			cases.Add(vc04CoqRead(out.File, vs, uint(db.Header.NumBuckets), meta, kvs, absent))
			if s%5 == 0 { // also tie the builder's outcome class for a supported set
				cases.Add(vc04CoqBuild(items, vs, nil, kvs[:vc04Min(len(kvs), 8)], vc04Build(items, vs, nil, kvs[:vc04Min(len(kvs), 8)]).Class))
			}
			if s < 6 {
				rep.Sample(map[string]interface{}{"declared": items, "value_size": vs, "keys": n, "buckets": vc04NumBuckets(items), "metadata_pairs": len(meta), "file_bytes": len(out.File)})
			}
		}
	}

	// ------------------------------------------------ B. large key sets, Go oracle only
	sizes := []int{1, 2, 3, 7, 100, 2000, 12000}
	if thorough {
		sizes = append(sizes, 25000, 60000)
	}
	for i, n := range sizes {
		vs := uint(rng.Pick(1, 8, 36, 48, 252))
		items := uint(n)
		if i%3 == 1 {
			items = uint(n) * uint(rng.Range(2, 10)) // declared up to 10x the real count
		}
		if n == 12000 {
			items = uint(n / 3) // under-declared: one bucket holding 12000 keys
		}
		kvs := vc04Keys(rng, n, vc04KeyLen, vs)
		meta := vc04MetaShape(rng, i+1)
		note := fmt.Sprintf("large set of %d keys", n)
		out := vc04Build(items, vs, meta, kvs)
		rep.Case(caseKey(items, vs, kvs), n >= 2)
		rep.Count(fmt.Sprintf("large-set keys=%d", n))
		if out.Class == 2 {
			rep.Fail("builder-panic", out.Msg, vc04Describe(items, vs, meta, kvs, note))
			continue
		}
		if out.Class == 1 {
			if load := vc04MaxLoad(items, kvs); load <= 14000 {
				rep.Fail("unexpected-build-error", fmt.Sprintf("supported distinct keys, fullest bucket %d: %s", load, out.Msg), vc04Describe(items, vs, meta, kvs, note))
			} else {
				rep.Count("overfull-error (expected)")
			}
			continue
		}
		vc04Verify(rep, out.File, items, vs, meta, kvs, note)
		out2 := vc04Build(items, vs, meta, kvs)
		if out2.Class != 0 || !bytes.Equal(out.File, out2.File) {
			rep.Fail("nondeterministic-seal", "sealing the same inserts twice gave different bytes", vc04Describe(items, vs, meta, kvs, note))
		}
		if n <= 12000 || thorough {
			out3 := vc04Build(items, vs, meta, vc04Permute(kvs, rng.Perm(n)))
			if out3.Class != 0 || !bytes.Equal(out.File, out3.File) {
				rep.Fail("order-dependent", "a random permutation of the inserts gave different bytes", vc04Describe(items, vs, meta, kvs, note))
			}
		}
	}

	// ------------------------------------------------ C. every insertion order of small sets
	for _, cfg := range []struct {
		n     int
		items uint
	}{{2, 1}, {3, 20001}, {4, 10001}, {5, 3}, {6, 20001}} {
		if cfg.n == 6 && !thorough && false {
			continue
		}
		vs := uint(rng.Pick(1, 8, 36))
		kvs := vc04Keys(rng, cfg.n, vc04KeyLen, vs)
		ref := vc04Build(cfg.items, vs, nil, kvs)
		rep.Case(caseKey(cfg.items, vs, kvs), true)
		if ref.Class != 0 {
			rep.Fail("unexpected-build-error", ref.Msg, vc04Describe(cfg.items, vs, nil, kvs, "all orders"))
			continue
		}
		bad := 0
		for _, p := range vc04Perms(cfg.n) {
			o := vc04Build(cfg.items, vs, nil, vc04Permute(kvs, p))
			rep.Count("insertion-orders-tried")
			if o.Class != 0 || !bytes.Equal(o.File, ref.File) {
				bad++
				if bad == 1 {
					rep.Fail("order-dependent", fmt.Sprintf("insertion order %v gave different bytes (or failed) for %d keys", p, cfg.n), vc04Describe(cfg.items, vs, nil, kvs, "all orders"))
				}
			}
		}
	}

	// ------------------------------------------------ D. key lengths 0..65535 together, then over-long keys
	{
		vs := uint(8)
		var kvs []vc04KV
		for _, l := range []int{0, 1, 2, 3, 4, 5, 7, 8, 9, 31, 32, 33, 255, 256, 4095, 65534, 65535, 65535} {
			k := rng.Bytes(l)
			kvs = append(kvs, vc04KV{K: k, V: rng.Bytes(int(vs))})
		}
		out := vc04Build(uint(len(kvs)), vs, nil, kvs)
		rep.Case("keylens-0..65535", true)
		rep.Count("key-length-boundary-set")
		if out.Class != 0 {
			rep.Fail(map[int]string{1: "unexpected-build-error", 2: "builder-panic"}[out.Class], out.Msg, vc04Describe(uint(len(kvs)), vs, nil, kvs, "key lengths 0..65535"))
		} else {
			vc04Verify(rep, out.File, uint(len(kvs)), vs, nil, kvs, "key lengths 0..65535")
		}
	}
	longShapes := [][]int{{65536}, {65536, 10}, {10, 65537, 12}, {70000}, {131072, 5}, {65536, 65536 + 1, 7}}
	for i, lens := range longShapes {
		vs := uint(8)
		var kvs []vc04KV
		for j, l := range lens {
			k, ck := vc04FormulaKey(l, 7, byte(j+i))
			v := make([]byte, vs)
			v[0] = byte(40 + j)
			kvs = append(kvs, vc04KV{k, v, ck})
		}
		out := vc04Build(uint(len(kvs)), vs, nil, kvs)
		rep.Case(fmt.Sprint("longkey", lens), true)
		rep.Count("over-long-key-input")
		in := vc04Input{Items: uint(len(kvs)), ValueSize: vs, NKeys: len(kvs), KeyLens: lens, Note: "key longer than 65535 bytes; key byte x of key j is x*7+j+" + fmt.Sprint(i)}
		switch out.Class {
		case 1:
			rep.Count("over-long-key rejected with an error")
		case 2:
			rep.Fail("builder-panic", out.Msg, in)
		default:
			// no error: then the index must honour every insert
			db, msg := vc04Open(out.File)
			if db == nil {
				rep.Fail("long-key-lost", "index built from an over-long key cannot be opened: "+msg, in)
				break
			}
			var lost []string
			for j, x := range kvs {
				v, st, _ := vc04Lookup(db, x.K)
				if st != 0 || !bytes.Equal(v, x.V) {
					lost = append(lost, fmt.Sprintf("key#%d(len %d): %s", j, len(x.K), []string{"wrong value", "not found", "error", "panic"}[st]))
				}
			}
			if len(lost) > 0 {
				rep.Fail("long-key-lost", fmt.Sprintf("Insert and Seal returned no error for key lengths %v, but: %s", lens, strings.Join(lost, "; ")), in)
			}
		}
		if i == 0 { // one model-evaluated case: the repaired builder refuses
			cases.Add(vc04CoqBuild(uint(len(kvs)), vs, nil, kvs, out.Class))
		}
	}

	// ------------------------------------------------ E. value sizes
	for _, vs := range []uint{1, 8, 9, 36, 48, 252, 253, 254, 255, 256, 0, 1000} {
		n := 3
		kvs := make([]vc04KV, n)
		for i := range kvs {
			kvs[i] = vc04KV{K: []byte{byte(i), byte(vs), 7}, V: rng.Bytes(int(vs))}
		}
		out := vc04Build(uint(n), vs, nil, kvs)
		rep.Case(fmt.Sprint("valuesize", vs), true)
		rep.Count(fmt.Sprintf("value-size=%d -> %s", vs, []string{"file", "error", "panic"}[out.Class]))
		in := vc04Describe(uint(n), vs, nil, kvs, "value size sweep")
		supported := vs >= 1 && vs <= 252
		switch {
		case out.Class == 2:
			sig := "builder-panic"
			if !supported {
				sig = "unsupported-value-size-panic"
			}
			rep.Fail(sig, fmt.Sprintf("value size %d: NewBuilderSized accepted it, then %s panicked: %s", vs, out.Stage, out.Msg), in)
		case out.Class == 1 && supported:
			rep.Fail("unexpected-build-error", fmt.Sprintf("value size %d: %s", vs, out.Msg), in)
		case out.Class == 0:
			// whatever the size: a file without an error must honour every insert
			before := len(rep.Failures)
			vc04Verify(rep, out.File, uint(n), vs, nil, kvs, "value size sweep")
			if !supported && len(rep.Failures) > before {
				rep.Fail("unsupported-value-size-corrupt", fmt.Sprintf("value size %d produced an index that loses entries", vs), in)
			}
		}
		cases.Add(vc04CoqBuild(uint(n), vs, nil, kvs, out.Class))
	}
	// numItems = 0
	{
		out := vc04Build(0, 8, nil, nil)
		rep.Count(fmt.Sprintf("declared=0 -> %s", []string{"file", "error", "panic"}[out.Class]))
		if out.Class == 2 {
			rep.Fail("builder-panic", "declared count 0: "+out.Msg, nil)
		}
		cases.Add(vc04CoqBuild(0, 8, nil, nil, out.Class))
	}

	// ------------------------------------------------ F. duplicate keys must fail
	for i := 0; i < 6; i++ {
		vs := uint(rng.Pick(1, 8, 36))
		n := rng.Range(2, 30)
		items := uint(rng.Pick(1, n, 20001))
		kvs := vc04Keys(rng, n, vc04KeyLen, vs)
		a, b := rng.Intn(n), rng.Intn(n)
		if a == b {
			b = (a + 1) % n
		}
		kvs[b].K = append([]byte(nil), kvs[a].K...)
		if i%2 == 0 {
			kvs[b].V = append([]byte(nil), kvs[a].V...) // same value too
		}
		out := vc04Build(items, vs, nil, kvs)
		rep.Case(caseKey(items, vs, kvs)+"dup", true)
		rep.Count(fmt.Sprintf("duplicate-key -> %s", []string{"file", "error", "panic"}[out.Class]))
		in := vc04Describe(items, vs, nil, kvs, fmt.Sprintf("keys #%d and #%d are equal", a, b))
		if out.Class == 0 {
			rep.Fail("duplicate-key-accepted", "a key inserted twice did not make the build fail", in)
		} else if out.Class == 2 {
			rep.Fail("builder-panic", out.Msg, in)
		}
		if i < 3 && n <= 12 || i == 0 {
			cases.Add(vc04CoqBuild(items, vs, nil, kvs, out.Class))
		}
	}

	// ------------------------------------------------ G. adversarial keys: same bucket, colliding 24-bit hashes
	{
		// search keys whose 24-bit entry hash collides under domains 0,1,2,3 (with the index's own hash)
		pairs := [][2][]byte{}
		for d := uint32(0); d < 4; d++ {
			seen := map[uint64][]byte{}
			for tries := 0; tries < 200000; tries++ {
				k := binary.LittleEndian.AppendUint64([]byte{byte(d), 'a', 'd', 'v'}, rng.U64())
				h := EntryHash64(d, k) & 0xffffff
				if o, ok := seen[h]; ok && !bytes.Equal(o, k) {
					pairs = append(pairs, [2][]byte{o, k})
					break
				}
				seen[h] = k
			}
		}
		rep.Count(fmt.Sprintf("colliding-pairs-found=%d", len(pairs)))
		vs := uint(8)
		var kvs []vc04KV
		for _, p := range pairs {
			kvs = append(kvs, vc04KV{K: p[0], V: rng.Bytes(8)}, vc04KV{K: p[1], V: rng.Bytes(8)})
		}
		kvs = append(kvs, vc04Keys(rng, 20, vc04KeyLen, vs)...)
		if !vc04HasDup(kvs) {
			out := vc04Build(1, vs, nil, kvs)
			rep.Case("adversarial-collisions", true)
			if out.Class != 0 {
				rep.Fail(map[int]string{1: "unexpected-build-error", 2: "builder-panic"}[out.Class], "keys colliding under domains 0..3: "+out.Msg, vc04Describe(1, vs, nil, kvs, "adversarial"))
			} else {
				db := vc04Verify(rep, out.File, 1, vs, nil, kvs, "adversarial: 24-bit collisions under domains 0..3")
				if db != nil {
					if bk, err := db.GetBucket(0); err == nil {
						rep.Count(fmt.Sprintf("adversarial-mined-domain=%d", bk.HashDomain))
					}
					// lookups of keys that share a stored key's 24-bit hash under the mined domain: the answer of
					// the Go reader (a false positive is allowed) goes into the cross-read case
					absent := vc04AbsentAnswers(rep, db, rng, kvs, 6)
					// a deliberate false positive: an absent key with the 24-bit hash of a stored key under the
					// mined domain (same single bucket): both readers must return that stored key's value
					if bk, err := db.GetBucket(0); err == nil {
						stored := map[uint64]bool{}
						for _, x := range kvs {
							stored[bk.Hash(x.K)] = true
						}
						for tries := 0; tries < 4000000; tries++ {
							k := binary.LittleEndian.AppendUint64([]byte{'f', 'p'}, rng.U64())
							if stored[bk.Hash(k)] {
								v, st, _ := vc04Lookup(db, k)
								absent = append(absent, vc04Absent{k, v, st == 0})
								if st == 0 {
									rep.Count("crafted-false-positive-returned-a-stored-value")
								}
								break
							}
						}
					}
					cases.Add(vc04CoqRead(out.File, vs, uint(db.Header.NumBuckets), nil, kvs, absent))
				}
			}
		}
		// over-full bucket: declare 1 item, insert far more keys than a 24-bit perfect hash can separate
		big := vc04Keys(rng, 40000, func(r *vh.Rng) int { return 12 }, 1)
		out := vc04Build(1, 1, nil, big)
		rep.Case("overfull-40000-in-1-bucket", true)
		rep.Count(fmt.Sprintf("overfull-bucket -> %s", []string{"file", "error", "panic"}[out.Class]))
		if out.Class == 2 {
			rep.Fail("builder-panic", out.Msg, vc04Describe(1, 1, nil, big, "over-full bucket"))
		} else if out.Class == 0 {
			vc04Verify(rep, out.File, 1, 1, nil, big, "over-full bucket that was nevertheless sealed")
		}
	}

	rep.Flag("builds_run", vc04Dirs)
	rep.Flag("seed", seed)
	if err := cases.Write(); err != nil {
		t.Fatal(err)
	}
	rep.CasesWritten(cases)
	if err := rep.Write(); err != nil {
		t.Fatal(err)
	}
}

func vc04Min(a, b int) int {
	if a < b {
		return a
	}
	return b
}
