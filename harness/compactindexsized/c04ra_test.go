package compactindexsized

// C04 harness: the compactindexsized adapters for the format-independent checks of c04r_test.go
// (injected with `go test -overlay`; not part of the repository).

import (
	"context"
	"fmt"
	"io"
	"os"

	"github.com/rpcpool/yellowstone-faithful/zzverif/vh"
)

// vc04raOpen: Open + Lookup of the real reader on any io.ReaderAt; panics are observations.
func vc04raOpen(rd io.ReaderAt, prefetch bool) (look vc04rLook, msg string) {
	defer func() {
		if r := recover(); r != nil {
			look, msg = nil, "panic: "+fmt.Sprint(r)
		}
	}()
	db, err := Open(rd)
	if err != nil {
		return nil, "error: " + err.Error()
	}
	db.Prefetch(prefetch)
	return func(k []byte) (v []byte, st int, m string) {
		defer func() {
			if r := recover(); r != nil {
				v, st, m = nil, 3, fmt.Sprint(r)
			}
		}()
		got, err := db.Lookup(k)
		if err == nil {
			return got, 0, ""
		}
		if IsNotFound(err) {
			return nil, 1, ""
		}
		return nil, 2, err.Error()
	}, ""
}

// vc04raBuild: one complete build with the real builder for value size vs.
func vc04raBuild(vs uint) vc04rBuild {
	return func(items uint, kvs []vc04rKV, beforeSeal func()) (file []byte, msg string) {
		dir, err := os.MkdirTemp(vh.OutDir(), "c04r-")
		if err != nil {
			panic("VERIF-HARNESS-BUG: " + err.Error())
		}
		defer os.RemoveAll(dir)
		if err := os.MkdirAll(dir+"/tmp", 0o755); err != nil {
			panic("VERIF-HARNESS-BUG: " + err.Error())
		}
		defer func() {
			if r := recover(); r != nil {
				file, msg = nil, "panic: "+fmt.Sprint(r)
			}
		}()
		b, err := NewBuilderSized(dir+"/tmp", items, vs)
		if err != nil {
			return nil, "NewBuilderSized: " + err.Error()
		}
		defer b.Close()
		for _, x := range kvs {
			if err := b.Insert(x.K, x.V); err != nil {
				return nil, "Insert: " + err.Error()
			}
		}
		f, err := os.Create(dir + "/index")
		if err != nil {
			panic("VERIF-HARNESS-BUG: " + err.Error())
		}
		defer f.Close()
		if beforeSeal != nil {
			beforeSeal()
		}
		if err := b.Seal(context.Background(), f); err != nil {
			return nil, "Seal: " + err.Error()
		}
		data, err := os.ReadFile(dir + "/index")
		if err != nil {
			panic("VERIF-HARNESS-BUG: " + err.Error())
		}
		return data, ""
	}
}

func vc04raAdapter(vs uint) vc04rAdapter {
	return vc04rAdapter{
		Name:   fmt.Sprintf("compactindexsized/valuesize=%d", vs),
		Target: targetEntriesPerBucket,
		Build:  vc04raBuild(vs),
		Open:   vc04raOpen,
		BucketOf: func(nb uint, k []byte) uint {
			h := Header{NumBuckets: uint32(nb)}
			return h.BucketHash(k)
		},
		GenValue: func(rng *vh.Rng) []byte { return rng.Bytes(int(vs)) },
	}
}
