package compactindexsized

// Additional C04 harness: seal determinism under every GOMAXPROCS and builders sealing at the same time
// (injected with `go test -overlay` together with c04r_test.go and c04ra_test.go; not part of the repository).
//
//  (b) "sealing the same inserts twice yields byte-identical files": the same inserts are sealed 5..7 times under each of
//      GOMAXPROCS 1, 2, 3, 16 (the last time in another insertion order) for declared counts that give 1, 2, 3, 8 and
//      12..14 buckets (small real key sets, bucket loads from empty to heavy), with two value sizes.
//  (c) "a sealed index returns for every inserted key exactly the value inserted with it" does not depend on what else the
//      process is doing: 4 builders (value sizes 9/36/36/8 as `index all` uses them side by side; 25 000..30 000 keys each,
//      declared = real count, i.e. ~10 000 entries per bucket) are first built alone, then 3 times all at once under
//      GOMAXPROCS 16 and 2; every file must equal the one built alone (whose keys are all looked up, through every reader
//      of check (a)).
//  (d) "for any set of distinct keys (each at most 65 535 bytes) ... independently of insertion order, of the declared item
//      count": single-bucket key sets whose temporary key/value stream is several MiB (3000+ keys of 1000 bytes, 2200+ keys
//      of 500..4000 bytes, 100+ keys of 30 000..65 535 bytes, 12 000 keys of 150..260 bytes and 100 000 short keys with a
//      declared count of 1), each built in three insertion orders: all builds fail with an error or all give the same bytes
//      with every key found with its value (vc04rBigSpill, two value sizes; the 100 000-key set with one of them and in two orders).
// Every file built alone also goes through the reader checks of c04r_test.go.
// Oracle signatures (stable): seal-not-deterministic, order-dependent, concurrent-builders-interfere, and those of
// c04r_test.go (eof-with-full-read-not-served, section-reader-not-served, prefetch-not-served, read-error-masked,
// transient-read-error-poisons-reader, lost-entry, wrong-value, lookup-error, reader-panic, header-mismatch,
// unexpected-build-error).

import (
	"runtime"
	"testing"

	"github.com/rpcpool/yellowstone-faithful/zzverif/vh"
)

func TestVerif_C04c(t *testing.T) {
	seed := vc04rSeed()
	thorough := vh.Thorough()
	rep := vh.NewReport("C04", "sealconc",
		"seal determinism (same inserts sealed 5..7 times under each of GOMAXPROCS 1/2/3/16 for 1, 2, 3, 8, 12..14 buckets, once in another order: byte-identical) and concurrent builders (4 builders with ~10 000 entries per bucket sealing at once, 3 rounds under GOMAXPROCS 16 and 2: each file byte-identical to the build done alone, every key of which is looked up through plain, EOF-with-full-read, offset-section, prefetching and transiently failing readers); a case = one (format, declared count, key set); non-trivial when it has >= 2 keys")
	rep.Flag("seed", seed)
	rep.Flag("num_cpu", runtime.NumCPU())
	rep.Flag("gomaxprocs_at_start", runtime.GOMAXPROCS(0))

	// (b)
	rng := vh.NewRng(seed + 0x5ea1)
	vc04rSealDeterminism(rep, seed, vc04raAdapter(8), thorough)
	vc04rSealDeterminism(rep, seed+1, vc04raAdapter(uint(rng.Pick(1, 36, 48, 252))), thorough)

	// (c)
	ads := []vc04rAdapter{vc04raAdapter(9), vc04raAdapter(36), vc04raAdapter(36), vc04raAdapter(8)}
	sizes := []int{30000, 27000, 25000, 29000}
	rounds := 3
	if thorough {
		rounds = 12
		sizes = []int{60000, 30000, 45000, 29000}
	}
	vc04rConcurrentBuilders(rep, seed, ads, sizes, rounds, []int{16, 2})
	if thorough { // three builders as well
		vc04rConcurrentBuilders(rep, seed+7, ads[:3], []int{20000, 40000, 30000}, rounds, []int{3, 16})
	}

	// (d) one bucket whose temporary key/value stream is several MiB (long keys / under-declared counts), three insertion orders
	vc04rBigSpill(rep, seed, vc04raAdapter(8), thorough, true)
	vc04rBigSpill(rep, seed+3, vc04raAdapter(uint(rng.Pick(1, 36, 48, 252))), thorough, false)

	if err := rep.Write(); err != nil {
		t.Fatal(err)
	}
}
