package compactindexsized

// Additional C04 harness (integrator): adversarial key TRIPLES for the per-bucket collision bitmap.
// a and c collide in the 24-bit hash of mining domain 0; b's hash lies in the SAME bitmap byte (hash/8 equal,
// other bit). Every insertion order of {a,b,c} (+ filler keys) must yield an index in which every key returns
// its own value and whose bytes do not depend on the order; a key inserted twice with other keys in between
// must make the build fail. (A bitmap update that disturbs neighbouring bits loses exactly these collisions.)

import (
	"bytes"
	"context"
	"encoding/binary"
	"fmt"
	"os"
	"path/filepath"
	"testing"

	"github.com/rpcpool/yellowstone-faithful/zzverif/vh"
)

func vc04bBuild(parent string, keys [][]byte, vals [][]byte, valueSize uint) ([]byte, error) {
	dir, err := os.MkdirTemp(parent, "b")
	if err != nil {
		return nil, err
	}
	defer os.RemoveAll(dir)
	b, err := NewBuilderSized(dir, uint(len(keys)), valueSize)
	if err != nil {
		return nil, err
	}
	defer b.Close()
	for i := range keys {
		if err := b.Insert(keys[i], vals[i]); err != nil {
			return nil, err
		}
	}
	f, err := os.CreateTemp(parent, "c04b-*.index")
	if err != nil {
		return nil, err
	}
	defer os.Remove(f.Name())
	defer f.Close()
	if err := b.Seal(context.Background(), f); err != nil {
		return nil, err
	}
	return os.ReadFile(f.Name())
}

func TestVerif_C04b(t *testing.T) {
	rep := vh.NewReport("C04", "triples", "adversarial triples (a,c collide in the 24-bit hash of domain 0; b in the same collision-bitmap byte) x all 6 insertion orders x filler keys, and duplicates with other keys in between; a case = one build; distinct by (triple, order)")
	rng := vh.NewRng(vh.Seed() + 404)
	dir := filepath.Join(vh.OutDir(), "c04b")
	_ = os.MkdirAll(dir, 0o755)
	nTriples := 3
	if vh.Thorough() {
		nTriples = 12
	}
	mask := uint64(0xffffff)
	for tr := 0; tr < nTriples; tr++ {
		// birthday search for a,c
		seen := map[uint64][]byte{}
		var a, c []byte
		for i := 0; a == nil && i < 200000; i++ {
			k := make([]byte, 12)
			binary.LittleEndian.PutUint64(k, rng.U64())
			binary.LittleEndian.PutUint32(k[8:], uint32(tr))
			h := EntryHash64(0, k) & mask
			if o, ok := seen[h]; ok && !bytes.Equal(o, k) {
				a, c = o, k
			}
			seen[h] = k
		}
		if a == nil {
			rep.Note("no 24-bit collision found for triple %d", tr)
			continue
		}
		ha := EntryHash64(0, a) & mask
		var b []byte
		for i := 0; b == nil && i < 40000000; i++ {
			k := make([]byte, 12)
			binary.LittleEndian.PutUint64(k, rng.U64())
			h := EntryHash64(0, k) & mask
			if h/8 == ha/8 && h != ha {
				b = k
			}
		}
		if b == nil {
			rep.Note("no same-byte key found for triple %d", tr)
			continue
		}
		fill := [][]byte{}
		for i := 0; i < rng.Intn(5); i++ {
			fill = append(fill, rng.Bytes(9))
		}
		val := func(k []byte) []byte { v := make([]byte, 8); copy(v, k); v[7] = 0x5a; return v }
		orders := [][3][]byte{{a, b, c}, {a, c, b}, {b, a, c}, {b, c, a}, {c, a, b}, {c, b, a}}
		var first []byte
		for oi, o := range orders {
			keys := append([][]byte{}, fill...)
			keys = append(keys, o[0], o[1], o[2])
			var vals [][]byte
			for _, k := range keys {
				vals = append(vals, val(k))
			}
			rep.Case(fmt.Sprintf("triple/%d/%d", tr, oi), true)
			rep.Count("triple-builds")
			file, err := vc04bBuild(dir, keys, vals, 8)
			replay := map[string]interface{}{"a": vh.Hex(a), "b": vh.Hex(b), "c": vh.Hex(c), "order": oi, "filler": len(fill)}
			if err != nil {
				rep.Fail("unexpected-build-error", fmt.Sprintf("triple %d order %d: %v", tr, oi, err), replay)
				continue
			}
			db, err := Open(bytes.NewReader(file))
			if err != nil {
				rep.Fail("sealed-index-unreadable", err.Error(), replay)
				continue
			}
			for _, k := range keys {
				got, err := db.Lookup(k)
				if err != nil {
					rep.Fail("lost-entry", fmt.Sprintf("triple %d order %d: key %x: %v", tr, oi, k, err), replay)
				} else if !bytes.Equal(got, val(k)) {
					rep.Fail("wrong-value", fmt.Sprintf("triple %d order %d: key %x returned the value of another key (%x)", tr, oi, k, got), replay)
				}
			}
			// the same keys through the other conforming readers (c04r_test.go)
			rkvs := make([]vc04rKV, len(keys))
			for i, k := range keys {
				rkvs[i] = vc04rKV{k, vals[i]}
			}
			vc04rCheckReaders(rep, vh.Seed()+uint64(oi), file, rkvs, vc04raOpen, replay)
			if first == nil {
				first = file
			} else if !bytes.Equal(first, file) {
				rep.Fail("order-dependent", fmt.Sprintf("triple %d: order %d seals different bytes than order 0", tr, oi), replay)
			}
		}
		// duplicates with other keys in between must fail
		for di, keys := range [][][]byte{{a, b, a}, {a, b, c, a}, {c, b, b}, {b, a, c, b}} {
			var vals [][]byte
			for i, k := range keys {
				v := val(k)
				v[6] = byte(i)
				vals = append(vals, v)
			}
			rep.Case(fmt.Sprintf("dup/%d/%d", tr, di), true)
			rep.Count("duplicate-builds")
			if _, err := vc04bBuild(dir, keys, vals, 8); err == nil {
				rep.Fail("duplicate-key-accepted", fmt.Sprintf("triple %d: a key inserted twice (pattern %d) sealed without error", tr, di),
					map[string]interface{}{"a": vh.Hex(a), "b": vh.Hex(b), "c": vh.Hex(c), "pattern": di})
			}
		}
		if len(rep.Samples) < 2 {
			rep.Sample(map[string]interface{}{"a": vh.Hex(a), "b": vh.Hex(b), "c": vh.Hex(c), "hash24_a": ha, "hash24_b": EntryHash64(0, b) & mask})
		}
	}
	// ---- metadata of every allowed size: 0, 1, 254 and 255 pairs (the format's maximum) must seal AND open
	for _, npairs := range []int{0, 1, 2, 254, 255} {
		rep.Case(fmt.Sprintf("meta-pairs/%d", npairs), true)
		rep.Count("metadata-pair-count-builds")
		func() {
			dirb, _ := os.MkdirTemp(dir, "m")
			defer os.RemoveAll(dirb)
			b, err := NewBuilderSized(dirb, 3, 4)
			if err != nil {
				rep.Fail("unexpected-build-error", err.Error(), nil)
				return
			}
			defer b.Close()
			for i := 0; i < npairs; i++ {
				if err := b.Metadata().Add([]byte{byte(i), 0x6b}, []byte{byte(i), byte(i >> 3), 7}); err != nil {
					rep.Fail("metadata-add-rejected", fmt.Sprintf("pair %d of %d: %v", i, npairs, err), nil)
					return
				}
			}
			keys := [][]byte{[]byte("k-one"), []byte("k-two"), []byte("k-three")}
			for i, k := range keys {
				if err := b.Insert(k, []byte{byte(i), 1, 2, 3}); err != nil {
					rep.Fail("unexpected-build-error", err.Error(), nil)
					return
				}
			}
			f, _ := os.CreateTemp(dir, "c04b-meta-*.index")
			defer os.Remove(f.Name())
			defer f.Close()
			if err := b.Seal(context.Background(), f); err != nil {
				rep.Fail("unexpected-build-error", fmt.Sprintf("%d metadata pairs: seal: %v", npairs, err), nil)
				return
			}
			file, _ := os.ReadFile(f.Name())
			db, err := Open(bytes.NewReader(file))
			if err != nil {
				rep.Fail("sealed-index-unreadable", fmt.Sprintf("an index sealed with %d metadata pairs cannot be opened: %v (every inserted key is lost although the build reported success)", npairs, err),
					map[string]interface{}{"metadata_pairs": npairs})
				return
			}
			if got := len(db.Header.Metadata.KeyVals); got != npairs {
				rep.Fail("metadata-not-read-back", fmt.Sprintf("%d pairs written, %d read back", npairs, got), map[string]interface{}{"metadata_pairs": npairs})
			}
			for i, k := range keys {
				got, err := db.Lookup(k)
				if err != nil || !bytes.Equal(got, []byte{byte(i), 1, 2, 3}) {
					rep.Fail("lost-entry", fmt.Sprintf("%d metadata pairs: key %s: %v %x", npairs, k, err, got), map[string]interface{}{"metadata_pairs": npairs})
				}
			}
			rkvs := make([]vc04rKV, len(keys))
			for i, k := range keys {
				rkvs[i] = vc04rKV{k, []byte{byte(i), 1, 2, 3}}
			}
			vc04rCheckReaders(rep, vh.Seed(), file, rkvs, vc04raOpen, map[string]interface{}{"metadata_pairs": npairs})
		}()
	}
	if err := rep.Write(); err != nil {
		t.Fatal(err)
	}
}
