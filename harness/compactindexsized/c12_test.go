package compactindexsized

// Verification harness for C12 (injected with `go test -overlay`; not part of the repository).
// Structure-aware mutation of valid compactindexsized files (sealed by the real Builder) run through
// Open / Lookup / GetBucket+Load under the c12h watchdog (child process under ulimit -v, recover(), allocation
// accounting). Oracle: no panic, no allocation out of proportion to the input, no hang.
// Correspondence: outcome class of Open (and the header fields it returns) and of Lookup against the Coq model
// YF.C12_Parsers (open_sized / lookup_sized) under the guard flags measured with the witness inputs.

import (
	"bytes"
	"context"
	"fmt"
	"os"
	"testing"

	"github.com/rpcpool/yellowstone-faithful/indexmeta"
	"github.com/rpcpool/yellowstone-faithful/zzverif/c12h"
	"github.com/rpcpool/yellowstone-faithful/zzverif/vh"
)

func vc12Seal(dir string, n int, items uint, vs uint, meta [][2][]byte, keys [][]byte, rng *vh.Rng) ([]byte, error) {
	tmp := fmt.Sprintf("%s/tmp%d", dir, n)
	if err := os.MkdirAll(tmp, 0o755); err != nil {
		return nil, err
	}
	b, err := NewBuilderSized(tmp, items, vs)
	if err != nil {
		return nil, err
	}
	defer b.Close()
	for _, m := range meta {
		b.Header.Metadata.KeyVals = append(b.Header.Metadata.KeyVals, indexmeta.KV{Key: m[0], Value: m[1]})
	}
	for _, k := range keys {
		if err := b.Insert(k, rng.Bytes(int(vs))); err != nil {
			return nil, err
		}
	}
	path := fmt.Sprintf("%s/index%d", dir, n)
	f, err := os.Create(path)
	if err != nil {
		return nil, err
	}
	defer f.Close()
	if err := b.Seal(context.Background(), f); err != nil {
		return nil, err
	}
	return os.ReadFile(path)
}

func vc12Seeds(dir string, rng *vh.Rng) ([]c12h.Seed, error) {
	var seeds []c12h.Seed
	type shape struct {
		vs, nkeys, items uint
		nmeta            int
	}
	shapes := []shape{{36, 3, 3, 4}, {9, 5, 5, 1}, {1, 1, 1, 0}, {8, 30, 30, 2}, {252, 2, 2, 1}, {36, 12, 25000, 3}}
	for i, sh := range shapes {
		var keys [][]byte
		for k := 0; k < int(sh.nkeys); k++ {
			keys = append(keys, rng.Bytes(1+rng.Intn(40)))
		}
		var meta [][2][]byte
		for m := 0; m < sh.nmeta; m++ {
			meta = append(meta, [2][]byte{rng.Bytes(1 + rng.Intn(6)), rng.Bytes(rng.Intn(12))})
		}
		data, err := vc12Seal(dir, i, sh.items, sh.vs, meta, keys, rng)
		if err != nil {
			return seeds, err
		}
		db, err := Open(bytes.NewReader(data))
		if err != nil {
			c12h.SkipSeed(fmt.Sprintf("seed %d", i), fmt.Sprintf("does not open: %v", err))
			continue
		}
		answers := true
		for _, k := range keys {
			if _, err := db.Lookup(k); err != nil {
				c12h.SkipSeed(fmt.Sprintf("seed %d", i), fmt.Sprintf("stored key not found: %v", err))
				answers = false
				break
			}
		}
		if !answers {
			continue
		}
		keys = append(keys, []byte("absent-key-1"), rng.Bytes(7))
		seeds = append(seeds, c12h.Seed{Name: fmt.Sprintf("sized-vs%d-n%d", sh.vs, sh.nkeys), Data: data, Keys: keys,
			Nums: []uint64{uint64(db.headerSize), uint64(db.Header.NumBuckets), db.Header.ValueSize}})
	}
	return seeds, nil
}

// the length/count/size/offset fields of a sized index file
func vc12Fields(s *c12h.Seed) (fields []c12h.Field, boundaries []int) {
	hs, nb := int(s.Nums[0]), int(s.Nums[1])
	fields = append(fields, c12h.Field{Name: "hdr.len", Off: 8, Len: 4}, c12h.Field{Name: "hdr.valuesize", Off: 12, Len: 8},
		c12h.Field{Name: "hdr.numbuckets", Off: 20, Len: 4}, c12h.Field{Name: "hdr.version", Off: 24, Len: 1},
		c12h.Field{Name: "meta.count", Off: 25, Len: 1})
	boundaries = append(boundaries, 8, 12, 20, 24, 25, 26, hs)
	// metadata pairs
	p := 26
	cnt := int(s.Data[25])
	for i := 0; i < cnt && p < hs; i++ {
		fields = append(fields, c12h.Field{Name: "meta.keylen", Off: p, Len: 1})
		p += 1 + int(s.Data[p])
		if p >= hs {
			break
		}
		fields = append(fields, c12h.Field{Name: "meta.vallen", Off: p, Len: 1})
		p += 1 + int(s.Data[p])
		boundaries = append(boundaries, p)
	}
	for b := 0; b < nb && b < 3; b++ {
		o := hs + 16*b
		fields = append(fields, c12h.Field{Name: "bucket.domain", Off: o, Len: 4}, c12h.Field{Name: "bucket.numentries", Off: o + 4, Len: 4},
			c12h.Field{Name: "bucket.hashlen", Off: o + 8, Len: 1}, c12h.Field{Name: "bucket.pad", Off: o + 9, Len: 1},
			c12h.Field{Name: "bucket.fileoffset", Off: o + 10, Len: 6})
		boundaries = append(boundaries, o, o+16)
	}
	boundaries = append(boundaries, hs+16*nb)
	return
}

func vc12Gen(seeds []c12h.Seed, rng *vh.Rng, thorough bool) []c12h.Input {
	var ins []c12h.Input
	nrand := 400
	if thorough {
		nrand = 8000
	}
	for si := range seeds {
		s := &seeds[si]
		fields, bounds := vc12Fields(s)
		nhdr := 5 + 2*int(minU(uint64(s.Data[25]), 4)) // header and metadata fields: exercised through Open
		if nhdr > len(fields) {
			nhdr = len(fields)
		}
		qfields := append([]c12h.Field{fields[1], fields[2]}, fields[nhdr:]...) // value size, bucket count, bucket headers
		small := len(s.Data) < 4096
		ins = append(ins, c12h.Input{Entry: "open", Label: "valid", Data: s.Data})
		ins = append(ins, c12h.MutateFields("open", s, fields[:nhdr], nil, nil)...)
		ins = append(ins, c12h.Truncations("open", s, bounds, nil, nil)...)
		for ki := range s.Keys {
			if ki > 1 && ki < len(s.Keys)-1 {
				continue
			}
			aux := []uint64{uint64(ki)}
			ins = append(ins, c12h.Input{Entry: "lookup", Label: "valid", Data: s.Data, Keys: s.Keys, Aux: aux})
			ins = append(ins, c12h.MutateFields("lookup", s, qfields, s.Keys, aux)...)
			if ki == 0 {
				ins = append(ins, c12h.Truncations("lookup", s, bounds, s.Keys, aux)...)
				ins = append(ins, c12h.MutateFields("load", s, qfields, s.Keys, aux)...)
				ins = append(ins, c12h.MutateFields("prefetch", s, qfields, s.Keys, aux)...)
			}
		}
		if small {
			ins = append(ins, c12h.RandomMutations("lookup", s, rng, nrand, int(s.Nums[0])+16*int(s.Nums[1]), s.Keys, []uint64{0})...)
			ins = append(ins, c12h.RandomMutations("open", s, rng, nrand/2, int(s.Nums[0]), nil, nil)...)
		}
	}
	ins = append(ins, c12h.Junk("open", rng, 200, Magic[:])...)
	return ins
}

func minU(a, b uint64) uint64 {
	if a < b {
		return a
	}
	return b
}

func vc12Exec(in *c12h.Input) c12h.Obs {
	db, err := Open(bytes.NewReader(in.Data))
	if in.Entry == "open" {
		if err != nil {
			return c12h.Obs{Class: "error"}
		}
		return c12h.Obs{Class: "ok", Nums: []uint64{db.Header.ValueSize, uint64(db.Header.NumBuckets), uint64(db.headerSize)}}
	}
	if err != nil {
		return c12h.Obs{Class: "error", Fine: "open-error"}
	}
	key := in.Keys[in.Aux[0]]
	switch in.Entry {
	case "lookup", "prefetch":
		if in.Entry == "prefetch" {
			db.Prefetch(true)
		}
		// what the model needs to know about the hash functions: the bucket the key maps to and the 64-bit entry hash
		// under the hash domain stored in that bucket's header (both computed by the implementation's own functions)
		bidx := uint64(db.Header.BucketHash(key))
		var xsum uint64
		off := db.headerSize + int64(bidx)*bucketHdrLen
		if off >= 0 && off+bucketHdrLen <= int64(len(in.Data)) {
			xsum = EntryHash64(uint32(c12h.GetLE(in.Data, int(off), 4)), key)
		}
		nums := []uint64{bidx, xsum}
		in.Pre = nums
		_, err := db.Lookup(key)
		switch {
		case err == nil:
			return c12h.Obs{Class: "ok", Fine: "found", Nums: nums}
		case IsNotFound(err):
			return c12h.Obs{Class: "ok", Fine: "notfound", Nums: nums}
		default:
			return c12h.Obs{Class: "error", Fine: "error", Nums: nums}
		}
	case "load":
		b, err := db.GetBucket(0)
		if err != nil {
			return c12h.Obs{Class: "error"}
		}
		if _, err := b.Load(0); err != nil {
			return c12h.Obs{Class: "error"}
		}
		return c12h.Obs{Class: "ok"}
	}
	panic("VERIF-HARNESS-BUG unknown entry " + in.Entry)
}

func vc12Budget(in *c12h.Input) uint64 {
	b := uint64(8*len(in.Data)) + 256<<10
	if in.Entry == "load" {
		b += 512 * 256 * 3 // one batch buffer and its decoded entries
	}
	if in.Entry == "prefetch" {
		b += 3000 * 256
	}
	return b
}

func vc12Witnesses(seeds []c12h.Seed) map[string]c12h.Input {
	s := &seeds[0]
	hs := int(s.Nums[0])
	mut := func(off, n int, v uint64) []byte {
		d := append([]byte(nil), s.Data...)
		for i := 0; i < n; i++ {
			d[off+i] = byte(v >> (8 * uint(i)))
		}
		return d
	}
	k0 := []uint64{0}
	return map[string]c12h.Input{
		// header-length field 12: Load indexes buf[24] of a 24-byte buffer
		"g_hdr_len": {Entry: "open", Label: "witness", Data: mut(8, 4, 12)},
		// header-length field 2^32-12: 8+4+size wraps to 0 in uint32
		"g_hdr_total64": {Entry: "open", Label: "witness", Data: mut(8, 4, 1<<32-12)},
		// header-length field 2^28: 256 MiB requested for a file of a few hundred bytes
		"g_hdr_incr": {Entry: "open", Label: "witness", Data: mut(8, 4, 1<<28)},
		// value size 253: the uint8 entry stride wraps to 0
		"g_value_size": {Entry: "lookup", Label: "witness", Data: mut(12, 8, 253), Keys: s.Keys, Aux: k0},
		// bucket header hash length 200
		"g_hash_len": {Entry: "lookup", Label: "witness", Data: mut(hs+8, 1, 200), Keys: s.Keys, Aux: k0},
	}
}

func vc12CoqCase(in *c12h.Input, r *c12h.Result) (string, bool) {
	if len(in.Data) > 700 {
		return "", false
	}
	cls, ok := c12h.ClassN(r.Class)
	if !ok {
		return "", false
	}
	switch in.Entry {
	case "open":
		nums := []uint64{0, 0, 0}
		if r.Class == "ok" {
			nums = r.Nums
		}
		return fmt.Sprintf("COpen %s %s %s %s %s", vh.CoqBytes(in.Data), vh.CoqN(cls), vh.CoqN(nums[0]), vh.CoqN(nums[1]), vh.CoqN(nums[2])), true
	case "lookup":
		// fine class: 0 found, 1 notfound, 2 error (open or lookup), 3 panic
		fine := uint64(2)
		switch {
		case r.Class == "panic":
			fine = 3
		case r.Fine == "found":
			fine = 0
		case r.Fine == "notfound":
			fine = 1
		}
		var bidx, xsum uint64
		if len(r.Nums) == 2 {
			bidx, xsum = r.Nums[0], r.Nums[1]
		} else if r.Class == "panic" {
			return "", false // panicked inside Open under the lookup entry: covered by the open cases
		}
		return fmt.Sprintf("CLookup %s %s %s %s", vh.CoqBytes(in.Data), vh.CoqN(bidx), vh.CoqN(xsum), vh.CoqN(fine)), true
	}
	return "", false
}

func vc12Flags(flags map[string]bool) string {
	g := func(n string) string { return vh.CoqBool(flags[n]) }
	return fmt.Sprintf("(check_sized (mk_sized_guards %s %s %s %s %s))", g("g_hdr_len"), g("g_hdr_total64"), g("g_hdr_incr"), g("g_value_size"), g("g_hash_len"))
}

func vc12Part() *c12h.Part {
	return &c12h.Part{
		Name:  "ci-sized",
		Rule:  "compactindexsized.Open / DB.Lookup / Bucket.Load on mutated valid index files: no panic, allocation <= 8*len+256KiB (+ one batch), no hang; outcome class = Coq model",
		Seeds: vc12Seeds, Gen: vc12Gen, Exec: vc12Exec, Budget: vc12Budget, Witnesses: vc12Witnesses,
		CoqImports: []string{"YF.C12_Check"}, CoqType: "sized_case", CoqChecker: vc12Flags, CoqCase: vc12CoqCase, MaxCoq: 500,
		Fuzz: vc12Fuzz,
	}
}

func TestVerif_C12(t *testing.T) { c12h.Run(t, vc12Part()) }

// native fuzz target (thorough tier; run by c12h.Run from an instrumented copy of the test binary)
func FuzzVerifC12(f *testing.F) { c12h.FuzzBody(f, vc12Part()) }

func vc12Fuzz(data []byte, sel uint64, seeds []c12h.Seed) *c12h.Input {
	s := &seeds[int(sel%uint64(len(seeds)))]
	entries := []string{"open", "lookup", "load", "prefetch"}
	return &c12h.Input{Entry: entries[(sel/97)%4], Label: "fuzz", Data: data, Keys: s.Keys, Aux: []uint64{(sel / 389) % uint64(len(s.Keys))}}
}
