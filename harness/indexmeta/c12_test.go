package indexmeta

// Verification harness for C12 (injected with `go test -overlay`; not part of the repository).
// Mutated serialized metadata through Meta.UnmarshalBinary and the typed getters (GetUint64, GetCid, GetString, ...).
// Oracle: no panic, allocation <= 64*len + 64 KiB. Correspondence: class of UnmarshalBinary = parse_meta (C04_Formats),
// outcome of GetUint64 = YF.C12_Parsers.meta_u64 on the value stored under the key.

import (
	"fmt"
	"testing"

	"github.com/rpcpool/yellowstone-faithful/zzverif/c12h"
	"github.com/rpcpool/yellowstone-faithful/zzverif/vh"
)

var vc12Key = []byte("epoch")

func vc12Seeds(dir string, rng *vh.Rng) ([]c12h.Seed, error) {
	var seeds []c12h.Seed
	for i, vals := range [][]int{{8}, {3}, {0}, {9}, {8, 8}, {255}, {}, {1, 8, 40}} {
		var m Meta
		for j, n := range vals {
			key := vc12Key
			if j > 0 {
				key = rng.Bytes(1 + rng.Intn(10))
			}
			if err := m.Add(key, rng.Bytes(n)); err != nil {
				return seeds, err
			}
		}
		if i%2 == 0 {
			_ = m.AddString([]byte("kind"), "some-kind")
		}
		seeds = append(seeds, c12h.Seed{Name: fmt.Sprintf("meta%d", i), Data: m.Bytes()})
	}
	{
		var m Meta
		_ = m.AddUint64(vc12Key, 77)
		seeds = append(seeds, c12h.Seed{Name: "u64", Data: m.Bytes()})
	}
	return seeds, nil
}

func vc12Fields(d []byte) (fields []c12h.Field) {
	if len(d) == 0 {
		return nil
	}
	fields = append(fields, c12h.Field{Name: "count", Off: 0, Len: 1})
	p := 1
	for i := 0; i < int(d[0]) && p < len(d); i++ {
		fields = append(fields, c12h.Field{Name: "keylen", Off: p, Len: 1})
		p += 1 + int(d[p])
		if p >= len(d) {
			break
		}
		fields = append(fields, c12h.Field{Name: "vallen", Off: p, Len: 1})
		p += 1 + int(d[p])
	}
	return
}

func vc12Gen(seeds []c12h.Seed, rng *vh.Rng, thorough bool) []c12h.Input {
	var ins []c12h.Input
	nrand := 500
	if thorough {
		nrand = 6000
	}
	for si := range seeds {
		s := &seeds[si]
		for _, e := range []string{"unmarshal", "getuint64"} {
			ins = append(ins, c12h.Input{Entry: e, Label: "valid", Data: s.Data})
			ins = append(ins, c12h.MutateFields(e, s, vc12Fields(s.Data), nil, nil)...)
			for n := 0; n < len(s.Data) && n < 300; n++ {
				ins = append(ins, c12h.Input{Entry: e, Label: "truncate", Data: append([]byte(nil), s.Data[:n]...)})
			}
			ins = append(ins, c12h.RandomMutations(e, s, rng, nrand, 0, nil, nil)...)
		}
	}
	ins = append(ins, c12h.Junk("unmarshal", rng, 300, nil)...)
	ins = append(ins, c12h.Junk("getuint64", rng, 300, []byte{1, 5, 'e', 'p', 'o', 'c', 'h'})...)
	return ins
}

func vc12Exec(in *c12h.Input) c12h.Obs {
	var m Meta
	if err := m.UnmarshalBinary(in.Data); err != nil {
		return c12h.Obs{Class: "error", Fine: "unmarshal-error"}
	}
	if in.Entry == "unmarshal" {
		_ = m.HasDuplicateKeys()
		_, _ = m.GetCid([]byte("rootCid"))
		_, _ = m.GetString([]byte("kind"))
		_ = m.Count(vc12Key)
		_ = m.GetAll(vc12Key)
		b, err := m.MarshalBinary()
		if err != nil || len(b) > len(in.Data)+1 {
			return c12h.Obs{Class: "error", Fine: "remarshal"}
		}
		return c12h.Obs{Class: "ok"}
	}
	pre := []uint64{0}
	if v, ok := m.Get(vc12Key); ok {
		pre = []uint64{1}
		for _, b := range v {
			pre = append(pre, uint64(b))
		}
	}
	in.Pre = pre
	_, _ = m.GetCid(vc12Key)
	if _, ok := m.GetUint64(vc12Key); !ok {
		return c12h.Obs{Class: "error", Fine: "no-value", Nums: pre}
	}
	return c12h.Obs{Class: "ok", Nums: pre}
}

func vc12CoqCase(in *c12h.Input, r *c12h.Result) (string, bool) {
	cls, ok := c12h.ClassN(r.Class)
	if !ok || len(in.Data) > 600 {
		return "", false
	}
	if in.Entry == "unmarshal" {
		if r.Fine == "remarshal" {
			return "", false
		}
		return fmt.Sprintf("CMetaParse %s %s", vh.CoqBytes(in.Data), vh.CoqN(cls)), true
	}
	if len(r.Nums) == 0 {
		return "", false
	}
	v := "None"
	if r.Nums[0] == 1 {
		b := make([]byte, len(r.Nums)-1)
		for i, x := range r.Nums[1:] {
			b[i] = byte(x)
		}
		v = "(Some " + vh.CoqBytes(b) + ")"
	}
	return fmt.Sprintf("CMetaU64 %s %s", v, vh.CoqN(cls)), true
}

func vc12Part() *c12h.Part {
	return &c12h.Part{
		Name:  "indexmeta",
		Rule:  "indexmeta.Meta.UnmarshalBinary + getters on mutated serialized metadata: no panic, allocation <= 64*len+64KiB; class = Coq model (parse_meta, meta_u64)",
		Seeds: vc12Seeds, Gen: vc12Gen, Exec: vc12Exec,
		Budget: func(in *c12h.Input) uint64 { return uint64(64*len(in.Data)) + 64<<10 },
		Witnesses: func(seeds []c12h.Seed) map[string]c12h.Input {
			return map[string]c12h.Input{"g_meta_u64": {Entry: "getuint64", Label: "witness", Data: seeds[1].Data}}
		},
		CoqImports: []string{"YF.C12_Check"}, CoqType: "meta_case",
		CoqChecker: func(f map[string]bool) string { return "(check_meta " + vh.CoqBool(f["g_meta_u64"]) + ")" },
		CoqCase:    vc12CoqCase, MaxCoq: 500,
		Fuzz: vc12Fuzz,
	}
}

func TestVerif_C12(t *testing.T) { c12h.Run(t, vc12Part()) }

// native fuzz target (thorough tier; run by c12h.Run from an instrumented copy of the test binary)
func FuzzVerifC12(f *testing.F) { c12h.FuzzBody(f, vc12Part()) }

func vc12Fuzz(data []byte, sel uint64, seeds []c12h.Seed) *c12h.Input {
	entries := []string{"unmarshal", "getuint64"}
	return &c12h.Input{Entry: entries[sel%2], Label: "fuzz", Data: data}
}
