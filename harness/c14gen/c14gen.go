// Package c14gen: generators shared by the C14 harness files (injected with `go test -overlay` as
// zzverif/c14gen; not part of the repository). It builds multi-frame payloads laid out as the schema
// comment of ledger.ipldsch describes, injects single-frame faults, and prints frames/stores as Coq
// terms for YF.C14_Check.
package c14gen

import (
	"context"
	"crypto/sha256"
	"errors"
	"fmt"
	"hash/crc64"
	"hash/fnv"
	"sort"
	"strconv"
	"strings"

	"github.com/ipfs/go-cid"
	"github.com/ipld/go-ipld-prime/datamodel"
	cidlink "github.com/ipld/go-ipld-prime/linking/cid"
	"github.com/multiformats/go-multicodec"
	"github.com/rpcpool/yellowstone-faithful/ipld/ipldbindcode"
	"github.com/rpcpool/yellowstone-faithful/zzverif/vh"
)

var ErrMissing = errors.New("c14gen: frame not in store")

func PInt(v int) **int { p := &v; return &p }

var crcTab = crc64.MakeTable(crc64.ISO)

func Crc(b []byte) uint64 { return crc64.Checksum(b, crcTab) }
func Fnv(b []byte) uint64 { h := fnv.New64a(); h.Write(b); return h.Sum64() }

func mkCid(b []byte) cid.Cid {
	// only direct dependencies of the repository are imported here: with -mod=mod the go tool would
	// otherwise rewrite go.mod (an `// indirect` marker) - nothing may ever be written into the repository
	c, err := cid.V1Builder{Codec: uint64(multicodec.DagCbor), MhType: uint64(multicodec.Sha2_256), MhLength: -1}.Sum(b)
	if err != nil {
		panic("VERIF-HARNESS-BUG: " + err.Error())
	}
	return c
}

// CidOfBytes: CIDv1 / dag-cbor / sha2-256 of the bytes.
func CidOfBytes(b []byte) cid.Cid { return mkCid(b) }

// SortCids sorts by key string (a deterministic order independent of map iteration).
func SortCids(cs []cid.Cid) {
	sort.Slice(cs, func(i, j int) bool { return cs[i].KeyString() < cs[j].KeyString() })
}

// Payload is one payload split into frames.
type Payload struct {
	ID       int
	Data     []byte
	Chunks   [][]byte
	Fanout   int
	UseFnv   bool
	NoHash   bool
	NoTotal  bool
	RealCids bool                      // CID of a frame = sha256 of its CBOR encoding (else an arbitrary unique CID)
	Frames   []*ipldbindcode.DataFrame // Frames[0] is the first frame (embedded in its parent node)
	Cids     []cid.Cid                 // Cids[i] for i >= 1
}

// SplitEven mirrors Coq `chunk_even`: n chunks of ceil(len/n) bytes, the last takes the rest.
func SplitEven(data []byte, n int) [][]byte {
	sz := (len(data) + n - 1) / n
	out := make([][]byte, n)
	rest := data
	for i := 0; i < n; i++ {
		if i == n-1 {
			out[i] = rest
			break
		}
		k := sz
		if k > len(rest) {
			k = len(rest)
		}
		out[i] = rest[:k]
		rest = rest[k:]
	}
	return out
}

// SplitRandom cuts data at n-1 random positions (chunks may be empty).
func SplitRandom(rng *vh.Rng, data []byte, n int) [][]byte {
	cuts := make([]int, n-1)
	for i := range cuts {
		cuts[i] = rng.Intn(len(data) + 1)
	}
	sort.Ints(cuts)
	out := make([][]byte, n)
	prev := 0
	for i := 0; i < n-1; i++ {
		out[i] = data[prev:cuts[i]]
		prev = cuts[i]
	}
	out[n-1] = data[prev:]
	return out
}

// nonNil: an empty chunk is an empty byte string, never a CBOR null
func nonNil(b []byte) []byte {
	if b == nil {
		return []byte{}
	}
	return b
}

func (p *Payload) N() int { return len(p.Chunks) }

func (p *Payload) Hash() uint64 {
	if p.UseFnv {
		return Fnv(p.Data)
	}
	return Crc(p.Data)
}

// LinksOf: the layout of the schema comment: frame i links to the next (up to Fanout) frames when i is
// a multiple of Fanout.
func (p *Payload) LinksOf(i int) []int {
	n := p.N()
	if i%p.Fanout != 0 {
		return nil
	}
	var out []int
	for j := i + 1; j <= i+p.Fanout && j <= n-1; j++ {
		out = append(out, j)
	}
	return out
}

func (p *Payload) Parent(j int) int { return ((j - 1) / p.Fanout) * p.Fanout }

// Build creates the frames (last to first, so that real CIDs can be computed).
// emptyNext selects how an empty `next` is represented: 0 = nil, 1 = present empty list.
func (p *Payload) Build(rng *vh.Rng) {
	n := p.N()
	p.Frames = make([]*ipldbindcode.DataFrame, n)
	p.Cids = make([]cid.Cid, n)
	for i := n - 1; i >= 0; i-- {
		f := &ipldbindcode.DataFrame{Kind: 6, Index: PInt(i), Data: nonNil(p.Chunks[i])}
		if !p.NoTotal {
			f.Total = PInt(n)
		}
		if !p.NoHash {
			f.Hash = PInt(int(p.Hash()))
		}
		var links []cid.Cid
		for _, j := range p.LinksOf(i) {
			links = append(links, p.Cids[j])
		}
		if len(links) > 0 || rng.Bool() {
			SetLinks(f, links)
		}
		p.Frames[i] = f
		if i >= 1 {
			if p.RealCids {
				b, err := f.MarshalCBOR()
				if err != nil {
					panic("VERIF-HARNESS-BUG: " + err.Error())
				}
				p.Cids[i] = mkCid(b)
			} else {
				p.Cids[i] = mkCid([]byte(fmt.Sprintf("c14-payload-%d-frame-%d", p.ID, i)))
			}
		}
	}
}

var freshCounter int

func FreshCid() cid.Cid {
	freshCounter++
	return mkCid([]byte(fmt.Sprintf("c14-fresh-%d", freshCounter)))
}

func SetLinks(f *ipldbindcode.DataFrame, links []cid.Cid) {
	ll := make(ipldbindcode.List__Link, 0, len(links))
	for _, c := range links {
		ll = append(ll, datamodel.Link(cidlink.Link{Cid: c}))
	}
	pl := &ll
	f.Next = &pl
}

func Links(f *ipldbindcode.DataFrame) []cid.Cid {
	next, ok := f.GetNext()
	if !ok {
		return nil
	}
	out := make([]cid.Cid, 0, len(next))
	for _, l := range next {
		out = append(out, l.(cidlink.Link).Cid)
	}
	return out
}

func Clone(f *ipldbindcode.DataFrame) *ipldbindcode.DataFrame {
	g := &ipldbindcode.DataFrame{Kind: f.Kind, Data: append([]byte{}, f.Data...)}
	if f.Hash != nil && *f.Hash != nil {
		g.Hash = PInt(**f.Hash)
	}
	if f.Index != nil && *f.Index != nil {
		g.Index = PInt(**f.Index)
	}
	if f.Total != nil && *f.Total != nil {
		g.Total = PInt(**f.Total)
	}
	if f.Next != nil && *f.Next != nil && **f.Next != nil {
		SetLinks(g, Links(f))
	}
	return g
}

// Scenario: what the reassembly is run on.
type Scenario struct {
	P      *Payload
	First  *ipldbindcode.DataFrame
	Store  map[cid.Cid]*ipldbindcode.DataFrame
	Kind   string // "none" or the fault kind
	J      int    // frame the fault is applied to
	I      int    // second frame involved (-1 if none)
	Cyclic bool   // the links now contain a cycle (the pinned code does not return on these)
}

// NewScenario: store = frames 1.. of p plus the frames of every other payload (a mixed store).
func NewScenario(p *Payload, others ...*Payload) *Scenario {
	s := &Scenario{P: p, First: p.Frames[0], Store: map[cid.Cid]*ipldbindcode.DataFrame{}, Kind: "none", J: -1, I: -1}
	for i := 1; i < p.N(); i++ {
		s.Store[p.Cids[i]] = p.Frames[i]
	}
	for _, o := range others {
		for i := 1; i < o.N(); i++ {
			s.Store[o.Cids[i]] = o.Frames[i]
		}
	}
	return s
}

func (s *Scenario) copy(kind string, j int) *Scenario {
	t := &Scenario{P: s.P, First: s.First, Store: make(map[cid.Cid]*ipldbindcode.DataFrame, len(s.Store)), Kind: kind, J: j, I: -1}
	for k, v := range s.Store {
		t.Store[k] = v
	}
	return t
}

// frame j of the scenario (a private copy is installed so that it can be edited)
func (s *Scenario) edit(j int) *ipldbindcode.DataFrame {
	if j == 0 {
		s.First = Clone(s.First)
		return s.First
	}
	g := Clone(s.Store[s.P.Cids[j]])
	s.Store[s.P.Cids[j]] = g
	return g
}

func (s *Scenario) Getter(fetches *int) func(ctx context.Context, c cid.Cid) (*ipldbindcode.DataFrame, error) {
	return func(ctx context.Context, c cid.Cid) (*ipldbindcode.DataFrame, error) {
		if fetches != nil {
			*fetches++
		}
		f, ok := s.Store[c]
		if !ok {
			return nil, ErrMissing
		}
		return f, nil
	}
}

// FaultKinds lists every single-frame fault. other = a second payload whose frames are in the store too.
var FaultKinds = []string{"drop-store", "drop-link", "dup-link", "dup-extra", "dup-store", "flip-data",
	"flip-index", "flip-total", "flip-hash", "swap", "mix-links"}

// ApplyFault returns the faulty scenario, or nil when the fault does not apply to frame j.
func ApplyFault(rng *vh.Rng, base *Scenario, other *Payload, kind string, j int) *Scenario {
	p := base.P
	n := p.N()
	s := base.copy(kind, j)
	switch kind {
	case "drop-store": // the frame cannot be fetched
		if j < 1 {
			return nil
		}
		delete(s.Store, p.Cids[j])
	case "drop-link": // the frame is no longer linked
		if j < 1 {
			return nil
		}
		par := s.edit(p.Parent(j))
		var keep []cid.Cid
		for _, c := range Links(par) {
			if !c.Equals(p.Cids[j]) {
				keep = append(keep, c)
			}
		}
		SetLinks(par, keep)
	case "dup-link": // the frame is linked twice
		if j < 1 {
			return nil
		}
		par := s.edit(p.Parent(j))
		ls := Links(par)
		at := rng.Intn(len(ls) + 1)
		ls2 := append(append(append([]cid.Cid(nil), ls[:at]...), p.Cids[j]), ls[at:]...)
		SetLinks(par, ls2)
	case "dup-extra": // a copy of the frame is stored under one more CID that the parent links too
		if j < 1 {
			return nil
		}
		par := s.edit(p.Parent(j))
		c := FreshCid()
		s.Store[c] = s.Store[p.Cids[j]]
		SetLinks(par, append(Links(par), c))
	case "dup-store": // a copy of frame i takes the place of frame j
		if j < 1 || n < 2 {
			return nil
		}
		i := rng.Intn(n)
		if i == j {
			i = (i + 1) % n
		}
		s.I = i
		if i == 0 {
			s.Store[p.Cids[j]] = base.First
		} else {
			s.Store[p.Cids[j]] = base.Store[p.Cids[i]]
		}
		// frame i is an ancestor of frame j in the link tree <=> i is a multiple of the fan-out below j
		if i < j && i%p.Fanout == 0 {
			s.Cyclic = true
		}
	case "flip-data":
		if len(p.Chunks[j]) == 0 {
			return nil
		}
		f := s.edit(j)
		bit := rng.Intn(len(f.Data) * 8)
		f.Data[bit/8] ^= 1 << uint(bit%8)
	case "flip-index":
		f := s.edit(j)
		v := **f.Index ^ (1 << uint(rng.Intn(7)))
		f.Index = PInt(v)
	case "flip-total":
		if p.NoTotal {
			return nil
		}
		f := s.edit(j)
		f.Total = PInt(**f.Total ^ (1 << uint(rng.Intn(7))))
	case "flip-hash":
		if p.NoHash {
			return nil
		}
		f := s.edit(j)
		f.Hash = PInt(int(uint64(**f.Hash) ^ (1 << uint(rng.Intn(64)))))
	case "swap": // a frame of another payload takes the place of frame j
		if j < 1 || other == nil || other.N() < 2 {
			return nil
		}
		i := j
		if i >= other.N() {
			i = 1 + rng.Intn(other.N()-1)
		}
		s.I = i
		s.Store[p.Cids[j]] = other.Frames[i]
	case "mix-links": // frame j links to the frames of another payload instead of its own
		if other == nil || other.N() != n || len(p.LinksOf(j)) == 0 {
			return nil
		}
		f := s.edit(j)
		var ls []cid.Cid
		for _, x := range p.LinksOf(j) {
			ls = append(ls, other.Cids[x])
		}
		SetLinks(f, ls)
	default:
		panic("VERIF-HARNESS-BUG: unknown fault " + kind)
	}
	return s
}

// PermuteLinks returns a scenario in which every `next` list is shuffled (the order frames are fetched in).
func PermuteLinks(rng *vh.Rng, base *Scenario) *Scenario {
	s := base.copy("none", -1)
	for j := 0; j < s.P.N(); j++ {
		var f *ipldbindcode.DataFrame
		if j == 0 {
			f = s.First
		} else {
			f = s.Store[s.P.Cids[j]]
		}
		ls := Links(f)
		if len(ls) < 2 {
			continue
		}
		g := s.edit(j)
		perm := rng.Perm(len(ls))
		out := make([]cid.Cid, len(ls))
		for a, b := range perm {
			out[a] = ls[b]
		}
		SetLinks(g, out)
	}
	return s
}

// ---------- Coq terms ----------

// Numbering maps CIDs to the opaque numbers the model uses: frame i of the payload under test is
// base+i (so that the layout check can recompute it), everything else gets a number of its own.
type Numbering struct {
	m map[string]uint64
}

const LayoutBase = 100

func NewNumbering(p *Payload, others ...*Payload) *Numbering {
	nm := &Numbering{m: map[string]uint64{}}
	for i := 1; i < p.N(); i++ {
		nm.m[p.Cids[i].KeyString()] = uint64(LayoutBase + i)
	}
	for k, o := range others {
		for i := 1; i < o.N(); i++ {
			key := o.Cids[i].KeyString()
			if _, dup := nm.m[key]; !dup {
				nm.m[key] = uint64(10000*(k+1) + i)
			}
		}
	}
	return nm
}

func (nm *Numbering) Of(c cid.Cid) uint64 {
	k := c.KeyString()
	if v, ok := nm.m[k]; ok {
		return v
	}
	// any other CID: a number derived from the CID itself (deterministic, far away from the ranges above)
	sum := sha256.Sum256([]byte(k))
	v := uint64(1)<<50 | uint64(sum[0])<<32 | uint64(sum[1])<<24 | uint64(sum[2])<<16 | uint64(sum[3])<<8 | uint64(sum[4])
	nm.m[k] = v
	return v
}

func CoqFrame(f *ipldbindcode.DataFrame, nm *Numbering) string {
	h, hok := f.GetHash()
	i, iok := f.GetIndex()
	t, tok := f.GetTotal()
	var ls []uint64
	for _, c := range Links(f) {
		ls = append(ls, nm.Of(c))
	}
	return fmt.Sprintf("fr %s %s %s %s %s", vh.CoqOpt(vh.CoqN(h), hok), vh.CoqOpt(vh.CoqZ(int64(i)), iok),
		vh.CoqOpt(vh.CoqZ(int64(t)), tok), vh.CoqBytes(f.Bytes()), vh.CoqNs(ls))
}

// CoqStore prints the store as an association list, entries in the given order of CID numbers.
func CoqStore(s *Scenario, nm *Numbering, rng *vh.Rng) string {
	type ent struct {
		k uint64
		f *ipldbindcode.DataFrame
	}
	var es []ent
	for c, f := range s.Store {
		es = append(es, ent{nm.Of(c), f})
	}
	sort.Slice(es, func(a, b int) bool { return es[a].k < es[b].k })
	if rng != nil { // the order frames are stored in is irrelevant: shuffle
		perm := rng.Perm(len(es))
		out := make([]ent, len(es))
		for a, b := range perm {
			out[a] = es[b]
		}
		es = out
	}
	items := make([]string, len(es))
	for i, e := range es {
		items[i] = fmt.Sprintf("(%s, %s)", vh.CoqN(e.k), CoqFrame(e.f, nm))
	}
	if len(items) == 0 {
		return "([] : list (cid * frame))"
	}
	return "[" + strings.Join(items, "; ") + "]"
}

func CoqObs(data []byte, err error) string {
	if err != nil {
		return "OErr"
	}
	return "(OOk " + vh.CoqBytes(data) + ")"
}

func CoqLoadCase(s *Scenario, nm *Numbering, rng *vh.Rng, data []byte, err error) string {
	return fmt.Sprintf("CLoad %s (%s) %s", CoqStore(s, nm, rng), CoqFrame(s.First, nm), CoqObs(data, err))
}

// CoqLayoutCase: the unfaulted layout of p alone (store in index order), to be recomputed by the model's writer.
func CoqLayoutCase(p *Payload) string {
	nm := NewNumbering(p)
	s := NewScenario(p)
	chunks := make([]string, len(p.Chunks))
	for i, c := range p.Chunks {
		chunks[i] = vh.CoqBytes(c)
	}
	h := "None"
	if !p.NoHash {
		h = "(Some " + vh.CoqN(p.Hash()) + ")"
	}
	return fmt.Sprintf("CLayout %s [%s] %s %s %s (%s)", vh.CoqNat(p.Fanout), strings.Join(chunks, "; "), h,
		vh.CoqN(LayoutBase), CoqStore(s, nm, nil), CoqFrame(p.Frames[0], nm))
}

func CoqHashCase(d []byte) string {
	return fmt.Sprintf("CHash %s %s %s", vh.CoqBytes(d), vh.CoqN(Crc(d)), vh.CoqN(Fnv(d)))
}

func Itoa(i int) string { return strconv.Itoa(i) }
