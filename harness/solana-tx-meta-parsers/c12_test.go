package solanatxmetaparsers

// Verification harness for C12, transaction status metadata parsers (injected with `go test -overlay`; not part of
// the repository). Valid metadata encoded by the real encoders (proto.Marshal of confirmed_block.TransactionStatusMeta;
// the generated BincodeSerialize of the two legacy layouts) is mutated (every truncation, random edits, every 8-byte
// bincode sequence-length field set to boundary values, junk) and run through ParseAnyTransactionStatusMeta and
// ParseTransactionStatusMetaContainer (+ the container getters) under the c12h watchdog (child process under
// ulimit -v, recover(), allocation accounting). Oracle only: no panic, no allocation out of proportion to the
// input, no hang.

import (
	"fmt"
	"testing"

	metalatest "github.com/rpcpool/yellowstone-faithful/parse_legacy_transaction_status_meta/v-latest"
	metaoldest "github.com/rpcpool/yellowstone-faithful/parse_legacy_transaction_status_meta/v-oldest"
	"github.com/rpcpool/yellowstone-faithful/third_party/solana_proto/confirmed_block"
	"github.com/rpcpool/yellowstone-faithful/zzverif/c12h"
	"github.com/rpcpool/yellowstone-faithful/zzverif/vh"
	"google.golang.org/protobuf/proto"
)

func vc12U64s(rng *vh.Rng, n int) []uint64 {
	out := make([]uint64, n)
	for i := range out {
		out[i] = rng.U64() >> uint(rng.Intn(60))
	}
	return out
}

func vc12ProtoSeeds(rng *vh.Rng) ([]c12h.Seed, error) {
	cu := uint64(123456)
	sh := uint32(2)
	full := &confirmed_block.TransactionStatusMeta{
		Err:          &confirmed_block.TransactionError{Err: []byte{8, 0, 0, 0, 2, 25, 0, 0, 0, 77, 0, 0, 0}},
		Fee:          5000,
		PreBalances:  vc12U64s(rng, 5),
		PostBalances: vc12U64s(rng, 5),
		InnerInstructions: []*confirmed_block.InnerInstructions{
			{Index: 0, Instructions: []*confirmed_block.InnerInstruction{
				{ProgramIdIndex: 3, Accounts: []byte{0, 1, 2}, Data: rng.Bytes(12), StackHeight: &sh},
				{ProgramIdIndex: 4, Accounts: []byte{1}, Data: rng.Bytes(3)}}},
			{Index: 2, Instructions: []*confirmed_block.InnerInstruction{{ProgramIdIndex: 1, Accounts: nil, Data: nil}}},
		},
		LogMessages: []string{"Program 11111111111111111111111111111111 invoke [1]", "Program log: hello", "Program 11111111111111111111111111111111 success"},
		PreTokenBalances: []*confirmed_block.TokenBalance{{AccountIndex: 1, Mint: "So11111111111111111111111111111111111111112",
			UiTokenAmount: &confirmed_block.UiTokenAmount{UiAmount: 1.5, Decimals: 9, Amount: "1500000000", UiAmountString: "1.5"},
			Owner:         "owner", ProgramId: "TokenkegQfeZyiNwAJbNbGKPFXCWuBvf9Ss623VQ5DA"}},
		PostTokenBalances:       []*confirmed_block.TokenBalance{{AccountIndex: 1, Mint: "mint", UiTokenAmount: &confirmed_block.UiTokenAmount{Amount: "0"}}},
		Rewards:                 []*confirmed_block.Reward{{Pubkey: "pk", Lamports: -5, PostBalance: 10, RewardType: confirmed_block.RewardType_Fee, Commission: "7"}},
		LoadedWritableAddresses: [][]byte{rng.Bytes(32), rng.Bytes(32)},
		LoadedReadonlyAddresses: [][]byte{rng.Bytes(32)},
		ReturnData:              &confirmed_block.ReturnData{ProgramId: rng.Bytes(32), Data: rng.Bytes(9)},
		ComputeUnitsConsumed:    &cu,
	}
	minimal := &confirmed_block.TransactionStatusMeta{Fee: 1, InnerInstructionsNone: true, LogMessagesNone: true, ReturnDataNone: true}
	medium := &confirmed_block.TransactionStatusMeta{
		Fee: 10000, PreBalances: vc12U64s(rng, 3), PostBalances: vc12U64s(rng, 3),
		LogMessages:             []string{"a", ""},
		LoadedReadonlyAddresses: [][]byte{rng.Bytes(32)},
	}
	var seeds []c12h.Seed
	for i, m := range []*confirmed_block.TransactionStatusMeta{full, minimal, medium} {
		b, err := proto.MarshalOptions{Deterministic: true}.Marshal(m)
		if err != nil {
			return nil, err
		}
		seeds = append(seeds, c12h.Seed{Name: fmt.Sprintf("protobuf-%d", i), Data: b})
	}
	return seeds, nil
}

func vc12CI(rng *vh.Rng) metalatest.CompiledInstruction {
	var ci metalatest.CompiledInstruction
	b := rng.Bytes(9)
	ci.ProgramIdIndex = b[0]
	ci.Accounts.Field0.Field0, ci.Accounts.Field1, ci.Accounts.Field2, ci.Accounts.Field3 = b[1], b[2], b[3], b[4]
	ci.Data.Field0.Field0, ci.Data.Field1, ci.Data.Field2, ci.Data.Field3 = b[5], b[6], b[7], b[8]
	return ci
}

// a legacy seed and the offsets of its 8-byte sequence-length fields (Nums), checked against the bytes
func vc12Legacy(name string, data []byte, statusLen int, npre, npost int, inner *[]metalatest.InnerInstructions, hasInner bool) (c12h.Seed, error) {
	var offs, want []uint64
	p := statusLen + 8
	offs, want = append(offs, uint64(p)), append(want, uint64(npre))
	p += 8 + 8*npre
	offs, want = append(offs, uint64(p)), append(want, uint64(npost))
	p += 8 + 8*npost
	if hasInner {
		if inner == nil {
			p++
		} else {
			p++
			offs, want = append(offs, uint64(p)), append(want, uint64(len(*inner)))
			p += 8
			for _, ii := range *inner {
				p++ // index
				offs, want = append(offs, uint64(p)), append(want, uint64(len(ii.Instructions)))
				p += 8 + 9*len(ii.Instructions)
			}
		}
	}
	if p != len(data) {
		return c12h.Seed{}, fmt.Errorf("%s: computed layout ends at %d, encoding has %d bytes", name, p, len(data))
	}
	for i, o := range offs {
		if c12h.GetLE(data, int(o), 8) != want[i] {
			return c12h.Seed{}, fmt.Errorf("%s: length field at %d holds %d, expected %d", name, o, c12h.GetLE(data, int(o), 8), want[i])
		}
	}
	return c12h.Seed{Name: name, Data: data, Nums: offs}, nil
}

func vc12BincodeSeeds(rng *vh.Rng) ([]c12h.Seed, error) {
	var seeds []c12h.Seed
	customL := metalatest.InstructionError__Custom(77)
	customO := metaoldest.InstructionError__CustomError(5)
	type latest struct {
		status metalatest.Result
		npre   int
		inner  *[]metalatest.InnerInstructions
	}
	inner2 := []metalatest.InnerInstructions{{Index: 1, Instructions: []metalatest.CompiledInstruction{vc12CI(rng), vc12CI(rng)}}, {Index: 2}}
	inner0 := []metalatest.InnerInstructions{}
	for i, l := range []latest{
		{&metalatest.Result__Ok{}, 3, &inner2},
		{&metalatest.Result__Err{Value: &metalatest.TransactionError__InstructionError{Field0: 2, Field1: &customL}}, 2, nil},
		{&metalatest.Result__Ok{}, 0, &inner0},
	} {
		m := metalatest.TransactionStatusMeta{Status: l.status, Fee: 5000 + uint64(i), PreBalances: vc12U64s(rng, l.npre), PostBalances: vc12U64s(rng, l.npre), InnerInstructions: l.inner}
		data, err := m.BincodeSerialize()
		if err != nil {
			return nil, err
		}
		sb, err := l.status.BincodeSerialize()
		if err != nil {
			return nil, err
		}
		s, err := vc12Legacy(fmt.Sprintf("bincode-latest-%d", i), data, len(sb), l.npre, l.npre, l.inner, true)
		if err != nil {
			return nil, err
		}
		seeds = append(seeds, s)
	}
	type oldest struct {
		status metaoldest.Result
		npre   int
	}
	for i, o := range []oldest{
		{&metaoldest.Result__Ok{}, 4},
		{&metaoldest.Result__Err{Value: &metaoldest.TransactionError__InstructionError{Field0: 0, Field1: &customO}}, 1},
	} {
		m := metaoldest.TransactionStatusMeta{Status: o.status, Fee: 7000 + uint64(i), PreBalances: vc12U64s(rng, o.npre), PostBalances: vc12U64s(rng, o.npre)}
		data, err := m.BincodeSerialize()
		if err != nil {
			return nil, err
		}
		sb, err := o.status.BincodeSerialize()
		if err != nil {
			return nil, err
		}
		s, err := vc12Legacy(fmt.Sprintf("bincode-oldest-%d", i), data, len(sb), o.npre, o.npre, nil, false)
		if err != nil {
			return nil, err
		}
		seeds = append(seeds, s)
	}
	return seeds, nil
}

func vc12Seeds(dir string, rng *vh.Rng) ([]c12h.Seed, error) {
	ps, err := vc12ProtoSeeds(rng)
	if err != nil {
		return nil, err
	}
	bs, err := vc12BincodeSeeds(rng)
	if err != nil {
		return nil, err
	}
	seeds := append(ps, bs...)
	// every valid seed must parse, as the kind it was encoded with (the oldest layout is a prefix of the latest one,
	// so an "oldest" encoding followed by nothing fails the latest parser and is taken by the oldest)
	seeds = c12h.KeepSeeds(seeds, func(i int, s *c12h.Seed) error {
		c, err := ParseTransactionStatusMetaContainer(s.Data)
		if err != nil {
			return fmt.Errorf("does not parse: %v", err)
		}
		if !c.Ok() {
			return fmt.Errorf("empty container")
		}
		return nil
	})
	return seeds, nil
}

const vc12Entry = "parse-any"

func vc12Gen(seeds []c12h.Seed, rng *vh.Rng, thorough bool) []c12h.Input {
	var ins []c12h.Input
	nrand := 3000 / len(seeds)
	if thorough {
		nrand = 40000 / len(seeds)
	}
	for si := range seeds {
		s := &seeds[si]
		ins = append(ins, c12h.Input{Entry: vc12Entry, Label: "valid", Data: s.Data})
		// sequence-length fields of the bincode encodings (lengths up to 2^31-1 are accepted by the decoder)
		var fields []c12h.Field
		for _, o := range s.Nums {
			fields = append(fields, c12h.Field{Name: "seqlen", Off: int(o), Len: 8})
		}
		ins = append(ins, c12h.MutateFields(vc12Entry, s, fields, nil, nil)...)
		for _, f := range fields {
			for _, v := range []uint64{3, 4, 5, 1 << 22, 1 << 27, 1<<31 - 1} {
				d := append([]byte(nil), s.Data...)
				for i := 0; i < 8; i++ {
					d[f.Off+i] = byte(v >> (8 * uint(i)))
				}
				ins = append(ins, c12h.Input{Entry: vc12Entry, Label: "field:seqlen", Data: d})
			}
		}
		// truncation at every byte
		if len(s.Data) < 1200 || thorough {
			for n := 0; n < len(s.Data); n++ {
				ins = append(ins, c12h.Input{Entry: vc12Entry, Label: "truncate", Data: append([]byte(nil), s.Data[:n]...)})
			}
		} else {
			ins = append(ins, c12h.Truncations(vc12Entry, s, nil, nil, nil)...)
		}
		// extension: the legacy parsers accept trailing bytes
		for _, k := range []int{1, 7, 8, 64} {
			ins = append(ins, c12h.Input{Entry: vc12Entry, Label: "extend", Data: append(append([]byte(nil), s.Data...), rng.Bytes(k)...)})
		}
		ins = append(ins, c12h.RandomMutations(vc12Entry, s, rng, nrand, 0, nil, nil)...)
	}
	ins = append(ins, c12h.Junk(vc12Entry, rng, 200, nil)...)
	ins = append(ins, c12h.Junk(vc12Entry, rng, 200, []byte{0, 0, 0, 0})...)                                  // Result::Ok
	ins = append(ins, c12h.Junk(vc12Entry, rng, 200, []byte{1, 0, 0, 0, 8, 0, 0, 0, 1, 25, 0, 0, 0})...)      // Result::Err(InstructionError(1, Custom(..
	ins = append(ins, c12h.Junk(vc12Entry, rng, 100, []byte{0, 0, 0, 0, 1, 0, 0, 0, 0, 0, 0, 0, 1, 0, 0})...) // Ok, fee 1, one pre-balance ..
	return ins
}

func vc12Exec(in *c12h.Input) c12h.Obs {
	v, err := ParseAnyTransactionStatusMeta(in.Data)
	c, err2 := ParseTransactionStatusMetaContainer(in.Data)
	if err != nil || err2 != nil {
		fine := "error"
		if (err == nil) != (err2 == nil) {
			fine = "any-and-container-disagree"
		}
		return c12h.Obs{Class: "error", Fine: fine}
	}
	_ = v
	fine := "empty"
	_ = c.Ok()
	_ = c.IsEmpty()
	switch {
	case c.IsProtobuf():
		fine = "protobuf"
		_ = c.GetProtobuf().GetFee()
	case c.IsSerdeLatest():
		fine = "latest"
		_ = c.GetSerdeLatest().Fee
	case c.IsSerdeOldest():
		fine = "oldest"
		_ = c.GetSerdeOldest().Fee
	}
	accounts := c.GetLoadedAccounts()
	return c12h.Obs{Class: "ok", Fine: fine, Nums: []uint64{uint64(len(accounts))}}
}

func vc12Budget(in *c12h.Input) uint64 { return uint64(64*len(in.Data)) + 1<<20 }

func TestVerif_C12(t *testing.T) {
	c12h.Run(t, &c12h.Part{
		Name:  "txmeta",
		Rule:  "ParseAnyTransactionStatusMeta + ParseTransactionStatusMetaContainer (+ getters) on mutated valid protobuf / bincode (latest, oldest) metadata (every truncation, random edits, every bincode sequence-length field set to boundary values, junk): no panic, allocation <= 64*len+1MiB, no hang",
		Seeds: vc12Seeds, Gen: vc12Gen, Exec: vc12Exec, Budget: vc12Budget,
	})
}
