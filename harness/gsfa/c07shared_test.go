package gsfa

// Verification harness for C07, addresses that SHARE transactions, on long-lived readers
// (injected with `go test -overlay` together with c07_test.go, whose helpers it uses; not part of the repository).
//
// A transaction mentions several accounts and therefore sits in the linked list of each of them. The single-address
// sweep of c07_test.go gives every address its own transactions; here the addresses of a GROUP draw their histories from
// one pool of transactions (every transaction is pushed with 1..k of the group's addresses, as the indexer does with the
// account keys of a transaction), so that the same signature occurs in several histories, at a different place in each.
//
// The property is about every single request; a server answers requests one after the other on the SAME loaded epochs.
// So ONE set of GsfaReader objects (and the GsfaReaderMultiepoch values built over them) is opened once and serves the
// whole run, and the requests of the addresses of a group are interleaved:
//   paging   for every ordered pair (A,B) of a group: A's history is paged through (page sizes 1,2,3,N; `before` = last
//            signature of the previous page, as a client does) and after each page B is asked with `before` = the last
//            signature of that page (when B's history holds it) - then B with every signature of A as `before`;
//   sweep    every (limit, before, until) of every address of the group, `before`/`until` drawn from the histories of
//            ALL addresses of the group (own signatures, signatures of the others only, an absent one), round-robin over
//            the addresses; slot-bounded calls in between;
//   again    all requests of the group once more in a shuffled order, and at the end a sample of all requests of all
//            groups in one shuffled order.
// Oracle: unchanged - the slice specification / slot window evaluated per request on that address's own flat history
// (a `before` that is not in the address's history selects nothing). A sample of the calls goes to the Coq checker
// (the same case shape: one request against one history).
// A mismatch is re-run on FRESHLY opened readers: when those give the expected slice the failure is reported as
// `sig-result-depends-on-earlier-requests` (state kept on the readers), otherwise as the plain mismatch.

import (
	"context"
	"encoding/binary"
	"fmt"
	"os"
	"path/filepath"
	"sync"
	"testing"

	"github.com/gagliardetto/solana-go"
	"github.com/ipfs/go-cid"
	"github.com/rpcpool/yellowstone-faithful/gsfa/linkedlog"
	"github.com/rpcpool/yellowstone-faithful/indexes"
	"github.com/rpcpool/yellowstone-faithful/indexmeta"
	"github.com/rpcpool/yellowstone-faithful/ipld/ipldbindcode"
	"github.com/rpcpool/yellowstone-faithful/slottools"
	"github.com/rpcpool/yellowstone-faithful/zzverif/vh"
)

type vc07Group struct {
	no     int
	addrs  []int // indexes into the fixture's address list
	shared int   // transactions that mention >= 2 addresses
	pool   int   // transactions of the group
}

// vc07BuildShared writes three indexes holding nGroups groups of 2..4 addresses. Signature id = group number * 100 +
// position of the transaction in the group's time line (1 = oldest), so an id is unique inside every history.
func vc07BuildShared(rng *vh.Rng, nGroups int) (fx *vc07Fixture, groups []vc07Group, err error) {
	fx = &vc07Fixture{txs: map[[2]uint64]*ipldbindcode.Transaction{}}
	root := filepath.Join(vh.OutDir(), "c07shidx")
	_ = os.RemoveAll(root)
	type op struct {
		flush bool
		pk    solana.PublicKey // flush: the key to flush
		keys  solana.PublicKeySlice
		ent   vc07Entry
		off   uint64
		size  uint64
	}
	var ops [3][]op
	nextOff := uint64(5000)
	addrNo := 0
	for g := 1; g <= nGroups; g++ {
		k := rng.Pick(2, 2, 3, 3, 4)
		grp := vc07Group{no: g}
		var as []*vc07Addr
		for j := 0; j < k; j++ {
			addrNo++
			a := &vc07Addr{}
			binary.LittleEndian.PutUint32(a.pk[0:4], uint32(addrNo))
			a.pk[4] = 0x5A
			a.pk[5] = byte(rng.Intn(256))
			a.pk[31] = 0xC7
			grp.addrs = append(grp.addrs, len(fx.addrs))
			fx.addrs = append(fx.addrs, a)
			as = append(as, a)
		}
		var n [3]int
		for {
			for i := range n {
				n[i] = rng.Pick(0, 1, 2, 2, 3, 3, 4, 5)
			}
			if n[0]+n[1]+n[2] >= 2 {
				break
			}
		}
		forcedAll := rng.Intn(n[0] + n[1] + n[2]) // this transaction mentions every address of the group
		pos := 0
		for i := 2; i >= 0; i-- { // oldest epoch first: ids grow with time
			e := vc07Epochs[i]
			base := e * slottools.EpochLen
			slot := base + uint64(rng.Pick(0, 0, 1, 7, 431980))
			recsOldestFirst := make([][][]vc07Entry, k)
			open := make([][]vc07Entry, k)
			for x := 0; x < n[i]; x++ {
				pos++
				ent := vc07Entry{Sig: g*100 + pos, Slot: slot, Epoch: e}
				slot += uint64(rng.Pick(0, 0, 1, 1, 2, 5))
				if slot > base+slottools.EpochLen-1 {
					slot = base + slottools.EpochLen - 1
				}
				// who is mentioned: all / two / one of the addresses
				var who []int
				switch c := rng.Intn(6); {
				case pos-1 == forcedAll || c < 2:
					for j := 0; j < k; j++ {
						who = append(who, j)
					}
				case c < 4:
					p := rng.Perm(k)
					who = []int{p[0], p[1]}
				default:
					who = []int{rng.Intn(k)}
				}
				if len(who) >= 2 {
					grp.shared++
				}
				grp.pool++
				var keys solana.PublicKeySlice
				for _, j := range who {
					keys = append(keys, as[j].pk)
					open[j] = append(open[j], ent)
				}
				nextOff += uint64(200 + rng.Intn(50))
				ops[i] = append(ops[i], op{keys: keys, ent: ent, off: nextOff, size: uint64(150 + rng.Intn(40))})
				fx.txs[[2]uint64{e, nextOff}] = &ipldbindcode.Transaction{
					Kind: 0,
					Data: ipldbindcode.DataFrame{Kind: 6, Data: append([]byte{1}, func() []byte { s := vc07SigBytes(ent.Sig); return s[:] }()...)},
					Slot: int(ent.Slot),
				}
				// record boundaries: what Push's periodic flush does for a key (the other keys keep accumulating)
				for _, j := range who {
					if rng.Intn(3) == 0 {
						ops[i] = append(ops[i], op{flush: true, pk: as[j].pk})
						recsOldestFirst[j] = append(recsOldestFirst[j], open[j])
						open[j] = nil
					}
				}
			}
			for j := 0; j < k; j++ {
				if len(open[j]) > 0 { // left for Close (flushAccum)
					recsOldestFirst[j] = append(recsOldestFirst[j], open[j])
				}
				a := as[j]
				for r := len(recsOldestFirst[j]) - 1; r >= 0; r-- {
					rec := recsOldestFirst[j][r]
					rev := make([]vc07Entry, len(rec))
					for x := range rec {
						rev[len(rec)-1-x] = rec[x]
					}
					a.chain[i] = append(a.chain[i], rev)
					a.counts[i] += len(rec)
				}
			}
		}
		groups = append(groups, grp)
	}
	dummyRoot := cid.MustParse("bafyreics5uul5lbtxslcigtoa5fkba7qgwu7cyb7ih7z6fzsh4lgfgraau")
	var wg sync.WaitGroup
	errs := make([]error, 3)
	for i := 0; i < 3; i++ {
		i := i
		e := vc07Epochs[i]
		fx.dirs[i] = filepath.Join(root, fmt.Sprintf("epoch-%d", e))
		tmp := filepath.Join(root, fmt.Sprintf("tmp-%d", e))
		if err := os.MkdirAll(tmp, 0o755); err != nil {
			return nil, nil, err
		}
		wg.Add(1)
		go func() {
			defer wg.Done()
			defer func() {
				if p := recover(); p != nil {
					errs[i] = fmt.Errorf("panic while writing the index: %v", p)
				}
			}()
			w, err := NewGsfaWriter(fx.dirs[i], indexmeta.Meta{}, e, dummyRoot, indexes.NetworkMainnet, tmp)
			if err != nil {
				errs[i] = err
				return
			}
			for _, o := range ops[i] {
				if o.flush {
					w.mu.Lock()
					vals, ok := w.accum.Get(o.pk)
					if ok && len(vals) > 0 {
						err = w.flushKVs(linkedlog.KeyToOffsetAndSizeAndBlocktime{Key: o.pk, Values: vals})
						w.accum.Delete(o.pk)
					}
					w.mu.Unlock()
				} else {
					err = w.Push(o.off, o.size, o.ent.Slot, o.keys, true, true, false)
				}
				if err != nil {
					break
				}
			}
			if err == nil {
				err = w.Close()
			}
			errs[i] = err
		}()
	}
	wg.Wait()
	for i, e := range errs {
		if e != nil {
			return nil, nil, fmt.Errorf("writing the index of epoch %d: %v", vc07Epochs[i], e)
		}
	}
	for i := 0; i < 3; i++ {
		r, err := NewGsfaReader(fx.dirs[i])
		if err != nil {
			return nil, nil, fmt.Errorf("opening the index of epoch %d: %v", vc07Epochs[i], err)
		}
		r.SetEpoch(vc07Epochs[i])
		fx.readers[i] = r
	}
	return fx, groups, nil
}

// one request (against one address's history)
type vc07Req struct {
	ai      int
	readers []int
	slot    bool
	limit   int
	before  *int
	until   *int
	bs, us  uint64
	coq     bool
}

func vc07IntP(v int) *int { return &v }

func vc07HasSig(h []vc07Entry, s int) bool {
	for _, x := range h {
		if x.Sig == s {
			return true
		}
	}
	return false
}

func TestVerif_C07Shared(t *testing.T) {
	rng := vh.NewRng(vh.Seed() + 0xC07C07)
	nGroups := 48
	if vh.Thorough() {
		nGroups = 600
	}
	rep := vh.NewReport("C07", "shared",
		"groups of 2..4 addresses whose histories are drawn from one pool of transactions (0..5 per epoch, each pushed with 1..k of the addresses; record boundaries per address); "+
			"ONE set of readers for the whole run; per group: A paged through (page sizes 1,2,3,N) with B asked at every page end, for every ordered pair (A,B); every (limit, before, until) with before/until from the histories of all addresses of the group, round-robin over the addresses, slot windows in between; everything again in shuffled order; "+
			"oracle: slice specification / slot window per request; non-trivial = history >= 2 entries and non-empty expected result; distinct by (address, readers, parameters)")
	cases := vh.NewCases("cases_c07_shared", []string{"YF.C07_Model", "YF.C07_Check"}, "case", "check")
	finish := func() {
		if err := cases.Write(); err != nil {
			t.Fatal(err)
		}
		rep.CasesWritten(cases)
		if err := rep.Write(); err != nil {
			t.Fatal(err)
		}
	}
	fx, groups, err := vc07BuildShared(rng, nGroups)
	defer os.RemoveAll(filepath.Join(vh.OutDir(), "c07shidx"))
	if err != nil {
		// the real writer refuses the (valid) pushes on this tree: nothing to query here; the other parts still run
		rep.Note("shared-transaction indexes could not be written with the real writer on this tree, part skipped: %v", err)
		finish()
		return
	}
	defer func() {
		for _, r := range fx.readers {
			if r != nil {
				r.Close()
			}
		}
	}()
	run := &vc07Run{fx: fx, rep: rep, cases: cases, multis: map[string]*GsfaReaderMultiepoch{}, named: map[string]string{}, t: t, kind: "shared-"}
	diagnosed := 0
	run.onMismatch = func(c *vc07Call, sig string) string {
		if diagnosed >= 200 {
			rep.Count("mismatch-not-diagnosed-further")
			return ""
		}
		diagnosed++
		// the same call on readers opened for it alone
		var rs []*GsfaReader
		defer func() {
			for _, r := range rs {
				r.Close()
			}
		}()
		for _, i := range c.Readers {
			r, err := NewGsfaReader(fx.dirs[i])
			if err != nil {
				return sig
			}
			r.SetEpoch(vc07Epochs[i])
			rs = append(rs, r)
		}
		m, err := NewGsfaReaderMultiepoch(rs)
		if err != nil {
			return sig
		}
		a := fx.addrs[c.Addr]
		var obs vc07Obs
		func() {
			defer func() {
				if p := recover(); p != nil {
					obs = vc07Obs{Err: fmt.Sprintf("panic: %v", p)}
				}
			}()
			if c.Kind == "shared-slot" {
				res, err := m.GetBeforeUntilSlot(context.Background(), a.pk, c.Limit, c.BeforeS, c.UntilS, fx.fetcher)
				obs = vc07Observe(res, err)
				return
			}
			var bp, up *solana.Signature
			if c.Before != nil {
				s := vc07SigBytes(*c.Before)
				bp = &s
			}
			if c.Until != nil {
				s := vc07SigBytes(*c.Until)
				up = &s
			}
			res, err := m.GetBeforeUntil(context.Background(), a.pk, c.Limit, bp, up, fx.fetcher)
			obs = vc07Observe(res, err)
		}()
		c.Fresh = &obs
		if obs.Err == "" && vc07SameGrouped(c.Expect, obs) {
			if c.Kind == "shared-slot" {
				return "slot-result-depends-on-earlier-requests"
			}
			return "sig-result-depends-on-earlier-requests"
		}
		return sig
	}
	rep.Flag("groups", len(groups))
	rep.Flag("addresses", len(fx.addrs))

	full := []int{0, 1, 2}
	do := func(q vc07Req) {
		if q.slot {
			run.callSlot(q.ai, q.readers, q.limit, q.bs, q.us, q.coq)
			rep.Count("slot-calls")
		} else {
			run.callSig(q.ai, q.readers, q.limit, q.before, q.until, q.coq)
			rep.Count("sig-calls")
		}
	}
	var sample []vc07Req // for the final pass over all groups
	for _, grp := range groups {
		rep.Count(fmt.Sprintf("group-addresses=%d", len(grp.addrs)))
		rep.CountN("transactions", grp.pool)
		rep.CountN("transactions-mentioning->=2-addresses", grp.shared)
		var all []vc07Req
		issue := func(q vc07Req) {
			all = append(all, q)
			do(q)
		}
		// ---- paging through A, B asked at the page ends
		// all three epochs, and one two-epoch list per group (another GsfaReaderMultiepoch over the same GsfaReader objects)
		readerLists := [][]int{full, vc07Subsets()[1+rng.Intn(3)]}
		for _, readers := range readerLists {
			for _, ai := range grp.addrs {
				hA := fx.addrs[ai].flat(readers)
				if len(hA) == 0 {
					continue
				}
				for _, bi := range grp.addrs {
					if bi == ai {
						continue
					}
					hB := fx.addrs[bi].flat(readers)
					common := 0
					for _, x := range hA {
						if vc07HasSig(hB, x.Sig) {
							common++
						}
					}
					if common == 0 {
						continue
					}
					rep.Count("paging-pairs")
					var sizes []int
					for _, p := range []int{1, 2, 3, len(hA)} {
						if len(sizes) == 0 || p > sizes[len(sizes)-1] {
							sizes = append(sizes, p)
						}
					}
					for _, p := range sizes {
						var before *int
						for {
							page := vc07SliceSpec(hA, p, before, nil) // the page a correct server returns; the client goes on from its end
							issue(vc07Req{ai: ai, readers: readers, limit: p, before: before, coq: rng.Intn(80) == 0})
							if len(page) == 0 {
								break
							}
							last := page[len(page)-1].Sig
							if vc07HasSig(hB, last) {
								rep.Count("page-ends-on-shared-transaction")
								issue(vc07Req{ai: bi, readers: readers, limit: 1, before: vc07IntP(last), coq: rng.Intn(16) == 0})
								issue(vc07Req{ai: bi, readers: readers, limit: 1000, before: vc07IntP(last), coq: rng.Intn(16) == 0})
								var u *int
								if rng.Bool() {
									u = vc07IntP(hB[rng.Intn(len(hB))].Sig)
								}
								issue(vc07Req{ai: bi, readers: readers, limit: rng.Range(1, len(hB)+1), before: vc07IntP(last), until: u, coq: rng.Intn(16) == 0})
							}
							before = vc07IntP(last)
						}
					}
					// B with every signature of A as `before` (own ones select a suffix, foreign ones nothing)
					for _, x := range hA {
						issue(vc07Req{ai: bi, readers: readers, limit: rng.Pick(1, 2, 1000), before: vc07IntP(x.Sig), coq: rng.Intn(60) == 0})
					}
				}
			}
		}
		// ---- sweep, round-robin over the addresses of the group
		// marks: the signatures of the whole group (own, foreign) and an absent one
		var groupSigs []int
		seen := map[int]bool{}
		for _, ai := range grp.addrs {
			for _, x := range fx.addrs[ai].flat(full) {
				if !seen[x.Sig] {
					seen[x.Sig] = true
					groupSigs = append(groupSigs, x.Sig)
				}
			}
		}
		absent := grp.no*100 + 99
		var marks []*int
		marks = append(marks, nil)
		for _, s := range groupSigs {
			marks = append(marks, vc07IntP(s))
		}
		marks = append(marks, &absent)
		perAddr := make([][]vc07Req, len(grp.addrs))
		for gi, ai := range grp.addrs {
			h := fx.addrs[ai].flat(full)
			n := len(h)
			rep.Count(fmt.Sprintf("history-len=%d", n))
			limits := []int{0, 1, 2, 3, 1000}
			if n > 3 {
				limits = append(limits, n)
			}
			if n+1 > 3 {
				limits = append(limits, n+1)
			}
			for _, limit := range limits {
				for _, b := range marks {
					for _, u := range marks {
						if len(marks) > 9 && u != nil && rng.Intn(3) != 0 {
							continue // large groups: a third of the `until` values per (limit, before)
						}
						perAddr[gi] = append(perAddr[gi], vc07Req{ai: ai, readers: full, limit: limit, before: b, until: u, coq: rng.Intn(300) == 0})
					}
				}
			}
			// slot windows over the slots of the history and their neighbours
			if n > 0 {
				var pts []uint64
				for _, x := range h {
					pts = append(pts, x.Slot, x.Slot+1)
				}
				pts = append(pts, 0, 1<<40, vc07Epochs[1]*slottools.EpochLen, (vc07Epochs[1]+1)*slottools.EpochLen)
				for c := 0; c < 16; c++ {
					b, u := pts[rng.Intn(len(pts))], pts[rng.Intn(len(pts))]
					if u > b {
						b, u = u, b
					}
					perAddr[gi] = append(perAddr[gi], vc07Req{ai: ai, readers: full, slot: true, limit: rng.Pick(1, 2, 1000), bs: b, us: u, coq: rng.Intn(80) == 0})
				}
				// shuffle this address's list so that slot windows and signature requests mix
				p := rng.Perm(len(perAddr[gi]))
				mixed := make([]vc07Req, len(p))
				for x, y := range p {
					mixed[x] = perAddr[gi][y]
				}
				perAddr[gi] = mixed
			}
		}
		for x := 0; ; x++ {
			any := false
			for gi := range perAddr {
				if x < len(perAddr[gi]) {
					any = true
					issue(perAddr[gi][x])
				}
			}
			if !any {
				break
			}
		}
		// ---- everything again, shuffled, on the same readers
		for _, y := range rng.Perm(len(all)) {
			q := all[y]
			q.coq = false
			do(q)
			rep.Count("calls-repeated-in-shuffled-order")
			if rng.Intn(5) == 0 {
				sample = append(sample, q)
			}
		}
		if len(rep.Samples) < 3 && grp.shared >= 3 && len(grp.addrs) >= 3 {
			var hs []interface{}
			for _, ai := range grp.addrs {
				c := run.describe(ai, full)
				hs = append(hs, map[string]interface{}{"address": ai, "record_sizes": c.Records, "history": c.History})
			}
			rep.Sample(map[string]interface{}{"group": grp.no, "histories_sharing_transactions": hs})
		}
	}
	for _, y := range rng.Perm(len(sample)) {
		do(sample[y])
		rep.Count("calls-repeated-in-shuffled-order-across-groups")
	}
	rep.Flag("fetcher_calls", fx.fetches)
	rep.Flag("readers_opened_once", true)
	rep.Note("the three GsfaReader objects are opened once and serve every request of this part (as the epochs of a running server do); a failing request is repeated on freshly opened readers to tell state kept on the readers from a wrong walk")
	rep.Note("replay: the requests depend on what was asked before on the same readers; re-running with the same seed and tier repeats the whole sequence (the record of a failure lists the calls that preceded it)")
	finish()
}
