package gsfa

// Verification harness for C12, address-index log whose previous-record pointers do not point backwards
// (injected with `go test -overlay`; not part of the repository).
//
// A linked log written by the real writer (several addresses, chains of 1..4 records) is edited: the 9-byte pointer at
// the end of a record (offset of the previous record of the same address, 6 bytes, and its size, 3 bytes) is made to
// point to the record itself, to a LATER record of the file, or two records are made to point at each other. The
// edited index is then queried as the server does (GetBeforeUntil with a `before` signature that is not part of the
// history, without `before`, with `until` absent; GetBeforeUntilSlot with windows below / inside / above the slots).
// Oracle (C12: querying arbitrary bytes either succeeds or returns an error; it does not loop forever): every call
// returns. "Returns" is decided without a clock: the transaction fetcher given to the query counts its calls and fails
// with a marker error after a budget far above anything a finite walk needs (20 x the number of entries of the whole
// log + 1000); a call that comes back with the marker error was still walking — failure `chain-walk-does-not-end`.
// A panic is a failure too. Valid (unedited) logs are queried the same way as a control and must succeed.

import (
	"context"
	"encoding/binary"
	"errors"
	"fmt"
	"os"
	"path/filepath"
	"testing"

	"github.com/gagliardetto/solana-go"
	"github.com/ipfs/go-cid"
	"github.com/rpcpool/yellowstone-faithful/gsfa/linkedlog"
	"github.com/rpcpool/yellowstone-faithful/indexes"
	"github.com/rpcpool/yellowstone-faithful/indexmeta"
	"github.com/rpcpool/yellowstone-faithful/ipld/ipldbindcode"
	"github.com/rpcpool/yellowstone-faithful/zzverif/vh"
)

var errVc12Budget = errors.New("verif: fetch budget exhausted (the walk does not end)")

type vc12Rec struct{ off, size int } // a record of the log: [off, off+size)

// vc12Records walks the file from the start: uvarint(payload length) | payload (ends with the 9-byte pointer).
func vc12Records(b []byte) []vc12Rec {
	var recs []vc12Rec
	for p := 0; p < len(b); {
		l, n := binary.Uvarint(b[p:])
		if n <= 0 || l < 9 || p+n+int(l) > len(b) {
			break
		}
		recs = append(recs, vc12Rec{p, n + int(l)})
		p += n + int(l)
	}
	return recs
}

func vc12PutPtr(b []byte, r vc12Rec, off, size int) {
	end := r.off + r.size
	var o [8]byte
	binary.LittleEndian.PutUint64(o[:], uint64(off))
	copy(b[end-9:end-3], o[:6])
	var s [4]byte
	binary.LittleEndian.PutUint32(s[:], uint32(size))
	copy(b[end-3:end], s[:3])
}

func TestVerif_C12Chain(t *testing.T) {
	seed := vh.Seed()
	rng := vh.NewRng(seed ^ 0xC12C)
	rep := vh.NewReport("C12", "gsfa-chain",
		"address-index log written by the real writer (4 addresses, 1..4 records each, 1..3 entries per slot) with the previous-record pointer of a record edited "+
			"(to itself, to a later record, two records pointing at each other, every record of a chain in turn), queried through GetBeforeUntil / GetBeforeUntilSlot "+
			"(before absent / not in the history / the newest signature; slot windows below, inside and above the history) with a fetcher that fails after a call budget: "+
			"every call returns without the budget marker and without panic; the unedited log is the control; distinct by (edit, call)")
	defer func() {
		if err := rep.Write(); err != nil {
			t.Fatal(err)
		}
	}()
	const epoch = uint64(5)
	root := filepath.Join(vh.OutDir(), "c12chain")
	_ = os.RemoveAll(root)
	defer os.RemoveAll(root)
	indexDir := filepath.Join(root, "gsfa")
	tmpDir := filepath.Join(root, "tmp")
	if err := os.MkdirAll(tmpDir, 0o755); err != nil {
		t.Fatal(err)
	}
	rootCid := cid.MustParse("bafyreigh2akiscaildcqabsyg3dfr6chu3fgpregiymsck7e7aqa4s52zy")
	meta := indexmeta.Meta{}
	meta.AddUint64(indexmeta.MetadataKey_Epoch, epoch)
	meta.AddCid(indexmeta.MetadataKey_RootCid, rootCid)
	meta.AddString(indexmeta.MetadataKey_Network, string(indexes.NetworkMainnet))
	var pks []solana.PublicKey
	for i := 0; i < 4; i++ {
		var k solana.PublicKey
		k[0], k[1], k[31] = byte(0x40+i), byte(rng.Intn(256)), byte(i+1)
		pks = append(pks, k)
	}
	w, err := NewGsfaWriter(indexDir, meta, epoch, rootCid, indexes.NetworkMainnet, tmpDir)
	if err != nil {
		rep.Note("the real writer could not be created on this tree, part skipped: %v", err)
		return
	}
	// address i gets (i+1) records: flushKVs closes a record for every address pushed since the last flush
	entries := 0
	firstSlot := uint64(2160000)
	slot := firstSlot
	for round := 0; round < 4; round++ {
		for i := round; i < 4; i++ {
			n := 1 + rng.Intn(3)
			for j := 0; j < n; j++ {
				if err := w.Push(uint64(1000+entries*100), 90, slot, solana.PublicKeySlice{pks[i]}, true, true, false); err != nil {
					rep.Note("push refused by the real writer on this tree, part skipped: %v", err)
					return
				}
				entries++
			}
			slot++
		}
		// close a record for every address pushed in this round (the writer's own flushKVs, as its batching does)
		for i := round; i < 4; i++ {
			w.mu.Lock()
			vals, ok := w.accum.Get(pks[i])
			var ferr error
			if ok && len(vals) > 0 {
				ferr = w.flushKVs(linkedlog.KeyToOffsetAndSizeAndBlocktime{Key: pks[i], Values: vals})
				w.accum.Delete(pks[i])
			}
			w.mu.Unlock()
			if ferr != nil {
				rep.Note("flush refused by the real writer on this tree, part skipped: %v", ferr)
				return
			}
		}
	}
	lastSlot := slot
	if err := w.Close(); err != nil {
		rep.Note("close refused by the real writer on this tree, part skipped: %v", err)
		return
	}
	llPath := filepath.Join(indexDir, "linked-log")
	orig, err := os.ReadFile(llPath)
	if err != nil {
		t.Fatal(err)
	}
	recs := vc12Records(orig)
	rep.Flag("records_in_log", len(recs))
	rep.Flag("entries_in_log", entries)
	if len(recs) < 4 {
		rep.Note("the log has only %d records: the writer batches differently on this tree; edits are applied to what is there", len(recs))
	}
	budget := 20*entries + 1000

	type edit struct {
		name string
		do   func(b []byte)
	}
	edits := []edit{{"unedited", func([]byte) {}}}
	for i, r := range recs {
		i, r := i, r
		edits = append(edits, edit{fmt.Sprintf("self:%d", i), func(b []byte) { vc12PutPtr(b, r, r.off, r.size) }})
		if i+1 < len(recs) {
			nx := recs[i+1]
			edits = append(edits, edit{fmt.Sprintf("forward:%d->%d", i, i+1), func(b []byte) { vc12PutPtr(b, r, nx.off, nx.size) }})
			edits = append(edits, edit{fmt.Sprintf("pair:%d<->%d", i, i+1), func(b []byte) {
				vc12PutPtr(b, r, nx.off, nx.size)
				vc12PutPtr(b, nx, r.off, r.size)
			}})
		}
		if last := recs[len(recs)-1]; i != len(recs)-1 {
			edits = append(edits, edit{fmt.Sprintf("to-last:%d", i), func(b []byte) { vc12PutPtr(b, r, last.off, last.size) }})
		}
	}

	var absent solana.Signature
	absent[0], absent[63] = 0xAB, 0xCD
	for _, ed := range edits {
		b := append([]byte(nil), orig...)
		ed.do(b)
		if err := os.WriteFile(llPath, b, 0o644); err != nil {
			t.Fatal(err)
		}
		r, err := NewGsfaReader(indexDir)
		if err != nil {
			rep.Case("open:"+ed.name, true)
			rep.Count("edited log refused at open")
			continue
		}
		r.SetEpoch(epoch)
		multi, err := NewGsfaReaderMultiepoch([]*GsfaReader{r})
		if err != nil {
			r.Close()
			t.Fatal(err)
		}
		for ai, pk := range pks {
			type call struct {
				name string
				run  func(f func(uint64, linkedlog.OffsetAndSizeAndSlot) (*ipldbindcode.Transaction, error)) error
			}
			calls := []call{
				{"sig:before-absent", func(f func(uint64, linkedlog.OffsetAndSizeAndSlot) (*ipldbindcode.Transaction, error)) error {
					_, err := multi.GetBeforeUntil(context.Background(), pk, 1000, &absent, nil, f)
					return err
				}},
				{"sig:no-before", func(f func(uint64, linkedlog.OffsetAndSizeAndSlot) (*ipldbindcode.Transaction, error)) error {
					_, err := multi.GetBeforeUntil(context.Background(), pk, 1000, nil, nil, f)
					return err
				}},
				{"sig:until-absent", func(f func(uint64, linkedlog.OffsetAndSizeAndSlot) (*ipldbindcode.Transaction, error)) error {
					_, err := multi.GetBeforeUntil(context.Background(), pk, 1000, nil, &absent, f)
					return err
				}},
				{"slot:window-below", func(f func(uint64, linkedlog.OffsetAndSizeAndSlot) (*ipldbindcode.Transaction, error)) error {
					_, err := multi.GetBeforeUntilSlot(context.Background(), pk, 1000, firstSlot, firstSlot-10, f)
					return err
				}},
				{"slot:window-inside", func(f func(uint64, linkedlog.OffsetAndSizeAndSlot) (*ipldbindcode.Transaction, error)) error {
					_, err := multi.GetBeforeUntilSlot(context.Background(), pk, 1000, lastSlot-1, firstSlot+1, f)
					return err
				}},
				{"slot:window-above", func(f func(uint64, linkedlog.OffsetAndSizeAndSlot) (*ipldbindcode.Transaction, error)) error {
					_, err := multi.GetBeforeUntilSlot(context.Background(), pk, 1000, lastSlot+100, lastSlot+50, f)
					return err
				}},
			}
			for _, c := range calls {
				fetched := 0
				fetcher := func(epochNum uint64, oas linkedlog.OffsetAndSizeAndSlot) (*ipldbindcode.Transaction, error) {
					fetched++
					if fetched > budget {
						return nil, errVc12Budget
					}
					data := make([]byte, 1+64)
					data[0] = 1
					binary.LittleEndian.PutUint64(data[1:], oas.Offset)
					return &ipldbindcode.Transaction{Kind: 0, Data: ipldbindcode.DataFrame{Kind: 6, Data: data}, Slot: int(oas.Slot)}, nil
				}
				key := fmt.Sprintf("%s|a%d|%s", ed.name, ai, c.name)
				rep.Case(key, ed.name != "unedited")
				var cerr error
				var pv interface{}
				func() {
					defer func() { pv = recover() }()
					cerr = c.run(fetcher)
				}()
				replay := map[string]interface{}{"seed": seed, "edit": ed.name, "address": ai, "call": c.name, "records": len(recs), "fetch_budget": budget}
				switch {
				case pv != nil:
					rep.Fail("panic:gsfa-chain", fmt.Sprintf("%s on address %d with edit %s: panic %v", c.name, ai, ed.name, pv), replay)
				case cerr != nil && errors.Is(cerr, errVc12Budget):
					rep.Fail("chain-walk-does-not-end", fmt.Sprintf("%s on address %d of a log with edit %s (a previous-record pointer that does not point backwards) was still walking after %d transaction fetches (the log holds %d entries): the query does not end", c.name, ai, ed.name, budget, entries), replay)
				case cerr != nil && ed.name == "unedited":
					rep.Fail("valid-log-refused:gsfa-chain", fmt.Sprintf("%s on address %d of the unedited log: %v", c.name, ai, cerr), replay)
				case cerr != nil:
					rep.Count("edited log: query returned an error")
				default:
					rep.Count("query returned a result")
				}
			}
		}
		r.Close()
	}
	_ = os.WriteFile(llPath, orig, 0o644)
}
